(* C02 / C04 (prefix): the primitives of the parser preserve the lossless-text invariant (LosslessDefs.v);
   instance of the generic traversal; the entry-point theorems. *)
From ApolloVerif Require Import Base.Chars Lex.Item Parse.Outcome Parse.Builder Parse.Limits Parse.Monad
  Parse.Keywords Parse.Grammar Parse.Generic Parse.Entry Parse.LosslessDefs.

Lemma ne_mid a d b : ne (a ++ d :: b) = ne a ++ ne [d] ++ ne b.
Proof. change (d :: b) with ([d] ++ b). now rewrite !ne_app. Qed.

(* ---- the lexer-facing loops *)
Lemma lexer_error_effect_spec c d i s :
  let s' := p_lexer_error_effect c d i s in
  ps_builder s' = ps_builder s /\ ps_dropped s' = ps_dropped s /\ ps_cur s' = ps_cur s /\
  ps_items s' = ps_items s /\
  ne (map pend_data (ps_pending s')) = ne (map pend_data (ps_pending s) ++ [d]).
Proof.
  unfold p_lexer_error_effect.
  destruct d as [|x d]; destruct (ps_accept _); destruct c; cbn;
    repeat split; auto; rewrite ?map_app, ?ne_app, ?app_nil_r; reflexivity.
Qed.

Lemma next_token_loop_spec items : forall s o s',
  p_next_token_loop items s = (o, s') ->
  ps_builder s' = ps_builder s /\ ps_dropped s' = ps_dropped s /\ ps_cur s' = ps_cur s /\
  ahead_of (ps_pending s') o (ps_items s') = ne (map pend_data (ps_pending s) ++ map item_data items) /\
  (exists mid, items = mid ++ cur_item o ++ ps_items s') /\
  (o = None -> ps_items s' = []).
Proof.
  induction items as [|it r IH]; intros s o s'; cbn [p_next_token_loop].
  - intros [= <- <-]. cbn. repeat split; auto. exists []. reflexivity.
  - destruct it as [k d i|c d i].
    + intros [= <- <-]. cbn. repeat split; auto. exists []. reflexivity. discriminate.
    + intros E. apply IH in E. destruct E as (Hb & Hd & Hc & Ha & [mid Hm] & Hn).
      pose proof (lexer_error_effect_spec c d i (p_count_pull s)) as (Hb' & Hd' & Hc' & _ & Hp').
      cbn zeta in *. repeat split.
      * now rewrite Hb, Hb'.
      * now rewrite Hd, Hd'.
      * now rewrite Hc, Hc'.
      * rewrite Ha. cbn [map item_data]. rewrite ne_mid, ne_app, Hp', ne_app, <- !app_assoc. reflexivity.
      * exists (IErr c d i :: mid). rewrite Hm. reflexivity.
      * exact Hn.
Qed.

Lemma skip_loop_spec items : forall s s',
  ps_cur s = None -> p_skip_loop items s = s' ->
  ps_builder s' = ps_builder s /\ ps_dropped s' = ps_dropped s /\
  st_ahead s' = ne (map pend_data (ps_pending s) ++ map item_data items) /\
  (exists mid, items = mid ++ cur_item (ps_cur s') ++ ps_items s') /\
  filled s'.
Proof.
  induction items as [|it r IH]; intros s s' Hcur; cbn [p_skip_loop].
  - intros <-. unfold st_ahead, ahead_of, filled. cbn. rewrite Hcur. repeat split; auto.
    exists []. reflexivity.
  - destruct it as [k d i|c d i].
    + destruct (p_is_ignored_kind k) eqn:Hk.
      * intros E. apply IH in E; [|exact Hcur].
        destruct E as (Hb & Hd & Ha & [mid Hm] & Hf). repeat split; auto.
        -- rewrite Ha. cbn [map item_data p_count_pull ps_pending ps_set_pending ps_set_pulled].
           rewrite map_app, ne_mid, !ne_app, <- !app_assoc. reflexivity.
        -- exists (ITok k d i :: mid). rewrite Hm. reflexivity.
      * intros <-. unfold st_ahead, ahead_of, filled. cbn. repeat split; auto.
        -- exists []. reflexivity.
        -- left. discriminate.
    + intros E. pose proof (lexer_error_effect_spec c d i (p_count_pull s)) as (Hb' & Hd' & Hc' & _ & Hp').
      cbn zeta in *. apply IH in E; [|now rewrite Hc'].
      destruct E as (Hb & Hd & Ha & [mid Hm] & Hf). repeat split; auto.
      * now rewrite Hb, Hb'.
      * now rewrite Hd, Hd'.
      * rewrite Ha. cbn [map item_data]. rewrite ne_mid, ne_app, Hp', ne_app, <- !app_assoc. reflexivity.
      * exists (IErr c d i :: mid). rewrite Hm. reflexivity.
Qed.
Ltac psimpl :=
  cbn [ps_items ps_cur ps_builder ps_pending ps_errors ps_rec ps_accept ps_pulled ps_dbg ps_dropped
       ps_set_items ps_set_cur ps_set_builder ps_set_pending ps_set_errors ps_set_rec ps_set_accept
       ps_set_pulled ps_set_dropped p_count_pull] in *.

(* states that agree on everything the invariant reads *)
Definition same_text (s s' : pstate) : Prop :=
  ps_builder s' = ps_builder s /\ ps_pending s' = ps_pending s /\ ps_cur s' = ps_cur s /\
  ps_items s' = ps_items s /\ ps_dropped s' = ps_dropped s.

Lemma same_text_weak orig s s' : same_text s s' -> weakL orig s -> weakL orig s'.
Proof.
  intros (Hb & Hp & Hc & Hi & Hd) [Hs He]. unfold weakL, suffix_of, no_text_dropped, st_done, st_ahead in *.
  rewrite Hb, Hp, Hc, Hi, Hd. auto.
Qed.
Lemma same_text_inv orig s s' : same_text s s' -> invL orig s -> invL orig s'.
Proof.
  intros Hst [Hw Hf]. split; [eapply same_text_weak; eauto|].
  destruct Hst as (_ & _ & Hc & Hi & _). unfold filled in *. now rewrite Hc, Hi.
Qed.

Lemma post_same_text orig {A} (m : PM A) :
  (forall s a s', m s = POk (a, s') -> same_text s s') ->
  spec (CL orig) m /\ specWW (CL orig) m.
Proof.
  intros Hm. split; apply postL; intros s Hs a s' E; apply Hm in E.
  - eapply same_text_inv; eauto.
  - eapply same_text_weak; eauto.
Qed.

(* rebuild the weak invariant after a step that moves text forward *)
Lemma weakL_step orig s s' :
  weakL orig s ->
  ps_dropped s' = ps_dropped s ->
  (exists mid, cur_item (ps_cur s) ++ ps_items s = mid ++ cur_item (ps_cur s') ++ ps_items s') ->
  st_done s' ++ st_ahead s' = st_done s ++ st_ahead s ->
  weakL orig s'.
Proof.
  intros [[pre Hs] He] Hd [mid Hm] Ht. split.
  - exists (pre ++ mid). rewrite Hs, Hm, <- app_assoc. reflexivity.
  - unfold no_text_dropped. rewrite Hd, Ht. exact He.
Qed.

Lemma peek_token_L orig : specR (CL orig) p_peek_token.
Proof.
  apply postL. cbn [CL cInv cWeak]. intros s Hw o s'. unfold p_peek_token.
  destruct (ps_cur s) as [t|] eqn:Hc.
  - intros [= <- <-]. split; [exact Hw|]. left. congruence.
  - destruct (p_next_token_loop (ps_items s) s) as [o1 s1] eqn:E. intros [= <- <-].
    apply next_token_loop_spec in E. destruct E as (Hb & Hd & Hc1 & Ha & [mid Hm] & Hn).
    split.
    + eapply weakL_step; [exact Hw|exact Hd| |].
      * rewrite Hc. cbn. exists mid. exact Hm.
      * unfold st_done, st_ahead. psimpl. rewrite Hb, Ha, Hc. reflexivity.
    + unfold filled. psimpl. destruct o1; [left; discriminate|right; auto].
Qed.

Lemma skip_ignored_L orig : specR (CL orig) p_skip_ignored.
Proof.
  apply postL. cbn [CL cInv cWeak]. intros s Hw a s'. unfold p_skip_ignored.
  destruct (ps_cur s) as [t|] eqn:Hc.
  - destruct (p_is_ignored_kind (tok_kind t)).
    + cbv zeta. intros [= <- E]. apply skip_loop_spec in E; [|reflexivity]. psimpl.
      destruct E as (Hb & Hd & Ha & [mid Hm] & Hf).
      split; [|exact Hf].
      eapply weakL_step; [exact Hw|exact Hd| |].
      * rewrite Hc. cbn [cur_item app]. exists (ITok (tok_kind t) (tok_data t) (tok_index t) :: mid).
        rewrite Hm. reflexivity.
      * unfold st_done. rewrite Hb, Ha. unfold st_ahead, ahead_of. rewrite Hc. cbn [cur_data].
        rewrite map_app, <- !app_assoc. reflexivity.
    + intros [= <- <-]. split; [exact Hw|]. left. congruence.
  - intros [= <- E]. apply skip_loop_spec in E; [|exact Hc].
    destruct E as (Hb & Hd & Ha & [mid Hm] & Hf).
    split; [|exact Hf]. eapply weakL_step; [exact Hw|exact Hd| |].
    + rewrite Hc. cbn [cur_item app]. exists mid. exact Hm.
    + unfold st_done. rewrite Hb, Ha. unfold st_ahead, ahead_of. rewrite Hc. reflexivity.
Qed.
Lemma ne_cons d l : ne (d :: l) = ne [d] ++ ne l.
Proof. exact (ne_mid [] d l). Qed.

(* push_ignored *)
Lemma push_pending_list_spec l : forall b b',
  p_push_pending_list l b = POk b' -> b_chunks b' = b_chunks b ++ ne (map pend_data l).
Proof.
  induction l as [|p l IH]; intros b b'; cbn [p_push_pending_list].
  - intros [= <-]. cbn. now rewrite app_nil_r.
  - destruct p as [t|d].
    + destruct (tok_kind t); try discriminate; intros E; apply IH in E; rewrite E;
        unfold b_chunks; rewrite b_leaves_token, map_app, ne_app, <- app_assoc; cbn [map pend_data snd];
        rewrite (ne_cons (tok_data t) (map pend_data l)); reflexivity.
    + intros E. apply IH in E. rewrite E.
      unfold b_chunks. rewrite b_leaves_token, map_app, ne_app, <- app_assoc. cbn [map pend_data snd].
      rewrite (ne_cons d (map pend_data l)). reflexivity.
Qed.

Lemma push_ignored_run s a s' :
  p_push_ignored s = POk (a, s') ->
  exists b', s' = ps_set_builder b' (ps_set_pending [] s) /\
             b_chunks b' = b_chunks (ps_builder s) ++ ne (map pend_data (ps_pending s)).
Proof.
  unfold p_push_ignored. destruct (p_push_pending_list _ _) as [b'| |] eqn:E; try discriminate.
  intros [= <- <-]. exists b'. split; [reflexivity|]. eapply push_pending_list_spec; eauto.
Qed.

Lemma push_ignored_weak orig s a s' :
  p_push_ignored s = POk (a, s') -> weakL orig s -> weakL orig s' /\ ps_pending s' = [] /\
  ps_cur s' = ps_cur s /\ ps_items s' = ps_items s.
Proof.
  intros E Hw. apply push_ignored_run in E. destruct E as (b' & -> & Hb). psimpl.
  split; [|auto]. eapply weakL_step; [exact Hw|reflexivity| |]; psimpl.
  - exists []. reflexivity.
  - unfold st_done, st_ahead, ahead_of. psimpl. rewrite Hb. cbn [map app]. rewrite !ne_app, <- !app_assoc.
    reflexivity.
Qed.

Lemma push_ignored_L orig : spec (CL orig) p_push_ignored /\ specWW (CL orig) p_push_ignored.
Proof.
  split; apply postL; cbn [CL cInv cWeak]; intros s Hs a s' E.
  - destruct Hs as [Hw Hf]. eapply push_ignored_weak in E; eauto. destruct E as (Hw' & _ & Hc & Hi).
    split; auto. unfold filled in *. now rewrite Hc, Hi.
  - eapply push_ignored_weak in E; eauto. tauto.
Qed.

(* push_token after pop: the popped token t is not in the state; weakL "with t in flight" *)
Definition weak_with (orig : list item) (t : prstoken) (s : pstate) : Prop :=
  (exists pre, orig = pre ++ ITok (tok_kind t) (tok_data t) (tok_index t) :: ps_items s) /\
  ps_cur s = None /\ ps_pending s = [] /\
  (no_text_dropped s -> st_done s ++ ne [tok_data t] ++ st_ahead s = ne (map item_data orig)).

Lemma pop_cur_L orig s t :
  weakL orig s -> ps_cur s = Some t -> ps_pending s = [] ->
  p_pop s = POk (t, ps_set_cur None s) /\ weak_with orig t (ps_set_cur None s).
Proof.
  intros [[pre Hs] He] Hc Hp. unfold p_pop. rewrite Hc. split; [reflexivity|].
  unfold weak_with. psimpl. repeat split; auto.
  - exists pre. rewrite Hs, Hc. reflexivity.
  - intros Hd. rewrite <- (He Hd). unfold st_done, st_ahead, ahead_of. psimpl. rewrite Hc, Hp. cbn [map cur_data app].
    rewrite (ne_cons (tok_data t) (map item_data (ps_items s))). reflexivity.
Qed.

Lemma push_token_L orig k t s :
  weak_with orig t s -> weakL orig (ps_set_builder (pb_token k (tok_data t) (ps_builder s)) s).
Proof.
  intros ([pre Hs] & Hc & Hp & He). split.
  - unfold suffix_of. psimpl. rewrite Hc. cbn [cur_item app]. exists (pre ++ [ITok (tok_kind t) (tok_data t) (tok_index t)]).
    rewrite Hs, <- app_assoc. reflexivity.
  - unfold no_text_dropped. psimpl. intros Hd. rewrite <- (He Hd).
    unfold st_done, st_ahead, b_chunks. psimpl. rewrite b_leaves_token, map_app, ne_app, <- app_assoc. reflexivity.
Qed.

(* eat: from the strong invariant to the weak one *)
Lemma eat_L orig k : specW (CL orig) (p_eat k).
Proof.
  apply postL. cbn [CL cInv cWeak]. intros s [Hw Hf] a s'. unfold p_eat, p_bind.
  destruct (p_push_ignored s) as [[u s1]| |] eqn:E1; try discriminate.
  eapply push_ignored_weak in E1; eauto. destruct E1 as (Hw1 & Hp1 & Hc1 & Hi1).
  unfold p_current, p_peek_token.
  destruct (ps_cur s1) as [t|] eqn:Hc.
  - destruct (pop_cur_L orig s1 t Hw1 Hc Hp1) as [Epop Hww]. rewrite Epop.
    unfold p_push_token, p_modify. intros [= <- <-]. exact (push_token_L orig k t (ps_set_cur None s1) Hww).
  - destruct Hf as [Hf|Hf]; [congruence|]. rewrite Hi1, Hf. cbn [p_next_token_loop].
    unfold p_ret. intros [= <- <-].
    eapply same_text_weak; [|exact Hw1]. unfold same_text. psimpl. rewrite Hi1, Hf, Hc. auto.
Qed.

Lemma bump_L orig k : spec (CL orig) (p_bump k).
Proof.
  unfold p_bump. eapply post_bind; [apply CL_rel|apply eat_L|intros; apply skip_ignored_L].
Qed.
(* operations that only touch errors / accept / rec *)
Lemma push_err_L orig e : spec (CL orig) (p_push_err e) /\ specWW (CL orig) (p_push_err e).
Proof.
  apply post_same_text. intros s a s'. unfold p_push_err, p_modify. intros [= <- <-].
  destruct (ps_accept s); unfold same_text; psimpl; auto 10.
Qed.
Lemma set_accept_L orig : spec (CL orig) (p_modify (ps_set_accept false)).
Proof.
  apply post_same_text. intros s a s'. unfold p_modify. intros [= <- <-]. unfold same_text; psimpl; auto 10.
Qed.
Lemma err_at_token_L orig t : spec (CL orig) (p_err_at_token t) /\ specWW (CL orig) (p_err_at_token t).
Proof. apply push_err_L. Qed.

Lemma current_L orig : specR (CL orig) p_current.
Proof. apply peek_token_L. Qed.

Lemma err_L orig : specR (CL orig) p_err.
Proof.
  unfold p_err. eapply post_bind; [apply CL_rel|apply current_L|intros [t|]].
  - apply push_err_L.
  - apply post_ret_same. apply CL_rel.
Qed.

Lemma limit_err_L orig : spec (CL orig) p_limit_err.
Proof.
  unfold p_limit_err. eapply post_bind; [apply CL_rel|eapply specR_spec; [apply CL_rel|apply current_L]|intros [t|]].
  - eapply post_bind; [apply CL_rel|apply push_err_L|intros; apply set_accept_L].
  - apply post_ret_same. apply CL_rel.
Qed.

Lemma err_and_pop_L orig : spec (CL orig) p_err_and_pop.
Proof.
  apply postL. cbn [CL cInv cWeak]. intros s [Hw Hf] a s'. unfold p_err_and_pop, p_bind.
  destruct (p_push_ignored s) as [[u s1]| |] eqn:E1; try discriminate.
  eapply push_ignored_weak in E1; eauto. destruct E1 as (Hw1 & Hp1 & Hc1 & Hi1).
  unfold p_current, p_peek_token.
  destruct (ps_cur s1) as [t|] eqn:Hc.
  - destruct (pop_cur_L orig s1 t Hw1 Hc Hp1) as [Epop Hww]. rewrite Epop.
    unfold p_push_token, p_modify.
    pose proof (push_token_L orig SK_ERROR t (ps_set_cur None s1) Hww) as Hw2.
    set (s2 := ps_set_builder _ _) in *.
    destruct (p_push_err (p_syntax_error_at t) s2) as [[u3 s3]| |] eqn:E3; try discriminate.
    assert (Hw3 : weakL orig s3).
    { destruct (push_err_L orig (p_syntax_error_at t)) as [_ HWW].
      eapply (postL_inv orig _ _ _ HWW); eauto. }
    intros E4. eapply (postL_inv orig _ _ _ (skip_ignored_L orig)); eauto.
  - destruct Hf as [Hf|Hf]; [congruence|]. rewrite Hi1, Hf. cbn [p_next_token_loop].
    unfold p_ret. intros [= <- <-].
    eapply same_text_inv; [|split; [exact Hw1|right; rewrite Hi1; exact Hf]].
    unfold same_text. psimpl. rewrite Hi1, Hf. auto.
Qed.

Lemma at_L orig k : specR (CL orig) (p_at k).
Proof.
  unfold p_at, p_peek. eapply post_bind; [apply CL_rel| |intros; apply post_ret_same; apply CL_rel].
  eapply post_bind; [apply CL_rel|apply peek_token_L|intros; apply post_ret_same; apply CL_rel].
Qed.

Lemma expect_L orig t k : specR (CL orig) (p_expect t k).
Proof.
  unfold p_expect. eapply post_bind; [apply CL_rel|apply current_L|intros [c|]].
  - eapply post_bind; [apply CL_rel|eapply specR_spec; [apply CL_rel|apply at_L]|intros [|]].
    + apply bump_L.
    + apply push_err_L.
  - apply post_ret_same. apply CL_rel.
Qed.

(* nodes *)
Lemma start_node_L orig k : specR (CL orig) (p_start_node k).
Proof.
  unfold p_start_node.
  eapply post_bind; [apply CL_rel|apply push_ignored_L|intros].
  eapply post_bind; [apply CL_rel| |intros; apply skip_ignored_L].
  apply postL. cbn [CL cWeak]. intros s Hw u s'. unfold p_modify. intros [= <- <-].
  eapply weakL_step; [exact Hw|reflexivity| |]; psimpl.
  - exists []. reflexivity.
  - unfold st_done, st_ahead, b_chunks. psimpl. rewrite b_leaves_start. reflexivity.
Qed.

Lemma finish_node_L orig : spec (CL orig) p_finish_node /\ specWW (CL orig) p_finish_node.
Proof.
  assert (Hk : forall s a s', p_finish_node s = POk (a, s') -> forall P : pstate -> Prop,
            (forall b, b_chunks b = b_chunks (ps_builder s) -> P (ps_set_builder b s)) -> P s').
  { intros s a s'. unfold p_finish_node, p_lift_b.
    destruct (pb_finish_node (ps_builder s)) as [b| |] eqn:E; try discriminate.
    intros [= <- <-] P HP. apply HP. unfold b_chunks. erewrite b_leaves_finish; eauto. }
  assert (Hweak : forall s b, b_chunks b = b_chunks (ps_builder s) -> weakL orig s ->
                    weakL orig (ps_set_builder b s)).
  { intros s b Hb Hw. eapply weakL_step; [exact Hw|reflexivity| |]; psimpl.
    - exists []. reflexivity.
    - unfold st_done, st_ahead. psimpl. rewrite Hb. reflexivity. }
  split; apply postL; cbn [CL cInv cWeak]; intros s Hs a s' E; apply (Hk _ _ _ E); intros b Hb.
  - destruct Hs as [Hw Hf]. split; [auto|]. exact Hf.
  - auto.
Qed.

Lemma node_L orig A k (body : PM A) : spec (CL orig) body -> specR (CL orig) (p_node k body).
Proof.
  intros Hb. unfold p_node.
  eapply post_bind; [apply CL_rel|apply start_node_L|intros].
  eapply post_bind; [apply CL_rel|exact Hb|intros].
  eapply post_bind; [apply CL_rel|apply finish_node_L|intros].
  apply post_ret_same. apply CL_rel.
Qed.

(* the recursion tracker is not read by the invariant *)
Lemma rec_check_L orig : spec (CL orig) p_rec_check_and_increment /\ specWW (CL orig) p_rec_check_and_increment.
Proof.
  apply post_same_text. intros s a s'. unfold p_rec_check_and_increment.
  destruct (ptracker_check_and_increment _) as [[b t]| |]; try discriminate.
  intros [= <- <-]. unfold same_text; psimpl; auto 10.
Qed.
Lemma rec_decrement_L orig : spec (CL orig) p_rec_decrement /\ specWW (CL orig) p_rec_decrement.
Proof.
  apply post_same_text. intros s a s'. unfold p_rec_decrement.
  destruct (ptracker_decrement _) as [t| |]; try discriminate.
  intros [= <- <-]. unfold same_text; psimpl; auto 10.
Qed.

Lemma rec_guard_L orig A B (l : PM B) (body : PM A) (k : A -> PM B) :
  spec (CL orig) l -> spec (CL orig) body -> (forall x, spec (CL orig) (k x)) ->
  spec (CL orig) (p_rec_guard l body k).
Proof.
  intros Hl Hb Hk. unfold p_rec_guard.
  eapply post_bind; [apply CL_rel|apply rec_check_L|intros [|]]; [exact Hl|].
  eapply post_bind; [apply CL_rel|exact Hb|intros x].
  eapply post_bind; [apply CL_rel|apply rec_decrement_L|intros; apply Hk].
Qed.
Lemma rec_guard_w_L orig A B (l : PM B) (body : PM A) (k : A -> PM B) :
  spec (CL orig) l -> specW (CL orig) body -> (forall x, specR (CL orig) (k x)) ->
  spec (CL orig) (p_rec_guard l body k).
Proof.
  intros Hl Hb Hk. unfold p_rec_guard.
  eapply post_bind; [apply CL_rel|apply rec_check_L|intros [|]]; [exact Hl|].
  eapply post_bind; [apply CL_rel|exact Hb|intros x].
  eapply post_bind; [apply CL_rel|apply rec_decrement_L|intros; apply Hk].
Qed.

Lemma assert_balanced_L orig : spec (CL orig) g_assert_recursion_balanced.
Proof.
  apply post_same_text. intros s a s'. unfold g_assert_recursion_balanced.
  destruct (_ =? _); try discriminate. intros [= <- <-]. unfold same_text; auto 10.
Qed.
Lemma debug_assert_L orig b : spec (CL orig) (p_debug_assert_advanced b).
Proof.
  apply post_same_text. intros s a s'. unfold p_debug_assert_advanced.
  destruct (_ && _); try discriminate. intros [= <- <-]. unfold same_text; auto 10.
Qed.
(* ---- names: the lexer only yields Name tokens that are names *)
Definition item_name_ok (i : item) : Prop :=
  match i with ITok TkName d _ => is_valid_name d = true | _ => True end.

Lemma u8len_name_start c : is_name_start c = true -> u8len c = 1.
Proof. unfold is_name_start, is_alpha, u8len. intros H. destruct (c <? 128) eqn:E; [reflexivity|]. lia. Qed.

Lemma validate_name_valid n s : is_valid_name n = true -> g_validate_name n s = POk (tt, s).
Proof.
  destruct n as [|c r]; [discriminate|]. cbn [is_valid_name]. intros H. apply andb_true_iff in H as [Hc Hr].
  unfold g_validate_name, g_is_start_char, g_is_remainder_char. rewrite Hc. cbn [negb p_when].
  unfold p_bind at 1. cbn [p_ret].
  destruct (2 <=? blen (c :: r)); [|reflexivity].
  rewrite (u8len_name_start c Hc). cbn [N.eqb]. rewrite N.eqb_refl. rewrite Hr. reflexivity.
Qed.

Lemma validate_name_L orig n : is_valid_name n = true ->
  spec (CL orig) (g_validate_name n) /\ specWW (CL orig) (g_validate_name n).
Proof.
  intros Hn. apply post_same_text. intros s a s'. rewrite validate_name_valid by exact Hn.
  intros [= <- <-]. unfold same_text. auto 10.
Qed.

Lemma cur_name_ok orig s t :
  Forall item_name_ok orig -> suffix_of orig s -> ps_cur s = Some t -> tok_kind t = TkName ->
  is_valid_name (tok_data t) = true.
Proof.
  intros Hall [pre Hs] Hc Hk. rewrite Hc in Hs. cbn [cur_item app] in Hs.
  rewrite Forall_forall in Hall.
  specialize (Hall (ITok (tok_kind t) (tok_data t) (tok_index t))).
  rewrite Hk in Hall. apply Hall. rewrite Hs, <- Hk. apply in_or_app. right. left. reflexivity.
Qed.

Lemma peek_token_cur s o s' : p_peek_token s = POk (o, s') -> ps_cur s' = o.
Proof.
  unfold p_peek_token. destruct (ps_cur s) eqn:Hc.
  - intros [= <- <-]. exact Hc.
  - destruct (p_next_token_loop _ _). intros [= <- <-]. reflexivity.
Qed.

Lemma name_L orig : Forall item_name_ok orig -> spec (CL orig) g_name.
Proof.
  intros Hall. apply postL. cbn [CL cInv]. intros s Hs a s'. unfold g_name, p_bind.
  destruct (p_peek_token s) as [[o s1]| |] eqn:E1; try discriminate.
  pose proof (peek_token_cur _ _ _ E1) as Hc1.
  assert (H1 : invL orig s1).
  { eapply (postL_inv orig _ _ _ (peek_token_L orig)); eauto. destruct Hs; auto. }
  destruct o as [token|].
  - destruct (tkind_eqb (tok_kind token) TkName) eqn:Hk.
    + apply tkind_eqb_eq in Hk.
      assert (Hv : is_valid_name (tok_data token) = true).
      { destruct H1 as [[Hsuf _] _]. eapply cur_name_ok; eauto. }
      intros E. revert E. apply (postL_inv orig (invL orig) (invL orig)); [|exact H1].
      eapply specR_spec; [apply CL_rel|]. apply node_L.
      eapply post_bind; [apply CL_rel|apply validate_name_L; exact Hv|intros; apply bump_L].
    + intros E. revert E. apply (postL_inv orig (invL orig) (invL orig)); [|exact H1].
      eapply specR_spec; [apply CL_rel|apply err_L].
  - intros E. revert E. apply (postL_inv orig (invL orig) (invL orig)); [|exact H1].
    eapply specR_spec; [apply CL_rel|apply err_L].
Qed.
(* ---- ty::parse *)
Lemma wrap_node_L orig cp k : spec (CL orig) (p_wrap_node cp k).
Proof.
  apply postL. cbn [CL cInv]. intros s [Hw Hf] a s'. unfold p_wrap_node, p_lift_b.
  destruct (pb_start_node_at cp k (ps_builder s)) as [b| |] eqn:E; try discriminate.
  intros [= <- <-]. split; [|exact Hf].
  eapply weakL_step; [exact Hw|reflexivity| |]; psimpl.
  - exists []. reflexivity.
  - unfold st_done, st_ahead, b_chunks. psimpl. erewrite b_leaves_start_at; eauto.
Qed.

Lemma parse_tail_L orig cp :
  specWW (CL orig)
    (p_skip_ignored ;;
     b <- g_peek_is TkBang ;;
     p_when b (p_wrap_node cp SK_NON_NULL_TYPE ;; p_eat SK_BANG ;; p_finish_node) ;;
     p_skip_ignored ;;
     p_ret GTyOk).
Proof.
  eapply post_bind; [apply CL_rel|apply skip_ignored_L|intros].
  eapply post_bind; [apply CL_rel|eapply specR_spec; [apply CL_rel|]|intros b].
  { unfold g_peek_is, p_peek.
    eapply post_bind; [apply CL_rel| |intros; apply post_ret_same; apply CL_rel].
    eapply post_bind; [apply CL_rel|apply peek_token_L|intros; apply post_ret_same; apply CL_rel]. }
  eapply post_bind with (Q := weakL orig); [apply CL_rel| |intros].
  - destruct b; cbn [p_when].
    + eapply post_bind; [apply CL_rel|apply wrap_node_L|intros].
      eapply post_bind; [apply CL_rel|apply eat_L|intros]. apply finish_node_L.
    + eapply spec_specW; [apply CL_rel|]. apply post_ret_same. apply CL_rel.
  - eapply post_bind; [apply CL_rel|apply skip_ignored_L|intros].
    eapply spec_specW; [apply CL_rel|]. apply post_ret_same. apply CL_rel.
Qed.

(* with current_token = Some t not ignored and nothing pending, start_node only touches the builder *)
Lemma start_node_run s k t :
  ps_cur s = Some t -> p_is_ignored_kind (tok_kind t) = false -> ps_pending s = [] ->
  p_start_node k s = POk (tt, ps_set_builder (pb_start_node k (ps_builder s)) (ps_set_pending [] s)).
Proof.
  intros Hc Hk Hp. unfold p_start_node, p_bind, p_push_ignored. rewrite Hp. cbn [p_push_pending_list].
  unfold p_modify. psimpl. unfold p_skip_ignored. psimpl. rewrite Hc, Hk. reflexivity.
Qed.

Lemma peek_filled s :
  filled s ->
  exists s', p_peek s = POk (option_map tok_kind (ps_cur s), s') /\ same_text s s' /\ ps_cur s' = ps_cur s.
Proof.
  intros Hf. unfold p_peek, p_bind, p_peek_token. destruct (ps_cur s) as [t|] eqn:Hc.
  - exists s. cbn. rewrite Hc. unfold same_text. auto 10.
  - destruct Hf as [Hf|Hf]; [congruence|]. rewrite Hf. cbn [p_next_token_loop]. cbn.
    eexists. split; [reflexivity|]. unfold same_text. psimpl. rewrite Hf. auto 10.
Qed.

Lemma parse_body_L orig rec :
  Forall item_name_ok orig -> specW (CL orig) rec -> specW (CL orig) (g_parse_body rec).
Proof.
  intros Hall Hrec. apply postL. cbn [CL cInv cWeak]. intros s [Hw Hf] r s'.
  unfold g_parse_body. unfold p_bind at 1. unfold p_checkpoint_node. unfold p_bind at 1.
  destruct (p_push_ignored s) as [[u s1]| |] eqn:E1; try discriminate.
  eapply push_ignored_weak in E1; eauto. destruct E1 as (Hw1 & Hp1 & Hc1 & Hi1).
  assert (Hf1 : filled s1) by (unfold filled in *; now rewrite Hc1, Hi1).
  match goal with |- context [ (p_bind p_get ?f) s1 ] =>
    change ((p_bind p_get f) s1) with (POk (pb_checkpoint (ps_builder s1), s1)) end.
  cbv iota beta.
  set (cp := pb_checkpoint (ps_builder s1)).
  unfold p_bind at 1.
  destruct (peek_filled s1 Hf1) as (s2 & -> & Hst2 & Hc2).
  assert (Hw2 : weakL orig s2) by (eapply same_text_weak; eauto).
  assert (Hp2 : ps_pending s2 = []) by (destruct Hst2 as (_ & -> & _); exact Hp1).
  assert (Hf2 : filled s2).
  { destruct Hst2 as (_ & _ & Hc & Hi & _). unfold filled in *. now rewrite Hc, Hi. }
  rewrite <- Hc2.
  (* the tail, from a weak state *)
  pose proof (postL_inv orig _ _ _ (parse_tail_L orig cp)) as Htail. cbn [CL cWeak] in Htail.
  destruct (ps_cur s2) as [t|] eqn:Hcur; cbn [option_map].
  2:{ (* None: return Err(None) *)
      unfold p_bind, p_ret. intros [= <- <-]. exact Hw2. }
  destruct (tok_kind t) eqn:Hk.
  13:{ (* TkLBracket: generic *)
      intros E. revert E. apply (postL_inv orig (invL orig) (weakL orig)); [|split; assumption].
      eapply post_bind with (Q := invL orig); [apply CL_rel| |intros [x|]].
      - eapply specR_spec; [apply CL_rel|]. apply node_L.
        eapply post_bind; [apply CL_rel|apply bump_L|intros].
        apply rec_guard_w_L.
        + eapply post_bind; [apply CL_rel|apply limit_err_L|intros; apply post_ret_same; apply CL_rel].
        + exact Hrec.
        + intros x. eapply post_bind with (Q := weakL orig); [apply CL_rel| |intros].
          * destruct x as [|[tk|]]; try (apply post_ret_same; apply CL_rel). apply err_at_token_L.
          * eapply post_bind; [apply CL_rel|apply expect_L|intros; apply post_ret_same; apply CL_rel].
      - eapply spec_specW; [apply CL_rel|]. apply post_ret_same. apply CL_rel.
      - eapply post_weaken; [| |apply parse_tail_L]; cbn; auto. intros s0 [H0 _]. exact H0. }
  18:{ (* TkName *)
      assert (Hig : p_is_ignored_kind (tok_kind t) = false) by (rewrite Hk; reflexivity).
      assert (Hv : is_valid_name (tok_data t) = true).
      { destruct Hw2 as [Hsuf _]. eapply cur_name_ok; eauto. }
      intros E. apply bind_ok in E as (early & sa & E & Erest).
      apply bind_ok in E as (u0 & sb & E & Eret). unfold p_ret in Eret. injection Eret as <- <-.
      unfold p_node in E.
      apply bind_ok in E as (u3 & x3 & E3 & E).
      pose (s3 := ps_set_builder (pb_start_node SK_NAMED_TYPE (ps_builder s2)) (ps_set_pending [] s2)).
      assert (X3 : x3 = s3) by (rewrite (start_node_run s2 SK_NAMED_TYPE t Hcur Hig Hp2) in E3; now injection E3).
      subst x3.
      assert (Hw3 : weakL orig s3).
      { pose proof (postL_inv orig _ _ _ (start_node_L orig SK_NAMED_TYPE) s2 Hw2 tt s3
                      (start_node_run s2 SK_NAMED_TYPE t Hcur Hig Hp2)) as [H3 _]. exact H3. }
      assert (Hc3 : ps_cur s3 = Some t) by exact Hcur.
      assert (Hp3 : ps_pending s3 = []) by reflexivity.
      apply bind_ok in E as (u4 & sc & E & Efin1).
      apply bind_ok in E as (u5 & x4 & E4 & E).
      pose (s4 := ps_set_builder (pb_start_node SK_NAME (ps_builder s3)) (ps_set_pending [] s3)).
      assert (X4 : x4 = s4) by (rewrite (start_node_run s3 SK_NAME t Hc3 Hig Hp3) in E4; now injection E4).
      subst x4.
      assert (Hw4 : weakL orig s4).
      { pose proof (postL_inv orig _ _ _ (start_node_L orig SK_NAME) s3 Hw3 tt s4
                      (start_node_run s3 SK_NAME t Hc3 Hig Hp3)) as [H4 _]. exact H4. }
      assert (Hc4 : ps_cur s4 = Some t) by exact Hcur.
      assert (Hp4 : ps_pending s4 = []) by reflexivity.
      destruct (pop_cur_L orig s4 t Hw4 Hc4 Hp4) as [Epop Hww].
      apply bind_ok in E as (u6 & sd & E & Efin2).
      apply bind_ok in E as (tk & se & Ep & E). rewrite Epop in Ep. injection Ep as <- <-.
      apply bind_ok in E as (u7 & sf & Ev & E). rewrite (validate_name_valid _ _ Hv) in Ev.
      injection Ev as _ <-.
      unfold p_push_token, p_modify in E. injection E as _ <-.
      pose proof (push_token_L orig SK_IDENT t _ Hww) as Hw5.
      destruct (finish_node_L orig) as [_ HWW]. pose proof (postL_inv orig _ _ _ HWW) as Hfin. cbn [CL cWeak] in Hfin.
      apply bind_ok in Efin2 as (u8 & sg & Ef2 & Er2). unfold p_ret in Er2. injection Er2 as _ <-.
      apply bind_ok in Efin1 as (u9 & sh & Ef1 & Er1). unfold p_ret in Er1. injection Er1 as _ <-.
      pose proof (Hfin _ Hw5 _ _ Ef2) as Hw6.
      pose proof (Hfin _ Hw6 _ _ Ef1) as Hw7.
      eapply Htail; eauto. }
  all: (* any other token: return Err(Some(p.pop())) -- the token is dropped (D3) *)
    unfold p_bind at 1; unfold p_bind at 1; unfold p_pop; rewrite Hcur;
    unfold p_bind at 1; unfold p_ghost_dropped, p_modify; cbn [p_ret]; unfold p_bind; cbn [p_ret];
    intros [= <- <-];
    (destruct Hw2 as [[pre Hs] He]; split;
     [ unfold suffix_of; psimpl; rewrite Hcur in Hs; cbn [cur_item app] in Hs |- *;
       exists (pre ++ [ITok (tok_kind t) (tok_data t) (tok_index t)]); rewrite Hs, <- app_assoc; reflexivity
     | unfold no_text_dropped; psimpl; cbn [map]; intros Hd;
       rewrite (ne_cons (tok_data t) (map tok_data (ps_dropped s2))) in Hd;
       apply app_eq_nil in Hd as [Hd1 Hd2]; rewrite <- (He Hd2);
       unfold st_done, st_ahead, ahead_of; psimpl; rewrite Hcur; cbn [cur_data app];
       rewrite ne_mid, Hd1, ne_app; reflexivity ]).
Qed.
Lemma ne_rev l : ne (rev l) = rev (ne l).
Proof.
  induction l as [|d l IH]; [reflexivity|]. cbn [rev]. rewrite ne_app, IH, (ne_cons d l), rev_app_distr.
  f_equal. destruct d; reflexivity.
Qed.

(* ---- the instance *)
Lemma CL_ok orig : Forall item_name_ok orig -> pcfg_ok (CL orig).
Proof.
  intros Hall. constructor.
  - apply CL_rel.
  - exact I.
  - apply peek_token_L.
  - apply skip_ignored_L.
  - apply push_ignored_L.
  - apply bump_L.
  - apply err_L.
  - apply err_at_token_L.
  - apply err_at_token_L.
  - apply limit_err_L.
  - apply err_and_pop_L.
  - apply expect_L.
  - apply node_L.
  - apply rec_guard_L.
  - apply rec_guard_w_L.
  - apply debug_assert_L.
  - apply name_L; exact Hall.
  - intros rec. apply parse_body_L; exact Hall.
Qed.

Lemma init_weakL dbg rl items : weakL items (p_init_state dbg rl items).
Proof.
  split.
  - exists []. reflexivity.
  - intros _. reflexivity.
Qed.

Lemma finish_leaves b t : pb_finish b = POk t -> b_leaves b = p_leaves t.
Proof.
  unfold pb_finish. destruct (pb_children b) as [|[k c|k x] [|y l]] eqn:E; try discriminate.
  intros [= <-]. unfold b_leaves. rewrite E. cbn [rev app trees_leaves flat_map]. now rewrite app_nil_r.
Qed.

(* every entry whose grammar function satisfies the generic spec: the chunks of the tree, followed by what
   was still ahead when the entry returned, are the chunks of the item list *)
Theorem run_chunks (g : nat -> PM unit) :
  (forall orig fuel, Forall item_name_ok orig -> specR (CL orig) (g fuel)) ->
  forall fuel dbg rl items r,
    Forall item_name_ok items ->
    p_run_with fuel g dbg rl items = POk r ->
    ne (map tok_data (pr_dropped r)) = [] ->
    exists s, ne (map snd (p_leaves (pr_tree r))) ++ st_ahead s = ne (map item_data items) /\
              suffix_of items s /\ filled s /\
              g fuel (p_init_state dbg rl items) = POk (tt, s).
Proof.
  intros Hg fuel dbg rl items r Hall. unfold p_run_with, p_finish.
  destruct (g fuel (p_init_state dbg rl items)) as [[[] s]| |] eqn:E; try discriminate.
  destruct (pb_finish (ps_builder s)) as [t| |] eqn:Ef; try discriminate.
  intros [= <-]. cbn [pr_dropped pr_tree]. intros Hd.
  pose proof (postL_inv items _ _ _ (Hg items fuel Hall) _ (init_weakL dbg rl items) _ _ E) as [[Hsuf He] Hf].
  exists s. repeat split; auto.
  rewrite <- He.
  - unfold st_done, b_chunks. erewrite finish_leaves; eauto.
  - unfold no_text_dropped. rewrite map_rev, ne_rev in Hd.
    destruct (ne (map tok_data (ps_dropped s))) as [|x l]; [reflexivity|].
    cbn [rev] in Hd. destruct (rev l); discriminate.
Qed.
(* ---- the three entries satisfy the generic spec *)
Lemma document_spec orig fuel : Forall item_name_ok orig -> specR (CL orig) (g_document fuel).
Proof. intros H. apply gg_document; [apply CL_ok; exact H|apply assert_balanced_L]. Qed.
Lemma field_set_spec orig fuel : Forall item_name_ok orig -> specR (CL orig) (g_field_set fuel).
Proof. intros H. apply gg_field_set. apply CL_ok; exact H. Qed.
Lemma type_entry_spec orig fuel : Forall item_name_ok orig -> specR (CL orig) (g_type_entry fuel).
Proof.
  intros H. pose proof (CL_ok orig H) as Hok. unfold g_type_entry. apply (ok_node _ Hok).
  eapply post_bind; [apply CL_rel|apply gg_ty; exact Hok|intros; apply gg_trailing; exact Hok].
Qed.

(* ---- C04 prefix: with any limits, for the three entries *)
Theorem prefix_gen (g : nat -> PM unit) :
  (forall orig fuel, Forall item_name_ok orig -> specR (CL orig) (g fuel)) ->
  forall fuel dbg rl items r,
    Forall item_name_ok items ->
    p_run_with fuel g dbg rl items = POk r ->
    ne (map tok_data (pr_dropped r)) = [] ->
    exists suf, p_text_of (pr_tree r) ++ suf = concat (map item_data items).
Proof.
  intros Hg fuel dbg rl items r Hall E Hd.
  destruct (run_chunks g Hg fuel dbg rl items r Hall E Hd) as (s & Hc & _).
  exists (concat (st_ahead s)). rewrite text_of_leaves.
  rewrite <- (concat_ne (map snd (p_leaves (pr_tree r)))). rewrite <- concat_app.
  transitivity (concat (ne (map item_data items))); [f_equal; exact Hc|apply concat_ne].
Qed.

(* ---- how the loops end *)
Lemma peek_run s o s1 :
  p_peek s = POk (o, s1) ->
  (o = None /\ ps_cur s1 = None /\ ps_items s1 = []) \/
  (exists t, o = Some (tok_kind t) /\ ps_cur s1 = Some t).
Proof.
  unfold p_peek. intros E. apply bind_ok in E as (ot & sa & E & Er). unfold p_ret in Er. injection Er as <- <-.
  pose proof (peek_token_cur _ _ _ E) as Hc.
  unfold p_peek_token in E. destruct (ps_cur s) as [t|] eqn:Hcs.
  - injection E as <- <-. right. exists t. auto.
  - destruct (p_next_token_loop (ps_items s) s) as [o1 s1] eqn:El. injection E as <- <-.
    apply next_token_loop_spec in El. destruct El as (_ & _ & _ & _ & _ & Hn).
    destruct o1 as [t|]; [right; exists t; auto|left]. psimpl. auto.
Qed.

Definition at_end (s : pstate) : Prop :=
  (ps_cur s = None /\ ps_items s = []) \/ (exists t, ps_cur s = Some t /\ tok_kind t = TkEof).

Lemma peek_while_acc_exit {Acc} (run : Acc -> tkind -> PM (Acc * bool)) :
  (forall a k sa r sb, (exists t, ps_cur sa = Some t /\ tok_kind t = k) ->
                       run a k sa = POk ((r, false), sb) -> at_end sb) ->
  forall fuel acc s acc' s', p_peek_while_acc fuel run acc s = POk (acc', s') -> at_end s'.
Proof.
  intros Hrun. induction fuel as [|f IH]; intros acc s acc' s'; cbn [p_peek_while_acc]; [discriminate|].
  intros E. apply bind_ok in E as (o & s1 & Ep & E).
  apply peek_run in Ep as [(-> & Hc & Hi)|(t & -> & Hc)].
  - unfold p_ret in E. injection E as <- <-. left. auto.
  - apply bind_ok in E as (s0 & sx & Eg & E). unfold p_get in Eg. injection Eg as <- <-.
    apply bind_ok in E as ([a2 cont] & s2 & Er & E).
    destruct cont.
    + apply bind_ok in E as (u & s3 & Ed & E). eapply IH; eauto.
    + unfold p_ret in E. injection E as <- <-. eapply Hrun; eauto.
Qed.

Lemma trailing_loop_exit fuel : forall s u s', p_trailing_loop fuel s = POk (u, s') -> at_end s'.
Proof.
  induction fuel as [|f IH]; intros s u s'; cbn [p_trailing_loop]; [discriminate|].
  intros E. apply bind_ok in E as (o & s1 & Ep & E).
  apply peek_run in Ep as [(-> & Hc & Hi)|(t & -> & Hc)].
  - unfold p_ret in E. injection E as <- <-. left. auto.
  - destruct (tok_kind t) eqn:Hk;
      try (apply bind_ok in E as (u1 & s2 & _ & E); eapply IH; eauto).
    unfold p_ret in E. injection E as <- <-. right. eauto.
Qed.

(* push_ignored and finish_node do not touch current_token / the lexer *)
Lemma push_ignored_end s u s' : p_push_ignored s = POk (u, s') -> at_end s -> at_end s' /\ ps_pending s' = [].
Proof.
  intros E H. apply push_ignored_run in E as (b & -> & _). psimpl. split; [exact H|reflexivity].
Qed.
Lemma finish_node_end s u s' : p_finish_node s = POk (u, s') ->
  ps_cur s' = ps_cur s /\ ps_items s' = ps_items s /\ ps_pending s' = ps_pending s.
Proof.
  unfold p_finish_node, p_lift_b. destruct (pb_finish_node _); try discriminate. intros [= <- <-]. auto.
Qed.

Lemma document_end fuel s u s' : g_document fuel s = POk (u, s') -> at_end s' /\ ps_pending s' = [].
Proof.
  unfold g_document, p_node. intros E.
  apply bind_ok in E as (u1 & s1 & _ & E). apply bind_ok in E as (u2 & s2 & E & Ef).
  apply bind_ok in Ef as (u3 & s3 & Ef & Er). unfold p_ret in Er. injection Er as <- <-.
  apply bind_ok in E as (o & s4 & _ & E). apply bind_ok in E as (u5 & s5 & _ & E).
  apply bind_ok in E as (u6 & s6 & El & Ep).
  unfold p_peek_while in El. apply bind_ok in El as (u7 & s7 & El & Er). unfold p_ret in Er. injection Er as <- <-.
  apply peek_while_acc_exit in El.
  - destruct (push_ignored_end _ _ _ Ep El) as [He Hp]. apply finish_node_end in Ef as (Hc & Hi & Hpp).
    unfold at_end in *. rewrite Hc, Hi, Hpp. auto.
  - intros a k sa r sb [t [Hc Hk]] Er. apply bind_ok in Er as (c & sc & Er & Eret).
    unfold p_ret in Eret. injection Eret as _ Hcf <-. subst c.
    apply bind_ok in Er as (u8 & s8 & Ea & Er).
    assert (s8 = sa) as ->.
    { unfold g_assert_recursion_balanced in Ea. destruct (_ =? _); [injection Ea as _ <-; reflexivity|discriminate]. }
    destruct k; try (repeat (apply bind_ok in Er as (? & ? & _ & Er)); unfold p_ret in Er; discriminate).
    unfold p_ret in Er. injection Er as <-. right. eauto.
Qed.

Lemma type_entry_end fuel s u s' : g_type_entry fuel s = POk (u, s') -> at_end s' /\ ps_pending s' = [].
Proof.
  unfold g_type_entry, p_node. intros E.
  apply bind_ok in E as (u1 & s1 & _ & E). apply bind_ok in E as (u2 & s2 & E & Ef).
  apply bind_ok in Ef as (u3 & s3 & Ef & Er). unfold p_ret in Er. injection Er as <- <-.
  apply bind_ok in E as (u4 & s4 & _ & E). unfold p_trailing_tokens_are_errors in E.
  apply bind_ok in E as (u5 & s5 & _ & E). apply bind_ok in E as (u6 & s6 & El & Ep).
  apply trailing_loop_exit in El.
  destruct (push_ignored_end _ _ _ Ep El) as [He Hp]. apply finish_node_end in Ef as (Hc & Hi & Hpp).
  unfold at_end in *. rewrite Hc, Hi, Hpp. auto.
Qed.

(* ---- the shape of an unlimited item stream: ... Eof, the Eof token carrying no text *)
Definition not_eof (i : item) : Prop := match i with ITok TkEof _ _ => False | _ => True end.
Definition eof_terminated (items : list item) : Prop :=
  exists body i, items = body ++ [ITok TkEof [] i] /\ Forall not_eof body.

Lemma at_end_nothing_ahead items s :
  eof_terminated items -> suffix_of items s -> at_end s -> ps_pending s = [] -> st_ahead s = [].
Proof.
  intros (body & i & Hi & Hb) [pre Hs] He Hp. unfold st_ahead, ahead_of. rewrite Hp.
  destruct He as [[Hc Hit]|(t & Hc & Hk)]; rewrite Hc in *.
  - rewrite Hit. reflexivity.
  - cbn [cur_item app] in Hs. rewrite Hk in Hs. rewrite Hi in Hs.
    destruct (ps_items s) as [|x l] eqn:Hl using rev_ind.
    + apply app_inj_tail in Hs as [_ Hx]. injection Hx as Hd _. cbn. rewrite <- Hd. reflexivity.
    + exfalso. clear IHl. rewrite app_comm_cons, app_assoc in Hs. apply app_inj_tail in Hs as [Hbody _].
      rewrite Forall_forall in Hb. apply (Hb (ITok TkEof (tok_data t) (tok_index t))).
      rewrite Hbody. apply in_or_app. right. left. reflexivity.
Qed.

(* ---- C02: no token limit (the stream ends with Eof): nothing is left ahead *)
Theorem lossless_chunks_gen (g : nat -> PM unit) :
  (forall orig fuel, Forall item_name_ok orig -> specR (CL orig) (g fuel)) ->
  (forall fuel s u s', g fuel s = POk (u, s') -> at_end s' /\ ps_pending s' = []) ->
  forall fuel dbg rl items r,
    Forall item_name_ok items -> eof_terminated items ->
    p_run_with fuel g dbg rl items = POk r ->
    ne (map tok_data (pr_dropped r)) = [] ->
    ne (map snd (p_leaves (pr_tree r))) = ne (map item_data items).
Proof.
  intros Hg Hend fuel dbg rl items r Hall Heof E Hd.
  destruct (run_chunks g Hg fuel dbg rl items r Hall E Hd) as (s & Hc & Hsuf & _ & Eg).
  destruct (Hend _ _ _ _ Eg) as [He Hp].
  rewrite (at_end_nothing_ahead items s Heof Hsuf He Hp), app_nil_r in Hc. exact Hc.
Qed.

Lemma chunks_text t (l : list str) :
  ne (map snd (p_leaves t)) = ne l -> p_text_of t = concat l.
Proof.
  intros H. rewrite text_of_leaves, <- (concat_ne (map snd (p_leaves t))), <- (concat_ne l). now f_equal.
Qed.

Theorem document_chunks dbg rl items r :
  Forall item_name_ok items -> eof_terminated items ->
  parse_document_items dbg rl items = POk r ->
  ne (map tok_data (pr_dropped r)) = [] ->
  ne (map snd (p_leaves (pr_tree r))) = ne (map item_data items).
Proof. apply (lossless_chunks_gen g_document document_spec document_end). Qed.

Theorem type_chunks dbg rl items r :
  Forall item_name_ok items -> eof_terminated items ->
  parse_type_items dbg rl items = POk r ->
  ne (map tok_data (pr_dropped r)) = [] ->
  ne (map snd (p_leaves (pr_tree r))) = ne (map item_data items).
Proof. apply (lossless_chunks_gen g_type_entry type_entry_spec type_entry_end). Qed.

Theorem document_lossless dbg rl items r :
  Forall item_name_ok items -> eof_terminated items ->
  parse_document_items dbg rl items = POk r ->
  ne (map tok_data (pr_dropped r)) = [] ->
  p_text_of (pr_tree r) = concat (map item_data items).
Proof. intros. apply chunks_text. eapply document_chunks; eauto. Qed.

Theorem type_lossless dbg rl items r :
  Forall item_name_ok items -> eof_terminated items ->
  parse_type_items dbg rl items = POk r ->
  ne (map tok_data (pr_dropped r)) = [] ->
  p_text_of (pr_tree r) = concat (map item_data items).
Proof. intros. apply chunks_text. eapply type_chunks; eauto. Qed.

Theorem document_prefix dbg rl items r :
  Forall item_name_ok items -> parse_document_items dbg rl items = POk r ->
  ne (map tok_data (pr_dropped r)) = [] ->
  exists suf, p_text_of (pr_tree r) ++ suf = concat (map item_data items).
Proof. apply (prefix_gen g_document document_spec). Qed.
Theorem selection_set_prefix dbg rl items r :
  Forall item_name_ok items -> parse_selection_set_items dbg rl items = POk r ->
  ne (map tok_data (pr_dropped r)) = [] ->
  exists suf, p_text_of (pr_tree r) ++ suf = concat (map item_data items).
Proof. apply (prefix_gen g_field_set field_set_spec). Qed.
Theorem type_prefix dbg rl items r :
  Forall item_name_ok items -> parse_type_items dbg rl items = POk r ->
  ne (map tok_data (pr_dropped r)) = [] ->
  exists suf, p_text_of (pr_tree r) ++ suf = concat (map item_data items).
Proof. apply (prefix_gen g_type_entry type_entry_spec). Qed.

(* the known class D3, on the result of a run: a ty::parse call popped a token with text that is neither a
   Name nor `[` and returned it as an error instead of adding it to the tree *)
Definition Known_D3 (r : presult) : Prop := ne (map tok_data (pr_dropped r)) <> [].
Lemma not_known_D3 r : ~ Known_D3 r -> ne (map tok_data (pr_dropped r)) = [].
Proof. unfold Known_D3. destruct (ne _); [reflexivity|]. intros H. exfalso. apply H. discriminate. Qed.
