(* C02 / C04 (prefix): the primitives of the parser preserve the lossless-text invariant (LosslessDefs.v);
   instance of the generic traversal; the entry-point theorems. *)
From ApolloVerif Require Import Base.Chars Lex.Item Parse.Outcome Parse.Builder Parse.Limits Parse.Monad
  Parse.Keywords Parse.Grammar Parse.Generic Parse.Entry Parse.LosslessDefs.

Lemma ne_mid a d b : ne (a ++ d :: b) = ne a ++ ne [d] ++ ne b.
Proof. change (d :: b) with ([d] ++ b). now rewrite !ne_app. Qed.

(* ---- the lexer-facing loops *)
Lemma lexer_error_effect_spec c d i s :
  let s' := p_lexer_error_effect c d i s in
  ps_builder s' = ps_builder s /\ ps_dropped s' = ps_dropped s /\ ps_cur s' = ps_cur s /\
  ps_items s' = ps_items s /\
  ne (map pend_data (ps_pending s')) = ne (map pend_data (ps_pending s) ++ [d]).
Proof.
  unfold p_lexer_error_effect.
  destruct d as [|x d]; destruct (ps_accept _); destruct c; cbn;
    repeat split; auto; rewrite ?map_app, ?ne_app, ?app_nil_r; reflexivity.
Qed.

Lemma next_token_loop_spec items : forall s o s',
  p_next_token_loop items s = (o, s') ->
  ps_builder s' = ps_builder s /\ ps_dropped s' = ps_dropped s /\ ps_cur s' = ps_cur s /\
  ahead_of (ps_pending s') o (ps_items s') = ne (map pend_data (ps_pending s) ++ map item_data items) /\
  (exists mid, items = mid ++ cur_item o ++ ps_items s') /\
  (o = None -> ps_items s' = []).
Proof.
  induction items as [|it r IH]; intros s o s'; cbn [p_next_token_loop].
  - intros [= <- <-]. cbn. repeat split; auto. exists []. reflexivity.
  - destruct it as [k d i|c d i].
    + intros [= <- <-]. cbn. repeat split; auto. exists []. reflexivity. discriminate.
    + intros E. apply IH in E. destruct E as (Hb & Hd & Hc & Ha & [mid Hm] & Hn).
      pose proof (lexer_error_effect_spec c d i (p_count_pull s)) as (Hb' & Hd' & Hc' & _ & Hp').
      cbn zeta in *. repeat split.
      * now rewrite Hb, Hb'.
      * now rewrite Hd, Hd'.
      * now rewrite Hc, Hc'.
      * rewrite Ha. cbn [map item_data]. rewrite ne_mid, ne_app, Hp', ne_app, <- !app_assoc. reflexivity.
      * exists (IErr c d i :: mid). rewrite Hm. reflexivity.
      * exact Hn.
Qed.

Lemma skip_loop_spec items : forall s s',
  ps_cur s = None -> p_skip_loop items s = s' ->
  ps_builder s' = ps_builder s /\ ps_dropped s' = ps_dropped s /\
  st_ahead s' = ne (map pend_data (ps_pending s) ++ map item_data items) /\
  (exists mid, items = mid ++ cur_item (ps_cur s') ++ ps_items s') /\
  filled s'.
Proof.
  induction items as [|it r IH]; intros s s' Hcur; cbn [p_skip_loop].
  - intros <-. unfold st_ahead, ahead_of, filled. cbn. rewrite Hcur. repeat split; auto.
    exists []. reflexivity.
  - destruct it as [k d i|c d i].
    + destruct (p_is_ignored_kind k) eqn:Hk.
      * intros E. apply IH in E; [|exact Hcur].
        destruct E as (Hb & Hd & Ha & [mid Hm] & Hf). repeat split; auto.
        -- rewrite Ha. cbn [map item_data p_count_pull ps_pending ps_set_pending ps_set_pulled].
           rewrite map_app, ne_mid, !ne_app, <- !app_assoc. reflexivity.
        -- exists (ITok k d i :: mid). rewrite Hm. reflexivity.
      * intros <-. unfold st_ahead, ahead_of, filled. cbn. repeat split; auto.
        -- exists []. reflexivity.
        -- left. discriminate.
    + intros E. pose proof (lexer_error_effect_spec c d i (p_count_pull s)) as (Hb' & Hd' & Hc' & _ & Hp').
      cbn zeta in *. apply IH in E; [|now rewrite Hc'].
      destruct E as (Hb & Hd & Ha & [mid Hm] & Hf). repeat split; auto.
      * now rewrite Hb, Hb'.
      * now rewrite Hd, Hd'.
      * rewrite Ha. cbn [map item_data]. rewrite ne_mid, ne_app, Hp', ne_app, <- !app_assoc. reflexivity.
      * exists (IErr c d i :: mid). rewrite Hm. reflexivity.
Qed.
Ltac psimpl :=
  cbn [ps_items ps_cur ps_builder ps_pending ps_errors ps_rec ps_accept ps_pulled ps_dbg ps_dropped
       ps_set_items ps_set_cur ps_set_builder ps_set_pending ps_set_errors ps_set_rec ps_set_accept
       ps_set_pulled ps_set_dropped p_count_pull] in *.

(* states that agree on everything the invariant reads *)
Definition same_text (s s' : pstate) : Prop :=
  ps_builder s' = ps_builder s /\ ps_pending s' = ps_pending s /\ ps_cur s' = ps_cur s /\
  ps_items s' = ps_items s /\ ps_dropped s' = ps_dropped s.

Lemma same_text_weak orig s s' : same_text s s' -> weakL orig s -> weakL orig s'.
Proof.
  intros (Hb & Hp & Hc & Hi & Hd) [Hs He]. unfold weakL, suffix_of, no_text_dropped, st_done, st_ahead in *.
  rewrite Hb, Hp, Hc, Hi, Hd. auto.
Qed.
Lemma same_text_inv orig s s' : same_text s s' -> invL orig s -> invL orig s'.
Proof.
  intros Hst [Hw Hf]. split; [eapply same_text_weak; eauto|].
  destruct Hst as (_ & _ & Hc & Hi & _). unfold filled in *. now rewrite Hc, Hi.
Qed.

Lemma post_same_text orig {A} (m : PM A) :
  (forall s a s', m s = POk (a, s') -> same_text s s') ->
  spec (CL orig) m /\ specWW (CL orig) m.
Proof.
  intros Hm. split; apply postL; intros s Hs a s' E; apply Hm in E.
  - eapply same_text_inv; eauto.
  - eapply same_text_weak; eauto.
Qed.

(* rebuild the weak invariant after a step that moves text forward *)
Lemma weakL_step orig s s' :
  weakL orig s ->
  ps_dropped s' = ps_dropped s ->
  (exists mid, cur_item (ps_cur s) ++ ps_items s = mid ++ cur_item (ps_cur s') ++ ps_items s') ->
  st_done s' ++ st_ahead s' = st_done s ++ st_ahead s ->
  weakL orig s'.
Proof.
  intros [[pre Hs] He] Hd [mid Hm] Ht. split.
  - exists (pre ++ mid). rewrite Hs, Hm, <- app_assoc. reflexivity.
  - unfold no_text_dropped. rewrite Hd, Ht. exact He.
Qed.

Lemma peek_token_L orig : specR (CL orig) p_peek_token.
Proof.
  apply postL. cbn [CL cInv cWeak]. intros s Hw o s'. unfold p_peek_token.
  destruct (ps_cur s) as [t|] eqn:Hc.
  - intros [= <- <-]. split; [exact Hw|]. left. congruence.
  - destruct (p_next_token_loop (ps_items s) s) as [o1 s1] eqn:E. intros [= <- <-].
    apply next_token_loop_spec in E. destruct E as (Hb & Hd & Hc1 & Ha & [mid Hm] & Hn).
    split.
    + eapply weakL_step; [exact Hw|exact Hd| |].
      * rewrite Hc. cbn. exists mid. exact Hm.
      * unfold st_done, st_ahead. psimpl. rewrite Hb, Ha, Hc. reflexivity.
    + unfold filled. psimpl. destruct o1; [left; discriminate|right; auto].
Qed.

Lemma skip_ignored_L orig : specR (CL orig) p_skip_ignored.
Proof.
  apply postL. cbn [CL cInv cWeak]. intros s Hw a s'. unfold p_skip_ignored.
  destruct (ps_cur s) as [t|] eqn:Hc.
  - destruct (p_is_ignored_kind (tok_kind t)).
    + cbv zeta. intros [= <- E]. apply skip_loop_spec in E; [|reflexivity]. psimpl.
      destruct E as (Hb & Hd & Ha & [mid Hm] & Hf).
      split; [|exact Hf].
      eapply weakL_step; [exact Hw|exact Hd| |].
      * rewrite Hc. cbn [cur_item app]. exists (ITok (tok_kind t) (tok_data t) (tok_index t) :: mid).
        rewrite Hm. reflexivity.
      * unfold st_done. rewrite Hb, Ha. unfold st_ahead, ahead_of. rewrite Hc. cbn [cur_data].
        rewrite map_app, <- !app_assoc. reflexivity.
    + intros [= <- <-]. split; [exact Hw|]. left. congruence.
  - intros [= <- E]. apply skip_loop_spec in E; [|exact Hc].
    destruct E as (Hb & Hd & Ha & [mid Hm] & Hf).
    split; [|exact Hf]. eapply weakL_step; [exact Hw|exact Hd| |].
    + rewrite Hc. cbn [cur_item app]. exists mid. exact Hm.
    + unfold st_done. rewrite Hb, Ha. unfold st_ahead, ahead_of. rewrite Hc. reflexivity.
Qed.
