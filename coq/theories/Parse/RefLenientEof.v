(* C05 / C07 — the relaxation rgl_list_eof (a list value may end at the end of the token list instead of at `]`)
   is never visible in a whole Document or field set: every value sits inside parentheses or braces that must still
   be closed.  Proofs only.

   L0 = rgl_noeof LP is the parser's relaxed grammar LP with that one flag off.  Two relations between the LP
   recogniser p and the L0 recogniser p0 of a production:
     rg_sub p p0    everything p accepts, p0 accepts with the same rest       (productions closed by a bracket)
     rg_tight p p0  the same whenever p leaves at least one token             (productions that may END in a value:
                    the relaxation is only ever used at the very end of the token list, leaving nothing)
   A tight production followed by a required token is included (rg_sub_seq_sat); that is the case of every
   occurrence of a value in the grammar: `( Argument+ )`, `{ ObjectField* }`, `( VariableDefinition+ )`,
   `( InputValueDefinition+ )`, `{ InputValueDefinition+ }`.  Hence rgl_document LP ⊆ rgl_document L0.  Since four
   of the five leniencies of the parser were repaired, L0 has one relaxation left (rgl_rootop_notype, the known
   finding root_operation_without_type), which cannot occur in a field set: there L0 is the reference grammar. *)
From Coq Require Import PeanoNat Lia List.
Import ListNotations.
From ApolloVerif Require Import Base.Chars Lex.Item Lex.Fun Parse.RefGrammar Parse.RefLib Parse.RefLenient
  Parse.RefLenientProofs Parse.RefLinkValue Parse.RefLinkExec Parse.RefLinkTS.

Definition rgl_noeof (L : rgl_flags) : rgl_flags :=
  {| rgl_arg_novalue := rgl_arg_novalue L; rgl_objfield_novalue := rgl_objfield_novalue L;
     rgl_rootop_notype := rgl_rootop_notype L; rgl_desc_fragment := rgl_desc_fragment L;
     rgl_schemaext_empty := rgl_schemaext_empty L; rgl_list_eof := false |}.
Notation L0 := (rgl_noeof LP).

(* since the repairs of four of the five known findings of C05, the parser's relaxed grammar without the end-of-list
   relaxation has one relaxation left: a root operation type definition without its named type *)
Definition rgl_rootop_only : rgl_flags :=
  {| rgl_arg_novalue := false; rgl_objfield_novalue := false; rgl_rootop_notype := true;
     rgl_desc_fragment := false; rgl_schemaext_empty := false; rgl_list_eof := false |}.
Lemma rgl_noeof_parser : rgl_noeof rgl_parser = rgl_rootop_only.
Proof. reflexivity. Qed.

(* ------------------------------------------------------------------ the two relations *)
Definition rg_tight (p p0 : rg_p) : Prop := forall ts r, p ts = RgOk r -> r <> [] -> p0 ts = RgOk r.

Lemma rg_sub_tight p p0 : rg_sub p p0 -> rg_tight p p0.
Proof. intros H ts r E _. exact (H _ _ E). Qed.

Lemma rg_nolonger_nonempty p ts r : rg_nolonger p -> p ts = RgOk r -> r <> [] -> ts <> [].
Proof. intros Hn E Hr ->. apply Hn in E. destruct r; [contradiction|cbn in E; lia]. Qed.

Lemma rg_tight_seq p p0 q q0 : rg_tight p p0 -> rg_tight q q0 -> rg_nolonger q -> rg_tight (rg_seq p q) (rg_seq p0 q0).
Proof.
  intros Hp Hq Hn ts r H Hr. unfold rg_seq, rg_bind in *. destruct (p ts) as [r1| |] eqn:E; try discriminate.
  rewrite (Hp _ _ E (rg_nolonger_nonempty q r1 r Hn H Hr)). exact (Hq _ _ H Hr).
Qed.
Lemma rg_tight_seq_sub p p0 q q0 : rg_sub p p0 -> rg_tight q q0 -> rg_tight (rg_seq p q) (rg_seq p0 q0).
Proof.
  intros Hp Hq ts r H Hr. unfold rg_seq, rg_bind in *. destruct (p ts) as [r1| |] eqn:E; try discriminate.
  rewrite (Hp _ _ E). exact (Hq _ _ H Hr).
Qed.
(* a tight production followed by a required token is included *)
Lemma rg_sub_seq_sat p p0 f : rg_tight p p0 -> rg_sub (rg_seq p (rg_sat f)) (rg_seq p0 (rg_sat f)).
Proof.
  intros Hp ts r H. unfold rg_seq, rg_bind in *. destruct (p ts) as [r1| |] eqn:E; try discriminate.
  destruct r1 as [|t r1']; [discriminate H|]. rewrite (Hp _ _ E); [exact H|discriminate].
Qed.
Lemma rg_tight_opt s p p0 : rg_tight p p0 -> rg_tight (rg_opt s p) (rg_opt s p0).
Proof.
  intros Hp [|t ts] r; unfold rg_opt; [intros H _; exact H|]. destruct (s t); [apply Hp|intros H _; exact H].
Qed.
Lemma rg_tight_many_f s p p0 : rg_tight p p0 -> rg_nolonger p -> forall n, rg_tight (rg_many_f n s p) (rg_many_f n s p0).
Proof.
  intros Hp Hn n. induction n as [|n IH]; intros [|t ts] r; cbn [rg_many_f]; try (intros H _; exact H).
  destruct (s t); [|intros H _; exact H]. unfold rg_bind. destruct (p (t :: ts)) as [r1| |] eqn:E; try discriminate.
  intros H Hr. rewrite (Hp _ _ E (rg_nolonger_nonempty _ r1 r (rg_nolonger_many_f s p Hn n) H Hr)). exact (IH _ _ H Hr).
Qed.
Lemma rg_tight_many s p p0 : rg_tight p p0 -> rg_nolonger p -> rg_tight (rg_many s p) (rg_many s p0).
Proof. intros Hp Hn ts r. unfold rg_many. now apply rg_tight_many_f. Qed.
Lemma rg_tight_plus s p p0 : rg_tight p p0 -> rg_nolonger p -> rg_tight (rg_plus s p) (rg_plus s p0).
Proof.
  intros Hp Hn. unfold rg_plus. apply rg_tight_seq; [exact Hp|now apply rg_tight_many|now apply rg_nolonger_many].
Qed.

Lemma rg_tight_close_list b : rg_tight (rgl_close_list b) (rg_sat (rg_is TkRBracket)).
Proof.
  destruct b; cbn [rgl_close_list]; [|apply rg_sub_tight, rg_sub_refl].
  intros [|t ts] r H Hr; [injection H as <-; contradiction|exact H].
Qed.
Lemma rg_tight_colon_then b p p0 : rg_tight p p0 -> rg_tight (rgl_colon_then b p) (rgl_colon_then b p0).
Proof.
  intros Hp. destruct b; cbn [rgl_colon_then].
  - apply rg_tight_opt. apply rg_tight_seq_sub; [apply rg_sub_refl|exact Hp].
  - apply rg_tight_seq_sub; [apply rg_sub_refl|exact Hp].
Qed.

(* ------------------------------------------------------------------ values *)
Lemma rgl_eof_value_f n : forall c, rg_tight (rgl_value_f LP n c) (rgl_value_f L0 n c).
Proof.
  induction n as [|n IH]; intros c ts r; [discriminate|]. cbn [rgl_value_f].
  destruct ts as [|[k d] r0]; [intros H _; exact H|]. destruct k; try (intros H _; exact H).
  - (* [ *)
    intros H Hr. revert H Hr. apply rg_tight_seq.
    + apply rg_tight_many_f; [apply IH|apply rg_progress_nolonger, rgl_value_f_progress].
    + apply rg_tight_close_list.
    + apply rgl_close_list_nolonger.
  - (* { *)
    intros H _. revert H. apply rg_sub_seq_sat. apply rg_tight_many_f.
    + apply rg_tight_seq_sub; [apply rg_sub_refl|]. apply rg_tight_colon_then. apply IH.
    + apply rg_nolonger_seq; [apply rg_progress_nolonger, rg_progress_sat|].
      apply rgl_colon_then_nolonger. apply rg_progress_nolonger, rgl_value_f_progress.
Qed.
Lemma rgl_eof_value c : rg_tight (rgl_value LP c) (rgl_value L0 c).
Proof. intros ts r. apply rgl_eof_value_f. Qed.

(* ------------------------------------------------------------------ arguments, directives, variable definitions *)
Lemma rgl_eof_argument c : rg_tight (rgl_argument LP c) (rgl_argument L0 c).
Proof.
  unfold rgl_argument. apply rg_tight_seq_sub; [apply rg_sub_refl|]. apply rg_tight_colon_then, rgl_eof_value.
Qed.
Lemma rgl_eof_arguments c : rg_sub (rgl_arguments LP c) (rgl_arguments L0 c).
Proof.
  unfold rgl_arguments. apply rg_sub_seq; [apply rg_sub_refl|]. apply rg_sub_seq_sat.
  apply rg_tight_plus; [apply rgl_eof_argument|apply rg_progress_nolonger, rgl_argument_progress].
Qed.
Lemma rgl_eof_directive c : rg_sub (rgl_directive LP c) (rgl_directive L0 c).
Proof.
  unfold rgl_directive. apply rg_sub_seq; [apply rg_sub_refl|]. apply rg_sub_seq; [apply rg_sub_refl|].
  apply rg_sub_opt, rgl_eof_arguments.
Qed.
Lemma rgl_eof_directives c : rg_sub (rgl_directives LP c) (rgl_directives L0 c).
Proof. unfold rgl_directives. apply rg_sub_many, rgl_eof_directive. Qed.

Lemma rgl_eof_default : rg_tight (rgl_default LP) (rgl_default L0).
Proof. unfold rgl_default. apply rg_tight_seq_sub; [apply rg_sub_refl|apply rgl_eof_value]. Qed.
(* `Type DefaultValue? Directives` *)
Lemma rgl_eof_typed_tail :
  rg_tight (rg_seq rg_type (rg_seq (rg_opt (rg_is TkEq) (rgl_default LP)) (rgl_directives LP true)))
           (rg_seq rg_type (rg_seq (rg_opt (rg_is TkEq) (rgl_default L0)) (rgl_directives L0 true))).
Proof.
  apply rg_tight_seq_sub; [apply rg_sub_refl|]. apply rg_tight_seq.
  - apply rg_tight_opt, rgl_eof_default.
  - apply rg_sub_tight, rgl_eof_directives.
  - apply rgl_directives_nolonger.
Qed.
Lemma rgl_eof_vardef : rg_tight (rgl_vardef LP) (rgl_vardef L0).
Proof.
  unfold rgl_vardef. apply rg_tight_seq_sub; [apply rg_sub_refl|]. apply rg_tight_seq_sub; [apply rg_sub_refl|].
  apply rgl_eof_typed_tail.
Qed.
Lemma rgl_eof_vardefs : rg_sub (rgl_vardefs LP) (rgl_vardefs L0).
Proof.
  unfold rgl_vardefs. apply rg_sub_seq; [apply rg_sub_refl|]. apply rg_sub_seq_sat.
  apply rg_tight_plus; [apply rgl_eof_vardef|apply rg_progress_nolonger, rgl_vardef_progress].
Qed.

(* ------------------------------------------------------------------ selection sets *)
Lemma rgl_eof_sel n :
  rg_sub (rgl_selset_f LP n) (rgl_selset_f L0 n) /\ rg_sub (rgl_selection_f LP n) (rgl_selection_f L0 n).
Proof.
  induction n as [|n [IH1 IH2]]; [split; intros ts r; discriminate|]. split.
  - intros ts. cbn [rgl_selset_f]. revert ts.
    apply rg_sub_seq; [apply rg_sub_refl|]. apply rg_sub_seq; [|apply rg_sub_refl].
    apply rg_sub_seq; [exact IH2|]. apply rg_sub_many_f. exact IH2.
  - intros ts. cbn [rgl_selection_f].
    destruct ts as [|[k d] r]; [intros r0 H; exact H|]. destruct k; try (intros r0 H; exact H).
    + destruct r as [|[k2 w] r2].
      * apply (rg_sub_seq _ _ _ _ (rgl_eof_directives false) IH1).
      * destruct k2; try apply (rg_sub_seq _ _ _ _ (rgl_eof_directives false) IH1).
        destruct (rg_streq rg_s_on w); [|apply rgl_eof_directives].
        apply rg_sub_seq; [apply rg_sub_refl|]. apply (rg_sub_seq _ _ _ _ (rgl_eof_directives false) IH1).
    + revert r. apply rg_sub_seq; [apply rg_sub_refl|]. apply rg_sub_seq; [apply rg_sub_opt, rgl_eof_arguments|].
      apply rg_sub_seq; [apply rgl_eof_directives|]. apply rg_sub_opt. exact IH1.
Qed.
Lemma rgl_eof_selset : rg_sub (rgl_selset LP) (rgl_selset L0).
Proof. intros ts. apply (proj1 (rgl_eof_sel _)). Qed.
Lemma rgl_eof_selections : rg_sub (rgl_selections LP) (rgl_selections L0).
Proof.
  intros ts. unfold rgl_selections, rgl_selections_f. generalize (S (length ts)). intros n. revert ts.
  apply rg_sub_seq; [apply (proj2 (rgl_eof_sel _))|]. apply rg_sub_many_f. apply (proj2 (rgl_eof_sel _)).
Qed.
Theorem rgl_eof_field_set : rg_sub (rgl_field_set LP) (rgl_field_set L0).
Proof.
  intros ts. unfold rgl_field_set. destruct ts as [|[[] d] r]; first [apply rgl_eof_selset|apply rgl_eof_selections].
Qed.

(* ------------------------------------------------------------------ executable definitions *)
Lemma rgl_eof_op_tail : rg_sub (rgl_op_tail LP) (rgl_op_tail L0).
Proof.
  unfold rgl_op_tail. apply rg_sub_seq; [apply rg_sub_opt, rgl_eof_vardefs|].
  apply rg_sub_seq; [apply rgl_eof_directives|apply rgl_eof_selset].
Qed.
Lemma rgl_eof_fragment_tail : rg_sub (rgl_fragment_tail LP) (rgl_fragment_tail L0).
Proof.
  unfold rgl_fragment_tail. apply rg_sub_seq; [apply rg_sub_refl|]. apply rg_sub_seq; [apply rg_sub_refl|].
  apply rg_sub_seq; [apply rgl_eof_directives|apply rgl_eof_selset].
Qed.

Ltac rge_id := let x := fresh "x" in let H := fresh "H" in intros x H; exact H.
Ltac rge_no := let x := fresh "x" in let H := fresh "H" in intros x H; discriminate H.

Lemma rgl_eof_operation : rg_dsub (rgl_operation LP) (rgl_operation L0).
Proof.
  intros ts. unfold rgl_operation. destruct ts as [|[k d] r]; [rge_no|].
  destruct k; try rge_no; try (apply rg_dsub_ret; apply rgl_eof_selset).
  destruct (rg_is_optype _); [|rge_no]. destruct r as [|[k2 w] r2]; [apply rg_dsub_ret; apply rgl_eof_op_tail|].
  destruct k2; apply rg_dsub_ret; apply rgl_eof_op_tail.
Qed.
Lemma rgl_eof_fragment : rg_dsub (rgl_fragment LP) (rgl_fragment L0).
Proof.
  intros ts. unfold rgl_fragment. destruct ts as [|t [|[k w] r]]; try rge_no.
  destruct k; try rge_no. destruct (_ && _); [|rge_no]. apply rg_dsub_ret; apply rgl_eof_fragment_tail.
Qed.
Lemma rgl_eof_exec_definition : rg_dsub (rgl_exec_definition LP) (rgl_exec_definition L0).
Proof.
  intros ts. unfold rgl_exec_definition. destruct ts as [|t r]; [rge_no|].
  destruct (rg_is_kw _ t); [apply rgl_eof_fragment|apply rgl_eof_operation].
Qed.

(* ------------------------------------------------------------------ type system *)
Lemma rgl_eof_inputvaldef : rg_tight (rgl_inputvaldef LP) (rgl_inputvaldef L0).
Proof.
  unfold rgl_inputvaldef. apply rg_tight_seq_sub; [apply rg_sub_refl|]. apply rg_tight_seq_sub; [apply rg_sub_refl|].
  apply rg_tight_seq_sub; [apply rg_sub_refl|]. apply rgl_eof_typed_tail.
Qed.
Lemma rgl_eof_argsdef : rg_sub (rgl_argsdef LP) (rgl_argsdef L0).
Proof.
  unfold rgl_argsdef. apply rg_sub_seq; [apply rg_sub_refl|]. apply rg_sub_seq_sat.
  apply rg_tight_plus; [apply rgl_eof_inputvaldef|apply rg_progress_nolonger, rgl_inputvaldef_progress].
Qed.
Lemma rgl_eof_inputfieldsdef : rg_sub (rgl_inputfieldsdef LP) (rgl_inputfieldsdef L0).
Proof.
  unfold rgl_inputfieldsdef. apply rg_sub_seq; [apply rg_sub_refl|]. apply rg_sub_seq_sat.
  apply rg_tight_plus; [apply rgl_eof_inputvaldef|apply rg_progress_nolonger, rgl_inputvaldef_progress].
Qed.
Lemma rgl_eof_fielddef : rg_sub (rgl_fielddef LP) (rgl_fielddef L0).
Proof.
  unfold rgl_fielddef. apply rg_sub_seq; [apply rg_sub_refl|]. apply rg_sub_seq; [apply rg_sub_refl|].
  apply rg_sub_seq; [apply rg_sub_opt, rgl_eof_argsdef|]. apply rg_sub_seq; [apply rg_sub_refl|].
  apply rg_sub_seq; [apply rg_sub_refl|apply rgl_eof_directives].
Qed.
Lemma rgl_eof_fieldsdef : rg_sub (rgl_fieldsdef LP) (rgl_fieldsdef L0).
Proof.
  unfold rgl_fieldsdef. apply rg_sub_seq; [apply rg_sub_refl|]. apply rg_sub_seq; [|apply rg_sub_refl].
  apply rg_sub_plus, rgl_eof_fielddef.
Qed.
Lemma rgl_eof_enumvaldef : rg_sub (rgl_enumvaldef LP) (rgl_enumvaldef L0).
Proof.
  unfold rgl_enumvaldef. apply rg_sub_seq; [apply rg_sub_refl|]. apply rg_sub_seq; [apply rg_sub_refl|apply rgl_eof_directives].
Qed.
Lemma rgl_eof_enumvalsdef : rg_sub (rgl_enumvalsdef LP) (rgl_enumvalsdef L0).
Proof.
  unfold rgl_enumvalsdef. apply rg_sub_seq; [apply rg_sub_refl|]. apply rg_sub_seq; [|apply rg_sub_refl].
  apply rg_sub_plus, rgl_eof_enumvaldef.
Qed.
(* no value in these: the two flag sets give the same function *)
Lemma rgl_eof_rootops : rg_sub (rgl_rootops LP) (rgl_rootops L0).
Proof. exact (rg_sub_refl (rgl_rootops LP)). Qed.
Lemma rgl_eof_rootops0 : rg_sub (rgl_rootops0 LP) (rgl_rootops0 L0).
Proof. exact (rg_sub_refl (rgl_rootops0 LP)). Qed.

Lemma rgl_eof_schema_tail : rg_sub (rgl_schema_tail LP) (rgl_schema_tail L0).
Proof. unfold rgl_schema_tail. apply rg_sub_seq; [apply rgl_eof_directives|apply rgl_eof_rootops]. Qed.
Lemma rgl_eof_scalar_tail : rg_sub (rgl_scalar_tail LP) (rgl_scalar_tail L0).
Proof. apply rgl_eof_directives. Qed.
Lemma rgl_eof_object_tail : rg_sub (rgl_object_tail LP) (rgl_object_tail L0).
Proof.
  unfold rgl_object_tail. apply rg_sub_seq; [apply rg_sub_refl|].
  apply rg_sub_seq; [apply rgl_eof_directives|apply rg_sub_opt, rgl_eof_fieldsdef].
Qed.
Lemma rgl_eof_union_tail : rg_sub (rgl_union_tail LP) (rgl_union_tail L0).
Proof. unfold rgl_union_tail. apply rg_sub_seq; [apply rgl_eof_directives|apply rg_sub_refl]. Qed.
Lemma rgl_eof_enum_tail : rg_sub (rgl_enum_tail LP) (rgl_enum_tail L0).
Proof. unfold rgl_enum_tail. apply rg_sub_seq; [apply rgl_eof_directives|apply rg_sub_opt, rgl_eof_enumvalsdef]. Qed.
Lemma rgl_eof_input_tail : rg_sub (rgl_input_tail LP) (rgl_input_tail L0).
Proof. unfold rgl_input_tail. apply rg_sub_seq; [apply rgl_eof_directives|apply rg_sub_opt, rgl_eof_inputfieldsdef]. Qed.
Lemma rgl_eof_dirdef_tail : rg_sub (rgl_dirdef_tail LP) (rgl_dirdef_tail L0).
Proof. unfold rgl_dirdef_tail. apply rg_sub_seq; [apply rg_sub_opt, rgl_eof_argsdef|apply rg_sub_refl]. Qed.

Lemma rgl_eof_schema_ext_tail : rg_sub (rgl_schema_ext_tail LP) (rgl_schema_ext_tail L0).
Proof.
  intros ts. unfold rgl_schema_ext_tail. change (rgl_schemaext_empty L0) with (rgl_schemaext_empty LP).
  destruct (rgl_schemaext_empty LP && match ts with t :: _ => rg_is TkAt t | [] => false end).
  - revert ts. apply rg_sub_seq; [apply rgl_eof_directives|]. apply rg_sub_opt, rgl_eof_rootops0.
  - revert ts. apply rg_sub_seq; [apply rg_sub_refl|]. apply rg_sub_seq; [apply rgl_eof_directives|].
    apply rg_sub_opt, rgl_eof_rootops.
Qed.

Ltac rge_kw_step :=
  match goal with |- context [if rg_streq ?a ?b then _ else _] => destruct (rg_streq a b) end.

Lemma rgl_eof_ts_def_kw : rg_dsub (rgl_ts_def_kw LP) (rgl_ts_def_kw L0).
Proof.
  intros ts. unfold rgl_ts_def_kw. destruct ts as [|[k w] r]; [rge_no|]. destruct k; try rge_no.
  rge_kw_step; [apply rg_dsub_ret; apply rgl_eof_schema_tail|].
  rge_kw_step; [apply rg_dsub_named; apply rgl_eof_scalar_tail|].
  rge_kw_step; [apply rg_dsub_named; apply rgl_eof_object_tail|].
  rge_kw_step; [apply rg_dsub_named; apply rgl_eof_object_tail|].
  rge_kw_step; [apply rg_dsub_named; apply rgl_eof_union_tail|].
  rge_kw_step; [apply rg_dsub_named; apply rgl_eof_enum_tail|].
  rge_kw_step; [apply rg_dsub_named; apply rgl_eof_input_tail|].
  rge_kw_step; [|rge_no].
  destruct r as [|[k2 w2] r2]; [rge_no|]. destruct k2; try rge_no. apply rg_dsub_named; apply rgl_eof_dirdef_tail.
Qed.
Lemma rgl_eof_ts_ext_kw : rg_dsub (rgl_ts_ext_kw LP) (rgl_ts_ext_kw L0).
Proof.
  intros ts. unfold rgl_ts_ext_kw. destruct ts as [|[k w] r]; [rge_no|]. destruct k; try rge_no.
  rge_kw_step; [apply rg_dsub_ret; apply rgl_eof_schema_ext_tail|].
  rge_kw_step; [apply rg_dsub_named; apply rg_sub_seq; [apply rg_sub_refl|apply rgl_eof_scalar_tail]|].
  rge_kw_step; [apply rg_dsub_named; apply rg_sub_seq; [apply rg_sub_refl|apply rgl_eof_object_tail]|].
  rge_kw_step; [apply rg_dsub_named; apply rg_sub_seq; [apply rg_sub_refl|apply rgl_eof_object_tail]|].
  rge_kw_step; [apply rg_dsub_named; apply rg_sub_seq; [apply rg_sub_refl|apply rgl_eof_union_tail]|].
  rge_kw_step; [apply rg_dsub_named; apply rg_sub_seq; [apply rg_sub_refl|apply rgl_eof_enum_tail]|].
  rge_kw_step; [apply rg_dsub_named; apply rg_sub_seq; [apply rg_sub_refl|apply rgl_eof_input_tail]|].
  rge_no.
Qed.
Lemma rgl_eof_definition : rg_dsub (rgl_definition LP) (rgl_definition L0).
Proof.
  intros ts. unfold rgl_definition. destruct ts as [|[k w] r]; [rge_no|].
  destruct k; try rge_no.
  - apply rgl_eof_operation.
  - destruct (_ || _); [apply rgl_eof_exec_definition|]. destruct (rg_streq _ _); [apply rgl_eof_ts_ext_kw|].
    apply rgl_eof_ts_def_kw.
  - unfold rgl_desc_then. change (rgl_desc_fragment L0) with (rgl_desc_fragment LP). destruct r as [|[k2 w2] r2]; [apply rgl_eof_ts_def_kw|].
    (* rgl_desc_fragment is off in both flag sets *)
    destruct k2; apply rgl_eof_ts_def_kw.
Qed.

Theorem rgl_eof_document ts ds : rgl_document LP ts = Some ds -> rgl_document L0 ts = Some ds.
Proof.
  unfold rgl_document, rg_document_r. destruct ts as [|t ts]; [discriminate|].
  destruct (rg_defs_f _ (rgl_definition LP) _) as [ds'| |] eqn:E; try discriminate. intros [= <-].
  rewrite (rg_defs_f_sub _ _ rgl_eof_definition _ _ _ E). reflexivity.
Qed.

(* ------------------------------------------------------------------ consequences *)
(* whole documents: what the parser accepts is a Document of the grammar with the ONE remaining relaxation *)
Theorem rgl_parser_document_is_rootop_only ts ds :
  rgl_document LP ts = Some ds -> rgl_document rgl_rootop_only ts = Some ds.
Proof. intros H. apply rgl_eof_document in H. exact H. Qed.

(* the class on which the parser's verdict can differ from the reference's is that of this one relaxation *)
Theorem rgl_known_document_is_rootop ts : rgl_known_document ts = true ->
  (exists ds, rgl_document rgl_rootop_only ts = Some ds) /\ rg_document ts = None.
Proof.
  unfold rgl_known_document. destruct (rgl_document rgl_parser ts) as [ds|] eqn:E; [|discriminate].
  destruct (rg_document ts); [discriminate|]. intros _. split; [|reflexivity].
  exists ds. apply rgl_parser_document_is_rootop_only. exact E.
Qed.

(* whole field sets: no root operation type definition inside, so L0 is the reference there *)
Lemma rgl_rootop_only_field_set ts : rgl_field_set L0 ts = rg_field_set ts.
Proof. reflexivity. Qed.
Theorem rgl_parser_field_set_is_reference ts r : rgl_field_set LP ts = RgOk r -> rg_field_set ts = RgOk r.
Proof. intros H. apply rgl_eof_field_set in H. rewrite <- rgl_rootop_only_field_set. exact H. Qed.

Theorem rgl_known_field_set_empty ts : rgl_known_field_set ts = false.
Proof.
  unfold rgl_known_field_set, rgl_whole. destruct (rgl_field_set rgl_parser ts) as [[|x l]| |] eqn:E; try reflexivity.
  rewrite (rgl_parser_field_set_is_reference _ _ E). reflexivity.
Qed.
