(* C05 link — the type-system productions (input.rs, argument.rs definitions, field.rs definitions, object.rs,
   interface.rs, scalar.rs, union_.rs, enum_.rs, schema.rs, directive.rs definitions) against the relaxed reference.
   Proofs only. *)
From Coq Require Import PeanoNat.
From ApolloVerif Require Import Base.Chars Lex.Item Lex.Fun Parse.Outcome Parse.Builder Parse.Limits Parse.Monad
  Parse.Keywords Parse.Grammar Parse.Generic Parse.Atoms Parse.Entry Parse.LosslessDefs Parse.Lossless
  Parse.TrackerInst Parse.SilentInst Parse.EntryEnd Parse.Terminates Parse.RefGrammar Parse.RefLib Parse.RefLenient
  Parse.RefLenientProofs Parse.RefLinkBase Parse.RefLinkLoops Parse.RefLinkType Parse.RefLinkValue Parse.RefLinkExec
  Parse.RefLinkSel Parse.RefLinkDefs.

(* ------------------------------------------------------------------ description, keywords *)
Lemma rl_sim_description : rl_sim (rg_starts (rg_is TkStringValue)) g_description (rg_sat (rg_is TkStringValue)).
Proof. unfold g_description. apply rl_sim_node. apply rl_sim_node. apply rl_sim_bump. Qed.
Lemma rl_sim_desc_opt : rl_sim rl_any (g_if_peek TkStringValue g_description) rg_desc_opt.
Proof. unfold rg_desc_opt. apply rl_sim_if_peek; [discriminate|apply rl_sim_description]. Qed.

Lemma rl_gen_peek_data_is kw : rl_gen (g_peek_data_is kw).
Proof. split; [apply (gg_peek_data_is CT CT_ok)|apply (gg_peek_data_is CX CX_ok)]. Qed.

(* the test `p.peek_data() == Some(kw)` equals the test "the next token is the keyword kw" on the view *)
Lemma rl_peek_data_view s t kw : rl_inv s -> ps_cur s = Some t -> rl_is_kw_str kw ->
  p_str_eqb (tok_data t) kw = rl_head_is (rg_is_kw kw) (rl_sigs s).
Proof.
  intros Hinv Hc Hkw. destruct (tkind_eqb (tok_kind t) TkName) eqn:Hk.
  - apply tkind_eqb_eq in Hk. assert (Hne : tok_kind t <> TkEof) by congruence.
    destruct (rl_sigs_tok _ _ Hinv Hc Hne) as (-> & _). cbn [rl_head_is]. unfold rg_is_kw. cbn [fst snd]. rewrite Hk.
    cbn [tkind_eqb andb]. change (p_str_eqb (tok_data t) kw) with (rg_streq (tok_data t) kw). apply rg_streq_sym.
  - assert (Hnn : tok_kind t <> TkName) by (intros H; apply tkind_eqb_eq in H; congruence).
    rewrite (rl_data_not_kw _ _ kw Hinv Hc Hnn Hkw). rewrite (rl_sigs_head _ _ Hinv Hc).
    destruct (tkind_eqb (tok_kind t) TkEof); [reflexivity|]. cbn [rl_head_is]. unfold rg_is_kw. cbn [fst].
    destruct (tok_kind t); try reflexivity. discriminate Hk.
Qed.

(* `if p.peek_data() == Some(kw) { m }` is X? on the keyword *)
Lemma rl_sim_if_kw (P : list rg_token -> Prop) kw (m : PM unit) q : rl_is_kw_str kw ->
  rl_sim (fun ts => P ts /\ rg_starts (rg_is_kw kw) ts) m q ->
  rl_sim P (b <- g_peek_data_is kw ;; p_when b m) (rg_opt (rg_is_kw kw) q).
Proof.
  intros Hkw [Hg Hm]. split.
  { apply rl_gen_bind; [apply rl_gen_peek_data_is|]. intros [|]; cbn [p_when]; [exact Hg|apply rl_gen_ret]. }
  intros s u s' E [Hinv Ha] Ht HP. destruct (rl_inv_cur _ Hinv) as (t & Hc & Hi & _).
  unfold p_bind in E. rewrite (peek_data_is_some kw t s Hc) in E. rewrite (rl_peek_data_view _ _ _ Hinv Hc Hkw) in E.
  unfold rl_sound, rl_complete, rg_opt. destruct (rl_sigs s) as [|t0 ts] eqn:Es; cbn [rl_head_is] in E.
  - cbn [p_when] in E. injection E as _ <-. rewrite Es. split.
    + intros _. split; [split; assumption|]. split; [exists []; reflexivity|reflexivity].
    + intros _ r [= <-]. auto.
  - destruct (rg_is_kw kw t0) eqn:Hk; cbn [p_when] in E.
    + assert (Hp : P (rl_sigs s) /\ rg_starts (rg_is_kw kw) (rl_sigs s)) by (rewrite Es; split; [exact HP|exact Hk]).
      destruct (Hm s u s' E (conj Hinv Ha) Ht Hp) as [Hs Hcm]. unfold rl_sound, rl_complete in *.
      rewrite Es in Hs, Hcm. split; assumption.
    + injection E as _ <-. rewrite Es. split.
      * intros _. split; [split; assumption|]. split; [exists []; reflexivity|reflexivity].
      * intros _ r [= <-]. auto.
Qed.

(* the keyword itself, where the dispatch has already seen it: `if peek_data == kw { bump }` *)
Lemma rl_sim_kw_bump kw sk : rl_is_kw_str kw ->
  rl_sim (rg_starts (rg_is_kw kw)) (b <- g_peek_data_is kw ;; p_when b (p_bump sk)) (rg_sat (rg_is_kw kw)).
Proof.
  intros Hkw. eapply rl_sim_ext; [|apply (rl_sim_if_kw (rg_starts (rg_is_kw kw)) kw (p_bump sk) (rg_sat (rg_is_kw kw)) Hkw)].
  - intros [|t ts] H; cbn [rg_starts] in H; [contradiction|]. unfold rg_opt. rewrite H. reflexivity.
  - eapply rl_sim_weaken; [|apply rl_sim_bump]. intros ts [_ H]. exact H.
Qed.

Lemma rl_sim_name_or_err : rl_sim rl_any g_name_or_err rg_name.
Proof.
  unfold g_name_or_err. apply rl_sim_peek_else_err; [discriminate|apply rl_sim_any, rl_sim_name|].
  intros [|t ts] H; cbn [rl_head_is] in H; [reflexivity|]. cbn [rg_name rg_sat]. rewrite H. reflexivity.
Qed.

(* a definition that may start with a description: Description? <kw> REST; the dispatch guarantees the keyword *)
Definition rl_desc_kw (kw : str) (ts : list rg_token) : Prop :=
  match ts with
  | (TkStringValue, _) :: t :: _ => rg_is_kw kw t = true
  | t :: _ => rg_is_kw kw t = true
  | [] => False
  end.

Lemma rl_sim_desc_kw_rest {B} kw sk (rest : PM B) qrest : rl_is_kw_str kw ->
  rl_sim rl_any rest qrest ->
  rl_sim (rl_desc_kw kw)
    (g_if_peek TkStringValue g_description ;; b <- g_peek_data_is kw ;; p_when b (p_bump sk) ;; rest)
    (rg_seq rg_desc_opt (rg_seq (rg_sat (rg_is_kw kw)) qrest)).
Proof.
  intros Hkw Hrest. eapply rl_sim_bind_pre with (Q := rg_starts (rg_is_kw kw)).
  - apply rl_sim_any, rl_sim_desc_opt.
  - intros _. apply (rl_sim_fext (rg_starts (rg_is_kw kw)) ((b <- g_peek_data_is kw ;; p_when b (p_bump sk)) ;; rest)).
    { intros s. apply p_bind_assoc. }
    apply rl_sim_bind; [apply rl_sim_kw_bump; exact Hkw|intros _; exact Hrest].
  - intros ts r Hp Hq. unfold rg_desc_opt, rg_opt in Hq. destruct ts as [|[k d] ts']; [contradiction|].
    unfold rg_is in Hq. cbn [fst] in Hq. destruct k; cbn [tkind_eqb] in Hq;
      try (injection Hq as <-; cbn [rl_desc_kw] in Hp; cbn; exact Hp).
    (* a string: it is consumed, and the keyword follows *)
    cbn [rg_sat] in Hq. unfold rg_is in Hq. cbn [fst tkind_eqb] in Hq. injection Hq as <-.
    cbn [rl_desc_kw] in Hp. destruct ts' as [|t' ts'']; [discriminate Hp|]. cbn. exact Hp.
Qed.

(* ------------------------------------------------------------------ input values, arguments definition *)
Lemma rl_sim_input_value_definition f :
  rl_sim rl_any (g_input_value_definition f) (rgl_inputvaldef LP).
Proof.
  unfold g_input_value_definition, rgl_inputvaldef. apply rl_sim_node.
  apply rl_sim_bind; [apply rl_sim_desc_opt|intros _].
  apply rl_sim_bind; [apply rl_sim_name|intros _]. apply rl_sim_colon_typed.
Qed.

Definition rl_sel_name_or_string (k : tkind) : bool := match k with TkName | TkStringValue => true | _ => false end.
Lemma rg_is_name_or_string_sel t : rg_is_name_or_string t = rl_sel_name_or_string (fst t).
Proof. destruct t as [[] d]; reflexivity. Qed.
Lemma rg_is_name_or_string_in t : rg_is_name_or_string t = rl_kind_in [TkName; TkStringValue] t.
Proof. destruct t as [[] d]; reflexivity. Qed.

Lemma rg_desc_opt_nolonger : rg_nolonger rg_desc_opt.
Proof. apply rg_nolonger_opt, rg_progress_nolonger, rg_progress_sat. Qed.

Lemma rgl_typed_tail_nolonger :
  rg_nolonger (rg_seq (rg_sat (rg_is TkColon))
     (rg_seq rg_type (rg_seq (rg_opt (rg_is TkEq) (rgl_default LP)) (rgl_directives LP true)))).
Proof.
  apply rg_nolonger_seq; [apply rg_progress_nolonger, rg_progress_sat|].
  apply rg_nolonger_seq; [apply rg_progress_nolonger, rg_type_progress|].
  apply rg_nolonger_seq; [apply rg_nolonger_opt, rgl_default_nolonger|apply rgl_directives_nolonger].
Qed.
Lemma rgl_inputvaldef_progress : rg_progress (rgl_inputvaldef LP).
Proof.
  unfold rgl_inputvaldef. apply rg_progress_seq_r; [apply rg_desc_opt_nolonger|].
  apply rg_progress_seq_l; [apply rg_progress_sat|apply rgl_typed_tail_nolonger].
Qed.
Lemma rl_requires_desc_name q : rl_requires rg_is_name_or_string (rg_seq rg_desc_opt (rg_seq rg_name q)).
Proof. rl_req. Qed.

(* the shape shared by arguments_definition, fields_definition, input_fields_definition, enum_values_definition:
   open, one item or an error, more items while the next token is a name or a string, close *)
Lemma rl_sim_listed f (item : PM unit) q open_sk close_k close_sk :
  close_k <> TkEof -> rl_sim (rg_starts rg_is_name_or_string) item q -> rg_progress q ->
  rl_requires rg_is_name_or_string q ->
  forall open_f,
  rl_sim (rg_starts open_f)
    (p_bump open_sk ;;
     b <- g_peek_in [TkName; TkStringValue] ;; (if b then item else p_err) ;;
     p_peek_while f (fun kind => match kind with TkName | TkStringValue => item ;; p_ret true | _ => p_ret false end) ;;
     p_expect close_k close_sk)
    (rg_seq (rg_sat open_f) (rg_seq (rg_plus rg_is_name_or_string q) (rg_sat (rg_is close_k)))).
Proof.
  intros Hne Hitem Hprog Hreq open_f. unfold rg_plus.
  apply rl_sim_bind; [apply rl_sim_bump|intros _].
  eapply rl_sim_ext; [intros ts _; symmetry; apply rg_seq_assoc'|].
  apply rl_sim_peek_in_else_err_then with (f := rg_is_name_or_string);
    [cbn; intuition discriminate|apply rg_is_name_or_string_in|exact Hitem|exact Hreq|].
  apply rl_sim_bind; [|intros _; apply rl_sim_expect; exact Hne].
  apply (rl_sim_many_sel rl_sel_name_or_string rg_is_name_or_string _ item q);
    [reflexivity|apply rg_is_name_or_string_sel| | |exact Hitem|exact Hprog].
  - intros []; intros H; try discriminate H; reflexivity.
  - intros []; intros H; try discriminate H; reflexivity.
Qed.

Lemma rl_sim_arguments_definition_body f :
  rl_sim (rg_starts (rg_is TkLParen)) (g_arguments_definition_body f) (rgl_argsdef LP).
Proof.
  unfold g_arguments_definition_body, rgl_argsdef.
  apply rl_sim_listed; [discriminate|apply rl_sim_any, rl_sim_input_value_definition|apply rgl_inputvaldef_progress|].
  unfold rgl_inputvaldef. apply rl_requires_desc_name.
Qed.
Lemma rl_sim_arguments_definition f :
  rl_sim (rg_starts (rg_is TkLParen)) (g_arguments_definition f) (rgl_argsdef LP).
Proof. unfold g_arguments_definition. apply rl_sim_node. apply rl_sim_arguments_definition_body. Qed.

Lemma rl_sim_input_fields_definition f :
  rl_sim (rg_starts (rg_is TkLCurly)) (g_input_fields_definition f) (rgl_inputfieldsdef LP).
Proof.
  unfold g_input_fields_definition, rgl_inputfieldsdef. apply rl_sim_node.
  apply rl_sim_listed; [discriminate|apply rl_sim_any, rl_sim_input_value_definition|apply rgl_inputvaldef_progress|].
  unfold rgl_inputvaldef. apply rl_requires_desc_name.
Qed.

(* ------------------------------------------------------------------ field definitions *)
Lemma rl_silent_peek : rl_silent (_ <- p_peek ;; p_ret tt).
Proof.
  split.
  - apply rl_gen_bind; [split; [apply (d_peek _ CT_atoms)|apply (d_peek _ CX_atoms)]|intros; apply rl_gen_ret].
  - intros s a s' E (t & Hc & _). unfold p_bind in E. rewrite (peek_some t s Hc) in E. injection E as _ <-.
    apply rl_obs_eq_refl.
Qed.

Lemma rl_sim_field_definition f : rl_sim rl_any (g_field_definition f) (rgl_fielddef LP).
Proof.
  unfold g_field_definition, rgl_fielddef. apply rl_sim_node.
  apply rl_sim_bind; [apply rl_sim_desc_opt|intros _].
  apply rl_sim_bind; [apply rl_sim_name|intros _].
  apply rl_sim_bind; [apply rl_sim_if_peek; [discriminate|apply rl_sim_arguments_definition]|intros _].
  apply rl_sim_peek_else_err; [discriminate| |apply rl_requires_seq_sat].
  apply rl_sim_bind; [apply rl_sim_bump|intros _].
  eapply rl_sim_peek_in_else_err with (f := rg_is_type_start);
    [cbn; intuition discriminate|apply rg_is_type_start_in| |apply rl_requires_type].
  apply rl_sim_any. apply rl_sim_bind; [apply rl_sim_ty|intros _].
  apply rl_sim_silent_r; [apply (rl_sim_directives_opt f GConst)|intros _; apply rl_silent_peek].
Qed.

Lemma rgl_fielddef_progress : rg_progress (rgl_fielddef LP).
Proof.
  unfold rgl_fielddef. apply rg_progress_seq_r; [apply rg_desc_opt_nolonger|].
  apply rg_progress_seq_l; [apply rg_progress_sat|].
  apply rg_nolonger_seq.
  - apply rg_nolonger_opt. unfold rgl_argsdef. apply rg_progress_nolonger.
    apply rg_progress_seq_l; [apply rg_progress_sat|]. apply rg_nolonger_seq; [|apply rg_progress_nolonger, rg_progress_sat].
    apply rg_progress_nolonger, rg_progress_plus, rgl_inputvaldef_progress.
  - apply rg_nolonger_seq; [apply rg_progress_nolonger, rg_progress_sat|].
    apply rg_nolonger_seq; [apply rg_progress_nolonger, rg_type_progress|apply rgl_directives_nolonger].
Qed.

Lemma rl_sim_fields_definition f :
  rl_sim (rg_starts (rg_is TkLCurly)) (g_fields_definition f) (rgl_fieldsdef LP).
Proof.
  unfold g_fields_definition, rgl_fieldsdef. apply rl_sim_node.
  apply rl_sim_listed; [discriminate|apply rl_sim_any, rl_sim_field_definition|apply rgl_fielddef_progress|].
  unfold rgl_fielddef. apply rl_requires_desc_name.
Qed.

(* ------------------------------------------------------------------ implements, union members *)
Lemma rl_sim_named_type_or_err : rl_sim rl_any (b <- g_peek_is TkName ;; if b then g_named_type else p_err) rg_name.
Proof.
  apply rl_sim_peek_else_err; [discriminate|apply rl_sim_named_type|].
  intros [|t ts] H; cbn [rl_head_is] in H; [reflexivity|]. cbn [rg_name rg_sat]. rewrite H. reflexivity.
Qed.

Lemma rl_sim_implements_interfaces f :
  rl_sim (rg_starts (rg_is_kw rg_s_implements)) (g_implements_interfaces f) rg_implements.
Proof.
  unfold g_implements_interfaces, rg_implements. apply rl_sim_node.
  apply rl_sim_bind; [apply rl_sim_bump|intros _].
  apply rl_sim_separated; [discriminate|apply rl_sim_named_type_or_err|apply rg_progress_nolonger, rg_progress_sat].
Qed.

Lemma rl_sim_union_member_types f :
  rl_sim (rg_starts (rg_is TkEq)) (g_union_member_types f) rg_unionmembers.
Proof.
  unfold g_union_member_types, rg_unionmembers. apply rl_sim_node.
  apply rl_sim_bind; [apply rl_sim_bump|intros _].
  apply rl_sim_separated; [discriminate|apply rl_sim_named_type_or_err|apply rg_progress_nolonger, rg_progress_sat].
Qed.

(* ------------------------------------------------------------------ enum values *)
(* enum_value_definition does nothing at all unless the next token is a name or a string; both of its callers
   have checked that, so that is its precondition here *)
Lemma rl_sim_enum_value_definition f :
  rl_sim (rg_starts rg_is_name_or_string) (g_enum_value_definition f) (rgl_enumvaldef LP).
Proof.
  unfold g_enum_value_definition, rgl_enumvaldef.
  assert (Hbody : rl_sim rl_any
            (p_node SK_ENUM_VALUE_DEFINITION
               (g_if_peek TkStringValue g_description ;; g_enum_value ;; g_if_peek TkAt (g_directives f GConst)))
            (rg_seq rg_desc_opt (rg_seq (rg_sat rg_enum_name) (rgl_directives LP true)))).
  { apply rl_sim_node. apply rl_sim_bind; [apply rl_sim_desc_opt|intros _].
    apply rl_sim_bind; [apply rl_sim_enum_value|intros _]. apply (rl_sim_directives_opt f GConst). }
  split.
  { apply rl_gen_bind; [apply rl_gen_peek_in|]. intros [|]; cbn [p_when]; [apply Hbody|apply rl_gen_ret]. }
  intros s u s' E [Hinv Ha] Ht Hst. destruct (rl_inv_cur _ Hinv) as (t & Hc & Hi & _).
  unfold p_bind in E. rewrite (peek_in_some _ t s Hc) in E.
  rewrite (rl_peek_in_view _ _ _ Hinv Hc) in E by (cbn; intuition discriminate).
  assert (Hh : rl_head_is (rl_kind_in [TkName; TkStringValue]) (rl_sigs s) = true).
  { destruct (rl_sigs s) as [|t0 ts]; [contradiction|]. cbn [rg_starts] in Hst. cbn [rl_head_is].
    rewrite <- rg_is_name_or_string_in. exact Hst. }
  rewrite Hh in E. cbn [p_when] in E. exact (proj2 Hbody s u s' E (conj Hinv Ha) Ht I).
Qed.

Lemma rgl_enumvaldef_progress : rg_progress (rgl_enumvaldef LP).
Proof.
  unfold rgl_enumvaldef. apply rg_progress_seq_r; [apply rg_desc_opt_nolonger|].
  apply rg_progress_seq_l; [apply rg_progress_sat|apply rgl_directives_nolonger].
Qed.
Lemma rl_requires_enumvaldef : rl_requires rg_is_name_or_string (rgl_enumvaldef LP).
Proof. unfold rgl_enumvaldef. rl_req. Qed.

Lemma rl_sim_enum_values_definition f :
  rl_sim (rg_starts (rg_is TkLCurly)) (g_enum_values_definition f) (rgl_enumvalsdef LP).
Proof.
  unfold g_enum_values_definition, rgl_enumvalsdef. apply rl_sim_node.
  apply rl_sim_listed; [discriminate|apply rl_sim_enum_value_definition|apply rgl_enumvaldef_progress|
                        apply rl_requires_enumvaldef].
Qed.

(* ------------------------------------------------------------------ fuel of X* does not matter once it is enough *)
Lemma rg_many_f_fuel s p : rg_progress p -> forall a b ts, (length ts <= a)%nat -> (length ts <= b)%nat ->
  rg_many_f a s p ts = rg_many_f b s p ts.
Proof.
  intros Hp. induction a as [|a IH]; intros b ts Ha Hb.
  - destruct ts; [|cbn in Ha; lia]. destruct b; reflexivity.
  - destruct ts as [|t ts']; [destruct b; reflexivity|]. destruct b as [|b]; [cbn in Hb; lia|].
    cbn [rg_many_f]. destruct (s t); [|reflexivity]. unfold rg_bind.
    destruct (p (t :: ts')) as [r1| |] eqn:E; try reflexivity. pose proof (Hp _ _ E) as Hlt. cbn [length] in *.
    apply IH; lia.
Qed.
Lemma rg_plus_many s p ts : rg_progress p -> rl_head_is s ts = true -> rg_plus s p ts = rg_many s p ts.
Proof.
  intros Hp Hh. destruct ts as [|t ts']; [discriminate|]. cbn [rl_head_is] in Hh.
  unfold rg_plus, rg_seq, rg_many. cbn [length rg_many_f]. rewrite Hh. unfold rg_bind.
  destruct (p (t :: ts')) as [r1| |] eqn:E; try reflexivity. pose proof (Hp _ _ E) as Hlt. cbn [length] in Hlt.
  apply rg_many_f_fuel; [exact Hp|lia|lia].
Qed.

(* ------------------------------------------------------------------ root operation types *)
Lemma rl_sim_root_operation : rl_sim rl_any g_root_operation_type_definition (rgl_rootop LP).
Proof.
  unfold g_root_operation_type_definition, rgl_rootop. cbn [rgl_rootop_notype rgl_parser]. apply rl_sim_node.
  apply rl_sim_bind; [apply rl_sim_operation_type|intros _].
  apply rl_sim_peek_else_err; [discriminate| |apply rl_requires_seq_sat].
  apply rl_sim_bind; [apply rl_sim_bump|intros _; apply rl_sim_named_type_opt].
Qed.
Lemma rgl_rootop_progress : rg_progress (rgl_rootop LP).
Proof.
  unfold rgl_rootop. apply rg_progress_seq_l; [apply rg_progress_sat|]. apply rg_nolonger_seq.
  - apply rg_progress_nolonger, rg_progress_sat.
  - cbn [rgl_rootop_notype rgl_parser]. apply rg_nolonger_opt, rg_progress_nolonger, rg_progress_sat.
Qed.
Lemma rgl_rootop_head ts r : rgl_rootop LP ts = RgOk r -> rl_head_is (rg_is TkName) ts = true.
Proof.
  unfold rgl_rootop, rg_seq, rg_bind, rg_sat. destruct ts as [|t ts']; [discriminate|]. cbn [rl_head_is].
  destruct (rg_is_optype t) eqn:E; [|discriminate]. intros _. unfold rg_is_optype, rg_is_in in E.
  apply andb_prop in E as [E _]. exact E.
Qed.

Definition g_rootop_loop (f : nat) (acc : bool) : PM bool :=
  p_peek_while_kind_acc f TkName (fun _ => g_root_operation_type_definition ;; p_ret true) acc.

Lemma rl_rootop_loop_true : forall f s a s', g_rootop_loop f true s = POk (a, s') -> a = true.
Proof.
  unfold g_rootop_loop. induction f as [|f IH]; intros s a s' E; [discriminate|]. cbn [p_peek_while_kind_acc] in E.
  apply bind_ok in E as (o & s1 & _ & E). destruct o as [kind|]; [|unfold p_ret in E; injection E as <- _; reflexivity].
  destruct (negb (tkind_eqb kind TkName)); [unfold p_ret in E; injection E as <- _; reflexivity|].
  unfold p_bind at 1 in E. unfold p_get at 1 in E. cbv beta iota in E.
  apply bind_ok in E as (acc1 & s2 & E2 & E). apply bind_ok in E2 as (? & s3 & _ & E3). unfold p_ret in E3.
  injection E3 as <- _. apply bind_ok in E as (? & s4 & _ & E). exact (IH _ _ _ E).
Qed.
Lemma rl_rootop_loop_flag f acc s a s' : rl_inv s ->
  g_rootop_loop f acc s = POk (a, s') -> a = acc || rl_head_is (rg_is TkName) (rl_sigs s).
Proof.
  intros Hinv E. destruct (rl_inv_cur _ Hinv) as (t & Hc & _). unfold g_rootop_loop in E.
  destruct f as [|f]; [discriminate|]. cbn [p_peek_while_kind_acc] in E. unfold p_bind at 1 in E.
  rewrite (peek_some t s Hc) in E. rewrite <- (rl_peek_is_view _ _ TkName Hinv Hc) by discriminate.
  destruct (tkind_eqb (tok_kind t) TkName); cbn [negb] in E.
  - unfold p_bind at 1 in E. unfold p_get at 1 in E. cbv beta iota in E.
    apply bind_ok in E as (acc1 & s2 & E2 & E). apply bind_ok in E2 as (? & s3 & _ & E3). unfold p_ret in E3.
    injection E3 as <- _. apply bind_ok in E as (? & s4 & _ & E). rewrite (rl_rootop_loop_true _ _ _ _ E).
    rewrite orb_true_r. reflexivity.
  - unfold p_ret in E. injection E as <- _. rewrite orb_false_r. reflexivity.
Qed.

Lemma rl_sim_rootop_loop f acc :
  rl_sim rl_any (g_rootop_loop f acc) (rg_many (rg_is TkName) (rgl_rootop LP)).
Proof.
  assert (Hitem : forall a : bool, rl_sim (fun ts => rl_any ts /\ rg_starts (rg_is TkName) ts)
            (g_root_operation_type_definition ;; p_ret true) (rgl_rootop LP)).
  { intros _. apply rl_sim_any. apply rl_sim_silent_r; [apply rl_sim_root_operation|intros _; apply rl_silent_ret]. }
  split.
  - unfold g_rootop_loop. apply rl_gen_peek_while_kind_acc. intros a. apply (Hitem a).
  - intros s a s' E Hok Ht _. unfold g_rootop_loop in E. unfold rg_many.
    eapply (rl_loop_kind_acc rl_any TkName _ (rgl_rootop LP) rl_suffix_closed_any ltac:(discriminate) Hitem rgl_rootop_progress);
      eauto. exact I.
Qed.

(* `{ RootOperationTypeDefinition+ }` as schema_definition writes it *)
Lemma rl_sim_rootops_block f :
  rl_sim (rg_starts (rg_is TkLCurly))
    (p_bump SK_L_CURLY ;;
     has <- p_peek_while_kind_acc f TkName (fun _ => g_root_operation_type_definition ;; p_ret true) false ;;
     p_when (negb has) p_err ;; p_expect TkRCurly SK_R_CURLY)
    (rgl_rootops LP).
Proof.
  unfold rgl_rootops. apply rl_sim_bind; [apply rl_sim_bump|intros _].
  assert (Hloop := rl_sim_rootop_loop f false).
  assert (Hexp : rl_sim rl_any (p_expect TkRCurly SK_R_CURLY) (rg_sat (rg_is TkRCurly))) by (apply rl_sim_expect; discriminate).
  split.
  { apply rl_gen_bind; [apply Hloop|intros has]. apply rl_gen_bind; [|intros; apply Hexp].
    destruct (negb has); cbn [p_when]; [apply rl_gen_err|apply rl_gen_ret]. }
  intros s u s' E Hok Ht _. pose proof Hok as [Hinv Ha]. apply bind_ok in E as (has & s1 & E1 & E).
  pose proof (rl_rootop_loop_flag _ _ _ _ _ Hinv E1) as Hhas. cbn [orb] in Hhas.
  destruct (rl_head_is (rg_is TkName) (rl_sigs s)) eqn:Hh; subst has; cbn [negb p_when] in E.
  - (* at least one: X+ = X* here *)
    apply (rl_post_ext (rg_seq (rg_many (rg_is TkName) (rgl_rootop LP)) (rg_sat (rg_is TkRCurly)))).
    { unfold rg_seq. rewrite (rg_plus_many _ _ _ rgl_rootop_progress Hh). reflexivity. }
    assert (Hsim : rl_sim rl_any (g_rootop_loop f false ;; p_ret tt ;; p_expect TkRCurly SK_R_CURLY)
                     (rg_seq (rg_many (rg_is TkName) (rgl_rootop LP)) (rg_sat (rg_is TkRCurly)))).
    { apply rl_sim_bind; [exact Hloop|intros _]. apply rl_sim_silent_l; [apply rl_silent_ret|intros _; exact Hexp]. }
    apply (proj2 Hsim s u s'); [|exact Hok|exact Ht|exact I].
    unfold p_bind at 1. unfold g_rootop_loop. rewrite E1. exact E.
  - (* none: reported *)
    apply bind_ok in E as (? & s2 & E2 & E3).
    destruct (proj2 Hloop s _ s1 E1 Hok Ht I) as [Hs1 _].
    destruct (rl_gen_run _ _ _ _ (proj1 Hloop) E1 Ht) as (Ht1 & _ & _ & Hx1).
    apply rl_post_dirty.
    + intros He.
      assert (Hx2 : rl_ext s1 s2) by exact (proj2 (post_returns _ _ _ _ (proj2 rl_gen_err) s1 I _ _ E2)).
      assert (Hx3 : rl_ext s2 s') by exact (proj2 (post_returns _ _ _ _ (proj2 (proj1 Hexp)) s2 I _ _ E3)).
      destruct (rl_ext_split _ _ _ Hx1 (rl_ext_trans _ _ _ Hx2 Hx3) He) as [He1 He23].
      destruct (rl_ext_split _ _ _ Hx2 Hx3 He23) as [He2 _].
      destruct (Hs1 He1) as (Hok1 & _ & _). exact (rl_err_run _ _ _ Hok1 E2 He2).
    + unfold rg_seq, rg_plus, rg_seq. destruct (rgl_rootop LP (rl_sigs s)) as [r1| |] eqn:Eq; try reflexivity.
      * rewrite (rgl_rootop_head _ _ Eq) in Hh. discriminate.
      * exfalso. unfold rgl_rootop, rg_seq, rg_bind, rg_sat in Eq. destruct (rl_sigs s) as [|t0 ts]; [discriminate|].
        destruct (rg_is_optype t0); [|discriminate]. destruct ts as [|t1 ts1]; [discriminate|].
        destruct (rg_is TkColon t1); [|discriminate]. cbn [rgl_rootop_notype rgl_parser] in Eq. unfold rg_opt, rg_name, rg_sat in Eq.
        destruct ts1 as [|t2 ts2]; [discriminate|]. destruct (rg_is TkName t2); discriminate.
Qed.

(* ------------------------------------------------------------------ the `implements` part *)
(* object_type_definition tests the token (kind and data) ... *)
Lemma rl_sim_impl_opt_tok f :
  rl_sim rl_any
    (o <- p_peek_token ;;
     match o with
     | Some token => p_when (tkind_eqb (tok_kind token) TkName && p_str_eqb (tok_data token) pkw_implements)
                       (g_implements_interfaces f)
     | None => p_ret tt
     end)
    (rg_opt (rg_is_kw rg_s_implements) rg_implements).
Proof.
  pose proof (rl_sim_implements_interfaces f) as [Hg Hm]. split.
  { apply rl_gen_bind; [split; [apply (a_peek_token _ CT_atoms)|apply (a_peek_token _ CX_atoms)]|].
    intros [token|]; [|apply rl_gen_ret]. destruct (_ && _); cbn [p_when]; [exact Hg|apply rl_gen_ret]. }
  intros s u s' E [Hinv Ha] Ht _. destruct (rl_inv_cur _ Hinv) as (t & Hc & Hi & _).
  unfold p_bind in E. rewrite (peek_token_some t s Hc) in E.
  pose proof (rl_peek_data_view _ _ pkw_implements Hinv Hc eq_refl) as Hv.
  change (rg_is_kw pkw_implements) with (rg_is_kw rg_s_implements) in Hv.
  assert (Hb : tkind_eqb (tok_kind t) TkName && p_str_eqb (tok_data t) pkw_implements
               = rl_head_is (rg_is_kw rg_s_implements) (rl_sigs s)).
  { rewrite Hv. destruct (rl_head_is (rg_is_kw rg_s_implements) (rl_sigs s)) eqn:Hh; [|apply andb_false_r].
    rewrite andb_true_r. rewrite (rl_sigs_head _ _ Hinv Hc) in Hh. destruct (tkind_eqb (tok_kind t) TkEof); [discriminate|].
    cbn [rl_head_is] in Hh. unfold rg_is_kw in Hh. cbn [fst] in Hh. apply andb_prop in Hh as [Hh _].
    destruct (tok_kind t); try discriminate Hh; reflexivity. }
  rewrite Hb in E. unfold rl_sound, rl_complete, rg_opt.
  destruct (rl_sigs s) as [|t0 ts] eqn:Es; cbn [rl_head_is] in E.
  - cbn [p_when] in E. injection E as _ <-. rewrite Es. split.
    + intros _. split; [split; assumption|]. split; [exists []; reflexivity|reflexivity].
    + intros _ r [= <-]. auto.
  - destruct (rg_is_kw rg_s_implements t0) eqn:Hk; cbn [p_when] in E.
    + assert (Hp : rg_starts (rg_is_kw rg_s_implements) (rl_sigs s)) by (rewrite Es; exact Hk).
      destruct (Hm s u s' E (conj Hinv Ha) Ht Hp) as [Hs Hcm]. unfold rl_sound, rl_complete in *.
      rewrite Es in Hs, Hcm. split; assumption.
    + injection E as _ <-. rewrite Es. split.
      * intros _. split; [split; assumption|]. split; [exists []; reflexivity|reflexivity].
      * intros _ r [= <-]. auto.
Qed.
(* ... interface_type_definition and the extensions only its data *)
Lemma rl_sim_impl_opt_data f :
  rl_sim rl_any (i <- g_peek_data_is pkw_implements ;; p_when i (g_implements_interfaces f))
    (rg_opt (rg_is_kw rg_s_implements) rg_implements).
Proof.
  apply (rl_sim_if_kw rl_any pkw_implements); [reflexivity|].
  eapply rl_sim_weaken; [|apply rl_sim_implements_interfaces]. intros ts [_ H]. exact H.
Qed.

(* ------------------------------------------------------------------ definitions: the part after the keyword *)
Lemma rl_sim_object_rest f :
  rl_sim rl_any
    (g_name_or_err ;;
     o <- p_peek_token ;;
     match o with
     | Some token => p_when (tkind_eqb (tok_kind token) TkName && p_str_eqb (tok_data token) pkw_implements)
                       (g_implements_interfaces f)
     | None => p_ret tt
     end ;;
     g_if_peek TkAt (g_directives f GConst) ;; g_if_peek TkLCurly (g_fields_definition f))
    (rg_seq rg_name (rgl_object_tail LP)).
Proof.
  unfold rgl_object_tail. apply rl_sim_bind; [apply rl_sim_name_or_err|intros _].
  apply (rl_sim_fext rl_any
    ((o <- p_peek_token ;;
      match o with
      | Some token => p_when (tkind_eqb (tok_kind token) TkName && p_str_eqb (tok_data token) pkw_implements)
                        (g_implements_interfaces f)
      | None => p_ret tt
      end) ;;
     g_if_peek TkAt (g_directives f GConst) ;; g_if_peek TkLCurly (g_fields_definition f))).
  { intros s. apply p_bind_assoc. }
  apply rl_sim_bind; [apply rl_sim_impl_opt_tok|intros _].
  apply rl_sim_bind; [apply (rl_sim_directives_opt f GConst)|intros _].
  apply rl_sim_if_peek; [discriminate|apply rl_sim_fields_definition].
Qed.

Lemma rl_sim_interface_rest f :
  rl_sim rl_any
    (g_name_or_err ;; i <- g_peek_data_is pkw_implements ;; p_when i (g_implements_interfaces f) ;;
     g_if_peek TkAt (g_directives f GConst) ;; g_if_peek TkLCurly (g_fields_definition f))
    (rg_seq rg_name (rgl_object_tail LP)).
Proof.
  unfold rgl_object_tail. apply rl_sim_bind; [apply rl_sim_name_or_err|intros _].
  apply (rl_sim_fext rl_any ((i <- g_peek_data_is pkw_implements ;; p_when i (g_implements_interfaces f)) ;;
           g_if_peek TkAt (g_directives f GConst) ;; g_if_peek TkLCurly (g_fields_definition f))).
  { intros s. apply p_bind_assoc. }
  apply rl_sim_bind; [apply rl_sim_impl_opt_data|intros _].
  apply rl_sim_bind; [apply (rl_sim_directives_opt f GConst)|intros _].
  apply rl_sim_if_peek; [discriminate|apply rl_sim_fields_definition].
Qed.

Lemma rl_sim_scalar_rest f :
  rl_sim rl_any (g_name_or_err ;; g_if_peek TkAt (g_directives f GConst)) (rg_seq rg_name (rgl_scalar_tail LP)).
Proof. apply rl_sim_bind; [apply rl_sim_name_or_err|intros _; apply (rl_sim_directives_opt f GConst)]. Qed.

Lemma rl_sim_union_rest f :
  rl_sim rl_any
    (g_name_or_err ;; g_if_peek TkAt (g_directives f GConst) ;; g_if_peek TkEq (g_union_member_types f))
    (rg_seq rg_name (rgl_union_tail LP)).
Proof.
  unfold rgl_union_tail. apply rl_sim_bind; [apply rl_sim_name_or_err|intros _].
  apply rl_sim_bind; [apply (rl_sim_directives_opt f GConst)|intros _].
  apply rl_sim_if_peek; [discriminate|apply rl_sim_union_member_types].
Qed.
Lemma rl_sim_enum_rest f :
  rl_sim rl_any
    (g_name_or_err ;; g_if_peek TkAt (g_directives f GConst) ;; g_if_peek TkLCurly (g_enum_values_definition f))
    (rg_seq rg_name (rgl_enum_tail LP)).
Proof.
  unfold rgl_enum_tail. apply rl_sim_bind; [apply rl_sim_name_or_err|intros _].
  apply rl_sim_bind; [apply (rl_sim_directives_opt f GConst)|intros _].
  apply rl_sim_if_peek; [discriminate|apply rl_sim_enum_values_definition].
Qed.
Lemma rl_sim_input_rest f :
  rl_sim rl_any
    (g_name_or_err ;; g_if_peek TkAt (g_directives f GConst) ;; g_if_peek TkLCurly (g_input_fields_definition f))
    (rg_seq rg_name (rgl_input_tail LP)).
Proof.
  unfold rgl_input_tail. apply rl_sim_bind; [apply rl_sim_name_or_err|intros _].
  apply rl_sim_bind; [apply (rl_sim_directives_opt f GConst)|intros _].
  apply rl_sim_if_peek; [discriminate|apply rl_sim_input_fields_definition].
Qed.

(* Description? <keyword> Name ... : the six named definitions *)
Definition rgl_named_def (kw : str) (tail : rg_p) : rg_p :=
  rg_seq rg_desc_opt (rg_seq (rg_sat (rg_is_kw kw)) (rg_seq rg_name tail)).

Lemma rl_sim_object_type_definition f :
  rl_sim (rl_desc_kw pkw_type) (g_object_type_definition f) (rgl_named_def pkw_type (rgl_object_tail LP)).
Proof.
  unfold g_object_type_definition, rgl_named_def. apply rl_sim_node.
  apply rl_sim_desc_kw_rest; [reflexivity|apply rl_sim_object_rest].
Qed.
Lemma rl_sim_interface_type_definition f :
  rl_sim (rl_desc_kw pkw_interface) (g_interface_type_definition f) (rgl_named_def pkw_interface (rgl_object_tail LP)).
Proof.
  unfold g_interface_type_definition, rgl_named_def. apply rl_sim_node.
  apply rl_sim_desc_kw_rest; [reflexivity|apply rl_sim_interface_rest].
Qed.
Lemma rl_sim_scalar_type_definition f :
  rl_sim (rl_desc_kw pkw_scalar) (g_scalar_type_definition f) (rgl_named_def pkw_scalar (rgl_scalar_tail LP)).
Proof.
  unfold g_scalar_type_definition, rgl_named_def. apply rl_sim_node.
  apply rl_sim_desc_kw_rest; [reflexivity|apply rl_sim_scalar_rest].
Qed.
Lemma rl_sim_union_type_definition f :
  rl_sim (rl_desc_kw pkw_union) (g_union_type_definition f) (rgl_named_def pkw_union (rgl_union_tail LP)).
Proof.
  unfold g_union_type_definition, rgl_named_def. apply rl_sim_node.
  apply rl_sim_desc_kw_rest; [reflexivity|apply rl_sim_union_rest].
Qed.
Lemma rl_sim_enum_type_definition f :
  rl_sim (rl_desc_kw pkw_enum) (g_enum_type_definition f) (rgl_named_def pkw_enum (rgl_enum_tail LP)).
Proof.
  unfold g_enum_type_definition, rgl_named_def. apply rl_sim_node.
  apply rl_sim_desc_kw_rest; [reflexivity|apply rl_sim_enum_rest].
Qed.
Lemma rl_sim_input_object_type_definition f :
  rl_sim (rl_desc_kw pkw_input) (g_input_object_type_definition f) (rgl_named_def pkw_input (rgl_input_tail LP)).
Proof.
  unfold g_input_object_type_definition, rgl_named_def. apply rl_sim_node.
  apply rl_sim_desc_kw_rest; [reflexivity|apply rl_sim_input_rest].
Qed.

(* schema: Description? schema Directives? { RootOperationTypeDefinition+ } *)
Lemma rl_sim_schema_definition f :
  rl_sim (rl_desc_kw pkw_schema) (g_schema_definition f)
    (rg_seq rg_desc_opt (rg_seq (rg_sat (rg_is_kw pkw_schema)) (rgl_schema_tail LP))).
Proof.
  unfold g_schema_definition, rgl_schema_tail. apply rl_sim_node.
  apply rl_sim_desc_kw_rest; [reflexivity|].
  apply rl_sim_bind; [apply (rl_sim_directives_opt f GConst)|intros _].
  apply rl_sim_peek_else_err; [discriminate|apply rl_sim_rootops_block|].
  unfold rgl_rootops. apply rl_requires_seq_sat.
Qed.

(* ------------------------------------------------------------------ directive definition *)
Lemma rl_location_view d : g_directive_location_kw d = None <-> rg_is_location (TkName, d) = false.
Proof.
  unfold g_directive_location_kw, rg_is_location, rg_is_in, rg_exec_locations, rg_ts_locations.
  cbn [fst snd tkind_eqb andb app existsb].
  change (p_str_eqb d pkw_QUERY) with (rg_streq d rg_s_QUERY).
  change (p_str_eqb d pkw_MUTATION) with (rg_streq d rg_s_MUTATION).
  change (p_str_eqb d pkw_SUBSCRIPTION) with (rg_streq d rg_s_SUBSCRIPTION).
  change (p_str_eqb d pkw_FIELD) with (rg_streq d rg_s_FIELD).
  change (p_str_eqb d pkw_FRAGMENT_DEFINITION) with (rg_streq d rg_s_FRAGMENT_DEFINITION).
  change (p_str_eqb d pkw_FRAGMENT_SPREAD) with (rg_streq d rg_s_FRAGMENT_SPREAD).
  change (p_str_eqb d pkw_INLINE_FRAGMENT) with (rg_streq d rg_s_INLINE_FRAGMENT).
  change (p_str_eqb d pkw_VARIABLE_DEFINITION) with (rg_streq d rg_s_VARIABLE_DEFINITION).
  change (p_str_eqb d pkw_SCHEMA) with (rg_streq d rg_s_SCHEMA).
  change (p_str_eqb d pkw_SCALAR) with (rg_streq d rg_s_SCALAR).
  change (p_str_eqb d pkw_OBJECT) with (rg_streq d rg_s_OBJECT).
  change (p_str_eqb d pkw_FIELD_DEFINITION) with (rg_streq d rg_s_FIELD_DEFINITION).
  change (p_str_eqb d pkw_ARGUMENT_DEFINITION) with (rg_streq d rg_s_ARGUMENT_DEFINITION).
  change (p_str_eqb d pkw_INTERFACE) with (rg_streq d rg_s_INTERFACE).
  change (p_str_eqb d pkw_UNION) with (rg_streq d rg_s_UNION).
  change (p_str_eqb d pkw_ENUM) with (rg_streq d rg_s_ENUM).
  change (p_str_eqb d pkw_ENUM_VALUE) with (rg_streq d rg_s_ENUM_VALUE).
  change (p_str_eqb d pkw_INPUT_OBJECT) with (rg_streq d rg_s_INPUT_OBJECT).
  change (p_str_eqb d pkw_INPUT_FIELD_DEFINITION) with (rg_streq d rg_s_INPUT_FIELD_DEFINITION).
  rewrite !(rg_streq_sym _ d).
  (* one comparison at a time: as soon as one holds both sides are decided (linear, not 2^19 cases) *)
  repeat match goal with
         | |- context [rg_streq d ?w] =>
             destruct (rg_streq d w); [cbn; split; intros H; discriminate H|cbn [orb]]
         end.
  cbn. split; intros H; reflexivity.
Qed.

Lemma rl_gen_directive_location : rl_gen g_directive_location.
Proof. split; [apply (gg_directive_location CT CT_ok)|apply (gg_directive_location CX CX_ok)]. Qed.

Lemma rl_sim_directive_location : rl_sim rl_any g_directive_location (rg_sat rg_is_location).
Proof.
  split; [apply rl_gen_directive_location|]. intros s u s' E Hok Ht _. pose proof Hok as [Hinv Ha].
  destruct (rl_inv_cur _ Hinv) as (t & Hc & Hi & _).
  unfold g_directive_location in E. unfold p_bind at 1 in E. rewrite (peek_token_some t s Hc) in E.
  pose proof (rl_sigs_head _ _ Hinv Hc) as Hhead.
  destruct (tkind_eqb (tok_kind t) TkName) eqn:Hk.
  - apply tkind_eqb_eq in Hk. rewrite Hk in Hhead. cbn [tkind_eqb] in Hhead.
    destruct (g_directive_location_kw (tok_data t)) as [kw|] eqn:Ekw.
    + assert (Hloc : rg_is_location (TkName, tok_data t) = true).
      { destruct (rg_is_location (TkName, tok_data t)) eqn:El; [reflexivity|]. apply rl_location_view in El. congruence. }
      apply (proj2 (rl_sim_node_bump SK_DIRECTIVE_LOCATION kw rg_is_location) s u s' E Hok Ht).
      rewrite Hhead. exact Hloc.
    + apply rl_post_dirty; [eapply rl_err_run; eauto|]. rewrite Hhead. cbn [rg_sat].
      rewrite (proj1 (rl_location_view _) Ekw). reflexivity.
  - apply rl_post_dirty; [eapply rl_err_run; eauto|]. rewrite Hhead.
    destruct (tkind_eqb (tok_kind t) TkEof); [reflexivity|]. cbn [rg_sat]. unfold rg_is_location, rg_is_in. cbn [fst].
    destruct (tok_kind t); try reflexivity. discriminate Hk.
Qed.

Lemma rl_sim_directive_locations f : rl_sim rl_any (g_directive_locations f) rg_dirlocs.
Proof.
  unfold g_directive_locations, rg_dirlocs.
  apply rl_sim_separated; [discriminate|apply rl_sim_directive_location|apply rg_progress_nolonger, rg_progress_sat].
Qed.

(* `on`, compared by its data only *)
Lemma rl_sim_on_kw :
  rl_sim rl_any
    (d <- p_peek_data ;;
     match d with Some node_ => if p_str_eqb node_ pkw_on then p_bump SK_on_KW else p_err | None => p_ret tt end)
    (rg_sat (rg_is_kw rg_s_on)).
Proof.
  split.
  { apply rl_gen_bind; [split; [apply (g_peek_data CT CT_ok)|apply (g_peek_data CX CX_ok)]|].
    intros [d|]; [|apply rl_gen_ret]. destruct (p_str_eqb d pkw_on); [apply rl_gen_bump|apply rl_gen_err]. }
  intros s u s' E Hok Ht _. pose proof Hok as [Hinv Ha]. destruct (rl_inv_cur _ Hinv) as (t & Hc & Hi & _).
  unfold p_bind in E. rewrite (peek_data_some t s Hc) in E.
  pose proof (rl_peek_data_view _ _ pkw_on Hinv Hc eq_refl) as Hv.
  change (rg_is_kw pkw_on) with (rg_is_kw rg_s_on) in Hv. rewrite Hv in E.
  destruct (rl_head_is (rg_is_kw rg_s_on) (rl_sigs s)) eqn:Hh.
  - apply (proj2 (rl_sim_bump SK_on_KW (rg_is_kw rg_s_on)) s u s' E Hok Ht). apply rl_starts_head. exact Hh.
  - apply rl_post_dirty; [eapply rl_err_run; eauto|]. destruct (rl_sigs s) as [|t0 ts]; [reflexivity|].
    cbn [rl_head_is] in Hh. cbn [rg_sat]. rewrite Hh. reflexivity.
Qed.

Definition rg_is_loc_start (t : rg_token) : bool := rg_is TkName t || rg_is TkPipe t.
Lemma rg_is_loc_start_in t : rg_is_loc_start t = rl_kind_in [TkName; TkPipe] t.
Proof. destruct t as [[] d]; reflexivity. Qed.
Lemma rl_requires_dirlocs : rl_requires rg_is_loc_start rg_dirlocs.
Proof.
  intros ts H. unfold rg_dirlocs, rg_seq, rg_opt, rg_bind. destruct ts as [|[k d] r]; [reflexivity|].
  cbn [rl_head_is] in H. unfold rg_is_loc_start, rg_is in H. cbn [fst] in H.
  destruct k; try discriminate H; reflexivity.
Qed.

(* the tail of directive_definition, bottom up *)
Definition g_dirdef_locs (f : nat) : PM unit :=
  l <- g_peek_in [TkName; TkPipe] ;;
  if l then p_node SK_DIRECTIVE_LOCATIONS (g_directive_locations f) else p_err.
Definition g_dirdef_on (f : nat) : PM unit :=
  d <- p_peek_data ;;
  match d with Some node_ => if p_str_eqb node_ pkw_on then p_bump SK_on_KW else p_err | None => p_ret tt end ;;
  g_dirdef_locs f.
Definition g_dirdef_repeatable (f : nat) : PM unit :=
  r <- g_peek_data_is pkw_repeatable ;; p_when r (p_bump SK_repeatable_KW) ;; g_dirdef_on f.
Definition g_dirdef_named (f : nat) : PM unit :=
  g_name ;; g_if_peek TkLParen (p_node SK_ARGUMENTS_DEFINITION (g_arguments_definition_body f)) ;; g_dirdef_repeatable f.

Lemma rl_sim_dirdef_locs f : rl_sim rl_any (g_dirdef_locs f) rg_dirlocs.
Proof.
  unfold g_dirdef_locs.
  eapply rl_sim_peek_in_else_err with (f := rg_is_loc_start);
    [cbn; intuition discriminate|apply rg_is_loc_start_in| |apply rl_requires_dirlocs].
  apply rl_sim_any. apply rl_sim_node. apply rl_sim_directive_locations.
Qed.
Lemma rl_sim_dirdef_on f : rl_sim rl_any (g_dirdef_on f) (rg_seq (rg_sat (rg_is_kw rg_s_on)) rg_dirlocs).
Proof.
  unfold g_dirdef_on.
  apply (rl_sim_fext rl_any
    ((d <- p_peek_data ;;
      match d with Some node_ => if p_str_eqb node_ pkw_on then p_bump SK_on_KW else p_err | None => p_ret tt end) ;;
     g_dirdef_locs f)).
  { intros s. apply p_bind_assoc. }
  apply rl_sim_bind; [apply rl_sim_on_kw|intros _; apply rl_sim_dirdef_locs].
Qed.
Lemma rl_sim_dirdef_repeatable f :
  rl_sim rl_any (g_dirdef_repeatable f)
    (rg_seq (rg_opt (rg_is_kw rg_s_repeatable) (rg_sat (rg_is_kw rg_s_repeatable)))
       (rg_seq (rg_sat (rg_is_kw rg_s_on)) rg_dirlocs)).
Proof.
  unfold g_dirdef_repeatable.
  apply (rl_sim_fext rl_any ((r <- g_peek_data_is pkw_repeatable ;; p_when r (p_bump SK_repeatable_KW)) ;; g_dirdef_on f)).
  { intros s. apply p_bind_assoc. }
  apply rl_sim_bind; [|intros _; apply rl_sim_dirdef_on].
  apply (rl_sim_if_kw rl_any pkw_repeatable); [reflexivity|].
  eapply rl_sim_weaken; [|apply rl_sim_bump]. intros ts [_ H]. exact H.
Qed.
Lemma rl_sim_dirdef_named f : rl_sim rl_any (g_dirdef_named f) (rg_seq rg_name (rgl_dirdef_tail LP)).
Proof.
  unfold g_dirdef_named, rgl_dirdef_tail. apply rl_sim_bind; [apply rl_sim_name|intros _].
  apply rl_sim_bind; [|intros _; apply rl_sim_dirdef_repeatable].
  apply rl_sim_if_peek; [discriminate|]. apply rl_sim_node. apply rl_sim_arguments_definition_body.
Qed.

Lemma rl_sim_directive_definition f :
  rl_sim (rl_desc_kw pkw_directive) (g_directive_definition f)
    (rg_seq rg_desc_opt (rg_seq (rg_sat (rg_is_kw pkw_directive))
       (rg_seq (rg_sat (rg_is TkAt)) (rg_seq rg_name (rgl_dirdef_tail LP))))).
Proof.
  unfold g_directive_definition. apply rl_sim_node.
  apply rl_sim_desc_kw_rest; [reflexivity|].
  apply (rl_sim_fext rl_any ((a <- g_peek_is TkAt ;; if a then p_bump SK_AT else p_err) ;; g_dirdef_named f)).
  { intros s. apply p_bind_assoc. }
  apply rl_sim_bind; [|intros _; apply rl_sim_dirdef_named].
  apply rl_sim_peek_else_err; [discriminate|apply rl_sim_bump|].
  intros [|t ts] H; cbn [rl_head_is] in H; [reflexivity|]. cbn [rg_sat]. rewrite H. reflexivity.
Qed.

(* ------------------------------------------------------------------ extensions *)
(* Directives? X? with "at least one of them" checked at the end; i0 = something was already added before *)
Definition rgl_ext2 (i0 : bool) (k : tkind) (qx : rg_p) : rg_p :=
  if i0 then rg_seq (rgl_directives LP true) (rg_opt (rg_is k) qx)
  else rg_seq (rg_peek (rg_is_at_or k)) (rg_seq (rgl_directives LP true) (rg_opt (rg_is k) qx)).

Lemma rgl_directives_no_at ts : rl_head_is (rg_is TkAt) ts = false -> rgl_directives LP true ts = RgOk ts.
Proof. intros H. unfold rgl_directives, rg_many. apply rg_many_f_stop. apply rl_head_nh. exact H. Qed.

Lemma rl_sim_ext2 i0 k (X : PM unit) qx f (chk : bool -> bool -> bool) :
  k <> TkAt -> k <> TkEof -> rl_sim (rg_starts (rg_is k)) X qx -> (forall d x, chk d x = i0 || d || x) ->
  rl_sim rl_any
    (d <- g_peek_is TkAt ;; p_when d (g_directives f GConst) ;;
     x <- g_peek_is k ;; p_when x X ;; p_when (negb (chk d x)) p_err)
    (rgl_ext2 i0 k qx).
Proof.
  intros Hka Hke HX Hchk.
  pose proof (rl_sim_directives_opt f GConst) as HA. cbn [rl_cflag] in HA.
  pose proof (rl_sim_if_peek k X qx Hke HX) as HB.
  split.
  { apply rl_gen_bind; [apply rl_gen_peek_is|intros d]. apply rl_gen_bind.
    - destruct d; cbn [p_when]; [apply (rl_sim_directives f GConst)|apply rl_gen_ret].
    - intros _. apply rl_gen_bind; [apply rl_gen_peek_is|intros x]. apply rl_gen_bind.
      + destruct x; cbn [p_when]; [apply HX|apply rl_gen_ret].
      + intros _. destruct (negb (chk d x)); cbn [p_when]; [apply rl_gen_err|apply rl_gen_ret]. }
  intros s u s' E Hok Ht _. pose proof Hok as [Hinv Ha]. destruct (rl_inv_cur _ Hinv) as (t & Hc & Hi & _).
  (* split the run into A = `@`-part, B = k-part, and the final check *)
  unfold p_bind at 1 in E. rewrite (peek_is_some TkAt t s Hc) in E.
  rewrite (rl_peek_is_view _ _ _ Hinv Hc) in E by discriminate.
  set (d := rl_head_is (rg_is TkAt) (rl_sigs s)) in *.
  apply bind_ok in E as (? & s1 & EA & E).
  assert (EA' : g_if_peek TkAt (g_directives f GConst) s = POk (tt, s1)).
  { unfold g_if_peek, p_bind. rewrite (peek_is_some TkAt t s Hc). rewrite (rl_peek_is_view _ _ _ Hinv Hc) by discriminate.
    fold d. destruct x; exact EA. }
  destruct (proj2 HA s tt s1 EA' Hok Ht I) as [HsA HcA].
  destruct (rl_gen_run _ _ _ _ (proj1 HA) EA' Ht) as (Ht1 & Hcur1 & Hlim1 & Hx1).
  apply bind_ok in E as (x' & s1' & Ep & E).
  (* everything after A, as one computation from s1 *)
  set (after := fun s0 => (x0 <- g_peek_is k ;; p_when x0 X ;; p_when (negb (chk d x0)) p_err) s0).
  assert (Hgafter : rl_gen (x0 <- g_peek_is k ;; p_when x0 X ;; p_when (negb (chk d x0)) p_err)).
  { apply rl_gen_bind; [apply rl_gen_peek_is|intros x0]. apply rl_gen_bind.
    - destruct x0; cbn [p_when]; [apply HX|apply rl_gen_ret].
    - intros _. destruct (negb (chk d x0)); cbn [p_when]; [apply rl_gen_err|apply rl_gen_ret]. }
  assert (Eafter : (x0 <- g_peek_is k ;; p_when x0 X ;; p_when (negb (chk d x0)) p_err) s1 = POk (u, s')).
  { unfold p_bind at 1. rewrite Ep. exact E. }
  destruct (rl_gen_run _ _ _ _ Hgafter Eafter Ht1) as (_ & _ & _ & Hx2).
  (* what B and the check do from a clean s1 *)
  assert (HB1 : rl_ok s1 ->
            exists s2, g_if_peek k X s1 = POk (tt, s2) /\ x' = rl_head_is (rg_is k) (rl_sigs s1) /\
                       p_when (negb (chk d x')) p_err s2 = POk (u, s')).
  { intros [Hinv1 _]. destruct (rl_inv_cur _ Hinv1) as (t1 & Hc1 & _).
    rewrite (peek_is_some k t1 s1 Hc1) in Ep. injection Ep as <- <-.
    apply bind_ok in E as (? & s2 & EB & E). exists s2. split; [|split; [|exact E]].
    - unfold g_if_peek, p_bind. rewrite (peek_is_some k t1 s1 Hc1). destruct x0; exact EB.
    - apply rl_peek_is_view; assumption. }
  unfold rl_sound, rl_complete, rgl_ext2. split.
  - intros He. destruct (rl_ext_split _ _ _ Hx1 Hx2 He) as [He1 He2].
    destruct (HsA He1) as (Hok1 & [preA HpreA] & HqA).
    destruct (HB1 Hok1) as (s2 & EB & Hx' & Echk).
    destruct (proj2 HB s1 tt s2 EB Hok1 Ht1 I) as [HsB _].
    destruct (rl_gen_run _ _ _ _ (proj1 HB) EB Ht1) as (Ht2 & _ & _ & HxB).
    assert (HxC : rl_ext s2 s').
    { destruct (negb (chk d x')); cbn [p_when] in Echk.
      - exact (proj2 (post_returns _ _ _ _ (proj2 rl_gen_err) s2 I _ _ Echk)).
      - unfold p_ret in Echk. injection Echk as _ <-. apply rl_ext_refl. }
    destruct (rl_ext_split _ _ _ HxB HxC He2) as [HeB HeC].
    destruct (HsB HeB) as (Hok2 & [preB HpreB] & HqB).
    (* the final check did not report: one of the parts was present *)
    assert (Hpresent : chk d x' = true).
    { destruct (chk d x') eqn:Ec; [reflexivity|]. cbn [negb p_when] in Echk. exfalso. exact (rl_err_run _ _ _ Hok2 Echk HeC). }
    rewrite Hpresent in Echk. cbn [negb p_when] in Echk. unfold p_ret in Echk. injection Echk as _ <-.
    split; [exact Hok2|]. split; [exists (preA ++ preB); rewrite HpreA, HpreB; apply app_assoc|].
    assert (Hseq : rg_seq (rgl_directives LP true) (rg_opt (rg_is k) qx) (rl_sigs s) = RgOk (rl_sigs s2)).
    { unfold rg_seq. rewrite HqA. exact HqB. }
    destruct i0; [exact Hseq|]. unfold rg_seq at 1. rewrite Hchk in Hpresent. cbn [orb] in Hpresent.
    assert (Hpk : rg_peek (rg_is_at_or k) (rl_sigs s) = RgOk (rl_sigs s)).
    { unfold rg_peek, rg_is_at_or. destruct (rl_sigs s) as [|t0 ts] eqn:Es.
      - (* nothing left: neither part can be present *)
        exfalso. unfold d in Hpresent. cbn [rl_head_is] in Hpresent. cbn [orb] in Hpresent.
        assert (rl_sigs s1 = []) by (destruct preA; [symmetry; exact HpreA|discriminate HpreA]).
        rewrite Hx', H in Hpresent. discriminate Hpresent.
      - unfold d in Hpresent. cbn [rl_head_is] in Hpresent. destruct (rg_is TkAt t0) eqn:Hat; [reflexivity|].
        cbn [orb] in Hpresent |- *.
        (* no `@`: the directives part consumed nothing *)
        assert (Hsame : rl_sigs s1 = t0 :: ts).
        { rewrite rgl_directives_no_at in HqA by (cbn; exact Hat). injection HqA as HqA. symmetry. exact HqA. }
        rewrite Hx', Hsame in Hpresent. cbn [rl_head_is] in Hpresent. rewrite Hpresent. reflexivity. }
    rewrite Hpk. cbn [rg_bind]. exact Hseq.
  - intros Hr r Hq.
    assert (Hq' : rg_seq (rgl_directives LP true) (rg_opt (rg_is k) qx) (rl_sigs s) = RgOk r /\
                  (i0 = false -> rl_head_is (rg_is_at_or k) (rl_sigs s) = true)).
    { destruct i0; [split; [exact Hq|discriminate]|]. unfold rg_seq at 1, rg_bind, rg_peek in Hq.
      destruct (rl_sigs s) as [|t0 ts]; [discriminate|]. destruct (rg_is_at_or k t0) eqn:Hao; [|discriminate].
      split; [exact Hq|intros _; exact Hao]. }
    destruct Hq' as [Hq' Hhead]. unfold rg_seq, rg_bind in Hq'.
    destruct (rgl_directives LP true (rl_sigs s)) as [r1| |] eqn:EqA; try discriminate.
    destruct (HcA Hr r1 EqA) as [He1 Hr1]. destruct (HsA He1) as (Hok1 & [preA HpreA] & HqA).
    destruct (HB1 Hok1) as (s2 & EB & Hx' & Echk).
    destruct (proj2 HB s1 tt s2 EB Hok1 Ht1 I) as [HsB HcB].
    assert (Hr1' : rl_roomy s1) by (eapply rl_roomy_step; eauto).
    rewrite <- Hr1 in Hq'. destruct (HcB Hr1' r Hq') as [HeB HrB]. destruct (HsB HeB) as (Hok2 & _ & _).
    assert (Hpresent : chk d x' = true).
    { rewrite Hchk. destruct i0; [reflexivity|]. cbn [orb]. specialize (Hhead eq_refl). unfold d.
      destruct (rl_sigs s) as [|t0 ts] eqn:Es; [discriminate|]. cbn [rl_head_is] in Hhead |- *. unfold rg_is_at_or in Hhead.
      destruct (rg_is TkAt t0) eqn:Hat; [reflexivity|]. cbn [orb] in Hhead |- *.
      assert (Hsame : rl_sigs s1 = t0 :: ts).
      { rewrite rgl_directives_no_at in EqA by (cbn; exact Hat). injection EqA as <-. exact Hr1. }
      rewrite Hx', Hsame. cbn [rl_head_is]. exact Hhead. }
    rewrite Hpresent in Echk. cbn [negb p_when] in Echk. unfold p_ret in Echk. injection Echk as _ <-.
    split; [congruence|exact HrB].
Qed.

(* `extend <kw>` : both keywords are bumped unconditionally; the dispatch has seen them *)
Definition rl_ext_kw (kw : str) (ts : list rg_token) : Prop :=
  match ts with t1 :: t2 :: _ => rg_is_kw rg_s_extend t1 = true /\ rg_is_kw kw t2 = true | _ => False end.

Lemma rl_sim_extend_kw {B} kw sk (rest : PM B) qrest :
  rl_sim rl_any rest qrest ->
  rl_sim (rl_ext_kw kw) (p_bump SK_extend_KW ;; p_bump sk ;; rest)
    (rg_seq (rg_sat (rg_is_kw rg_s_extend)) (rg_seq (rg_sat (rg_is_kw kw)) qrest)).
Proof.
  intros Hrest. eapply rl_sim_bind_pre with (Q := rg_starts (rg_is_kw kw)).
  - eapply rl_sim_weaken; [|apply rl_sim_bump]. intros [|t1 [|t2 ts]] H; try contradiction. exact (proj1 H).
  - intros _. apply rl_sim_bind; [apply rl_sim_bump|intros _; exact Hrest].
  - intros [|t1 [|t2 ts]] r Hp Hq; try contradiction. destruct Hp as [H1 H2]. cbn [rg_sat] in Hq. rewrite H1 in Hq.
    injection Hq as <-. exact H2.
Qed.

Definition rgl_ext_named (kw : str) (tail : rg_p) : rg_p :=
  rg_seq (rg_sat (rg_is_kw rg_s_extend)) (rg_seq (rg_sat (rg_is_kw kw)) (rg_seq rg_name tail)).

Lemma rl_sim_union_type_extension f :
  rl_sim (rl_ext_kw pkw_union) (g_union_type_extension f)
    (rgl_ext_named pkw_union (rgl_ext2 false TkEq rg_unionmembers)).
Proof.
  unfold g_union_type_extension, rgl_ext_named. apply rl_sim_node. apply rl_sim_extend_kw.
  apply rl_sim_bind; [apply rl_sim_name_or_err|intros _].
  apply (rl_sim_ext2 false TkEq (g_union_member_types f) rg_unionmembers f (fun d m => d || m));
    [discriminate|discriminate|apply rl_sim_union_member_types|reflexivity].
Qed.
Lemma rl_sim_enum_type_extension f :
  rl_sim (rl_ext_kw pkw_enum) (g_enum_type_extension f)
    (rgl_ext_named pkw_enum (rgl_ext2 false TkLCurly (rgl_enumvalsdef LP))).
Proof.
  unfold g_enum_type_extension, rgl_ext_named. apply rl_sim_node. apply rl_sim_extend_kw.
  apply rl_sim_bind; [apply rl_sim_name_or_err|intros _].
  apply (rl_sim_ext2 false TkLCurly (g_enum_values_definition f) (rgl_enumvalsdef LP) f (fun d v => d || v));
    [discriminate|discriminate|apply rl_sim_enum_values_definition|reflexivity].
Qed.
Lemma rl_sim_input_object_type_extension f :
  rl_sim (rl_ext_kw pkw_input) (g_input_object_type_extension f)
    (rgl_ext_named pkw_input (rgl_ext2 false TkLCurly (rgl_inputfieldsdef LP))).
Proof.
  unfold g_input_object_type_extension, rgl_ext_named. apply rl_sim_node. apply rl_sim_extend_kw.
  apply rl_sim_bind; [apply rl_sim_name_or_err|intros _].
  apply (rl_sim_ext2 false TkLCurly (g_input_fields_definition f) (rgl_inputfieldsdef LP) f (fun d x => d || x));
    [discriminate|discriminate|apply rl_sim_input_fields_definition|reflexivity].
Qed.

(* scalar: `extend scalar Name Directives` *)
Lemma rl_sim_scalar_type_extension f :
  rl_sim (rl_ext_kw pkw_scalar) (g_scalar_type_extension f)
    (rgl_ext_named pkw_scalar (rg_seq (rg_peek (rg_is TkAt)) (rgl_scalar_tail LP))).
Proof.
  unfold g_scalar_type_extension, rgl_ext_named. apply rl_sim_node. apply rl_sim_extend_kw.
  apply rl_sim_bind; [apply rl_sim_name_or_err|intros _].
  apply rl_sim_peek_else_err; [discriminate| |].
  - eapply rl_sim_ext; [|apply rl_sim_any, (rl_sim_directives f GConst)].
    intros [|t ts] H; cbn [rg_starts] in H; [contradiction|]. unfold rg_seq, rg_peek. rewrite H. reflexivity.
  - intros [|t ts] H; cbn [rl_head_is] in H; [reflexivity|]. unfold rg_seq, rg_peek. rewrite H. reflexivity.
Qed.

(* object / interface: implements?, then the two-part shape with the `implements` flag carried to the final check *)
Definition g_objext_rest (f : nat) (i : bool) : PM unit :=
  d <- g_peek_is TkAt ;; p_when d (g_directives f GConst) ;;
  x <- g_peek_is TkLCurly ;; p_when x (g_fields_definition f) ;;
  p_when (negb (i || d || x)) p_err.

Definition rgl_objext : rg_p :=
  fun ts => if rl_head_is (rg_is_kw rg_s_implements) ts
            then rg_seq rg_implements (rgl_ext2 true TkLCurly (rgl_fieldsdef LP)) ts
            else rgl_ext2 false TkLCurly (rgl_fieldsdef LP) ts.

Lemma rl_sim_objext_rest f i :
  rl_sim rl_any (g_objext_rest f i) (rgl_ext2 i TkLCurly (rgl_fieldsdef LP)).
Proof.
  unfold g_objext_rest.
  apply (rl_sim_ext2 i TkLCurly (g_fields_definition f) (rgl_fieldsdef LP) f (fun d x => i || d || x));
    [discriminate|discriminate|apply rl_sim_fields_definition|reflexivity].
Qed.

Lemma rl_sim_objext f :
  rl_sim rl_any (i <- g_peek_data_is pkw_implements ;; p_when i (g_implements_interfaces f) ;; g_objext_rest f i) rgl_objext.
Proof.
  split.
  { apply rl_gen_bind; [apply rl_gen_peek_data_is|intros i]. apply rl_gen_bind; [|intros _; apply rl_sim_objext_rest].
    destruct i; cbn [p_when]; [apply rl_sim_implements_interfaces|apply rl_gen_ret]. }
  intros s u s' E Hok Ht _. pose proof Hok as [Hinv Ha]. destruct (rl_inv_cur _ Hinv) as (t & Hc & Hi & _).
  unfold p_bind at 1 in E. rewrite (peek_data_is_some pkw_implements t s Hc) in E.
  rewrite (rl_peek_data_view _ _ pkw_implements Hinv Hc eq_refl) in E.
  change (rg_is_kw pkw_implements) with (rg_is_kw rg_s_implements) in E.
  unfold rl_sound, rl_complete, rgl_objext.
  destruct (rl_head_is (rg_is_kw rg_s_implements) (rl_sigs s)) eqn:Hh; cbn [p_when] in E.
  - assert (Hsim : rl_sim (rg_starts (rg_is_kw rg_s_implements)) (g_implements_interfaces f ;; g_objext_rest f true)
                     (rg_seq rg_implements (rgl_ext2 true TkLCurly (rgl_fieldsdef LP)))).
    { apply rl_sim_bind; [apply rl_sim_implements_interfaces|intros _; apply rl_sim_objext_rest]. }
    apply (proj2 Hsim s u s' E Hok Ht). apply rl_starts_head. exact Hh.
  - assert (E' : g_objext_rest f false s = POk (u, s')) by exact E.
    exact (proj2 (rl_sim_objext_rest f false) s u s' E' Hok Ht I).
Qed.

Lemma rl_sim_object_type_extension f :
  rl_sim (rl_ext_kw pkw_type) (g_object_type_extension f) (rgl_ext_named pkw_type rgl_objext).
Proof.
  unfold g_object_type_extension, rgl_ext_named. apply rl_sim_node. apply rl_sim_extend_kw.
  apply rl_sim_bind; [apply rl_sim_name_or_err|intros _]. apply rl_sim_objext.
Qed.
Lemma rl_sim_interface_type_extension f :
  rl_sim (rl_ext_kw pkw_interface) (g_interface_type_extension f) (rgl_ext_named pkw_interface rgl_objext).
Proof.
  unfold g_interface_type_extension, rgl_ext_named. apply rl_sim_node. apply rl_sim_extend_kw.
  apply rl_sim_bind; [apply rl_sim_name_or_err|intros _]. apply rl_sim_objext.
Qed.

(* ------------------------------------------------------------------ schema extension *)
(* `{ RootOperationTypeDefinition+ }` as schema_extension writes it (the same text as in schema_definition) *)
Definition g_schema_ext_block (f : nat) : PM unit :=
  p_bump SK_L_CURLY ;;
  has <- p_peek_while_kind_acc f TkName (fun _ => g_root_operation_type_definition ;; p_ret true) false ;;
  p_when (negb has) p_err ;; p_expect TkRCurly SK_R_CURLY.

Lemma rl_sim_schema_ext_block f : rl_sim (rg_starts (rg_is TkLCurly)) (g_schema_ext_block f) (rgl_rootops LP).
Proof. exact (rl_sim_rootops_block f). Qed.

Definition g_schema_ext_rest (f : nat) : PM unit :=
  d <- g_peek_is TkAt ;; p_when d (g_directives f GConst) ;;
  c <- g_peek_is TkLCurly ;;
  if c then g_schema_ext_block f else p_when (negb d) p_err.

Lemma rgl_schema_ext_tail_at ts : rl_head_is (rg_is TkAt) ts = true ->
  rgl_schema_ext_tail LP ts = rg_seq (rgl_directives LP true) (rg_opt (rg_is TkLCurly) (rgl_rootops LP)) ts.
Proof.
  intros H. unfold rgl_schema_ext_tail. cbn [rgl_schemaext_empty rgl_parser andb].
  destruct ts as [|t ts']; [discriminate|]. cbn [rl_head_is] in H.
  unfold rg_seq at 1, rg_bind at 1, rg_peek, rg_is_at_or. rewrite H. reflexivity.
Qed.
Lemma rgl_schema_ext_tail_noat ts : rl_head_is (rg_is TkAt) ts = false ->
  rgl_schema_ext_tail LP ts = rgl_rootops LP ts.
Proof.
  intros H. unfold rgl_schema_ext_tail. cbn [rgl_schemaext_empty rgl_parser andb].
  destruct ts as [|[k d] ts']; [reflexivity|]. cbn [rl_head_is] in H.
  destruct k; try (cbn in H; discriminate H); reflexivity.
Qed.

Lemma rl_gen_schema_ext_rest f : rl_gen (g_schema_ext_rest f).
Proof.
  unfold g_schema_ext_rest. apply rl_gen_bind; [apply rl_gen_peek_is|intros d]. apply rl_gen_bind.
  - destruct d; cbn [p_when]; [apply (rl_sim_directives f GConst)|apply rl_gen_ret].
  - intros _. apply rl_gen_bind; [apply rl_gen_peek_is|intros c].
    destruct c; [apply rl_sim_schema_ext_block|]. destruct (negb d); cbn [p_when]; [apply rl_gen_err|apply rl_gen_ret].
Qed.

Lemma rl_sim_schema_ext_rest f : rl_sim rl_any (g_schema_ext_rest f) (rgl_schema_ext_tail LP).
Proof.
  split; [apply rl_gen_schema_ext_rest|]. intros s u s' E Hok Ht _. pose proof Hok as [Hinv Ha].
  destruct (rl_inv_cur _ Hinv) as (t & Hc & Hi & _). unfold g_schema_ext_rest in E.
  unfold p_bind at 1 in E. rewrite (peek_is_some TkAt t s Hc) in E.
  rewrite (rl_peek_is_view _ _ _ Hinv Hc) in E by discriminate.
  destruct (rl_head_is (rg_is TkAt) (rl_sigs s)) eqn:Hat; cbn [p_when negb] in E.
  - (* directives present: the block is optional, but when present it holds at least one root operation type *)
    apply (rl_post_ext (rg_seq (rgl_directives LP true) (rg_opt (rg_is TkLCurly) (rgl_rootops LP))));
      [symmetry; apply rgl_schema_ext_tail_at; exact Hat|].
    assert (Hsim : rl_sim rl_any
              (g_directives f GConst ;; c <- g_peek_is TkLCurly ;; if c then g_schema_ext_block f else p_ret tt)
              (rg_seq (rgl_directives LP true) (rg_opt (rg_is TkLCurly) (rgl_rootops LP)))).
    { apply rl_sim_bind; [apply (rl_sim_directives f GConst)|intros _].
      apply (rl_sim_fext rl_any (g_if_peek TkLCurly (g_schema_ext_block f))).
      { intros s0. unfold g_if_peek, p_bind. destruct (g_peek_is TkLCurly s0) as [[c s1]| |]; [|reflexivity|reflexivity].
        destruct c; reflexivity. }
      apply rl_sim_if_peek; [discriminate|apply rl_sim_schema_ext_block]. }
    exact (proj2 Hsim s u s' E Hok Ht I).
  - (* no directives: a block with at least one root operation type is required *)
    apply (rl_post_ext (rgl_rootops LP)); [symmetry; apply rgl_schema_ext_tail_noat; exact Hat|].
    assert (Hsim : rl_sim rl_any (c <- g_peek_is TkLCurly ;; if c then g_schema_ext_block f else p_err) (rgl_rootops LP)).
    { apply (rl_sim_peek_else_err TkLCurly); [discriminate|apply rl_sim_schema_ext_block|].
      unfold rgl_rootops. apply rl_requires_seq_sat. }
    unfold p_ret at 1 in E. unfold p_bind at 1 in E.
    exact (proj2 Hsim s u s' E Hok Ht I).
Qed.

Lemma rl_sim_schema_extension f :
  rl_sim (rl_ext_kw pkw_schema) (g_schema_extension f)
    (rg_seq (rg_sat (rg_is_kw rg_s_extend)) (rg_seq (rg_sat (rg_is_kw pkw_schema)) (rgl_schema_ext_tail LP))).
Proof.
  unfold g_schema_extension. apply rl_sim_node. apply rl_sim_extend_kw.
  apply (rl_sim_fext rl_any (g_schema_ext_rest f)); [|apply rl_sim_schema_ext_rest].
  intros s. reflexivity.
Qed.
