(* C05 link — extensions.rs, document.rs: the dispatch on keywords and the definition loop, against the relaxed
   reference's Definition / Document.  Proofs only. *)
From Coq Require Import PeanoNat.
From ApolloVerif Require Import Base.Chars Lex.Item Lex.Fun Parse.Outcome Parse.Builder Parse.Limits Parse.Monad
  Parse.Keywords Parse.Grammar Parse.Generic Parse.Atoms Parse.Entry Parse.LosslessDefs Parse.Lossless
  Parse.TrackerInst Parse.SilentInst Parse.EntryEnd Parse.Terminates Parse.RefGrammar Parse.RefLib Parse.RefLenient
  Parse.RefLenientProofs Parse.RefLinkBase Parse.RefLinkLoops Parse.RefLinkType Parse.RefLinkValue Parse.RefLinkExec
  Parse.RefLinkSel Parse.RefLinkDefs Parse.RefLinkTS.

(* ------------------------------------------------------------------ keywords *)
Lemma rl_tok_not_kw k d kw : rl_tok_ok k d = true -> k <> TkName -> rl_is_kw_str kw -> p_str_eqb d kw = false.
Proof.
  intros Hok Hk Hkw. destruct kw as [|c kw]; [contradiction|]. cbn in Hkw.
  destruct d as [|c' d']; [reflexivity|]. cbn [p_str_eqb].
  assert (Hcc : (c' =? c) = false).
  { destruct (c' =? c) eqn:E; [|reflexivity]. apply N.eqb_eq in E. subst c'. exfalso.
    destruct k; cbn [rl_tok_ok] in Hok; try contradiction; try (rewrite Hkw in Hok; discriminate Hok).
    cbn in Hok. apply andb_prop in Hok as [Hok _]. apply N.eqb_eq in Hok. subst c. cbn in Hkw. discriminate. }
  rewrite Hcc. reflexivity.
Qed.

Lemma rg_streq_refl a : rg_streq a a = true.
Proof. induction a as [|x a IH]; cbn; [reflexivity|]. now rewrite N.eqb_refl, IH. Qed.
Lemma rg_is_kw_self kw : rg_is_kw kw (TkName, kw) = true.
Proof. unfold rg_is_kw. cbn. apply rg_streq_refl. Qed.
Lemma rg_streq_p a b : rg_streq a b = p_str_eqb b a.
Proof. change (p_str_eqb b a) with (rg_streq b a). apply rg_streq_sym. Qed.

(* the string the document dispatch looks at, as a function of the view *)
Definition rl_dispatch (def : str) (ts : list rg_token) : Prop :=
  match ts with
  | (TkName, w) :: _ => def = w
  | (TkLCurly, _) :: _ => def = pkw_lcurly
  | (TkStringValue, _) :: (k2, d2) :: _ => def = d2 /\ rl_tok_ok k2 d2 = true
  | [(TkStringValue, _)] => def = []
  | _ => False
  end.

(* ------------------------------------------------------------------ a definition that starts Description? <kw> *)
Lemma rl_select_desc_kw kw (g : PM unit) Q s u s' :
  rl_is_kw_str kw -> kw <> pkw_lcurly ->
  rl_sim (rl_desc_kw kw) g Q ->
  (forall r, Q ((TkName, kw) :: r) = rl_acc (rgl_definition LP) ((TkName, kw) :: r)) ->
  (forall d0 r, Q ((TkStringValue, d0) :: (TkName, kw) :: r)
                = rl_acc (rgl_definition LP) ((TkStringValue, d0) :: (TkName, kw) :: r)) ->
  rl_ok s -> tr_ok (ps_rec s) -> g s = POk (u, s') -> rl_dispatch kw (rl_sigs s) ->
  rl_sound (rl_acc (rgl_definition LP)) s s' /\ rl_complete (rl_acc (rgl_definition LP)) s s'.
Proof.
  intros Hkw Hnl Hsim HA HB Hok Ht E Hd.
  assert (Hpre : rl_desc_kw kw (rl_sigs s) /\ Q (rl_sigs s) = rl_acc (rgl_definition LP) (rl_sigs s)).
  { destruct (rl_sigs s) as [|[k d] r]; [contradiction|]. destruct k; try contradiction; cbn [rl_dispatch] in Hd.
    (* the `{` case is closed by contradiction with kw <> "{" *)
    - (* Name *) subst d. split; [cbn; apply rg_is_kw_self|apply HA].
    - (* String *) destruct r as [|[k2 d2] r2]; [exfalso; destruct kw; [contradiction|discriminate Hd]|].
      destruct Hd as [<- Hok2]. destruct (tkind_eqb k2 TkName) eqn:Hk2.
      + apply tkind_eqb_eq in Hk2. subst k2. split; [cbn; apply rg_is_kw_self|apply HB].
      + exfalso. assert (Hn : k2 <> TkName) by (intros H; apply tkind_eqb_eq in H; congruence).
        pose proof (rl_tok_not_kw _ _ kw Hok2 Hn Hkw) as Hf. rewrite p_str_eqb_refl in Hf. discriminate. }
  destruct Hpre as [Hp Hq]. apply (rl_post_ext Q); [exact Hq|]. exact (proj2 Hsim s u s' E Hok Ht Hp).
Qed.

(* ------------------------------------------------------------------ the reference's dispatch, keyword by keyword *)
(* after the keyword: <Name> tail *)
Lemma rgl_def_type r : rl_acc (rgl_definition LP) ((TkName, pkw_type) :: r) = rg_seq rg_name (rgl_object_tail LP) r.
Proof. rewrite <- (rl_acc_named RgkObjectDef). reflexivity. Qed.
Lemma rgl_def_interface r : rl_acc (rgl_definition LP) ((TkName, pkw_interface) :: r) = rg_seq rg_name (rgl_object_tail LP) r.
Proof. rewrite <- (rl_acc_named RgkInterfaceDef). reflexivity. Qed.
Lemma rgl_def_scalar r : rl_acc (rgl_definition LP) ((TkName, pkw_scalar) :: r) = rg_seq rg_name (rgl_scalar_tail LP) r.
Proof. rewrite <- (rl_acc_named RgkScalarDef). reflexivity. Qed.
Lemma rgl_def_union r : rl_acc (rgl_definition LP) ((TkName, pkw_union) :: r) = rg_seq rg_name (rgl_union_tail LP) r.
Proof. rewrite <- (rl_acc_named RgkUnionDef). reflexivity. Qed.
Lemma rgl_def_enum r : rl_acc (rgl_definition LP) ((TkName, pkw_enum) :: r) = rg_seq rg_name (rgl_enum_tail LP) r.
Proof. rewrite <- (rl_acc_named RgkEnumDef). reflexivity. Qed.
Lemma rgl_def_input r : rl_acc (rgl_definition LP) ((TkName, pkw_input) :: r) = rg_seq rg_name (rgl_input_tail LP) r.
Proof. rewrite <- (rl_acc_named RgkInputDef). reflexivity. Qed.
Lemma rgl_def_schema r : rl_acc (rgl_definition LP) ((TkName, pkw_schema) :: r) = rgl_schema_tail LP r.
Proof. transitivity (rl_acc (rg_ret (RgkSchemaDef, None) (rgl_schema_tail LP)) r); [reflexivity|apply rl_acc_ret]. Qed.
Lemma rgl_def_directive r :
  rl_acc (rgl_definition LP) ((TkName, pkw_directive) :: r)
  = rg_seq (rg_sat (rg_is TkAt)) (rg_seq rg_name (rgl_dirdef_tail LP)) r.
Proof.
  destruct r as [|[k d] r']; [reflexivity|]. destruct k; try reflexivity.
  change (rg_seq (rg_sat (rg_is TkAt)) (rg_seq rg_name (rgl_dirdef_tail LP)) ((TkAt, d) :: r'))
    with (rg_seq rg_name (rgl_dirdef_tail LP) r').
  rewrite <- (rl_acc_named RgkDirectiveDef). reflexivity.
Qed.

(* a description in front changes nothing for these keywords *)
Lemma rgl_def_desc kw d0 r : rg_streq rg_s_fragment kw = false ->
  rl_acc (rgl_definition LP) ((TkStringValue, d0) :: (TkName, kw) :: r) = rl_acc (rgl_ts_def_kw LP) ((TkName, kw) :: r).
Proof.
  intros H. unfold rl_acc, rgl_definition, rgl_desc_then. rewrite H, andb_false_r. reflexivity.
Qed.

Lemma rl_desc_kw_A kw (q : rg_p) r :
  rg_seq rg_desc_opt (rg_seq (rg_sat (rg_is_kw kw)) q) ((TkName, kw) :: r) = q r.
Proof. unfold rg_seq at 1 2, rg_desc_opt, rg_opt, rg_bind. cbn [rg_is fst tkind_eqb rg_sat]. rewrite rg_is_kw_self. reflexivity. Qed.
Lemma rl_desc_kw_B kw (q : rg_p) d0 r :
  rg_seq rg_desc_opt (rg_seq (rg_sat (rg_is_kw kw)) q) ((TkStringValue, d0) :: (TkName, kw) :: r) = q r.
Proof.
  unfold rg_seq at 1 2, rg_desc_opt, rg_opt, rg_bind. cbn [rg_is fst tkind_eqb rg_sat]. rewrite rg_is_kw_self. reflexivity.
Qed.

(* the eight definitions that may carry a description *)
Ltac rl_kw_def lemma eqA :=
  eapply (rl_select_desc_kw _ _ _ _ _ _ ltac:(reflexivity) ltac:(discriminate) lemma);
  [ intros r; unfold rgl_named_def; rewrite rl_desc_kw_A; symmetry; apply eqA
  | intros d0 r; unfold rgl_named_def; rewrite rl_desc_kw_B, rgl_def_desc by reflexivity; symmetry;
    etransitivity; [|apply eqA]; reflexivity
  | eassumption | eassumption | eassumption | eassumption ].

(* ------------------------------------------------------------------ extensions.rs *)
Lemma rgl_ext_objext r : rl_acc (rg_named RgkObjectExt (rg_seq (rg_peek rg_is_objext_start) (rgl_object_tail LP))) r
  = rg_seq rg_name rgl_objext r.
Proof.
  rewrite rl_acc_named. unfold rg_seq at 1 3, rg_bind. destruct (rg_name r) as [r1| |]; try reflexivity.
  unfold rgl_objext, rgl_ext2, rgl_object_tail, rg_seq, rg_bind, rg_peek, rg_is_objext_start, rg_is_at_or.
  destruct r1 as [|t ts]; [reflexivity|]. cbn [rl_head_is]. unfold rg_opt at 1.
  destruct (rg_is_kw rg_s_implements t) eqn:Hi; destruct (rg_is TkAt t) eqn:Ha; destruct (rg_is TkLCurly t) eqn:Hl;
    cbn [orb]; cbv beta iota; rewrite ?Hi, ?Ha, ?Hl; reflexivity.
Qed.
Lemma rgl_ext_intext r : rl_acc (rg_named RgkInterfaceExt (rg_seq (rg_peek rg_is_objext_start) (rgl_object_tail LP))) r
  = rg_seq rg_name rgl_objext r.
Proof.
  rewrite rl_acc_named. rewrite <- (rl_acc_named RgkObjectExt). apply rgl_ext_objext.
Qed.

Lemma rgl_def_extend r : rl_acc (rgl_definition LP) ((TkName, pkw_extend) :: r) = rl_acc (rgl_ts_ext_kw LP) r.
Proof. reflexivity. Qed.

Lemma rl_ext_named_eq kw (tail : rg_p) r :
  rgl_ext_named kw tail ((TkName, pkw_extend) :: (TkName, kw) :: r) = rg_seq rg_name tail r.
Proof.
  unfold rgl_ext_named, rg_seq, rg_bind, rg_sat.
  change (rg_is_kw rg_s_extend (TkName, pkw_extend)) with true. cbv beta iota. rewrite rg_is_kw_self. reflexivity.
Qed.

(* one branch of the dispatch of extensions.rs *)
Lemma rl_ext_branch kw (g : PM unit) Q s u s' k2 r' :
  rl_is_kw_str kw -> rl_sim (rl_ext_kw kw) g Q ->
  (forall r0, Q ((TkName, pkw_extend) :: (TkName, kw) :: r0) = rl_acc (rgl_ts_ext_kw LP) ((TkName, kw) :: r0)) ->
  rl_ok s -> tr_ok (ps_rec s) -> g s = POk (u, s') ->
  rl_sigs s = (TkName, pkw_extend) :: (k2, kw) :: r' -> rl_tok_ok k2 kw = true ->
  rl_sound (rl_acc (rgl_definition LP)) s s' /\ rl_complete (rl_acc (rgl_definition LP)) s s'.
Proof.
  intros Hkw Hsim Heq Hok Ht E Hs Hok2.
  assert (Hk2 : k2 = TkName).
  { destruct (tkind_eqb k2 TkName) eqn:Hk; [apply tkind_eqb_eq; exact Hk|]. exfalso.
    assert (Hn : k2 <> TkName) by (intros H; apply tkind_eqb_eq in H; congruence).
    pose proof (rl_tok_not_kw _ _ kw Hok2 Hn Hkw) as Hf. rewrite p_str_eqb_refl in Hf. discriminate. }
  subst k2. apply (rl_post_ext Q).
  - rewrite Hs, rgl_def_extend. apply Heq.
  - apply (proj2 Hsim s u s' E Hok Ht). rewrite Hs. cbn. split; [reflexivity|apply rg_is_kw_self].
Qed.

Lemma rl_gen_extensions f : rl_gen (g_extensions f).
Proof. split; [apply (gg_extensions CT CT_ok)|apply (gg_extensions CX CX_ok)]. Qed.

Lemma rl_extensions f s u s' t r :
  rl_ok s -> tr_ok (ps_rec s) -> ps_cur s = Some t -> rl_sigs s = (TkName, pkw_extend) :: r ->
  g_extensions f s = POk (u, s') ->
  rl_sound (rl_acc (rgl_definition LP)) s s' /\ rl_complete (rl_acc (rgl_definition LP)) s s'.
Proof.
  intros Hok Ht Hc Hs E. pose proof Hok as [Hinv Ha].
  assert (Hk : tok_kind t = TkName /\ rl_sig (ps_items s) = r).
  { pose proof (rl_sigs_head _ _ Hinv Hc) as Hh. rewrite Hs in Hh. destruct (tkind_eqb (tok_kind t) TkEof); [discriminate|].
    injection Hh as Hh1 _ Hh2. auto. }
  destruct Hk as [Hk Hr]. assert (Hne : tok_kind t <> TkEof) by congruence.
  destruct (rl_peek_token_n2 _ _ Hinv Hc Hne) as (t2 & Hp2 & Hv2). rewrite Hr in Hv2.
  unfold g_extensions in E. unfold p_bind at 1 in E. unfold p_peek_data_n in E. unfold p_bind at 1 in E.
  rewrite Hp2 in E. cbn [p_ret option_map] in E.
  destruct r as [|[k2 d2] r'].
  - (* `extend` is the last token *)
    destruct Hv2 as [_ Hd]. rewrite Hd in E. cbn in E.
    apply rl_post_dirty; [eapply rl_err_and_pop_run; eauto|]. rewrite Hs. reflexivity.
  - destruct Hv2 as (_ & Hd & _ & Hok2). rewrite Hd in E.
    destruct (p_str_eqb d2 pkw_schema) eqn:H1.
    { apply p_str_eqb_eq in H1. subst d2.
      eapply (rl_ext_branch pkw_schema _ _ s u s' k2 r' ltac:(reflexivity) (rl_sim_schema_extension f)); eauto.
      intros r0. unfold rg_seq, rg_bind, rg_sat.
      change (rg_is_kw rg_s_extend (TkName, pkw_extend)) with true. cbv beta iota. rewrite rg_is_kw_self.
      symmetry. exact (rl_acc_ret (RgkSchemaExt, None) (rgl_schema_ext_tail LP) r0). }
    destruct (p_str_eqb d2 pkw_scalar) eqn:H2.
    { apply p_str_eqb_eq in H2. subst d2.
      eapply (rl_ext_branch pkw_scalar _ _ s u s' k2 r' ltac:(reflexivity) (rl_sim_scalar_type_extension f)); eauto.
      intros r0. rewrite rl_ext_named_eq. symmetry.
      exact (rl_acc_named RgkScalarExt (rg_seq (rg_peek (rg_is TkAt)) (rgl_scalar_tail LP)) r0). }
    destruct (p_str_eqb d2 pkw_type) eqn:H3.
    { apply p_str_eqb_eq in H3. subst d2.
      eapply (rl_ext_branch pkw_type _ _ s u s' k2 r' ltac:(reflexivity) (rl_sim_object_type_extension f)); eauto.
      intros r0. rewrite rl_ext_named_eq. symmetry. exact (rgl_ext_objext r0). }
    destruct (p_str_eqb d2 pkw_interface) eqn:H4.
    { apply p_str_eqb_eq in H4. subst d2.
      eapply (rl_ext_branch pkw_interface _ _ s u s' k2 r' ltac:(reflexivity) (rl_sim_interface_type_extension f)); eauto.
      intros r0. rewrite rl_ext_named_eq. symmetry. exact (rgl_ext_intext r0). }
    destruct (p_str_eqb d2 pkw_union) eqn:H5.
    { apply p_str_eqb_eq in H5. subst d2.
      eapply (rl_ext_branch pkw_union _ _ s u s' k2 r' ltac:(reflexivity) (rl_sim_union_type_extension f)); eauto.
      intros r0. rewrite rl_ext_named_eq. symmetry.
      exact (rl_acc_named RgkUnionExt (rg_seq (rg_peek (rg_is_at_or TkEq)) (rgl_union_tail LP)) r0). }
    destruct (p_str_eqb d2 pkw_enum) eqn:H6.
    { apply p_str_eqb_eq in H6. subst d2.
      eapply (rl_ext_branch pkw_enum _ _ s u s' k2 r' ltac:(reflexivity) (rl_sim_enum_type_extension f)); eauto.
      intros r0. rewrite rl_ext_named_eq. symmetry.
      exact (rl_acc_named RgkEnumExt (rg_seq (rg_peek (rg_is_at_or TkLCurly)) (rgl_enum_tail LP)) r0). }
    destruct (p_str_eqb d2 pkw_input) eqn:H7.
    { apply p_str_eqb_eq in H7. subst d2.
      eapply (rl_ext_branch pkw_input _ _ s u s' k2 r' ltac:(reflexivity) (rl_sim_input_object_type_extension f)); eauto.
      intros r0. rewrite rl_ext_named_eq. symmetry.
      exact (rl_acc_named RgkInputExt (rg_seq (rg_peek (rg_is_at_or TkLCurly)) (rgl_input_tail LP)) r0). }
    (* not something that can be extended *)
    apply rl_post_dirty; [eapply rl_err_and_pop_run; eauto|]. rewrite Hs, rgl_def_extend.
    unfold rl_acc, rgl_ts_ext_kw. destruct k2; try reflexivity.
    rewrite (rg_streq_p rg_s_schema), (rg_streq_p rg_s_scalar), (rg_streq_p rg_s_type), (rg_streq_p rg_s_interface),
            (rg_streq_p rg_s_union), (rg_streq_p rg_s_enum), (rg_streq_p rg_s_input).
    change rg_s_schema with pkw_schema. change rg_s_scalar with pkw_scalar. change rg_s_type with pkw_type.
    change rg_s_interface with pkw_interface. change rg_s_union with pkw_union. change rg_s_enum with pkw_enum.
    change rg_s_input with pkw_input. rewrite H1, H2, H3, H4, H5, H6, H7. reflexivity.
Qed.
