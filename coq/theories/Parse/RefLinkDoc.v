(* C05 link — extensions.rs, document.rs: the dispatch on keywords and the definition loop, against the relaxed
   reference's Definition / Document.  Proofs only. *)
From Coq Require Import PeanoNat.
From ApolloVerif Require Import Base.Chars Lex.Item Lex.Fun Parse.Outcome Parse.Builder Parse.Limits Parse.Monad
  Parse.Keywords Parse.Grammar Parse.Generic Parse.Atoms Parse.Entry Parse.LosslessDefs Parse.Lossless
  Parse.TrackerInst Parse.SilentInst Parse.EntryEnd Parse.Terminates Parse.RefGrammar Parse.RefLib Parse.RefLenient
  Parse.RefLenientProofs Parse.RefLinkBase Parse.RefLinkLoops Parse.RefLinkType Parse.RefLinkValue Parse.RefLinkExec
  Parse.RefLinkSel Parse.RefLinkEntry Parse.RefLinkDefs Parse.RefLinkTS.

(* ------------------------------------------------------------------ keywords *)
Lemma rl_tok_not_kw k d kw : rl_tok_ok k d = true -> k <> TkName -> rl_is_kw_str kw -> p_str_eqb d kw = false.
Proof.
  intros Hok Hk Hkw. destruct kw as [|c kw]; [contradiction|]. cbn in Hkw.
  destruct d as [|c' d']; [reflexivity|]. cbn [p_str_eqb].
  assert (Hcc : (c' =? c) = false).
  { destruct (c' =? c) eqn:E; [|reflexivity]. apply N.eqb_eq in E. subst c'. exfalso.
    destruct k; cbn [rl_tok_ok] in Hok; try contradiction; try (rewrite Hkw in Hok; discriminate Hok).
    cbn in Hok. apply andb_prop in Hok as [Hok _]. apply N.eqb_eq in Hok. subst c. cbn in Hkw. discriminate. }
  rewrite Hcc. reflexivity.
Qed.

Lemma rg_streq_refl a : rg_streq a a = true.
Proof. induction a as [|x a IH]; cbn; [reflexivity|]. now rewrite N.eqb_refl, IH. Qed.
Lemma rg_is_kw_self kw : rg_is_kw kw (TkName, kw) = true.
Proof. unfold rg_is_kw. cbn. apply rg_streq_refl. Qed.
Lemma rg_streq_p a b : rg_streq a b = p_str_eqb b a.
Proof. change (p_str_eqb b a) with (rg_streq b a). apply rg_streq_sym. Qed.

(* the string the document dispatch looks at, as a function of the view *)
Definition rl_dispatch (def : str) (ts : list rg_token) : Prop :=
  match ts with
  | (TkName, w) :: _ => def = w
  | (TkLCurly, _) :: _ => def = pkw_lcurly
  | (TkStringValue, _) :: (k2, d2) :: _ => def = d2 /\ rl_tok_ok k2 d2 = true
  | [(TkStringValue, _)] => def = []
  | _ => False
  end.

(* ------------------------------------------------------------------ a definition that starts Description? <kw> *)
Lemma rl_select_desc_kw kw (g : PM unit) Q s u s' :
  rl_is_kw_str kw -> kw <> pkw_lcurly ->
  rl_sim (rl_desc_kw kw) g Q ->
  (forall r, Q ((TkName, kw) :: r) = rl_acc (rgl_definition LP) ((TkName, kw) :: r)) ->
  (forall d0 r, Q ((TkStringValue, d0) :: (TkName, kw) :: r)
                = rl_acc (rgl_definition LP) ((TkStringValue, d0) :: (TkName, kw) :: r)) ->
  rl_ok s -> tr_ok (ps_rec s) -> g s = POk (u, s') -> rl_dispatch kw (rl_sigs s) ->
  rl_sound (rl_acc (rgl_definition LP)) s s' /\ rl_complete (rl_acc (rgl_definition LP)) s s'.
Proof.
  intros Hkw Hnl Hsim HA HB Hok Ht E Hd.
  assert (Hpre : rl_desc_kw kw (rl_sigs s) /\ Q (rl_sigs s) = rl_acc (rgl_definition LP) (rl_sigs s)).
  { destruct (rl_sigs s) as [|[k d] r]; [contradiction|]. destruct k; try contradiction; cbn [rl_dispatch] in Hd.
    (* the `{` case is closed by contradiction with kw <> "{" *)
    - (* Name *) subst d. split; [cbn; apply rg_is_kw_self|apply HA].
    - (* String *) destruct r as [|[k2 d2] r2]; [exfalso; destruct kw; [contradiction|discriminate Hd]|].
      destruct Hd as [<- Hok2]. destruct (tkind_eqb k2 TkName) eqn:Hk2.
      + apply tkind_eqb_eq in Hk2. subst k2. split; [cbn; apply rg_is_kw_self|apply HB].
      + exfalso. assert (Hn : k2 <> TkName) by (intros H; apply tkind_eqb_eq in H; congruence).
        pose proof (rl_tok_not_kw _ _ kw Hok2 Hn Hkw) as Hf. rewrite p_str_eqb_refl in Hf. discriminate. }
  destruct Hpre as [Hp Hq]. apply (rl_post_ext Q); [exact Hq|]. exact (proj2 Hsim s u s' E Hok Ht Hp).
Qed.

(* ------------------------------------------------------------------ the reference's dispatch, keyword by keyword *)
(* after the keyword: <Name> tail *)
Lemma rgl_def_type r : rl_acc (rgl_definition LP) ((TkName, pkw_type) :: r) = rg_seq rg_name (rgl_object_tail LP) r.
Proof. rewrite <- (rl_acc_named RgkObjectDef). reflexivity. Qed.
Lemma rgl_def_interface r : rl_acc (rgl_definition LP) ((TkName, pkw_interface) :: r) = rg_seq rg_name (rgl_object_tail LP) r.
Proof. rewrite <- (rl_acc_named RgkInterfaceDef). reflexivity. Qed.
Lemma rgl_def_scalar r : rl_acc (rgl_definition LP) ((TkName, pkw_scalar) :: r) = rg_seq rg_name (rgl_scalar_tail LP) r.
Proof. rewrite <- (rl_acc_named RgkScalarDef). reflexivity. Qed.
Lemma rgl_def_union r : rl_acc (rgl_definition LP) ((TkName, pkw_union) :: r) = rg_seq rg_name (rgl_union_tail LP) r.
Proof. rewrite <- (rl_acc_named RgkUnionDef). reflexivity. Qed.
Lemma rgl_def_enum r : rl_acc (rgl_definition LP) ((TkName, pkw_enum) :: r) = rg_seq rg_name (rgl_enum_tail LP) r.
Proof. rewrite <- (rl_acc_named RgkEnumDef). reflexivity. Qed.
Lemma rgl_def_input r : rl_acc (rgl_definition LP) ((TkName, pkw_input) :: r) = rg_seq rg_name (rgl_input_tail LP) r.
Proof. rewrite <- (rl_acc_named RgkInputDef). reflexivity. Qed.
Lemma rgl_def_schema r : rl_acc (rgl_definition LP) ((TkName, pkw_schema) :: r) = rgl_schema_tail LP r.
Proof. transitivity (rl_acc (rg_ret (RgkSchemaDef, None) (rgl_schema_tail LP)) r); [reflexivity|apply rl_acc_ret]. Qed.
Lemma rgl_def_directive r :
  rl_acc (rgl_definition LP) ((TkName, pkw_directive) :: r)
  = rg_seq (rg_sat (rg_is TkAt)) (rg_seq rg_name (rgl_dirdef_tail LP)) r.
Proof.
  destruct r as [|[k d] r']; [reflexivity|]. destruct k; try reflexivity.
  change (rg_seq (rg_sat (rg_is TkAt)) (rg_seq rg_name (rgl_dirdef_tail LP)) ((TkAt, d) :: r'))
    with (rg_seq rg_name (rgl_dirdef_tail LP) r').
  rewrite <- (rl_acc_named RgkDirectiveDef). reflexivity.
Qed.

(* a description in front changes nothing for these keywords *)
Lemma rgl_def_desc kw d0 r : rg_streq rg_s_fragment kw = false ->
  rl_acc (rgl_definition LP) ((TkStringValue, d0) :: (TkName, kw) :: r) = rl_acc (rgl_ts_def_kw LP) ((TkName, kw) :: r).
Proof.
  intros H. unfold rl_acc, rgl_definition, rgl_desc_then. rewrite H, andb_false_r. reflexivity.
Qed.

Lemma rl_desc_kw_A kw (q : rg_p) r :
  rg_seq rg_desc_opt (rg_seq (rg_sat (rg_is_kw kw)) q) ((TkName, kw) :: r) = q r.
Proof. unfold rg_seq at 1 2, rg_desc_opt, rg_opt, rg_bind. cbn [rg_is fst tkind_eqb rg_sat]. rewrite rg_is_kw_self. reflexivity. Qed.
Lemma rl_desc_kw_B kw (q : rg_p) d0 r :
  rg_seq rg_desc_opt (rg_seq (rg_sat (rg_is_kw kw)) q) ((TkStringValue, d0) :: (TkName, kw) :: r) = q r.
Proof.
  unfold rg_seq at 1 2, rg_desc_opt, rg_opt, rg_bind. cbn [rg_is fst tkind_eqb rg_sat]. rewrite rg_is_kw_self. reflexivity.
Qed.

(* the eight definitions that may carry a description *)
Ltac rl_kw_def lemma eqA :=
  let T := type of lemma in
  match T with
  | rl_sim (rl_desc_kw ?kw) ?g ?Q =>
      eapply (rl_select_desc_kw kw g Q);
      [ reflexivity
      | discriminate
      | exact lemma
      | let r := fresh "r" in intros r; unfold rgl_named_def; rewrite rl_desc_kw_A; symmetry; apply eqA
      | let d0 := fresh "d0" in let r := fresh "r" in
        intros d0 r; unfold rgl_named_def; rewrite rl_desc_kw_B, rgl_def_desc by reflexivity; symmetry;
        etransitivity; [|apply eqA]; reflexivity
      | eassumption | eassumption | eassumption | eassumption ]
  end.

(* ------------------------------------------------------------------ extensions.rs *)
Lemma rgl_ext_objext r : rl_acc (rg_named RgkObjectExt (rg_seq (rg_peek rg_is_objext_start) (rgl_object_tail LP))) r
  = rg_seq rg_name rgl_objext r.
Proof.
  rewrite rl_acc_named. unfold rg_seq at 1 3, rg_bind. destruct (rg_name r) as [r1| |]; try reflexivity.
  unfold rgl_objext, rgl_ext2, rgl_object_tail, rg_seq, rg_bind, rg_peek, rg_is_objext_start, rg_is_at_or.
  destruct r1 as [|t ts]; [reflexivity|]. cbn [rl_head_is]. unfold rg_opt at 1.
  destruct (rg_is_kw rg_s_implements t) eqn:Hi; destruct (rg_is TkAt t) eqn:Ha; destruct (rg_is TkLCurly t) eqn:Hl;
    cbn [orb]; cbv beta iota; rewrite ?Hi, ?Ha, ?Hl; reflexivity.
Qed.
Lemma rgl_ext_intext r : rl_acc (rg_named RgkInterfaceExt (rg_seq (rg_peek rg_is_objext_start) (rgl_object_tail LP))) r
  = rg_seq rg_name rgl_objext r.
Proof.
  rewrite rl_acc_named. rewrite <- (rl_acc_named RgkObjectExt). apply rgl_ext_objext.
Qed.

Lemma rgl_def_extend r : rl_acc (rgl_definition LP) ((TkName, pkw_extend) :: r) = rl_acc (rgl_ts_ext_kw LP) r.
Proof. reflexivity. Qed.

Lemma rl_ext_named_eq kw (tail : rg_p) r :
  rgl_ext_named kw tail ((TkName, pkw_extend) :: (TkName, kw) :: r) = rg_seq rg_name tail r.
Proof.
  unfold rgl_ext_named, rg_seq, rg_bind, rg_sat.
  change (rg_is_kw rg_s_extend (TkName, pkw_extend)) with true. cbv beta iota. rewrite rg_is_kw_self. reflexivity.
Qed.

(* one branch of the dispatch of extensions.rs *)
Lemma rl_ext_branch kw (g : PM unit) Q s u s' k2 r' :
  rl_is_kw_str kw -> rl_sim (rl_ext_kw kw) g Q ->
  (forall r0, Q ((TkName, pkw_extend) :: (TkName, kw) :: r0) = rl_acc (rgl_ts_ext_kw LP) ((TkName, kw) :: r0)) ->
  rl_ok s -> tr_ok (ps_rec s) -> g s = POk (u, s') ->
  rl_sigs s = (TkName, pkw_extend) :: (k2, kw) :: r' -> rl_tok_ok k2 kw = true ->
  rl_sound (rl_acc (rgl_definition LP)) s s' /\ rl_complete (rl_acc (rgl_definition LP)) s s'.
Proof.
  intros Hkw Hsim Heq Hok Ht E Hs Hok2.
  assert (Hk2 : k2 = TkName).
  { destruct (tkind_eqb k2 TkName) eqn:Hk; [apply tkind_eqb_eq; exact Hk|]. exfalso.
    assert (Hn : k2 <> TkName) by (intros H; apply tkind_eqb_eq in H; congruence).
    pose proof (rl_tok_not_kw _ _ kw Hok2 Hn Hkw) as Hf. rewrite p_str_eqb_refl in Hf. discriminate. }
  subst k2. apply (rl_post_ext Q).
  - rewrite Hs, rgl_def_extend. apply Heq.
  - apply (proj2 Hsim s u s' E Hok Ht). rewrite Hs. cbn. split; [reflexivity|apply rg_is_kw_self].
Qed.

Lemma rl_gen_extensions f : rl_gen (g_extensions f).
Proof. split; [apply (gg_extensions CT CT_ok)|apply (gg_extensions CX CX_ok)]. Qed.

Lemma rl_extensions f s u s' t r :
  rl_ok s -> tr_ok (ps_rec s) -> ps_cur s = Some t -> rl_sigs s = (TkName, pkw_extend) :: r ->
  g_extensions f s = POk (u, s') ->
  rl_sound (rl_acc (rgl_definition LP)) s s' /\ rl_complete (rl_acc (rgl_definition LP)) s s'.
Proof.
  intros Hok Ht Hc Hs E. pose proof Hok as [Hinv Ha].
  assert (Hk : tok_kind t = TkName /\ rl_sig (ps_items s) = r).
  { pose proof (rl_sigs_head _ _ Hinv Hc) as Hh. rewrite Hs in Hh. destruct (tkind_eqb (tok_kind t) TkEof); [discriminate|].
    injection Hh as Hh1 _ Hh2. auto. }
  destruct Hk as [Hk Hr]. assert (Hne : tok_kind t <> TkEof) by congruence.
  destruct (rl_peek_token_n2 _ _ Hinv Hc Hne) as (t2 & Hp2 & Hv2). rewrite Hr in Hv2.
  unfold g_extensions in E. unfold p_bind at 1 in E. unfold p_peek_data_n in E. unfold p_bind at 1 in E.
  rewrite Hp2 in E. cbn [p_ret option_map] in E.
  destruct r as [|[k2 d2] r'].
  - (* `extend` is the last token *)
    destruct Hv2 as [_ Hd]. rewrite Hd in E. cbn in E.
    apply rl_post_dirty; [eapply rl_err_and_pop_run; eauto|]. rewrite Hs. reflexivity.
  - destruct Hv2 as (_ & Hd & _ & Hok2). rewrite Hd in E.
    destruct (p_str_eqb d2 pkw_schema) eqn:H1.
    { apply p_str_eqb_eq in H1. subst d2.
      eapply (rl_ext_branch pkw_schema _ _ s u s' k2 r' ltac:(reflexivity) (rl_sim_schema_extension f)); eauto.
      intros r0. unfold rg_seq, rg_bind, rg_sat.
      change (rg_is_kw rg_s_extend (TkName, pkw_extend)) with true. cbv beta iota. rewrite rg_is_kw_self.
      symmetry. exact (rl_acc_ret (RgkSchemaExt, None) (rgl_schema_ext_tail LP) r0). }
    destruct (p_str_eqb d2 pkw_scalar) eqn:H2.
    { apply p_str_eqb_eq in H2. subst d2.
      eapply (rl_ext_branch pkw_scalar _ _ s u s' k2 r' ltac:(reflexivity) (rl_sim_scalar_type_extension f)); eauto.
      intros r0. rewrite rl_ext_named_eq. symmetry.
      exact (rl_acc_named RgkScalarExt (rg_seq (rg_peek (rg_is TkAt)) (rgl_scalar_tail LP)) r0). }
    destruct (p_str_eqb d2 pkw_type) eqn:H3.
    { apply p_str_eqb_eq in H3. subst d2.
      eapply (rl_ext_branch pkw_type _ _ s u s' k2 r' ltac:(reflexivity) (rl_sim_object_type_extension f)); eauto.
      intros r0. rewrite rl_ext_named_eq. symmetry. exact (rgl_ext_objext r0). }
    destruct (p_str_eqb d2 pkw_interface) eqn:H4.
    { apply p_str_eqb_eq in H4. subst d2.
      eapply (rl_ext_branch pkw_interface _ _ s u s' k2 r' ltac:(reflexivity) (rl_sim_interface_type_extension f)); eauto.
      intros r0. rewrite rl_ext_named_eq. symmetry. exact (rgl_ext_intext r0). }
    destruct (p_str_eqb d2 pkw_union) eqn:H5.
    { apply p_str_eqb_eq in H5. subst d2.
      eapply (rl_ext_branch pkw_union _ _ s u s' k2 r' ltac:(reflexivity) (rl_sim_union_type_extension f)); eauto.
      intros r0. rewrite rl_ext_named_eq. symmetry.
      exact (rl_acc_named RgkUnionExt (rg_seq (rg_peek (rg_is_at_or TkEq)) (rgl_union_tail LP)) r0). }
    destruct (p_str_eqb d2 pkw_enum) eqn:H6.
    { apply p_str_eqb_eq in H6. subst d2.
      eapply (rl_ext_branch pkw_enum _ _ s u s' k2 r' ltac:(reflexivity) (rl_sim_enum_type_extension f)); eauto.
      intros r0. rewrite rl_ext_named_eq. symmetry.
      exact (rl_acc_named RgkEnumExt (rg_seq (rg_peek (rg_is_at_or TkLCurly)) (rgl_enum_tail LP)) r0). }
    destruct (p_str_eqb d2 pkw_input) eqn:H7.
    { apply p_str_eqb_eq in H7. subst d2.
      eapply (rl_ext_branch pkw_input _ _ s u s' k2 r' ltac:(reflexivity) (rl_sim_input_object_type_extension f)); eauto.
      intros r0. rewrite rl_ext_named_eq. symmetry.
      exact (rl_acc_named RgkInputExt (rg_seq (rg_peek (rg_is_at_or TkLCurly)) (rgl_input_tail LP)) r0). }
    (* not something that can be extended *)
    apply rl_post_dirty; [eapply rl_err_and_pop_run; eauto|]. rewrite Hs, rgl_def_extend.
    unfold rl_acc, rgl_ts_ext_kw. destruct k2; try reflexivity.
    rewrite (rg_streq_p rg_s_schema), (rg_streq_p rg_s_scalar), (rg_streq_p rg_s_type), (rg_streq_p rg_s_interface),
            (rg_streq_p rg_s_union), (rg_streq_p rg_s_enum), (rg_streq_p rg_s_input).
    change rg_s_schema with pkw_schema. change rg_s_scalar with pkw_scalar. change rg_s_type with pkw_type.
    change rg_s_interface with pkw_interface. change rg_s_union with pkw_union. change rg_s_enum with pkw_enum.
    change rg_s_input with pkw_input. rewrite H1, H2, H3, H4, H5, H6, H7. reflexivity.
Qed.

(* ------------------------------------------------------------------ document.rs: select_definition *)
Lemma rgl_ts_def_kw_none w r :
  p_str_eqb w pkw_schema = false -> p_str_eqb w pkw_scalar = false -> p_str_eqb w pkw_type = false ->
  p_str_eqb w pkw_interface = false -> p_str_eqb w pkw_union = false -> p_str_eqb w pkw_enum = false ->
  p_str_eqb w pkw_input = false -> p_str_eqb w pkw_directive = false ->
  rgl_ts_def_kw LP ((TkName, w) :: r) = RgNo.
Proof.
  intros H1 H2 H3 H4 H5 H6 H7 H8. unfold rgl_ts_def_kw.
  rewrite (rg_streq_p rg_s_schema), (rg_streq_p rg_s_scalar), (rg_streq_p rg_s_type), (rg_streq_p rg_s_interface),
          (rg_streq_p rg_s_union), (rg_streq_p rg_s_enum), (rg_streq_p rg_s_input), (rg_streq_p rg_s_directive).
  change rg_s_schema with pkw_schema. change rg_s_scalar with pkw_scalar. change rg_s_type with pkw_type.
  change rg_s_interface with pkw_interface. change rg_s_union with pkw_union. change rg_s_enum with pkw_enum.
  change rg_s_input with pkw_input. change rg_s_directive with pkw_directive.
  rewrite H1, H2, H3, H4, H5, H6, H7, H8. reflexivity.
Qed.
Lemma rgl_ts_def_kw_nonname k d r : k <> TkName -> rgl_ts_def_kw LP ((k, d) :: r) = RgNo.
Proof. intros H. destruct k; try reflexivity. contradiction. Qed.

(* a string in front of something that is not a definition keyword *)
Lemma rgl_def_desc_no d0 k2 d2 r :
  (k2 = TkName -> rg_streq rg_s_fragment d2 = false /\ rgl_ts_def_kw LP ((TkName, d2) :: r) = RgNo) ->
  rl_acc (rgl_definition LP) ((TkStringValue, d0) :: (k2, d2) :: r) = RgNo.
Proof.
  intros H. unfold rl_acc, rgl_definition, rgl_desc_then. destruct k2; try reflexivity.
  destruct (H eq_refl) as [H1 H2]. rewrite H1, andb_false_r, H2. reflexivity.
Qed.

(* the second token of a String-first document position is a Name when its text is a keyword *)
Lemma rl_second_is_name k2 kw : rl_tok_ok k2 kw = true -> rl_is_kw_str kw -> k2 = TkName.
Proof.
  intros Hok Hkw. destruct (tkind_eqb k2 TkName) eqn:Hk; [apply tkind_eqb_eq; exact Hk|]. exfalso.
  assert (Hn : k2 <> TkName) by (intros H; apply tkind_eqb_eq in H; congruence).
  pose proof (rl_tok_not_kw _ _ kw Hok Hn Hkw) as Hf. rewrite p_str_eqb_refl in Hf. discriminate.
Qed.

Lemma rl_gen_select_definition def f : rl_gen (g_select_definition def f).
Proof. split; [apply (gg_select_definition CT CT_ok)|apply (gg_select_definition CX CX_ok)]. Qed.

(* extensions reached through a description: reported *)
Lemma rl_extensions_after_string f s u s' t d0 k2 r :
  rl_ok s -> tr_ok (ps_rec s) -> ps_cur s = Some t ->
  rl_sigs s = (TkStringValue, d0) :: (k2, pkw_extend) :: r -> g_extensions f s = POk (u, s') ->
  ps_errors s' <> ps_errors s.
Proof.
  intros Hok Ht Hc Hs E. pose proof Hok as [Hinv Ha].
  assert (Hk : tok_kind t = TkStringValue /\ rl_sig (ps_items s) = (k2, pkw_extend) :: r).
  { pose proof (rl_sigs_head _ _ Hinv Hc) as Hh. rewrite Hs in Hh. destruct (tkind_eqb (tok_kind t) TkEof); [discriminate|].
    injection Hh as Hh1 _ Hh2. auto. }
  destruct Hk as [Hk Hr]. assert (Hne : tok_kind t <> TkEof) by congruence.
  destruct (rl_peek_token_n2 _ _ Hinv Hc Hne) as (t2 & Hp2 & Hv2). rewrite Hr in Hv2. destruct Hv2 as (_ & Hd & _).
  unfold g_extensions in E. unfold p_bind at 1 in E. unfold p_peek_data_n in E. unfold p_bind at 1 in E.
  rewrite Hp2 in E. cbn [p_ret option_map] in E. rewrite Hd in E. cbn in E.
  eapply rl_err_and_pop_run; eauto.
Qed.

Lemma rgl_def_fragment_name r :
  rl_acc (rgl_definition LP) ((TkName, pkw_fragment) :: r) = rgl_fragment_rest r.
Proof.
  destruct r as [|[k w] r']; [reflexivity|]. destruct k; try reflexivity.
  unfold rgl_fragment_rest. unfold rg_seq at 1, rg_bind at 1. cbn [rg_sat]. unfold rg_is_fragname.
  cbn [rg_is fst snd tkind_eqb andb].
  unfold rl_acc, rgl_definition, rgl_exec_definition, rgl_fragment.
  change (rg_is_optype (TkName, pkw_fragment) || rg_streq rg_s_fragment pkw_fragment) with true. cbv iota.
  change (rg_is_kw rg_s_fragment (TkName, pkw_fragment)) with true. cbv iota. cbn [andb].
  destruct (rg_streq rg_s_on w); cbn [negb]; cbv iota.
  - reflexivity.
  - exact (eq_trans (rl_acc_ret (RgkFragment, Some w) (rgl_fragment_tail LP) r')
                    (eq_sym (rg_seq_assoc' _ _ _ r'))).
Qed.

Lemma rgl_def_optype w r : rg_is_optype (TkName, w) = true ->
  rl_acc (rgl_definition LP) ((TkName, w) :: r) = rgl_operation_p ((TkName, w) :: r).
Proof.
  intros H. rewrite <- (rgl_operation_acc _ _ H). unfold rl_acc, rgl_definition. rewrite H. cbn [orb].
  unfold rgl_exec_definition. destruct (rg_is_kw rg_s_fragment (TkName, w)) eqn:Hf; [|reflexivity].
  exfalso. unfold rg_is_kw in Hf. cbn [fst snd tkind_eqb andb] in Hf. apply rg_streq_eq in Hf. subst w. discriminate H.
Qed.
Lemma rgl_def_lcurly d r : rl_acc (rgl_definition LP) ((TkLCurly, d) :: r) = rgl_selset LP ((TkLCurly, d) :: r).
Proof. exact (rl_acc_ret (RgkOperation, None) (rgl_selset LP) ((TkLCurly, d) :: r)). Qed.

Theorem rl_select_definition f def s u s' :
  rl_ok s -> tr_ok (ps_rec s) -> g_select_definition def f s = POk (u, s') -> rl_dispatch def (rl_sigs s) ->
  rl_sound (rl_acc (rgl_definition LP)) s s' /\ rl_complete (rl_acc (rgl_definition LP)) s s'.
Proof.
  intros Hok Ht E Hd. pose proof Hok as [Hinv Ha]. destruct (rl_inv_cur _ Hinv) as (t & Hc & Hi & _).
  unfold g_select_definition in E.
  destruct (p_str_eqb def pkw_directive) eqn:K1.
  { apply p_str_eqb_eq in K1. subst def. rl_kw_def (rl_sim_directive_definition f) rgl_def_directive. }
  destruct (p_str_eqb def pkw_enum) eqn:K2.
  { apply p_str_eqb_eq in K2. subst def. rl_kw_def (rl_sim_enum_type_definition f) rgl_def_enum. }
  destruct (p_str_eqb def pkw_extend) eqn:K3.
  { apply p_str_eqb_eq in K3. subst def.
    destruct (rl_sigs s) as [|[k d] r] eqn:Es; [contradiction|]. destruct k; try contradiction; cbn [rl_dispatch] in Hd.
    - discriminate Hd.
    - subst d. eapply rl_extensions; eauto.
    - destruct r as [|[k2 d2] r2]; [discriminate Hd|]. destruct Hd as [<- Hok2].
      pose proof (rl_second_is_name _ _ Hok2 eq_refl) as ->.
      apply rl_post_dirty; [eapply rl_extensions_after_string; eauto|]. rewrite Es. reflexivity. }
  destruct (p_str_eqb def pkw_fragment) eqn:K4.
  { apply p_str_eqb_eq in K4. subst def.
    destruct (rl_sigs s) as [|[k d] r] eqn:Es; [contradiction|]. destruct k; try contradiction; cbn [rl_dispatch] in Hd.
    - discriminate Hd.
    - subst d. apply (rl_post_ext (rg_seq (rg_sat (rg_is_kw rg_s_fragment)) rgl_fragment_rest)).
      + rewrite Es, rgl_def_fragment_name. reflexivity.
      + apply (proj2 (rl_sim_fragment_definition f) s u s' E Hok Ht). rewrite Es. reflexivity.
    - (* a string, then `fragment`: not a Definition, and fragment_definition reports the string *)
      destruct r as [|[k2 d2] r2]; [discriminate Hd|]. destruct Hd as [<- Hok2].
      pose proof (rl_second_is_name _ _ Hok2 eq_refl) as ->.
      assert (Hk : tok_kind t = TkStringValue).
      { pose proof (rl_sigs_head _ _ Hinv Hc) as Hh. rewrite Es in Hh. destruct (tkind_eqb (tok_kind t) TkEof); [discriminate|].
        injection Hh as Hh1 _ _. congruence. }
      apply rl_post_dirty; [eapply rl_fragment_definition_after_string; eauto|]. rewrite Es. reflexivity. }
  destruct (p_str_eqb def pkw_input) eqn:K5.
  { apply p_str_eqb_eq in K5. subst def. rl_kw_def (rl_sim_input_object_type_definition f) rgl_def_input. }
  destruct (p_str_eqb def pkw_interface) eqn:K6.
  { apply p_str_eqb_eq in K6. subst def. rl_kw_def (rl_sim_interface_type_definition f) rgl_def_interface. }
  destruct (p_str_eqb def pkw_type) eqn:K7.
  { apply p_str_eqb_eq in K7. subst def. rl_kw_def (rl_sim_object_type_definition f) rgl_def_type. }
  destruct (p_str_eqb def pkw_query || p_str_eqb def pkw_mutation || p_str_eqb def pkw_subscription
            || p_str_eqb def pkw_lcurly) eqn:K8.
  { (* operation_definition decides by the kind of the first token *)
    destruct (proj2 (rl_sim_operation_definition f) s u s' E Hok Ht I) as [Hs Hcm].
    match type of Hs with rl_sound ?q _ _ => apply (rl_post_ext q); [|exact (conj Hs Hcm)] end. cbv beta.
    destruct (rl_sigs s) as [|[k d] r] eqn:Es; [contradiction|]. destruct k; try contradiction; cbn [rl_dispatch] in Hd.
    - symmetry. apply rgl_def_lcurly.
    - subst d. symmetry.
      destruct (rg_is_optype (TkName, def)) eqn:Hop; [apply rgl_def_optype; exact Hop|].
      (* a Name that reads `{` is not an operation type for either side *)
      rewrite rl_optype_view in Hop. apply orb_false_elim in Hop as [Hop H3]. apply orb_false_elim in Hop as [H1 H2].
      rewrite H1, H2, H3 in K8. cbn [orb] in K8. apply p_str_eqb_eq in K8. subst def. reflexivity.
    - destruct r as [|[k2 d2] r2].
      + subst def. discriminate K8.
      + destruct Hd as [<- Hok2]. symmetry. apply rgl_def_desc_no. intros ->.
        (* the second token reads query / mutation / subscription / `{` : none is a type-system keyword *)
        apply orb_prop in K8 as [K8|K8]; [apply orb_prop in K8 as [K8|K8]; [apply orb_prop in K8 as [K8|K8]|]|];
          apply p_str_eqb_eq in K8; subst def; split; reflexivity. }
  destruct (p_str_eqb def pkw_scalar) eqn:K9.
  { apply p_str_eqb_eq in K9. subst def. rl_kw_def (rl_sim_scalar_type_definition f) rgl_def_scalar. }
  destruct (p_str_eqb def pkw_schema) eqn:K10.
  { apply p_str_eqb_eq in K10. subst def. rl_kw_def (rl_sim_schema_definition f) rgl_def_schema. }
  destruct (p_str_eqb def pkw_union) eqn:K11.
  { apply p_str_eqb_eq in K11. subst def. rl_kw_def (rl_sim_union_type_definition f) rgl_def_union. }
  (* not the start of a definition *)
  apply rl_post_dirty; [eapply rl_err_and_pop_run; eauto|].
  apply orb_false_elim in K8 as [K8 KL]. apply orb_false_elim in K8 as [K8 KS]. apply orb_false_elim in K8 as [KQ KM].
  destruct (rl_sigs s) as [|[k d] r] eqn:Es; [contradiction|]. destruct k; try contradiction; cbn [rl_dispatch] in Hd.
  - subst def. discriminate KL.
  - subst d. unfold rl_acc, rgl_definition.
    assert (Hop : rg_is_optype (TkName, def) = false) by (rewrite rl_optype_view, KQ, KS, KM; reflexivity).
    rewrite Hop. rewrite (rg_streq_p rg_s_fragment), (rg_streq_p rg_s_extend).
    change rg_s_fragment with pkw_fragment. change rg_s_extend with pkw_extend. rewrite K4, K3. cbn [orb].
    rewrite rgl_ts_def_kw_none by assumption. reflexivity.
  - destruct r as [|[k2 d2] r2]; [subst def; reflexivity|]. destruct Hd as [<- Hok2].
    apply rgl_def_desc_no. intros ->. split.
    + rewrite rg_streq_p. exact K4.
    + apply rgl_ts_def_kw_none; assumption.
Qed.

(* ------------------------------------------------------------------ every definition of the relaxed grammar consumes a token *)
Ltac rl_nl known :=
  repeat first
    [ match goal with
      | |- rg_nolonger (rg_seq _ _) => apply rg_nolonger_seq
      | |- rg_nolonger (rg_opt _ _) => apply rg_nolonger_opt
      | |- rg_nolonger (rg_many _ _) => apply rg_nolonger_many
      | |- rg_nolonger (rg_peek _) => apply rg_nolonger_peek
      | |- rg_nolonger (rg_sat _) => apply rg_progress_nolonger, rg_progress_sat
      | |- rg_nolonger rg_name => apply rg_progress_nolonger, rg_progress_sat
      | |- rg_nolonger (rg_plus _ _) => apply rg_progress_nolonger, rg_progress_plus
      | |- rg_nolonger (rgl_directives _ _) => apply rgl_directives_nolonger
      end
    | known ].

Lemma rg_implements_nolonger : rg_nolonger rg_implements.
Proof. unfold rg_implements. rl_nl idtac. Qed.
Lemma rg_unionmembers_nolonger : rg_nolonger rg_unionmembers.
Proof. unfold rg_unionmembers. rl_nl idtac. Qed.
Lemma rg_dirlocs_nolonger : rg_nolonger rg_dirlocs.
Proof. unfold rg_dirlocs. rl_nl idtac. Qed.
Lemma rgl_selset_nolonger : rg_nolonger (rgl_selset LP).
Proof. intros ts r H. apply rg_progress_nolonger in H; [exact H|]. intros ts0 r0. apply (proj1 (rgl_sel_progress _)). Qed.
Lemma rgl_vardefs_nolonger : rg_nolonger (rgl_vardefs LP).
Proof. unfold rgl_vardefs. rl_nl ltac:(apply rgl_vardef_progress). Qed.
Lemma rgl_op_tail_nolonger : rg_nolonger (rgl_op_tail LP).
Proof. unfold rgl_op_tail. rl_nl ltac:(first [apply rgl_vardefs_nolonger|apply rgl_selset_nolonger]). Qed.
Lemma rgl_fragment_tail_nolonger : rg_nolonger (rgl_fragment_tail LP).
Proof. unfold rgl_fragment_tail. rl_nl ltac:(apply rgl_selset_nolonger). Qed.
Lemma rgl_rootops_nolonger : rg_nolonger (rgl_rootops LP).
Proof. unfold rgl_rootops. rl_nl ltac:(apply rgl_rootop_progress). Qed.
Lemma rgl_rootops0_nolonger : rg_nolonger (rgl_rootops0 LP).
Proof. unfold rgl_rootops0. rl_nl ltac:(apply rg_progress_nolonger, rgl_rootop_progress). Qed.
Lemma rgl_argsdef_nolonger : rg_nolonger (rgl_argsdef LP).
Proof. unfold rgl_argsdef. rl_nl ltac:(apply rgl_inputvaldef_progress). Qed.
Lemma rgl_fieldsdef_nolonger : rg_nolonger (rgl_fieldsdef LP).
Proof. unfold rgl_fieldsdef. rl_nl ltac:(apply rgl_fielddef_progress). Qed.
Lemma rgl_inputfieldsdef_nolonger : rg_nolonger (rgl_inputfieldsdef LP).
Proof. unfold rgl_inputfieldsdef. rl_nl ltac:(apply rgl_inputvaldef_progress). Qed.
Lemma rgl_enumvalsdef_nolonger : rg_nolonger (rgl_enumvalsdef LP).
Proof. unfold rgl_enumvalsdef. rl_nl ltac:(apply rgl_enumvaldef_progress). Qed.
Lemma rgl_schema_tail_nolonger : rg_nolonger (rgl_schema_tail LP).
Proof. unfold rgl_schema_tail. rl_nl ltac:(apply rgl_rootops_nolonger). Qed.
Lemma rgl_object_tail_nolonger : rg_nolonger (rgl_object_tail LP).
Proof. unfold rgl_object_tail. rl_nl ltac:(first [apply rg_implements_nolonger|apply rgl_fieldsdef_nolonger]). Qed.
Lemma rgl_union_tail_nolonger : rg_nolonger (rgl_union_tail LP).
Proof. unfold rgl_union_tail. rl_nl ltac:(apply rg_unionmembers_nolonger). Qed.
Lemma rgl_enum_tail_nolonger : rg_nolonger (rgl_enum_tail LP).
Proof. unfold rgl_enum_tail. rl_nl ltac:(apply rgl_enumvalsdef_nolonger). Qed.
Lemma rgl_input_tail_nolonger : rg_nolonger (rgl_input_tail LP).
Proof. unfold rgl_input_tail. rl_nl ltac:(apply rgl_inputfieldsdef_nolonger). Qed.
Lemma rgl_dirdef_tail_nolonger : rg_nolonger (rgl_dirdef_tail LP).
Proof. unfold rgl_dirdef_tail. rl_nl ltac:(first [apply rgl_argsdef_nolonger|apply rg_dirlocs_nolonger]). Qed.
Lemma rgl_schema_ext_tail_nolonger : rg_nolonger (rgl_schema_ext_tail LP).
Proof.
  assert (H1 : rg_nolonger (rg_seq (rgl_directives LP true) (rg_opt (rg_is TkLCurly) (rgl_rootops0 LP))))
    by (rl_nl ltac:(apply rgl_rootops0_nolonger)).
  assert (H2 : rg_nolonger (rg_seq (rg_peek (rg_is_at_or TkLCurly))
                 (rg_seq (rgl_directives LP true) (rg_opt (rg_is TkLCurly) (rgl_rootops LP)))))
    by (rl_nl ltac:(apply rgl_rootops_nolonger)).
  intros ts r. unfold rgl_schema_ext_tail. destruct (_ && _); [apply H1|apply H2].
Qed.

Definition rg_dnolonger (d : rg_dp) : Prop := forall ts x, d ts = RgOk x -> (length (snd x) <= length ts)%nat.
Lemma rg_dnolonger_ret x p : rg_nolonger p -> rg_dnolonger (rg_ret x p).
Proof.
  intros Hp ts y. unfold rg_ret, rg_bind. destruct (p ts) as [r| |] eqn:E; try discriminate. intros [= <-]. cbn.
  exact (Hp _ _ E).
Qed.
Lemma rg_dnolonger_named k p : rg_nolonger p -> rg_dnolonger (rg_named k p).
Proof.
  intros Hp ts y. unfold rg_named. destruct ts as [|[[] w] r]; try discriminate. intros H.
  apply (rg_dnolonger_ret _ _ Hp) in H. change (length ((TkName, w) :: r)) with (S (length r)). lia.
Qed.

Definition rg_dprogress (d : rg_dp) : Prop := forall ts x, d ts = RgOk x -> (length (snd x) < length ts)%nat.

Lemma rgl_ts_def_kw_progress : rg_dprogress (rgl_ts_def_kw LP).
Proof.
  intros ts x. unfold rgl_ts_def_kw. destruct ts as [|[k w] r]; [discriminate|]. destruct k; try discriminate.
  assert (Hn : forall (d : rg_dp), rg_dnolonger d -> d r = RgOk x -> (length (snd x) < length ((TkName, w) :: r))%nat).
  { intros d Hd H. apply Hd in H. change (length ((TkName, w) :: r)) with (S (length r)). lia. }
  repeat match goal with |- context [if rg_streq ?a ?b then _ else _] => destruct (rg_streq a b) end; try discriminate.
  - apply Hn, rg_dnolonger_ret, rgl_schema_tail_nolonger.
  - apply Hn, rg_dnolonger_named. unfold rgl_scalar_tail. apply rgl_directives_nolonger.
  - apply Hn, rg_dnolonger_named, rgl_object_tail_nolonger.
  - apply Hn, rg_dnolonger_named, rgl_object_tail_nolonger.
  - apply Hn, rg_dnolonger_named, rgl_union_tail_nolonger.
  - apply Hn, rg_dnolonger_named, rgl_enum_tail_nolonger.
  - apply Hn, rg_dnolonger_named, rgl_input_tail_nolonger.
  - destruct r as [|[k2 w2] r2]; [discriminate|]. destruct k2; try discriminate. intros H.
    apply (rg_dnolonger_named _ _ rgl_dirdef_tail_nolonger) in H.
    change (length ((TkName, w) :: (TkAt, w2) :: r2)) with (S (S (length r2))). lia.
Qed.

Lemma rgl_ts_ext_kw_progress : rg_dprogress (rgl_ts_ext_kw LP).
Proof.
  intros ts x. unfold rgl_ts_ext_kw. destruct ts as [|[k w] r]; [discriminate|]. destruct k; try discriminate.
  assert (Hn : forall (d : rg_dp), rg_dnolonger d -> d r = RgOk x -> (length (snd x) < length ((TkName, w) :: r))%nat).
  { intros d Hd H. apply Hd in H. change (length ((TkName, w) :: r)) with (S (length r)). lia. }
  repeat match goal with |- context [if rg_streq ?a ?b then _ else _] => destruct (rg_streq a b) end; try discriminate.
  - apply Hn, rg_dnolonger_ret, rgl_schema_ext_tail_nolonger.
  - apply Hn, rg_dnolonger_named. unfold rgl_scalar_tail. rl_nl idtac.
  - apply Hn, rg_dnolonger_named. rl_nl ltac:(apply rgl_object_tail_nolonger).
  - apply Hn, rg_dnolonger_named. rl_nl ltac:(apply rgl_object_tail_nolonger).
  - apply Hn, rg_dnolonger_named. rl_nl ltac:(apply rgl_union_tail_nolonger).
  - apply Hn, rg_dnolonger_named. rl_nl ltac:(apply rgl_enum_tail_nolonger).
  - apply Hn, rg_dnolonger_named. rl_nl ltac:(apply rgl_input_tail_nolonger).
Qed.

Lemma rg_dprogress_ret y p : rg_progress p -> rg_dprogress (rg_ret y p).
Proof.
  intros Hp ts z. unfold rg_ret, rg_bind. destruct (p ts) as [r| |] eqn:E; try discriminate.
  intros H. injection H as <-. cbn [snd]. exact (Hp _ _ E).
Qed.
Lemma rg_dprogress_le d ts x n : rg_dprogress d -> d ts = RgOk x -> (length ts <= n)%nat -> (length (snd x) < n)%nat.
Proof. intros Hd H Hn. apply Hd in H. lia. Qed.

(* every Definition of the relaxed grammar consumes at least one token *)
Theorem rgl_definition_progress : rg_dprogress (rgl_definition LP).
Proof.
  intros ts x. unfold rgl_definition. destruct ts as [|[k w] r0]; [discriminate|].
  assert (Hlen : length ((k, w) :: r0) = S (length r0)) by reflexivity.
  (* results obtained on the tail r0 (or on something no longer than it) are strictly shorter than the input *)
  assert (Htail : forall (p : rg_p) y rr, rg_nolonger p -> (length rr <= length r0)%nat -> rg_ret y p rr = RgOk x ->
            (length (snd x) < length ((k, w) :: r0))%nat).
  { intros p y rr Hp Hrr H. apply (rg_dnolonger_ret _ _ Hp) in H. rewrite Hlen. lia. }
  destruct k; try discriminate.
  - (* `{` : an anonymous operation; the selection set consumes the brace itself *)
    unfold rgl_operation. apply rg_dprogress_ret. intros ts0 r1. apply (proj1 (rgl_sel_progress _)).
  - (* a Name *)
    destruct (rg_is_optype (TkName, w) || rg_streq rg_s_fragment w) eqn:Hex.
    + unfold rgl_exec_definition. destruct (rg_is_kw rg_s_fragment (TkName, w)).
      * unfold rgl_fragment. destruct r0 as [|[k2 w2] r']; [discriminate|]. destruct k2; try discriminate.
        destruct (_ && _); [|discriminate]. intros H.
        apply (rg_dnolonger_ret _ _ rgl_fragment_tail_nolonger) in H.
        change (length ((TkName, w) :: (TkName, w2) :: r')) with (S (S (length r'))). lia.
      * unfold rgl_operation. destruct (rg_is_optype (TkName, w)); [|discriminate].
        destruct r0 as [|[k2 w2] r']; [apply (Htail _ _ [] rgl_op_tail_nolonger); cbn; lia|].
        destruct k2; try (apply (Htail _ _ _ rgl_op_tail_nolonger); lia).
        apply (Htail _ _ r' rgl_op_tail_nolonger). cbn [length]. lia.
    + destruct (rg_streq rg_s_extend w).
      * intros H. apply rgl_ts_ext_kw_progress in H. change (length ((TkName, w) :: r0)) with (S (length r0)). lia.
      * apply rgl_ts_def_kw_progress.
  - (* a description *)
    unfold rgl_desc_then.
    assert (Hdef : rgl_ts_def_kw LP r0 = RgOk x -> (length (snd x) < length ((TkStringValue, w) :: r0))%nat).
    { intros H. apply rgl_ts_def_kw_progress in H. change (length ((TkStringValue, w) :: r0)) with (S (length r0)). lia. }
    (* rgl_desc_fragment is off in rgl_parser: a string followed by `fragment` is a type-system keyword lookup too *)
    destruct r0 as [|[k2 w2] r']; [exact Hdef|]. destruct k2; exact Hdef.
Qed.

(* ------------------------------------------------------------------ document.rs: one step of the definition loop *)
Lemma rl_gen_document_step f k : rl_gen (g_document_step f k).
Proof. split; [apply (gg_document_step CT CT_ok)|apply (gg_document_step CX CX_ok)]. Qed.

Lemma rl_document_step f s b s' t :
  rl_ok s -> tr_ok (ps_rec s) -> ps_cur s = Some t -> g_document_step f (tok_kind t) s = POk (b, s') ->
  (tok_kind t = TkEof -> b = false /\ s' = s) /\
  (tok_kind t <> TkEof -> b = true /\
     rl_sound (rl_acc (rgl_definition LP)) s s' /\ rl_complete (rl_acc (rgl_definition LP)) s s').
Proof.
  intros Hok Ht Hc E. pose proof Hok as [Hinv Ha]. pose proof (rl_sigs_head _ _ Hinv Hc) as Hhead.
  assert (Hi : p_is_ignored_kind (tok_kind t) = false).
  { destruct Hinv as [(t' & Hc' & Hi') _]. rewrite Hc in Hc'. injection Hc' as <-. exact Hi'. }
  unfold g_document_step in E.
  destruct (tok_kind t) eqn:Hk; try (cbn in Hi; discriminate Hi); cbn [tkind_eqb] in Hhead;
    (split; [intros Heq; try discriminate Heq|intros Hneq; try (exfalso; apply Hneq; reflexivity)]).
  all: try (apply bind_ok in E as (? & s1 & E1 & E); unfold p_ret in E; injection E as <- <-; split; [reflexivity|];
            apply rl_post_dirty; [eapply rl_err_and_pop_run; eauto|rewrite Hhead; reflexivity]).
  - (* `{` *)
    unfold p_bind at 1 in E. rewrite (peek_data_some t s Hc) in E.
    apply bind_ok in E as (? & s1 & E1 & E). unfold p_ret in E. injection E as <- <-. split; [reflexivity|].
    assert (Hne : tok_kind t <> TkEof) by congruence.
    destruct (rl_sigs_tok _ _ Hinv Hc Hne) as (_ & Hokt & _). rewrite Hk in Hokt. cbn [rl_tok_ok] in Hokt.
    apply p_str_eqb_eq in Hokt. eapply rl_select_definition; eauto. rewrite Hhead. cbn. exact Hokt.
  - (* end of input *)
    unfold p_ret in E. injection E as <- <-. auto.
  - (* a Name *)
    unfold p_bind at 1 in E. rewrite (peek_data_some t s Hc) in E.
    apply bind_ok in E as (? & s1 & E1 & E). unfold p_ret in E. injection E as <- <-. split; [reflexivity|].
    eapply rl_select_definition; eauto. rewrite Hhead. reflexivity.
  - (* a string: the dispatch looks at the token after it *)
    assert (Hne : tok_kind t <> TkEof) by congruence.
    destruct (rl_peek_token_n2 _ _ Hinv Hc Hne) as (t2 & Hp2 & Hv2).
    unfold p_bind at 1 in E. unfold p_peek_data_n in E. unfold p_bind at 1 in E. rewrite Hp2 in E.
    cbn [p_ret option_map] in E.
    apply bind_ok in E as (? & s1 & E1 & E). unfold p_ret in E. injection E as <- <-. split; [reflexivity|].
    eapply rl_select_definition; eauto. rewrite Hhead.
    destruct (rl_sig (ps_items s)) as [|[k2 d2] r2]; cbn [rl_dispatch].
    + exact (proj2 Hv2).
    + destruct Hv2 as (_ & Hd & _ & Hok2). auto.
Qed.

(* ------------------------------------------------------------------ the definition loop *)
Definition g_doc_step (f : nat) (kind : tkind) : PM bool := g_assert_recursion_balanced ;; g_document_step f kind.

Lemma rl_gen_assert : rl_gen g_assert_recursion_balanced.
Proof. split; [apply (a_assert _ CT_atoms)|apply (a_assert _ CX_atoms)]. Qed.
Lemma rl_gen_doc_step f k : rl_gen (g_doc_step f k).
Proof. apply rl_gen_bind; [apply rl_gen_assert|intros _; apply rl_gen_document_step]. Qed.
Lemma rl_gen_doc_loop f lf u :
  rl_gen (p_peek_while_acc lf (fun (_ : unit) k => c <- g_doc_step f k ;; p_ret (tt, c)) u).
Proof.
  split.
  - eapply specR_spec; [apply CT_rel|]. apply (gg_peek_while_acc CT CT_ok). intros a0 k0.
    eapply post_bind; [apply CT_rel|apply (rl_gen_doc_step f k0)|intros; apply post_ret_same; apply CT_rel].
  - eapply specR_spec; [apply CX_rel|]. apply (gg_peek_while_acc CX CX_ok). intros a0 k0.
    eapply post_bind; [apply CX_rel|apply (rl_gen_doc_step f k0)|intros; apply post_ret_same; apply CX_rel].
Qed.

Lemma rl_assert_run s u s' : g_assert_recursion_balanced s = POk (u, s') -> s' = s.
Proof. unfold g_assert_recursion_balanced. destruct (_ =? _); [|discriminate]. intros H. injection H as _ H. auto. Qed.

Lemma rl_acc_ok (d : rg_dp) ts r : rl_acc d ts = RgOk r <-> exists x, d ts = RgOk (x, r).
Proof.
  unfold rl_acc, rg_bind. destruct (d ts) as [[x r0]| |]; split; try discriminate.
  - intros [= <-]. eauto.
  - intros (y & [= <- <-]). reflexivity.
  - intros (y & H). discriminate.
  - intros (y & H). discriminate.
Qed.

Lemma rl_document_loop f : forall lf (u : unit) s (u0 : unit) s',
  p_peek_while_acc lf (fun (_ : unit) k => c <- g_doc_step f k ;; p_ret (tt, c)) u s = POk (u0, s') ->
  rl_ok s -> tr_ok (ps_rec s) -> forall n, (length (rl_sigs s) <= n)%nat ->
  (ps_errors s' = ps_errors s -> exists ds, rg_defs_f n (rgl_definition LP) (rl_sigs s) = RgOk ds) /\
  (rl_roomy s -> forall ds, rg_defs_f n (rgl_definition LP) (rl_sigs s) = RgOk ds -> ps_errors s' = ps_errors s).
Proof.
  induction lf as [|lf IH]; intros u s u0 s' E Hok Ht n Hn; [discriminate|].
  pose proof Hok as [Hinv Ha]. destruct (rl_inv_cur _ Hinv) as (t & Hc & Hi & _).
  destruct (rl_peek_while_acc_unroll _ _ _ _ _ _ _ Hc E) as ([] & cont & s1 & E1 & E2).
  apply bind_ok in E1 as (b & s2 & E1 & E3). unfold p_ret in E3. injection E3 as Hb Hs2. subst b s2.
  unfold g_doc_step in E1. apply bind_ok in E1 as (? & s0 & Ea & E1). apply rl_assert_run in Ea. subst s0.
  destruct (rl_document_step f s cont s1 t Hok Ht Hc E1) as [Heof Hdef].
  destruct (tkind_eqb (tok_kind t) TkEof) eqn:Hk.
  - (* the end of the document *)
    apply tkind_eqb_eq in Hk. destruct (Heof Hk) as [-> ->]. destruct E2 as [_ ->].
    rewrite (rl_sigs_eof _ _ Hinv Hc Hk). destruct n; cbn [rg_defs_f]; split; eauto.
  - assert (Hne : tok_kind t <> TkEof) by (intros H; apply tkind_eqb_eq in H; congruence).
    destruct (Hdef Hne) as (-> & Hs1 & Hc1).
    destruct (rl_gen_run _ _ _ _ (rl_gen_document_step f (tok_kind t)) E1 Ht) as (Ht1 & Hcur1 & Hlim1 & Hx1).
    destruct (rl_gen_run _ _ _ _ (rl_gen_doc_loop f lf tt) E2 Ht1) as (_ & _ & _ & Hx2).
    destruct (rl_sigs_tok _ _ Hinv Hc Hne) as (Hsig & _ & _).
    unfold rl_sound, rl_complete in Hs1, Hc1. split.
    + intros He. destruct (rl_ext_split _ _ _ Hx1 Hx2 He) as [He1 He2].
      destruct (Hs1 He1) as (Hok1 & [pre1 Hpre1] & Hq1). apply rl_acc_ok in Hq1 as (d & Hq1).
      pose proof (rgl_definition_progress _ _ Hq1) as Hlt. cbn [snd] in Hlt.
      destruct n as [|n]; [lia|]. assert (Hn1 : (length (rl_sigs s1) <= n)%nat) by lia.
      destruct (IH _ _ _ _ E2 Hok1 Ht1 n Hn1) as [Hs2 _]. destruct (Hs2 He2) as (ds & Hds).
      exists (d :: ds). rewrite Hsig in Hq1 |- *. cbn [rg_defs_f]. rewrite Hq1. cbn [rg_bind snd fst]. rewrite Hds. reflexivity.
    + intros Hr ds Hq. rewrite Hsig in Hq. destruct n as [|n]; [discriminate|]. cbn [rg_defs_f] in Hq.
      unfold rg_bind in Hq at 1.
      destruct (rgl_definition LP ((tok_kind t, tok_data t) :: rl_sig (ps_items s))) as [[d r1]| |] eqn:Eq1; try discriminate.
      cbn [snd fst] in Hq.
      destruct (rg_defs_f n (rgl_definition LP) r1) as [ds'| |] eqn:Eq2; try discriminate.
      rewrite <- Hsig in Eq1.
      assert (Hacc : rl_acc (rgl_definition LP) (rl_sigs s) = RgOk r1) by (apply rl_acc_ok; eauto).
      destruct (Hc1 Hr r1 Hacc) as [He1 Hr1]. destruct (Hs1 He1) as (Hok1 & [pre1 Hpre1] & _).
      pose proof (rgl_definition_progress _ _ Eq1) as Hlt. cbn [snd] in Hlt.
      assert (Hn1 : (length (rl_sigs s1) <= n)%nat) by (rewrite Hr1; lia).
      destruct (IH _ _ _ _ E2 Hok1 Ht1 n Hn1) as [_ Hc2].
      assert (Hroom1 : rl_roomy s1) by (eapply rl_roomy_step; eauto).
      rewrite <- Hr1 in Eq2. rewrite (Hc2 Hroom1 ds' Eq2). exact He1.
Qed.

(* ------------------------------------------------------------------ Parser::parse from the initial state *)
Theorem rl_document_entry f dbg rl items u s' : rl_stream items ->
  g_document f (p_init_state dbg rl items) = POk (u, s') ->
  (ps_errors s' = [] -> exists ds, rg_document_r (rgl_definition LP) (rl_sig items) = RgOk ds) /\
  (rl_weight (rl_sig items) < rl ->
   forall ds, rg_document_r (rgl_definition LP) (rl_sig items) = RgOk ds -> ps_errors s' = []).
Proof.
  intros Hstr E. rewrite g_document_unfold in E. unfold p_node in E. apply bind_ok in E as (? & s1 & E1 & E).
  destruct (rl_start_node_init _ _ _ _ _ _ Hstr E1) as (Hok1 & Hsig1 & He1 & Hr1).
  apply bind_ok in E as (? & s9 & E & Ef). apply bind_ok in Ef as (? & s10 & Ef & Er). unfold p_ret in Er.
  injection Er as _ <-. apply rl_finish_node_obs in Ef. destruct Ef as (_ & _ & Hef & _). rewrite Hef. clear Hef.
  assert (Ht1 : tr_ok (ps_rec s1)) by (rewrite Hr1; unfold tr_ok; cbn; lia).
  pose proof Hok1 as [Hinv1 Ha1]. destruct (rl_inv_cur _ Hinv1) as (t & Hc1 & Hi1 & _).
  unfold p_bind at 1 in E. rewrite (peek_some t s1 Hc1) in E.
  apply bind_ok in E as (? & s2 & E2 & E). apply bind_ok in E as (? & s3 & E3 & E4).
  apply rl_push_ignored_obs in E4. destruct E4 as (_ & _ & He4 & _). rewrite He4. clear He4.
  unfold p_peek_while in E3. apply bind_ok in E3 as (u3 & s3' & E3 & Er). unfold p_ret in Er. injection Er as _ ->.
  rewrite <- Hsig1.
  assert (Hroomy : rl_weight (rl_sigs s1) < rl -> rl_roomy s1).
  { intros Hw. unfold rl_roomy. rewrite Hr1. cbn. lia. }
  destruct (tkind_eqb (tok_kind t) TkEof) eqn:Hk.
  - (* an empty document is an error *)
    apply tkind_eqb_eq in Hk. rewrite Hk in E2. cbn [p_when] in E2.
    pose proof (rl_err_run _ _ _ Hok1 E2) as Hd.
    assert (Hx2 : rl_ext s1 s2) by exact (proj2 (post_returns _ _ _ _ (proj2 rl_gen_err) s1 I _ _ E2)).
    assert (Ht2 : tr_ok (ps_rec s2)) by exact (proj1 (rl_gen_run _ _ _ _ rl_gen_err E2 Ht1)).
    destruct (rl_gen_run _ _ _ _ (rl_gen_doc_loop f f tt) E3 Ht2) as (_ & _ & _ & Hx3).
    rewrite (rl_sigs_eof _ _ Hinv1 Hc1 Hk). split.
    + intros He. exfalso. apply Hd. assert (He' : ps_errors s3 = ps_errors s1) by congruence.
      exact (proj1 (rl_ext_split _ _ _ Hx2 Hx3 He')).
    + intros _ ds Hq. discriminate Hq.
  - assert (Hne : tok_kind t <> TkEof) by (intros H; apply tkind_eqb_eq in H; congruence).
    assert (Hw : match tok_kind t with TkEof => true | _ => false end = false) by (destruct (tok_kind t); try reflexivity; contradiction).
    rewrite Hw in E2. cbn [p_when] in E2. unfold p_ret in E2. injection E2 as _ <-.
    destruct (rl_document_loop f f _ _ _ _ E3 Hok1 Ht1 (length (rl_sigs s1)) (le_n _)) as [Hs Hc].
    destruct (rl_sigs_tok _ _ Hinv1 Hc1 Hne) as (Hsig & _ & _).
    assert (Hdoc : rg_document_r (rgl_definition LP) (rl_sigs s1)
                   = rg_defs_f (length (rl_sigs s1)) (rgl_definition LP) (rl_sigs s1)).
    { rewrite Hsig. reflexivity. }
    rewrite Hdoc. split.
    + intros He. apply Hs. congruence.
    + intros Hwt ds Hq. rewrite (Hc (Hroomy Hwt) ds Hq). exact He1.
Qed.
