(* Outcomes of modelled Rust code: a value, a panic (with the site that panicked), or fuel exhaustion
   (a loop/recursion bound of the model was hit: excluded by the termination theorems, never a default). *)
From ApolloVerif Require Import Base.Chars.

(* the panic sites of the parser *)
Inductive pwhy :=
| PnPopFinished            (* Parser::pop: .expect("Could not pop a token from the lexer") *)
| PnPushIgnoredUnreachable (* Parser::push_ignored: unreachable!() on a non-ignored pending token *)
| PnBuilderFinishNode      (* rowan GreenNodeBuilder::finish_node: parents.pop().unwrap() / drain out of range *)
| PnBuilderCheckpointLen   (* start_node_at: assert!(checkpoint <= children.len()) *)
| PnBuilderCheckpointParent(* start_node_at: assert!(checkpoint >= first_child) *)
| PnBuilderFinish          (* finish: assert_eq!(children.len(), 1) / root is a token *)
| PnRecUnbalanced          (* document: assert_eq!(p.recursion_limit.current, 0) *)
| PnRecUnderflow           (* LimitTracker::decrement: usize underflow (debug: panic; release: wrap) *)
| PnNameSlice              (* name::validate_name: name[1..] off a char boundary *)
| PnPeekNZero              (* peek_n_inner: n - 1 with n = 0 *)
| PnDebugAssert.           (* peek_while / peek_while_kind: debug_assert!(before != current_token) *)

Inductive poutcome (A : Type) :=
| POk (a : A)
| PPanic (why : pwhy)
| POutOfFuel.
Arguments POk {A} a.
Arguments PPanic {A} why.
Arguments POutOfFuel {A}.

Definition p_is_ok {A} (o : poutcome A) : bool := match o with POk _ => true | _ => false end.
Definition p_is_panic {A} (o : poutcome A) : bool := match o with PPanic _ => true | _ => false end.

Definition p_omap {A B} (f : A -> B) (o : poutcome A) : poutcome B :=
  match o with POk a => POk (f a) | PPanic w => PPanic w | POutOfFuel => POutOfFuel end.
Definition p_obind {A B} (o : poutcome A) (f : A -> poutcome B) : poutcome B :=
  match o with POk a => f a | PPanic w => PPanic w | POutOfFuel => POutOfFuel end.
