(* Outcomes of modelled Rust code: a value, a panic (with the site that panicked), or fuel exhaustion
   (a loop/recursion bound of the model was hit: excluded by the termination theorems, never a default). *)
From ApolloVerif Require Import Base.Chars.

(* the panic sites of the parser *)
Inductive pwhy :=
| PopFinished            (* Parser::pop: .expect("Could not pop a token from the lexer") *)
| PushIgnoredUnreachable (* Parser::push_ignored: unreachable!() on a non-ignored pending token *)
| BuilderFinishNode      (* rowan GreenNodeBuilder::finish_node: parents.pop().unwrap() / drain out of range *)
| BuilderCheckpointLen   (* start_node_at: assert!(checkpoint <= children.len()) *)
| BuilderCheckpointParent(* start_node_at: assert!(checkpoint >= first_child) *)
| BuilderFinish          (* finish: assert_eq!(children.len(), 1) / root is a token *)
| RecUnbalanced          (* document: assert_eq!(p.recursion_limit.current, 0) *)
| RecUnderflow           (* LimitTracker::decrement: usize underflow (debug: panic; release: wrap) *)
| NameSlice              (* name::validate_name: name[1..] off a char boundary *)
| PeekNZero              (* peek_n_inner: n - 1 with n = 0 *)
| DebugAssert.           (* peek_while / peek_while_kind: debug_assert!(before != current_token) *)

Inductive outcome (A : Type) :=
| Ok (a : A)
| Panic (why : pwhy)
| OutOfFuel.
Arguments Ok {A} a.
Arguments Panic {A} why.
Arguments OutOfFuel {A}.

Definition is_ok {A} (o : outcome A) : bool := match o with Ok _ => true | _ => false end.
Definition is_panic {A} (o : outcome A) : bool := match o with Panic _ => true | _ => false end.

Definition omap {A B} (f : A -> B) (o : outcome A) : outcome B :=
  match o with Ok a => Ok (f a) | Panic w => Panic w | OutOfFuel => OutOfFuel end.
Definition obind {A B} (o : outcome A) (f : A -> outcome B) : outcome B :=
  match o with Ok a => f a | Panic w => Panic w | OutOfFuel => OutOfFuel end.
