(* Outcomes of modelled Rust code: a g_value, a p_panic (with the site that panicked), or fuel exhaustion
   (a loop/recursion bound of the model was hit: excluded by the termination theorems, never a default). *)
From ApolloVerif Require Import Base.Chars.

(* the p_panic sites of the parser *)
Inductive pwhy :=
| PnPopFinished            (* Parser::p_pop: .expect("Could not p_pop a token from the lexer") *)
| PnPushIgnoredUnreachable (* Parser::p_push_ignored: unreachable!() on a non-ignored pending token *)
| PnBuilderFinishNode      (* rowan GreenNodeBuilder::p_finish_node: parents.pop().unwrap() / drain out of range *)
| PnBuilderCheckpointLen   (* start_node_at: assert!(checkpoint <= children.len()) *)
| PnBuilderCheckpointParent(* start_node_at: assert!(checkpoint >= first_child) *)
| PnBuilderFinish          (* p_finish: assert_eq!(children.len(), 1) / root is a token *)
| PnRecUnbalanced          (* g_document: assert_eq!(p.recursion_limit.current, 0) *)
| PnRecUnderflow           (* LimitTracker::decrement: usize underflow (debug: p_panic; release: wrap) *)
| PnNameSlice              (* g_name::g_validate_name: g_name[1..] off a char boundary *)
| PnPeekNZero              (* p_peek_n_inner: n - 1 with n = 0 *)
| PnDebugAssert.           (* p_peek_while / p_peek_while_kind: debug_assert!(before != current_token) *)

Inductive poutcome (A : Type) :=
| POk (a : A)
| PPanic (why : pwhy)
| POutOfFuel.
Arguments POk {A} a.
Arguments PPanic {A} why.
Arguments POutOfFuel {A}.

Definition p_is_ok {A} (o : poutcome A) : bool := match o with POk _ => true | _ => false end.
Definition p_is_panic {A} (o : poutcome A) : bool := match o with PPanic _ => true | _ => false end.

Definition p_omap {A B} (f : A -> B) (o : poutcome A) : poutcome B :=
  match o with POk a => POk (f a) | PPanic w => PPanic w | POutOfFuel => POutOfFuel end.
Definition p_obind {A B} (o : poutcome A) (f : A -> poutcome B) : poutcome B :=
  match o with POk a => f a | PPanic w => PPanic w | POutOfFuel => POutOfFuel end.
