(* C05 — the reference recogniser is the grammar, executable sub-language:
   Arguments, Directives, VariableDefinitions, SelectionSet / Selection / Field / FragmentSpread / InlineFragment,
   OperationDefinition, FragmentDefinition, ExecutableDocument.
   Per production: soundness, completeness under the follow condition stated in the lemma, no out-of-fuel. *)
From ApolloVerif Require Import Base.Chars Lex.Item Parse.RefGrammar Parse.RefLib Parse.RefSpec
  Parse.RefProofsValue.

(* closes a goal `forall l, rg_starts f l -> G l` where G is a conjunction of rg_nh / rg_true *)
Ltac rg_follow :=
  let t := fresh "t" in let l := fresh "l" in let H := fresh "H" in
  intros [|t l] H; [contradiction|]; cbn [rg_starts rg_nh] in *; unfold rg_true; repeat split; rg_kinds.

Lemma rg_first_name : rg_first RgName (rg_is TkName).
Proof. apply rg_first_tok. Qed.

(* ---- Argument, Arguments ---- *)
Lemma rg_argument_sound c : rg_sound (rg_argument c) (RgArgument c).
Proof.
  apply rg_sound_seq; [apply rg_sound_sat|]. apply rg_sound_seq; [apply rg_sound_sat|apply rg_value_sound].
Qed.
Lemma rg_argument_complete c F : rg_complete (rg_argument c) (RgArgument c) F.
Proof.
  apply (rg_complete_seq _ _ _ _ rg_true); [apply rg_complete_sat| |easy].
  apply (rg_complete_seq _ _ _ _ rg_true); [apply rg_complete_sat|apply rg_value_complete|easy].
Qed.
Lemma rg_argument_first c : rg_first (RgArgument c) (rg_is TkName).
Proof. apply rg_first_seq, rg_first_tok. Qed.
Lemma rg_argument_noout c : rg_noout (rg_argument c).
Proof.
  apply rg_noout_seq; [apply rg_noout_sat|]. apply rg_noout_seq; [apply rg_noout_sat|apply rg_value_noout].
Qed.

Lemma rg_arguments_sound c : rg_sound (rg_arguments c) (RgArguments c).
Proof.
  apply rg_sound_seq; [apply rg_sound_sat|]. apply rg_sound_seq; [|apply rg_sound_sat].
  apply rg_sound_plus, rg_argument_sound.
Qed.
Lemma rg_arguments_complete c F : rg_complete (rg_arguments c) (RgArguments c) F.
Proof.
  apply (rg_complete_seq _ _ _ _ rg_true); [apply rg_complete_sat| |easy].
  eapply rg_complete_seq; [|apply rg_complete_sat|].
  - apply (rg_complete_plus _ _ _ rg_true); [apply rg_argument_complete|apply rg_argument_first|easy].
  - apply (rg_follow_intro1 _ (rg_is TkRParen)); [apply rg_first_tok|]. rg_follow.
Qed.
Lemma rg_arguments_first c : rg_first (RgArguments c) (rg_is TkLParen).
Proof. apply rg_first_seq, rg_first_tok. Qed.
Lemma rg_arguments_noout c : rg_noout (rg_arguments c).
Proof.
  apply rg_noout_seq; [apply rg_noout_sat|]. apply rg_noout_seq; [|apply rg_noout_sat].
  eapply rg_noout_plus; [apply rg_argument_sound|apply rg_argument_first|apply rg_argument_noout].
Qed.

(* ---- Directive, Directives? ---- *)
Lemma rg_directive_sound c : rg_sound (rg_directive c) (RgDirective c).
Proof.
  apply rg_sound_seq; [apply rg_sound_sat|]. apply rg_sound_seq; [apply rg_sound_sat|].
  apply rg_sound_opt, rg_arguments_sound.
Qed.
(* follow: the next token is not `(` *)
Lemma rg_directive_complete c : rg_complete (rg_directive c) (RgDirective c) (rg_nh (rg_is TkLParen)).
Proof.
  apply (rg_complete_seq _ _ _ _ rg_true); [apply rg_complete_sat| |easy].
  apply (rg_complete_seq _ _ _ _ rg_true); [apply rg_complete_sat| |easy].
  eapply rg_complete_ext; [intros l H; exact H| |apply rg_complete_opt].
  - intros r Hr. split; [exact I|exact Hr].
  - apply rg_arguments_complete.
  - apply rg_arguments_first.
Qed.
Lemma rg_directive_first c : rg_first (RgDirective c) (rg_is TkAt).
Proof. apply rg_first_seq, rg_first_tok. Qed.
Lemma rg_directive_noout c : rg_noout (rg_directive c).
Proof.
  apply rg_noout_seq; [apply rg_noout_sat|]. apply rg_noout_seq; [apply rg_noout_sat|].
  apply rg_noout_opt, rg_arguments_noout.
Qed.

Lemma rg_directives_sound c : rg_sound (rg_directives c) (RgDirectivesOpt c).
Proof. apply rg_sound_many, rg_directive_sound. Qed.
(* follow of Directives? : neither `@` nor `(` *)
Definition rg_follow_dirs (r : list rg_token) : Prop := rg_nh (rg_is TkAt) r /\ rg_nh (rg_is TkLParen) r.
Lemma rg_directives_complete c : rg_complete (rg_directives c) (RgDirectivesOpt c) rg_follow_dirs.
Proof.
  apply rg_complete_many; [apply rg_directive_complete|apply rg_directive_first|]. rg_follow.
Qed.
Lemma rg_directives_first0 c : rg_first0 (RgDirectivesOpt c) (rg_is TkAt).
Proof. apply rg_first0_star, rg_directive_first. Qed.
Lemma rg_directives_noout c : rg_noout (rg_directives c).
Proof. eapply rg_noout_many; [apply rg_directive_sound|apply rg_directive_first|apply rg_directive_noout]. Qed.

(* ---- VariableDefinitions ---- *)
Lemma rg_variable_sound : rg_sound rg_variable RgVariable.
Proof. apply rg_sound_seq; apply rg_sound_sat. Qed.
Lemma rg_variable_complete F : rg_complete rg_variable RgVariable F.
Proof. apply (rg_complete_seq _ _ _ _ rg_true); [apply rg_complete_sat|apply rg_complete_sat|easy]. Qed.
Lemma rg_default_sound : rg_sound rg_default RgDefaultValue.
Proof. apply rg_sound_seq; [apply rg_sound_sat|apply rg_value_sound]. Qed.
Lemma rg_default_complete F : rg_complete rg_default RgDefaultValue F.
Proof. apply (rg_complete_seq _ _ _ _ rg_true); [apply rg_complete_sat|apply rg_value_complete|easy]. Qed.
Lemma rg_default_first : rg_first RgDefaultValue (rg_is TkEq).
Proof. apply rg_first_seq, rg_first_tok. Qed.
Lemma rg_default_noout : rg_noout rg_default.
Proof. apply rg_noout_seq; [apply rg_noout_sat|apply rg_value_noout]. Qed.

(* Type DefaultValue? Directives[Const]? : shared by VariableDefinition and InputValueDefinition *)
Definition rg_typed_tail : rg_p := rg_seq rg_type (rg_seq (rg_opt (rg_is TkEq) rg_default) (rg_directives true)).
Definition RgTypedTail : rg_lang := LSeq RgType (LSeq (LOpt RgDefaultValue) (RgDirectivesOpt true)).
(* follow: none of `!` `=` `@` `(` *)
Definition rg_follow_typed (r : list rg_token) : Prop :=
  rg_nh (rg_is TkBang) r /\ rg_nh (rg_is TkEq) r /\ rg_follow_dirs r.

Lemma rg_typed_tail_sound : rg_sound rg_typed_tail RgTypedTail.
Proof.
  apply rg_sound_seq; [apply rg_type_sound|]. apply rg_sound_seq; [|apply rg_directives_sound].
  apply rg_sound_opt, rg_default_sound.
Qed.
Lemma rg_typed_tail_complete : rg_complete rg_typed_tail RgTypedTail rg_follow_typed.
Proof.
  eapply rg_complete_seq; [apply rg_type_complete| |].
  - eapply rg_complete_seq; [apply rg_complete_opt; [apply (rg_default_complete rg_true)|apply rg_default_first]| |].
    + eapply rg_complete_ext; [intros l H; exact H| |apply rg_directives_complete].
      intros r H. exact (proj2 (proj2 H)).
    + apply (rg_follow_intro _ (rg_is TkAt)); [apply rg_directives_first0| |rg_follow].
      intros r (_ & H & _). split; [exact I|exact H].
  - apply (rg_follow_intro _ (fun t => rg_is TkEq t || rg_is TkAt t)).
    + apply rg_first0_seq; [apply rg_first0_opt, rg_default_first|apply rg_directives_first0].
    + intros r H. exact (proj1 H).
    + rg_follow.
Qed.
Lemma rg_typed_tail_noout : rg_noout rg_typed_tail.
Proof.
  apply rg_noout_seq; [apply rg_type_noout|]. apply rg_noout_seq; [|apply rg_directives_noout].
  apply rg_noout_opt, rg_default_noout.
Qed.

Lemma rg_vardef_sound : rg_sound rg_vardef RgVariableDefinition.
Proof.
  apply rg_sound_seq; [apply rg_variable_sound|]. apply rg_sound_seq; [apply rg_sound_sat|].
  apply rg_typed_tail_sound.
Qed.
Lemma rg_vardef_complete : rg_complete rg_vardef RgVariableDefinition rg_follow_typed.
Proof.
  apply (rg_complete_seq _ _ _ _ rg_true); [apply rg_variable_complete| |easy].
  apply (rg_complete_seq _ _ _ _ rg_true); [apply rg_complete_sat|apply rg_typed_tail_complete|easy].
Qed.
Lemma rg_vardef_first : rg_first RgVariableDefinition (rg_is TkDollar).
Proof. apply rg_first_seq, rg_first_seq, rg_first_tok. Qed.
Lemma rg_vardef_noout : rg_noout rg_vardef.
Proof.
  apply rg_noout_seq; [apply rg_noout_seq; apply rg_noout_sat|].
  apply rg_noout_seq; [apply rg_noout_sat|apply rg_typed_tail_noout].
Qed.

Lemma rg_vardefs_sound : rg_sound rg_vardefs RgVariableDefinitions.
Proof.
  apply rg_sound_seq; [apply rg_sound_sat|]. apply rg_sound_seq; [|apply rg_sound_sat].
  apply rg_sound_plus, rg_vardef_sound.
Qed.
Lemma rg_vardefs_complete F : rg_complete rg_vardefs RgVariableDefinitions F.
Proof.
  apply (rg_complete_seq _ _ _ _ rg_true); [apply rg_complete_sat| |easy].
  eapply rg_complete_seq; [|apply rg_complete_sat|].
  - apply rg_complete_plus; [apply rg_vardef_complete|apply rg_vardef_first|]. rg_follow.
  - apply (rg_follow_intro1 _ (rg_is TkRParen)); [apply rg_first_tok|]. rg_follow.
Qed.
Lemma rg_vardefs_first : rg_first RgVariableDefinitions (rg_is TkLParen).
Proof. apply rg_first_seq, rg_first_tok. Qed.
Lemma rg_vardefs_noout : rg_noout rg_vardefs.
Proof.
  apply rg_noout_seq; [apply rg_noout_sat|]. apply rg_noout_seq; [|apply rg_noout_sat].
  eapply rg_noout_plus; [apply rg_vardef_sound|apply rg_vardef_first|apply rg_vardef_noout].
Qed.

(* ================= SelectionSet ================= *)
Lemma rg_sels_of_star l : LStar (RgSel RgNtSel) l -> RgSel RgNtSels l.
Proof. induction 1; [constructor|now constructor]. Qed.

Lemma rg_sel_f_sound n :
  rg_sound (rg_selset_f n) RgSelectionSet /\ rg_sound (rg_selection_f n) (RgSel RgNtSel).
Proof.
  induction n as [|n [IHset IHsel]]; [split; intros ts r; discriminate|]. split.
  - intros ts r E. cbn [rg_selset_f] in E.
    pose proof (rg_sound_seq _ _ _ _ (rg_sound_sat (rg_is TkLCurly))
                  (rg_sound_seq _ _ _ _
                     (rg_sound_seq _ _ _ _ IHsel (rg_sound_many_f rg_sel_start _ _ IHsel n))
                     (rg_sound_sat (rg_is TkRCurly)))) as Hs.
    destruct (Hs _ _ E) as (pre & -> & (a & b & -> & (x & -> & Hx) &
                 (c & e & -> & (first & more & -> & Hf & Hm) & (y & -> & Hy)))).
    exists (x :: (first ++ more) ++ [y]). split; [reflexivity|].
    apply RgS_set; auto. now apply rg_sels_of_star.
  - intros ts r. cbn [rg_selection_f]. destruct ts as [|[k d] ts']; [discriminate|].
    destruct k; try discriminate.
    + (* ... *)
      assert (Hinl : forall tc r0, LOpt RgTypeCondition tc ->
                rg_seq (rg_directives false) (rg_selset_f n) r0 = RgOk r ->
                exists pre, (TkSpread, d) :: tc ++ r0 = pre ++ r /\ RgSel RgNtSel pre).
      { intros tc r0 Htc E.
        destruct (rg_sound_seq _ _ _ _ (rg_directives_sound false) IHset _ _ E) as (a & -> & (ds & ss & -> & Hd & Hs)).
        exists ((TkSpread, d) :: tc ++ ds ++ ss). split; [cbn; now rewrite <- !app_assoc|].
        apply RgS_inline; [apply rg_is_refl|exact Htc|exact Hd|exact Hs]. }
      destruct ts' as [|[k2 w] r2]; [apply (Hinl [] []); now left|].
      destruct k2; try (apply (Hinl [] ((_, w) :: r2)); now left).
      destruct (rg_streq rg_s_on w) eqn:Eon.
      * (* ... on NamedType Directives? SelectionSet *)
        unfold rg_seq at 1, rg_bind at 1. destruct (rg_name r2) as [r3| |] eqn:En; try discriminate.
        destruct (rg_sound_sat _ _ _ En) as (a & -> & Ha). intros E.
        destruct (Hinl ([(TkName, w)] ++ a) r3) as (pre & Hp & Hpre); auto.
        { right. exists [(TkName, w)], a. split; [reflexivity|]. split; [|exact Ha].
          exists (TkName, w). split; [reflexivity|]. unfold rg_is_kw. cbn. exact Eon. }
        exists pre. split; [|exact Hpre]. rewrite <- Hp. reflexivity.
      * (* ... FragmentName Directives? *)
        intros E. destruct (rg_directives_sound false _ _ E) as (ds & -> & Hd).
        exists ((TkSpread, d) :: [(TkName, w)] ++ ds). split; [reflexivity|].
        apply RgS_spread; [apply rg_is_refl| |exact Hd].
        exists (TkName, w). split; [reflexivity|]. unfold rg_is_name_but, rg_is_in, rg_is. cbn [fst snd tkind_eqb andb existsb]. now rewrite Eon.
    + (* Field *)
      intros E.
      pose proof (rg_sound_seq _ _ _ _
                    (rg_sound_opt (rg_is TkColon) _ _ (rg_sound_seq _ _ _ _ (rg_sound_sat (rg_is TkColon)) (rg_sound_sat (rg_is TkName))))
                    (rg_sound_seq _ _ _ _ (rg_sound_opt (rg_is TkLParen) _ _ (rg_arguments_sound false))
                       (rg_sound_seq _ _ _ _ (rg_directives_sound false)
                          (rg_sound_opt (rg_is TkLCurly) _ _ IHset)))) as Hs.
      destruct (Hs _ _ E) as (pre & -> & (al & b & -> & Hal & (args & e & -> & Hargs & (ds & ss & -> & Hd & Hss)))).
      assert (Hn0 : RgName [(TkName, d)]) by (exists (TkName, d); split; [reflexivity|apply rg_is_refl]).
      destruct Hal as [->|(cl & nm & -> & (col & -> & Hcol) & Hnm)]; destruct Hss as [->|Hss].
      * exists ([] ++ [(TkName, d)] ++ args ++ ds). split; [cbn; now rewrite app_nil_r, <- !app_assoc|].
        apply RgS_field; auto. now left.
      * exists ([] ++ [(TkName, d)] ++ args ++ ds ++ ss). split; [cbn; now rewrite <- !app_assoc|].
        apply RgS_field_set; auto. now left.
      * exists (([(TkName, d)] ++ [col]) ++ nm ++ args ++ ds). split; [cbn; now rewrite app_nil_r, <- !app_assoc|].
        apply RgS_field; auto. right. exists [(TkName, d)], [col]. split; [reflexivity|]. split; [exact Hn0|].
        exists col. auto.
      * exists (([(TkName, d)] ++ [col]) ++ nm ++ args ++ ds ++ ss). split; [cbn; now rewrite <- !app_assoc|].
        apply RgS_field_set; auto. right. exists [(TkName, d)], [col]. split; [reflexivity|]. split; [exact Hn0|].
        exists col. auto.
Qed.

Lemma rg_selset_sound : rg_sound rg_selset RgSelectionSet.
Proof. intros ts r. apply rg_sel_f_sound. Qed.

(* ---- first sets of the selection family ---- *)
Lemma rg_sel_first nt l : RgSel nt l ->
  match nt with
  | RgNtSelSet => rg_starts (rg_is TkLCurly) l
  | RgNtSel => rg_starts rg_sel_start l
  | RgNtSels => l = [] \/ rg_starts rg_sel_start l
  end.
Proof.
  assert (Hfield : forall al nm rest, LOpt RgAlias al -> RgName nm -> rg_starts rg_sel_start (al ++ nm ++ rest)).
  { intros al nm rest [->|(a & b & -> & (t & -> & Ht) & _)] (t2 & -> & Ht2); cbn; unfold rg_sel_start.
    - now rewrite Ht2.
    - now rewrite Ht. }
  induction 1 as [x first more y Hx _ _ _ _ Hy| |a b Ha IHa Hb IHb|al nm args dirs Hal Hnm _ _
                 |al nm args dirs ss Hal Hnm _ _ _ _|sp nm dirs Hsp _ _|sp tc dirs ss Hsp _ _ _ _].
  - cbn. exact Hx.
  - now left.
  - right. now apply rg_starts_app.
  - now apply Hfield.
  - now apply Hfield.
  - cbn. unfold rg_sel_start. rewrite Hsp. apply orb_true_r.
  - cbn. unfold rg_sel_start. rewrite Hsp. apply orb_true_r.
Qed.
Lemma rg_selset_first : rg_first RgSelectionSet (rg_is TkLCurly).
Proof. intros l H. exact (rg_sel_first _ _ H). Qed.

Definition rg_follow_sel (r : list rg_token) : Prop :=
  rg_nh (rg_is TkColon) r /\ rg_nh (rg_is TkLParen) r /\ rg_nh (rg_is TkAt) r /\ rg_nh (rg_is TkLCurly) r.

Lemma rg_follow_sel_start l : rg_starts rg_sel_start l -> rg_follow_sel l.
Proof. revert l. unfold rg_follow_sel. rg_follow. Qed.
Lemma rg_follow_sel_app b r : b = [] \/ rg_starts rg_sel_start b -> rg_follow_sel r -> rg_follow_sel (b ++ r).
Proof. intros [->|Hs] Hr; [exact Hr|]. apply rg_follow_sel_start. now apply rg_starts_app. Qed.

Lemma rg_opt_stop s p r : rg_nh s r -> rg_opt s p r = RgOk r.
Proof. unfold rg_opt. destruct r as [|t r']; [reflexivity|]. cbn. now intros ->. Qed.
Lemma rg_opt_go s p l : rg_starts s l -> rg_opt s p l = p l.
Proof. unfold rg_opt. destruct l as [|t l']; [contradiction|]. cbn. now intros ->. Qed.

(* Arguments? Directives? then q *)
Lemma rg_args_dirs_then (q : rg_p) args dirs tl :
  LOpt (RgArguments false) args -> RgDirectivesOpt false dirs ->
  rg_nh (rg_is TkLParen) tl -> rg_nh (rg_is TkAt) tl ->
  rg_seq (rg_opt (rg_is TkLParen) (rg_arguments false)) (rg_seq (rg_directives false) q) (args ++ dirs ++ tl) = q tl.
Proof.
  intros Ha Hd H1 H2. unfold rg_seq at 1.
  rewrite (rg_complete_opt _ _ _ _ (rg_arguments_complete false rg_true) (rg_arguments_first false) args (dirs ++ tl) Ha).
  - cbn [rg_bind]. unfold rg_seq. rewrite (rg_directives_complete false dirs tl Hd); [reflexivity|now split].
  - split; [exact I|]. apply (rg_nh_app0 _ (rg_is TkAt)); [exact (rg_directives_first0 _ _ Hd)| |exact H1]. rg_kinds.
Qed.
Lemma rg_dirs_then (q : rg_p) dirs tl :
  RgDirectivesOpt false dirs -> rg_nh (rg_is TkLParen) tl -> rg_nh (rg_is TkAt) tl ->
  rg_seq (rg_directives false) q (dirs ++ tl) = q tl.
Proof. intros Hd H1 H2. unfold rg_seq. rewrite (rg_directives_complete false dirs tl Hd); [reflexivity|now split]. Qed.

Definition rg_sel_complete_stmt (nt : rg_snt) (pre : list rg_token) : Prop :=
  match nt with
  | RgNtSelSet => forall r n, (length (pre ++ r) < n)%nat -> rg_selset_f n (pre ++ r) = RgOk r
  | RgNtSel => forall r n, (length (pre ++ r) < n)%nat -> rg_follow_sel r -> rg_selection_f n (pre ++ r) = RgOk r
  | RgNtSels =>
      forall r n m, rg_nh rg_sel_start r -> rg_follow_sel r ->
                    (length (pre ++ r) <= n)%nat -> (length (pre ++ r) < m)%nat ->
                    rg_many_f n rg_sel_start (rg_selection_f m) (pre ++ r) = RgOk r
  end.

Lemma rg_starts_curly_nh l :
  rg_starts (rg_is TkLCurly) l ->
  rg_nh (rg_is TkLParen) l /\ rg_nh (rg_is TkAt) l /\ rg_nh (rg_is TkColon) l /\ rg_nh (rg_is TkName) l.
Proof. revert l. rg_follow. Qed.

Lemma rg_sel_complete nt pre : RgSel nt pre -> rg_sel_complete_stmt nt pre.
Proof.
  induction 1 as [x first more y Hx Hf IHf Hm IHm Hy| |a b Ha IHa Hb IHb|al nm args dirs Hal Hnm Hargs Hd
                 |al nm args dirs ss Hal Hnm Hargs Hd Hss IHss|sp nm dirs Hsp Hnm Hd|sp tc dirs ss Hsp Htc Hd Hss IHss];
    cbn [rg_sel_complete_stmt] in *.
  - (* { Selection+ } *)
    intros r n Hlen. destruct n as [|n]; [rg_len|]. cbn [rg_selset_f app]. unfold rg_seq at 1. cbn [rg_sat].
    rewrite Hx. cbn [rg_bind]. rewrite <- !app_assoc. unfold rg_seq.
    assert (Hy1 : rg_nh rg_sel_start ([y] ++ r) /\ rg_follow_sel ([y] ++ r)).
    { cbn [app rg_nh]. unfold rg_follow_sel. cbn [rg_nh]. repeat split; rg_kinds. }
    rewrite (IHf (more ++ [y] ++ r) n); [|rg_len|].
    + cbn [rg_bind]. rewrite (IHm ([y] ++ r) n n); [|tauto|tauto|rg_len|rg_len].
      cbn [rg_bind app rg_sat]. now rewrite Hy.
    + apply rg_follow_sel_app; [exact (rg_sel_first _ _ Hm)|tauto].
  - intros r n m Hr _ _ _. now apply rg_many_f_stop.
  - (* Selection Selection* *)
    intros r n m Hr Hfr Hn Hm. pose proof (rg_sel_first _ _ Ha) as Hst.
    destruct a as [|t a']; [contradiction|]. cbn in Hst. rewrite <- app_assoc.
    destruct n as [|n]; [rg_len|]. cbn [app rg_many_f]. rewrite Hst.
    change (t :: a' ++ b ++ r) with ((t :: a') ++ b ++ r).
    rewrite (IHa (b ++ r) m); [| |].
    + cbn [rg_bind]. apply IHb; auto; rg_len.
    + rewrite app_assoc. exact Hm.
    + apply rg_follow_sel_app; [exact (rg_sel_first _ _ Hb)|exact Hfr].
  - (* Field without selection set *)
    intros r n Hlen (F1 & F2 & F3 & F4). destruct n as [|n]; [rg_len|].
    destruct Hnm as (t2 & -> & Ht2).
    assert (Hrest : forall tl0, tl0 = args ++ dirs ++ r ->
              rg_seq (rg_opt (rg_is TkLParen) (rg_arguments false))
                (rg_seq (rg_directives false) (rg_opt (rg_is TkLCurly) (rg_selset_f n))) tl0 = RgOk r).
    { intros tl0 ->. rewrite rg_args_dirs_then; auto. now apply rg_opt_stop. }
    assert (Hnc : rg_nh (rg_is TkColon) (args ++ dirs ++ r)).
    { apply (rg_nh_app0 _ (rg_is TkLParen)); [destruct Hargs as [->|Ha]; [now left|right; exact (rg_arguments_first _ _ Ha)]|rg_kinds|].
      apply (rg_nh_app0 _ (rg_is TkAt)); [exact (rg_directives_first0 _ _ Hd)|rg_kinds|exact F1]. }
    destruct Hal as [->|(a1 & c1 & -> & (t1 & -> & Ht1) & (col & -> & Hcol))].
    + destruct t2 as [k d]. apply rg_is_kind in Ht2. cbn in Ht2. subst k.
      cbn [app rg_selection_f]. rewrite <- !app_assoc. unfold rg_seq at 1.
      rewrite (rg_opt_stop _ _ _ Hnc). cbn [rg_bind]. now apply Hrest.
    + destruct t1 as [k d]. apply rg_is_kind in Ht1. cbn in Ht1. subst k.
      cbn [app rg_selection_f]. rewrite <- !app_assoc. cbn [app]. unfold rg_seq at 1.
      unfold rg_opt at 1. rewrite Hcol. unfold rg_seq at 1. cbn [rg_sat]. rewrite Hcol. cbn [rg_bind].
      unfold rg_name. cbn [rg_sat]. rewrite Ht2. cbn [rg_bind]. now apply Hrest.
  - (* Field with selection set *)
    intros r n Hlen _. destruct n as [|n]; [rg_len|].
    destruct Hnm as (t2 & -> & Ht2).
    pose proof (rg_sel_first _ _ Hss) as Hs1. cbn in Hs1.
    pose proof (rg_starts_curly_nh _ (rg_starts_app _ _ r Hs1)) as (G1 & G2 & G3 & G4).
    assert (Hrest : forall tl0, tl0 = args ++ dirs ++ ss ++ r ->
              rg_seq (rg_opt (rg_is TkLParen) (rg_arguments false))
                (rg_seq (rg_directives false) (rg_opt (rg_is TkLCurly) (rg_selset_f n))) tl0 = RgOk r).
    { intros tl0 ->. rewrite rg_args_dirs_then; auto.
      rewrite rg_opt_go; [|now apply rg_starts_app]. apply IHss. rg_len. }
    assert (Hnc : rg_nh (rg_is TkColon) (args ++ dirs ++ ss ++ r)).
    { apply (rg_nh_app0 _ (rg_is TkLParen)); [destruct Hargs as [->|Ha]; [now left|right; exact (rg_arguments_first _ _ Ha)]|rg_kinds|].
      apply (rg_nh_app0 _ (rg_is TkAt)); [exact (rg_directives_first0 _ _ Hd)|rg_kinds|exact G3]. }
    destruct Hal as [->|(a1 & c1 & -> & (t1 & -> & Ht1) & (col & -> & Hcol))].
    + destruct t2 as [k d]. apply rg_is_kind in Ht2. cbn in Ht2. subst k.
      cbn [app rg_selection_f]. rewrite <- !app_assoc. unfold rg_seq at 1.
      rewrite (rg_opt_stop _ _ _ Hnc). cbn [rg_bind]. now apply Hrest.
    + destruct t1 as [k d]. apply rg_is_kind in Ht1. cbn in Ht1. subst k.
      cbn [app rg_selection_f]. rewrite <- !app_assoc. cbn [app]. unfold rg_seq at 1.
      unfold rg_opt at 1. rewrite Hcol. unfold rg_seq at 1. cbn [rg_sat]. rewrite Hcol. cbn [rg_bind].
      unfold rg_name. cbn [rg_sat]. rewrite Ht2. cbn [rg_bind]. now apply Hrest.
  - (* FragmentSpread *)
    intros r n Hlen (F1 & F2 & F3 & F4). destruct n as [|n]; [rg_len|].
    destruct sp as [k d]. apply rg_is_kind in Hsp. cbn in Hsp. subst k.
    destruct Hnm as ([k2 w] & -> & Hw).
    assert (k2 = TkName) by (destruct k2; rg_kinds). subst k2.
    assert (Eon : rg_streq rg_s_on w = false).
    { unfold rg_is_name_but, rg_is_in, rg_is in Hw. cbn [fst snd tkind_eqb andb existsb] in Hw.
      destruct (rg_streq rg_s_on w); [discriminate|reflexivity]. }
    cbn [app rg_selection_f]. rewrite Eon. apply rg_directives_complete; [exact Hd|now split].
  - (* InlineFragment *)
    intros r n Hlen _. destruct n as [|n]; [rg_len|].
    destruct sp as [k d]. apply rg_is_kind in Hsp. cbn in Hsp. subst k.
    pose proof (rg_sel_first _ _ Hss) as Hs1. cbn in Hs1.
    pose proof (rg_starts_curly_nh _ (rg_starts_app _ _ r Hs1)) as (G1 & G2 & G3 & G4).
    assert (Hrest : rg_seq (rg_directives false) (rg_selset_f n) (dirs ++ ss ++ r) = RgOk r).
    { rewrite rg_dirs_then; auto. apply IHss. rg_len. }
    destruct Htc as [->|(a1 & c1 & -> & ([k1 w] & -> & Hon) & (t2 & -> & Ht2))].
    + cbn [app rg_selection_f]. rewrite <- !app_assoc.
      assert (Hh : rg_nh (rg_is TkName) (dirs ++ ss ++ r)).
      { apply (rg_nh_app0 _ (rg_is TkAt)); [exact (rg_directives_first0 _ _ Hd)|rg_kinds|exact G4]. }
      destruct (dirs ++ ss ++ r) as [|[k2 w2] l2] eqn:El; [exact Hrest|].
      destruct k2; try exact Hrest. cbn in Hh. discriminate.
    + assert (k1 = TkName) by (destruct k1; rg_kinds). subst k1.
      assert (Eon : rg_streq rg_s_on w = true).
      { unfold rg_is_kw in Hon. cbn [fst snd tkind_eqb andb] in Hon. exact Hon. }
      cbn [app rg_selection_f]. rewrite <- !app_assoc. cbn [app]. rewrite Eon.
      unfold rg_seq at 1, rg_name. cbn [rg_sat]. rewrite Ht2. cbn [rg_bind]. exact Hrest.
Qed.

Lemma rg_selset_complete F : rg_complete rg_selset RgSelectionSet F.
Proof. intros pre r H _. unfold rg_selset. apply (rg_sel_complete RgNtSelSet pre H). lia. Qed.

(* ---- no out-of-fuel for the selection family ---- *)
Lemma rg_sound_nolonger p L : rg_sound p L -> rg_nolonger p.
Proof. intros Hs ts r E. destruct (Hs _ _ E) as (a & -> & _). rewrite app_length. lia. Qed.

Lemma rg_seq_noout_b (p q : rg_p) ts :
  p ts <> RgOut -> (forall r, p ts = RgOk r -> q r <> RgOut) -> rg_seq p q ts <> RgOut.
Proof.
  intros Hp Hq. unfold rg_seq, rg_bind. destruct (p ts) as [r| |]; [now apply Hq|discriminate|congruence].
Qed.
Lemma rg_opt_noout_b s (p : rg_p) ts : p ts <> RgOut -> rg_opt s p ts <> RgOut.
Proof. intros Hp. unfold rg_opt. destruct ts as [|t ts']; [discriminate|]. destruct (s t); [exact Hp|discriminate]. Qed.

Lemma rg_selection_f_progress n ts r : rg_selection_f n ts = RgOk r -> (length r < length ts)%nat.
Proof.
  apply (rg_sound_progress _ _ rg_sel_start (proj2 (rg_sel_f_sound n))).
  intros l H. exact (rg_sel_first _ _ H).
Qed.

Lemma rg_sel_f_noout n :
  (forall ts, (length ts < n)%nat -> rg_selset_f n ts <> RgOut) /\
  (forall ts, (length ts < n)%nat -> rg_selection_f n ts <> RgOut).
Proof.
  induction n as [|n [IHset IHsel]]; [split; intros ts H; lia|].
  pose proof (rg_sound_nolonger _ _ (rg_directives_sound false)) as Ld.
  assert (Hds : forall r0, (length r0 < n)%nat ->
                  rg_seq (rg_directives false) (rg_selset_f n) r0 <> RgOut).
  { intros r0 H0. apply rg_seq_noout_b; [apply rg_directives_noout|].
    intros r1 E1. pose proof (Ld _ _ E1) as L1. apply IHset. lia. }
  split.
  - intros ts Hlen. cbn [rg_selset_f]. apply rg_seq_noout_b; [apply rg_noout_sat|].
    intros r E. apply rg_progress_sat in E. cbn in E.
    apply rg_seq_noout_b; [|intros; apply rg_noout_sat].
    apply rg_seq_noout_b; [apply IHsel; lia|].
    intros r1 E1. apply rg_selection_f_progress in E1.
    apply rg_noout_many_f; [|intros ts' r'; apply rg_selection_f_progress|lia].
    intros ts' H'. apply IHsel. lia.
  - intros ts Hlen. cbn [rg_selection_f]. destruct ts as [|[k d] ts']; [discriminate|]. cbn in Hlen.
    destruct k; try discriminate.
    + (* ... *)
      destruct ts' as [|[k2 w] r2]; [apply Hds; cbn; lia|].
      destruct k2; try (apply Hds; cbn [length] in *; lia).
      destruct (rg_streq rg_s_on w); [|apply rg_directives_noout].
      apply rg_seq_noout_b; [apply rg_noout_sat|]. intros r3 E3. apply rg_progress_sat in E3.
      apply Hds. cbn in Hlen. lia.
    + (* Field *)
      apply rg_seq_noout_b.
      { apply rg_noout_opt, rg_noout_seq; apply rg_noout_sat. }
      intros r1 E1.
      assert (L1 : (length r1 <= length ts')%nat).
      { revert E1. apply rg_nolonger_opt, rg_nolonger_seq; apply rg_progress_nolonger, rg_progress_sat. }
      apply rg_seq_noout_b; [apply rg_noout_opt, rg_arguments_noout|].
      intros r2 E2.
      assert (L2 : (length r2 <= length r1)%nat).
      { revert E2. apply rg_nolonger_opt. exact (rg_sound_nolonger _ _ (rg_arguments_sound false)). }
      apply rg_seq_noout_b; [apply rg_directives_noout|].
      intros r3 E3. pose proof (Ld _ _ E3) as L3.
      apply rg_opt_noout_b. apply IHset. lia.
Qed.

Lemma rg_selset_noout : rg_noout rg_selset.
Proof. intros ts. unfold rg_selset. apply rg_sel_f_noout. lia. Qed.

(* ================= Document : Definition+ (generic in the definition parser) ================= *)
(* the tokens a definition can start with: `{`, a string (description) or one of the definition keywords *)
Definition rg_def_keywords : list str :=
  [rg_s_query; rg_s_mutation; rg_s_subscription; rg_s_fragment; rg_s_schema; rg_s_scalar; rg_s_type;
   rg_s_interface; rg_s_union; rg_s_enum; rg_s_input; rg_s_directive; rg_s_extend].
Definition rg_def_start (t : rg_token) : bool :=
  rg_is_in rg_def_keywords t || rg_is TkStringValue t || rg_is TkLCurly t.

Section Documents.
  Variable def : rg_dp.
  Variable D : bool -> list rg_token -> rg_def -> Prop.
  Hypothesis Hsound : forall ts d r, def ts = RgOk (d, r) ->
    exists o pre, ts = pre ++ r /\ D o pre d /\ (o = true -> rg_nh (rg_is TkLCurly) r).
  Hypothesis Hfirst : forall o l d, D o l d -> rg_starts rg_def_start l.
  Hypothesis Hcomplete : forall o pre d r, D o pre d ->
    (r = [] \/ rg_starts rg_def_start r) -> (o = true -> rg_nh (rg_is TkLCurly) r) -> def (pre ++ r) = RgOk (d, r).
  Hypothesis Hnoout : forall ts, def ts <> RgOut.

  Lemma rg_def_progress ts d r : def ts = RgOk (d, r) -> (length r < length ts)%nat.
  Proof.
    intros E. destruct (Hsound _ _ _ E) as (o & pre & -> & HD & _). apply Hfirst in HD.
    apply rg_starts_length in HD. rewrite app_length. lia.
  Qed.

  Lemma rg_defs_f_sound n : forall ts ds,
    rg_defs_f n def ts = RgOk ds -> (ts = [] /\ ds = []) \/ RgDocOf D ts ds.
  Proof.
    induction n as [|n IH]; intros ts ds; destruct ts as [|t ts']; cbn [rg_defs_f].
    - intros [= <-]. now left.
    - discriminate.
    - intros [= <-]. now left.
    - unfold rg_bind. destruct (def (t :: ts')) as [[d r]| |] eqn:E; try discriminate. cbn [fst snd].
      destruct (rg_defs_f n def r) as [ds'| |] eqn:E2; try discriminate. intros [= <-]. right.
      destruct (Hsound _ _ _ E) as (o & pre & -> & HD & Ho).
      destruct (IH _ _ E2) as [[-> ->]|Hdoc].
      + rewrite app_nil_r. now apply (RgDoc_one D o).
      + now apply (RgDoc_cons D o).
  Qed.

  Lemma rg_doc_first ts ds : RgDocOf D ts ds -> rg_starts rg_def_start ts.
  Proof. induction 1 as [o l d HD|o l d l' ds HD _ _ _]; [|apply rg_starts_app]; eapply Hfirst; eauto. Qed.

  Lemma rg_defs_f_complete ts ds : RgDocOf D ts ds ->
    forall n, (length ts <= n)%nat -> rg_defs_f n def ts = RgOk ds.
  Proof.
    induction 1 as [o l d HD|o l d l' ds HD Ho Hdoc IH]; intros n Hlen.
    - pose proof (Hfirst _ _ _ HD) as Hs. destruct l as [|t l0]; [contradiction|].
      destruct n as [|n]; [cbn in Hlen; lia|]. cbn [rg_defs_f].
      pose proof (Hcomplete o (t :: l0) d [] HD (or_introl eq_refl) (fun _ => I)) as E.
      rewrite app_nil_r in E. rewrite E. cbn [rg_bind fst snd]. destruct n; reflexivity.
    - pose proof (Hfirst _ _ _ HD) as Hs. destruct l as [|t l0]; [contradiction|].
      destruct n as [|n]; [cbn in Hlen; lia|]. cbn [app rg_defs_f].
      change (t :: l0 ++ l') with ((t :: l0) ++ l').
      rewrite (Hcomplete o (t :: l0) d l' HD (or_intror (rg_doc_first _ _ Hdoc)) Ho). cbn [rg_bind fst snd].
      rewrite IH; [reflexivity|]. cbn [app length] in Hlen. rewrite app_length in Hlen. lia.
  Qed.

  Lemma rg_defs_f_noout n : forall ts, (length ts <= n)%nat -> rg_defs_f n def ts <> RgOut.
  Proof.
    induction n as [|n IH]; intros ts Hlen; destruct ts as [|t ts']; cbn [rg_defs_f]; try discriminate.
    - cbn in Hlen. lia.
    - unfold rg_bind. destruct (def (t :: ts')) as [[d r]| |] eqn:E; [|discriminate|now apply Hnoout in E].
      cbn [fst snd]. apply rg_def_progress in E.
      destruct (rg_defs_f n def r) as [ds'| |] eqn:E2; try discriminate.
      exfalso. revert E2. apply IH. cbn in *. lia.
  Qed.

  Lemma rg_document_r_iff ts ds : rg_document_r def ts = RgOk ds <-> RgDocOf D ts ds.
  Proof.
    unfold rg_document_r. split.
    - destruct ts as [|t ts']; [discriminate|]. intros E.
      destruct (rg_defs_f_sound _ _ _ E) as [[? _]|H]; [discriminate|exact H].
    - intros H. pose proof (rg_doc_first _ _ H) as Hs. destruct ts as [|t ts']; [contradiction|].
      now apply rg_defs_f_complete.
  Qed.

  Lemma rg_document_r_noout ts : rg_document_r def ts <> RgOut.
  Proof. unfold rg_document_r. destruct ts as [|t ts']; [discriminate|]. now apply rg_defs_f_noout. Qed.
End Documents.

(* ================= ExecutableDefinition ================= *)
Lemma LSeq_assoc1 (A B C : rg_lang) l : LSeq (LSeq A B) C l -> LSeq A (LSeq B C) l.
Proof.
  intros (ab & c & -> & (a & b & -> & Ha & Hb) & Hc). exists a, (b ++ c). split; [now rewrite app_assoc|].
  split; [exact Ha|]. exists b, c. auto.
Qed.
Lemma LSeq_assoc2 (A B C : rg_lang) l : LSeq A (LSeq B C) l -> LSeq (LSeq A B) C l.
Proof.
  intros (a & bc & -> & Ha & (b & c & -> & Hb & Hc)). exists (a ++ b), c. split; [now rewrite app_assoc|].
  split; [|exact Hc]. exists a, b. auto.
Qed.

Lemma rg_ret_ok d (p : rg_p) ts d' r : rg_ret d p ts = RgOk (d', r) <-> d' = d /\ p ts = RgOk r.
Proof.
  unfold rg_ret, rg_bind. destruct (p ts) as [r0| |]; split; try (intros [_ H]; discriminate); try discriminate.
  - intros [= <- <-]. auto.
  - intros [-> [= ->]]. reflexivity.
Qed.
Lemma rg_ret_complete d (p : rg_p) ts r : p ts = RgOk r -> rg_ret d p ts = RgOk (d, r).
Proof. intros E. now apply rg_ret_ok. Qed.
Lemma rg_ret_noout d (p : rg_p) ts : p ts <> RgOut -> rg_ret d p ts <> RgOut.
Proof. unfold rg_ret, rg_bind. destruct (p ts); congruence. Qed.

Definition rg_op_tail_start (t : rg_token) : bool := rg_is TkLParen t || (rg_is TkAt t || rg_is TkLCurly t).

Lemma rg_op_tail_sound : rg_sound rg_op_tail RgOpTail.
Proof.
  apply rg_sound_seq; [apply rg_sound_opt, rg_vardefs_sound|].
  apply rg_sound_seq; [apply rg_directives_sound|apply rg_selset_sound].
Qed.
Lemma rg_dirs_selset_first : rg_first (LSeq (RgDirectivesOpt false) RgSelectionSet) (fun t => rg_is TkAt t || rg_is TkLCurly t).
Proof. apply rg_first_seq0; [apply rg_directives_first0|apply rg_selset_first]. Qed.
Lemma rg_dirs_selset_complete F :
  rg_complete (rg_seq (rg_directives false) rg_selset) (LSeq (RgDirectivesOpt false) RgSelectionSet) F.
Proof.
  eapply rg_complete_seq; [apply rg_directives_complete|apply rg_selset_complete|].
  apply (rg_follow_intro1 _ (rg_is TkLCurly)); [apply rg_selset_first|]. unfold rg_follow_dirs. rg_follow.
Qed.
Lemma rg_op_tail_complete F : rg_complete rg_op_tail RgOpTail F.
Proof.
  eapply rg_complete_seq; [apply rg_complete_opt; [apply (rg_vardefs_complete rg_true)|apply rg_vardefs_first]| |].
  - apply rg_dirs_selset_complete.
  - apply (rg_follow_intro1 _ _ _ _ rg_dirs_selset_first). rg_follow.
Qed.
Lemma rg_op_tail_first : rg_first RgOpTail rg_op_tail_start.
Proof. apply rg_first_seq0; [apply rg_first0_opt, rg_vardefs_first|apply rg_dirs_selset_first]. Qed.
Lemma rg_op_tail_noout : rg_noout rg_op_tail.
Proof.
  apply rg_noout_seq; [apply rg_noout_opt, rg_vardefs_noout|].
  apply rg_noout_seq; [apply rg_directives_noout|apply rg_selset_noout].
Qed.

Lemma rg_fragment_tail_sound : rg_sound rg_fragment_tail RgFragmentTail.
Proof.
  eapply rg_sound_ext; [apply LSeq_assoc2|].
  apply rg_sound_seq; [apply rg_sound_sat|]. apply rg_sound_seq; [apply rg_sound_sat|].
  apply rg_sound_seq; [apply rg_directives_sound|apply rg_selset_sound].
Qed.
Lemma rg_fragment_tail_complete F : rg_complete rg_fragment_tail RgFragmentTail F.
Proof.
  eapply rg_complete_ext; [apply LSeq_assoc1|intros r H; exact H|].
  apply (rg_complete_seq _ _ _ _ rg_true); [apply rg_complete_sat| |easy].
  apply (rg_complete_seq _ _ _ _ rg_true); [apply rg_complete_sat|apply rg_dirs_selset_complete|easy].
Qed.
Lemma rg_fragment_tail_noout : rg_noout rg_fragment_tail.
Proof.
  apply rg_noout_seq; [apply rg_noout_sat|]. apply rg_noout_seq; [apply rg_noout_sat|].
  apply rg_noout_seq; [apply rg_directives_noout|apply rg_selset_noout].
Qed.

Lemma rg_optype_name t : rg_is_optype t = true ->
  exists w, t = (TkName, w) /\ rg_streq rg_s_fragment w = false.
Proof.
  destruct t as [k w]. unfold rg_is_optype, rg_is_in. cbn [fst snd]. intros H. apply andb_true_iff in H as [Hk Hw].
  apply tkind_eqb_eq in Hk. subst k. exists w. split; [reflexivity|].
  cbn [existsb] in Hw. repeat (apply orb_true_iff in Hw as [Hw|Hw]); try discriminate;
    apply rg_streq_eq in Hw; subst w; reflexivity.
Qed.

Lemma rg_exec_definition_sound ts d r :
  rg_exec_definition ts = RgOk (d, r) -> exists pre, ts = pre ++ r /\ RgExecDefinition pre d.
Proof.
  unfold rg_exec_definition. destruct ts as [|t ts']; [discriminate|].
  destruct (rg_is_kw rg_s_fragment t) eqn:Ef.
  - unfold rg_fragment. destruct ts' as [|[k w] r2]; [discriminate|]. destruct k; try discriminate.
    rewrite Ef. cbn [andb]. destruct (rg_streq rg_s_on w) eqn:Eon; [discriminate|]. cbn [negb].
    intros E. apply rg_ret_ok in E as [-> E]. destruct (rg_fragment_tail_sound _ _ E) as (l & -> & Hl).
    exists (t :: (TkName, w) :: l). split; [reflexivity|]. now apply RgD_fragment.
  - unfold rg_operation. destruct t as [k dd]. destruct k;
      try (unfold rg_is_optype, rg_is_in; cbn [fst snd tkind_eqb andb]; discriminate).
    + (* { *) intros E. apply rg_ret_ok in E as [-> E]. destruct (rg_selset_sound _ _ E) as (l & Hl & HS).
      exists l. split; [exact Hl|]. now apply RgD_shorthand.
    + (* Name *) destruct (rg_is_optype (TkName, dd)) eqn:Eo; [|discriminate].
      assert (Hanon : forall r0, rg_ret (RgkOperation, None) rg_op_tail r0 = RgOk (d, r) ->
                exists pre, (TkName, dd) :: r0 = pre ++ r /\ RgExecDefinition pre d).
      { intros r0 E. apply rg_ret_ok in E as [-> E]. destruct (rg_op_tail_sound _ _ E) as (l & -> & Hl).
        exists ((TkName, dd) :: l). split; [reflexivity|]. now apply RgD_op_anon. }
      destruct ts' as [|[k2 w] r2]; [apply Hanon|]. destruct k2; try apply Hanon.
      intros E. apply rg_ret_ok in E as [-> E]. destruct (rg_op_tail_sound _ _ E) as (l & -> & Hl).
      exists ((TkName, dd) :: (TkName, w) :: l). split; [reflexivity|]. now apply RgD_op_named.
Qed.

Lemma rg_exec_definition_complete pre d :
  RgExecDefinition pre d -> forall r, rg_exec_definition (pre ++ r) = RgOk (d, r).
Proof.
  intros H r. destruct H as [l Hl|t l Ht Hl|t w l Ht Hl|t w l Ht Hon Hl].
  - pose proof (rg_selset_first _ Hl) as Hs. destruct l as [|[k dd] l0]; [contradiction|].
    cbn [rg_starts] in Hs. apply rg_is_kind in Hs. cbn in Hs. subst k.
    cbn [app rg_exec_definition]. unfold rg_is_kw at 1. cbn [fst tkind_eqb andb]. unfold rg_operation.
    apply rg_ret_complete. now apply (rg_selset_complete rg_true ((TkLCurly, dd) :: l0) r).
  - destruct (rg_optype_name _ Ht) as (w & -> & Hw).
    cbn [app rg_exec_definition]. unfold rg_is_kw at 1. cbn [fst snd tkind_eqb andb]. rewrite Hw.
    unfold rg_operation. rewrite Ht.
    pose proof (rg_op_tail_complete rg_true l r Hl I) as E. apply (rg_ret_complete (RgkOperation, None)) in E.
    pose proof (rg_op_tail_first _ Hl) as Hs. destruct l as [|[k2 w2] l0]; [contradiction|].
    cbn [app] in *. destruct k2; try exact E. unfold rg_op_tail_start in Hs. cbn in Hs. discriminate.
  - destruct (rg_optype_name _ Ht) as (w0 & -> & Hw).
    cbn [app rg_exec_definition]. unfold rg_is_kw at 1. cbn [fst snd tkind_eqb andb]. rewrite Hw.
    unfold rg_operation. rewrite Ht. apply rg_ret_complete. exact (rg_op_tail_complete rg_true l r Hl I).
  - cbn [app rg_exec_definition]. rewrite Ht. unfold rg_fragment. rewrite Ht, Hon. cbn [andb negb].
    apply rg_ret_complete. exact (rg_fragment_tail_complete rg_true l r Hl I).
Qed.

Lemma rg_is_kw_in w ws t : In w ws -> rg_is_kw w t = true -> rg_is_in ws t = true.
Proof.
  unfold rg_is_kw, rg_is_in. intros Hin H. apply andb_true_iff in H as [-> H]. cbn [andb].
  apply existsb_exists. exists w. auto.
Qed.
Lemma rg_is_in_sub ws ws' t : incl ws ws' -> rg_is_in ws t = true -> rg_is_in ws' t = true.
Proof.
  unfold rg_is_in. intros Hi H. apply andb_true_iff in H as [-> H]. cbn [andb].
  apply existsb_exists in H as (w & Hw & E). apply existsb_exists. exists w. auto.
Qed.

Lemma rg_exec_definition_first l d : RgExecDefinition l d -> rg_starts rg_def_start l.
Proof.
  assert (Hop : forall t, rg_is_optype t = true -> rg_def_start t = true).
  { intros t Ht. unfold rg_def_start. erewrite rg_is_in_sub; [reflexivity| |exact Ht].
    intros x [<-|[<-|[<-|[]]]]; cbn; tauto. }
  intros [l0 Hl|t l0 Ht Hl|t w l0 Ht Hl|t w l0 Ht Hon Hl].
  - pose proof (rg_selset_first _ Hl) as Hs. destruct l0 as [|t l1]; [contradiction|]. cbn [rg_starts] in *.
    unfold rg_def_start. rewrite Hs. apply orb_true_r.
  - cbn [rg_starts]. now apply Hop.
  - cbn [rg_starts]. now apply Hop.
  - cbn [rg_starts]. unfold rg_def_start. erewrite rg_is_kw_in; [reflexivity| |exact Ht]. cbn. tauto.
Qed.

Lemma rg_exec_definition_noout ts : rg_exec_definition ts <> RgOut.
Proof.
  unfold rg_exec_definition. destruct ts as [|t ts']; [discriminate|].
  destruct (rg_is_kw rg_s_fragment t).
  - unfold rg_fragment. destruct ts' as [|[k w] r2]; [discriminate|]. destruct k; try discriminate.
    destruct (_ && _); [|discriminate]. apply rg_ret_noout, rg_fragment_tail_noout.
  - unfold rg_operation. destruct t as [k dd].
    destruct k; try (destruct (rg_is_optype _); [|discriminate];
                     destruct ts' as [|[k2 w] r2]; [|destruct k2]; apply rg_ret_noout, rg_op_tail_noout).
    apply rg_ret_noout, rg_selset_noout.
Qed.

(* ================= ExecutableDocument ================= *)
Definition RgExecD (o : bool) (l : list rg_token) (d : rg_def) : Prop := o = false /\ RgExecDefinition l d.

Lemma rg_exec_doc_generic ts ds : RgExecDocument ts ds <-> RgDocOf RgExecD ts ds.
Proof.
  split.
  - induction 1 as [l d Hd|l d l' ds Hd _ IH].
    + apply (RgDoc_one _ false). now split.
    + apply (RgDoc_cons _ false); [now split|discriminate|exact IH].
  - induction 1 as [o l d [_ Hd]|o l d l' ds [_ Hd] _ _ IH].
    + now apply RgX_one.
    + now apply RgX_cons.
Qed.

Theorem rg_exec_document_iff ts ds : rg_exec_document ts = Some ds <-> RgExecDocument ts ds.
Proof.
  rewrite rg_exec_doc_generic. unfold rg_exec_document.
  rewrite <- (rg_document_r_iff rg_exec_definition RgExecD).
  - destruct (rg_document_r rg_exec_definition ts); cbn; split; congruence.
  - intros ts0 d r E. destruct (rg_exec_definition_sound _ _ _ E) as (pre & -> & H).
    exists false, pre. repeat split; auto. discriminate.
  - intros o l d [_ H]. eapply rg_exec_definition_first; eauto.
  - intros o pre d r [_ H] _ _. now apply rg_exec_definition_complete.
  - apply rg_exec_definition_noout.
Qed.

Theorem rg_exec_document_fuel ts : rg_document_r rg_exec_definition ts <> RgOut.
Proof.
  apply (rg_document_r_noout rg_exec_definition RgExecD).
  - intros ts0 d r E. destruct (rg_exec_definition_sound _ _ _ E) as (pre & -> & H).
    exists false, pre. repeat split; auto. discriminate.
  - intros o l d [_ H]. eapply rg_exec_definition_first; eauto.
  - intros o pre d r [_ H] _ _. now apply rg_exec_definition_complete.
  - apply rg_exec_definition_noout.
Qed.
