(* C05 — the reference recogniser is the grammar: Value[Const] and Type (the two small recursive families).
   For each: soundness at any fuel, completeness and no-out-of-fuel at fuel > token count. *)
From ApolloVerif Require Import Base.Chars Lex.Item Parse.RefGrammar Parse.RefLib Parse.RefSpec.

(* ---- token facts ---- *)
Lemma rg_is_kind k t : rg_is k t = true -> fst t = k.
Proof. unfold rg_is. intros H. apply tkind_eqb_eq in H. congruence. Qed.
Lemma rg_is_refl k d : rg_is k (k, d) = true.
Proof. unfold rg_is. cbn. now apply tkind_eqb_eq. Qed.

Lemma rg_streq_eq a b : rg_streq a b = true <-> a = b.
Proof.
  revert b. induction a as [|x a IH]; destruct b as [|y b]; cbn [rg_streq]; try (split; congruence).
  rewrite andb_true_iff, IH, N.eqb_eq. split; [intros [-> ->]; reflexivity|intros [= -> ->]; auto].
Qed.

(* destruct every token in the context by kind; solves the side conditions about token predicates *)
Ltac rg_kinds :=
  intros;
  repeat match goal with
         | t : rg_token |- _ => destruct t as [[] ?]
         end;
  unfold rg_is, rg_is_kw, rg_is_in, rg_is_name_but, rg_is_name_or_string, rg_sel_start, rg_not_rbracket,
    rg_is_at_or, rg_is_objext_start, rg_is_optype, rg_is_location in *;
  cbn [fst snd tkind_eqb andb orb negb] in *; try discriminate; try reflexivity; auto.

(* arithmetic on token-list lengths (rg_token is unfolded so that lia sees one `length`) *)
Ltac rg_len :=
  repeat (first [ progress cbn [app length] in *
                | match goal with H : context [length (_ ++ _)] |- _ => rewrite app_length in H end
                | rewrite app_length ]);
  unfold rg_token in *; lia.

Definition rg_value_start (t : rg_token) : bool :=
  match fst t with
  | TkDollar | TkInt | TkFloat | TkStringValue | TkName | TkLBracket | TkLCurly => true
  | _ => false
  end.

Lemma rg_value_first c : rg_first (RgValue c) rg_value_start.
Proof.
  intros l H. unfold RgValue in H. inversion H; subst; cbn; unfold rg_value_start; rg_kinds.
Qed.

Lemma rg_values_of_star c l : LStar (RgValue c) l -> RgVal c RgNtValues l.
Proof. induction 1; [constructor|now constructor]. Qed.
Lemma rg_objfields_of_star c l :
  LStar (LSeq RgName (LSeq (RgPunct TkColon) (RgValue c))) l -> RgVal c RgNtObjFields l.
Proof.
  induction 1 as [|a b Ha Hb IH]; [constructor|].
  destruct Ha as (x & y & -> & (n & -> & Hn) & (u & v & -> & (col & -> & Hc) & Hv)).
  cbn [app]. now constructor.
Qed.

(* ---- soundness ---- *)
Lemma rg_value_f_sound n : forall c, rg_sound (rg_value_f n c) (RgValue c).
Proof.
  induction n as [|n IH]; intros c ts r; [discriminate|]. cbn [rg_value_f].
  destruct ts as [|[k d] ts']; [discriminate|].
  destruct k; try discriminate.
  - (* $ *) destruct c; [discriminate|]. intros E. destruct (rg_sound_sat _ _ _ E) as (a & -> & (t & -> & Ht)).
    exists [(TkDollar, d); t]. split; [reflexivity|]. apply RgV_var; auto.
  - (* [ *) intros E.
    pose proof (rg_sound_seq _ _ _ _ (rg_sound_many_f rg_not_rbracket _ _ (IH c) n) (rg_sound_sat (rg_is TkRBracket)))
      as Hs.
    destruct (Hs _ _ E) as (a & -> & (body & y & -> & Hb & (t & -> & Ht))).
    exists ((TkLBracket, d) :: body ++ [t]). split; [cbn; now rewrite <- app_assoc|].
    apply RgV_list; auto. now apply rg_values_of_star.
  - (* { *) intros E.
    pose proof (rg_sound_seq _ _ _ _
                  (rg_sound_many_f (rg_is TkName) _ _
                     (rg_sound_seq _ _ _ _ (rg_sound_sat (rg_is TkName))
                        (rg_sound_seq _ _ _ _ (rg_sound_sat (rg_is TkColon)) (IH c))) n)
                  (rg_sound_sat (rg_is TkRCurly))) as Hs.
    destruct (Hs _ _ E) as (a & -> & (body & y & -> & Hb & (t & -> & Ht))).
    exists ((TkLCurly, d) :: body ++ [t]). split; [cbn; now rewrite <- app_assoc|].
    apply RgV_object; auto. now apply rg_objfields_of_star.
  - (* Name *) intros [= <-]. exists [(TkName, d)]. split; [reflexivity|].
    destruct (rg_is_in [rg_s_true; rg_s_false] (TkName, d)) eqn:E1; [now apply RgV_bool|].
    destruct (rg_is_kw rg_s_null (TkName, d)) eqn:E2; [now apply RgV_null|].
    apply RgV_enum. unfold rg_is_name_but, rg_is_in, rg_is_kw, rg_is in *.
    cbn [fst snd tkind_eqb andb existsb] in *.
    apply orb_false_iff in E1 as [E1a E1b]. apply orb_false_iff in E1b as [E1b _].
    rewrite E1a, E1b, E2. reflexivity.
  - intros [= <-]. exists [(TkStringValue, d)]. split; [reflexivity|]. now apply RgV_string.
  - intros [= <-]. exists [(TkInt, d)]. split; [reflexivity|]. now apply RgV_int.
  - intros [= <-]. exists [(TkFloat, d)]. split; [reflexivity|]. now apply RgV_float.
Qed.

Lemma rg_value_sound c : rg_sound (rg_value c) (RgValue c).
Proof. intros ts r. apply rg_value_f_sound. Qed.

Lemma rg_value_f_progress n c ts r : rg_value_f n c ts = RgOk r -> (length r < length ts)%nat.
Proof. apply (rg_sound_progress _ _ _ (rg_value_f_sound n c) (rg_value_first c)). Qed.

(* ---- completeness, at any fuel above the token count ---- *)
Definition rg_val_complete_stmt (c : bool) (nt : rg_vnt) (pre : list rg_token) : Prop :=
  match nt with
  | RgNtValue =>
      forall r n, (length (pre ++ r) < n)%nat -> rg_value_f n c (pre ++ r) = RgOk r
  | RgNtValues =>
      forall r n m, rg_nh rg_not_rbracket r -> (length (pre ++ r) <= n)%nat -> (length (pre ++ r) < m)%nat ->
                    rg_many_f n rg_not_rbracket (rg_value_f m c) (pre ++ r) = RgOk r
  | RgNtObjFields =>
      forall r n m, rg_nh (rg_is TkName) r -> (length (pre ++ r) <= n)%nat -> (length (pre ++ r) < m)%nat ->
                    rg_many_f n (rg_is TkName)
                      (rg_seq rg_name (rg_seq (rg_sat (rg_is TkColon)) (rg_value_f m c))) (pre ++ r) = RgOk r
  end.

Lemma rg_val_complete c nt pre : RgVal c nt pre -> rg_val_complete_stmt c nt pre.
Proof.
  induction 1 as [d nm Hc Hd Hn|t Ht|t Ht|t Ht|t Ht|t Ht|t Ht|x body y Hx Hb IHb Hy|x body y Hx Hb IHb Hy
                 | |a b Ha IHa Hb IHb| |nm col v b Hn Hc Hv IHv Hb IHb]; cbn [rg_val_complete_stmt] in *.
  - intros r n Hlen. destruct n as [|n]; [cbn in Hlen; lia|]. subst c.
    destruct d as [k dd]. apply rg_is_kind in Hd. cbn in Hd. subst k. cbn [app rg_value_f]. unfold rg_name. cbn [rg_sat]. now rewrite Hn.
  - intros r n Hlen. destruct n as [|n]; [cbn in Hlen; lia|]. destruct t as [k dd]. apply rg_is_kind in Ht.
    cbn in Ht. subst k. reflexivity.
  - intros r n Hlen. destruct n as [|n]; [cbn in Hlen; lia|]. destruct t as [k dd]. apply rg_is_kind in Ht.
    cbn in Ht. subst k. reflexivity.
  - intros r n Hlen. destruct n as [|n]; [cbn in Hlen; lia|]. destruct t as [k dd]. apply rg_is_kind in Ht.
    cbn in Ht. subst k. reflexivity.
  - intros r n Hlen. destruct n as [|n]; [cbn in Hlen; lia|]. destruct t as [k dd].
    assert (k = TkName) by (destruct k; rg_kinds). subst k. reflexivity.
  - intros r n Hlen. destruct n as [|n]; [cbn in Hlen; lia|]. destruct t as [k dd].
    assert (k = TkName) by (destruct k; rg_kinds). subst k. reflexivity.
  - intros r n Hlen. destruct n as [|n]; [cbn in Hlen; lia|]. destruct t as [k dd].
    assert (k = TkName) by (destruct k; rg_kinds). subst k. reflexivity.
  - (* list *) intros r n Hlen. destruct n as [|n]; [cbn in Hlen; lia|].
    destruct x as [k dd]. apply rg_is_kind in Hx. cbn in Hx. subst k.
    cbn [app rg_value_f]. unfold rg_seq. rewrite <- app_assoc. cbn in Hlen. rewrite <- app_assoc in Hlen.
    rewrite (IHb ([y] ++ r) n n); [| |lia|lia].
    + cbn [rg_bind app rg_sat]. now rewrite Hy.
    + cbn [app rg_nh]. unfold rg_not_rbracket. now rewrite Hy.
  - (* object *) intros r n Hlen. destruct n as [|n]; [cbn in Hlen; lia|].
    destruct x as [k dd]. apply rg_is_kind in Hx. cbn in Hx. subst k.
    cbn [app rg_value_f]. unfold rg_seq at 1. rewrite <- app_assoc. cbn in Hlen. rewrite <- app_assoc in Hlen.
    rewrite (IHb ([y] ++ r) n n); [| |lia|lia].
    + cbn [rg_bind app rg_sat]. now rewrite Hy.
    + cbn [app rg_nh]. rg_kinds.
  - intros r n m Hr _ _. now apply rg_many_f_stop.
  - (* value :: values *) intros r n m Hr Hn Hm.
    pose proof (rg_value_first c _ Ha) as Hst. destruct a as [|t a']; [contradiction|].
    rewrite <- app_assoc in *. cbn [app length] in *. destruct n as [|n]; [lia|]. cbn [rg_many_f].
    assert (Hs : rg_not_rbracket t = true) by (unfold rg_value_start in Hst; cbn in Hst; rg_kinds).
    rewrite Hs.
    rewrite (IHa (b ++ r) m); [|cbn; lia]. cbn [rg_bind]. apply IHb; auto; rewrite !app_length in *; lia.
  - intros r n m Hr _ _. now apply rg_many_f_stop.
  - (* field :: fields *) intros r n m Hr Hlen Hm. cbn [app length] in *. rewrite <- app_assoc in *.
    destruct n as [|n]; [lia|]. cbn [rg_many_f]. rewrite Hn. unfold rg_seq at 1, rg_name at 1. cbn [rg_sat].
    rewrite Hn. cbn [rg_bind]. unfold rg_seq at 1. cbn [rg_sat]. rewrite Hc. cbn [rg_bind].
    rewrite (IHv (b ++ r) m); [|rewrite !app_length in *; lia]. cbn [rg_bind].
    apply IHb; auto; rewrite !app_length in *; lia.
Qed.

Lemma rg_value_complete c F : rg_complete (rg_value c) (RgValue c) F.
Proof.
  intros pre r H _. unfold rg_value. apply (rg_val_complete c RgNtValue pre H). lia.
Qed.

(* ---- no out-of-fuel ---- *)
Lemma rg_value_f_noout n : forall c ts, (length ts < n)%nat -> rg_value_f n c ts <> RgOut.
Proof.
  induction n as [|n IH]; intros c ts Hlen; [lia|]. cbn [rg_value_f].
  destruct ts as [|[k d] ts']; [discriminate|]. cbn in Hlen.
  destruct k; try discriminate.
  - destruct c; [discriminate|]. apply rg_noout_sat.
  - unfold rg_seq, rg_bind.
    destruct (rg_many_f n rg_not_rbracket (rg_value_f n c) ts') as [r1| |] eqn:E; [apply rg_noout_sat|discriminate|].
    exfalso. revert E. apply rg_noout_many_f; [|intros; eapply rg_value_f_progress; eauto|lia].
    intros ts2 H2. apply IH. lia.
  - unfold rg_seq at 1, rg_bind at 1.
    destruct (rg_many_f n (rg_is TkName) _ ts') as [r1| |] eqn:E; [apply rg_noout_sat|discriminate|].
    exfalso. revert E. apply rg_noout_many_f; [| |lia].
    + intros ts2 H2. unfold rg_seq, rg_name, rg_bind, rg_sat.
      destruct ts2 as [|t2 [|t3 ts3]]; try discriminate.
      * destruct (rg_is TkName t2); discriminate.
      * destruct (rg_is TkName t2); [|discriminate]. destruct (rg_is TkColon t3); [|discriminate].
        apply IH. cbn in H2. lia.
    + intros ts2 r2. unfold rg_seq, rg_name, rg_bind, rg_sat.
      destruct ts2 as [|t2 [|t3 ts3]]; try discriminate.
      * destruct (rg_is TkName t2); discriminate.
      * destruct (rg_is TkName t2); [|discriminate]. destruct (rg_is TkColon t3); [|discriminate].
        intros E2. apply rg_value_f_progress in E2. cbn. lia.
Qed.

Lemma rg_value_noout c : rg_noout (rg_value c).
Proof. intros ts. unfold rg_value. apply rg_value_f_noout. lia. Qed.

(* ================= Type ================= *)
Definition rg_type_start (t : rg_token) : bool := rg_is TkName t || rg_is TkLBracket t.

Lemma rg_ty_first nn l : RgTy nn l -> rg_starts rg_type_start l.
Proof.
  induction 1 as [t Ht|x nn body y Hx Hb IH Hy|l b Hl IH Hb]; cbn; unfold rg_type_start.
  - now rewrite Ht.
  - rewrite Hx. now rewrite orb_true_r.
  - now apply rg_starts_app.
Qed.
Lemma rg_type_first : rg_first RgType rg_type_start.
Proof. intros l [nn H]. eapply rg_ty_first; eauto. Qed.

Lemma rg_type_f_sound n : rg_sound (rg_type_f n) RgType.
Proof.
  induction n as [|n IH]; intros ts r; [discriminate|]. cbn [rg_type_f]. unfold rg_bind at 1.
  destruct ts as [|[k d] ts']; [discriminate|].
  assert (Hopt : forall l r0, RgTy false l ->
            rg_opt (rg_is TkBang) (rg_sat (rg_is TkBang)) r0 = RgOk r -> exists pre, l ++ r0 = pre ++ r /\ RgType pre).
  { intros l r0 Hl E. destruct (rg_sound_opt _ _ _ (rg_sound_sat (rg_is TkBang)) _ _ E) as (a & -> & [->|(b & -> & Hb)]).
    - exists l. split; [reflexivity|]. now exists false.
    - exists (l ++ [b]). split; [now rewrite <- app_assoc|]. exists true. now constructor. }
  destruct k; try discriminate.
  - (* [ *) unfold rg_seq, rg_bind. destruct (rg_type_f n ts') as [r1| |] eqn:E1; try discriminate.
    destruct (IH _ _ E1) as (body & -> & [nn Hb]).
    destruct r1 as [|y r2]; [discriminate|]. cbn [rg_sat]. destruct (rg_is TkRBracket y) eqn:Hy; [|discriminate].
    intros E. destruct (Hopt ((TkLBracket, d) :: body ++ [y]) r2) as (pre & Hp & Ht); auto.
    + eapply RgT_list; [apply rg_is_refl|exact Hb|exact Hy].
    + exists pre. split; [|exact Ht]. rewrite <- Hp. cbn. now rewrite <- app_assoc.
  - (* Name *) intros E. destruct (Hopt [(TkName, d)] ts') as (pre & Hp & Ht); auto.
    + apply RgT_named, rg_is_refl.
    + exists pre. split; [|exact Ht]. now rewrite <- Hp.
Qed.

Lemma rg_type_sound : rg_sound rg_type RgType.
Proof. intros ts r. apply rg_type_f_sound. Qed.

Definition rg_type_core (n : nat) (ts : list rg_token) : rg_r (list rg_token) :=
  match ts with
  | (TkName, _) :: r => RgOk r
  | (TkLBracket, _) :: r => rg_seq (rg_type_f n) (rg_sat (rg_is TkRBracket)) r
  | _ => RgNo
  end.
Lemma rg_type_f_S n ts :
  rg_type_f (S n) ts = rg_bind (rg_type_core n ts) (rg_opt (rg_is TkBang) (rg_sat (rg_is TkBang))).
Proof. reflexivity. Qed.

Lemma rg_opt_bang_stop r : rg_nh (rg_is TkBang) r -> rg_opt (rg_is TkBang) (rg_sat (rg_is TkBang)) r = RgOk r.
Proof. unfold rg_opt. destruct r as [|t r']; [reflexivity|]. cbn. now intros ->. Qed.

Lemma rg_ty_complete nn pre : RgTy nn pre ->
  (nn = false -> forall r n, (length (pre ++ r) <= n)%nat -> rg_type_core n (pre ++ r) = RgOk r) /\
  (forall r n, (length (pre ++ r) < n)%nat -> (nn = true \/ rg_nh (rg_is TkBang) r) ->
               rg_type_f n (pre ++ r) = RgOk r).
Proof.
  induction 1 as [t Ht|x nn body y Hx Hb IH Hy|l b Hl IH Hb].
  - destruct t as [k d]. apply rg_is_kind in Ht. cbn in Ht. subst k. split.
    + intros _ r n _. reflexivity.
    + intros r n Hlen [|Hr]; [discriminate|]. destruct n as [|n]; [cbn in Hlen; lia|].
      rewrite rg_type_f_S. cbn [app rg_type_core rg_bind]. now apply rg_opt_bang_stop.
  - destruct x as [k d]. apply rg_is_kind in Hx. cbn in Hx. subst k. destruct IH as [_ IH].
    assert (Hcore : forall r n, (length (((TkLBracket, d) :: body ++ [y]) ++ r) <= n)%nat ->
                      rg_type_core n (((TkLBracket, d) :: body ++ [y]) ++ r) = RgOk r).
    { intros r n Hlen. cbn [app rg_type_core]. unfold rg_seq. rewrite <- app_assoc.
      rewrite (IH ([y] ++ r) n);
        [|rg_len|].
      - cbn [rg_bind app rg_sat]. now rewrite Hy.
      - destruct nn; [now left|right]. cbn [app rg_nh]. rg_kinds. }
    split; [intros _; exact Hcore|].
    intros r n Hlen [|Hr]; [discriminate|]. destruct n as [|n]; [cbn in Hlen; lia|].
    rewrite rg_type_f_S. rewrite Hcore; [|rg_len]. cbn [rg_bind]. now apply rg_opt_bang_stop.
  - destruct IH as [IH _]. split; [discriminate|].
    intros r n Hlen _. destruct n as [|n]; [cbn in Hlen; lia|].
    rewrite rg_type_f_S. rewrite <- app_assoc. rewrite (IH eq_refl ([b] ++ r) n).
    + cbn [rg_bind app]. unfold rg_opt. rewrite Hb. cbn [rg_sat]. now rewrite Hb.
    + rg_len.
Qed.

Lemma rg_type_complete : rg_complete rg_type RgType (rg_nh (rg_is TkBang)).
Proof.
  intros pre r [nn H] Hr. unfold rg_type. apply (proj2 (rg_ty_complete nn pre H)); [lia|now right].
Qed.

Lemma rg_type_f_progress n ts r : rg_type_f n ts = RgOk r -> (length r < length ts)%nat.
Proof. apply (rg_sound_progress _ _ _ (rg_type_f_sound n) rg_type_first). Qed.

Lemma rg_type_f_noout n : forall ts, (length ts < n)%nat -> rg_type_f n ts <> RgOut.
Proof.
  induction n as [|n IH]; intros ts Hlen; [lia|]. rewrite rg_type_f_S. unfold rg_bind at 1.
  destruct (rg_type_core n ts) as [r1| |] eqn:E; [apply rg_noout_opt, rg_noout_sat|discriminate|].
  exfalso. destruct ts as [|[k d] ts']; [discriminate|]. destruct k; try discriminate. cbn [rg_type_core] in E.
  unfold rg_seq, rg_bind in E. destruct (rg_type_f n ts') as [r2| |] eqn:E2.
  - now apply rg_noout_sat in E.
  - discriminate.
  - revert E2. apply IH. cbn in Hlen. lia.
Qed.

Lemma rg_type_noout : rg_noout rg_type.
Proof. intros ts. unfold rg_type. apply rg_type_f_noout. lia. Qed.
