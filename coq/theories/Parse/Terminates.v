(* C01: the parser terminates.  Measure mu = number of items the lexer will still yield, plus one for a
   current token.  No operation increases it; every loop iteration that continues and every nested call
   consumes at least one item; so fuel > mu is never exhausted. *)
From Coq Require Import PeanoNat.
From ApolloVerif Require Import Base.Chars Lex.Item Parse.Outcome Parse.Builder Parse.Limits Parse.Monad
  Parse.Keywords Parse.Grammar Parse.Generic Parse.Atoms Parse.Entry.

Definition mu (s : pstate) : nat :=
  (length (ps_items s) + match ps_cur s with Some _ => 1 | None => 0 end)%nat.

(* CM n: from states with mu < n; never out of fuel; mu does not grow *)
Definition CM (n : nat) : pcfg :=
  {| cInv := fun s => (mu s < n)%nat; cWeak := fun s => (mu s < n)%nat;
     cRel := fun s s' => (mu s' <= mu s)%nat; cPanicOk := True; cFuelOk := False |}.

Lemma CM_rel n : prel_ok (CM n).
Proof. constructor; cbn; auto. intros a b c. lia. Qed.

(* P and Q explicit: the index of CM does not matter *)
Lemma post_CM_any n n' {A} (P Q : pstate -> Prop) (m : PM A) : post (CM n) P Q m -> post (CM n') P Q m.
Proof. intros H s Hs. exact (H s Hs). Qed.

Lemma mono_intro n {A} (m : PM A) :
  (forall s, match m s with POk (_, s') => (mu s' <= mu s)%nat | PPanic _ => True | POutOfFuel => False end) ->
  spec (CM n) m.
Proof.
  intros Hm s Hs. specialize (Hm s). destruct (m s) as [[a s']| |]; auto. cbn in *. split; [lia|exact Hm].
Qed.

Lemma frame_mu n {A} (m : PM A) :
  (forall s, match m s with POk (_, s') => ps_items s' = ps_items s /\ ps_cur s' = ps_cur s
                          | PPanic _ => True | POutOfFuel => False end) ->
  spec (CM n) m.
Proof.
  intros Hm. apply mono_intro. intros s. specialize (Hm s). destruct (m s) as [[a s']| |]; auto.
  destruct Hm as [Hi Hc]. unfold mu. rewrite Hi, Hc. lia.
Qed.

Lemma lexer_error_effect_mu c d i s :
  ps_items (p_lexer_error_effect c d i s) = ps_items s /\ ps_cur (p_lexer_error_effect c d i s) = ps_cur s.
Proof. unfold p_lexer_error_effect. destruct d, (ps_accept _), c; cbn; auto. Qed.

Lemma next_token_loop_mu items : forall s o s',
  p_next_token_loop items s = (o, s') ->
  ps_cur s' = ps_cur s /\
  (length (ps_items s') + match o with Some _ => 1 | None => 0 end <= length items)%nat.
Proof.
  induction items as [|[k d i|c d i] r IH]; intros s o s'; cbn [p_next_token_loop].
  - intros [= <- <-]. cbn. auto.
  - intros [= <- <-]. cbn. split; [reflexivity|lia].
  - intros E. apply IH in E. destruct E as [Hc Hl].
    destruct (lexer_error_effect_mu c d i (p_count_pull s)) as [_ Hc']. split; [rewrite Hc, Hc'; reflexivity|cbn; lia].
Qed.

Lemma skip_loop_mu items : forall s, ps_cur s = None -> (mu (p_skip_loop items s) <= length items)%nat.
Proof.
  induction items as [|[k d i|c d i] r IH]; intros s Hc; cbn [p_skip_loop].
  - unfold mu. cbn. rewrite Hc. lia.
  - destruct (p_is_ignored_kind k).
    + etransitivity; [apply IH; exact Hc|cbn; lia].
    + unfold mu. cbn. lia.
  - etransitivity; [apply IH|cbn; lia].
    destruct (lexer_error_effect_mu c d i (p_count_pull s)) as [_ Hc']. rewrite Hc'. exact Hc.
Qed.

Lemma peek_token_mu s : match p_peek_token s with
                        | POk (o, s') => (mu s' <= mu s)%nat /\ ps_cur s' = o
                        | _ => False end.
Proof.
  unfold p_peek_token. destruct (ps_cur s) as [t|] eqn:Hc.
  - split; [lia|exact Hc].
  - destruct (p_next_token_loop (ps_items s) s) as [o s1] eqn:E. apply next_token_loop_mu in E as [Hc1 Hl].
    split; [|reflexivity]. unfold mu. cbn. rewrite Hc. destruct o; lia.
Qed.

Lemma push_pending_list_noof l : forall b, p_push_pending_list l b <> POutOfFuel.
Proof.
  induction l as [|[t|d] l IH]; intros b; cbn [p_push_pending_list]; [discriminate| |apply IH].
  destruct (tok_kind t); try discriminate; apply IH.
Qed.

Lemma pb_finish_node_noof b : pb_finish_node b <> POutOfFuel.
Proof. unfold pb_finish_node. destruct (pb_parents b) as [|[k fc] r]; [discriminate|]. destruct (Nat.ltb _ _); discriminate. Qed.
Lemma pb_start_node_at_noof cp k b : pb_start_node_at cp k b <> POutOfFuel.
Proof.
  unfold pb_start_node_at. destruct (Nat.ltb _ _); [discriminate|].
  destruct (pb_parents b) as [|[k0 fc] r]; [discriminate|]. destruct (Nat.ltb _ _); discriminate.
Qed.

Lemma CM_atoms n : patoms_ok (CM n).
Proof.
  constructor.
  - apply CM_rel.
  - intros s H. exact H.
  - apply mono_intro. intros s. pose proof (peek_token_mu s) as H. destruct (p_peek_token s) as [[o s']| |]; tauto.
  - apply mono_intro. intros s. unfold p_pop. destruct (ps_cur s) as [t|] eqn:Hc.
    + unfold mu. cbn. rewrite Hc. lia.
    + destruct (p_next_token_loop (ps_items s) s) as [[t|] s1] eqn:E; [|exact I].
      apply next_token_loop_mu in E as [Hc1 Hl]. unfold mu. rewrite Hc1, Hc. lia.
  - apply mono_intro. intros s. unfold p_skip_ignored. cbv zeta. destruct (ps_cur s) as [t|] eqn:Hc.
    + destruct (p_is_ignored_kind _); [|lia].
      etransitivity; [apply skip_loop_mu; reflexivity|]. unfold mu. cbn. rewrite Hc. lia.
    + etransitivity; [apply skip_loop_mu; exact Hc|]. unfold mu. lia.
  - apply frame_mu. intros s. unfold p_push_ignored.
    pose proof (push_pending_list_noof (ps_pending s) (ps_builder s)) as Hn.
    destruct (p_push_pending_list _ _); cbn; auto.
  - intros k t. apply frame_mu. intros s. cbn. auto.
  - intros t. apply frame_mu. intros s. unfold p_push_err, p_modify. destruct (ps_accept s); cbn; auto.
  - unfold p_limit_err. eapply post_bind; [apply CM_rel| |intros [t|]].
    + apply mono_intro. intros s. pose proof (peek_token_mu s) as H. unfold p_current.
      destruct (p_peek_token s) as [[o s']| |]; tauto.
    + eapply post_bind; [apply CM_rel| |intros _].
      * apply frame_mu. intros s. unfold p_push_err, p_modify. destruct (ps_accept s); cbn; auto.
      * apply frame_mu. intros s. cbn. auto.
    + apply post_ret_same. apply CM_rel.
  - intros k. apply frame_mu. intros s. cbn. auto.
  - apply frame_mu. intros s. unfold p_finish_node, p_lift_b.
    pose proof (pb_finish_node_noof (ps_builder s)) as Hn. destruct (pb_finish_node _); cbn; auto.
  - intros cp k. apply frame_mu. intros s. unfold p_wrap_node, p_lift_b.
    pose proof (pb_start_node_at_noof cp k (ps_builder s)) as Hn. destruct (pb_start_node_at _ _ _); cbn; auto.
  - intros A B l body k Hl Hb Hk. unfold p_rec_guard.
    eapply post_bind; [apply CM_rel| |intros [|]]; [|exact Hl|].
    + apply frame_mu. intros s. unfold p_rec_check_and_increment.
      destruct (ptracker_check_and_increment _) as [[b t]| |] eqn:E; cbn; auto.
      unfold ptracker_check_and_increment, ptracker_decrement in E. cbn in E.
      destruct (_ <? _); [destruct (_ =? _)|]; discriminate.
    + eapply post_bind; [apply CM_rel|exact Hb|intros x].
      eapply post_bind; [apply CM_rel| |intros; apply Hk].
      apply frame_mu. intros s. unfold p_rec_decrement, ptracker_decrement. destruct (_ =? _); cbn; auto.
  - intros t. apply frame_mu. intros s. cbn. auto.
  - intros A w. apply frame_mu. intros s. exact I.
  - apply frame_mu. intros s. unfold g_assert_recursion_balanced. destruct (_ =? _); cbn; auto.
  - intros b. apply frame_mu. intros s. unfold p_debug_assert_advanced. destruct (_ && _); cbn; auto.
Qed.

(* ---- mu never grows: for every production, whatever the fuel (partial correctness) *)
Definition CMono : pcfg :=
  {| cInv := fun _ => True; cWeak := fun _ => True; cRel := fun s s' => (mu s' <= mu s)%nat;
     cPanicOk := True; cFuelOk := True |}.
Lemma CMono_rel : prel_ok CMono.
Proof. constructor; cbn; auto. intros a b c. lia. Qed.

Lemma from_CM {A} (m : PM A) : (forall n, spec (CM n) m) -> spec CMono m.
Proof.
  intros H s _. specialize (H (S (mu s)) s (Nat.lt_succ_diag_r _)).
  destruct (m s) as [[a s']| |]; cbn in *; tauto.
Qed.

Lemma CMono_atoms : patoms_ok CMono.
Proof.
  constructor.
  - exact CMono_rel.
  - auto.
  - apply from_CM. intros n. apply (a_peek_token _ (CM_atoms n)).
  - apply from_CM. intros n. apply (a_pop _ (CM_atoms n)).
  - apply from_CM. intros n. apply (a_skip_ignored _ (CM_atoms n)).
  - apply from_CM. intros n. apply (a_push_ignored _ (CM_atoms n)).
  - intros k t. apply from_CM. intros n. apply (a_push_token _ (CM_atoms n)).
  - intros t. apply from_CM. intros n. apply (a_push_syntax_err _ (CM_atoms n)).
  - apply from_CM. intros n. apply (a_limit_err _ (CM_atoms n)).
  - intros k. apply from_CM. intros n. apply (a_start_raw _ (CM_atoms n)).
  - apply from_CM. intros n. apply (a_finish_node _ (CM_atoms n)).
  - intros cp k. apply from_CM. intros n. apply (a_wrap_node _ (CM_atoms n)).
  - intros A B l body k Hl Hb Hk. unfold p_rec_guard.
    eapply post_bind; [apply CMono_rel| |intros [|]]; [|exact Hl|].
    + apply from_CM. intros n. apply frame_mu. intros s. unfold p_rec_check_and_increment.
      destruct (ptracker_check_and_increment _) as [[b t]| |] eqn:E; cbn; auto.
      unfold ptracker_check_and_increment, ptracker_decrement in E. cbn in E.
      destruct (_ <? _); [destruct (_ =? _)|]; discriminate.
    + eapply post_bind; [apply CMono_rel|exact Hb|intros x].
      eapply post_bind; [apply CMono_rel| |intros; apply Hk].
      apply from_CM. intros n. apply frame_mu. intros s. unfold p_rec_decrement, ptracker_decrement.
      destruct (_ =? _); cbn; auto.
  - intros t. apply from_CM. intros n. apply (a_ghost _ (CM_atoms n)).
  - intros A w. apply from_CM. intros n. apply (a_panic _ (CM_atoms n)).
  - apply from_CM. intros n. apply (a_assert _ (CM_atoms n)).
  - intros b. apply from_CM. intros n. apply (a_debug _ (CM_atoms n)).
Qed.
Definition CMono_ok : pcfg_ok CMono := atoms_cfg_ok CMono CMono_atoms I.

Lemma mono_of {A} (m : PM A) s a s' : spec CMono m -> m s = POk (a, s') -> (mu s' <= mu s)%nat.
Proof. intros Hm E. destruct (post_returns _ _ _ _ Hm s I _ _ E) as [_ H]. exact H. Qed.
