(* C01: the parser terminates.  Measure mu = number of items the lexer will still yield, plus one for a
   current token.  No operation increases it; every loop iteration that continues and every nested call
   consumes at least one item; so fuel > mu is never exhausted. *)
From Coq Require Import PeanoNat.
From ApolloVerif Require Import Base.Chars Lex.Item Parse.Outcome Parse.Builder Parse.Limits Parse.Monad
  Parse.Keywords Parse.Grammar Parse.Generic Parse.Atoms Parse.Entry.

Definition mu (s : pstate) : nat :=
  (length (ps_items s) + match ps_cur s with Some _ => 1 | None => 0 end)%nat.

(* CM n: from states with mu < n; never out of fuel; mu does not grow *)
Definition CM (n : nat) : pcfg :=
  {| cInv := fun s => (mu s < n)%nat; cWeak := fun s => (mu s < n)%nat;
     cRel := fun s s' => (mu s' <= mu s)%nat; cPanicOk := True; cFuelOk := False |}.

Lemma CM_rel n : prel_ok (CM n).
Proof. constructor; cbn; auto. intros a b c. lia. Qed.

(* P and Q explicit: the index of CM does not matter *)
Lemma post_CM_any n n' {A} (P Q : pstate -> Prop) (m : PM A) : post (CM n) P Q m -> post (CM n') P Q m.
Proof. intros H s Hs. exact (H s Hs). Qed.

Lemma mono_intro n {A} (m : PM A) :
  (forall s, match m s with POk (_, s') => (mu s' <= mu s)%nat | PPanic _ => True | POutOfFuel => False end) ->
  spec (CM n) m.
Proof.
  intros Hm s Hs. specialize (Hm s). destruct (m s) as [[a s']| |]; auto. cbn in *. split; [lia|exact Hm].
Qed.

Lemma frame_mu n {A} (m : PM A) :
  (forall s, match m s with POk (_, s') => ps_items s' = ps_items s /\ ps_cur s' = ps_cur s
                          | PPanic _ => True | POutOfFuel => False end) ->
  spec (CM n) m.
Proof.
  intros Hm. apply mono_intro. intros s. specialize (Hm s). destruct (m s) as [[a s']| |]; auto.
  destruct Hm as [Hi Hc]. unfold mu. rewrite Hi, Hc. lia.
Qed.

Lemma lexer_error_effect_mu c d i s :
  ps_items (p_lexer_error_effect c d i s) = ps_items s /\ ps_cur (p_lexer_error_effect c d i s) = ps_cur s.
Proof. unfold p_lexer_error_effect. destruct d, (ps_accept _), c; cbn; auto. Qed.

Lemma next_token_loop_mu items : forall s o s',
  p_next_token_loop items s = (o, s') ->
  ps_cur s' = ps_cur s /\
  (length (ps_items s') + match o with Some _ => 1 | None => 0 end <= length items)%nat.
Proof.
  induction items as [|[k d i|c d i] r IH]; intros s o s'; cbn [p_next_token_loop].
  - intros [= <- <-]. cbn. auto.
  - intros [= <- <-]. cbn. split; [reflexivity|lia].
  - intros E. apply IH in E. destruct E as [Hc Hl].
    destruct (lexer_error_effect_mu c d i (p_count_pull s)) as [_ Hc']. split; [rewrite Hc, Hc'; reflexivity|cbn; lia].
Qed.

Lemma skip_loop_mu items : forall s, ps_cur s = None -> (mu (p_skip_loop items s) <= length items)%nat.
Proof.
  induction items as [|[k d i|c d i] r IH]; intros s Hc; cbn [p_skip_loop].
  - unfold mu. cbn. rewrite Hc. lia.
  - destruct (p_is_ignored_kind k).
    + etransitivity; [apply IH; exact Hc|cbn; lia].
    + unfold mu. cbn. lia.
  - etransitivity; [apply IH|cbn; lia].
    destruct (lexer_error_effect_mu c d i (p_count_pull s)) as [_ Hc']. rewrite Hc'. exact Hc.
Qed.

Lemma peek_token_mu s : match p_peek_token s with
                        | POk (o, s') => (mu s' <= mu s)%nat /\ ps_cur s' = o
                        | _ => False end.
Proof.
  unfold p_peek_token. destruct (ps_cur s) as [t|] eqn:Hc.
  - split; [lia|exact Hc].
  - destruct (p_next_token_loop (ps_items s) s) as [o s1] eqn:E. apply next_token_loop_mu in E as [Hc1 Hl].
    split; [|reflexivity]. unfold mu. cbn. rewrite Hc. destruct o; lia.
Qed.

Lemma push_pending_list_noof l : forall b, p_push_pending_list l b <> POutOfFuel.
Proof.
  induction l as [|[t|d] l IH]; intros b; cbn [p_push_pending_list]; [discriminate| |apply IH].
  destruct (tok_kind t); try discriminate; apply IH.
Qed.

Lemma pb_finish_node_noof b : pb_finish_node b <> POutOfFuel.
Proof. unfold pb_finish_node. destruct (pb_parents b) as [|[k fc] r]; [discriminate|]. destruct (Nat.ltb _ _); discriminate. Qed.
Lemma pb_start_node_at_noof cp k b : pb_start_node_at cp k b <> POutOfFuel.
Proof.
  unfold pb_start_node_at. destruct (Nat.ltb _ _); [discriminate|].
  destruct (pb_parents b) as [|[k0 fc] r]; [discriminate|]. destruct (Nat.ltb _ _); discriminate.
Qed.

Lemma CM_atoms n : patoms_ok (CM n).
Proof.
  constructor.
  - apply CM_rel.
  - intros s H. exact H.
  - apply mono_intro. intros s. pose proof (peek_token_mu s) as H. destruct (p_peek_token s) as [[o s']| |]; tauto.
  - apply mono_intro. intros s. unfold p_pop. destruct (ps_cur s) as [t|] eqn:Hc.
    + unfold mu. cbn. rewrite Hc. lia.
    + destruct (p_next_token_loop (ps_items s) s) as [[t|] s1] eqn:E; [|exact I].
      apply next_token_loop_mu in E as [Hc1 Hl]. unfold mu. rewrite Hc1, Hc. lia.
  - apply mono_intro. intros s. unfold p_skip_ignored. cbv zeta. destruct (ps_cur s) as [t|] eqn:Hc.
    + destruct (p_is_ignored_kind _); [|lia].
      etransitivity; [apply skip_loop_mu; reflexivity|]. unfold mu. cbn. rewrite Hc. lia.
    + etransitivity; [apply skip_loop_mu; exact Hc|]. unfold mu. lia.
  - apply frame_mu. intros s. unfold p_push_ignored.
    pose proof (push_pending_list_noof (ps_pending s) (ps_builder s)) as Hn.
    destruct (p_push_pending_list _ _); cbn; auto.
  - intros k t. apply frame_mu. intros s. cbn. auto.
  - intros t. apply frame_mu. intros s. unfold p_push_err, p_modify. destruct (ps_accept s); cbn; auto.
  - unfold p_limit_err. eapply post_bind; [apply CM_rel| |intros [t|]].
    + apply mono_intro. intros s. pose proof (peek_token_mu s) as H. unfold p_current.
      destruct (p_peek_token s) as [[o s']| |]; tauto.
    + eapply post_bind; [apply CM_rel| |intros _].
      * apply frame_mu. intros s. unfold p_push_err, p_modify. destruct (ps_accept s); cbn; auto.
      * apply frame_mu. intros s. cbn. auto.
    + apply post_ret_same. apply CM_rel.
  - intros k. apply frame_mu. intros s. cbn. auto.
  - apply frame_mu. intros s. unfold p_finish_node, p_lift_b.
    pose proof (pb_finish_node_noof (ps_builder s)) as Hn. destruct (pb_finish_node _); cbn; auto.
  - intros cp k. apply frame_mu. intros s. unfold p_wrap_node, p_lift_b.
    pose proof (pb_start_node_at_noof cp k (ps_builder s)) as Hn. destruct (pb_start_node_at _ _ _); cbn; auto.
  - intros A B l body k Hl Hb Hk. unfold p_rec_guard.
    eapply post_bind; [apply CM_rel| |intros [|]]; [|exact Hl|].
    + apply frame_mu. intros s. unfold p_rec_check_and_increment.
      destruct (ptracker_check_and_increment _) as [[b t]| |] eqn:E; cbn; auto.
      unfold ptracker_check_and_increment, ptracker_decrement in E. cbn in E.
      destruct (_ <? _); [destruct (_ =? _)|]; discriminate.
    + eapply post_bind; [apply CM_rel|exact Hb|intros x].
      eapply post_bind; [apply CM_rel| |intros; apply Hk].
      apply frame_mu. intros s. unfold p_rec_decrement, ptracker_decrement. destruct (_ =? _); cbn; auto.
  - intros t. apply frame_mu. intros s. cbn. auto.
  - intros A w. apply frame_mu. intros s. exact I.
  - apply frame_mu. intros s. unfold g_assert_recursion_balanced. destruct (_ =? _); cbn; auto.
  - intros b. apply frame_mu. intros s. unfold p_debug_assert_advanced. destruct (_ && _); cbn; auto.
Qed.

(* ---- mu never grows: for every production, whatever the fuel (partial correctness) *)
Definition CMono : pcfg :=
  {| cInv := fun _ => True; cWeak := fun _ => True; cRel := fun s s' => (mu s' <= mu s)%nat;
     cPanicOk := True; cFuelOk := True |}.
Lemma CMono_rel : prel_ok CMono.
Proof. constructor; cbn; auto. intros a b c. lia. Qed.

Lemma from_CM {A} (m : PM A) : (forall n, spec (CM n) m) -> spec CMono m.
Proof.
  intros H s _. specialize (H (S (mu s)) s (Nat.lt_succ_diag_r _)).
  destruct (m s) as [[a s']| |]; cbn in *; tauto.
Qed.

Lemma CMono_atoms : patoms_ok CMono.
Proof.
  constructor.
  - exact CMono_rel.
  - auto.
  - apply from_CM. intros n. apply (a_peek_token _ (CM_atoms n)).
  - apply from_CM. intros n. apply (a_pop _ (CM_atoms n)).
  - apply from_CM. intros n. apply (a_skip_ignored _ (CM_atoms n)).
  - apply from_CM. intros n. apply (a_push_ignored _ (CM_atoms n)).
  - intros k t. apply from_CM. intros n. apply (a_push_token _ (CM_atoms n)).
  - intros t. apply from_CM. intros n. apply (a_push_syntax_err _ (CM_atoms n)).
  - apply from_CM. intros n. apply (a_limit_err _ (CM_atoms n)).
  - intros k. apply from_CM. intros n. apply (a_start_raw _ (CM_atoms n)).
  - apply from_CM. intros n. apply (a_finish_node _ (CM_atoms n)).
  - intros cp k. apply from_CM. intros n. apply (a_wrap_node _ (CM_atoms n)).
  - intros A B l body k Hl Hb Hk. unfold p_rec_guard.
    eapply post_bind; [apply CMono_rel| |intros [|]]; [|exact Hl|].
    + apply from_CM. intros n. apply frame_mu. intros s. unfold p_rec_check_and_increment.
      destruct (ptracker_check_and_increment _) as [[b t]| |] eqn:E; cbn; auto.
      unfold ptracker_check_and_increment, ptracker_decrement in E. cbn in E.
      destruct (_ <? _); [destruct (_ =? _)|]; discriminate.
    + eapply post_bind; [apply CMono_rel|exact Hb|intros x].
      eapply post_bind; [apply CMono_rel| |intros; apply Hk].
      apply from_CM. intros n. apply frame_mu. intros s. unfold p_rec_decrement, ptracker_decrement.
      destruct (_ =? _); cbn; auto.
  - intros t. apply from_CM. intros n. apply (a_ghost _ (CM_atoms n)).
  - intros A w. apply from_CM. intros n. apply (a_panic _ (CM_atoms n)).
  - apply from_CM. intros n. apply (a_assert _ (CM_atoms n)).
  - intros b. apply from_CM. intros n. apply (a_debug _ (CM_atoms n)).
Qed.
Definition CMono_ok : pcfg_ok CMono := atoms_cfg_ok CMono CMono_atoms I.

Lemma mono_of {A} (m : PM A) s a s' : spec CMono m -> m s = POk (a, s') -> (mu s' <= mu s)%nat.
Proof. intros Hm E. destruct (post_returns _ _ _ _ Hm s I _ _ E) as [_ H]. exact H. Qed.
(* ---- consumption: with token t current, m takes at least one item *)
Definition consumes_at {A} (t : prstoken) (m : PM A) : Prop :=
  forall s a s', ps_cur s = Some t -> m s = POk (a, s') -> (mu s' < mu s)%nat.
Definition sigtok (t : prstoken) : Prop := p_is_ignored_kind (tok_kind t) = false.

Lemma C_bind1 {A B} t (m : PM A) (f : A -> PM B) :
  consumes_at t m -> (forall a, spec CMono (f a)) -> consumes_at t (x <- m ;; f x).
Proof.
  intros Hm Hf s b s' Hc E. apply bind_ok in E as (a & s1 & E1 & E2).
  pose proof (Hm _ _ _ Hc E1). pose proof (mono_of _ _ _ _ (Hf a) E2). lia.
Qed.

(* m does nothing when a token is current and returns v *)
Lemma C_keepv {A B} t (m : PM A) v (f : A -> PM B) :
  (forall s, ps_cur s = Some t -> m s = POk (v, s)) -> consumes_at t (f v) -> consumes_at t (x <- m ;; f x).
Proof.
  intros Hm Hf s b s' Hc E. unfold p_bind in E. rewrite (Hm s Hc) in E. eapply Hf; eauto.
Qed.

Lemma peek_token_some t s : ps_cur s = Some t -> p_peek_token s = POk (Some t, s).
Proof. intros Hc. unfold p_peek_token. rewrite Hc. reflexivity. Qed.
Lemma peek_some t s : ps_cur s = Some t -> p_peek s = POk (Some (tok_kind t), s).
Proof. intros Hc. unfold p_peek, p_bind. rewrite (peek_token_some t s Hc). reflexivity. Qed.
Lemma peek_data_some t s : ps_cur s = Some t -> p_peek_data s = POk (Some (tok_data t), s).
Proof. intros Hc. unfold p_peek_data, p_bind. rewrite (peek_token_some t s Hc). reflexivity. Qed.
Lemma peek_is_some k t s : ps_cur s = Some t -> g_peek_is k s = POk (tkind_eqb (tok_kind t) k, s).
Proof. intros Hc. unfold g_peek_is, p_bind. rewrite (peek_some t s Hc). reflexivity. Qed.
Lemma peek_in_some ks t s : ps_cur s = Some t -> g_peek_in ks s = POk (existsb (tkind_eqb (tok_kind t)) ks, s).
Proof. intros Hc. unfold g_peek_in, p_bind. rewrite (peek_some t s Hc). reflexivity. Qed.
Lemma peek_data_is_some kw t s : ps_cur s = Some t -> g_peek_data_is kw s = POk (p_str_eqb (tok_data t) kw, s).
Proof. intros Hc. unfold g_peek_data_is, p_bind. rewrite (peek_data_some t s Hc). reflexivity. Qed.
Lemma current_some t s : ps_cur s = Some t -> p_current s = POk (Some t, s).
Proof. apply peek_token_some. Qed.

(* ---- the primitives that pop *)
Lemma push_ignored_keep s u s' : p_push_ignored s = POk (u, s') -> ps_cur s' = ps_cur s /\ ps_items s' = ps_items s.
Proof. unfold p_push_ignored. destruct (p_push_pending_list _ _); try discriminate. intros [= <- <-]. auto. Qed.

Lemma C_eat t k : consumes_at t (p_eat k).
Proof.
  intros s a s' Hc E. unfold p_eat in E. apply bind_ok in E as (u & s1 & E1 & E).
  apply push_ignored_keep in E1 as [Hc1 Hi1]. rewrite Hc in Hc1.
  apply bind_ok in E as (o & s2 & E2 & E). rewrite (current_some t s1 Hc1) in E2. injection E2 as <- <-.
  apply bind_ok in E as (t' & s3 & E3 & E). unfold p_pop in E3. rewrite Hc1 in E3. injection E3 as <- <-.
  unfold p_push_token, p_modify in E. injection E as _ <-. unfold mu. cbn. rewrite Hi1, Hc. lia.
Qed.

Lemma C_bump t k : consumes_at t (p_bump k).
Proof. unfold p_bump. apply C_bind1; [apply C_eat|intros; apply (a_skip_ignored _ CMono_atoms)]. Qed.

Lemma C_err_and_pop t : consumes_at t p_err_and_pop.
Proof.
  intros s a s' Hc E. unfold p_err_and_pop in E. apply bind_ok in E as (u & s1 & E1 & E).
  apply push_ignored_keep in E1 as [Hc1 Hi1]. rewrite Hc in Hc1.
  apply bind_ok in E as (o & s2 & E2 & E). rewrite (current_some t s1 Hc1) in E2. injection E2 as <- <-.
  apply bind_ok in E as (t' & s3 & E3 & E). unfold p_pop in E3. rewrite Hc1 in E3. injection E3 as <- <-.
  apply bind_ok in E as (? & s4 & E4 & E). unfold p_push_token, p_modify in E4. injection E4 as _ <-.
  apply bind_ok in E as (? & s5 & E5 & E). unfold p_push_err, p_modify in E5. injection E5 as _ <-.
  pose proof (mono_of _ _ _ _ (a_skip_ignored _ CMono_atoms) E) as Hm.
  revert Hm. unfold mu. destruct (ps_accept _); cbn; rewrite Hi1, Hc; lia.
Qed.

Lemma C_expect t k sk : tkind_eqb (tok_kind t) k = true -> consumes_at t (p_expect k sk).
Proof.
  intros Hk. unfold p_expect. eapply C_keepv; [apply current_some|].
  unfold p_at. intros s a s' Hc E. unfold p_bind at 1 in E. unfold p_bind at 1 in E.
  rewrite (peek_some t s Hc) in E. cbn [p_ret] in E. rewrite Hk in E. eapply C_bump; eauto.
Qed.

(* start_node leaves a significant current token alone *)
Lemma start_node_keep k t s u s' :
  ps_cur s = Some t -> sigtok t -> p_start_node k s = POk (u, s') -> ps_cur s' = Some t /\ mu s' = mu s.
Proof.
  intros Hc Hs E. unfold p_start_node in E. apply bind_ok in E as (? & s1 & E1 & E).
  apply push_ignored_keep in E1 as [Hc1 Hi1].
  apply bind_ok in E as (? & s2 & E2 & E). unfold p_modify in E2. injection E2 as _ <-.
  unfold p_skip_ignored in E. cbv zeta in E. cbn [ps_cur ps_set_builder] in E. rewrite Hc1, Hc, Hs in E.
  injection E as _ <-. unfold mu. cbn. rewrite Hc1, Hi1. auto.
Qed.

Lemma C_node {A} k t (body : PM A) : sigtok t -> consumes_at t body -> consumes_at t (p_node k body).
Proof.
  intros Hs Hb s a s' Hc E. unfold p_node in E. apply bind_ok in E as (? & s1 & E1 & E).
  destruct (start_node_keep _ _ _ _ _ Hc Hs E1) as [Hc1 Hm1].
  apply bind_ok in E as (r & s2 & E2 & E). pose proof (Hb _ _ _ Hc1 E2) as H2.
  apply bind_ok in E as (? & s3 & E3 & E). unfold p_ret in E. injection E as _ <-.
  pose proof (mono_of _ _ _ _ (a_finish_node _ CMono_atoms) E3). lia.
Qed.

(* err does not touch the lexer side *)
Lemma err_keep t s u s' : ps_cur s = Some t -> p_err s = POk (u, s') -> ps_cur s' = Some t /\ mu s' = mu s.
Proof.
  intros Hc E. unfold p_err, p_bind in E. rewrite (current_some t s Hc) in E.
  unfold p_push_err, p_modify in E. injection E as _ <-. unfold mu. destruct (ps_accept s); cbn; rewrite Hc; auto.
Qed.
Ltac mono_tail := let H := fresh "H" in pose proof CMono_ok as H; intros; gfull.

(* ---- productions that consume *)
Lemma validate_name_cases t n s u s' :
  ps_cur s = Some t -> g_validate_name n s = POk (u, s') -> s' = s \/ (mu s' < mu s)%nat.
Proof.
  intros Hc E. unfold g_validate_name in E. apply bind_ok in E as (? & s1 & E1 & E).
  destruct (negb _); cbn [p_when] in E1.
  - right. pose proof (C_err_and_pop t _ _ _ Hc E1) as H1.
    assert (Hm : (mu s' <= mu s1)%nat).
    { destruct (2 <=? blen n); [|unfold p_ret in E; injection E as _ <-; lia].
      destruct n as [|c r]; [unfold p_ret in E; injection E as _ <-; lia|].
      destruct (u8len c =? 1); [|discriminate].
      destruct (negb _); cbn [p_when] in E.
      - eapply mono_of; [apply (d_err_and_pop _ CMono_atoms)|exact E].
      - unfold p_ret in E. injection E as _ <-. lia. }
    lia.
  - unfold p_ret in E1. injection E1 as _ <-.
    destruct (2 <=? blen n); [|unfold p_ret in E; injection E as _ <-; auto].
    destruct n as [|c r]; [unfold p_ret in E; injection E as _ <-; auto|].
    destruct (u8len c =? 1); [|discriminate].
    destruct (negb _); cbn [p_when] in E.
    + right. eapply C_err_and_pop; eauto.
    + unfold p_ret in E. injection E as _ <-. auto.
Qed.

Lemma C_name t : tok_kind t = TkName -> consumes_at t g_name.
Proof.
  intros Hk. unfold g_name. eapply C_keepv; [apply peek_token_some|]. cbv beta iota.
  rewrite Hk. cbn [tkind_eqb]. apply C_node; [unfold sigtok; rewrite Hk; reflexivity|].
  intros s a s' Hc E. apply bind_ok in E as (? & s1 & E1 & E).
  destruct (validate_name_cases t _ _ _ _ Hc E1) as [->|Hlt].
  - eapply C_bump; eauto.
  - pose proof (mono_of _ _ _ _ (d_bump _ CMono_atoms SK_IDENT) E). lia.
Qed.

Lemma C_description t : sigtok t -> consumes_at t g_description.
Proof. intros Hs. unfold g_description. apply C_node; auto. apply C_node; auto. apply C_bump. Qed.

Lemma C_variable t : sigtok t -> consumes_at t g_variable.
Proof.
  intros Hs. unfold g_variable. apply C_node; auto.
  apply (C_bind1 t (p_bump SK_DOLLAR) (fun _ => g_name)); [apply C_bump|intros; apply (d_name _ CMono_atoms)].
Qed.

Lemma C_alias t : tok_kind t = TkName -> consumes_at t g_alias.
Proof.
  intros Hk. unfold g_alias. apply C_node; [unfold sigtok; rewrite Hk; reflexivity|].
  apply (C_bind1 t g_name (fun _ => p_bump SK_COLON)); [apply C_name; exact Hk|intros; apply (d_bump _ CMono_atoms)].
Qed.

Lemma C_operation_type t : sigtok t -> consumes_at t g_operation_type.
Proof.
  intros Hs. unfold g_operation_type. eapply C_keepv; [apply peek_data_some|]. cbv beta iota.
  apply C_node; auto.
  destruct (p_str_eqb _ _); [apply C_bump|]. destruct (p_str_eqb _ _); [apply C_bump|].
  destruct (p_str_eqb _ _); [apply C_bump|apply C_err_and_pop].
Qed.

Lemma C_err_then {A} t (m : PM A) : consumes_at t m -> consumes_at t (p_err ;; m).
Proof.
  intros Hm s a s' Hc E. apply bind_ok in E as (? & s1 & E1 & E).
  destruct (err_keep t _ _ _ Hc E1) as [Hc1 Hm1]. pose proof (Hm _ _ _ Hc1 E). lia.
Qed.

Lemma C_enum_value t : tok_kind t = TkName -> consumes_at t g_enum_value.
Proof.
  intros Hk. unfold g_enum_value. apply C_node; [unfold sigtok; rewrite Hk; reflexivity|].
  eapply C_keepv; [apply peek_token_some|]. cbv beta iota. rewrite Hk. cbn [tkind_eqb].
  destruct (_ || _); cbn [p_when].
  - apply C_err_then. apply C_name. exact Hk.
  - intros s a s' Hc E. unfold p_bind, p_ret in E. eapply C_name; eauto.
Qed.

Lemma C_named_type t : tok_kind t = TkName -> consumes_at t g_named_type.
Proof.
  intros Hk. unfold g_named_type. eapply C_keepv; [apply (peek_is_some TkName)|]. cbv beta iota. rewrite Hk. cbn [tkind_eqb p_when].
  apply C_node; [unfold sigtok; rewrite Hk; reflexivity|apply C_name; exact Hk].
Qed.
Lemma sig_of_kind t k : tok_kind t = k -> p_is_ignored_kind k = false -> sigtok t.
Proof. intros <- H. exact H. Qed.

(* first step consumes, the rest only needs to be monotone: the rest is proved by the generic traversal *)
Ltac c_first lem :=
  match goal with
  | |- consumes_at ?t (p_bind ?m ?f) => apply (C_bind1 t m f); [lem|mono_tail]
  end.

Lemma C_argument t fuel c : tok_kind t = TkName -> consumes_at t (g_argument fuel c).
Proof.
  intros Hk. unfold g_argument. apply C_node; [eapply sig_of_kind; eauto|].
  c_first ltac:(apply C_name; exact Hk).
Qed.

Lemma C_directive t fuel c : tok_kind t = TkAt -> consumes_at t (g_directive fuel c).
Proof.
  intros Hk. unfold g_directive. apply C_node; [eapply sig_of_kind; eauto|].
  c_first ltac:(apply C_expect; rewrite Hk; reflexivity).
Qed.

Lemma C_if_peek_false {B} t k (m : PM unit) (f : unit -> PM B) :
  tkind_eqb (tok_kind t) k = false -> consumes_at t (f tt) -> consumes_at t (x <- g_if_peek k m ;; f x).
Proof.
  intros Hk Hf. eapply C_keepv; [|exact Hf]. intros s Hc. unfold g_if_peek, p_bind.
  rewrite (peek_is_some k t s Hc), Hk. reflexivity.
Qed.
Lemma C_if_peek_true {B} t k (m : PM unit) (f : unit -> PM B) :
  tkind_eqb (tok_kind t) k = true -> consumes_at t m -> (forall a, spec CMono (f a)) ->
  consumes_at t (x <- g_if_peek k m ;; f x).
Proof.
  intros Hk Hm Hf. apply C_bind1; [|exact Hf].
  unfold g_if_peek. eapply C_keepv; [apply (peek_is_some k)|]. rewrite Hk. exact Hm.
Qed.

(* description? then name: consumes on Name and on StringValue *)
Lemma C_desc_name {B} t (f : unit -> PM B) :
  tok_kind t = TkName \/ tok_kind t = TkStringValue -> (forall a, spec CMono (f a)) ->
  consumes_at t (g_if_peek TkStringValue g_description ;; x <- g_name ;; f x).
Proof.
  intros [Hk|Hk] Hf.
  - apply C_if_peek_false; [rewrite Hk; reflexivity|]. apply C_bind1; [apply C_name; exact Hk|exact Hf].
  - apply C_if_peek_true; [rewrite Hk; reflexivity|apply C_description; eapply sig_of_kind; eauto|].
    intros ?. pose proof CMono_ok as H. eapply post_bind; [apply CMono_rel|apply (ok_name _ H)|exact Hf].
Qed.

Lemma sig_name_or_string t : tok_kind t = TkName \/ tok_kind t = TkStringValue -> sigtok t.
Proof. intros [H|H]; eapply sig_of_kind; eauto. Qed.

Lemma C_input_value_definition t fuel :
  tok_kind t = TkName \/ tok_kind t = TkStringValue -> consumes_at t (g_input_value_definition fuel).
Proof.
  intros Hk. unfold g_input_value_definition. apply C_node; [apply sig_name_or_string; exact Hk|].
  apply C_desc_name; [exact Hk|mono_tail].
Qed.

Lemma C_field_definition t fuel :
  tok_kind t = TkName \/ tok_kind t = TkStringValue -> consumes_at t (g_field_definition fuel).
Proof.
  intros Hk. unfold g_field_definition. apply C_node; [apply sig_name_or_string; exact Hk|].
  apply C_desc_name; [exact Hk|mono_tail].
Qed.

Lemma C_enum_value_definition t fuel :
  tok_kind t = TkName \/ tok_kind t = TkStringValue -> consumes_at t (g_enum_value_definition fuel).
Proof.
  intros Hk. unfold g_enum_value_definition. eapply C_keepv; [apply (peek_in_some [TkName; TkStringValue])|].
  assert (Hb : existsb (tkind_eqb (tok_kind t)) [TkName; TkStringValue] = true) by (destruct Hk as [-> | ->]; reflexivity).
  rewrite Hb. cbn [p_when]. apply C_node; [apply sig_name_or_string; exact Hk|].
  destruct Hk as [Hk|Hk].
  - apply C_if_peek_false; [rewrite Hk; reflexivity|]. c_first ltac:(apply C_enum_value; exact Hk).
  - apply C_if_peek_true; [rewrite Hk; reflexivity|apply C_description; eapply sig_of_kind; eauto|mono_tail].
Qed.

Lemma C_variable_definition t fuel : sigtok t -> consumes_at t (g_variable_definition fuel).
Proof.
  intros Hs. unfold g_variable_definition. apply C_node; auto. c_first ltac:(apply C_variable; exact Hs).
Qed.

Lemma C_root_operation_type_definition t : sigtok t -> consumes_at t g_root_operation_type_definition.
Proof.
  intros Hs. unfold g_root_operation_type_definition. apply C_node; auto.
  c_first ltac:(apply C_operation_type; exact Hs).
Qed.

Lemma C_object_field_ t value c :
  (forall c p, spec CMono (value c p)) -> tok_kind t = TkName -> consumes_at t (g_object_field_ value c).
Proof.
  intros Hv Hk. unfold g_object_field_. apply C_node; [eapply sig_of_kind; eauto|].
  apply C_bind1; [apply C_name; exact Hk|]. intros ?. pose proof CMono_ok as H. gfull.
Qed.

Lemma C_fragment_spread t fuel : sigtok t -> consumes_at t (g_fragment_spread fuel).
Proof. intros Hs. unfold g_fragment_spread. apply C_node; auto. c_first ltac:(apply C_bump). Qed.

Lemma C_inline_fragment_ t ss fuel : spec CMono ss -> sigtok t -> consumes_at t (g_inline_fragment_ ss fuel).
Proof.
  intros Hss Hs. unfold g_inline_fragment_. apply C_node; auto.
  apply C_bind1; [apply C_bump|]. intros ?. pose proof CMono_ok as H. gfull.
Qed.

Lemma C_field_ t ss fuel : spec CMono ss -> tok_kind t = TkName -> consumes_at t (g_field_ ss fuel).
Proof.
  intros Hss Hk. unfold g_field_. apply C_node; [eapply sig_of_kind; eauto|].
  eapply C_keepv; [apply (peek_is_some TkName)|]. rewrite Hk. cbn [tkind_eqb].
  apply C_bind1; [|intros ?; pose proof CMono_ok as H; gfull].
  intros s a s' Hc E. apply bind_ok in E as (n2 & s1 & E1 & E).
  assert (s1 = s) as -> by (unfold p_peek_n, p_bind, p_peek_n_inner, p_ret in E1; injection E1 as _ <-; reflexivity).
  apply bind_ok in E as (? & s2 & E2 & E).
  destruct (match n2 with Some TkColon => true | _ => false end); cbn [p_when] in E2.
  - pose proof (C_alias t Hk _ _ _ Hc E2). pose proof (mono_of _ _ _ _ (d_name _ CMono_atoms) E). lia.
  - unfold p_ret in E2. injection E2 as _ <-. eapply C_name; eauto.
Qed.
(* value(p, constness, pop_on_error = true) consumes whatever significant token is current *)
Lemma C_value_body t value fuel c :
  (forall c p, spec CMono (value c p)) -> consumes_at t (g_value_body value fuel c true).
Proof.
  intros Hv. unfold g_value_body. eapply C_keepv; [apply peek_some|].
  destruct (tok_kind t) eqn:Hk; cbv beta iota;
    try (unfold g_error_or_pop; apply C_err_and_pop);
    try (apply C_node; [eapply sig_of_kind; eauto|apply C_bump]).
  - (* $ *)
    destruct c.
    + apply (C_bind1 t (g_error_or_pop true) (fun _ => g_variable)); [apply C_err_and_pop|].
      intros ?. pose proof CMono_ok as H. gfull.
    + intros s a s' Hc E. unfold p_bind, p_ret in E. eapply C_variable; eauto. eapply sig_of_kind; eauto.
  - (* [ *)
    unfold g_list_value_. apply C_node; [eapply sig_of_kind; eauto|].
    apply C_bind1; [apply C_bump|]. intros ?. pose proof CMono_ok as H. gfull.
  - (* { *)
    unfold g_object_value_. apply C_node; [eapply sig_of_kind; eauto|].
    apply C_bind1; [apply C_bump|]. intros ?. pose proof CMono_ok as H.
    assert (Hf : spec CMono (g_object_field_ value c)) by (apply gg_object_field_; auto). gfull.
  - (* Name *)
    eapply C_keepv; [apply peek_token_some|]. cbv beta iota.
    destruct (p_str_eqb _ _); [apply C_node; [eapply sig_of_kind; eauto|apply C_bump]|].
    destruct (p_str_eqb _ _); [apply C_node; [eapply sig_of_kind; eauto|apply C_bump]|].
    destruct (p_str_eqb _ _); [apply C_node; [eapply sig_of_kind; eauto|apply C_bump]|].
    apply C_enum_value. exact Hk.
Qed.

Lemma C_value t fuel c : consumes_at t (g_value fuel c true).
Proof.
  destruct fuel as [|f]; cbn [g_value].
  - intros s a s' _ E. discriminate.
  - apply C_value_body. intros c0 p. apply (gg_value CMono CMono_ok).
Qed.

(* parse_separated_list's loop body *)
Lemma C_sep_body t sk (run : PM unit) : spec CMono run -> consumes_at t (p_bump sk ;; run).
Proof. intros Hr. apply (C_bind1 t (p_bump sk) (fun _ => run)); [apply C_bump|auto]. Qed.

(* the arms of selection's loop *)
Lemma rec_check_keep s b s' :
  p_rec_check_and_increment s = POk (b, s') -> ps_cur s' = ps_cur s /\ mu s' = mu s.
Proof.
  unfold p_rec_check_and_increment. destruct (ptracker_check_and_increment _) as [[b0 t0]| |]; try discriminate.
  intros [= <- <-]. auto.
Qed.
(* ---- the loops terminate *)
Lemma peek_cur s o s' :
  p_peek s = POk (o, s') -> match o with Some k => exists t, ps_cur s' = Some t /\ tok_kind t = k | None => True end.
Proof.
  unfold p_peek. intros E. apply bind_ok in E as (ot & s1 & E & Er). unfold p_ret in Er. injection Er as <- <-.
  pose proof (peek_token_mu s) as H. rewrite E in H. destruct H as [_ Hc]. destruct ot as [t|]; cbn; eauto.
Qed.

Lemma T_peek_while_acc {Acc} (run : Acc -> tkind -> PM (Acc * bool)) :
  (forall acc t s r s', ps_cur s = Some t -> run acc (tok_kind t) s = POk ((r, true), s') -> (mu s' < mu s)%nat) ->
  forall fuel n, (n <= fuel)%nat ->
    (forall m acc k, (m <= n)%nat -> spec (CM m) (run acc k)) ->
    forall acc, spec (CM n) (p_peek_while_acc fuel run acc).
Proof.
  intros Hprog. induction fuel as [|f IH]; intros n Hn Hrun acc s Hs; cbn in Hs.
  - lia.
  - cbn [p_peek_while_acc]. unfold p_bind at 1.
    pose proof (d_peek _ (CM_atoms n) s Hs) as Hp. pose proof (peek_cur s) as Hpc.
    destruct (p_peek s) as [[o s1]| |]; [|exact Hp|exact Hp]. destruct Hp as [Hi1 Hr1]. cbn in Hi1, Hr1.
    specialize (Hpc _ _ eq_refl). destruct o as [kind|].
    2:{ cbn. split; [lia|lia]. }
    destruct Hpc as (t & Hc1 & Hk). subst kind.
    unfold p_bind at 1. unfold p_get at 1. cbv iota beta. unfold p_bind at 1.
    pose proof (Hrun n acc (tok_kind t) (le_n n) s1 Hi1) as Hk. pose proof (Hprog acc t s1) as Hpg.
    destruct (run acc (tok_kind t) s1) as [[[acc' cont] s2]| |]; [|exact Hk|exact Hk].
    destruct Hk as [Hi2 Hr2]. cbn in Hi2, Hr2. cbv iota beta.
    destruct cont.
    + specialize (Hpg _ _ Hc1 eq_refl). unfold p_bind at 1.
      pose proof (a_debug _ (CM_atoms n) (ps_cur s1) s2 Hi2) as Hd.
      destruct (p_debug_assert_advanced (ps_cur s1) s2) as [[u s3]| |]; [|exact Hd|exact Hd].
      destruct Hd as [Hi3 Hr3]. cbn in Hi3, Hr3.
      assert (Hn1 : (n - 1 <= f)%nat) by lia.
      assert (Hs3 : (mu s3 < n - 1)%nat) by lia.
      specialize (IH (n - 1)%nat Hn1 (fun m a k Hm => Hrun m a k ltac:(lia)) acc' s3 Hs3).
      destruct (p_peek_while_acc f run acc' s3) as [[a s4]| |]; [|exact IH|exact IH].
      destruct IH as [Hi4 Hr4]. cbn in *. split; lia.
    + cbn. split; lia.
Qed.

Lemma T_peek_while (run : tkind -> PM bool) :
  (forall t s s', ps_cur s = Some t -> run (tok_kind t) s = POk (true, s') -> (mu s' < mu s)%nat) ->
  forall fuel n, (n <= fuel)%nat ->
    (forall m k, (m <= n)%nat -> spec (CM m) (run k)) ->
    spec (CM n) (p_peek_while fuel run).
Proof.
  intros Hprog fuel n Hn Hrun. unfold p_peek_while.
  eapply post_bind; [apply CM_rel| |intros; apply post_ret_same; apply CM_rel].
  apply T_peek_while_acc; auto.
  - intros acc t s r s' Hc E. apply bind_ok in E as (c & s1 & E & Er). unfold p_ret in Er.
    injection Er as _ Hc' <-. subst c. eapply Hprog; eauto.
  - intros m acc k Hm. eapply post_bind; [apply CM_rel|apply Hrun; exact Hm|intros; apply post_ret_same; apply CM_rel].
Qed.

Lemma T_peek_while_kind_acc {Acc} e (run : Acc -> PM Acc) :
  (forall acc t s r s', ps_cur s = Some t -> tok_kind t = e -> run acc s = POk (r, s') -> (mu s' < mu s)%nat) ->
  forall fuel n, (n <= fuel)%nat ->
    (forall m acc, (m <= n)%nat -> spec (CM m) (run acc)) ->
    forall acc, spec (CM n) (p_peek_while_kind_acc fuel e run acc).
Proof.
  intros Hprog. induction fuel as [|f IH]; intros n Hn Hrun acc s Hs; cbn in Hs.
  - lia.
  - cbn [p_peek_while_kind_acc]. unfold p_bind at 1.
    pose proof (d_peek _ (CM_atoms n) s Hs) as Hp. pose proof (peek_cur s) as Hpc.
    destruct (p_peek s) as [[o s1]| |]; [|exact Hp|exact Hp]. destruct Hp as [Hi1 Hr1]. cbn in Hi1, Hr1.
    specialize (Hpc _ _ eq_refl). destruct o as [kind|].
    2:{ cbn. split; lia. }
    destruct Hpc as (t & Hc1 & Hk). subst kind.
    destruct (tkind_eqb (tok_kind t) e) eqn:He; cbn [negb].
    2:{ cbn. split; lia. }
    apply tkind_eqb_eq in He.
    unfold p_bind at 1. unfold p_get at 1. cbv iota beta. unfold p_bind at 1.
    pose proof (Hrun n acc (le_n n) s1 Hi1) as Hk. pose proof (Hprog acc t s1) as Hpg.
    destruct (run acc s1) as [[acc' s2]| |]; [|exact Hk|exact Hk].
    destruct Hk as [Hi2 Hr2]. cbn in Hi2, Hr2.
    specialize (Hpg _ _ Hc1 He eq_refl). unfold p_bind at 1.
    pose proof (a_debug _ (CM_atoms n) (ps_cur s1) s2 Hi2) as Hd.
    destruct (p_debug_assert_advanced (ps_cur s1) s2) as [[u s3]| |]; [|exact Hd|exact Hd].
    destruct Hd as [Hi3 Hr3]. cbn in Hi3, Hr3.
    assert (Hn1 : (n - 1 <= f)%nat) by lia.
    assert (Hs3 : (mu s3 < n - 1)%nat) by lia.
    specialize (IH (n - 1)%nat Hn1 (fun m a Hm => Hrun m a ltac:(lia)) acc' s3 Hs3).
    destruct (p_peek_while_kind_acc f e run acc' s3) as [[a s4]| |]; [|exact IH|exact IH].
    destruct IH as [Hi4 Hr4]. cbn in *. split; lia.
Qed.

Lemma T_peek_while_kind e (run : PM unit) :
  (forall t, tok_kind t = e -> consumes_at t run) ->
  forall fuel n, (n <= fuel)%nat -> (forall m, (m <= n)%nat -> spec (CM m) run) ->
  spec (CM n) (p_peek_while_kind fuel e run).
Proof.
  intros Hc fuel n Hn Hrun. unfold p_peek_while_kind. apply T_peek_while_kind_acc; auto.
  intros acc t s r s' Hcur Hk E. eapply Hc; eauto.
Qed.

Lemma T_trailing_loop fuel : forall n, (n <= fuel)%nat -> spec (CM n) (p_trailing_loop fuel).
Proof.
  induction fuel as [|f IH]; intros n Hn s Hs; cbn in Hs; [lia|].
  cbn [p_trailing_loop]. unfold p_bind at 1.
  pose proof (d_peek _ (CM_atoms n) s Hs) as Hp. pose proof (peek_cur s) as Hpc.
  destruct (p_peek s) as [[o s1]| |]; [|exact Hp|exact Hp]. destruct Hp as [Hi1 Hr1]. cbn in Hi1, Hr1.
  specialize (Hpc _ _ eq_refl).
  assert (Hstep : forall t, ps_cur s1 = Some t ->
            match (p_err_and_pop ;; p_trailing_loop f) s1 with
            | POk (_, s') => (mu s' < n)%nat /\ (mu s' <= mu s)%nat | PPanic _ => True | POutOfFuel => False end).
  { intros t Hc1. unfold p_bind.
    pose proof (d_err_and_pop _ (CM_atoms n) s1 Hi1) as He. pose proof (C_err_and_pop t s1) as Hce.
    destruct (p_err_and_pop s1) as [[u s2]| |]; [|exact He|exact He]. destruct He as [Hi2 Hr2]. cbn in Hi2, Hr2.
    specialize (Hce _ _ Hc1 eq_refl).
    assert (Hs2 : (mu s2 < n - 1)%nat) by lia.
    specialize (IH (n - 1)%nat ltac:(lia) s2 Hs2).
    destruct (p_trailing_loop f s2) as [[a s3]| |]; [|exact IH|exact IH]. destruct IH as [Hi3 Hr3]. cbn in *. lia. }
  destruct o as [k|]; [|cbn; split; lia].
  destruct Hpc as (t & Hc1 & Hk).
  destruct k; try (exact (Hstep t Hc1)). cbn. split; lia.
Qed.
(* ---- every production terminates: T_X n fuel : n <= fuel -> spec (CM n) (g_X fuel ..) *)
Create HintDb term discriminated.
Global Hint Resolve CM_atoms CM_rel : term.
Global Hint Resolve a_peek_token a_pop a_skip_ignored a_push_ignored a_push_token a_push_syntax_err
  a_limit_err a_start_raw a_finish_node a_wrap_node a_ghost a_panic a_assert a_debug
  d_current d_peek d_eat d_bump d_err d_err_at_token d_err_and_pop d_at d_expect d_start_node
  d_checkpoint_node d_validate_name d_name d_peek_is post_ret_same post_get post_peek_n_inner : term.
Global Hint Extern 2 ((_ <= _)%nat) => lia : term.

Ltac tknown := solve [ eauto 4 with term ].
Ltac tstep :=
  first
    [ tknown
    | match goal with
      | |- post _ _ _ (p_bind _ _) => eapply post_bind; [ apply CM_rel | | intros ]
      | |- post _ _ _ (p_node _ _) => apply d_node; [ apply CM_atoms | ]
      | |- post _ _ _ (p_rec_guard _ _ _) => eapply a_rec_guard; [ apply CM_atoms | | | intros ]
      | |- post _ _ _ (g_if_peek _ _) => unfold g_if_peek
      | |- post _ _ _ (p_peek_data) => unfold p_peek_data
      | |- post _ _ _ (p_peek_n _) => unfold p_peek_n
      | |- post _ _ _ (p_peek_token_n _) => unfold p_peek_token_n
      | |- post _ _ _ (p_peek_data_n _) => unfold p_peek_data_n, p_peek_token_n
      | |- post _ _ _ (g_peek_in _) => unfold g_peek_in
      | |- post _ _ _ (g_peek_data_is _) => unfold g_peek_data_is
      end
    | gbranch ].
Ltac tsolve := repeat tstep.

(* productions without fuel *)
Lemma T_alias n : spec (CM n) g_alias. Proof. unfold g_alias. tsolve. Qed.
Lemma T_description n : spec (CM n) g_description. Proof. unfold g_description. tsolve. Qed.
Lemma T_named_type n : spec (CM n) g_named_type. Proof. unfold g_named_type. tsolve. Qed.
Lemma T_variable n : spec (CM n) g_variable. Proof. unfold g_variable. tsolve. Qed.
Lemma T_enum_value n : spec (CM n) g_enum_value. Proof. unfold g_enum_value. tsolve. Qed.
Lemma T_error_or_pop n b : spec (CM n) (g_error_or_pop b). Proof. unfold g_error_or_pop. tsolve. Qed.
Lemma T_directive_location n : spec (CM n) g_directive_location. Proof. unfold g_directive_location. tsolve. Qed.
Lemma T_fragment_name n : spec (CM n) g_fragment_name. Proof. unfold g_fragment_name. tsolve. Qed.
Global Hint Resolve T_alias T_description T_named_type T_variable T_enum_value T_error_or_pop
  T_directive_location T_fragment_name : term.
Lemma T_type_condition n : spec (CM n) g_type_condition. Proof. unfold g_type_condition. tsolve. Qed.
Lemma T_operation_type n : spec (CM n) g_operation_type. Proof. unfold g_operation_type. tsolve. Qed.
Lemma T_name_or_err n : spec (CM n) g_name_or_err. Proof. unfold g_name_or_err. tsolve. Qed.
Global Hint Resolve T_type_condition T_operation_type T_name_or_err : term.
Lemma T_root_operation_type_definition n : spec (CM n) g_root_operation_type_definition.
Proof. unfold g_root_operation_type_definition. tsolve. Qed.
Global Hint Resolve T_root_operation_type_definition : term.
(* ---- helpers for the three recursive families *)
Lemma spec_CM0 {A} (m : PM A) : spec (CM 0) m.
Proof. intros s Hs. cbn in Hs. lia. Qed.

Lemma T_peek_case n {A} (f : option tkind -> PM A) (R : pstate -> Prop) :
  post (CM n) (cInv (CM n)) R (f None) ->
  (forall t, post (CM n) (fun s => cInv (CM n) s /\ ps_cur s = Some t) R (f (Some (tok_kind t)))) ->
  post (CM n) (cInv (CM n)) R (o <- p_peek ;; f o).
Proof.
  intros HN HS s Hs. unfold p_bind at 1.
  pose proof (d_peek _ (CM_atoms n) s Hs) as Hp. pose proof (peek_cur s) as Hpc.
  destruct (p_peek s) as [[o s1]| |]; [|exact Hp|exact Hp]. destruct Hp as [Hi1 Hr1]. cbn in Hi1, Hr1.
  specialize (Hpc _ _ eq_refl). destruct o as [k|].
  - destruct Hpc as (t & Hc & <-). specialize (HS t s1 (conj Hi1 Hc)).
    destruct (f (Some (tok_kind t)) s1) as [[a s2]| |]; auto. destruct HS as [HR Hr2]. cbn in *. split; [auto|lia].
  - specialize (HN s1 Hi1). destruct (f None s1) as [[a s2]| |]; auto. destruct HN as [HR Hr2]. cbn in *. split; [auto|lia].
Qed.

(* node k (bump sk ;; rest) with a significant current token: rest runs one level lower *)
Lemma T_node_bump n {A} k sk t (rest : PM A) :
  sigtok t -> spec (CM (n - 1)) rest ->
  post (CM n) (fun s => cInv (CM n) s /\ ps_cur s = Some t) (cInv (CM n)) (p_node k (p_bump sk ;; rest)).
Proof.
  intros Hsig Hrest s [Hs Hc]. cbn in Hs. unfold p_node, p_bind at 1.
  pose proof (d_start_node _ (CM_atoms n) k s Hs) as H1. pose proof (start_node_keep k t s) as Hk.
  destruct (p_start_node k s) as [[u s1]| |]; [|exact H1|exact H1]. destruct H1 as [Hi1 Hr1]. cbn in Hi1, Hr1.
  destruct (Hk _ _ Hc Hsig eq_refl) as [Hc1 Hm1].
  unfold p_bind at 1, p_bind at 1.
  pose proof (d_bump _ (CM_atoms n) sk s1 Hi1) as H2. pose proof (C_bump t sk s1) as Hcb.
  destruct (p_bump sk s1) as [[u2 s2]| |]; [|exact H2|exact H2]. destruct H2 as [Hi2 Hr2]. cbn in Hi2, Hr2.
  specialize (Hcb _ _ Hc1 eq_refl).
  assert (Hs2 : (mu s2 < n - 1)%nat) by lia.
  specialize (Hrest s2 Hs2). destruct (rest s2) as [[r s3]| |]; [|exact Hrest|exact Hrest].
  destruct Hrest as [Hi3 Hr3]. cbn in Hi3, Hr3.
  unfold p_bind at 1.
  assert (Hs3 : (mu s3 < n)%nat) by lia.
  pose proof (a_finish_node _ (CM_atoms n) s3 Hs3) as H4.
  destruct (p_finish_node s3) as [[u4 s4]| |]; [|exact H4|exact H4]. destruct H4 as [Hi4 Hr4]. cbn in *. split; lia.
Qed.

Lemma post_strengthen_pre n {A} (P P' Q : pstate -> Prop) (m : PM A) :
  (forall s, P' s -> P s) -> post (CM n) P Q m -> post (CM n) P' Q m.
Proof. intros H Hm. eapply post_weaken; [exact H| |exact Hm]. auto. Qed.

(* ---- ty.rs *)
Lemma T_parse : forall fuel n, (n <= fuel)%nat -> spec (CM n) (g_parse fuel).
Proof.
  induction fuel as [|f IH]; intros n Hn.
  - assert (n = 0)%nat as -> by lia. apply spec_CM0.
  - cbn [g_parse]. unfold g_parse_body.
    eapply post_bind; [apply CM_rel|apply (d_checkpoint_node _ (CM_atoms n))|intros cp].
    apply T_peek_case.
    + tsolve.
    + intros t. eapply post_bind with (Q := cInv (CM n)); [apply CM_rel| |intros early; tsolve].
      destruct (tok_kind t) eqn:Hk; cbv iota beta.
      13:{ apply T_node_bump; [eapply sig_of_kind; eauto|].
           eapply a_rec_guard; [apply CM_atoms|tsolve|apply IH; lia|intros; tsolve]. }
      all: eapply post_strengthen_pre; [intros s0 [H0 _]; exact H0|]; tsolve.
Qed.
Global Hint Resolve T_parse : term.

Lemma T_ty n fuel : (n <= fuel)%nat -> spec (CM n) (g_ty fuel).
Proof. intros Hn. unfold g_ty. tsolve. Qed.
Global Hint Resolve T_ty : term.

(* ---- value.rs *)
Lemma list_item_progress f c t s s' :
  ps_cur s = Some t ->
  (if tkind_eqb (tok_kind t) TkRBracket then p_bump SK_R_BRACK ;; p_ret false
   else if tkind_eqb (tok_kind t) TkEof then p_ret false
   else p_rec_guard (p_limit_err ;; p_ret false) (g_value f c true) (fun _ => p_ret true)) s = POk (true, s') ->
  (mu s' < mu s)%nat.
Proof.
  intros Hc E. destruct (tkind_eqb _ TkRBracket).
  { apply bind_ok in E as (? & ? & _ & E). discriminate. }
  destruct (tkind_eqb _ TkEof); [discriminate|].
  unfold p_rec_guard in E. apply bind_ok in E as (reached & s1 & E1 & E).
  apply rec_check_keep in E1 as [Hc1 Hm1]. rewrite Hc in Hc1.
  destruct reached.
  - apply bind_ok in E as (? & ? & _ & E). discriminate.
  - apply bind_ok in E as (? & s2 & E2 & E). pose proof (C_value t f c _ _ _ Hc1 E2).
    apply bind_ok in E as (? & s3 & E3 & E). unfold p_ret in E. injection E as <-.
    unfold p_rec_decrement in E3. destruct (ptracker_decrement _) as [t3| |]; try discriminate. injection E3 as H0.
    subst s3. change (mu (ps_set_rec t3 s2)) with (mu s2). lia.
Qed.

Lemma T_value : forall fuel n, (n <= fuel)%nat -> forall c p, spec (CM n) (g_value fuel c p).
Proof.
  induction fuel as [|f IH]; intros n Hn c p.
  - assert (n = 0)%nat as -> by lia. apply spec_CM0.
  - cbn [g_value]. unfold g_value_body. apply T_peek_case.
    + tsolve.
    + intros t. destruct (tok_kind t) eqn:Hk; cbv iota beta.
      13:{ (* [ *)
        unfold g_list_value_. apply T_node_bump; [eapply sig_of_kind; eauto|].
        apply T_peek_while; [|lia|].
        - intros t0 s0 s0' Hc0 E0. eapply list_item_progress; eauto.
        - intros m k Hm. assert (Hmf : (m <= f)%nat) by lia. pose proof (IH m Hmf) as Hv. tsolve. }
      14:{ (* { *)
        unfold g_object_value_. apply T_node_bump; [eapply sig_of_kind; eauto|].
        eapply post_bind; [apply CM_rel| |intros; tsolve].
        apply T_peek_while_kind; [|lia|].
        - intros t0 Hk0. apply C_object_field_; [|exact Hk0]. intros c0 p0. apply (gg_value CMono CMono_ok).
        - intros m Hm. assert (Hmf : (m <= f)%nat) by lia. pose proof (IH m Hmf) as Hv.
          unfold g_object_field_. tsolve. }
      all: eapply post_strengthen_pre; [intros s0 [H0 _]; exact H0|]; tsolve.
Qed.
Global Hint Resolve T_value : term.

(* the loops `Name | StringValue => X; Continue, _ => Break` *)
Lemma name_or_string_progress (X : PM unit) :
  (forall t, tok_kind t = TkName \/ tok_kind t = TkStringValue -> consumes_at t X) ->
  forall t s s', ps_cur s = Some t ->
    (match tok_kind t with TkName | TkStringValue => X ;; p_ret true | _ => p_ret false end) s = POk (true, s') ->
    (mu s' < mu s)%nat.
Proof.
  intros HX t s s' Hc E. destruct (tok_kind t) eqn:Hk; try discriminate.
  all: apply bind_ok in E as (? & s1 & E1 & E); unfold p_ret in E; injection E as <-;
       eapply HX; eauto.
Qed.

Ltac t_loop_ns lem :=
  apply T_peek_while; [apply name_or_string_progress; intros; apply lem; assumption | lia | intros; tsolve].
Ltac t_loop_kind lem :=
  apply T_peek_while_kind; [intros; apply lem; assumption | lia | intros; tsolve].

Lemma T_default_value n fuel : (n <= fuel)%nat -> spec (CM n) (g_default_value fuel).
Proof. intros Hn. unfold g_default_value. tsolve. Qed.
Global Hint Resolve T_default_value : term.
Lemma T_argument n fuel c : (n <= fuel)%nat -> spec (CM n) (g_argument fuel c).
Proof. intros Hn. unfold g_argument. tsolve. Qed.
Global Hint Resolve T_argument : term.
Lemma T_arguments n fuel c : (n <= fuel)%nat -> spec (CM n) (g_arguments fuel c).
Proof.
  intros Hn. unfold g_arguments. apply d_node; [apply CM_atoms|].
  eapply post_bind; [apply CM_rel|tsolve|intros].
  eapply post_bind; [apply CM_rel|tsolve|intros].
  eapply post_bind; [apply CM_rel|tsolve|intros].
  eapply post_bind; [apply CM_rel| |intros; tsolve].
  t_loop_kind C_argument.
Qed.
Global Hint Resolve T_arguments : term.
Lemma T_directive n fuel c : (n <= fuel)%nat -> spec (CM n) (g_directive fuel c).
Proof. intros Hn. unfold g_directive. tsolve. Qed.
Global Hint Resolve T_directive : term.
Lemma T_directives n fuel c : (n <= fuel)%nat -> spec (CM n) (g_directives fuel c).
Proof. intros Hn. unfold g_directives. apply d_node; [apply CM_atoms|]. t_loop_kind C_directive. Qed.
Global Hint Resolve T_directives : term.
Lemma T_input_value_definition n fuel : (n <= fuel)%nat -> spec (CM n) (g_input_value_definition fuel).
Proof. intros Hn. unfold g_input_value_definition. tsolve. Qed.
Global Hint Resolve T_input_value_definition : term.

(* loops are recognised by the traversal tactic; the consumption facts come from a hint database *)
Lemma C_variable_definition' t fuel : tok_kind t = TkDollar -> consumes_at t (g_variable_definition fuel).
Proof. intros Hk. apply C_variable_definition. eapply sig_of_kind; eauto. Qed.
Lemma C_root_operation_type_definition' t : tok_kind t = TkName -> consumes_at t g_root_operation_type_definition.
Proof. intros Hk. apply C_root_operation_type_definition. eapply sig_of_kind; eauto. Qed.
Create HintDb consume discriminated.
Global Hint Resolve C_argument C_directive C_input_value_definition C_field_definition C_enum_value_definition
  C_variable_definition' C_root_operation_type_definition' : consume.

Ltac tloop :=
  match goal with
  | |- post _ _ _ (p_peek_while_kind _ _ _) =>
      apply T_peek_while_kind; [ intros; solve [eauto with consume] | lia | intros ]
  | |- post _ _ _ (p_peek_while _ _) =>
      apply T_peek_while; [ apply name_or_string_progress; intros; solve [eauto with consume] | lia | intros ]
  | |- post _ _ _ (p_parse_separated_list _ _ _ _) =>
      unfold p_parse_separated_list
  end.
Ltac tfull := repeat first [ tstep | tloop ].

Lemma T_arguments_definition_body n fuel : (n <= fuel)%nat -> spec (CM n) (g_arguments_definition_body fuel).
Proof. intros Hn. unfold g_arguments_definition_body. tfull. Qed.
Global Hint Resolve T_arguments_definition_body : term.
Lemma T_arguments_definition n fuel : (n <= fuel)%nat -> spec (CM n) (g_arguments_definition fuel).
Proof. intros Hn. unfold g_arguments_definition. tfull. Qed.
Global Hint Resolve T_arguments_definition : term.

(* separated lists: the loop body starts with a bump *)
Lemma T_sep_list n fuel sep ss (run : PM unit) :
  (n <= fuel)%nat -> (forall m, (m <= n)%nat -> spec (CM m) run) -> spec CMono run ->
  spec (CM n) (p_parse_separated_list fuel sep ss run).
Proof.
  intros Hn Hrun Hmono. unfold p_parse_separated_list.
  eapply post_bind; [apply CM_rel|tsolve|intros o].
  eapply post_bind; [apply CM_rel| |intros].
  { destruct (match o with Some k => tkind_eqb k sep | None => false end); cbn [p_when]; tsolve. }
  eapply post_bind; [apply CM_rel|apply Hrun; lia|intros].
  apply T_peek_while_kind; [intros; apply C_sep_body; exact Hmono|lia|].
  intros m Hm. eapply post_bind; [apply CM_rel|tsolve|intros; apply Hrun; lia].
Qed.

Lemma T_directive_locations n fuel : (n <= fuel)%nat -> spec (CM n) (g_directive_locations fuel).
Proof.
  intros Hn. unfold g_directive_locations. apply T_sep_list; [exact Hn|intros; tsolve|].
  apply (gg_directive_location CMono CMono_ok).
Qed.
Global Hint Resolve T_directive_locations : term.
Lemma T_directive_definition n fuel : (n <= fuel)%nat -> spec (CM n) (g_directive_definition fuel).
Proof. intros Hn. unfold g_directive_definition. tfull. Qed.
Global Hint Resolve T_directive_definition : term.
Lemma T_variable_definition n fuel : (n <= fuel)%nat -> spec (CM n) (g_variable_definition fuel).
Proof. intros Hn. unfold g_variable_definition. tfull. Qed.
Global Hint Resolve T_variable_definition : term.
Lemma T_variable_definitions n fuel : (n <= fuel)%nat -> spec (CM n) (g_variable_definitions fuel).
Proof. intros Hn. unfold g_variable_definitions. tfull. Qed.
Global Hint Resolve T_variable_definitions : term.
Lemma T_fragment_spread n fuel : (n <= fuel)%nat -> spec (CM n) (g_fragment_spread fuel).
Proof. intros Hn. unfold g_fragment_spread. tfull. Qed.
Global Hint Resolve T_fragment_spread : term.

(* ---- selection.rs / field.rs / fragment.rs *)
Lemma T_field_ n ss fuel : (n <= fuel)%nat -> spec (CM n) ss -> spec (CM n) (g_field_ ss fuel).
Proof. intros Hn Hss. unfold g_field_. tfull. Qed.
Lemma T_inline_fragment_ n ss fuel : (n <= fuel)%nat -> spec (CM n) ss -> spec (CM n) (g_inline_fragment_ ss fuel).
Proof. intros Hn Hss. unfold g_inline_fragment_. tfull. Qed.

Lemma peek_token_n_pure k s o s' : p_peek_token_n (S k) s = POk (o, s') -> s' = s.
Proof. unfold p_peek_token_n, p_peek_n_inner. intros [= _ <-]. reflexivity. Qed.

Lemma T_selection_ n ss fuel :
  (n <= fuel)%nat -> (forall m, (m <= n)%nat -> spec (CM m) ss) -> spec CMono ss ->
  spec (CM n) (g_selection_ ss fuel).
Proof.
  intros Hn Hss Hmono. unfold g_selection_.
  eapply post_bind; [apply CM_rel| |intros; tsolve].
  apply T_peek_while_acc; [|exact Hn|].
  - intros acc t s r s' Hc E. destruct (tok_kind t) eqn:Hk; try discriminate.
    + (* ... *)
      apply bind_ok in E as (nt & s1 & E1 & E). apply peek_token_n_pure in E1. subst s1.
      destruct nt as [nt|].
      * apply bind_ok in E as (? & s2 & E2 & E). unfold p_ret in E. injection E as _ <-.
        assert (Hsig : sigtok t) by (eapply sig_of_kind; eauto).
        destruct (_ && _).
        -- eapply C_fragment_spread; eauto.
        -- destruct (existsb _ _).
           ++ eapply C_inline_fragment_; eauto.
           ++ eapply (C_err_then t (p_bump SK_SPREAD)); eauto. apply C_bump.
      * apply bind_ok in E as (? & s2 & _ & E). discriminate.
    + (* Name *)
      apply bind_ok in E as (? & s2 & E2 & E). unfold p_ret in E. injection E as _ <-.
      eapply C_field_; eauto.
  - intros m acc k Hm. pose proof (Hss m Hm) as Hssm.
    assert (Hmf : (m <= fuel)%nat) by lia.
    pose proof (T_field_ m ss fuel Hmf Hssm). pose proof (T_inline_fragment_ m ss fuel Hmf Hssm).
    tsolve.
Qed.

Lemma T_peek_is_case n k {A} (K : bool -> PM A) (R : pstate -> Prop) :
  post (CM n) (cInv (CM n)) R (K false) ->
  (forall t, tok_kind t = k -> post (CM n) (fun s => cInv (CM n) s /\ ps_cur s = Some t) R (K true)) ->
  post (CM n) (cInv (CM n)) R (b <- g_peek_is k ;; K b).
Proof.
  intros HF HT s Hs. unfold p_bind at 1, g_peek_is, p_bind at 1.
  pose proof (d_peek _ (CM_atoms n) s Hs) as Hp. pose proof (peek_cur s) as Hpc.
  destruct (p_peek s) as [[o s1]| |]; [|exact Hp|exact Hp]. destruct Hp as [Hi1 Hr1]. cbn in Hr1.
  specialize (Hpc _ _ eq_refl). cbn [p_ret]. cbv iota beta.
  assert (Hfalse : match K false s1 with
                   | POk (_, s') => R s' /\ cRel (CM n) s s' | PPanic _ => cPanicOk (CM n) | POutOfFuel => cFuelOk (CM n) end).
  { specialize (HF s1 Hi1). destruct (K false s1) as [[a s2]| |]; auto. destruct HF as [HR Hr2]. cbn in *. split; [auto|lia]. }
  destruct o as [k0|]; [|exact Hfalse].
  destruct Hpc as (t & Hc & <-).
  destruct (tkind_eqb (tok_kind t) k) eqn:Hk; [|exact Hfalse].
  apply tkind_eqb_eq in Hk. specialize (HT t Hk s1 (conj Hi1 Hc)).
  destruct (K true s1) as [[a s2]| |]; auto. destruct HT as [HR Hr2]. cbn in *. split; [auto|lia].
Qed.

Lemma T_selection_set : forall fuel n, (n <= fuel)%nat -> spec (CM n) (g_selection_set fuel).
Proof.
  induction fuel as [|f IH]; intros n Hn.
  - assert (n = 0)%nat as -> by lia. apply spec_CM0.
  - cbn [g_selection_set]. unfold g_selection_set_body. apply T_peek_is_case.
    + cbn [p_when]. tsolve.
    + intros t Hk. cbn [p_when]. apply T_node_bump; [eapply sig_of_kind; eauto|].
      eapply a_rec_guard; [apply CM_atoms|tsolve| |intros; tsolve].
      apply T_selection_; [lia| |apply (gg_selection_set CMono CMono_ok)].
      intros m Hm. apply IH. lia.
Qed.
Global Hint Resolve T_selection_set : term.

Lemma T_selection n fuel : (n <= fuel)%nat -> spec (CM n) (g_selection fuel).
Proof.
  intros Hn. unfold g_selection. apply T_selection_; [exact Hn| |apply (gg_selection_set CMono CMono_ok)].
  intros m Hm. apply T_selection_set. lia.
Qed.
Global Hint Resolve T_selection : term.

(* ---- the remaining productions *)
Lemma T_trailing n fuel : (n <= fuel)%nat -> spec (CM n) (p_trailing_tokens_are_errors fuel).
Proof.
  intros Hn. unfold p_trailing_tokens_are_errors.
  eapply post_bind; [apply CM_rel|tsolve|intros].
  eapply post_bind; [apply CM_rel|apply T_trailing_loop; exact Hn|intros; tsolve].
Qed.
Global Hint Resolve T_trailing : term.

Lemma T_field_set n fuel : (n <= fuel)%nat -> spec (CM n) (g_field_set fuel).
Proof. intros Hn. unfold g_field_set. tfull. Qed.

Lemma T_fragment_definition n fuel : (n <= fuel)%nat -> spec (CM n) (g_fragment_definition fuel).
Proof. intros Hn. unfold g_fragment_definition. tfull. Qed.
Lemma T_operation_definition n fuel : (n <= fuel)%nat -> spec (CM n) (g_operation_definition fuel).
Proof. intros Hn. unfold g_operation_definition. tfull. Qed.
Lemma T_field_definition n fuel : (n <= fuel)%nat -> spec (CM n) (g_field_definition fuel).
Proof. intros Hn. unfold g_field_definition. tfull. Qed.
Global Hint Resolve T_fragment_definition T_operation_definition T_field_definition : term.
Lemma T_fields_definition n fuel : (n <= fuel)%nat -> spec (CM n) (g_fields_definition fuel).
Proof. intros Hn. unfold g_fields_definition. tfull. Qed.
Global Hint Resolve T_fields_definition : term.

Lemma T_implements_interfaces n fuel : (n <= fuel)%nat -> spec (CM n) (g_implements_interfaces fuel).
Proof.
  intros Hn. unfold g_implements_interfaces. apply d_node; [apply CM_atoms|].
  eapply post_bind; [apply CM_rel|tsolve|intros].
  apply T_sep_list; [exact Hn|intros; tsolve|]. pose proof CMono_ok as H. gfull.
Qed.
Global Hint Resolve T_implements_interfaces : term.
Lemma T_union_member_types n fuel : (n <= fuel)%nat -> spec (CM n) (g_union_member_types fuel).
Proof.
  intros Hn. unfold g_union_member_types. apply d_node; [apply CM_atoms|].
  eapply post_bind; [apply CM_rel|tsolve|intros].
  apply T_sep_list; [exact Hn|intros; tsolve|]. pose proof CMono_ok as H. gfull.
Qed.
Global Hint Resolve T_union_member_types : term.

Lemma T_object_type_definition n fuel : (n <= fuel)%nat -> spec (CM n) (g_object_type_definition fuel).
Proof. intros Hn. unfold g_object_type_definition. tfull. Qed.
Lemma T_object_type_extension n fuel : (n <= fuel)%nat -> spec (CM n) (g_object_type_extension fuel).
Proof. intros Hn. unfold g_object_type_extension. tfull. Qed.
Lemma T_interface_type_definition n fuel : (n <= fuel)%nat -> spec (CM n) (g_interface_type_definition fuel).
Proof. intros Hn. unfold g_interface_type_definition. tfull. Qed.
Lemma T_interface_type_extension n fuel : (n <= fuel)%nat -> spec (CM n) (g_interface_type_extension fuel).
Proof. intros Hn. unfold g_interface_type_extension. tfull. Qed.
Lemma T_scalar_type_definition n fuel : (n <= fuel)%nat -> spec (CM n) (g_scalar_type_definition fuel).
Proof. intros Hn. unfold g_scalar_type_definition. tfull. Qed.
Lemma T_scalar_type_extension n fuel : (n <= fuel)%nat -> spec (CM n) (g_scalar_type_extension fuel).
Proof. intros Hn. unfold g_scalar_type_extension. tfull. Qed.

Lemma T_root_loop n fuel :
  (n <= fuel)%nat ->
  spec (CM n) (p_peek_while_kind_acc fuel TkName (fun _ : bool => g_root_operation_type_definition ;; p_ret true) false).
Proof.
  intros Hn. apply T_peek_while_kind_acc; [|exact Hn|intros; tsolve].
  intros acc t s r s' Hc Hk E. apply bind_ok in E as (? & s1 & E1 & E). unfold p_ret in E. injection E as _ <-.
  eapply C_root_operation_type_definition'; eauto.
Qed.
Global Hint Resolve T_root_loop : term.
Lemma T_schema_definition n fuel : (n <= fuel)%nat -> spec (CM n) (g_schema_definition fuel).
Proof. intros Hn. unfold g_schema_definition. tfull. Qed.
Lemma T_schema_extension n fuel : (n <= fuel)%nat -> spec (CM n) (g_schema_extension fuel).
Proof. intros Hn. unfold g_schema_extension. tfull. Qed.
Lemma T_union_type_definition n fuel : (n <= fuel)%nat -> spec (CM n) (g_union_type_definition fuel).
Proof. intros Hn. unfold g_union_type_definition. tfull. Qed.
Lemma T_union_type_extension n fuel : (n <= fuel)%nat -> spec (CM n) (g_union_type_extension fuel).
Proof. intros Hn. unfold g_union_type_extension. tfull. Qed.
Lemma T_enum_value_definition n fuel : (n <= fuel)%nat -> spec (CM n) (g_enum_value_definition fuel).
Proof. intros Hn. unfold g_enum_value_definition. tfull. Qed.
Global Hint Resolve T_enum_value_definition : term.
Lemma T_enum_values_definition n fuel : (n <= fuel)%nat -> spec (CM n) (g_enum_values_definition fuel).
Proof. intros Hn. unfold g_enum_values_definition. tfull. Qed.
Global Hint Resolve T_enum_values_definition : term.
Lemma T_enum_type_definition n fuel : (n <= fuel)%nat -> spec (CM n) (g_enum_type_definition fuel).
Proof. intros Hn. unfold g_enum_type_definition. tfull. Qed.
Lemma T_enum_type_extension n fuel : (n <= fuel)%nat -> spec (CM n) (g_enum_type_extension fuel).
Proof. intros Hn. unfold g_enum_type_extension. tfull. Qed.
Lemma T_input_fields_definition n fuel : (n <= fuel)%nat -> spec (CM n) (g_input_fields_definition fuel).
Proof. intros Hn. unfold g_input_fields_definition. tfull. Qed.
Global Hint Resolve T_input_fields_definition : term.
Lemma T_input_object_type_definition n fuel : (n <= fuel)%nat -> spec (CM n) (g_input_object_type_definition fuel).
Proof. intros Hn. unfold g_input_object_type_definition. tfull. Qed.
Lemma T_input_object_type_extension n fuel : (n <= fuel)%nat -> spec (CM n) (g_input_object_type_extension fuel).
Proof. intros Hn. unfold g_input_object_type_extension. tfull. Qed.
Global Hint Resolve T_object_type_definition T_object_type_extension T_interface_type_definition
  T_interface_type_extension T_scalar_type_definition T_scalar_type_extension T_schema_definition
  T_schema_extension T_union_type_definition T_union_type_extension T_enum_type_definition
  T_enum_type_extension T_input_object_type_definition T_input_object_type_extension : term.
Lemma T_extensions n fuel : (n <= fuel)%nat -> spec (CM n) (g_extensions fuel).
Proof. intros Hn. unfold g_extensions. tfull. Qed.
Global Hint Resolve T_extensions : term.
Lemma T_select_definition n def fuel : (n <= fuel)%nat -> spec (CM n) (g_select_definition def fuel).
Proof. intros Hn. unfold g_select_definition. tfull. Qed.
Global Hint Resolve T_select_definition : term.
Lemma T_document_step n fuel kind : (n <= fuel)%nat -> spec (CM n) (g_document_step fuel kind).
Proof. intros Hn. unfold g_document_step. tfull. Qed.
Global Hint Resolve T_document_step : term.
(* ---- the document loop: every iteration that continues consumes *)
Ltac mtail := intros ?; let H := fresh "H" in pose proof CMono_ok as H; gfull.

(* definitions entered on a description *)
Lemma C_desc_first {B} t k (rest : unit -> PM B) :
  tok_kind t = TkStringValue -> (forall a, spec CMono (rest a)) ->
  consumes_at t (p_node k (x <- g_if_peek TkStringValue g_description ;; rest x)).
Proof.
  intros Hk Hr. apply C_node; [eapply sig_of_kind; eauto|].
  apply C_if_peek_true; [rewrite Hk; reflexivity|apply C_description; eapply sig_of_kind; eauto|exact Hr].
Qed.

(* definitions entered on their keyword *)
Lemma C_kw_first {B} t k kw kk (rest : unit -> PM B) :
  sigtok t -> tkind_eqb (tok_kind t) TkStringValue = false -> p_str_eqb (tok_data t) kw = true ->
  (forall a, spec CMono (rest a)) ->
  consumes_at t (p_node k (g_if_peek TkStringValue g_description ;;
                           b <- g_peek_data_is kw ;; x <- p_when b (p_bump kk) ;; rest x)).
Proof.
  intros Hs Hk Hd Hr. apply C_node; [exact Hs|].
  apply C_if_peek_false; [exact Hk|].
  eapply C_keepv; [apply (peek_data_is_some kw)|]. rewrite Hd. cbn [p_when].
  apply C_bind1; [apply C_bump|exact Hr].
Qed.

Lemma C_selection_set t fuel : tok_kind t = TkLCurly -> consumes_at t (g_selection_set fuel).
Proof.
  intros Hk. destruct fuel as [|f]; cbn [g_selection_set]; [intros s a s' _ E; discriminate|].
  unfold g_selection_set_body. eapply C_keepv; [apply (peek_is_some TkLCurly)|]. rewrite Hk. cbn [tkind_eqb p_when].
  apply C_node; [eapply sig_of_kind; eauto|]. apply C_bind1; [apply C_bump|].
  intros ?. pose proof CMono_ok as H. pose proof (gg_selection_set CMono H f) as Hss.
  pose proof (gg_selection_ CMono H _ Hss f). gfull.
Qed.

Lemma C_keep_any {A B} t (m : PM A) (f : A -> PM B) :
  (forall s a s', m s = POk (a, s') -> s' = s) -> (forall a, consumes_at t (f a)) -> consumes_at t (x <- m ;; f x).
Proof.
  intros Hm Hf s b s' Hc E. apply bind_ok in E as (a & s1 & E1 & E). apply Hm in E1. subst s1. eapply Hf; eauto.
Qed.
Lemma peek_data_n_pure k s o s' : p_peek_data_n (S k) s = POk (o, s') -> s' = s.
Proof. unfold p_peek_data_n, p_bind, p_peek_token_n, p_peek_n_inner, p_ret. intros [= _ <-]. reflexivity. Qed.

Lemma C_extensions t fuel : sigtok t -> consumes_at t (g_extensions fuel).
Proof.
  intros Hs. unfold g_extensions. apply C_keep_any; [apply peek_data_n_pure|]. intros o.
  destruct o as [d|]; [|apply C_err_and_pop].
  repeat (match goal with |- consumes_at _ (if ?b then _ else _) => destruct b end);
    try apply C_err_and_pop;
    (match goal with |- consumes_at _ (?f fuel) => unfold f end);
    (apply C_node; [exact Hs|]; apply C_bind1; [apply C_bump|mtail]).
Qed.

Lemma C_operation_definition t fuel : sigtok t -> consumes_at t (g_operation_definition fuel).
Proof.
  intros Hs. unfold g_operation_definition. eapply C_keepv; [apply peek_some|].
  destruct (tok_kind t) eqn:Hk; cbv iota beta; try apply C_err_and_pop.
  - apply C_node; [exact Hs|]. apply C_selection_set. exact Hk.
  - apply C_node; [exact Hs|]. apply C_bind1; [apply C_operation_type; exact Hs|mtail].
Qed.

Lemma C_fragment_definition t fuel : sigtok t -> consumes_at t (g_fragment_definition fuel).
Proof.
  intros Hs. unfold g_fragment_definition. eapply C_keepv; [apply (peek_is_some TkStringValue)|].
  destruct (tkind_eqb (tok_kind t) TkStringValue); [apply C_err_and_pop|].
  apply C_node; [exact Hs|]. apply C_bind1; [apply C_bump|mtail].
Qed.

Ltac kw_case Hs Hk :=
  match goal with
  | Hd : p_str_eqb (tok_data _) ?kw = true |- consumes_at ?t (?f ?fuel) =>
      unfold f; apply C_kw_first; [exact Hs|exact Hk|exact Hd|mtail]
  end.
Ltac desc_case Hk :=
  match goal with
  | |- consumes_at ?t (?f ?fuel) => unfold f; apply C_desc_first; [exact Hk|mtail]
  end.

(* entered on a description (the definition keyword is the second token's) *)
Lemma C_select_definition_string t def fuel :
  tok_kind t = TkStringValue -> consumes_at t (g_select_definition def fuel).
Proof.
  intros Hk. assert (Hs : sigtok t) by (eapply sig_of_kind; eauto). unfold g_select_definition.
  repeat (match goal with |- consumes_at _ (if ?b then _ else _) => destruct b end);
    try apply C_err_and_pop; try (desc_case Hk);
    try (apply C_extensions; exact Hs); try (apply C_fragment_definition; exact Hs);
    try (apply C_operation_definition; exact Hs).
Qed.

(* entered on the definition keyword itself: def is the data of the current token *)
Lemma C_select_definition_data t fuel :
  sigtok t -> tkind_eqb (tok_kind t) TkStringValue = false -> consumes_at t (g_select_definition (tok_data t) fuel).
Proof.
  intros Hs Hk. unfold g_select_definition.
  repeat (match goal with |- consumes_at _ (if ?b then _ else _) => destruct b eqn:? end);
    try apply C_err_and_pop; try (kw_case Hs Hk);
    try (apply C_extensions; exact Hs); try (apply C_fragment_definition; exact Hs);
    try (apply C_operation_definition; exact Hs).
Qed.

Lemma document_step_progress fuel t s s' :
  ps_cur s = Some t -> g_document_step fuel (tok_kind t) s = POk (true, s') -> (mu s' < mu s)%nat.
Proof.
  intros Hc E. unfold g_document_step in E. destruct (tok_kind t) eqn:Hk; try discriminate.
  all: try (apply bind_ok in E as (? & s1 & E1 & E); unfold p_ret in E; injection E as <-;
            eapply C_err_and_pop; eauto; fail).
  - (* { *)
    apply bind_ok in E as (d & s1 & E1 & E). rewrite (peek_data_some t s Hc) in E1. injection E1 as <- <-.
    apply bind_ok in E as (? & s2 & E2 & E). unfold p_ret in E. injection E as <-.
    eapply C_select_definition_data; eauto; [eapply sig_of_kind; eauto|rewrite Hk; reflexivity].
  - (* Name *)
    apply bind_ok in E as (d & s1 & E1 & E). rewrite (peek_data_some t s Hc) in E1. injection E1 as <- <-.
    apply bind_ok in E as (? & s2 & E2 & E). unfold p_ret in E. injection E as <-.
    eapply C_select_definition_data; eauto; [eapply sig_of_kind; eauto|rewrite Hk; reflexivity].
  - (* StringValue *)
    apply bind_ok in E as (d & s1 & E1 & E). apply peek_data_n_pure in E1. subst s1.
    apply bind_ok in E as (? & s2 & E2 & E). unfold p_ret in E. injection E as <-.
    destruct d as [def|]; [eapply C_select_definition_string; eauto|eapply C_err_and_pop; eauto].
Qed.

Lemma T_document n fuel : (n <= fuel)%nat -> spec (CM n) (g_document fuel).
Proof.
  intros Hn. rewrite g_document_unfold. apply d_node; [apply CM_atoms|].
  eapply post_bind; [apply CM_rel|tsolve|intros o].
  eapply post_bind; [apply CM_rel|tsolve|intros].
  eapply post_bind; [apply CM_rel| |intros; tsolve].
  apply T_peek_while; [|exact Hn|intros; tsolve].
  intros t s s' Hc E. apply bind_ok in E as (? & s1 & E1 & E).
  assert (s1 = s) as ->.
  { unfold g_assert_recursion_balanced in E1. destruct (_ =? _); [injection E1 as _ <-; reflexivity|discriminate]. }
  eapply document_step_progress; eauto.
Qed.

Lemma T_type_entry n fuel : (n <= fuel)%nat -> spec (CM n) (g_type_entry fuel).
Proof. intros Hn. unfold g_type_entry. tfull. Qed.

(* ---- the entries: fuel_for items = length items + 2 is never exhausted (whatever debug_assertions) *)
Lemma init_mu dbg rl items : mu (p_init_state dbg rl items) = length items.
Proof. unfold mu. cbn. lia. Qed.

Theorem run_terminates (g : nat -> PM unit) :
  (forall n fuel, (n <= fuel)%nat -> spec (CM n) (g fuel)) ->
  forall fuel dbg rl items, (length items < fuel)%nat -> p_run_with fuel g dbg rl items <> POutOfFuel.
Proof.
  intros Hg fuel dbg rl items Hf. unfold p_run_with, p_finish.
  assert (Hs : (mu (p_init_state dbg rl items) < fuel)%nat) by (rewrite init_mu; exact Hf).
  pose proof (Hg fuel fuel (le_n _) _ Hs) as H.
  destruct (g fuel (p_init_state dbg rl items)) as [[u s]| |]; [|discriminate|contradiction].
  unfold pb_finish. destruct (pb_children _) as [|[k c|k x] [|y l]]; discriminate.
Qed.

Theorem document_terminates dbg rl items : parse_document_items dbg rl items <> POutOfFuel.
Proof. apply (run_terminates g_document T_document). unfold p_fuel_for. lia. Qed.
Theorem selection_set_terminates dbg rl items : parse_selection_set_items dbg rl items <> POutOfFuel.
Proof. apply (run_terminates g_field_set T_field_set). unfold p_fuel_for. lia. Qed.
Theorem type_terminates dbg rl items : parse_type_items dbg rl items <> POutOfFuel.
Proof. apply (run_terminates g_type_entry T_type_entry). unfold p_fuel_for. lia. Qed.
