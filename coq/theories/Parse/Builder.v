(* SyntaxKind (only the kinds the grammar produces), the syntax tree, and rowan's GreenNodeBuilder as used by
   SyntaxTreeBuilder (crates/apollo-parser/src/parser/syntax_tree.rs; rowan-0.16.1 src/green/builder.rs). *)
From ApolloVerif Require Import Base.Chars Parse.Outcome.

Inductive skind :=
(* tokens *)
| WHITESPACE | COMMENT | COMMA | ERROR | IDENT | STRING | INT | FLOAT
| BANG | DOLLAR | AMP | SPREAD | COLON | EQ | AT | L_PAREN | R_PAREN | L_BRACK | R_BRACK
| L_CURLY | R_CURLY | PIPE
(* keywords *)
| query_KW | mutation_KW | subscription_KW | fragment_KW | on_KW | null_KW | true_KW | false_KW
| extend_KW | schema_KW | scalar_KW | implements_KW | interface_KW | union_KW | enum_KW | input_KW
| directive_KW | type_KW | repeatable_KW
| QUERY_KW | MUTATION_KW | SUBSCRIPTION_KW | FIELD_KW | FRAGMENT_DEFINITION_KW | FRAGMENT_SPREAD_KW
| INLINE_FRAGMENT_KW | VARIABLE_DEFINITION_KW | SCHEMA_KW | SCALAR_KW | OBJECT_KW | FIELD_DEFINITION_KW
| ARGUMENT_DEFINITION_KW | INTERFACE_KW | UNION_KW | ENUM_KW | ENUM_VALUE_KW | INPUT_OBJECT_KW
| INPUT_FIELD_DEFINITION_KW
(* nodes *)
| DOCUMENT | OPERATION_DEFINITION | OPERATION_TYPE | SELECTION_SET | FIELD | ALIAS | NAME
| ARGUMENTS | ARGUMENT | FRAGMENT_SPREAD | INLINE_FRAGMENT | FRAGMENT_DEFINITION | FRAGMENT_NAME
| TYPE_CONDITION | VARIABLE | VARIABLE_DEFINITIONS | VARIABLE_DEFINITION | DEFAULT_VALUE
| STRING_VALUE | INT_VALUE | FLOAT_VALUE | BOOLEAN_VALUE | NULL_VALUE | ENUM_VALUE | LIST_VALUE
| OBJECT_VALUE | OBJECT_FIELD | TYPE | NAMED_TYPE | LIST_TYPE | NON_NULL_TYPE | DIRECTIVES | DIRECTIVE
| DESCRIPTION | SCHEMA_DEFINITION | SCHEMA_EXTENSION | ROOT_OPERATION_TYPE_DEFINITION
| SCALAR_TYPE_DEFINITION | SCALAR_TYPE_EXTENSION | OBJECT_TYPE_DEFINITION | OBJECT_TYPE_EXTENSION
| IMPLEMENTS_INTERFACES | FIELDS_DEFINITION | FIELD_DEFINITION | ARGUMENTS_DEFINITION
| INPUT_VALUE_DEFINITION | INTERFACE_TYPE_DEFINITION | INTERFACE_TYPE_EXTENSION
| UNION_TYPE_DEFINITION | UNION_TYPE_EXTENSION | UNION_MEMBER_TYPES | ENUM_TYPE_DEFINITION
| ENUM_TYPE_EXTENSION | ENUM_VALUES_DEFINITION | ENUM_VALUE_DEFINITION
| INPUT_OBJECT_TYPE_DEFINITION | INPUT_OBJECT_TYPE_EXTENSION | INPUT_FIELDS_DEFINITION
| DIRECTIVE_DEFINITION | DIRECTIVE_LOCATIONS | DIRECTIVE_LOCATION.

(* A green tree: interior nodes and tokens (leaves carrying their text). *)
Inductive tree :=
| Node (k : skind) (children : list tree)
| Leaf (k : skind) (text : str).

Fixpoint text_of (t : tree) : str :=
  match t with
  | Leaf _ s => s
  | Node _ c => (fix go (l : list tree) : str :=
                   match l with [] => [] | x :: r => text_of x ++ go r end) c
  end.

Definition texts_of (l : list tree) : str := concat (map text_of l).

(* the tokens of the tree, in order *)
Fixpoint leaves (t : tree) : list (skind * str) :=
  match t with
  | Leaf k s => [(k, s)]
  | Node _ c => (fix go (l : list tree) : list (skind * str) :=
                   match l with [] => [] | x :: r => leaves x ++ go r end) c
  end.

Definition tree_kind (t : tree) : skind := match t with Node k _ => k | Leaf k _ => k end.

(* text_range() of every element, preorder, as byte offsets: (kind, is_token, start, end).
   rowan computes a range from the cumulated text lengths, which is what this does. *)
Fixpoint ranges (off : N) (t : tree) : list (skind * bool * N * N) :=
  match t with
  | Leaf k s => [(k, true, off, off + blen s)]
  | Node k c =>
      (k, false, off, off + blen (text_of t)) ::
      (fix go (o : N) (l : list tree) : list (skind * bool * N * N) :=
         match l with [] => [] | x :: r => ranges o x ++ go (o + blen (text_of x)) r end) off c
  end.

(* ---- GreenNodeBuilder ----
   `children` is kept in REVERSE order (the most recently pushed element first); an index i of rowan's
   vector is position (len - 1 - i) here.  `parents` has the innermost open node first. *)
Record builder := { b_parents : list (skind * nat); b_children : list tree }.

Definition builder_new : builder := {| b_parents := []; b_children := [] |}.

(* token(kind, text): children.push *)
Definition b_token (k : skind) (text : str) (b : builder) : builder :=
  {| b_parents := b_parents b; b_children := Leaf k text :: b_children b |}.

(* start_node(kind): parents.push((kind, children.len())) *)
Definition b_start_node (k : skind) (b : builder) : builder :=
  {| b_parents := (k, length (b_children b)) :: b_parents b; b_children := b_children b |}.

(* finish_node(): let (kind, first_child) = parents.pop().unwrap();
                  node = cache.node(kind, &mut children, first_child)  -- children.drain(first_child..)
                  children.push(node) *)
Definition b_finish_node (b : builder) : outcome builder :=
  match b_parents b with
  | [] => Panic BuilderFinishNode
  | (k, first_child) :: ps =>
      let len := length (b_children b) in
      if Nat.ltb len first_child then Panic BuilderFinishNode
      else
        let n := (len - first_child)%nat in
        Ok {| b_parents := ps;
              b_children := Node k (rev (firstn n (b_children b))) :: skipn n (b_children b) |}
  end.

(* checkpoint(): children.len() *)
Definition b_checkpoint (b : builder) : nat := length (b_children b).

(* start_node_at(checkpoint, kind) with its two assertions *)
Definition b_start_node_at (cp : nat) (k : skind) (b : builder) : outcome builder :=
  if Nat.ltb (length (b_children b)) cp then Panic BuilderCheckpointLen
  else
    match b_parents b with
    | (_, first_child) :: _ =>
        if Nat.ltb cp first_child then Panic BuilderCheckpointParent
        else Ok {| b_parents := (k, cp) :: b_parents b; b_children := b_children b |}
    | [] => Ok {| b_parents := (k, cp) :: b_parents b; b_children := b_children b |}
    end.

(* finish(): assert_eq!(children.len(), 1); the element must be a node.  (`parents` is not inspected.) *)
Definition b_finish (b : builder) : outcome tree :=
  match b_children b with
  | [Node k c] => Ok (Node k c)
  | _ => Panic BuilderFinish
  end.

(* the text the builder holds so far: every element of `children`, oldest first *)
Definition b_text (b : builder) : str := texts_of (rev (b_children b)).
