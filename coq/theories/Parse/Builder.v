(* SyntaxKind (only the kinds the grammar produces), the syntax tree, and rowan's GreenNodeBuilder as used by
   SyntaxTreeBuilder (crates/apollo-parser/src/parser/syntax_tree.rs; rowan-0.16.1 src/green/builder.rs). *)
From ApolloVerif Require Import Base.Chars Parse.Outcome.

Inductive skind :=
(* tokens *)
| SK_WHITESPACE | SK_COMMENT | SK_COMMA | SK_ERROR | SK_IDENT | SK_STRING | SK_INT | SK_FLOAT
| SK_BANG | SK_DOLLAR | SK_AMP | SK_SPREAD | SK_COLON | SK_EQ | SK_AT | SK_L_PAREN | SK_R_PAREN | SK_L_BRACK | SK_R_BRACK
| SK_L_CURLY | SK_R_CURLY | SK_PIPE
(* keywords *)
| SK_query_KW | SK_mutation_KW | SK_subscription_KW | SK_fragment_KW | SK_on_KW | SK_null_KW | SK_true_KW | SK_false_KW
| SK_extend_KW | SK_schema_KW | SK_scalar_KW | SK_implements_KW | SK_interface_KW | SK_union_KW | SK_enum_KW | SK_input_KW
| SK_directive_KW | SK_type_KW | SK_repeatable_KW
| SK_QUERY_KW | SK_MUTATION_KW | SK_SUBSCRIPTION_KW | SK_FIELD_KW | SK_FRAGMENT_DEFINITION_KW | SK_FRAGMENT_SPREAD_KW
| SK_INLINE_FRAGMENT_KW | SK_VARIABLE_DEFINITION_KW | SK_SCHEMA_KW | SK_SCALAR_KW | SK_OBJECT_KW | SK_FIELD_DEFINITION_KW
| SK_ARGUMENT_DEFINITION_KW | SK_INTERFACE_KW | SK_UNION_KW | SK_ENUM_KW | SK_ENUM_VALUE_KW | SK_INPUT_OBJECT_KW
| SK_INPUT_FIELD_DEFINITION_KW
(* nodes *)
| SK_DOCUMENT | SK_OPERATION_DEFINITION | SK_OPERATION_TYPE | SK_SELECTION_SET | SK_FIELD | SK_ALIAS | SK_NAME
| SK_ARGUMENTS | SK_ARGUMENT | SK_FRAGMENT_SPREAD | SK_INLINE_FRAGMENT | SK_FRAGMENT_DEFINITION | SK_FRAGMENT_NAME
| SK_TYPE_CONDITION | SK_VARIABLE | SK_VARIABLE_DEFINITIONS | SK_VARIABLE_DEFINITION | SK_DEFAULT_VALUE
| SK_STRING_VALUE | SK_INT_VALUE | SK_FLOAT_VALUE | SK_BOOLEAN_VALUE | SK_NULL_VALUE | SK_ENUM_VALUE | SK_LIST_VALUE
| SK_OBJECT_VALUE | SK_OBJECT_FIELD | SK_TYPE | SK_NAMED_TYPE | SK_LIST_TYPE | SK_NON_NULL_TYPE | SK_DIRECTIVES | SK_DIRECTIVE
| SK_DESCRIPTION | SK_SCHEMA_DEFINITION | SK_SCHEMA_EXTENSION | SK_ROOT_OPERATION_TYPE_DEFINITION
| SK_SCALAR_TYPE_DEFINITION | SK_SCALAR_TYPE_EXTENSION | SK_OBJECT_TYPE_DEFINITION | SK_OBJECT_TYPE_EXTENSION
| SK_IMPLEMENTS_INTERFACES | SK_FIELDS_DEFINITION | SK_FIELD_DEFINITION | SK_ARGUMENTS_DEFINITION
| SK_INPUT_VALUE_DEFINITION | SK_INTERFACE_TYPE_DEFINITION | SK_INTERFACE_TYPE_EXTENSION
| SK_UNION_TYPE_DEFINITION | SK_UNION_TYPE_EXTENSION | SK_UNION_MEMBER_TYPES | SK_ENUM_TYPE_DEFINITION
| SK_ENUM_TYPE_EXTENSION | SK_ENUM_VALUES_DEFINITION | SK_ENUM_VALUE_DEFINITION
| SK_INPUT_OBJECT_TYPE_DEFINITION | SK_INPUT_OBJECT_TYPE_EXTENSION | SK_INPUT_FIELDS_DEFINITION
| SK_DIRECTIVE_DEFINITION | SK_DIRECTIVE_LOCATIONS | SK_DIRECTIVE_LOCATION.

(* A green tree: interior nodes and tokens (leaves carrying their text). *)
Inductive ptree :=
| PNode (k : skind) (children : list ptree)
| PLeaf (k : skind) (text : str).

Fixpoint p_text_of (t : ptree) : str :=
  match t with
  | PLeaf _ s => s
  | PNode _ c => (fix go (l : list ptree) : str :=
                   match l with [] => [] | x :: r => p_text_of x ++ go r end) c
  end.

Definition p_texts_of (l : list ptree) : str := concat (map p_text_of l).

(* the tokens of the tree, in order *)
Fixpoint p_leaves (t : ptree) : list (skind * str) :=
  match t with
  | PLeaf k s => [(k, s)]
  | PNode _ c => (fix go (l : list ptree) : list (skind * str) :=
                   match l with [] => [] | x :: r => p_leaves x ++ go r end) c
  end.

Definition p_tree_kind (t : ptree) : skind := match t with PNode k _ => k | PLeaf k _ => k end.

(* text_range() of every element, preorder, as byte offsets: (kind, is_token, start, end).
   rowan computes a range from the cumulated text lengths, which is what this does. *)
Fixpoint p_ranges (off : N) (t : ptree) : list (skind * bool * N * N) :=
  match t with
  | PLeaf k s => [(k, true, off, off + blen s)]
  | PNode k c =>
      (k, false, off, off + blen (p_text_of t)) ::
      (fix go (o : N) (l : list ptree) : list (skind * bool * N * N) :=
         match l with [] => [] | x :: r => p_ranges o x ++ go (o + blen (p_text_of x)) r end) off c
  end.

(* ---- GreenNodeBuilder ----
   `children` is kept in REVERSE order (the most recently pushed element first); an index i of rowan's
   vector is position (len - 1 - i) here.  `parents` has the innermost open node first. *)
Record pbuilder := { pb_parents : list (skind * nat); pb_children : list ptree }.

Definition pb_new : pbuilder := {| pb_parents := []; pb_children := [] |}.

(* token(kind, text): children.push *)
Definition pb_token (k : skind) (text : str) (b : pbuilder) : pbuilder :=
  {| pb_parents := pb_parents b; pb_children := PLeaf k text :: pb_children b |}.

(* start_node(kind): parents.push((kind, children.len())) *)
Definition pb_start_node (k : skind) (b : pbuilder) : pbuilder :=
  {| pb_parents := (k, length (pb_children b)) :: pb_parents b; pb_children := pb_children b |}.

(* finish_node(): let (kind, first_child) = parents.pop().unwrap();
                  node = cache.node(kind, &mut children, first_child)  -- children.drain(first_child..)
                  children.push(node) *)
Definition pb_finish_node (b : pbuilder) : poutcome pbuilder :=
  match pb_parents b with
  | [] => PPanic PnBuilderFinishNode
  | (k, first_child) :: ps =>
      let len := length (pb_children b) in
      if Nat.ltb len first_child then PPanic PnBuilderFinishNode
      else
        let n := (len - first_child)%nat in
        POk {| pb_parents := ps;
              pb_children := PNode k (rev (firstn n (pb_children b))) :: skipn n (pb_children b) |}
  end.

(* checkpoint(): children.len() *)
Definition pb_checkpoint (b : pbuilder) : nat := length (pb_children b).

(* start_node_at(checkpoint, kind) with its two assertions *)
Definition pb_start_node_at (cp : nat) (k : skind) (b : pbuilder) : poutcome pbuilder :=
  if Nat.ltb (length (pb_children b)) cp then PPanic PnBuilderCheckpointLen
  else
    match pb_parents b with
    | (_, first_child) :: _ =>
        if Nat.ltb cp first_child then PPanic PnBuilderCheckpointParent
        else POk {| pb_parents := (k, cp) :: pb_parents b; pb_children := pb_children b |}
    | [] => POk {| pb_parents := (k, cp) :: pb_parents b; pb_children := pb_children b |}
    end.

(* finish(): assert_eq!(children.len(), 1); the element must be a node.  (`parents` is not inspected.) *)
Definition pb_finish (b : pbuilder) : poutcome ptree :=
  match pb_children b with
  | [PNode k c] => POk (PNode k c)
  | _ => PPanic PnBuilderFinish
  end.

(* the text the builder holds so far: every element of `children`, oldest first *)
Definition pb_text (b : pbuilder) : str := p_texts_of (rev (pb_children b)).
