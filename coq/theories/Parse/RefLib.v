(* C05 — languages over token lists (the operators the spec's grammar notation uses: sequence, `?`, list,
   alternatives) and the generic lemmas that relate the recogniser combinators of RefGrammar.v to them:
     rg_sound p L       : whatever p consumes is a word of L;
     rg_complete p L F  : p consumes every word of L when the rest of the input satisfies the follow condition F
                          (the one-token look-ahead decisions are the right ones);
     rg_noout p         : p never runs out of fuel.
   Proofs only; nothing here is extracted. *)
From ApolloVerif Require Import Base.Chars Lex.Item Parse.RefGrammar.

Definition rg_lang := list rg_token -> Prop.

Definition LTok (f : rg_token -> bool) : rg_lang := fun l => exists t, l = [t] /\ f t = true.
Definition LSeq (P Q : rg_lang) : rg_lang := fun l => exists a b, l = a ++ b /\ P a /\ Q b.
Definition LOpt (P : rg_lang) : rg_lang := fun l => l = [] \/ P l.
Definition LAlt (P Q : rg_lang) : rg_lang := fun l => P l \/ Q l.
Inductive LStar (P : rg_lang) : rg_lang :=
| LStar_nil : LStar P []
| LStar_cons a b : P a -> LStar P b -> LStar P (a ++ b).
Definition LPlus (P : rg_lang) : rg_lang := LSeq P (LStar P).

(* the first token of l satisfies f (so l is not empty) *)
Definition rg_starts (f : rg_token -> bool) (l : list rg_token) : Prop :=
  match l with [] => False | t :: _ => f t = true end.
(* the next token, if any, does not satisfy f *)
Definition rg_nh (f : rg_token -> bool) (l : list rg_token) : Prop :=
  match l with [] => True | t :: _ => f t = false end.
(* every word of L starts with a token satisfying f *)
Definition rg_first (L : rg_lang) (f : rg_token -> bool) : Prop := forall l, L l -> rg_starts f l.

Definition rg_sound (p : rg_p) (L : rg_lang) : Prop :=
  forall ts r, p ts = RgOk r -> exists pre, ts = pre ++ r /\ L pre.
Definition rg_complete (p : rg_p) (L : rg_lang) (F : list rg_token -> Prop) : Prop :=
  forall pre r, L pre -> F r -> p (pre ++ r) = RgOk r.
Definition rg_noout (p : rg_p) : Prop := forall ts, p ts <> RgOut.
Definition rg_true (l : list rg_token) : Prop := True.

Lemma rg_starts_app f a b : rg_starts f a -> rg_starts f (a ++ b).
Proof. destruct a; cbn; tauto. Qed.
Lemma rg_starts_nonempty f a : rg_starts f a -> a <> [].
Proof. destruct a; cbn; [tauto|discriminate]. Qed.
Lemma rg_starts_length f a : rg_starts f a -> (0 < length a)%nat.
Proof. destruct a; cbn; [tauto|lia]. Qed.
Lemma rg_starts_nh f g l : (forall t, f t = true -> g t = false) -> rg_starts f l -> rg_nh g l.
Proof. destruct l; cbn; [tauto|auto]. Qed.
Lemma rg_nh_weaken f g l : (forall t, g t = true -> f t = true) -> rg_nh f l -> rg_nh g l.
Proof.
  destruct l as [|t l]; cbn; [tauto|]. intros H Hf. destruct (g t) eqn:E; [|reflexivity].
  apply H in E. congruence.
Qed.

(* ---- rg_sat ---- *)
Lemma rg_sound_sat f : rg_sound (rg_sat f) (LTok f).
Proof.
  intros [|t ts] r; cbn; [discriminate|]. destruct (f t) eqn:E; [|discriminate].
  intros [= <-]. exists [t]. split; [reflexivity|]. exists t. auto.
Qed.
Lemma rg_complete_sat f F : rg_complete (rg_sat f) (LTok f) F.
Proof. intros pre r (t & -> & Ht) _. cbn. now rewrite Ht. Qed.
Lemma rg_noout_sat f : rg_noout (rg_sat f).
Proof. intros [|t ts]; cbn; [discriminate|]. destruct (f t); discriminate. Qed.
Lemma rg_first_tok f : rg_first (LTok f) f.
Proof. intros l (t & -> & Ht). exact Ht. Qed.
Lemma rg_first_weaken (L : rg_lang) f g : (forall t, f t = true -> g t = true) -> rg_first L f -> rg_first L g.
Proof. intros H HL l Hl. specialize (HL l Hl). destruct l; cbn in *; auto. Qed.

(* ---- rg_seq ---- *)
Lemma rg_sound_seq p q P Q : rg_sound p P -> rg_sound q Q -> rg_sound (rg_seq p q) (LSeq P Q).
Proof.
  intros Hp Hq ts r. unfold rg_seq, rg_bind. destruct (p ts) as [r1| |] eqn:E1; try discriminate.
  intros E2. destruct (Hp _ _ E1) as (a & -> & Ha). destruct (Hq _ _ E2) as (b & -> & Hb).
  exists (a ++ b). split; [now rewrite app_assoc|]. exists a, b. auto.
Qed.
Lemma rg_complete_seq p q P Q Fp F :
  rg_complete p P Fp -> rg_complete q Q F -> (forall b r, Q b -> F r -> Fp (b ++ r)) ->
  rg_complete (rg_seq p q) (LSeq P Q) F.
Proof.
  intros Hp Hq Hf pre r (a & b & -> & Ha & Hb) Hr. unfold rg_seq, rg_bind.
  rewrite <- app_assoc. rewrite (Hp a (b ++ r) Ha (Hf _ _ Hb Hr)). now apply Hq.
Qed.
Lemma rg_noout_seq p q : rg_noout p -> rg_noout q -> rg_noout (rg_seq p q).
Proof.
  intros Hp Hq ts. unfold rg_seq, rg_bind. specialize (Hp ts). destruct (p ts) as [r1| |]; [apply Hq|discriminate|congruence].
Qed.
Lemma rg_first_seq (P Q : rg_lang) f : rg_first P f -> rg_first (LSeq P Q) f.
Proof. intros HP l (a & b & -> & Ha & _). apply rg_starts_app. now apply HP. Qed.

(* ---- rg_opt ---- *)
Lemma rg_sound_opt s p P : rg_sound p P -> rg_sound (rg_opt s p) (LOpt P).
Proof.
  intros Hp ts r. unfold rg_opt. destruct ts as [|t ts'].
  - intros [= <-]. exists []. split; [reflexivity|now left].
  - destruct (s t).
    + intros E. destruct (Hp _ _ E) as (a & Ea & Ha). exists a. split; [exact Ea|now right].
    + intros [= <-]. exists []. split; [reflexivity|now left].
Qed.
Lemma rg_complete_opt s p P F :
  rg_complete p P F -> rg_first P s -> rg_complete (rg_opt s p) (LOpt P) (fun r => F r /\ rg_nh s r).
Proof.
  intros Hp Hf pre r [->|HP] [HF Hn].
  - cbn [app]. unfold rg_opt. destruct r as [|t r']; [reflexivity|]. cbn in Hn. now rewrite Hn.
  - specialize (Hf _ HP). destruct pre as [|t pre']; [contradiction|]. cbn in Hf.
    unfold rg_opt. cbn [app]. rewrite Hf. now apply (Hp (t :: pre')).
Qed.
Lemma rg_noout_opt s p : rg_noout p -> rg_noout (rg_opt s p).
Proof.
  intros Hp [|t ts]; unfold rg_opt; [discriminate|]. destruct (s t); [apply Hp|discriminate].
Qed.

(* ---- rg_peek ---- *)
Lemma rg_noout_peek f : rg_noout (rg_peek f).
Proof. intros [|t ts]; cbn; [discriminate|]. destruct (f t); discriminate. Qed.

(* ---- rg_many_f / rg_many ---- *)
Lemma rg_sound_many_f s item P :
  rg_sound item P -> forall n, rg_sound (rg_many_f n s item) (LStar P).
Proof.
  intros Hi n. induction n as [|n IH]; intros ts r; destruct ts as [|t ts']; cbn [rg_many_f].
  - intros [= <-]. exists []. split; [reflexivity|constructor].
  - destruct (s t); [discriminate|]. intros [= <-]. exists []. split; [reflexivity|constructor].
  - intros [= <-]. exists []. split; [reflexivity|constructor].
  - destruct (s t).
    + unfold rg_bind. destruct (item (t :: ts')) as [r1| |] eqn:E1; try discriminate.
      intros E2. destruct (Hi _ _ E1) as (a & Ea & Ha). destruct (IH _ _ E2) as (b & -> & Hb).
      exists (a ++ b). split; [now rewrite <- app_assoc|]. now constructor.
    + intros [= <-]. exists []. split; [reflexivity|constructor].
Qed.

Lemma rg_many_f_stop n s item r : rg_nh s r -> rg_many_f n s item r = RgOk r.
Proof. destruct r as [|t r']; destruct n; cbn; try reflexivity; intros ->; reflexivity. Qed.

Lemma rg_complete_many_f s item P Fi :
  rg_complete item P Fi -> rg_first P s -> (forall l, rg_starts s l -> Fi l) ->
  forall pre, LStar P pre -> forall r n, rg_nh s r -> Fi r -> (length pre <= n)%nat ->
  rg_many_f n s item (pre ++ r) = RgOk r.
Proof.
  intros Hi Hf Hs pre Hpre. induction Hpre as [|a b Ha Hb IH]; intros r n Hn HF Hlen.
  - cbn [app]. now apply rg_many_f_stop.
  - pose proof (Hf _ Ha) as Hst. pose proof (rg_starts_length _ _ Hst) as Hla.
    rewrite app_length in Hlen. destruct n as [|n]; [lia|].
    destruct a as [|t a']; [contradiction|]. cbn in Hst. rewrite <- app_assoc. cbn [app rg_many_f]. rewrite Hst.
    assert (Hfi : Fi (b ++ r)).
    { inversion Hb as [|a2 b2 Ha2 Hb2 Eq]; subst.
      - exact HF.
      - apply Hs. rewrite <- app_assoc. apply rg_starts_app. now apply Hf. }
    change (t :: a' ++ b ++ r) with ((t :: a') ++ b ++ r).
    rewrite (Hi (t :: a') (b ++ r) Ha Hfi). cbn [rg_bind]. apply IH; auto. cbn in Hlen. lia.
Qed.

Lemma rg_noout_many_f s item :
  forall n ts,
    (forall ts', (length ts' <= length ts)%nat -> item ts' <> RgOut) ->
    (forall ts' r, item ts' = RgOk r -> (length r < length ts')%nat) ->
    (length ts <= n)%nat -> rg_many_f n s item ts <> RgOut.
Proof.
  induction n as [|n IH]; intros ts Ho Hp Hlen; destruct ts as [|t ts']; cbn [rg_many_f]; try discriminate.
  - cbn in Hlen. lia.
  - destruct (s t); [|discriminate]. unfold rg_bind.
    destruct (item (t :: ts')) as [r1| |] eqn:E1; [|discriminate|exfalso; now apply (Ho (t :: ts') (le_n _))].
    apply IH; [|exact Hp|].
    + intros ts2 H2. apply Ho. specialize (Hp _ _ E1). lia.
    + specialize (Hp _ _ E1). cbn in *. lia.
Qed.

Lemma rg_sound_progress item P s :
  rg_sound item P -> rg_first P s -> forall ts r, item ts = RgOk r -> (length r < length ts)%nat.
Proof.
  intros Hs Hf ts r E. destruct (Hs _ _ E) as (a & -> & Ha). apply Hf in Ha.
  apply rg_starts_length in Ha. rewrite app_length. lia.
Qed.

Lemma rg_sound_many s item P : rg_sound item P -> rg_sound (rg_many s item) (LStar P).
Proof. intros Hi ts r. unfold rg_many. now apply rg_sound_many_f. Qed.
Lemma rg_complete_many s item P Fi :
  rg_complete item P Fi -> rg_first P s -> (forall l, rg_starts s l -> Fi l) ->
  rg_complete (rg_many s item) (LStar P) (fun r => rg_nh s r /\ Fi r).
Proof.
  intros Hi Hf Hs pre r Hpre [Hn HF]. unfold rg_many.
  eapply rg_complete_many_f; eauto. rewrite app_length. lia.
Qed.
Lemma rg_noout_many s item P f :
  rg_sound item P -> rg_first P f -> rg_noout item -> rg_noout (rg_many s item).
Proof.
  intros Hs Hf Ho ts. unfold rg_many. apply rg_noout_many_f; [intros; apply Ho| |lia].
  eapply rg_sound_progress; eauto.
Qed.

Lemma rg_sound_plus s item P : rg_sound item P -> rg_sound (rg_plus s item) (LPlus P).
Proof. intros Hi. apply rg_sound_seq; [exact Hi|now apply rg_sound_many]. Qed.
Lemma rg_complete_plus s item P Fi :
  rg_complete item P Fi -> rg_first P s -> (forall l, rg_starts s l -> Fi l) ->
  rg_complete (rg_plus s item) (LPlus P) (fun r => rg_nh s r /\ Fi r).
Proof.
  intros Hi Hf Hs. unfold rg_plus, LPlus. eapply rg_complete_seq; [exact Hi|now apply rg_complete_many|].
  intros b r Hb [Hn HF]. inversion Hb as [|a2 b2 Ha2 Hb2 Eq]; subst; [exact HF|].
  apply Hs. rewrite <- app_assoc. apply rg_starts_app. now apply Hf.
Qed.
Lemma rg_noout_plus s item P f :
  rg_sound item P -> rg_first P f -> rg_noout item -> rg_noout (rg_plus s item).
Proof. intros Hs Hf Ho. apply rg_noout_seq; [exact Ho|]. eapply rg_noout_many; eauto. Qed.
Lemma rg_first_plus (P : rg_lang) f : rg_first P f -> rg_first (LPlus P) f.
Proof. apply rg_first_seq. Qed.

(* a language equivalence lets the declarative side be re-bracketed *)
Lemma rg_sound_ext p (L L' : rg_lang) : (forall l, L l -> L' l) -> rg_sound p L -> rg_sound p L'.
Proof. intros H Hs ts r E. destruct (Hs _ _ E) as (a & Ea & Ha). eauto. Qed.
Lemma rg_complete_ext p (L L' : rg_lang) (F F' : list rg_token -> Prop) :
  (forall l, L' l -> L l) -> (forall r, F' r -> F r) -> rg_complete p L F -> rg_complete p L' F'.
Proof. intros H HF Hc pre r Hl Hr. apply Hc; auto. Qed.

(* ---- nullable first sets: a word of L is empty or starts with a token satisfying f ---- *)
Definition rg_first0 (L : rg_lang) (f : rg_token -> bool) : Prop := forall l, L l -> l = [] \/ rg_starts f l.

Lemma rg_first0_of_first (L : rg_lang) f : rg_first L f -> rg_first0 L f.
Proof. intros H l Hl. right. now apply H. Qed.
Lemma rg_first0_opt (P : rg_lang) f : rg_first P f -> rg_first0 (LOpt P) f.
Proof. intros H l [->|Hl]; [now left|right; now apply H]. Qed.
Lemma rg_first0_star (P : rg_lang) f : rg_first P f -> rg_first0 (LStar P) f.
Proof. intros H l Hl. destruct Hl as [|a b Ha Hb]; [now left|right]. apply rg_starts_app. now apply H. Qed.
Lemma rg_starts_or_l f g l : rg_starts f l -> rg_starts (fun t => f t || g t) l.
Proof. destruct l; cbn; [tauto|]. intros ->. reflexivity. Qed.
Lemma rg_starts_or_r f g l : rg_starts g l -> rg_starts (fun t => f t || g t) l.
Proof. destruct l; cbn; [tauto|]. intros ->. apply orb_true_r. Qed.
Lemma rg_first0_seq (P Q : rg_lang) f g :
  rg_first0 P f -> rg_first0 Q g -> rg_first0 (LSeq P Q) (fun t => f t || g t).
Proof.
  intros HP HQ l (a & b & -> & Ha & Hb). destruct (HP _ Ha) as [->|Hs].
  - destruct (HQ _ Hb) as [->|Hs]; [now left|right]. cbn [app]. now apply rg_starts_or_r.
  - right. apply rg_starts_app. now apply rg_starts_or_l.
Qed.
Lemma rg_first_seq0 (P Q : rg_lang) f g :
  rg_first0 P f -> rg_first Q g -> rg_first (LSeq P Q) (fun t => f t || g t).
Proof.
  intros HP HQ l (a & b & -> & Ha & Hb). destruct (HP _ Ha) as [->|Hs].
  - cbn [app]. apply rg_starts_or_r. now apply HQ.
  - apply rg_starts_app. now apply rg_starts_or_l.
Qed.

(* the shape of every follow side condition: L b -> F r -> G (b ++ r) *)
Lemma rg_follow_intro (L : rg_lang) f (F G : list rg_token -> Prop) :
  rg_first0 L f -> (forall r, F r -> G r) -> (forall l, rg_starts f l -> G l) ->
  forall b r, L b -> F r -> G (b ++ r).
Proof.
  intros H0 H1 H2 b r Hb Hr. destruct (H0 _ Hb) as [->|Hs]; [now apply H1|]. apply H2. now apply rg_starts_app.
Qed.
Lemma rg_follow_intro1 (L : rg_lang) f (F G : list rg_token -> Prop) :
  rg_first L f -> (forall l, rg_starts f l -> G l) -> forall b r, L b -> F r -> G (b ++ r).
Proof. intros H0 H2 b r Hb _. apply H2. apply rg_starts_app. now apply H0. Qed.
Lemma rg_nh_app0 f g b r :
  b = [] \/ rg_starts g b -> (forall t, g t = true -> f t = false) -> rg_nh f r -> rg_nh f (b ++ r).
Proof.
  intros [->|Hs] H Hr; [exact Hr|]. eapply rg_starts_nh; [exact H|]. now apply rg_starts_app.
Qed.

(* ---- progress, independently of any language (used for the fuel theorem of the whole grammar) ---- *)
Definition rg_progress (p : rg_p) : Prop := forall ts r, p ts = RgOk r -> (length r < length ts)%nat.
Definition rg_nolonger (p : rg_p) : Prop := forall ts r, p ts = RgOk r -> (length r <= length ts)%nat.

Lemma rg_progress_nolonger p : rg_progress p -> rg_nolonger p.
Proof. intros H ts r E. specialize (H _ _ E). lia. Qed.
Lemma rg_progress_sat f : rg_progress (rg_sat f).
Proof. intros [|t ts] r; cbn; [discriminate|]. destruct (f t); [|discriminate]. intros [= <-]. lia. Qed.
Lemma rg_nolonger_peek f : rg_nolonger (rg_peek f).
Proof. intros [|t ts] r; cbn; [discriminate|]. destruct (f t); [|discriminate]. intros [= <-]. cbn. lia. Qed.
Lemma rg_progress_seq_l p q : rg_progress p -> rg_nolonger q -> rg_progress (rg_seq p q).
Proof.
  intros Hp Hq ts r. unfold rg_seq, rg_bind. destruct (p ts) as [r1| |] eqn:E; try discriminate.
  intros E2. specialize (Hp _ _ E). specialize (Hq _ _ E2). lia.
Qed.
Lemma rg_progress_seq_r p q : rg_nolonger p -> rg_progress q -> rg_progress (rg_seq p q).
Proof.
  intros Hp Hq ts r. unfold rg_seq, rg_bind. destruct (p ts) as [r1| |] eqn:E; try discriminate.
  intros E2. specialize (Hp _ _ E). specialize (Hq _ _ E2). lia.
Qed.
Lemma rg_nolonger_seq p q : rg_nolonger p -> rg_nolonger q -> rg_nolonger (rg_seq p q).
Proof.
  intros Hp Hq ts r. unfold rg_seq, rg_bind. destruct (p ts) as [r1| |] eqn:E; try discriminate.
  intros E2. specialize (Hp _ _ E). specialize (Hq _ _ E2). lia.
Qed.
Lemma rg_nolonger_opt s p : rg_nolonger p -> rg_nolonger (rg_opt s p).
Proof.
  intros Hp [|t ts] r; unfold rg_opt; [intros [= <-]; lia|]. destruct (s t); [apply Hp|intros [= <-]; lia].
Qed.
Lemma rg_nolonger_many_f s item : rg_nolonger item -> forall n, rg_nolonger (rg_many_f n s item).
Proof.
  intros Hi n. induction n as [|n IH]; intros [|t ts] r; cbn [rg_many_f]; try (intros [= <-]; lia).
  - destruct (s t); [discriminate|intros [= <-]; lia].
  - destruct (s t); [|intros [= <-]; lia]. unfold rg_bind.
    destruct (item (t :: ts)) as [r1| |] eqn:E; try discriminate. intros E2.
    specialize (Hi _ _ E). specialize (IH _ _ E2). lia.
Qed.
Lemma rg_nolonger_many s item : rg_nolonger item -> rg_nolonger (rg_many s item).
Proof. intros Hi ts r. unfold rg_many. now apply rg_nolonger_many_f. Qed.
Lemma rg_noout_many_p s item : rg_progress item -> rg_noout item -> rg_noout (rg_many s item).
Proof. intros Hp Ho ts. unfold rg_many. apply rg_noout_many_f; [intros; apply Ho|exact Hp|lia]. Qed.
Lemma rg_progress_plus s item : rg_progress item -> rg_progress (rg_plus s item).
Proof. intros Hp. apply rg_progress_seq_l; [exact Hp|]. apply rg_nolonger_many. now apply rg_progress_nolonger. Qed.
Lemma rg_noout_plus_p s item : rg_progress item -> rg_noout item -> rg_noout (rg_plus s item).
Proof. intros Hp Ho. apply rg_noout_seq; [exact Ho|now apply rg_noout_many_p]. Qed.
