(* C02: every node / token range of the tree (rowan computes them from cumulated text lengths: p_ranges) is the
   byte span of a sub-list of CHARACTERS of the tree text: it starts and ends on a character boundary, and the
   text between them is the element's text.  A property of p_ranges alone, for every tree. *)
From ApolloVerif Require Import Base.Chars Parse.Builder Parse.LosslessDefs.

Definition span_ok (whole : str) (base : N) (r : skind * bool * N * N) : Prop :=
  let '(_, _, st, en) := r in
  exists pre mid suf, whole = pre ++ mid ++ suf /\ st = base + blen pre /\ en = base + blen (pre ++ mid).

Lemma span_ok_shift whole base r pre0 suf0 :
  span_ok whole (base + blen pre0) r -> span_ok (pre0 ++ whole ++ suf0) base r.
Proof.
  destruct r as [[[k b] st] en]. intros (pre & mid & suf & -> & -> & ->).
  exists (pre0 ++ pre), mid, (suf ++ suf0). rewrite !blen_app, <- !app_assoc. repeat split; lia.
Qed.

Fixpoint ranges_list (o : N) (l : list ptree) : list (skind * bool * N * N) :=
  match l with [] => [] | x :: r => p_ranges o x ++ ranges_list (o + blen (p_text_of x)) r end.

Lemma p_ranges_node off k c :
  p_ranges off (PNode k c) = (k, false, off, off + blen (p_text_of (PNode k c))) :: ranges_list off c.
Proof.
  reflexivity.
Qed.

Theorem ranges_on_boundaries : forall t off, Forall (span_ok (p_text_of t) off) (p_ranges off t).
Proof.
  induction t as [k c IH|k s] using ptree_ind'; intros off.
  - rewrite p_ranges_node. constructor.
    + exists [], (p_text_of (PNode k c)), []. rewrite app_nil_r. cbn [blen app]. repeat split; lia.
    + rewrite p_text_of_node. unfold p_texts_of.
      assert (H : forall pre0 l, Forall (fun t => forall off, Forall (span_ok (p_text_of t) off) (p_ranges off t)) l ->
                forall o, o = off + blen pre0 ->
                Forall (span_ok (pre0 ++ concat (map p_text_of l)) off) (ranges_list o l)).
      { intros pre0 l Hl. revert pre0. induction Hl as [|x l Hx Hl IHl]; intros pre0 o ->; [constructor|].
        cbn [ranges_list map concat]. apply Forall_app. split.
        - eapply Forall_impl; [|apply (Hx (off + blen pre0))]. intros r Hr.
          apply (span_ok_shift _ _ _ pre0 (concat (map p_text_of l))) in Hr. exact Hr.
        - specialize (IHl (pre0 ++ p_text_of x) (off + blen pre0 + blen (p_text_of x))).
          rewrite <- app_assoc in IHl. apply IHl. rewrite blen_app. lia. }
      apply (H [] c IH off). cbn. lia.
  - cbn [p_ranges p_text_of]. constructor; [|constructor].
    exists [], s, []. rewrite app_nil_r. cbn [blen app]. repeat split; lia.
Qed.
