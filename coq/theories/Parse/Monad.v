(* The `Parser` struct of crates/apollo-parser/src/parser/mod.rs and its primitives, as a state monad over
   `outcome`.  The lexer the parser owns is the list of items it has not pulled yet (the stream is a pure
   function of the input, Lex/); `self.lexer.clone()` look-ahead is a pure look-ahead on that list. *)
From ApolloVerif Require Import Base.Chars Lex.Item Parse.Outcome Parse.Builder Parse.Limits.

(* Token { kind, data, index } *)
Record tok := { tk : tkind; td : str; ti : N }.

(* PendingToken *)
Inductive pend :=
| PIgnored (t : tok)
| PError (data : str).

(* crate::Error, reduced to what the properties observe: limit error or not, and the index.
   (Error::limit / Error::eof / Error::with_loc; messages and data are not modelled.) *)
Inductive pclass := PLimit | PSyntax.
Record perror := { pe_class : pclass; pe_index : N }.

Record pstate := {
  st_items : list item   (* what self.lexer will still yield; [] = the iterator returns None *);
  st_cur : option tok   (* current_token *);
  st_builder : builder;
  st_pending : list pend   (* in source order *);
  st_errors : list perror   (* REVERSED (most recent first) *);
  st_rec : tracker   (* recursion_limit *);
  st_accept : bool   (* accept_errors *);
  st_pulled : N   (* number of items pulled from self.lexer = lexer.limit_tracker.high *);
  st_dbg : bool   (* debug_assertions on? (constant during a run) *);
  st_dropped : list tok   (* GHOST (no behaviour depends on it): tokens popped and never given to the builder, REVERSED *)
}.

Definition set_items v s := {| st_items := v; st_cur := st_cur s; st_builder := st_builder s; st_pending := st_pending s; st_errors := st_errors s; st_rec := st_rec s; st_accept := st_accept s; st_pulled := st_pulled s; st_dbg := st_dbg s; st_dropped := st_dropped s |}.
Definition set_cur v s := {| st_items := st_items s; st_cur := v; st_builder := st_builder s; st_pending := st_pending s; st_errors := st_errors s; st_rec := st_rec s; st_accept := st_accept s; st_pulled := st_pulled s; st_dbg := st_dbg s; st_dropped := st_dropped s |}.
Definition set_builder v s := {| st_items := st_items s; st_cur := st_cur s; st_builder := v; st_pending := st_pending s; st_errors := st_errors s; st_rec := st_rec s; st_accept := st_accept s; st_pulled := st_pulled s; st_dbg := st_dbg s; st_dropped := st_dropped s |}.
Definition set_pending v s := {| st_items := st_items s; st_cur := st_cur s; st_builder := st_builder s; st_pending := v; st_errors := st_errors s; st_rec := st_rec s; st_accept := st_accept s; st_pulled := st_pulled s; st_dbg := st_dbg s; st_dropped := st_dropped s |}.
Definition set_errors v s := {| st_items := st_items s; st_cur := st_cur s; st_builder := st_builder s; st_pending := st_pending s; st_errors := v; st_rec := st_rec s; st_accept := st_accept s; st_pulled := st_pulled s; st_dbg := st_dbg s; st_dropped := st_dropped s |}.
Definition set_rec v s := {| st_items := st_items s; st_cur := st_cur s; st_builder := st_builder s; st_pending := st_pending s; st_errors := st_errors s; st_rec := v; st_accept := st_accept s; st_pulled := st_pulled s; st_dbg := st_dbg s; st_dropped := st_dropped s |}.
Definition set_accept v s := {| st_items := st_items s; st_cur := st_cur s; st_builder := st_builder s; st_pending := st_pending s; st_errors := st_errors s; st_rec := st_rec s; st_accept := v; st_pulled := st_pulled s; st_dbg := st_dbg s; st_dropped := st_dropped s |}.
Definition set_pulled v s := {| st_items := st_items s; st_cur := st_cur s; st_builder := st_builder s; st_pending := st_pending s; st_errors := st_errors s; st_rec := st_rec s; st_accept := st_accept s; st_pulled := v; st_dbg := st_dbg s; st_dropped := st_dropped s |}.
Definition set_dropped v s := {| st_items := st_items s; st_cur := st_cur s; st_builder := st_builder s; st_pending := st_pending s; st_errors := st_errors s; st_rec := st_rec s; st_accept := st_accept s; st_pulled := st_pulled s; st_dbg := st_dbg s; st_dropped := v |}.

(* Parser::new(input).recursion_limit(rl) [.token_limit(tl): already in `items`] *)
Definition init_state (dbg : bool) (rl : N) (items : list item) : pstate :=
  {| st_items := items; st_cur := None; st_builder := builder_new; st_pending := []; st_errors := [];
     st_rec := tracker_new rl; st_accept := true; st_pulled := 0; st_dbg := dbg; st_dropped := [] |}.

(* ---- the monad ---- *)
Definition M (A : Type) := pstate -> outcome (A * pstate).
Definition ret {A} (a : A) : M A := fun s => Ok (a, s).
Definition bind {A B} (m : M A) (f : A -> M B) : M B :=
  fun s => match m s with
           | Ok (a, s') => f a s'
           | Panic w => Panic w
           | OutOfFuel => OutOfFuel
           end.
Definition panic {A} (w : pwhy) : M A := fun _ => Panic w.
Definition out_of_fuel {A} : M A := fun _ => OutOfFuel.
Definition get : M pstate := fun s => Ok (s, s).
Definition modify (f : pstate -> pstate) : M unit := fun s => Ok (tt, f s).
Definition lift_b (f : builder -> outcome builder) : M unit :=
  fun s => match f (st_builder s) with
           | Ok b => Ok (tt, set_builder b s)
           | Panic w => Panic w
           | OutOfFuel => OutOfFuel
           end.

Declare Scope pm_scope.
Delimit Scope pm_scope with pm.
Notation "x <- m ;; k" := (bind m (fun x => k)) (at level 61, m at next level, right associativity) : pm_scope.
Notation "m ;; k" := (bind m (fun _ => k)) (at level 61, right associativity) : pm_scope.
Open Scope pm_scope.

Definition when (b : bool) (m : M unit) : M unit := if b then m else ret tt.

(* ---- token kinds ---- *)
Definition is_ignored_kind (k : tkind) : bool :=
  match k with Comment | Whitespace | Comma => true | _ => false end.
Definition is_trivia_kind (k : tkind) : bool :=
  match k with Comment | Whitespace => true | _ => false end.

Fixpoint str_eqb (a b : str) : bool :=
  match a, b with
  | [], [] => true
  | x :: a, y :: b => (x =? y) && str_eqb a b
  | _, _ => false
  end.

Definition tok_eqb (a b : tok) : bool :=
  tkind_eqb (tk a) (tk b) && str_eqb (td a) (td b) && (ti a =? ti b).
Definition otok_eqb (a b : option tok) : bool :=
  match a, b with
  | None, None => true
  | Some x, Some y => tok_eqb x y
  | _, _ => false
  end.

(* ---- next_token: pull items until a token; lexer errors are recorded on the way ---- *)

(* the effect of one Err(err) item in next_token's loop: the data is queued for the tree; the error is
   pushed only while accept_errors holds; a limit error clears accept_errors afterwards *)
Definition lexer_error_effect (c : eclass) (data : str) (index : N) (s : pstate) : pstate :=
  let s1 := match data with [] => s | _ => set_pending (st_pending s ++ [PError data]) s end in
  let e := {| pe_class := match c with ELimit => PLimit | ELex => PSyntax end; pe_index := index |} in
  let s2 := if st_accept s1 then set_errors (e :: st_errors s1) s1 else s1 in
  match c with ELimit => set_accept false s2 | ELex => s2 end.

Definition count_pull (s : pstate) : pstate := set_pulled (st_pulled s + 1) s.

Fixpoint next_token_loop (items : list item) (s : pstate) : option tok * pstate :=
  match items with
  | [] => (None, set_items [] s)
  | Tok k d i :: r => (Some {| tk := k; td := d; ti := i |}, set_items r (count_pull s))
  | Err c d i :: r => next_token_loop r (lexer_error_effect c d i (count_pull s))
  end.

Definition next_token : M (option tok) := fun s => Ok (next_token_loop (st_items s) s).

(* peek_token: fill current_token if empty, return it *)
Definition peek_token : M (option tok) :=
  fun s => match st_cur s with
           | Some t => Ok (Some t, s)
           | None => let '(o, s') := next_token_loop (st_items s) s in Ok (o, set_cur o s')
           end.

Definition current : M (option tok) := peek_token.
Definition peek : M (option tkind) := o <- peek_token ;; ret (option_map tk o).
Definition peek_data : M (option str) := o <- peek_token ;; ret (option_map td o).

(* at(token) *)
Definition at_ (k : tkind) : M bool :=
  o <- peek ;; ret (match o with Some t => tkind_eqb t k | None => false end).

(* peek_n_inner(n): current_token, then a CLONE of the lexer; errors dropped; Whitespace, Comment and
   Comma filtered out; .nth(n - 1).  Pure. *)
Fixpoint nth_significant (n : nat) (l : list item) : option tok :=
  match l with
  | [] => None
  | Err _ _ _ :: r => nth_significant n r
  | Tok k d i :: r =>
      if is_ignored_kind k then nth_significant n r
      else match n with
           | O => Some {| tk := k; td := d; ti := i |}
           | S m => nth_significant m r
           end
  end.

Definition peek_n_inner (n : nat) : M (option tok) :=
  fun s => match n with
           | O => Panic PeekNZero
           | S m =>
               let l := match st_cur s with
                        | Some t => Tok (tk t) (td t) (ti t) :: st_items s
                        | None => st_items s
                        end in
               Ok (nth_significant m l, s)
           end.
Definition peek_token_n (n : nat) : M (option tok) := peek_n_inner n.
Definition peek_n (n : nat) : M (option tkind) := o <- peek_n_inner n ;; ret (option_map tk o).
Definition peek_data_n (n : nat) : M (option str) := o <- peek_token_n n ;; ret (option_map td o).

(* pop: take current_token, else pull one; panics when the lexer is finished *)
Definition pop : M tok :=
  fun s => match st_cur s with
           | Some t => Ok (t, set_cur None s)
           | None => match next_token_loop (st_items s) s with
                     | (Some t, s') => Ok (t, s')
                     | (None, _) => Panic PopFinished
                     end
           end.

(* push_token *)
Definition push_token (k : skind) (t : tok) : M unit :=
  modify (fun s => set_builder (b_token k (td t) (st_builder s)) s).

(* skip_ignored: while let Some(Comment | Whitespace | Comma) = self.peek() { pending.push(Ignored(self.pop())) }
   As structural recursion on the remaining items: `skip_loop` is the loop from a state whose
   current_token is None (peek pulls; an ignored token is popped again at once). *)
Fixpoint skip_loop (items : list item) (s : pstate) : pstate :=
  match items with
  | [] => set_items [] s
  | Err c d i :: r => skip_loop r (lexer_error_effect c d i (count_pull s))
  | Tok k d i :: r =>
      let t := {| tk := k; td := d; ti := i |} in
      if is_ignored_kind k
      then skip_loop r (let s1 := count_pull s in set_pending (st_pending s1 ++ [PIgnored t]) s1)
      else set_cur (Some t) (set_items r (count_pull s))
  end.

Definition skip_ignored : M unit :=
  fun s => match st_cur s with
           | Some t =>
               if is_ignored_kind (tk t)
               then let s1 := set_cur None (set_pending (st_pending s ++ [PIgnored t]) s) in
                    Ok (tt, skip_loop (st_items s1) s1)
               else Ok (tt, s)
           | None => Ok (tt, skip_loop (st_items s) s)
           end.

(* push_ignored: flush `pending` into the current node *)
Fixpoint push_pending_list (l : list pend) (b : builder) : outcome builder :=
  match l with
  | [] => Ok b
  | PIgnored t :: r =>
      match tk t with
      | Comment => push_pending_list r (b_token COMMENT (td t) b)
      | Whitespace => push_pending_list r (b_token WHITESPACE (td t) b)
      | Comma => push_pending_list r (b_token COMMA (td t) b)
      | _ => Panic PushIgnoredUnreachable
      end
  | PError d :: r => push_pending_list r (b_token ERROR d b)
  end.

Definition push_ignored : M unit :=
  fun s => match push_pending_list (st_pending s) (st_builder s) with
           | Ok b => Ok (tt, set_builder b (set_pending [] s))
           | Panic w => Panic w
           | OutOfFuel => OutOfFuel
           end.

(* eat *)
Definition eat (k : skind) : M unit :=
  push_ignored ;;
  c <- current ;;
  match c with
  | None => ret tt
  | Some _ => t <- pop ;; push_token k t
  end.

(* bump *)
Definition bump (k : skind) : M unit := eat k ;; skip_ignored.

(* push_err *)
Definition push_err (e : perror) : M unit :=
  modify (fun s => if st_accept s then set_errors (e :: st_errors s) s else s).

Definition syntax_error_at (t : tok) : perror := {| pe_class := PSyntax; pe_index := ti t |}.

(* limit_err *)
Definition limit_err : M unit :=
  c <- current ;;
  match c with
  | None => ret tt
  | Some t =>
      push_err {| pe_class := PLimit; pe_index := ti t |} ;;
      modify (set_accept false)
  end.

(* err_at_token *)
Definition err_at_token (t : tok) : M unit := push_err (syntax_error_at t).

(* err *)
Definition err : M unit :=
  c <- current ;;
  match c with
  | None => ret tt
  | Some t => push_err (syntax_error_at t)
  end.

(* err_and_pop *)
Definition err_and_pop : M unit :=
  push_ignored ;;
  c <- current ;;
  match c with
  | None => ret tt
  | Some _ =>
      t <- pop ;;
      push_token ERROR t ;;
      push_err (syntax_error_at t) ;;
      skip_ignored
  end.

(* expect *)
Definition expect (token : tkind) (kind : skind) : M unit :=
  c <- current ;;
  match c with
  | None => ret tt
  | Some t =>
      a <- at_ token ;;
      if a then bump kind else push_err (syntax_error_at t)
  end.

(* start_node: the NodeGuard it returns is modelled by `node` below *)
Definition start_node (k : skind) : M unit :=
  push_ignored ;;
  modify (fun s => set_builder (b_start_node k (st_builder s)) s) ;;
  skip_ignored.

(* NodeGuard::drop *)
Definition finish_node : M unit := lift_b b_finish_node.

(* let _g = p.start_node(kind); body; (scope exit, including early `return`s: drop(_g)) *)
Definition node {A} (k : skind) (body : M A) : M A :=
  start_node k ;; r <- body ;; finish_node ;; ret r.

(* checkpoint_node *)
Definition checkpoint_node : M nat :=
  push_ignored ;; s <- get ;; ret (b_checkpoint (st_builder s)).

(* Checkpoint::wrap_node (the guard: finish_node at scope exit) *)
Definition wrap_node (cp : nat) (k : skind) : M unit := lift_b (b_start_node_at cp k).

(* recursion_limit.check_and_increment() / decrement() *)
Definition rec_check_and_increment : M bool :=
  fun s => match tracker_check_and_increment (st_rec s) with
           | Ok (b, t) => Ok (b, set_rec t s)
           | Panic w => Panic w
           | OutOfFuel => OutOfFuel
           end.
Definition rec_decrement : M unit :=
  fun s => match tracker_decrement (st_rec s) with
           | Ok t => Ok (tt, set_rec t s)
           | Panic w => Panic w
           | OutOfFuel => OutOfFuel
           end.

(* The five recursion-guarded sites all have the shape
     if p.recursion_limit.check_and_increment() { <on_reached>; return .. }
     let x = <body>; p.recursion_limit.decrement(); <k x> *)
Definition rec_guard {A B} (on_reached : M B) (body : M A) (k : A -> M B) : M B :=
  reached <- rec_check_and_increment ;;
  if reached then on_reached
  else x <- body ;; rec_decrement ;; k x.

(* debug_assert!(before != self.current_token) *)
Definition debug_assert_advanced (before : option tok) : M unit :=
  fun s => if st_dbg s && otok_eqb before (st_cur s) then Panic DebugAssert else Ok (tt, s).

(* peek_while, with the closure's captured mutable variable as an accumulator `acc`.
   run returns (acc', continue?) : true = ControlFlow::Continue, false = Break. *)
Fixpoint peek_while_acc {S} (fuel : nat) (run : S -> tkind -> M (S * bool)) (acc : S) : M S :=
  match fuel with
  | O => out_of_fuel
  | Datatypes.S f =>
      o <- peek ;;
      match o with
      | None => ret acc
      | Some kind =>
          s0 <- get ;;
          r <- run acc kind ;;
          let '(acc', cont) := r in
          if cont then debug_assert_advanced (st_cur s0) ;; peek_while_acc f run acc'
          else ret acc'
      end
  end.

Definition peek_while (fuel : nat) (run : tkind -> M bool) : M unit :=
  peek_while_acc fuel (fun _ k => c <- run k ;; ret (tt, c)) tt ;; ret tt.

(* peek_while_kind *)
Fixpoint peek_while_kind_acc {S} (fuel : nat) (expect_ : tkind) (run : S -> M S) (acc : S) : M S :=
  match fuel with
  | O => out_of_fuel
  | Datatypes.S f =>
      o <- peek ;;
      match o with
      | None => ret acc
      | Some kind =>
          if negb (tkind_eqb kind expect_) then ret acc
          else
            s0 <- get ;;
            acc' <- run acc ;;
            debug_assert_advanced (st_cur s0) ;;
            peek_while_kind_acc f expect_ run acc'
      end
  end.

Definition peek_while_kind (fuel : nat) (expect_ : tkind) (run : M unit) : M unit :=
  peek_while_kind_acc fuel expect_ (fun _ => run) tt.

(* trailing_tokens_are_errors: skip_ignored(); while !matches!(peek(), None | Some(Eof)) { err_and_pop(msg) };
   push_ignored() *)
Fixpoint trailing_loop (fuel : nat) : M unit :=
  match fuel with
  | O => out_of_fuel
  | Datatypes.S f =>
      o <- peek ;;
      match o with
      | None | Some Eof => ret tt
      | Some _ => err_and_pop ;; trailing_loop f
      end
  end.
Definition trailing_tokens_are_errors (fuel : nat) : M unit :=
  skip_ignored ;; trailing_loop fuel ;; push_ignored.

(* GHOST: record that token t was popped and will never reach the builder *)
Definition ghost_dropped (t : tok) : M unit := modify (fun s => set_dropped (t :: st_dropped s) s).

(* parse_separated_list *)
Definition parse_separated_list (fuel : nat) (separator : tkind) (separator_syntax : skind) (run : M unit)
  : M unit :=
  o <- peek ;;
  when (match o with Some k => tkind_eqb k separator | None => false end) (bump separator_syntax) ;;
  run ;;
  peek_while_kind fuel separator (bump separator_syntax ;; run).
