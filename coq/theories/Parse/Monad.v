(* The `Parser` struct of crates/apollo-parser/src/parser/mod.rs and its primitives, as a state monad over
   `outcome`.  The lexer the parser owns is the list of items it has not pulled yet (the stream is a pure
   function of the input, Lex/); `self.lexer.clone()` look-ahead is a pure look-ahead on that list. *)
From ApolloVerif Require Import Base.Chars Lex.Item Parse.Outcome Parse.Builder Parse.Limits.

(* Token { kind, data, index } *)
Record prstoken := { tok_kind : tkind; tok_data : str; tok_index : N }.

(* PendingToken *)
Inductive ppend :=
| PendIgnored (t : prstoken)
| PendError (data : str).

(* crate::Error, reduced to what the properties observe: limit error or not, and the index.
   (Error::limit / Error::eof / Error::with_loc; messages and data are not modelled.) *)
Inductive pclass := PcLimit | PcSyntax.
Record perror := { pe_class : pclass; pe_index : N }.

Record pstate := {
  ps_items : list item   (* what self.lexer will still yield; [] = the iterator returns None *);
  ps_cur : option prstoken   (* current_token *);
  ps_builder : pbuilder;
  ps_pending : list ppend   (* in source order *);
  ps_errors : list perror   (* REVERSED (most recent first) *);
  ps_rec : ptracker   (* recursion_limit *);
  ps_accept : bool   (* accept_errors *);
  ps_pulled : N   (* number of items pulled from self.lexer = lexer.limit_tracker.high *);
  ps_dbg : bool   (* debug_assertions on? (constant during a run) *);
  ps_dropped : list prstoken   (* GHOST (no behaviour depends on it): tokens popped and never given to the builder, REVERSED *)
}.

Definition ps_set_items v s := {| ps_items := v; ps_cur := ps_cur s; ps_builder := ps_builder s; ps_pending := ps_pending s; ps_errors := ps_errors s; ps_rec := ps_rec s; ps_accept := ps_accept s; ps_pulled := ps_pulled s; ps_dbg := ps_dbg s; ps_dropped := ps_dropped s |}.
Definition ps_set_cur v s := {| ps_items := ps_items s; ps_cur := v; ps_builder := ps_builder s; ps_pending := ps_pending s; ps_errors := ps_errors s; ps_rec := ps_rec s; ps_accept := ps_accept s; ps_pulled := ps_pulled s; ps_dbg := ps_dbg s; ps_dropped := ps_dropped s |}.
Definition ps_set_builder v s := {| ps_items := ps_items s; ps_cur := ps_cur s; ps_builder := v; ps_pending := ps_pending s; ps_errors := ps_errors s; ps_rec := ps_rec s; ps_accept := ps_accept s; ps_pulled := ps_pulled s; ps_dbg := ps_dbg s; ps_dropped := ps_dropped s |}.
Definition ps_set_pending v s := {| ps_items := ps_items s; ps_cur := ps_cur s; ps_builder := ps_builder s; ps_pending := v; ps_errors := ps_errors s; ps_rec := ps_rec s; ps_accept := ps_accept s; ps_pulled := ps_pulled s; ps_dbg := ps_dbg s; ps_dropped := ps_dropped s |}.
Definition ps_set_errors v s := {| ps_items := ps_items s; ps_cur := ps_cur s; ps_builder := ps_builder s; ps_pending := ps_pending s; ps_errors := v; ps_rec := ps_rec s; ps_accept := ps_accept s; ps_pulled := ps_pulled s; ps_dbg := ps_dbg s; ps_dropped := ps_dropped s |}.
Definition ps_set_rec v s := {| ps_items := ps_items s; ps_cur := ps_cur s; ps_builder := ps_builder s; ps_pending := ps_pending s; ps_errors := ps_errors s; ps_rec := v; ps_accept := ps_accept s; ps_pulled := ps_pulled s; ps_dbg := ps_dbg s; ps_dropped := ps_dropped s |}.
Definition ps_set_accept v s := {| ps_items := ps_items s; ps_cur := ps_cur s; ps_builder := ps_builder s; ps_pending := ps_pending s; ps_errors := ps_errors s; ps_rec := ps_rec s; ps_accept := v; ps_pulled := ps_pulled s; ps_dbg := ps_dbg s; ps_dropped := ps_dropped s |}.
Definition ps_set_pulled v s := {| ps_items := ps_items s; ps_cur := ps_cur s; ps_builder := ps_builder s; ps_pending := ps_pending s; ps_errors := ps_errors s; ps_rec := ps_rec s; ps_accept := ps_accept s; ps_pulled := v; ps_dbg := ps_dbg s; ps_dropped := ps_dropped s |}.
Definition ps_set_dropped v s := {| ps_items := ps_items s; ps_cur := ps_cur s; ps_builder := ps_builder s; ps_pending := ps_pending s; ps_errors := ps_errors s; ps_rec := ps_rec s; ps_accept := ps_accept s; ps_pulled := ps_pulled s; ps_dbg := ps_dbg s; ps_dropped := v |}.

(* Parser::new(input).recursion_limit(rl) [.token_limit(tl): already in `items`] *)
Definition p_init_state (dbg : bool) (rl : N) (items : list item) : pstate :=
  {| ps_items := items; ps_cur := None; ps_builder := pb_new; ps_pending := []; ps_errors := [];
     ps_rec := ptracker_new rl; ps_accept := true; ps_pulled := 0; ps_dbg := dbg; ps_dropped := [] |}.

(* ---- the monad ---- *)
Definition PM (A : Type) := pstate -> poutcome (A * pstate).
Definition p_ret {A} (a : A) : PM A := fun s => POk (a, s).
Definition p_bind {A B} (m : PM A) (f : A -> PM B) : PM B :=
  fun s => match m s with
           | POk (a, s') => f a s'
           | PPanic w => PPanic w
           | POutOfFuel => POutOfFuel
           end.
Definition p_panic {A} (w : pwhy) : PM A := fun _ => PPanic w.
Definition p_out_of_fuel {A} : PM A := fun _ => POutOfFuel.
Definition p_get : PM pstate := fun s => POk (s, s).
Definition p_modify (f : pstate -> pstate) : PM unit := fun s => POk (tt, f s).
Definition p_lift_b (f : pbuilder -> poutcome pbuilder) : PM unit :=
  fun s => match f (ps_builder s) with
           | POk b => POk (tt, ps_set_builder b s)
           | PPanic w => PPanic w
           | POutOfFuel => POutOfFuel
           end.

Declare Scope pm_scope.
Delimit Scope pm_scope with pm.
Notation "x <- m ;; k" := (p_bind m (fun x => k)) (at level 61, m at next level, right associativity) : pm_scope.
Notation "m ;; k" := (p_bind m (fun _ => k)) (at level 61, right associativity) : pm_scope.
Open Scope pm_scope.

Definition p_when (b : bool) (m : PM unit) : PM unit := if b then m else p_ret tt.

(* ---- token kinds ---- *)
Definition p_is_ignored_kind (k : tkind) : bool :=
  match k with TkComment | TkWhitespace | TkComma => true | _ => false end.
Definition p_is_trivia_kind (k : tkind) : bool :=
  match k with TkComment | TkWhitespace => true | _ => false end.

Fixpoint p_str_eqb (a b : str) : bool :=
  match a, b with
  | [], [] => true
  | x :: a, y :: b => (x =? y) && p_str_eqb a b
  | _, _ => false
  end.

Definition prstoken_eqb (a b : prstoken) : bool :=
  tkind_eqb (tok_kind a) (tok_kind b) && p_str_eqb (tok_data a) (tok_data b) && (tok_index a =? tok_index b).
Definition prsoptoken_eqb (a b : option prstoken) : bool :=
  match a, b with
  | None, None => true
  | Some x, Some y => prstoken_eqb x y
  | _, _ => false
  end.

(* ---- next_token: pull items until a token; lexer errors are recorded on the way ---- *)

(* the effect of one Err(err) item in next_token's loop: the data is queued for the tree; the error is
   pushed only while accept_errors holds; a limit error clears accept_errors afterwards *)
Definition p_lexer_error_effect (c : eclass) (data : str) (index : N) (s : pstate) : pstate :=
  let s1 := match data with [] => s | _ => ps_set_pending (ps_pending s ++ [PendError data]) s end in
  let e := {| pe_class := match c with ELimit => PcLimit | ELex => PcSyntax end; pe_index := index |} in
  let s2 := if ps_accept s1 then ps_set_errors (e :: ps_errors s1) s1 else s1 in
  match c with ELimit => ps_set_accept false s2 | ELex => s2 end.

Definition p_count_pull (s : pstate) : pstate := ps_set_pulled (ps_pulled s + 1) s.

Fixpoint p_next_token_loop (items : list item) (s : pstate) : option prstoken * pstate :=
  match items with
  | [] => (None, ps_set_items [] s)
  | ITok k d i :: r => (Some {| tok_kind := k; tok_data := d; tok_index := i |}, ps_set_items r (p_count_pull s))
  | IErr c d i :: r => p_next_token_loop r (p_lexer_error_effect c d i (p_count_pull s))
  end.

Definition p_next_token : PM (option prstoken) := fun s => POk (p_next_token_loop (ps_items s) s).

(* peek_token: fill current_token if empty, return it *)
Definition p_peek_token : PM (option prstoken) :=
  fun s => match ps_cur s with
           | Some t => POk (Some t, s)
           | None => let '(o, s') := p_next_token_loop (ps_items s) s in POk (o, ps_set_cur o s')
           end.

Definition p_current : PM (option prstoken) := p_peek_token.
Definition p_peek : PM (option tkind) := o <- p_peek_token ;; p_ret (option_map tok_kind o).
Definition p_peek_data : PM (option str) := o <- p_peek_token ;; p_ret (option_map tok_data o).

(* at(token) *)
Definition p_at (k : tkind) : PM bool :=
  o <- p_peek ;; p_ret (match o with Some t => tkind_eqb t k | None => false end).

(* peek_n_inner(n): current_token, then a CLONE of the lexer; errors dropped; Whitespace, Comment and
   Comma filtered out; .nth(n - 1).  Pure. *)
Fixpoint p_nth_significant (n : nat) (l : list item) : option prstoken :=
  match l with
  | [] => None
  | IErr _ _ _ :: r => p_nth_significant n r
  | ITok k d i :: r =>
      if p_is_ignored_kind k then p_nth_significant n r
      else match n with
           | O => Some {| tok_kind := k; tok_data := d; tok_index := i |}
           | S m => p_nth_significant m r
           end
  end.

Definition p_peek_n_inner (n : nat) : PM (option prstoken) :=
  fun s => match n with
           | O => PPanic PnPeekNZero
           | S m =>
               let l := match ps_cur s with
                        | Some t => ITok (tok_kind t) (tok_data t) (tok_index t) :: ps_items s
                        | None => ps_items s
                        end in
               POk (p_nth_significant m l, s)
           end.
Definition p_peek_token_n (n : nat) : PM (option prstoken) := p_peek_n_inner n.
Definition p_peek_n (n : nat) : PM (option tkind) := o <- p_peek_n_inner n ;; p_ret (option_map tok_kind o).
Definition p_peek_data_n (n : nat) : PM (option str) := o <- p_peek_token_n n ;; p_ret (option_map tok_data o).

(* pop: take current_token, else pull one; panics when the lexer is finished *)
Definition p_pop : PM prstoken :=
  fun s => match ps_cur s with
           | Some t => POk (t, ps_set_cur None s)
           | None => match p_next_token_loop (ps_items s) s with
                     | (Some t, s') => POk (t, s')
                     | (None, _) => PPanic PnPopFinished
                     end
           end.

(* push_token *)
Definition p_push_token (k : skind) (t : prstoken) : PM unit :=
  p_modify (fun s => ps_set_builder (pb_token k (tok_data t) (ps_builder s)) s).

(* skip_ignored: while let Some(Comment | Whitespace | Comma) = self.peek() { pending.push(Ignored(self.pop())) }
   As structural recursion on the remaining items: `skip_loop` is the loop from a state whose
   current_token is None (peek pulls; an ignored token is popped again at once). *)
Fixpoint p_skip_loop (items : list item) (s : pstate) : pstate :=
  match items with
  | [] => ps_set_items [] s
  | IErr c d i :: r => p_skip_loop r (p_lexer_error_effect c d i (p_count_pull s))
  | ITok k d i :: r =>
      let t := {| tok_kind := k; tok_data := d; tok_index := i |} in
      if p_is_ignored_kind k
      then p_skip_loop r (let s1 := p_count_pull s in ps_set_pending (ps_pending s1 ++ [PendIgnored t]) s1)
      else ps_set_cur (Some t) (ps_set_items r (p_count_pull s))
  end.

Definition p_skip_ignored : PM unit :=
  fun s => match ps_cur s with
           | Some t =>
               if p_is_ignored_kind (tok_kind t)
               then let s1 := ps_set_cur None (ps_set_pending (ps_pending s ++ [PendIgnored t]) s) in
                    POk (tt, p_skip_loop (ps_items s1) s1)
               else POk (tt, s)
           | None => POk (tt, p_skip_loop (ps_items s) s)
           end.

(* push_ignored: flush `pending` into the current node *)
Fixpoint p_push_pending_list (l : list ppend) (b : pbuilder) : poutcome pbuilder :=
  match l with
  | [] => POk b
  | PendIgnored t :: r =>
      match tok_kind t with
      | TkComment => p_push_pending_list r (pb_token SK_COMMENT (tok_data t) b)
      | TkWhitespace => p_push_pending_list r (pb_token SK_WHITESPACE (tok_data t) b)
      | TkComma => p_push_pending_list r (pb_token SK_COMMA (tok_data t) b)
      | _ => PPanic PnPushIgnoredUnreachable
      end
  | PendError d :: r => p_push_pending_list r (pb_token SK_ERROR d b)
  end.

Definition p_push_ignored : PM unit :=
  fun s => match p_push_pending_list (ps_pending s) (ps_builder s) with
           | POk b => POk (tt, ps_set_builder b (ps_set_pending [] s))
           | PPanic w => PPanic w
           | POutOfFuel => POutOfFuel
           end.

(* eat *)
Definition p_eat (k : skind) : PM unit :=
  p_push_ignored ;;
  c <- p_current ;;
  match c with
  | None => p_ret tt
  | Some _ => t <- p_pop ;; p_push_token k t
  end.

(* bump *)
Definition p_bump (k : skind) : PM unit := p_eat k ;; p_skip_ignored.

(* push_err *)
Definition p_push_err (e : perror) : PM unit :=
  p_modify (fun s => if ps_accept s then ps_set_errors (e :: ps_errors s) s else s).

Definition p_syntax_error_at (t : prstoken) : perror := {| pe_class := PcSyntax; pe_index := tok_index t |}.

(* limit_err *)
Definition p_limit_err : PM unit :=
  c <- p_current ;;
  match c with
  | None => p_ret tt
  | Some t =>
      p_push_err {| pe_class := PcLimit; pe_index := tok_index t |} ;;
      p_modify (ps_set_accept false)
  end.

(* err_at_token *)
Definition p_err_at_token (t : prstoken) : PM unit := p_push_err (p_syntax_error_at t).

(* err *)
Definition p_err : PM unit :=
  c <- p_current ;;
  match c with
  | None => p_ret tt
  | Some t => p_push_err (p_syntax_error_at t)
  end.

(* err_and_pop *)
Definition p_err_and_pop : PM unit :=
  p_push_ignored ;;
  c <- p_current ;;
  match c with
  | None => p_ret tt
  | Some _ =>
      t <- p_pop ;;
      p_push_token SK_ERROR t ;;
      p_push_err (p_syntax_error_at t) ;;
      p_skip_ignored
  end.

(* expect *)
Definition p_expect (token : tkind) (kind : skind) : PM unit :=
  c <- p_current ;;
  match c with
  | None => p_ret tt
  | Some t =>
      a <- p_at token ;;
      if a then p_bump kind else p_push_err (p_syntax_error_at t)
  end.

(* start_node: the NodeGuard it returns is modelled by `node` below *)
Definition p_start_node (k : skind) : PM unit :=
  p_push_ignored ;;
  p_modify (fun s => ps_set_builder (pb_start_node k (ps_builder s)) s) ;;
  p_skip_ignored.

(* NodeGuard::drop *)
Definition p_finish_node : PM unit := p_lift_b pb_finish_node.

(* let _g = p.start_node(kind); body; (scope exit, including early `return`s: drop(_g)) *)
Definition p_node {A} (k : skind) (body : PM A) : PM A :=
  p_start_node k ;; r <- body ;; p_finish_node ;; p_ret r.

(* checkpoint_node *)
Definition p_checkpoint_node : PM nat :=
  p_push_ignored ;; s <- p_get ;; p_ret (pb_checkpoint (ps_builder s)).

(* Checkpoint::wrap_node (the guard: finish_node at scope exit) *)
Definition p_wrap_node (cp : nat) (k : skind) : PM unit := p_lift_b (pb_start_node_at cp k).

(* recursion_limit.check_and_increment() / decrement() *)
Definition p_rec_check_and_increment : PM bool :=
  fun s => match ptracker_check_and_increment (ps_rec s) with
           | POk (b, t) => POk (b, ps_set_rec t s)
           | PPanic w => PPanic w
           | POutOfFuel => POutOfFuel
           end.
Definition p_rec_decrement : PM unit :=
  fun s => match ptracker_decrement (ps_rec s) with
           | POk t => POk (tt, ps_set_rec t s)
           | PPanic w => PPanic w
           | POutOfFuel => POutOfFuel
           end.

(* The five recursion-guarded sites all have the shape
     if p.recursion_limit.check_and_increment() { <on_reached>; return .. }
     let x = <body>; p.recursion_limit.decrement(); <k x> *)
Definition p_rec_guard {A B} (on_reached : PM B) (body : PM A) (k : A -> PM B) : PM B :=
  reached <- p_rec_check_and_increment ;;
  if reached then on_reached
  else x <- body ;; p_rec_decrement ;; k x.

(* debug_assert!(before != self.current_token) *)
Definition p_debug_assert_advanced (before : option prstoken) : PM unit :=
  fun s => if ps_dbg s && prsoptoken_eqb before (ps_cur s) then PPanic PnDebugAssert else POk (tt, s).

(* peek_while, with the closure's captured mutable variable as an accumulator `acc`.
   run returns (acc', continue?) : true = ControlFlow::Continue, false = Break. *)
Fixpoint p_peek_while_acc {Acc} (fuel : nat) (run : Acc -> tkind -> PM (Acc * bool)) (acc : Acc) : PM Acc :=
  match fuel with
  | O => p_out_of_fuel
  | S f =>
      o <- p_peek ;;
      match o with
      | None => p_ret acc
      | Some kind =>
          s0 <- p_get ;;
          r <- run acc kind ;;
          let '(acc', cont) := r in
          if cont then p_debug_assert_advanced (ps_cur s0) ;; p_peek_while_acc f run acc'
          else p_ret acc'
      end
  end.

Definition p_peek_while (fuel : nat) (run : tkind -> PM bool) : PM unit :=
  p_peek_while_acc fuel (fun _ k => c <- run k ;; p_ret (tt, c)) tt ;; p_ret tt.

(* peek_while_kind *)
Fixpoint p_peek_while_kind_acc {Acc} (fuel : nat) (expect_ : tkind) (run : Acc -> PM Acc) (acc : Acc) : PM Acc :=
  match fuel with
  | O => p_out_of_fuel
  | S f =>
      o <- p_peek ;;
      match o with
      | None => p_ret acc
      | Some kind =>
          if negb (tkind_eqb kind expect_) then p_ret acc
          else
            s0 <- p_get ;;
            acc' <- run acc ;;
            p_debug_assert_advanced (ps_cur s0) ;;
            p_peek_while_kind_acc f expect_ run acc'
      end
  end.

Definition p_peek_while_kind (fuel : nat) (expect_ : tkind) (run : PM unit) : PM unit :=
  p_peek_while_kind_acc fuel expect_ (fun _ => run) tt.

(* trailing_tokens_are_errors: skip_ignored(); while !matches!(peek(), None | Some(Eof)) { err_and_pop(msg) };
   push_ignored() *)
Fixpoint p_trailing_loop (fuel : nat) : PM unit :=
  match fuel with
  | O => p_out_of_fuel
  | S f =>
      o <- p_peek ;;
      match o with
      | None | Some TkEof => p_ret tt
      | Some _ => p_err_and_pop ;; p_trailing_loop f
      end
  end.
Definition p_trailing_tokens_are_errors (fuel : nat) : PM unit :=
  p_skip_ignored ;; p_trailing_loop fuel ;; p_push_ignored.

(* GHOST: record that token t was popped and will never reach the builder *)
Definition p_ghost_dropped (t : prstoken) : PM unit := p_modify (fun s => ps_set_dropped (t :: ps_dropped s) s).

(* parse_separated_list *)
Definition p_parse_separated_list (fuel : nat) (separator : tkind) (separator_syntax : skind) (run : PM unit)
  : PM unit :=
  o <- p_peek ;;
  p_when (match o with Some k => tkind_eqb k separator | None => false end) (p_bump separator_syntax) ;;
  run ;;
  p_peek_while_kind fuel separator (p_bump separator_syntax ;; run).
