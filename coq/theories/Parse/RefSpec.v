(* C05 — the October 2021 document grammar, declaratively: languages over significant tokens built with the
   operators of the spec's notation (RefLib: LSeq, LOpt `?`, LStar/LPlus lists) and, for the three recursive
   families (Value, Type, SelectionSet), inductive derivation predicates.  This file contains no parser: it
   is the reading of spec section 2 (and appendix B) against which RefGrammar.v is proved sound and complete.

   Executable sub-language (spec 2.2 - 2.12): Document/ExecutableDefinition, OperationDefinition, SelectionSet,
   Field, Alias, Arguments, FragmentSpread, InlineFragment, FragmentDefinition, TypeCondition, Value[Const],
   VariableDefinitions, Type, Directives[Const]. *)
From ApolloVerif Require Import Base.Chars Lex.Item Parse.RefGrammar Parse.RefLib.

Definition RgName : rg_lang := LTok (rg_is TkName).
Definition RgPunct (k : tkind) : rg_lang := LTok (rg_is k).
Definition RgKw (w : str) : rg_lang := LTok (rg_is_kw w).

(* ---- Value[Const] : c = true is the Const variant (no Variable) ---- *)
Inductive rg_vnt := RgNtValue | RgNtValues | RgNtObjFields.

Inductive RgVal (c : bool) : rg_vnt -> rg_lang :=
| RgV_var d n :                (* [~Const] Variable : $ Name *)
    c = false -> rg_is TkDollar d = true -> rg_is TkName n = true -> RgVal c RgNtValue [d; n]
| RgV_int t : rg_is TkInt t = true -> RgVal c RgNtValue [t]
| RgV_float t : rg_is TkFloat t = true -> RgVal c RgNtValue [t]
| RgV_string t : rg_is TkStringValue t = true -> RgVal c RgNtValue [t]
| RgV_bool t : rg_is_in [rg_s_true; rg_s_false] t = true -> RgVal c RgNtValue [t]
| RgV_null t : rg_is_kw rg_s_null t = true -> RgVal c RgNtValue [t]
| RgV_enum t :                 (* EnumValue : Name but not true or false or null *)
    rg_is_name_but [rg_s_true; rg_s_false; rg_s_null] t = true -> RgVal c RgNtValue [t]
| RgV_list x body y :          (* ListValue : [ ] | [ Value+ ] *)
    rg_is TkLBracket x = true -> RgVal c RgNtValues body -> rg_is TkRBracket y = true ->
    RgVal c RgNtValue (x :: body ++ [y])
| RgV_object x body y :        (* ObjectValue : { } | { ObjectField+ } *)
    rg_is TkLCurly x = true -> RgVal c RgNtObjFields body -> rg_is TkRCurly y = true ->
    RgVal c RgNtValue (x :: body ++ [y])
| RgVs_nil : RgVal c RgNtValues []
| RgVs_cons a b : RgVal c RgNtValue a -> RgVal c RgNtValues b -> RgVal c RgNtValues (a ++ b)
| RgFs_nil : RgVal c RgNtObjFields []
| RgFs_cons n col v b :        (* ObjectField : Name : Value *)
    rg_is TkName n = true -> rg_is TkColon col = true -> RgVal c RgNtValue v -> RgVal c RgNtObjFields b ->
    RgVal c RgNtObjFields (n :: col :: v ++ b).

Definition RgValue (c : bool) : rg_lang := RgVal c RgNtValue.

(* ---- Type : NamedType | ListType | NonNullType ; the index says whether the word is a NonNullType ---- *)
Inductive RgTy : bool -> rg_lang :=
| RgT_named t : rg_is TkName t = true -> RgTy false [t]
| RgT_list x nn body y :
    rg_is TkLBracket x = true -> RgTy nn body -> rg_is TkRBracket y = true -> RgTy false (x :: body ++ [y])
| RgT_nonnull l b :            (* NonNullType : NamedType ! | ListType ! *)
    RgTy false l -> rg_is TkBang b = true -> RgTy true (l ++ [b]).
Definition RgType : rg_lang := fun l => exists nn, RgTy nn l.

(* ---- Arguments[Const], Directives[Const] ---- *)
Definition RgArgument (c : bool) : rg_lang := LSeq RgName (LSeq (RgPunct TkColon) (RgValue c)).
Definition RgArguments (c : bool) : rg_lang :=
  LSeq (RgPunct TkLParen) (LSeq (LPlus (RgArgument c)) (RgPunct TkRParen)).
Definition RgDirective (c : bool) : rg_lang :=
  LSeq (RgPunct TkAt) (LSeq RgName (LOpt (RgArguments c))).
(* Directives? *)
Definition RgDirectivesOpt (c : bool) : rg_lang := LStar (RgDirective c).

(* ---- VariableDefinitions ---- *)
Definition RgVariable : rg_lang := LSeq (RgPunct TkDollar) RgName.
Definition RgDefaultValue : rg_lang := LSeq (RgPunct TkEq) (RgValue true).
Definition RgVariableDefinition : rg_lang :=
  LSeq RgVariable (LSeq (RgPunct TkColon) (LSeq RgType (LSeq (LOpt RgDefaultValue) (RgDirectivesOpt true)))).
Definition RgVariableDefinitions : rg_lang :=
  LSeq (RgPunct TkLParen) (LSeq (LPlus RgVariableDefinition) (RgPunct TkRParen)).

(* ---- SelectionSet ---- *)
Definition RgAlias : rg_lang := LSeq RgName (RgPunct TkColon).
Definition RgTypeCondition : rg_lang := LSeq (RgKw rg_s_on) RgName.
(* FragmentName : Name but not `on` *)
Definition RgFragmentName : rg_lang := LTok (rg_is_name_but [rg_s_on]).

Inductive rg_snt := RgNtSelSet | RgNtSel | RgNtSels.

Inductive RgSel : rg_snt -> rg_lang :=
| RgS_set x first more y :     (* SelectionSet : { Selection+ } *)
    rg_is TkLCurly x = true -> RgSel RgNtSel first -> RgSel RgNtSels more -> rg_is TkRCurly y = true ->
    RgSel RgNtSelSet (x :: (first ++ more) ++ [y])
| RgSs_nil : RgSel RgNtSels []
| RgSs_cons a b : RgSel RgNtSel a -> RgSel RgNtSels b -> RgSel RgNtSels (a ++ b)
| RgS_field al nm args dirs :  (* Field : Alias? Name Arguments? Directives? *)
    LOpt RgAlias al -> RgName nm -> LOpt (RgArguments false) args -> RgDirectivesOpt false dirs ->
    RgSel RgNtSel (al ++ nm ++ args ++ dirs)
| RgS_field_set al nm args dirs ss :      (* Field : Alias? Name Arguments? Directives? SelectionSet *)
    LOpt RgAlias al -> RgName nm -> LOpt (RgArguments false) args -> RgDirectivesOpt false dirs ->
    RgSel RgNtSelSet ss -> RgSel RgNtSel (al ++ nm ++ args ++ dirs ++ ss)
| RgS_spread sp nm dirs :      (* FragmentSpread : ... FragmentName Directives? *)
    rg_is TkSpread sp = true -> RgFragmentName nm -> RgDirectivesOpt false dirs ->
    RgSel RgNtSel (sp :: nm ++ dirs)
| RgS_inline sp tc dirs ss :   (* InlineFragment : ... TypeCondition? Directives? SelectionSet *)
    rg_is TkSpread sp = true -> LOpt RgTypeCondition tc -> RgDirectivesOpt false dirs -> RgSel RgNtSelSet ss ->
    RgSel RgNtSel (sp :: tc ++ dirs ++ ss).

Definition RgSelectionSet : rg_lang := RgSel RgNtSelSet.

(* ---- ExecutableDefinition : a word and the (kind, name) it defines ---- *)
Definition RgOpTail : rg_lang :=
  LSeq (LOpt RgVariableDefinitions) (LSeq (RgDirectivesOpt false) RgSelectionSet).
Definition RgFragmentTail : rg_lang :=
  LSeq RgTypeCondition (LSeq (RgDirectivesOpt false) RgSelectionSet).

Inductive RgExecDefinition : list rg_token -> rg_def -> Prop :=
| RgD_shorthand l :            (* OperationDefinition : SelectionSet *)
    RgSelectionSet l -> RgExecDefinition l (RgkOperation, None)
| RgD_op_anon t l :            (* OperationDefinition : OperationType VariableDefinitions? Directives? SelectionSet *)
    rg_is_optype t = true -> RgOpTail l -> RgExecDefinition (t :: l) (RgkOperation, None)
| RgD_op_named t w l :       (* OperationDefinition : OperationType Name VariableDefinitions? Directives? SelectionSet *)
    rg_is_optype t = true -> RgOpTail l -> RgExecDefinition (t :: (TkName, w) :: l) (RgkOperation, Some w)
| RgD_fragment t w l :         (* FragmentDefinition : fragment FragmentName TypeCondition Directives? SelectionSet *)
    rg_is_kw rg_s_fragment t = true -> rg_streq rg_s_on w = false -> RgFragmentTail l ->
    RgExecDefinition (t :: (TkName, w) :: l) (RgkFragment, Some w).

(* ExecutableDocument : ExecutableDefinition+ *)
Inductive RgExecDocument : list rg_token -> list rg_def -> Prop :=
| RgX_one l d : RgExecDefinition l d -> RgExecDocument l [d]
| RgX_cons l d l' ds : RgExecDefinition l d -> RgExecDocument l' ds -> RgExecDocument (l ++ l') (d :: ds).

(* ---- Document : Definition+ , generically in the definition relation D.
   D o l d : the word l is a definition d; o = true when the alternative used ends with a
   `[lookahead != {]` restriction (only type-system productions), so that it cannot be followed by `{`. ---- *)
Inductive RgDocOf (D : bool -> list rg_token -> rg_def -> Prop) : list rg_token -> list rg_def -> Prop :=
| RgDoc_one o l d : D o l d -> RgDocOf D l [d]
| RgDoc_cons o l d l' ds :
    D o l d -> (o = true -> rg_nh (rg_is TkLCurly) l') -> RgDocOf D l' ds -> RgDocOf D (l ++ l') (d :: ds).
