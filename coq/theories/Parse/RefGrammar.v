(* C05 — the REFERENCE parser: the October 2021 GraphQL document grammar (spec section 2, section 3 and
   appendix B; /repo/graphql.ungram was used only as a cross-check) as a recogniser over the list of
   NON-IGNORED tokens.  It is independent of apollo-parser's code: no tree builder, no pending queue, no
   error recovery; one token of look-ahead (two for `extend <keyword>`, for `"description" <keyword>` and for
   `... on`).  For an accepted document it returns the list of (definition kind, optional name).

   Result type: RgOk / RgNo (not in the grammar) / RgOut (out of fuel).  RgOut is excluded for the fuel the
   top-level functions use (fuel = token count, + 1 for the nested families) by Parse/RefProofsTS.v
   (`rg_document_fuel`, Props/C05.v `C05_rg_fuel_enough`).

   Definitions only (extracted).  Every name carries the prefix rg_ / Rg (one flat extraction).

   Grammar notes (the spec text decides):
   - commas are Ignored tokens (spec 2.1.7) and are dropped before this recogniser runs, like white space,
     comments, the BOM and <EOF>;
   - `Value[Const]` excludes variables; the Const positions are default values and every directive of a
     variable definition or of a type-system definition/extension;
   - BooleanValue | NullValue | EnumValue together are exactly "any Name"; an EnumValue *definition*
     (enum type) is a Name other than true/false/null; a FragmentName is a Name other than `on`;
   - descriptions exist only before type-system *definitions* (and field, argument, input field and enum
     value definitions): not before operations, fragments or extensions (October 2021);
   - the `[lookahead != {]` restrictions of the type-system productions are realised by the greedy choice:
     a `{` after `type T`, `extend schema @d`, ... always belongs to that definition;
   - an extension must add something (each alternative of the `*Extension` productions has at least one
     of its optional parts): realised by `rg_peek` on the token after the name. *)
From ApolloVerif Require Import Base.Chars Lex.Item Lex.Fun.

Definition rg_token := (tkind * str)%type.

Inductive rg_r (A : Type) := RgOk (a : A) | RgNo | RgOut.
Arguments RgOk {A} a.
Arguments RgNo {A}.
Arguments RgOut {A}.

Definition rg_bind {A B : Type} (x : rg_r A) (f : A -> rg_r B) : rg_r B :=
  match x with RgOk a => f a | RgNo => RgNo | RgOut => RgOut end.

(* a recogniser: consumes a prefix, returns the rest *)
Definition rg_p := list rg_token -> rg_r (list rg_token).

Fixpoint rg_streq (a b : str) : bool :=
  match a, b with
  | [], [] => true
  | x :: a', y :: b' => (x =? y) && rg_streq a' b'
  | _, _ => false
  end.

(* ---- keywords ---- *)
Definition rg_s_query : str := [113; 117; 101; 114; 121].
Definition rg_s_mutation : str := [109; 117; 116; 97; 116; 105; 111; 110].
Definition rg_s_subscription : str := [115; 117; 98; 115; 99; 114; 105; 112; 116; 105; 111; 110].
Definition rg_s_fragment : str := [102; 114; 97; 103; 109; 101; 110; 116].
Definition rg_s_on : str := [111; 110].
Definition rg_s_true : str := [116; 114; 117; 101].
Definition rg_s_false : str := [102; 97; 108; 115; 101].
Definition rg_s_null : str := [110; 117; 108; 108].
Definition rg_s_schema : str := [115; 99; 104; 101; 109; 97].
Definition rg_s_extend : str := [101; 120; 116; 101; 110; 100].
Definition rg_s_scalar : str := [115; 99; 97; 108; 97; 114].
Definition rg_s_type : str := [116; 121; 112; 101].
Definition rg_s_interface : str := [105; 110; 116; 101; 114; 102; 97; 99; 101].
Definition rg_s_union : str := [117; 110; 105; 111; 110].
Definition rg_s_enum : str := [101; 110; 117; 109].
Definition rg_s_input : str := [105; 110; 112; 117; 116].
Definition rg_s_directive : str := [100; 105; 114; 101; 99; 116; 105; 118; 101].
Definition rg_s_implements : str := [105; 109; 112; 108; 101; 109; 101; 110; 116; 115].
Definition rg_s_repeatable : str := [114; 101; 112; 101; 97; 116; 97; 98; 108; 101].
(* ExecutableDirectiveLocation *)
Definition rg_s_QUERY : str := [81; 85; 69; 82; 89].
Definition rg_s_MUTATION : str := [77; 85; 84; 65; 84; 73; 79; 78].
Definition rg_s_SUBSCRIPTION : str := [83; 85; 66; 83; 67; 82; 73; 80; 84; 73; 79; 78].
Definition rg_s_FIELD : str := [70; 73; 69; 76; 68].
Definition rg_s_FRAGMENT_DEFINITION : str := [70; 82; 65; 71; 77; 69; 78; 84; 95; 68; 69; 70; 73; 78; 73; 84; 73; 79; 78].
Definition rg_s_FRAGMENT_SPREAD : str := [70; 82; 65; 71; 77; 69; 78; 84; 95; 83; 80; 82; 69; 65; 68].
Definition rg_s_INLINE_FRAGMENT : str := [73; 78; 76; 73; 78; 69; 95; 70; 82; 65; 71; 77; 69; 78; 84].
Definition rg_s_VARIABLE_DEFINITION : str := [86; 65; 82; 73; 65; 66; 76; 69; 95; 68; 69; 70; 73; 78; 73; 84; 73; 79; 78].
(* TypeSystemDirectiveLocation *)
Definition rg_s_SCHEMA : str := [83; 67; 72; 69; 77; 65].
Definition rg_s_SCALAR : str := [83; 67; 65; 76; 65; 82].
Definition rg_s_OBJECT : str := [79; 66; 74; 69; 67; 84].
Definition rg_s_FIELD_DEFINITION : str := [70; 73; 69; 76; 68; 95; 68; 69; 70; 73; 78; 73; 84; 73; 79; 78].
Definition rg_s_ARGUMENT_DEFINITION : str := [65; 82; 71; 85; 77; 69; 78; 84; 95; 68; 69; 70; 73; 78; 73; 84; 73; 79; 78].
Definition rg_s_INTERFACE : str := [73; 78; 84; 69; 82; 70; 65; 67; 69].
Definition rg_s_UNION : str := [85; 78; 73; 79; 78].
Definition rg_s_ENUM : str := [69; 78; 85; 77].
Definition rg_s_ENUM_VALUE : str := [69; 78; 85; 77; 95; 86; 65; 76; 85; 69].
Definition rg_s_INPUT_OBJECT : str := [73; 78; 80; 85; 84; 95; 79; 66; 74; 69; 67; 84].
Definition rg_s_INPUT_FIELD_DEFINITION : str := [73; 78; 80; 85; 84; 95; 70; 73; 69; 76; 68; 95; 68; 69; 70; 73; 78; 73; 84; 73; 79; 78].

Definition rg_exec_locations : list str :=
  [rg_s_QUERY; rg_s_MUTATION; rg_s_SUBSCRIPTION; rg_s_FIELD; rg_s_FRAGMENT_DEFINITION; rg_s_FRAGMENT_SPREAD;
   rg_s_INLINE_FRAGMENT; rg_s_VARIABLE_DEFINITION].
Definition rg_ts_locations : list str :=
  [rg_s_SCHEMA; rg_s_SCALAR; rg_s_OBJECT; rg_s_FIELD_DEFINITION; rg_s_ARGUMENT_DEFINITION; rg_s_INTERFACE;
   rg_s_UNION; rg_s_ENUM; rg_s_ENUM_VALUE; rg_s_INPUT_OBJECT; rg_s_INPUT_FIELD_DEFINITION].

(* ---- token predicates ---- *)
Definition rg_is (k : tkind) (t : rg_token) : bool := tkind_eqb k (fst t).
Definition rg_is_kw (w : str) (t : rg_token) : bool := tkind_eqb TkName (fst t) && rg_streq w (snd t).
Definition rg_is_in (ws : list str) (t : rg_token) : bool :=
  tkind_eqb TkName (fst t) && existsb (fun w => rg_streq w (snd t)) ws.
Definition rg_is_optype : rg_token -> bool := rg_is_in [rg_s_query; rg_s_mutation; rg_s_subscription].
Definition rg_is_location : rg_token -> bool := rg_is_in (rg_exec_locations ++ rg_ts_locations).
(* a Name that is none of ws *)
Definition rg_is_name_but (ws : list str) (t : rg_token) : bool := rg_is TkName t && negb (rg_is_in ws t).
Definition rg_is_name_or_string (t : rg_token) : bool := rg_is TkName t || rg_is TkStringValue t.

(* ---- combinators ---- *)
Definition rg_sat (f : rg_token -> bool) : rg_p :=
  fun ts => match ts with t :: r => if f t then RgOk r else RgNo | [] => RgNo end.
(* the next token satisfies f; nothing is consumed *)
Definition rg_peek (f : rg_token -> bool) : rg_p :=
  fun ts => match ts with t :: _ => if f t then RgOk ts else RgNo | [] => RgNo end.
Definition rg_seq (p q : rg_p) : rg_p := fun ts => rg_bind (p ts) q.
(* X? decided by one token of look-ahead *)
Definition rg_opt (start : rg_token -> bool) (p : rg_p) : rg_p :=
  fun ts => match ts with t :: _ => if start t then p ts else RgOk ts | [] => RgOk ts end.
(* X* decided by one token of look-ahead; n bounds the number of items *)
Fixpoint rg_many_f (n : nat) (start : rg_token -> bool) (item : rg_p) (ts : list rg_token)
  : rg_r (list rg_token) :=
  match ts with
  | t :: _ =>
      if start t then
        match n with
        | O => RgOut
        | S n' => rg_bind (item ts) (rg_many_f n' start item)
        end
      else RgOk ts
  | [] => RgOk ts
  end.
Definition rg_many (start : rg_token -> bool) (item : rg_p) : rg_p :=
  fun ts => rg_many_f (length ts) start item ts.
(* X+ : one item, then X* *)
Definition rg_plus (start : rg_token -> bool) (item : rg_p) : rg_p := rg_seq item (rg_many start item).

Definition rg_name : rg_p := rg_sat (rg_is TkName).

(* ---- Value[Const] (spec 2.9).  c = true: Const ---- *)
Definition rg_not_rbracket (t : rg_token) : bool := negb (rg_is TkRBracket t).

Fixpoint rg_value_f (n : nat) (c : bool) (ts : list rg_token) : rg_r (list rg_token) :=
  match n with
  | O => RgOut
  | S n' =>
      match ts with
      | [] => RgNo
      | (k, _) :: r =>
          match k with
          | TkDollar => if c then RgNo else rg_name r                              (* Variable *)
          | TkInt | TkFloat | TkStringValue => RgOk r
          | TkName => RgOk r                               (* true false null | EnumValue: any Name *)
          | TkLBracket =>                                                        (* [ Value* ] *)
              rg_seq (rg_many_f n' rg_not_rbracket (rg_value_f n' c)) (rg_sat (rg_is TkRBracket)) r
          | TkLCurly =>                                                     (* { (Name : Value)* } *)
              rg_seq (rg_many_f n' (rg_is TkName)
                        (rg_seq rg_name (rg_seq (rg_sat (rg_is TkColon)) (rg_value_f n' c))))
                     (rg_sat (rg_is TkRCurly)) r
          | _ => RgNo
          end
      end
  end.
Definition rg_value (c : bool) : rg_p := fun ts => rg_value_f (S (length ts)) c ts.

(* ---- Type (spec 2.11): NamedType | [ Type ], then an optional ! ---- *)
Fixpoint rg_type_f (n : nat) (ts : list rg_token) : rg_r (list rg_token) :=
  match n with
  | O => RgOut
  | S n' =>
      rg_bind
        (match ts with
         | (TkName, _) :: r => RgOk r
         | (TkLBracket, _) :: r => rg_seq (rg_type_f n') (rg_sat (rg_is TkRBracket)) r
         | _ => RgNo
         end)
        (rg_opt (rg_is TkBang) (rg_sat (rg_is TkBang)))
  end.
Definition rg_type : rg_p := fun ts => rg_type_f (S (length ts)) ts.

(* ---- Arguments[Const], Directives[Const] (spec 2.6, 2.12) ---- *)
Definition rg_argument (c : bool) : rg_p := rg_seq rg_name (rg_seq (rg_sat (rg_is TkColon)) (rg_value c)).
Definition rg_arguments (c : bool) : rg_p :=
  rg_seq (rg_sat (rg_is TkLParen)) (rg_seq (rg_plus (rg_is TkName) (rg_argument c)) (rg_sat (rg_is TkRParen))).
Definition rg_directive (c : bool) : rg_p :=
  rg_seq (rg_sat (rg_is TkAt)) (rg_seq rg_name (rg_opt (rg_is TkLParen) (rg_arguments c))).
(* Directives? *)
Definition rg_directives (c : bool) : rg_p := rg_many (rg_is TkAt) (rg_directive c).

(* ---- VariableDefinitions (spec 2.10) ---- *)
Definition rg_variable : rg_p := rg_seq (rg_sat (rg_is TkDollar)) rg_name.
Definition rg_default : rg_p := rg_seq (rg_sat (rg_is TkEq)) (rg_value true).
Definition rg_vardef : rg_p :=
  rg_seq rg_variable (rg_seq (rg_sat (rg_is TkColon)) (rg_seq rg_type
    (rg_seq (rg_opt (rg_is TkEq) rg_default) (rg_directives true)))).
Definition rg_vardefs : rg_p :=
  rg_seq (rg_sat (rg_is TkLParen)) (rg_seq (rg_plus (rg_is TkDollar) rg_vardef) (rg_sat (rg_is TkRParen))).

(* ---- SelectionSet (spec 2.4 - 2.8) ---- *)
Definition rg_sel_start (t : rg_token) : bool := rg_is TkName t || rg_is TkSpread t.

Fixpoint rg_selset_f (n : nat) (ts : list rg_token) : rg_r (list rg_token) :=
  match n with
  | O => RgOut
  | S n' =>
      rg_seq (rg_sat (rg_is TkLCurly))
        (rg_seq (rg_seq (rg_selection_f n') (rg_many_f n' rg_sel_start (rg_selection_f n')))
                (rg_sat (rg_is TkRCurly))) ts
  end
with rg_selection_f (n : nat) (ts : list rg_token) : rg_r (list rg_token) :=
  match n with
  | O => RgOut
  | S n' =>
      match ts with
      | (TkSpread, _) :: r =>
          match r with
          | (TkName, w) :: r2 =>
              if rg_streq rg_s_on w
              then (* InlineFragment with TypeCondition: ... on NamedType Directives? SelectionSet *)
                rg_seq rg_name (rg_seq (rg_directives false) (rg_selset_f n')) r2
              else (* FragmentSpread: ... FragmentName Directives? *)
                rg_directives false r2
          | _ => (* InlineFragment without TypeCondition: ... Directives? SelectionSet *)
              rg_seq (rg_directives false) (rg_selset_f n') r
          end
      | (TkName, _) :: r =>
          (* Field: Alias? Name Arguments? Directives? SelectionSet? ; the first Name is an alias iff ':' follows *)
          rg_seq (rg_opt (rg_is TkColon) (rg_seq (rg_sat (rg_is TkColon)) rg_name))
            (rg_seq (rg_opt (rg_is TkLParen) (rg_arguments false))
               (rg_seq (rg_directives false) (rg_opt (rg_is TkLCurly) (rg_selset_f n')))) r
      | _ => RgNo
      end
  end.
Definition rg_selset : rg_p := fun ts => rg_selset_f (S (length ts)) ts.

(* ---- definitions ---- *)
Inductive rg_defkind :=
| RgkOperation | RgkFragment | RgkDirectiveDef | RgkSchemaDef | RgkScalarDef | RgkObjectDef | RgkInterfaceDef
| RgkUnionDef | RgkEnumDef | RgkInputDef | RgkSchemaExt | RgkScalarExt | RgkObjectExt | RgkInterfaceExt
| RgkUnionExt | RgkEnumExt | RgkInputExt.

Definition rg_defkind_code (k : rg_defkind) : N :=
  match k with
  | RgkOperation => 0 | RgkFragment => 1 | RgkDirectiveDef => 2 | RgkSchemaDef => 3 | RgkScalarDef => 4
  | RgkObjectDef => 5 | RgkInterfaceDef => 6 | RgkUnionDef => 7 | RgkEnumDef => 8 | RgkInputDef => 9
  | RgkSchemaExt => 10 | RgkScalarExt => 11 | RgkObjectExt => 12 | RgkInterfaceExt => 13 | RgkUnionExt => 14
  | RgkEnumExt => 15 | RgkInputExt => 16
  end.

Definition rg_def := (rg_defkind * option str)%type.
Definition rg_dp := list rg_token -> rg_r (rg_def * list rg_token).

Definition rg_ret (d : rg_def) (p : rg_p) : rg_dp := fun ts => rg_bind (p ts) (fun r => RgOk (d, r)).
(* <Name> tail : a definition of kind k named by the next token *)
Definition rg_named (k : rg_defkind) (tail : rg_p) : rg_dp :=
  fun ts => match ts with
            | (TkName, w) :: r => rg_ret (k, Some w) tail r
            | _ => RgNo
            end.

(* OperationDefinition (after the operation type keyword): Name? VariableDefinitions? Directives? SelectionSet *)
Definition rg_op_tail : rg_p :=
  rg_seq (rg_opt (rg_is TkLParen) rg_vardefs) (rg_seq (rg_directives false) rg_selset).
Definition rg_operation : rg_dp :=
  fun ts => match ts with
            | (TkLCurly, _) :: _ => rg_ret (RgkOperation, None) rg_selset ts
            | t :: r =>
                if rg_is_optype t then
                  match r with
                  | (TkName, w) :: r' => rg_ret (RgkOperation, Some w) rg_op_tail r'
                  | _ => rg_ret (RgkOperation, None) rg_op_tail r
                  end
                else RgNo
            | [] => RgNo
            end.
(* FragmentDefinition: fragment FragmentName TypeCondition Directives? SelectionSet *)
Definition rg_fragment_tail : rg_p :=
  rg_seq (rg_sat (rg_is_kw rg_s_on)) (rg_seq rg_name (rg_seq (rg_directives false) rg_selset)).
Definition rg_fragment : rg_dp :=
  fun ts => match ts with
            | t :: (TkName, w) :: r =>
                if rg_is_kw rg_s_fragment t && negb (rg_streq rg_s_on w)
                then rg_ret (RgkFragment, Some w) rg_fragment_tail r
                else RgNo
            | _ => RgNo
            end.
Definition rg_exec_definition : rg_dp :=
  fun ts => match ts with
            | t :: _ => if rg_is_kw rg_s_fragment t then rg_fragment ts else rg_operation ts
            | [] => RgNo
            end.

(* ---- type system (spec section 3) ---- *)
Definition rg_desc_opt : rg_p := rg_opt (rg_is TkStringValue) (rg_sat (rg_is TkStringValue)).
(* InputValueDefinition: Description? Name : Type DefaultValue? Directives[Const]? *)
Definition rg_inputvaldef : rg_p :=
  rg_seq rg_desc_opt (rg_seq rg_name (rg_seq (rg_sat (rg_is TkColon)) (rg_seq rg_type
    (rg_seq (rg_opt (rg_is TkEq) rg_default) (rg_directives true))))).
Definition rg_argsdef : rg_p :=
  rg_seq (rg_sat (rg_is TkLParen))
    (rg_seq (rg_plus rg_is_name_or_string rg_inputvaldef) (rg_sat (rg_is TkRParen))).
(* FieldDefinition: Description? Name ArgumentsDefinition? : Type Directives[Const]? *)
Definition rg_fielddef : rg_p :=
  rg_seq rg_desc_opt (rg_seq rg_name (rg_seq (rg_opt (rg_is TkLParen) rg_argsdef)
    (rg_seq (rg_sat (rg_is TkColon)) (rg_seq rg_type (rg_directives true))))).
Definition rg_fieldsdef : rg_p :=
  rg_seq (rg_sat (rg_is TkLCurly))
    (rg_seq (rg_plus rg_is_name_or_string rg_fielddef) (rg_sat (rg_is TkRCurly))).
Definition rg_inputfieldsdef : rg_p :=
  rg_seq (rg_sat (rg_is TkLCurly))
    (rg_seq (rg_plus rg_is_name_or_string rg_inputvaldef) (rg_sat (rg_is TkRCurly))).
(* ImplementsInterfaces: implements &? NamedType (& NamedType)* *)
Definition rg_implements : rg_p :=
  rg_seq (rg_sat (rg_is_kw rg_s_implements))
    (rg_seq (rg_opt (rg_is TkAmp) (rg_sat (rg_is TkAmp)))
       (rg_seq rg_name (rg_many (rg_is TkAmp) (rg_seq (rg_sat (rg_is TkAmp)) rg_name)))).
(* UnionMemberTypes: = |? NamedType (| NamedType)* *)
Definition rg_unionmembers : rg_p :=
  rg_seq (rg_sat (rg_is TkEq))
    (rg_seq (rg_opt (rg_is TkPipe) (rg_sat (rg_is TkPipe)))
       (rg_seq rg_name (rg_many (rg_is TkPipe) (rg_seq (rg_sat (rg_is TkPipe)) rg_name)))).
(* EnumValueDefinition: Description? EnumValue Directives[Const]? ; EnumValue: Name but not true false null *)
Definition rg_enumvaldef : rg_p :=
  rg_seq rg_desc_opt
    (rg_seq (rg_sat (rg_is_name_but [rg_s_true; rg_s_false; rg_s_null])) (rg_directives true)).
Definition rg_enumvalsdef : rg_p :=
  rg_seq (rg_sat (rg_is TkLCurly))
    (rg_seq (rg_plus rg_is_name_or_string rg_enumvaldef) (rg_sat (rg_is TkRCurly))).
(* { RootOperationTypeDefinition+ } ; RootOperationTypeDefinition: OperationType : NamedType *)
Definition rg_rootop : rg_p := rg_seq (rg_sat rg_is_optype) (rg_seq (rg_sat (rg_is TkColon)) rg_name).
Definition rg_rootops : rg_p :=
  rg_seq (rg_sat (rg_is TkLCurly)) (rg_seq (rg_plus (rg_is TkName) rg_rootop) (rg_sat (rg_is TkRCurly))).
(* DirectiveLocations: |? DirectiveLocation (| DirectiveLocation)* *)
Definition rg_dirlocs : rg_p :=
  rg_seq (rg_opt (rg_is TkPipe) (rg_sat (rg_is TkPipe)))
    (rg_seq (rg_sat rg_is_location)
       (rg_many (rg_is TkPipe) (rg_seq (rg_sat (rg_is TkPipe)) (rg_sat rg_is_location)))).

Definition rg_is_at_or (k : tkind) (t : rg_token) : bool := rg_is TkAt t || rg_is k t.
Definition rg_is_objext_start (t : rg_token) : bool :=
  rg_is_kw rg_s_implements t || rg_is TkAt t || rg_is TkLCurly t.

(* the part of a type-system definition after its keyword *)
Definition rg_schema_tail : rg_p := rg_seq (rg_directives true) rg_rootops.
Definition rg_scalar_tail : rg_p := rg_directives true.
Definition rg_object_tail : rg_p :=
  rg_seq (rg_opt (rg_is_kw rg_s_implements) rg_implements)
    (rg_seq (rg_directives true) (rg_opt (rg_is TkLCurly) rg_fieldsdef)).
Definition rg_union_tail : rg_p := rg_seq (rg_directives true) (rg_opt (rg_is TkEq) rg_unionmembers).
Definition rg_enum_tail : rg_p := rg_seq (rg_directives true) (rg_opt (rg_is TkLCurly) rg_enumvalsdef).
Definition rg_input_tail : rg_p := rg_seq (rg_directives true) (rg_opt (rg_is TkLCurly) rg_inputfieldsdef).
(* DirectiveDefinition after `directive`: @ Name ArgumentsDefinition? repeatable? on DirectiveLocations *)
Definition rg_dirdef_tail : rg_p :=
  rg_seq (rg_opt (rg_is TkLParen) rg_argsdef)
    (rg_seq (rg_opt (rg_is_kw rg_s_repeatable) (rg_sat (rg_is_kw rg_s_repeatable)))
       (rg_seq (rg_sat (rg_is_kw rg_s_on)) rg_dirlocs)).

(* TypeSystemDefinition, after the optional description; ts starts at the keyword *)
Definition rg_ts_def_kw : rg_dp :=
  fun ts => match ts with
            | (TkName, w) :: r =>
                if rg_streq rg_s_schema w then rg_ret (RgkSchemaDef, None) rg_schema_tail r
                else if rg_streq rg_s_scalar w then rg_named RgkScalarDef rg_scalar_tail r
                else if rg_streq rg_s_type w then rg_named RgkObjectDef rg_object_tail r
                else if rg_streq rg_s_interface w then rg_named RgkInterfaceDef rg_object_tail r
                else if rg_streq rg_s_union w then rg_named RgkUnionDef rg_union_tail r
                else if rg_streq rg_s_enum w then rg_named RgkEnumDef rg_enum_tail r
                else if rg_streq rg_s_input w then rg_named RgkInputDef rg_input_tail r
                else if rg_streq rg_s_directive w then
                  match r with
                  | (TkAt, _) :: r' => rg_named RgkDirectiveDef rg_dirdef_tail r'
                  | _ => RgNo
                  end
                else RgNo
            | _ => RgNo
            end.
(* TypeSystemExtension, ts starts after `extend`; every alternative adds something *)
Definition rg_ts_ext_kw : rg_dp :=
  fun ts => match ts with
            | (TkName, w) :: r =>
                if rg_streq rg_s_schema w then
                  rg_ret (RgkSchemaExt, None)
                    (rg_seq (rg_peek (rg_is_at_or TkLCurly))
                       (rg_seq (rg_directives true) (rg_opt (rg_is TkLCurly) rg_rootops))) r
                else if rg_streq rg_s_scalar w then
                  rg_named RgkScalarExt (rg_seq (rg_peek (rg_is TkAt)) rg_scalar_tail) r
                else if rg_streq rg_s_type w then
                  rg_named RgkObjectExt (rg_seq (rg_peek rg_is_objext_start) rg_object_tail) r
                else if rg_streq rg_s_interface w then
                  rg_named RgkInterfaceExt (rg_seq (rg_peek rg_is_objext_start) rg_object_tail) r
                else if rg_streq rg_s_union w then
                  rg_named RgkUnionExt (rg_seq (rg_peek (rg_is_at_or TkEq)) rg_union_tail) r
                else if rg_streq rg_s_enum w then
                  rg_named RgkEnumExt (rg_seq (rg_peek (rg_is_at_or TkLCurly)) rg_enum_tail) r
                else if rg_streq rg_s_input w then
                  rg_named RgkInputExt (rg_seq (rg_peek (rg_is_at_or TkLCurly)) rg_input_tail) r
                else RgNo
            | _ => RgNo
            end.

(* Definition: ExecutableDefinition | TypeSystemDefinition | TypeSystemExtension *)
Definition rg_definition : rg_dp :=
  fun ts => match ts with
            | (TkStringValue, _) :: r => rg_ts_def_kw r                 (* Description, then a definition *)
            | (TkLCurly, _) :: _ => rg_operation ts
            | (TkName, w) :: r =>
                if rg_is_optype (TkName, w) || rg_streq rg_s_fragment w then rg_exec_definition ts
                else if rg_streq rg_s_extend w then rg_ts_ext_kw r
                else rg_ts_def_kw ts
            | _ => RgNo
            end.

(* Definition*, to the end of the token list *)
Fixpoint rg_defs_f (n : nat) (def : rg_dp) (ts : list rg_token) : rg_r (list rg_def) :=
  match ts with
  | [] => RgOk []
  | _ :: _ =>
      match n with
      | O => RgOut
      | S n' =>
          rg_bind (def ts) (fun dr =>
            rg_bind (rg_defs_f n' def (snd dr)) (fun ds => RgOk (fst dr :: ds)))
      end
  end.

(* Document: Definition+ *)
Definition rg_document_r (def : rg_dp) (ts : list rg_token) : rg_r (list rg_def) :=
  match ts with
  | [] => RgNo
  | _ :: _ => rg_defs_f (length ts) def ts
  end.

Definition rg_to_option {A : Type} (x : rg_r A) : option A :=
  match x with RgOk a => Some a | _ => None end.

Definition rg_document (ts : list rg_token) : option (list rg_def) :=
  rg_to_option (rg_document_r rg_definition ts).
(* ExecutableDocument: ExecutableDefinition+ *)
Definition rg_exec_document (ts : list rg_token) : option (list rg_def) :=
  rg_to_option (rg_document_r rg_exec_definition ts).

(* ---- from the lexer's items to the significant tokens.  A lexical error rejects the document. ---- *)
Definition rg_ignored (k : tkind) : bool :=
  match k with TkWhitespace | TkComment | TkComma | TkEof => true | _ => false end.

Fixpoint rg_significant (l : list item) : option (list rg_token) :=
  match l with
  | [] => Some []
  | ITok k d _ :: r =>
      match rg_significant r with
      | None => None
      | Some ts => if rg_ignored k then Some ts else Some ((k, d) :: ts)
      end
  | IErr _ _ _ :: _ => None
  end.

(* the reference verdict on a source text: lex (Lex.Fun.lex_all), drop the ignored tokens, recognise *)
Definition rg_parse_source (s : str) : option (list rg_def) :=
  match rg_significant (lex_all s) with
  | None => None
  | Some ts => rg_document ts
  end.
