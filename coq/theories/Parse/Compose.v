(* Composition with the lexer model (Lex/): the item streams `lex_all s` and `lex_limited n s` satisfy the
   hypotheses of the parser theorems, so those become statements about SOURCE STRINGS. *)
From Coq Require Import PeanoNat.
From ApolloVerif Require Import Base.Chars Lex.Item Lex.Spec Lex.Fun Lex.LexProofs Lex.LexMain Lex.LexLimit
  Parse.Outcome Parse.Builder Parse.Limits Parse.Monad Parse.Grammar Parse.Entry Parse.LosslessDefs Parse.Lossless.

Lemma lex_all_names_ok s : Forall item_name_ok (lex_all s).
Proof.
  apply Forall_forall. intros it Hin. destruct it as [k d i|c d i]; [|exact I].
  destruct k; try exact I. cbn.
  apply in_split in Hin as (pre & post & E).
  assert (HSC : Forall (fun _ : N => True) s) by (apply Forall_forall; auto).
  pose proof (tokens_are_munch (fun _ => True) s pre TkName d i post HSC E) as HM.
  assert (Hne : TkName <> TkEof) by discriminate. specialize (HM Hne).
  destruct HM as (HL & _). inversion HL; subst. apply is_valid_name_spec. assumption.
Qed.

Lemma lex_all_eof_terminated s : eof_terminated (lex_all s).
Proof.
  destruct (lex_all_eof s) as (pre & E & Hpre). exists pre, (blen s). split; [exact E|].
  apply Forall_forall. intros it Hin. destruct it as [k d i|c d i]; [|exact I].
  destruct k; try exact I. exfalso.
  assert (H : existsb is_eof pre = true) by (apply existsb_exists; eexists; split; [exact Hin|reflexivity]).
  congruence.
Qed.

Lemma firstn_names_ok n l : Forall item_name_ok l -> Forall item_name_ok (firstn n l).
Proof.
  intros H. rewrite <- (firstn_skipn n l) in H. apply Forall_app in H. tauto.
Qed.

Lemma lex_limited_names_ok n s : Forall item_name_ok (lex_limited n s).
Proof.
  destruct (Nat.le_gt_cases (length (lex_all s)) (N.to_nat n)) as [H|H].
  - rewrite (lex_limited_under n s H). apply lex_all_names_ok.
  - rewrite (lex_limited_over n s H). apply Forall_app. split.
    + apply firstn_names_ok. apply lex_all_names_ok.
    + repeat constructor.
Qed.

(* the item stream the parser's lexer yields for a source and an optional token limit *)
Definition lex_for (tl : option N) (s : str) : list item :=
  match tl with Some n => lex_limited n s | None => lex_all s end.
Lemma lex_for_names_ok tl s : Forall item_name_ok (lex_for tl s).
Proof. destruct tl; [apply lex_limited_names_ok|apply lex_all_names_ok]. Qed.

(* C02 on source strings *)
Theorem document_lossless_source dbg rl s r :
  parse_document_items dbg rl (lex_all s) = POk r -> ~ Known_D3 r -> p_text_of (pr_tree r) = s.
Proof.
  intros E Hk. transitivity (concat (map item_data (lex_all s))); [|apply lex_all_concat].
  eapply document_lossless; eauto using lex_all_names_ok, lex_all_eof_terminated. apply not_known_D3. exact Hk.
Qed.

Theorem type_lossless_source dbg rl s r :
  parse_type_items dbg rl (lex_all s) = POk r -> ~ Known_D3 r -> p_text_of (pr_tree r) = s.
Proof.
  intros E Hk. transitivity (concat (map item_data (lex_all s))); [|apply lex_all_concat].
  eapply type_lossless; eauto using lex_all_names_ok, lex_all_eof_terminated. apply not_known_D3. exact Hk.
Qed.

(* the text of a (possibly token-limited) stream is a prefix of the source *)
Lemma lex_for_prefix tl s : exists suf, concat (map item_data (lex_for tl s)) ++ suf = s.
Proof.
  destruct tl as [n|]; cbn [lex_for].
  - destruct (Nat.le_gt_cases (length (lex_all s)) (N.to_nat n)) as [H|H].
    + rewrite (lex_limited_under n s H). exists []. rewrite app_nil_r. apply lex_all_concat.
    + rewrite (lex_limited_over n s H). rewrite map_app, concat_app. cbn [map concat item_data]. rewrite !app_nil_r.
      exists (concat (map item_data (skipn (N.to_nat n) (lex_all s)))).
      rewrite <- concat_app, <- map_app, firstn_skipn. apply lex_all_concat.
  - exists []. rewrite app_nil_r. apply lex_all_concat.
Qed.
