(* C07 link — the standalone entries on item lists and on source strings.  Proofs only. *)
From Coq Require Import PeanoNat.
From ApolloVerif Require Import Base.Chars Lex.Item Lex.Spec Lex.Fun Lex.LexProofs Lex.LexMain
  Parse.Outcome Parse.Builder Parse.Limits Parse.Monad
  Parse.Keywords Parse.Grammar Parse.Generic Parse.Atoms Parse.Entry Parse.LosslessDefs Parse.Lossless
  Parse.TrackerInst Parse.SilentInst Parse.EntryEnd Parse.Terminates Parse.Compose Parse.RefGrammar Parse.RefLib
  Parse.RefLenient Parse.RefLenientProofs Parse.RefLinkBase Parse.RefLinkLoops Parse.RefLinkType Parse.RefLinkValue
  Parse.RefLinkExec Parse.RefLinkSel Parse.RefLinkEntry Parse.RefLinkLex Parse.RefLinkDefs Parse.RefLinkTS
  Parse.RefLinkDoc Parse.RefLinkTree Parse.RefLinkKinds Parse.RefLenientEof.

(* what the link assumes of an item list; every lex_all s satisfies it *)
Definition rl_items_ok (items : list item) : Prop := Forall rl_item_ok items /\ eof_terminated items.
Lemma rl_lex_all_items_ok s : rl_items_ok (lex_all s).
Proof. split; [apply lex_all_items_ok|apply lex_all_eof_terminated]. Qed.

Lemma rl_run_result fuel (g : nat -> PM unit) dbg rl items r :
  p_run_with fuel g dbg rl items = POk r ->
  exists u s', g fuel (p_init_state dbg rl items) = POk (u, s') /\ pr_errors r = rev (ps_errors s').
Proof.
  unfold p_run_with, p_finish. destruct (g fuel (p_init_state dbg rl items)) as [[u s']| |]; try discriminate.
  destruct (pb_finish _); try discriminate. intros [= <-]. eauto.
Qed.
Lemma rl_rev_nil {A} (l : list A) : rev l = [] <-> l = [].
Proof. split; [|intros ->; reflexivity]. intros H. apply (f_equal (@rev A)) in H. rewrite rev_involutive in H. exact H. Qed.

Lemma type_entry_CJ orig fuel : specR (CJ orig) (g_type_entry fuel).
Proof.
  unfold g_type_entry. apply (ok_node _ (CJ_ok orig)).
  eapply post_bind; [apply CJ_rel|apply gg_ty; apply CJ_ok|intros; apply gg_trailing; apply CJ_ok].
Qed.
Lemma field_set_CJ orig fuel : specR (CJ orig) (g_field_set fuel).
Proof. apply gg_field_set. apply CJ_ok. Qed.

(* ---- Parser::parse_type *)
Theorem rl_type_exact_items dbg rl items r : rl_items_ok items ->
  parse_type_items dbg rl items = POk r -> pr_errors r = [] ->
  exists ts, rg_significant items = Some ts /\ rg_type ts = RgOk [].
Proof.
  intros [Hok Heof] E He. destruct (rl_run_result _ _ _ _ _ _ E) as (u & s' & Eg & Herr).
  rewrite Herr in He. apply (proj1 (rl_rev_nil _)) in He.
  pose proof (type_entry_end _ _ _ _ Eg) as [Hend _].
  pose proof (rl_clean_run_tokens _ _ _ _ _ _ Heof (type_entry_CJ items _) Eg Hend He) as Htok.
  pose proof (rl_stream_of _ Htok Hok Heof) as Hstr.
  exists (rl_sig items). split; [apply rl_stream_significant; exact Hstr|].
  exact (proj1 (rl_type_entry _ _ _ _ _ _ Hstr Eg) He).
Qed.

Lemma rl_stream_of_significant items ts : rl_items_ok items -> rg_significant items = Some ts ->
  rl_stream items /\ rl_sig items = ts.
Proof.
  intros [Hok Heof] Hsig. pose proof (rl_stream_of _ (rl_significant_tokens _ _ Hsig) Hok Heof) as Hstr.
  split; [exact Hstr|]. rewrite (rl_stream_significant _ Hstr) in Hsig. injection Hsig as <-. reflexivity.
Qed.

Theorem rl_type_accepts_items dbg rl items r ts : rl_items_ok items ->
  parse_type_items dbg rl items = POk r -> rg_significant items = Some ts ->
  rg_type ts = RgOk [] -> rl_weight ts < rl -> pr_errors r = [].
Proof.
  intros Hok E Hsig Hq Hw. destruct (rl_run_result _ _ _ _ _ _ E) as (u & s' & Eg & Herr). rewrite Herr.
  apply rl_rev_nil. destruct (rl_stream_of_significant _ _ Hok Hsig) as [Hstr <-].
  exact (proj2 (rl_type_entry _ _ _ _ _ _ Hstr Eg) Hw Hq).
Qed.

(* ---- Parser::parse_selection_set *)
Theorem rl_field_set_exact_items dbg rl items r : rl_items_ok items -> 0 < rl ->
  parse_selection_set_items dbg rl items = POk r -> pr_errors r = [] ->
  exists ts, rg_significant items = Some ts /\ rgl_field_set rgl_parser ts = RgOk [].
Proof.
  intros [Hok Heof] Hrl E He. destruct (rl_run_result _ _ _ _ _ _ E) as (u & s' & Eg & Herr).
  rewrite Herr in He. apply (proj1 (rl_rev_nil _)) in He.
  pose proof (field_set_entry_reaches_eof _ _ _ _ _ _ Hrl Eg) as [Hend _].
  pose proof (rl_clean_run_tokens _ _ _ _ _ _ Heof (field_set_CJ items _) Eg Hend He) as Htok.
  pose proof (rl_stream_of _ Htok Hok Heof) as Hstr.
  exists (rl_sig items). split; [apply rl_stream_significant; exact Hstr|].
  exact (proj1 (rl_field_set_entry _ _ _ _ _ _ Hstr Eg) He).
Qed.

Theorem rl_field_set_accepts_items dbg rl items r ts : rl_items_ok items ->
  parse_selection_set_items dbg rl items = POk r -> rg_significant items = Some ts ->
  rgl_field_set rgl_parser ts = RgOk [] -> rl_weight ts + 1 < rl -> pr_errors r = [].
Proof.
  intros Hok E Hsig Hq Hw. destruct (rl_run_result _ _ _ _ _ _ E) as (u & s' & Eg & Herr). rewrite Herr.
  apply rl_rev_nil. destruct (rl_stream_of_significant _ _ Hok Hsig) as [Hstr <-].
  exact (proj2 (rl_field_set_entry _ _ _ _ _ _ Hstr Eg) Hw Hq).
Qed.

(* outside the class of the known leniencies the relaxed grammar is the reference *)
Lemma rgl_field_set_not_known ts :
  rgl_known_field_set ts = false -> rgl_field_set rgl_parser ts = RgOk [] -> rg_field_set ts = RgOk [].
Proof.
  unfold rgl_known_field_set, rgl_whole. intros Hk Hq. rewrite Hq in Hk. cbn [andb] in Hk.
  destruct (rg_field_set ts) as [[|x l]| |]; try discriminate. reflexivity.
Qed.
(* and the reference is always included in the relaxed grammar *)
Lemma rgl_field_set_of_reference ts : rg_field_set ts = RgOk [] -> rgl_field_set rgl_parser ts = RgOk [].
Proof. apply rgl_sub_field_set. Qed.

(* ------------------------------------------------------------------ on source strings *)
Theorem rl_type_exact_source : forall dbg rl s r,
  parse_type_items dbg rl (lex_all s) = POk r -> pr_errors r = [] ->
  exists ts, rg_significant (lex_all s) = Some ts /\ rg_type ts = RgOk [].
Proof. intros dbg rl s r. apply rl_type_exact_items. apply rl_lex_all_items_ok. Qed.

Theorem rl_type_accepts_source : forall dbg rl s r ts,
  parse_type_items dbg rl (lex_all s) = POk r -> rg_significant (lex_all s) = Some ts ->
  rg_type ts = RgOk [] -> rl_weight ts < rl -> pr_errors r = [].
Proof. intros dbg rl s r ts. apply rl_type_accepts_items. apply rl_lex_all_items_ok. Qed.

Theorem rl_field_set_exact_source : forall dbg rl s r, 0 < rl ->
  parse_selection_set_items dbg rl (lex_all s) = POk r -> pr_errors r = [] ->
  exists ts, rg_significant (lex_all s) = Some ts /\ rgl_field_set rgl_parser ts = RgOk [] /\
             (rgl_known_field_set ts = false -> rg_field_set ts = RgOk []).
Proof.
  intros dbg rl s r Hrl E He. destruct (rl_field_set_exact_items dbg rl _ r (rl_lex_all_items_ok s) Hrl E He) as (ts & H1 & H2).
  exists ts. split; [exact H1|]. split; [exact H2|]. intros Hk. apply rgl_field_set_not_known; assumption.
Qed.

(* the class of the field-set entry is empty as well: exactly a field set of the reference grammar *)
Theorem rl_field_set_exact_reference : forall dbg rl s r, 0 < rl ->
  parse_selection_set_items dbg rl (lex_all s) = POk r -> pr_errors r = [] ->
  exists ts, rg_significant (lex_all s) = Some ts /\ rg_field_set ts = RgOk [].
Proof.
  intros dbg rl s r Hrl E He. destruct (rl_field_set_exact_source dbg rl s r Hrl E He) as (ts & H1 & _ & H3).
  exists ts. split; [exact H1|]. apply H3. apply rgl_known_field_set_empty.
Qed.

Theorem rl_field_set_accepts_source : forall dbg rl s r ts,
  parse_selection_set_items dbg rl (lex_all s) = POk r -> rg_significant (lex_all s) = Some ts ->
  rg_field_set ts = RgOk [] -> rl_weight ts + 1 < rl -> pr_errors r = [].
Proof.
  intros dbg rl s r ts E Hsig Hq Hw. eapply rl_field_set_accepts_items; eauto using rl_lex_all_items_ok.
  apply rgl_field_set_of_reference. exact Hq.
Qed.

(* the former witness of the known class of the field-set entry: `f(a)` (an argument without a value).  Since the
   repair of argument() the model reports it; the relaxed grammar of before the repairs (rgl_parser_old) accepted it *)
Definition rl_errs_of (o : poutcome presult) : option N :=
  match o with POk r => Some (N.of_nat (length (pr_errors r))) | _ => None end.
Definition rl_field_set_witness : str := [102; 40; 97; 41].
Definition rl_field_set_witness_tokens : list rg_token :=
  [(TkName, [102]); (TkLParen, [40]); (TkName, [97]); (TkRParen, [41])].
Definition rl_reports (o : poutcome presult) : bool :=
  match rl_errs_of o with Some n => negb (N.eqb n 0) | None => false end.
Theorem rl_field_set_repaired :
  rl_reports (parse_selection_set_items false 500 (lex_all rl_field_set_witness)) = true /\
  rg_significant (lex_all rl_field_set_witness) = Some rl_field_set_witness_tokens /\
  rg_field_set rl_field_set_witness_tokens = RgNo /\ rgl_known_field_set rl_field_set_witness_tokens = false /\
  rgl_whole (rgl_field_set rgl_parser_old) rl_field_set_witness_tokens = true.
Proof. repeat split; vm_compute; reflexivity. Qed.

(* ================================================================== C05: Parser::parse *)
Lemma document_CJ orig fuel : specR (CJ orig) (g_document fuel).
Proof. apply gg_document; [apply CJ_ok|apply (a_assert _ (CJ_atoms orig))]. Qed.

Lemma rgl_document_some ts ds :
  rgl_document rgl_parser ts = Some ds <-> rg_document_r (rgl_definition rgl_parser) ts = RgOk ds.
Proof.
  unfold rgl_document, rg_to_option. destruct (rg_document_r _ ts); split; intros H; try discriminate; congruence.
Qed.

(* no error reported  ->  no lexical error, and the relaxed grammar accepts the significant tokens *)
Theorem rl_document_exact_items dbg rl items r : rl_items_ok items ->
  parse_document_items dbg rl items = POk r -> pr_errors r = [] ->
  exists ts ds, rg_significant items = Some ts /\ rgl_document rgl_parser ts = Some ds.
Proof.
  intros [Hok Heof] E He. destruct (rl_run_result _ _ _ _ _ _ E) as (u & s' & Eg & Herr).
  rewrite Herr in He. apply (proj1 (rl_rev_nil _)) in He.
  pose proof (document_end _ _ _ _ Eg) as [Hend _].
  pose proof (rl_clean_run_tokens _ _ _ _ _ _ Heof (document_CJ items _) Eg Hend He) as Htok.
  pose proof (rl_stream_of _ Htok Hok Heof) as Hstr.
  destruct (proj1 (rl_document_entry _ _ _ _ _ _ Hstr Eg) He) as (ds & Hds).
  exists (rl_sig items), ds. split; [apply rl_stream_significant; exact Hstr|]. apply rgl_document_some. exact Hds.
Qed.

(* the relaxed grammar accepts  ->  no error reported (recursion limit above the number of `{`, `[`, `:`) *)
Theorem rl_document_accepts_items dbg rl items r ts ds : rl_items_ok items ->
  parse_document_items dbg rl items = POk r -> rg_significant items = Some ts ->
  rgl_document rgl_parser ts = Some ds -> rl_weight ts < rl -> pr_errors r = [].
Proof.
  intros Hok E Hsig Hq Hw. destruct (rl_run_result _ _ _ _ _ _ E) as (u & s' & Eg & Herr). rewrite Herr.
  apply rl_rev_nil. destruct (rl_stream_of_significant _ _ Hok Hsig) as [Hstr <-].
  apply rgl_document_some in Hq. exact (proj2 (rl_document_entry _ _ _ _ _ _ Hstr Eg) Hw ds Hq).
Qed.

(* ---- on source strings *)
Theorem rl_document_exact_source : forall dbg rl s r,
  parse_document_items dbg rl (lex_all s) = POk r -> pr_errors r = [] ->
  exists ts ds, rg_significant (lex_all s) = Some ts /\ rgl_document rgl_parser ts = Some ds.
Proof. intros dbg rl s r. apply rl_document_exact_items. apply rl_lex_all_items_ok. Qed.

Theorem rl_document_accepts_source : forall dbg rl s r ts ds,
  parse_document_items dbg rl (lex_all s) = POk r -> rg_significant (lex_all s) = Some ts ->
  rgl_document rgl_parser ts = Some ds -> rl_weight ts < rl -> pr_errors r = [].
Proof. intros dbg rl s r ts ds. apply rl_document_accepts_items. apply rl_lex_all_items_ok. Qed.

(* a lexical error is always reported *)
Theorem rl_document_lexical_error : forall dbg rl s r,
  parse_document_items dbg rl (lex_all s) = POk r -> rg_significant (lex_all s) = None -> pr_errors r <> [].
Proof.
  intros dbg rl s r E Hsig He. destruct (rl_document_exact_source dbg rl s r E He) as (ts & ds & H & _). congruence.
Qed.

(* outside the class of the known leniencies: the parser's verdict is the reference's *)
Theorem rl_document_accept_iff : forall dbg rl s r ts,
  parse_document_items dbg rl (lex_all s) = POk r ->
  rg_significant (lex_all s) = Some ts -> rgl_known_document ts = false -> rl_weight ts < rl ->
  (pr_errors r = [] <-> exists ds, rg_document ts = Some ds).
Proof.
  intros dbg rl s r ts E Hsig Hk Hw. split.
  - intros He. destruct (rl_document_exact_source dbg rl s r E He) as (ts' & ds & Hs' & Hq).
    rewrite Hsig in Hs'. injection Hs' as <-. unfold rgl_known_document in Hk. rewrite Hq in Hk.
    destruct (rg_document ts) as [ds0|]; [eauto|discriminate].
  - intros (ds & Hq). eapply rl_document_accepts_source; eauto. apply rgl_sub_document. exact Hq.
Qed.

(* since four of the five leniencies were repaired, what the parser accepts is a Document of the grammar with ONE
   relaxation (a root operation type definition without its named type): Parse/RefLenientEof.v shows that the other
   relaxation left in rgl_parser, a list value ending at the end of the tokens, never shows in a whole document *)
Theorem rl_document_exact_rootop_only : forall dbg rl s r,
  parse_document_items dbg rl (lex_all s) = POk r -> pr_errors r = [] ->
  exists ts ds, rg_significant (lex_all s) = Some ts /\ rgl_document rgl_rootop_only ts = Some ds.
Proof.
  intros dbg rl s r E He. destruct (rl_document_exact_source dbg rl s r E He) as (ts & ds & Hs & Hq).
  exists ts, ds. split; [exact Hs|]. apply rgl_parser_document_is_rootop_only. exact Hq.
Qed.

(* the reference never accepts what the parser reports: whatever the class *)
Theorem rl_document_reference_accepted : forall dbg rl s r ts ds,
  parse_document_items dbg rl (lex_all s) = POk r ->
  rg_significant (lex_all s) = Some ts -> rg_document ts = Some ds -> rl_weight ts < rl -> pr_errors r = [].
Proof.
  intros dbg rl s r ts ds E Hsig Hq Hw. eapply rl_document_accepts_source; eauto. apply rgl_sub_document. exact Hq.
Qed.

(* the definition list: the relaxed grammar (= the parser's acceptance) and the reference return the same one *)
Theorem rl_document_definitions_agree : forall ts ds ds',
  rg_document ts = Some ds -> rgl_document rgl_parser ts = Some ds' -> ds' = ds.
Proof. intros ts ds ds' H1 H2. rewrite (rgl_sub_document rgl_parser _ _ H1) in H2. congruence. Qed.

(* ---- the remaining known leniency with its witness: parsed without error by the model, rejected by the
        reference, inside the class rgl_known_document *)
Definition rl_known_witness (src : str) : Prop :=
  rl_errs_of (parse_document_items false 500 (lex_all src)) = Some 0 /\
  exists ts, rg_significant (lex_all src) = Some ts /\ rg_document ts = None /\ rgl_known_document ts = true.
(* ---- the four repaired ones: each witness is now reported by the model, the reference rejects it, it is outside
        the class rgl_known_document, and the relaxed grammar of before the repairs (rgl_parser_old, every
        relaxation on) accepted it *)
Definition rl_repaired_witness (src : str) : Prop :=
  rl_reports (parse_document_items false 500 (lex_all src)) = true /\
  exists ts, rg_significant (lex_all src) = Some ts /\ rg_document ts = None /\ rgl_known_document ts = false /\
             rgl_document rgl_parser_old ts <> None.

Definition rl_w_argument_without_value : str := [123;32;102;40;97;41;32;125].                        (* { f(a) } *)
Definition rl_w_object_field_without_value : str := [123;32;102;40;120;58;32;123;97;125;41;32;125].  (* { f(x: {a}) } *)
Definition rl_w_root_operation_without_type : str :=
  [115;99;104;101;109;97;32;123;32;113;117;101;114;121;58;32;125].                                  (* schema { query: } *)
Definition rl_w_description_before_fragment : str :=
  [34;100;34;32;102;114;97;103;109;101;110;116;32;111;110;32;84;32;123;32;97;32;125].                (* "d" fragment on T { a } *)
Definition rl_w_schema_extension_empty_block : str :=
  [101;120;116;101;110;100;32;115;99;104;101;109;97;32;64;100;32;123;32;125].                        (* extend schema @d { } *)

Ltac rl_repaired := split; [vm_compute; reflexivity|]; eexists; split; [vm_compute; reflexivity|];
  split; [vm_compute; reflexivity|]; split; [vm_compute; reflexivity|]; vm_compute; discriminate.

Ltac rl_witness := split; [vm_compute; reflexivity|]; eexists; split; [vm_compute; reflexivity|]; split; vm_compute; reflexivity.

Theorem rl_document_refuted : rl_known_witness rl_w_root_operation_without_type.
Proof. unfold rl_known_witness. rl_witness. Qed.

Theorem rl_document_repaired :
  rl_repaired_witness rl_w_argument_without_value /\ rl_repaired_witness rl_w_object_field_without_value /\
  rl_repaired_witness rl_w_description_before_fragment /\ rl_repaired_witness rl_w_schema_extension_empty_block.
Proof.
  unfold rl_repaired_witness.
  split; [rl_repaired|]. split; [rl_repaired|]. split; [rl_repaired|]. rl_repaired.
Qed.

(* ================================================================== C05: the definitions in the tree (kinds) *)
Lemma rl_run_result_tree fuel (g : nat -> PM unit) dbg rl items r :
  p_run_with fuel g dbg rl items = POk r ->
  exists u s', g fuel (p_init_state dbg rl items) = POk (u, s') /\ pr_errors r = rev (ps_errors s') /\
               pb_finish (ps_builder s') = POk (pr_tree r).
Proof.
  unfold p_run_with, p_finish. destruct (g fuel (p_init_state dbg rl items)) as [[u s']| |]; try discriminate.
  destruct (pb_finish _) as [t| |] eqn:Ef; try discriminate. intros [= <-]. eauto.
Qed.

(* the definition nodes under the DOCUMENT root are, in order, of the kinds of the relaxed grammar's definitions *)
Theorem rl_document_kinds_items dbg rl items r ts ds : rl_items_ok items ->
  parse_document_items dbg rl items = POk r -> pr_errors r = [] ->
  rg_significant items = Some ts -> rgl_document rgl_parser ts = Some ds ->
  p_tree_def_kinds (pr_tree r) = map fst ds.
Proof.
  intros Hok E He Hsig Hq. destruct (rl_run_result_tree _ _ _ _ _ _ E) as (u & s' & Eg & Herr & Hfin).
  rewrite Herr in He. apply (proj1 (rl_rev_nil _)) in He.
  destruct (rl_stream_of_significant _ _ Hok Hsig) as [Hstr <-]. apply rgl_document_some in Hq.
  destruct (rl_document_tree_kinds _ _ _ _ _ _ _ Hstr Eg He Hq) as (cs & Hc & Hk).
  unfold pb_finish in Hfin. rewrite Hc in Hfin. injection Hfin as <-. exact Hk.
Qed.

Theorem rl_document_kinds_source : forall dbg rl s r ts ds,
  parse_document_items dbg rl (lex_all s) = POk r -> pr_errors r = [] ->
  rg_significant (lex_all s) = Some ts -> rgl_document rgl_parser ts = Some ds ->
  p_tree_def_kinds (pr_tree r) = map fst ds.
Proof. intros dbg rl s r ts ds. apply rl_document_kinds_items. apply rl_lex_all_items_ok. Qed.

(* when both accept: the kinds read off the parser's tree are the reference's *)
Theorem rl_document_kinds_agree : forall dbg rl s r ts ds,
  parse_document_items dbg rl (lex_all s) = POk r -> pr_errors r = [] ->
  rg_significant (lex_all s) = Some ts -> rg_document ts = Some ds ->
  p_tree_def_kinds (pr_tree r) = map fst ds.
Proof.
  intros dbg rl s r ts ds E He Hsig Hq. eapply rl_document_kinds_source; eauto. apply rgl_sub_document. exact Hq.
Qed.

(* non-vacuity data: the kinds in the tree of the model's run on a sample, computed *)
Definition rl_tree_kinds_of (o : poutcome presult) : option (list rg_defkind) :=
  match o with POk r => Some (p_tree_def_kinds (pr_tree r)) | _ => None end.
