(* C05 link — the definition nodes the parser puts under DOCUMENT, against the reference's definition kinds.
   Whenever the relaxed grammar recognises a Definition at the current position, select_definition runs the
   production of that definition kind, and that production adds exactly one node of the corresponding syntax kind
   to the current node (whatever errors it may report inside).  Proofs only. *)
From Coq Require Import PeanoNat.
From ApolloVerif Require Import Base.Chars Lex.Item Lex.Fun Parse.Outcome Parse.Builder Parse.Limits Parse.Monad
  Parse.Keywords Parse.Grammar Parse.Generic Parse.Atoms Parse.Entry Parse.LosslessDefs Parse.Lossless
  Parse.TrackerInst Parse.SilentInst Parse.EntryEnd Parse.Terminates Parse.RefGrammar Parse.RefLib Parse.RefLenient
  Parse.RefLenientProofs Parse.RefLinkBase Parse.RefLinkLoops Parse.RefLinkType Parse.RefLinkValue Parse.RefLinkExec
  Parse.RefLinkSel Parse.RefLinkEntry Parse.RefLinkDefs Parse.RefLinkTS Parse.RefLinkDoc Parse.RefLinkTree.

(* cst::Definition::cast : which syntax kinds are definitions, and of which kind *)
Definition rl_node_kind_def (k : skind) : option rg_defkind :=
  match k with
  | SK_OPERATION_DEFINITION => Some RgkOperation
  | SK_FRAGMENT_DEFINITION => Some RgkFragment
  | SK_DIRECTIVE_DEFINITION => Some RgkDirectiveDef
  | SK_SCHEMA_DEFINITION => Some RgkSchemaDef
  | SK_SCALAR_TYPE_DEFINITION => Some RgkScalarDef
  | SK_OBJECT_TYPE_DEFINITION => Some RgkObjectDef
  | SK_INTERFACE_TYPE_DEFINITION => Some RgkInterfaceDef
  | SK_UNION_TYPE_DEFINITION => Some RgkUnionDef
  | SK_ENUM_TYPE_DEFINITION => Some RgkEnumDef
  | SK_INPUT_OBJECT_TYPE_DEFINITION => Some RgkInputDef
  | SK_SCHEMA_EXTENSION => Some RgkSchemaExt
  | SK_SCALAR_TYPE_EXTENSION => Some RgkScalarExt
  | SK_OBJECT_TYPE_EXTENSION => Some RgkObjectExt
  | SK_INTERFACE_TYPE_EXTENSION => Some RgkInterfaceExt
  | SK_UNION_TYPE_EXTENSION => Some RgkUnionExt
  | SK_ENUM_TYPE_EXTENSION => Some RgkEnumExt
  | SK_INPUT_OBJECT_TYPE_EXTENSION => Some RgkInputExt
  | _ => None
  end.
Definition rl_elem_kinds (c : ptree) : list rg_defkind :=
  match c with
  | PNode k _ => match rl_node_kind_def k with Some d => [d] | None => [] end
  | PLeaf _ _ => []
  end.
(* cst::Document::definitions(), kinds only: the definition nodes directly under the DOCUMENT root, in order *)
Definition p_tree_def_kinds (t : ptree) : list rg_defkind :=
  match t with PNode SK_DOCUMENT cs => flat_map rl_elem_kinds cs | _ => [] end.

Lemma rl_leaves_no_kinds lv : Forall rl_is_leaf lv -> flat_map rl_elem_kinds lv = [].
Proof. induction 1 as [|x l Hx _ IH]; [reflexivity|]. destruct x; [contradiction|]. exact IH. Qed.

(* what one definition adds to the current node: a node of kind k on top of trivia *)
Definition rl_adds_node (k : skind) (s s' : pstate) : Prop :=
  pb_parents (ps_builder s') = pb_parents (ps_builder s) /\
  exists cs lv, pb_children (ps_builder s') = PNode k cs :: lv ++ pb_children (ps_builder s) /\ Forall rl_is_leaf lv.

(* every definition production is `p_node K body` *)
Ltac rl_node_tac E := eapply rl_node_run; [|exact E]; let H := fresh "H" in pose proof CB_ok as H; gfull.

Lemma rl_adds_directive_definition f s u s' : g_directive_definition f s = POk (u, s') -> rl_adds_node SK_DIRECTIVE_DEFINITION s s'.
Proof. intros E. unfold g_directive_definition in E. rl_node_tac E. Qed.
Lemma rl_adds_enum_type_definition f s u s' : g_enum_type_definition f s = POk (u, s') -> rl_adds_node SK_ENUM_TYPE_DEFINITION s s'.
Proof. intros E. unfold g_enum_type_definition in E. rl_node_tac E. Qed.
Lemma rl_adds_fragment_definition f s u s' t : ps_cur s = Some t -> tok_kind t <> TkStringValue ->
  g_fragment_definition f s = POk (u, s') -> rl_adds_node SK_FRAGMENT_DEFINITION s s'.
Proof.
  intros Hc Hk E. unfold g_fragment_definition in E. unfold p_bind at 1 in E.
  rewrite (peek_is_some TkStringValue t s Hc) in E.
  destruct (tkind_eqb (tok_kind t) TkStringValue) eqn:Hb; [apply tkind_eqb_eq in Hb; contradiction|].
  rl_node_tac E.
Qed.
Lemma rl_adds_input_object_type_definition f s u s' :
  g_input_object_type_definition f s = POk (u, s') -> rl_adds_node SK_INPUT_OBJECT_TYPE_DEFINITION s s'.
Proof. intros E. unfold g_input_object_type_definition in E. rl_node_tac E. Qed.
Lemma rl_adds_interface_type_definition f s u s' :
  g_interface_type_definition f s = POk (u, s') -> rl_adds_node SK_INTERFACE_TYPE_DEFINITION s s'.
Proof. intros E. unfold g_interface_type_definition in E. rl_node_tac E. Qed.
Lemma rl_adds_object_type_definition f s u s' :
  g_object_type_definition f s = POk (u, s') -> rl_adds_node SK_OBJECT_TYPE_DEFINITION s s'.
Proof. intros E. unfold g_object_type_definition in E. rl_node_tac E. Qed.
Lemma rl_adds_scalar_type_definition f s u s' :
  g_scalar_type_definition f s = POk (u, s') -> rl_adds_node SK_SCALAR_TYPE_DEFINITION s s'.
Proof. intros E. unfold g_scalar_type_definition in E. rl_node_tac E. Qed.
Lemma rl_adds_schema_definition f s u s' : g_schema_definition f s = POk (u, s') -> rl_adds_node SK_SCHEMA_DEFINITION s s'.
Proof. intros E. unfold g_schema_definition in E. rl_node_tac E. Qed.
Lemma rl_adds_union_type_definition f s u s' :
  g_union_type_definition f s = POk (u, s') -> rl_adds_node SK_UNION_TYPE_DEFINITION s s'.
Proof. intros E. unfold g_union_type_definition in E. rl_node_tac E. Qed.

Lemma rl_adds_schema_extension f s u s' : g_schema_extension f s = POk (u, s') -> rl_adds_node SK_SCHEMA_EXTENSION s s'.
Proof. intros E. unfold g_schema_extension in E. rl_node_tac E. Qed.
Lemma rl_adds_scalar_type_extension f s u s' :
  g_scalar_type_extension f s = POk (u, s') -> rl_adds_node SK_SCALAR_TYPE_EXTENSION s s'.
Proof. intros E. unfold g_scalar_type_extension in E. rl_node_tac E. Qed.
Lemma rl_adds_object_type_extension f s u s' :
  g_object_type_extension f s = POk (u, s') -> rl_adds_node SK_OBJECT_TYPE_EXTENSION s s'.
Proof. intros E. unfold g_object_type_extension in E. rl_node_tac E. Qed.
Lemma rl_adds_interface_type_extension f s u s' :
  g_interface_type_extension f s = POk (u, s') -> rl_adds_node SK_INTERFACE_TYPE_EXTENSION s s'.
Proof. intros E. unfold g_interface_type_extension in E. rl_node_tac E. Qed.
Lemma rl_adds_union_type_extension f s u s' :
  g_union_type_extension f s = POk (u, s') -> rl_adds_node SK_UNION_TYPE_EXTENSION s s'.
Proof. intros E. unfold g_union_type_extension in E. rl_node_tac E. Qed.
Lemma rl_adds_enum_type_extension f s u s' :
  g_enum_type_extension f s = POk (u, s') -> rl_adds_node SK_ENUM_TYPE_EXTENSION s s'.
Proof. intros E. unfold g_enum_type_extension in E. rl_node_tac E. Qed.
Lemma rl_adds_input_object_type_extension f s u s' :
  g_input_object_type_extension f s = POk (u, s') -> rl_adds_node SK_INPUT_OBJECT_TYPE_EXTENSION s s'.
Proof. intros E. unfold g_input_object_type_extension in E. rl_node_tac E. Qed.

(* ------------------------------------------------------------------ the kind the reference returns *)
Lemma rg_ret_kind (x : rg_def) p ts d r : rg_ret x p ts = RgOk (d, r) -> d = x.
Proof. unfold rg_ret, rg_bind. destruct (p ts); try discriminate. intros [= <- _]. reflexivity. Qed.
Lemma rg_named_kind k p ts d r : rg_named k p ts = RgOk (d, r) -> fst d = k.
Proof.
  unfold rg_named. destruct ts as [|[[] w] ts']; try discriminate. intros H. apply rg_ret_kind in H. subst d. reflexivity.
Qed.

(* the type-system definition keywords *)
Lemma rgl_ts_def_kw_kind w r d r' : rgl_ts_def_kw LP ((TkName, w) :: r) = RgOk (d, r') ->
  (p_str_eqb w pkw_schema = true /\ fst d = RgkSchemaDef) \/ (p_str_eqb w pkw_scalar = true /\ fst d = RgkScalarDef) \/
  (p_str_eqb w pkw_type = true /\ fst d = RgkObjectDef) \/ (p_str_eqb w pkw_interface = true /\ fst d = RgkInterfaceDef) \/
  (p_str_eqb w pkw_union = true /\ fst d = RgkUnionDef) \/ (p_str_eqb w pkw_enum = true /\ fst d = RgkEnumDef) \/
  (p_str_eqb w pkw_input = true /\ fst d = RgkInputDef) \/ (p_str_eqb w pkw_directive = true /\ fst d = RgkDirectiveDef).
Proof.
  unfold rgl_ts_def_kw.
  rewrite (rg_streq_p rg_s_schema), (rg_streq_p rg_s_scalar), (rg_streq_p rg_s_type), (rg_streq_p rg_s_interface),
          (rg_streq_p rg_s_union), (rg_streq_p rg_s_enum), (rg_streq_p rg_s_input), (rg_streq_p rg_s_directive).
  change rg_s_schema with pkw_schema. change rg_s_scalar with pkw_scalar. change rg_s_type with pkw_type.
  change rg_s_interface with pkw_interface. change rg_s_union with pkw_union. change rg_s_enum with pkw_enum.
  change rg_s_input with pkw_input. change rg_s_directive with pkw_directive.
  destruct (p_str_eqb w pkw_schema); [intros H; apply rg_ret_kind in H; subst d; auto|].
  destruct (p_str_eqb w pkw_scalar); [intros H; apply rg_named_kind in H; auto 6|].
  destruct (p_str_eqb w pkw_type); [intros H; apply rg_named_kind in H; auto 8|].
  destruct (p_str_eqb w pkw_interface); [intros H; apply rg_named_kind in H; auto 8|].
  destruct (p_str_eqb w pkw_union); [intros H; apply rg_named_kind in H; auto 10|].
  destruct (p_str_eqb w pkw_enum); [intros H; apply rg_named_kind in H; auto 12|].
  destruct (p_str_eqb w pkw_input); [intros H; apply rg_named_kind in H; auto 14|].
  destruct (p_str_eqb w pkw_directive); [|discriminate].
  destruct r as [|[k2 w2] r2]; [discriminate|]. destruct k2; try discriminate. intros H. apply rg_named_kind in H. auto 16.
Qed.

Lemma rgl_ts_ext_kw_kind w r d r' : rgl_ts_ext_kw LP ((TkName, w) :: r) = RgOk (d, r') ->
  (p_str_eqb w pkw_schema = true /\ fst d = RgkSchemaExt) \/ (p_str_eqb w pkw_scalar = true /\ fst d = RgkScalarExt) \/
  (p_str_eqb w pkw_type = true /\ fst d = RgkObjectExt) \/ (p_str_eqb w pkw_interface = true /\ fst d = RgkInterfaceExt) \/
  (p_str_eqb w pkw_union = true /\ fst d = RgkUnionExt) \/ (p_str_eqb w pkw_enum = true /\ fst d = RgkEnumExt) \/
  (p_str_eqb w pkw_input = true /\ fst d = RgkInputExt).
Proof.
  unfold rgl_ts_ext_kw.
  rewrite (rg_streq_p rg_s_schema), (rg_streq_p rg_s_scalar), (rg_streq_p rg_s_type), (rg_streq_p rg_s_interface),
          (rg_streq_p rg_s_union), (rg_streq_p rg_s_enum), (rg_streq_p rg_s_input).
  change rg_s_schema with pkw_schema. change rg_s_scalar with pkw_scalar. change rg_s_type with pkw_type.
  change rg_s_interface with pkw_interface. change rg_s_union with pkw_union. change rg_s_enum with pkw_enum.
  change rg_s_input with pkw_input.
  destruct (p_str_eqb w pkw_schema); [intros H; apply rg_ret_kind in H; subst d; auto|].
  destruct (p_str_eqb w pkw_scalar); [intros H; apply rg_named_kind in H; auto 6|].
  destruct (p_str_eqb w pkw_type); [intros H; apply rg_named_kind in H; auto 8|].
  destruct (p_str_eqb w pkw_interface); [intros H; apply rg_named_kind in H; auto 8|].
  destruct (p_str_eqb w pkw_union); [intros H; apply rg_named_kind in H; auto 10|].
  destruct (p_str_eqb w pkw_enum); [intros H; apply rg_named_kind in H; auto 12|].
  destruct (p_str_eqb w pkw_input); [intros H; apply rg_named_kind in H; auto 14|]. discriminate.
Qed.

(* evaluate the comparisons between two concrete keyword strings in a hypothesis *)
Ltac rl_eval_kw E :=
  repeat match type of E with
         | context [p_str_eqb ?a ?b] =>
             let v := eval vm_compute in (p_str_eqb a b) in
             change (p_str_eqb a b) with v in E
         end;
  cbv iota in E; cbn [orb andb] in E.

(* ------------------------------------------------------------------ extensions.rs *)
Lemma rl_extensions_kind f s u s' t r :
  rl_ok s -> ps_cur s = Some t -> rl_sigs s = (TkName, pkw_extend) :: r -> g_extensions f s = POk (u, s') ->
  forall d r', rgl_ts_ext_kw LP r = RgOk (d, r') ->
  exists K, rl_adds_node K s s' /\ rl_node_kind_def K = Some (fst d).
Proof.
  intros [Hinv Ha] Hc Hs E d r' Hq.
  assert (Hk : tok_kind t = TkName /\ rl_sig (ps_items s) = r).
  { pose proof (rl_sigs_head _ _ Hinv Hc) as Hh. rewrite Hs in Hh. destruct (tkind_eqb (tok_kind t) TkEof); [discriminate|].
    injection Hh as Hh1 _ Hh2. auto. }
  destruct Hk as [Hk Hr]. assert (Hne : tok_kind t <> TkEof) by congruence.
  destruct (rl_peek_token_n2 _ _ Hinv Hc Hne) as (t2 & Hp2 & Hv2). rewrite Hr in Hv2.
  unfold g_extensions in E. unfold p_bind at 1 in E. unfold p_peek_data_n in E. unfold p_bind at 1 in E.
  rewrite Hp2 in E. cbn [p_ret option_map] in E.
  destruct r as [|[k2 w] r2]; [discriminate Hq|]. destruct k2; try discriminate Hq.
  destruct Hv2 as (_ & Hd & _). rewrite Hd in E.
  destruct (rgl_ts_ext_kw_kind _ _ _ _ Hq) as [[Hw Hf]|[[Hw Hf]|[[Hw Hf]|[[Hw Hf]|[[Hw Hf]|[[Hw Hf]|[Hw Hf]]]]]]];
    apply p_str_eqb_eq in Hw; rewrite Hw in E; rl_eval_kw E; rewrite Hf.
  - exists SK_SCHEMA_EXTENSION. split; [eapply rl_adds_schema_extension; eauto|reflexivity].
  - exists SK_SCALAR_TYPE_EXTENSION. split; [eapply rl_adds_scalar_type_extension; eauto|reflexivity].
  - exists SK_OBJECT_TYPE_EXTENSION. split; [eapply rl_adds_object_type_extension; eauto|reflexivity].
  - exists SK_INTERFACE_TYPE_EXTENSION. split; [eapply rl_adds_interface_type_extension; eauto|reflexivity].
  - exists SK_UNION_TYPE_EXTENSION. split; [eapply rl_adds_union_type_extension; eauto|reflexivity].
  - exists SK_ENUM_TYPE_EXTENSION. split; [eapply rl_adds_enum_type_extension; eauto|reflexivity].
  - exists SK_INPUT_OBJECT_TYPE_EXTENSION. split; [eapply rl_adds_input_object_type_extension; eauto|reflexivity].
Qed.

(* ------------------------------------------------------------------ operation_definition *)
Lemma rl_operation_definition_kind f s u s' t :
  rl_ok s -> ps_cur s = Some t -> (tok_kind t = TkName \/ tok_kind t = TkLCurly) ->
  g_operation_definition f s = POk (u, s') -> rl_adds_node SK_OPERATION_DEFINITION s s'.
Proof.
  intros [Hinv Ha] Hc Hk E. unfold g_operation_definition in E. unfold p_bind at 1 in E.
  rewrite (peek_some t s Hc) in E. destruct Hk as [Hk|Hk]; rewrite Hk in E; rl_node_tac E.
Qed.

(* ------------------------------------------------------------------ select_definition *)
(* the eight keywords of type-system definitions, given the kind the reference returned *)
Lemma rl_select_ts_def_kind f def s u s' (d : rg_def) :
  g_select_definition def f s = POk (u, s') ->
  (p_str_eqb def pkw_schema = true /\ fst d = RgkSchemaDef) \/ (p_str_eqb def pkw_scalar = true /\ fst d = RgkScalarDef) \/
  (p_str_eqb def pkw_type = true /\ fst d = RgkObjectDef) \/ (p_str_eqb def pkw_interface = true /\ fst d = RgkInterfaceDef) \/
  (p_str_eqb def pkw_union = true /\ fst d = RgkUnionDef) \/ (p_str_eqb def pkw_enum = true /\ fst d = RgkEnumDef) \/
  (p_str_eqb def pkw_input = true /\ fst d = RgkInputDef) \/ (p_str_eqb def pkw_directive = true /\ fst d = RgkDirectiveDef) ->
  exists K, rl_adds_node K s s' /\ rl_node_kind_def K = Some (fst d).
Proof.
  intros E H. unfold g_select_definition in E.
  destruct H as [[Hw Hf]|[[Hw Hf]|[[Hw Hf]|[[Hw Hf]|[[Hw Hf]|[[Hw Hf]|[[Hw Hf]|[Hw Hf]]]]]]]];
    apply p_str_eqb_eq in Hw; subst def; rl_eval_kw E; rewrite Hf.
  - exists SK_SCHEMA_DEFINITION. split; [eapply rl_adds_schema_definition; eauto|reflexivity].
  - exists SK_SCALAR_TYPE_DEFINITION. split; [eapply rl_adds_scalar_type_definition; eauto|reflexivity].
  - exists SK_OBJECT_TYPE_DEFINITION. split; [eapply rl_adds_object_type_definition; eauto|reflexivity].
  - exists SK_INTERFACE_TYPE_DEFINITION. split; [eapply rl_adds_interface_type_definition; eauto|reflexivity].
  - exists SK_UNION_TYPE_DEFINITION. split; [eapply rl_adds_union_type_definition; eauto|reflexivity].
  - exists SK_ENUM_TYPE_DEFINITION. split; [eapply rl_adds_enum_type_definition; eauto|reflexivity].
  - exists SK_INPUT_OBJECT_TYPE_DEFINITION. split; [eapply rl_adds_input_object_type_definition; eauto|reflexivity].
  - exists SK_DIRECTIVE_DEFINITION. split; [eapply rl_adds_directive_definition; eauto|reflexivity].
Qed.

Lemma rl_select_fragment_kind f s u s' t : ps_cur s = Some t -> tok_kind t <> TkStringValue ->
  g_select_definition pkw_fragment f s = POk (u, s') -> rl_adds_node SK_FRAGMENT_DEFINITION s s'.
Proof. intros Hc Hk E. unfold g_select_definition in E. rl_eval_kw E. eapply rl_adds_fragment_definition; eauto. Qed.

Theorem rl_select_kind f def s u s' :
  rl_ok s -> g_select_definition def f s = POk (u, s') -> rl_dispatch def (rl_sigs s) ->
  forall d r, rgl_definition LP (rl_sigs s) = RgOk (d, r) ->
  exists K, rl_adds_node K s s' /\ rl_node_kind_def K = Some (fst d).
Proof.
  intros Hok E Hd d r Hq. pose proof Hok as [Hinv Ha]. destruct (rl_inv_cur _ Hinv) as (t & Hc & Hi & _).
  pose proof (rl_sigs_head _ _ Hinv Hc) as Hhead.
  destruct (rl_sigs s) as [|[k w] r0] eqn:Es; [contradiction|]. unfold rgl_definition in Hq.
  assert (Hkt : tok_kind t = k).
  { destruct (tkind_eqb (tok_kind t) TkEof); [discriminate Hhead|]. injection Hhead as Hh _ _. congruence. }
  destruct k; try contradiction; cbn [rl_dispatch] in Hd.
  - (* `{` : an anonymous operation *)
    subst def. unfold rgl_operation in Hq. apply rg_ret_kind in Hq. subst d. cbn [fst].
    exists SK_OPERATION_DEFINITION. split; [|reflexivity].
    unfold g_select_definition in E. rl_eval_kw E. eapply rl_operation_definition_kind; eauto.
  - (* a Name *)
    subst w. destruct (rg_is_optype (TkName, def) || rg_streq rg_s_fragment def) eqn:Hex.
    + unfold rgl_exec_definition in Hq. destruct (rg_is_kw rg_s_fragment (TkName, def)) eqn:Hfr.
      * (* fragment *)
        unfold rg_is_kw in Hfr. cbn [fst snd tkind_eqb andb] in Hfr. apply rg_streq_eq in Hfr. subst def.
        unfold rgl_fragment in Hq. destruct r0 as [|[k2 w2] r2]; [discriminate|]. destruct k2; try discriminate.
        destruct (_ && _); [|discriminate]. apply rg_ret_kind in Hq. subst d. cbn [fst].
        exists SK_FRAGMENT_DEFINITION. split; [|reflexivity].
        eapply (rl_select_fragment_kind f s u s' t Hc); [rewrite Hkt; discriminate|exact E].
      * (* an operation type *)
        unfold rgl_operation in Hq. destruct (rg_is_optype (TkName, def)) eqn:Hop; [|discriminate].
        assert (Hd0 : fst d = RgkOperation).
        { destruct r0 as [|[k2 w2] r2]; [apply rg_ret_kind in Hq; subst d; reflexivity|].
          destruct k2; apply rg_ret_kind in Hq; subst d; reflexivity. }
        rewrite Hd0. exists SK_OPERATION_DEFINITION. split; [|reflexivity].
        rewrite rl_optype_view in Hop. unfold g_select_definition in E.
        assert (Hop' : p_str_eqb def pkw_query = true \/ p_str_eqb def pkw_subscription = true \/ p_str_eqb def pkw_mutation = true).
        { destruct (p_str_eqb def pkw_query); [auto|]. destruct (p_str_eqb def pkw_subscription); [auto|].
          destruct (p_str_eqb def pkw_mutation); [auto|discriminate]. }
        destruct Hop' as [Hw|[Hw|Hw]]; apply p_str_eqb_eq in Hw; subst def; rl_eval_kw E;
          eapply rl_operation_definition_kind; eauto.
    + apply orb_false_elim in Hex as [_ Hfr]. destruct (rg_streq rg_s_extend def) eqn:Hext.
      * (* extend *)
        apply rg_streq_eq in Hext. subst def. unfold g_select_definition in E. rl_eval_kw E.
        eapply rl_extensions_kind; eauto.
      * (* a type-system definition *)
        eapply rl_select_ts_def_kind; [exact E|]. eapply rgl_ts_def_kw_kind. exact Hq.
  - (* a string, then the keyword *)
    unfold rgl_desc_then in Hq. destruct r0 as [|[k2 d2] r2]; [discriminate|]. destruct Hd as [<- Hok2].
    destruct k2; try discriminate Hq.
    cbn [rgl_desc_fragment rgl_parser andb] in Hq.
    eapply rl_select_ts_def_kind; [exact E|]. eapply rgl_ts_def_kw_kind. exact Hq.
Qed.

(* ------------------------------------------------------------------ the definition loop *)
(* on a String, a Name or `{` the loop body is select_definition on the dispatch string *)
Lemma rl_document_step_select f s b s' t :
  rl_ok s -> ps_cur s = Some t ->
  tok_kind t = TkStringValue \/ tok_kind t = TkName \/ tok_kind t = TkLCurly ->
  g_document_step f (tok_kind t) s = POk (b, s') ->
  exists def u, g_select_definition def f s = POk (u, s') /\ rl_dispatch def (rl_sigs s).
Proof.
  intros [Hinv Ha] Hc Hk E. pose proof (rl_sigs_head _ _ Hinv Hc) as Hhead. unfold g_document_step in E.
  destruct Hk as [Hk|[Hk|Hk]]; rewrite Hk in E, Hhead; cbn [tkind_eqb] in Hhead.
  - assert (Hne : tok_kind t <> TkEof) by congruence.
    destruct (rl_peek_token_n2 _ _ Hinv Hc Hne) as (t2 & Hp2 & Hv2).
    unfold p_bind at 1 in E. unfold p_peek_data_n in E. unfold p_bind at 1 in E. rewrite Hp2 in E.
    cbn [p_ret option_map] in E. apply bind_ok in E as (u & s1 & E1 & E). unfold p_ret in E. injection E as _ <-.
    exists (tok_data t2), u. split; [exact E1|]. rewrite Hhead.
    destruct (rl_sig (ps_items s)) as [|[k2 d2] r2]; cbn [rl_dispatch].
    + exact (proj2 Hv2).
    + destruct Hv2 as (_ & Hd & _ & Hok2). auto.
  - unfold p_bind at 1 in E. rewrite (peek_data_some t s Hc) in E.
    apply bind_ok in E as (u & s1 & E1 & E). unfold p_ret in E. injection E as _ <-.
    exists (tok_data t), u. split; [exact E1|]. rewrite Hhead. reflexivity.
  - unfold p_bind at 1 in E. rewrite (peek_data_some t s Hc) in E.
    apply bind_ok in E as (u & s1 & E1 & E). unfold p_ret in E. injection E as _ <-.
    assert (Hne : tok_kind t <> TkEof) by congruence.
    destruct (rl_sigs_tok _ _ Hinv Hc Hne) as (_ & Hokt & _). rewrite Hk in Hokt. cbn [rl_tok_ok] in Hokt.
    apply p_str_eqb_eq in Hokt. exists (tok_data t), u. split; [exact E1|]. rewrite Hhead. cbn. exact Hokt.
Qed.

Lemma rl_rev_leaves lv : Forall rl_is_leaf lv -> Forall rl_is_leaf (rev lv).
Proof. intros H. apply Forall_forall. intros x Hx. apply in_rev in Hx. rewrite Forall_forall in H. auto. Qed.

Lemma rl_document_loop_kinds f : forall lf (u : unit) s (u0 : unit) s',
  p_peek_while_acc lf (fun (_ : unit) k => c <- g_doc_step f k ;; p_ret (tt, c)) u s = POk (u0, s') ->
  rl_ok s -> tr_ok (ps_rec s) -> ps_errors s' = ps_errors s ->
  forall n ds, (length (rl_sigs s) <= n)%nat -> rg_defs_f n (rgl_definition LP) (rl_sigs s) = RgOk ds ->
  pb_parents (ps_builder s') = pb_parents (ps_builder s) /\
  exists new, pb_children (ps_builder s') = new ++ pb_children (ps_builder s) /\
              flat_map rl_elem_kinds (rev new) = map fst ds.
Proof.
  induction lf as [|lf IH]; intros u s u0 s' E Hok Ht He n ds Hn Hq; [discriminate|].
  pose proof Hok as [Hinv Ha]. destruct (rl_inv_cur _ Hinv) as (t & Hc & Hi & _).
  destruct (rl_peek_while_acc_unroll _ _ _ _ _ _ _ Hc E) as ([] & cont & s1 & E1 & E2).
  apply bind_ok in E1 as (b & s2 & E1 & E3). unfold p_ret in E3. injection E3 as Hb Hs2. subst b s2.
  unfold g_doc_step in E1. apply bind_ok in E1 as (? & s0 & Ea & E1). apply rl_assert_run in Ea. subst s0.
  destruct (rl_document_step f s cont s1 t Hok Ht Hc E1) as [Heof Hdef].
  destruct (tkind_eqb (tok_kind t) TkEof) eqn:Hk.
  - (* the end: nothing is added, and the reference has no definition left *)
    apply tkind_eqb_eq in Hk. destruct (Heof Hk) as [-> ->]. destruct E2 as [_ ->].
    rewrite (rl_sigs_eof _ _ Hinv Hc Hk) in Hq. split; [reflexivity|]. exists [].
    destruct n; cbn [rg_defs_f] in Hq; injection Hq as <-; auto.
  - assert (Hne : tok_kind t <> TkEof) by (intros H; apply tkind_eqb_eq in H; congruence).
    destruct (Hdef Hne) as (-> & Hs1 & _).
    destruct (rl_gen_run _ _ _ _ (rl_gen_document_step f (tok_kind t)) E1 Ht) as (Ht1 & _ & _ & Hx1).
    destruct (rl_gen_run _ _ _ _ (rl_gen_doc_loop f lf tt) E2 Ht1) as (_ & _ & _ & Hx2).
    destruct (rl_ext_split _ _ _ Hx1 Hx2 He) as [He1 He2].
    destruct (Hs1 He1) as (Hok1 & _ & Hacc).
    destruct (rl_sigs_tok _ _ Hinv Hc Hne) as (Hsig & _ & _).
    (* the first definition of the reference's run *)
    rewrite Hsig in Hq. destruct n as [|n]; [discriminate|]. cbn [rg_defs_f] in Hq. unfold rg_bind at 1 in Hq.
    destruct (rgl_definition LP ((tok_kind t, tok_data t) :: rl_sig (ps_items s))) as [[d r1]| |] eqn:Eq1; try discriminate.
    cbn [snd fst] in Hq.
    destruct (rg_defs_f n (rgl_definition LP) r1) as [ds'| |] eqn:Eq2; try discriminate. injection Hq as <-.
    rewrite <- Hsig in Eq1.
    assert (Hr1 : rl_sigs s1 = r1).
    { unfold rl_acc in Hacc. rewrite Eq1 in Hacc. cbn in Hacc. injection Hacc as ->. reflexivity. }
    pose proof (rgl_definition_progress _ _ Eq1) as Hlt. cbn [snd] in Hlt.
    assert (Hn1 : (length (rl_sigs s1) <= n)%nat) by (rewrite Hr1; lia).
    rewrite <- Hr1 in Eq2.
    destruct (IH _ _ _ _ E2 Hok1 Ht1 He2 n ds' Hn1 Eq2) as (Hp2 & new' & Hc2 & Hk2).
    (* the node this definition added *)
    assert (Hkind : tok_kind t = TkStringValue \/ tok_kind t = TkName \/ tok_kind t = TkLCurly).
    { rewrite Hsig in Eq1. unfold rgl_definition in Eq1. destruct (tok_kind t); try discriminate Eq1; auto. }
    destruct (rl_document_step_select f s true s1 t Hok Hc Hkind E1) as (def & u1 & Esel & Hdisp).
    destruct (rl_select_kind f def s u1 s1 Hok Esel Hdisp d r1 Eq1) as (K & (Hp1 & cs & lv & Hc1 & Hlv) & HK).
    split; [congruence|]. exists (new' ++ PNode K cs :: lv). split.
    + rewrite Hc2, Hc1, <- app_assoc. reflexivity.
    + rewrite rev_app_distr. cbn [rev]. rewrite !flat_map_app. cbn [flat_map rl_elem_kinds]. rewrite HK.
      rewrite (rl_leaves_no_kinds _ (rl_rev_leaves _ Hlv)), Hk2. reflexivity.
Qed.

(* ------------------------------------------------------------------ Parser::parse: the tree *)
Lemma rl_push_ignored_init_builder dbg rl items u s1 :
  p_push_ignored (p_init_state dbg rl items) = POk (u, s1) -> ps_builder s1 = pb_new.
Proof. unfold p_push_ignored. cbn. intros [= _ <-]. reflexivity. Qed.

Theorem rl_document_tree_kinds f dbg rl items u s' ds : rl_stream items ->
  g_document f (p_init_state dbg rl items) = POk (u, s') -> ps_errors s' = [] ->
  rg_document_r (rgl_definition LP) (rl_sig items) = RgOk ds ->
  exists cs, pb_children (ps_builder s') = [PNode SK_DOCUMENT cs] /\ flat_map rl_elem_kinds cs = map fst ds.
Proof.
  intros Hstr E He Hq. rewrite g_document_unfold in E. unfold p_node in E. apply bind_ok in E as (? & s1 & E1 & E).
  destruct (rl_start_node_init _ _ _ _ _ _ Hstr E1) as (Hok1 & Hsig1 & He1 & Hr1).
  (* the builder after the first start_node: one open node, nothing in it *)
  assert (Hb1 : pb_parents (ps_builder s1) = [(SK_DOCUMENT, O)] /\ pb_children (ps_builder s1) = []).
  { unfold p_start_node in E1. apply bind_ok in E1 as (? & s0 & E0 & E1). apply rl_push_ignored_init_builder in E0.
    apply bind_ok in E1 as (? & s0' & Em & E1). unfold p_modify in Em. injection Em as _ <-.
    apply rl_skip_ignored_builder in E1. rewrite E1. cbn. rewrite E0. auto. }
  destruct Hb1 as [Hp1 Hc1].
  apply bind_ok in E as (? & s9 & E & Ef). apply bind_ok in Ef as (? & s10 & Ef & Er). unfold p_ret in Er.
  injection Er as _ <-.
  assert (Ht1 : tr_ok (ps_rec s1)) by (rewrite Hr1; unfold tr_ok; cbn; lia).
  pose proof Hok1 as [Hinv1 Ha1]. destruct (rl_inv_cur _ Hinv1) as (t & Hct & Hi1 & _).
  unfold p_bind at 1 in E. rewrite (peek_some t s1 Hct) in E.
  apply bind_ok in E as (? & s2 & E2 & E). apply bind_ok in E as (? & s3 & E3 & E4).
  unfold p_peek_while in E3. apply bind_ok in E3 as (u3 & s3' & E3 & Er). unfold p_ret in Er. injection Er as _ ->.
  (* errors: none anywhere *)
  assert (Hef : ps_errors s10 = ps_errors s9) by (apply rl_finish_node_obs in Ef; exact (proj1 (proj2 (proj2 Ef)))).
  assert (He4 : ps_errors s9 = ps_errors s3) by (apply rl_push_ignored_obs in E4; exact (proj1 (proj2 (proj2 E4)))).
  rewrite <- Hsig1 in Hq.
  destruct (tkind_eqb (tok_kind t) TkEof) eqn:Hk.
  { apply tkind_eqb_eq in Hk. rewrite (rl_sigs_eof _ _ Hinv1 Hct Hk) in Hq. discriminate Hq. }
  assert (Hne : tok_kind t <> TkEof) by (intros H; apply tkind_eqb_eq in H; congruence).
  assert (Hw : match tok_kind t with TkEof => true | _ => false end = false) by (destruct (tok_kind t); try reflexivity; contradiction).
  rewrite Hw in E2. cbn [p_when] in E2. unfold p_ret in E2. injection E2 as _ <-.
  destruct (rl_sigs_tok _ _ Hinv1 Hct Hne) as (Hsig & _ & _).
  assert (Hq' : rg_defs_f (length (rl_sigs s1)) (rgl_definition LP) (rl_sigs s1) = RgOk ds).
  { rewrite Hsig in Hq |- *. exact Hq. }
  assert (He3 : ps_errors s3 = ps_errors s1) by congruence.
  destruct (rl_document_loop_kinds f f _ _ _ _ E3 Hok1 Ht1 He3 _ ds (le_n _) Hq') as (Hp3 & new & Hc3 & Hkinds).
  (* the final push_ignored puts trailing trivia on top; finish_node closes the DOCUMENT node *)
  destruct (rl_push_ignored_run _ _ _ E4) as (Hp9 & (lv & Hc9 & Hlv) & _).
  unfold p_finish_node, p_lift_b in Ef. destruct (pb_finish_node (ps_builder s9)) as [b10| |] eqn:Efn; try discriminate.
  injection Ef as _ <-. cbn [ps_builder ps_set_builder].
  unfold pb_finish_node in Efn. rewrite Hp9, Hp3, Hp1, Hc9, Hc3, Hc1 in Efn.
  cbn [Nat.ltb Nat.leb] in Efn. injection Efn as <-. cbn [pb_children].
  rewrite Nat.sub_0_r, app_nil_r, firstn_all, skipn_all.
  exists (rev (lv ++ new)). split; [reflexivity|].
  rewrite rev_app_distr, flat_map_app, Hkinds, (rl_leaves_no_kinds _ (rl_rev_leaves _ Hlv)). apply app_nil_r.
Qed.
