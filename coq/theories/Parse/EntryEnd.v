(* C07 (partial): the two standalone entries read their input to the end: when they return, the lexer is at
   Eof (or finished) and nothing is pending -- every token that followed the construct went through
   trailing_tokens_are_errors.  (For the selection-set entry: unless the recursion limit is 0, in which case
   the entry returns at once with a limit error.) *)
From ApolloVerif Require Import Base.Chars Lex.Item Parse.Outcome Parse.Builder Parse.Limits Parse.Monad
  Parse.Grammar Parse.Generic Parse.Atoms Parse.Entry Parse.LosslessDefs Parse.Lossless Parse.TrackerInst
  Parse.SilentInst.

Lemma CT_step {A} (m : PM A) s a s' :
  spec CT m -> tr_ok (ps_rec s) -> m s = POk (a, s') ->
  tr_ok (ps_rec s') /\ ptr_current (ps_rec s') = ptr_current (ps_rec s) /\ ptr_limit (ps_rec s') = ptr_limit (ps_rec s).
Proof.
  intros Hm Hs E. destruct (post_returns _ _ _ _ Hm s Hs _ _ E) as [H1 (H2 & H3 & _)]. auto.
Qed.

Lemma trailing_end fuel s u s' :
  p_trailing_tokens_are_errors fuel s = POk (u, s') -> at_end s' /\ ps_pending s' = [].
Proof.
  unfold p_trailing_tokens_are_errors. intros E.
  apply bind_ok in E as (u5 & s5 & _ & E). apply bind_ok in E as (u6 & s6 & El & Ep).
  apply trailing_loop_exit in El. exact (push_ignored_end _ _ _ Ep El).
Qed.

Lemma field_set_end fuel s u s' :
  g_field_set fuel s = POk (u, s') ->
  tr_ok (ps_rec s) -> ptr_current (ps_rec s) < ptr_limit (ps_rec s) ->
  at_end s' /\ ps_pending s' = [].
Proof.
  unfold g_field_set, p_node. intros E Hok Hlim.
  apply bind_ok in E as (u1 & s1 & Es & E). apply bind_ok in E as (u2 & s2 & E & Ef).
  apply bind_ok in Ef as (u3 & s3 & Ef & Er). unfold p_ret in Er. injection Er as <- <-.
  destruct (CT_step _ _ _ _ (d_start_node CT CT_atoms SK_SELECTION_SET) Hok Es) as (Hok1 & Hc1 & Hl1).
  apply bind_ok in E as (braces & s4 & Eb & E).
  destruct (CT_step _ _ _ _ (specR_spec CT CT_rel _ (gg_peek_is CT CT_ok TkLCurly)) Hok1 Eb) as (Hok4 & Hc4 & Hl4).
  apply bind_ok in E as (u5 & s5 & Ew & E).
  assert (H5 : tr_ok (ps_rec s5) /\ ptr_current (ps_rec s5) = ptr_current (ps_rec s4) /\
               ptr_limit (ps_rec s5) = ptr_limit (ps_rec s4)).
  { destruct braces; cbn [p_when] in Ew.
    - exact (CT_step _ _ _ _ (ok_bump CT CT_ok SK_L_CURLY) Hok4 Ew).
    - unfold p_ret in Ew. injection Ew as _ <-. auto. }
  destruct H5 as (Hok5 & Hc5 & Hl5).
  unfold p_rec_guard in E. apply bind_ok in E as (reached & s6 & Ec & E).
  unfold p_rec_check_and_increment in Ec.
  destruct (ptracker_check_and_increment (ps_rec s5)) as [[b t6]| |] eqn:Et; try discriminate.
  injection Ec as <- <-.
  destruct (check_and_increment_spec _ _ _ Hok5 Et) as (_ & _ & _ & Htrue & _).
  destruct b.
  - exfalso. destruct (Htrue eq_refl) as [_ Hlt]. lia.
  - apply bind_ok in E as (u7 & s7 & _ & E). apply bind_ok in E as (u8 & s8 & _ & E).
    apply bind_ok in E as (u9 & s9 & _ & E).
    apply trailing_end in E as [He Hp]. apply finish_node_end in Ef as (Hc & Hi & Hpp).
    unfold at_end in *. rewrite Hc, Hi, Hpp. auto.
Qed.

Theorem type_entry_reaches_eof fuel dbg rl items u s' :
  g_type_entry fuel (p_init_state dbg rl items) = POk (u, s') -> at_end s' /\ ps_pending s' = [].
Proof. apply type_entry_end. Qed.

Theorem field_set_entry_reaches_eof fuel dbg rl items u s' :
  0 < rl -> g_field_set fuel (p_init_state dbg rl items) = POk (u, s') -> at_end s' /\ ps_pending s' = [].
Proof.
  intros Hrl E. eapply field_set_end; [exact E|apply init_tr_ok|cbn; exact Hrl].
Qed.
(* ---- trailing tokens are errors *)
Definition clean (s : pstate) : Prop := ps_accept s = true /\ ps_errors s = [].
Definition rest_of (s : pstate) : list item := cur_item (ps_cur s) ++ ps_items s.
Definition ignored_item (i : item) : Prop :=
  match i with ITok k _ _ => p_is_ignored_kind k = true | IErr _ _ _ => False end.

Lemma lexer_error_effect_dirty c d i s :
  ps_accept s = true -> ps_errors (p_lexer_error_effect c d i s) <> [].
Proof. intros Ha. destruct (lexer_error_effect_fields c d i s) as [_ ->]. rewrite Ha. discriminate. Qed.

(* errors, once recorded, stay *)
Lemma dirty_stays {A} (m : PM A) s a s' :
  spec CS m -> errs_ok (ps_accept s) (ps_errors s) -> m s = POk (a, s') -> True.
Proof. auto. Qed.

Lemma lexer_error_effect_keeps_errors c d i s : ps_errors s <> [] -> ps_errors (p_lexer_error_effect c d i s) <> [].
Proof. intros H. destruct (lexer_error_effect_fields c d i s) as [_ ->]. destruct (ps_accept s); [discriminate|exact H]. Qed.

Lemma skip_loop_errors_stay items : forall s, ps_errors s <> [] -> ps_errors (p_skip_loop items s) <> [].
Proof.
  induction items as [|[k d i|c d i] r IH]; intros s H; cbn [p_skip_loop]; auto.
  - destruct (p_is_ignored_kind k); [apply IH|]; exact H.
  - apply IH. apply lexer_error_effect_keeps_errors. exact H.
Qed.

Lemma skip_loop_clean items : forall s,
  ps_cur s = None -> clean s -> clean (p_skip_loop items s) ->
  exists ign, items = ign ++ rest_of (p_skip_loop items s) /\ Forall ignored_item ign.
Proof.
  induction items as [|[k d i|c d i] r IH]; intros s Hc Hs Hs'; cbn [p_skip_loop] in *.
  - exists []. unfold rest_of. cbn. rewrite Hc. auto.
  - destruct (p_is_ignored_kind k) eqn:Hk.
    + match type of Hs' with clean (p_skip_loop r ?s0) =>
        destruct (IH s0 Hc Hs Hs') as (ign & E & Hf) end.
      exists (ITok k d i :: ign). split; [cbn [app]; f_equal; exact E|].
      constructor; auto.
    + exists []. unfold rest_of. cbn. auto.
  - exfalso. destruct Hs' as [_ He]. revert He. apply skip_loop_errors_stay.
    apply lexer_error_effect_dirty. destruct Hs as [Ha _]. exact Ha.
Qed.

(* errors, once recorded, stay: every operation of the parser only adds to the error list *)
Definition CE : pcfg :=
  {| cInv := fun s => ps_errors s <> []; cWeak := fun s => ps_errors s <> []; cRel := fun _ _ => True; cPanicOk := True; cFuelOk := True |}.
Lemma CE_rel : prel_ok CE.
Proof. constructor; cbn; auto. Qed.
Lemma CE_frame {A} (m : PM A) :
  (forall s a s', m s = POk (a, s') -> ps_errors s' = ps_errors s) -> spec CE m.
Proof. intros Hm. apply post_partial; [exact I|exact I|]. cbn. intros s Hs a s' E. rewrite (Hm _ _ _ E). auto. Qed.
Lemma CE_step {A} (m : PM A) :
  (forall s a s', m s = POk (a, s') -> ps_errors s <> [] -> ps_errors s' <> []) -> spec CE m.
Proof. intros Hm. apply post_partial; [exact I|exact I|]. cbn. intros s Hs a s' E. split; eauto. Qed.

Lemma next_token_loop_errors_stay items : forall s o s',
  p_next_token_loop items s = (o, s') -> ps_errors s <> [] -> ps_errors s' <> [].
Proof.
  induction items as [|[k d i|c d i] r IH]; intros s o s'; cbn [p_next_token_loop].
  - intros [= <- <-]. auto.
  - intros [= <- <-]. auto.
  - intros E H. eapply IH; eauto. apply lexer_error_effect_keeps_errors. exact H.
Qed.

Lemma peek_token_errors_stay s o s' : p_peek_token s = POk (o, s') -> ps_errors s <> [] -> ps_errors s' <> [].
Proof.
  unfold p_peek_token. destruct (ps_cur s).
  - intros [= <- <-]. auto.
  - destruct (p_next_token_loop _ _) as [o1 s1] eqn:E. intros [= <- <-]. cbn. eapply next_token_loop_errors_stay; eauto.
Qed.

Lemma CE_atoms : patoms_ok CE.
Proof.
  constructor.
  - exact CE_rel.
  - cbn. auto.
  - apply CE_step. apply peek_token_errors_stay.
  - apply CE_step. intros s a s'. unfold p_pop. destruct (ps_cur s).
    + intros [= <- <-]. auto.
    + destruct (p_next_token_loop _ _) as [[t|] s1] eqn:E; [|discriminate]. intros [= <- <-].
      eapply next_token_loop_errors_stay; eauto.
  - apply CE_step. intros s a s'. unfold p_skip_ignored. cbv zeta. destruct (ps_cur s) as [t|].
    + destruct (p_is_ignored_kind _); intros [= <- <-]; auto. intros H. apply skip_loop_errors_stay. exact H.
    + intros [= <- <-]. apply skip_loop_errors_stay.
  - apply CE_frame. intros s a s'. unfold p_push_ignored. destruct (p_push_pending_list _ _); try discriminate.
    intros [= <- <-]. auto.
  - intros k t. apply CE_frame. intros s a s'. unfold p_push_token, p_modify. intros [= <- <-]. auto.
  - intros t. apply CE_step. intros s a s'. unfold p_push_err, p_modify. intros [= <- <-].
    destruct (ps_accept s); cbn; auto. discriminate.
  - apply CE_step. intros s a s' E H. unfold p_limit_err in E.
    apply bind_ok in E as (o & s1 & E1 & E). apply peek_token_errors_stay in E1; [|exact H].
    destruct o as [t|].
    + apply bind_ok in E as (u & s2 & E2 & E). unfold p_push_err, p_modify in *.
      injection E2 as _ <-. injection E as _ <-. destruct (ps_accept s1); cbn; auto. discriminate.
    + unfold p_ret in E. injection E as _ <-. exact E1.
  - intros k. apply CE_frame. intros s a s'. unfold p_start_raw, p_modify. intros [= <- <-]. auto.
  - apply CE_frame. intros s a s'. unfold p_finish_node, p_lift_b. destruct (pb_finish_node _); try discriminate.
    intros [= <- <-]. auto.
  - intros cp k. apply CE_frame. intros s a s'. unfold p_wrap_node, p_lift_b.
    destruct (pb_start_node_at _ _ _); try discriminate. intros [= <- <-]. auto.
  - intros A B l body k Hl Hb Hk. unfold p_rec_guard.
    eapply post_bind; [apply CE_rel| |intros [|]]; [|exact Hl|].
    + apply CE_frame. intros s a s'. unfold p_rec_check_and_increment.
      destruct (ptracker_check_and_increment _) as [[b t]| |]; try discriminate. intros [= <- <-]. auto.
    + eapply post_bind; [apply CE_rel|exact Hb|intros x].
      eapply post_bind; [apply CE_rel| |intros; apply Hk].
      apply CE_frame. intros s a s'. unfold p_rec_decrement.
      destruct (ptracker_decrement _); try discriminate. intros [= <- <-]. auto.
  - intros t. apply CE_frame. intros s a s'. unfold p_ghost_dropped, p_modify. intros [= <- <-]. auto.
  - intros A w. apply CE_frame. intros s a s'. discriminate.
  - apply CE_frame. intros s a s'. unfold g_assert_recursion_balanced. destruct (_ =? _); try discriminate.
    intros [= <- <-]. auto.
  - intros b. apply CE_frame. intros s a s'. unfold p_debug_assert_advanced. destruct (_ && _); try discriminate.
    intros [= <- <-]. auto.
Qed.
Definition CE_ok : pcfg_ok CE := atoms_cfg_ok CE CE_atoms I.

Lemma errors_stay {A} (m : PM A) s a s' :
  spec CE m -> m s = POk (a, s') -> ps_errors s' = [] -> ps_errors s = [].
Proof.
  intros Hm E H. destruct (ps_errors s) eqn:He; [reflexivity|]. exfalso.
  assert (Hne : ps_errors s <> []) by (rewrite He; discriminate).
  destruct (post_returns _ _ _ _ Hm s Hne _ _ E) as [H1 _]. cbn in H1. contradiction.
Qed.

(* with accept_errors, err_and_pop on a token records an error *)
Lemma err_and_pop_dirty s u s' t :
  p_err_and_pop s = POk (u, s') -> ps_accept s = true ->
  (forall s1, p_push_ignored s = POk (tt, s1) -> ps_cur s1 = Some t) -> ps_errors s' <> [].
Proof.
  unfold p_err_and_pop. intros E Ha Hc. apply bind_ok in E as ([] & s1 & E1 & E).
  specialize (Hc s1 E1).
  assert (Ha1 : ps_accept s1 = true).
  { unfold p_push_ignored in E1. destruct (p_push_pending_list _ _); try discriminate. injection E1 as <-. exact Ha. }
  apply bind_ok in E as (o & s2 & E2 & E). unfold p_current, p_peek_token in E2. rewrite Hc in E2.
  injection E2 as <- <-.
  apply bind_ok in E as (t' & s3 & E3 & E). unfold p_pop in E3. rewrite Hc in E3. injection E3 as <- <-.
  apply bind_ok in E as (? & s4 & E4 & E). unfold p_push_token, p_modify in E4. injection E4 as _ <-.
  apply bind_ok in E as (? & s5 & E5 & E). unfold p_push_err, p_modify in E5. injection E5 as _ <-.
  cbn [ps_accept ps_set_builder ps_set_cur] in E. rewrite Ha1 in E.
  assert (Hs : spec CE p_skip_ignored) by apply (a_skip_ignored CE CE_atoms).
  match type of E with p_skip_ignored ?st = _ => assert (Hne : ps_errors st <> []) by (cbn; discriminate) end.
  destruct (post_returns _ _ _ _ Hs _ Hne _ _ E) as [H1 _]. exact H1.
Qed.
Lemma clean_of s : errs_ok (ps_accept s) (ps_errors s) -> ps_errors s = [] -> clean s.
Proof.
  unfold errs_ok, clean. intros H He. destruct (ps_accept s); [auto|].
  destruct H as (e & r & E & _). rewrite E in He. discriminate.
Qed.

Lemma CS_keeps {A} (m : PM A) s a s' :
  spec CS m -> errs_ok (ps_accept s) (ps_errors s) -> m s = POk (a, s') -> errs_ok (ps_accept s') (ps_errors s').
Proof. intros Hm Hs E. destruct (post_returns _ _ _ _ Hm s Hs _ _ E) as [H _]. exact H. Qed.

Lemma skip_ignored_clean s u s' :
  p_skip_ignored s = POk (u, s') -> clean s -> clean s' ->
  exists ign, rest_of s = ign ++ rest_of s' /\ Forall ignored_item ign.
Proof.
  unfold p_skip_ignored. cbv zeta. destruct (ps_cur s) as [t|] eqn:Hc.
  - destruct (p_is_ignored_kind (tok_kind t)) eqn:Hk.
    + intros [= <- E] Hs Hs'. subst s'.
      match type of Hs' with clean (p_skip_loop ?it ?s0) =>
        destruct (skip_loop_clean it s0 eq_refl Hs Hs') as (ign & E & Hf) end.
      exists (ITok (tok_kind t) (tok_data t) (tok_index t) :: ign). unfold rest_of at 1. rewrite Hc. cbn [cur_item app].
      cbn [ps_items ps_set_cur ps_set_pending] in E. split; [f_equal; exact E|]. constructor; auto.
    + intros [= <- <-] _ _. exists []. auto.
  - intros [= <- E] Hs Hs'. subst s'. destruct (skip_loop_clean _ s Hc Hs Hs') as (ign & E & Hf).
    exists ign. unfold rest_of at 1. rewrite Hc. cbn [cur_item app]. auto.
Qed.

Lemma peek_clean s o s1 :
  p_peek s = POk (o, s1) -> clean s -> clean s1 -> rest_of s = rest_of s1.
Proof.
  unfold p_peek. intros E Hs Hs1. apply bind_ok in E as (ot & sa & E & Er). unfold p_ret in Er. injection Er as _ <-.
  unfold p_peek_token in E. destruct (ps_cur s) as [t|] eqn:Hc.
  - injection E as _ <-. reflexivity.
  - destruct (p_next_token_loop (ps_items s) s) as [o1 sb] eqn:El. injection E as _ <-.
    unfold rest_of at 1. rewrite Hc. cbn [cur_item app].
    destruct (ps_items s) as [|[k d i|c d i] r] eqn:Hi; cbn [p_next_token_loop] in El.
    + injection El as <- <-. unfold rest_of. cbn. reflexivity.
    + injection El as <- <-. unfold rest_of. cbn. reflexivity.
    + exfalso. destruct Hs1 as [_ He]. cbn [ps_errors ps_set_cur] in He. revert He.
      eapply next_token_loop_errors_stay; [exact El|]. apply lexer_error_effect_dirty. destruct Hs as [Ha _]. exact Ha.
Qed.

Lemma trailing_loop_clean fuel : forall s u s',
  p_trailing_loop fuel s = POk (u, s') -> errs_ok (ps_accept s) (ps_errors s) -> ps_errors s' = [] ->
  rest_of s = rest_of s'.
Proof.
  induction fuel as [|f IH]; intros s u s'; cbn [p_trailing_loop]; [discriminate|].
  intros E Hok He'. apply bind_ok in E as (o & s1 & Ep & E).
  assert (Hok1 : errs_ok (ps_accept s1) (ps_errors s1)) by (eapply (CS_keeps p_peek); eauto; apply (d_peek CS CS_atoms)).
  assert (He1 : ps_errors s1 = []).
  { destruct o as [k|]; [destruct k|]; try (unfold p_ret in E; injection E as _ <-; exact He').
    all: eapply (errors_stay (p_err_and_pop ;; p_trailing_loop f)); [|exact E|exact He'].
    all: eapply post_bind; [apply CE_rel|apply (d_err_and_pop CE CE_atoms)|intros; apply (gg_trailing_loop CE CE_ok)]. }
  assert (He0 : ps_errors s = []) by (eapply (errors_stay p_peek); eauto; apply (d_peek CE CE_atoms)).
  pose proof (peek_clean _ _ _ Ep (clean_of _ Hok He0) (clean_of _ Hok1 He1)) as Hrest.
  pose proof (peek_run _ _ _ Ep) as Hpr.
  destruct o as [k|].
  2:{ unfold p_ret in E. injection E as _ <-. exact Hrest. }
  destruct Hpr as [(Hn & _)|(t & Hk & Hc)]; [discriminate|]. injection Hk as ->.
  destruct (tok_kind t) eqn:Hkind; try (unfold p_ret in E; injection E as _ <-; exact Hrest).
  all: exfalso; apply bind_ok in E as (u1 & s2 & Eerr & E);
    assert (Hd : ps_errors s2 <> []) by
      (eapply (err_and_pop_dirty s1 u1 s2 t); [exact Eerr|destruct (clean_of _ Hok1 He1); auto|];
       intros sx Ex; unfold p_push_ignored in Ex; destruct (p_push_pending_list _ _); try discriminate;
       injection Ex as <-; exact Hc);
    apply Hd; eapply (errors_stay (p_trailing_loop f)); [apply (gg_trailing_loop CE CE_ok)|exact E|exact He'].
Qed.

(* trailing_tokens_are_errors: if no error is on record afterwards, only ignored tokens preceded the end *)
Theorem trailing_tokens_clean fuel s u s' :
  p_trailing_tokens_are_errors fuel s = POk (u, s') ->
  errs_ok (ps_accept s) (ps_errors s) -> ps_errors s' = [] ->
  exists ign, rest_of s = ign ++ rest_of s' /\ Forall ignored_item ign /\ at_end s'.
Proof.
  intros E Hok He'. pose proof (trailing_end _ _ _ _ E) as [Hend _].
  unfold p_trailing_tokens_are_errors in E.
  apply bind_ok in E as (u1 & s1 & Es & E). apply bind_ok in E as (u2 & s2 & El & Ep).
  assert (He2 : ps_errors s2 = []).
  { eapply (errors_stay p_push_ignored); [apply (a_push_ignored CE CE_atoms)|exact Ep|exact He']. }
  assert (Hok1 : errs_ok (ps_accept s1) (ps_errors s1))
    by (eapply (CS_keeps p_skip_ignored); eauto; apply (a_skip_ignored CS CS_atoms)).
  assert (He1 : ps_errors s1 = [])
    by (eapply (errors_stay (p_trailing_loop fuel)); [apply (gg_trailing_loop CE CE_ok)|exact El|exact He2]).
  assert (He0 : ps_errors s = [])
    by (eapply (errors_stay p_skip_ignored); [apply (a_skip_ignored CE CE_atoms)|exact Es|exact He1]).
  destruct (skip_ignored_clean _ _ _ Es (clean_of _ Hok He0) (clean_of _ Hok1 He1)) as (ign & Hr & Hf).
  pose proof (trailing_loop_clean _ _ _ _ El Hok1 He2) as Hr2.
  exists ign. split; [|split; [exact Hf|exact Hend]].
  rewrite Hr, Hr2. f_equal. apply push_ignored_run in Ep as (b & -> & _). reflexivity.
Qed.
