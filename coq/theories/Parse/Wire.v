(* What the correspondence runner prints, as one record of plain data (so that the OCaml glue does not
   depend on constructor names shared with other developments). *)
From ApolloVerif Require Import Base.Chars Lex.Item Parse.Outcome Parse.Builder Parse.Limits Parse.Monad
  Parse.Grammar Parse.Entry.

Inductive pw_entry := PW_doc | PW_selset | PW_type.

(* serialised tree: open node / leaf / close *)
Inductive pw_tok := PW_open (k : skind) | PW_leaf (k : skind) (text : str) | PW_close.

Fixpoint pw_flatten (t : ptree) : list pw_tok :=
  match t with
  | PLeaf k s => [PW_leaf k s]
  | PNode k c =>
      PW_open k ::
      (fix go (l : list ptree) : list pw_tok :=
         match l with [] => [PW_close] | x :: r => pw_flatten x ++ go r end) c
  end.

Record pw_obs := {
  pw_status : N;                       (* 0 = returned, 1 = panic, 2 = out of fuel *)
  pw_leaves : list (skind * str);
  pw_range_end : N;                    (* the root's text range is 0 .. pw_range_end *)
  pw_errors : list (bool * N);         (* (is_limit, index) in order *)
  pw_rec_high : N;
  pw_tok_high : N;
  pw_struct : list pw_tok;
  pw_dropped : N                       (* ghost: bytes of text dropped by ty::parse (D3) *)
}.

Definition pw_fail (st : N) : pw_obs :=
  {| pw_status := st; pw_leaves := []; pw_range_end := 0; pw_errors := []; pw_rec_high := 0;
     pw_tok_high := 0; pw_struct := []; pw_dropped := 0 |}.

Definition pw_of_result (o : poutcome presult) : pw_obs :=
  match o with
  | POk r =>
      {| pw_status := 0;
         pw_leaves := p_leaves (pr_tree r);
         pw_range_end := blen (p_text_of (pr_tree r));
         pw_errors := map (fun e => (match pe_class e with PcLimit => true | PcSyntax => false end,
                                     pe_index e)) (pr_errors r);
         pw_rec_high := ptr_high (pr_rec r);
         pw_tok_high := pr_tokens_high r;
         pw_struct := pw_flatten (pr_tree r);
         pw_dropped := blen (concat (map tok_data (pr_dropped r))) |}
  | PPanic _ => pw_fail 1
  | POutOfFuel => pw_fail 2
  end.

Definition pw_run (e : pw_entry) (dbg : bool) (rl : N) (items : list item) : pw_obs :=
  pw_of_result
    match e with
    | PW_doc => parse_document_items dbg rl items
    | PW_selset => parse_selection_set_items dbg rl items
    | PW_type => parse_type_items dbg rl items
    end.

(* building items from plain data (token kinds by their position in lexer/token_kind.rs) *)
Definition pw_tkind_of_code (c : N) : tkind :=
  nth (N.to_nat c)
    [TkWhitespace; TkComment; TkBang; TkDollar; TkAmp; TkSpread; TkComma; TkColon; TkEq; TkAt; TkLParen; TkRParen; TkLBracket;
     TkRBracket; TkLCurly; TkRCurly; TkPipe; TkEof; TkName; TkStringValue; TkInt; TkFloat] TkEof.
Definition pw_mk_tok (code : N) (data : str) (index : N) : item := ITok (pw_tkind_of_code code) data index.
Definition pw_mk_err (is_limit : bool) (data : str) (index : N) : item :=
  IErr (if is_limit then ELimit else ELex) data index.

(* lexer model and parser model composed: the observation for a SOURCE STRING and both limits *)
From ApolloVerif Require Import Lex.Fun.
Definition pw_run_src (e : pw_entry) (dbg : bool) (rl : N) (tl : option N) (s : str) : pw_obs :=
  pw_run e dbg rl (match tl with Some n => lex_limited n s | None => lex_all s end).
