(* Literal model of crates/apollo-compiler/src/resolvers/execution.rs and result_coercion.rs, and of
   coerce_argument_values / coerce_argument_value of input_coercion.rs, written as a program (Run/Prog.v):
   every `.await` of the code is a PCall / PNext node, sequential composition is pbind.
     execute_selection_set = ex_selset      collect_fields = ex_collect      eval_if_arg = ex_eval_if
     does_fragment_type_apply = ex_type_applies   execute_field = ex_field   try_nullify = ex_try_nullify
     complete_value = ex_complete   complete_list_value = ex_list   complete_leaf_value = ex_leaf
     coerce_argument_values = ex_coerce_args   coerce_argument_value = ex_arg_value
     Execution::execute_common = execute_request (Run/ExecTop.v)
   `ExecutionMode` is passed around by the code but never read: the field loop is the same sequential loop for
   queries and mutations; it has no counterpart here.
   ctx.errors is the state of the `em` monad (newest first); error messages and locations are not modelled,
   an error is a class and a path.  Fuel: XrFuel / AcFuel are distinct results. *)
From Coq Require Import ZArith String.
From ApolloVerif Require Import Base.Chars Ast.Ast Schema.Model Run.Json Run.Coerce Run.TypedDoc Run.Prog.
Local Open Scope string_scope.
Local Open Scope N_scope.
Local Open Scope list_scope.

(* ResponseDataPathSegment *)
Inductive pseg := PsKey (k : str) | PsIdx (i : N).

Inductive exclass :=
| EcResolver      (* "resolver error: ..." : the resolver (or an item of its iterator) returned Err *)
| EcNull          (* non-null type resolved to null *)
| EcKind          (* list / object / leaf where another kind is expected *)
| EcType          (* object of a type that is undefined, not a member, not an implementer, or not the expected one *)
| EcLeaf          (* leaf value that is not a value of the scalar or enum type *)
| EcArg           (* argument coercion *)
| EcIntro         (* schema introspection is disabled *)
| EcBug.          (* SuspectedValidationBug *)

Record gerr := { ge_class : exclass; ge_path : list pseg }.

(* path_to_vec: the linked path is innermost-first *)
Definition ex_err (c : exclass) (rpath : list pseg) : gerr := {| ge_class := c; ge_path := rev rpath |}.

Inductive xres (A : Type) := XrOk (a : A) | XrNull | XrFuel.
Arguments XrOk {A}. Arguments XrNull {A}. Arguments XrFuel {A}.

(* the executor monad: state = ctx.errors *)
Definition em (A : Type) := list gerr -> prog (A * list gerr).
Definition eret {A} (a : A) : em A := fun st => PRet (a, st).
Definition ebind {A B} (m : em A) (f : A -> em B) : em B :=
  fun st => pbind (m st) (fun r => f (fst r) (snd r)).
Definition epush (e : gerr) : em unit := fun st => PRet (tt, e :: st).
Definition ecall_m (c : ecall) : em resolved := fun st => PCall c (fun r => PRet (r, st)).
Definition enext : em unit := fun st => PNext (PRet (tt, st)).

Record ectx := {
  ex_schema : schema;
  ex_frags : list rfrag;
  ex_vars : jmap;          (* coerced variable values *)
  ex_cfuel : nat;          (* fuel of collect_fields (fragment nesting) *)
  ex_afuel : nat }.        (* fuel of argument coercion *)

(* ---------------------------------------------------------------- selections *)
Definition rs_name (x : rsel) : str := match x with RsField _ n _ _ _ _ => n | _ => [] end.
Definition rs_args (x : rsel) : list argument := match x with RsField _ _ a _ _ _ => a | _ => [] end.
Definition rs_dty (x : rsel) : ty := match x with RsField _ _ _ _ t _ => t | _ => TNamed [] end.
Definition rs_sels (x : rsel) : list rsel :=
  match x with RsField _ _ _ _ _ l => l | RsInline _ _ l => l | RsSpread _ _ => [] end.
Definition rs_dirs (x : rsel) : list directive :=
  match x with RsField _ _ _ d _ _ => d | RsSpread _ d => d | RsInline _ d _ => d end.
(* Field::response_key *)
Definition rs_key (x : rsel) : str :=
  match x with RsField (Some a) _ _ _ _ _ => a | RsField None n _ _ _ _ => n | _ => [] end.

Definition ex_skip : str := Eval vm_compute in str_of_string "skip".
Definition ex_include : str := Eval vm_compute in str_of_string "include".
Definition ex_if : str := Eval vm_compute in str_of_string "if".

Fixpoint ex_find_dir (n : str) (ds : list directive) : option directive :=
  match ds with
  | [] => None
  | d :: r => if streq (d_name d) n then Some d else ex_find_dir n r
  end.

Fixpoint ex_find_arg (n : str) (args : list argument) : option value :=
  match args with
  | [] => None
  | (k, v) :: r => if streq k n then Some v else ex_find_arg n r
  end.

(* eval_if_arg *)
Definition ex_eval_if (x : rsel) (dname : str) (vars : jmap) : option bool :=
  match ex_find_dir dname (rs_dirs x) with
  | None => None
  | Some d =>
      match ex_find_arg ex_if (d_args d) with
      | Some (VBool b) => Some b
      | Some (VVar v) =>
          match jmap_get v vars with Some (JBool b) => Some b | _ => None end
      | _ => None
      end
  end.

Definition ex_skipped (x : rsel) (vars : jmap) : bool :=
  match ex_eval_if x ex_skip vars with Some b => b | None => false end ||
  negb (match ex_eval_if x ex_include vars with Some b => b | None => true end).

(* does_fragment_type_apply(schema, object_type, fragment_type) *)
Definition ex_type_applies (s : schema) (otn : str) (oimpls : list str) (frag_ty : str) : bool :=
  match sch_get_type s frag_ty with
  | Some (EObject _ _ _ _ _ _) => streq frag_ty otn
  | Some (EInterface _ _ _ _ _ _) => existsb (streq frag_ty) oimpls
  | Some (EUnion _ _ _ members _) => existsb (fun m => streq (c_val m) otn) members
  | _ => false
  end.

Fixpoint ex_find_frag (n : str) (fs : list rfrag) : option rfrag :=
  match fs with
  | [] => None
  | f :: r => if streq (rfr_name f) n then Some f else ex_find_frag n r
  end.

(* grouped_fields: IndexMap<response key, Vec<&Field>>; a Vec is only created to be pushed to, so a group is
   its first field and the rest *)
Definition egroups := list (str * (rsel * list rsel)).

Fixpoint ex_group_push (k : str) (f : rsel) (g : egroups) : egroups :=
  match g with
  | [] => [(k, (f, []))]
  | (k', (f0, rest)) :: r =>
      if streq k k' then (k', (f0, rest ++ [f])) :: r else (k', (f0, rest)) :: ex_group_push k f r
  end.

(* collect_fields over one list of selections, with the recursion into fragments and inline fragments as a
   parameter; None = out of fuel *)
Fixpoint ex_collect_sels (rec : list rsel -> list str -> egroups -> option (list str * egroups))
                         (cx : ectx) (otn : str) (oimpls : list str) (l : list rsel)
                         (visited : list str) (groups : egroups) : option (list str * egroups) :=
  match l with
  | [] => Some (visited, groups)
  | x :: r =>
      if ex_skipped x (ex_vars cx) then ex_collect_sels rec cx otn oimpls r visited groups
      else
        match x with
        | RsField _ _ _ _ _ _ => ex_collect_sels rec cx otn oimpls r visited (ex_group_push (rs_key x) x groups)
        | RsSpread name _ =>
            if existsb (streq name) visited then ex_collect_sels rec cx otn oimpls r visited groups
            else
              let visited := name :: visited in
              match ex_find_frag name (ex_frags cx) with
              | None => ex_collect_sels rec cx otn oimpls r visited groups
              | Some fr =>
                  if ex_type_applies (ex_schema cx) otn oimpls (rfr_cond fr) then
                    match rec (rfr_sels fr) visited groups with
                    | None => None
                    | Some (visited, groups) => ex_collect_sels rec cx otn oimpls r visited groups
                    end
                  else ex_collect_sels rec cx otn oimpls r visited groups
              end
        | RsInline cond _ sub =>
            if match cond with
               | Some c => ex_type_applies (ex_schema cx) otn oimpls c
               | None => true
               end
            then
              match rec sub visited groups with
              | None => None
              | Some (visited, groups) => ex_collect_sels rec cx otn oimpls r visited groups
              end
            else ex_collect_sels rec cx otn oimpls r visited groups
        end
  end.

Fixpoint ex_collect (fuel : nat) (cx : ectx) (otn : str) (oimpls : list str) (sels : list rsel)
                    (visited : list str) (groups : egroups) : option (list str * egroups) :=
  match fuel with
  | O => None
  | S fuel => ex_collect_sels (ex_collect fuel cx otn oimpls) cx otn oimpls sels visited groups
  end.

(* ---------------------------------------------------------------- argument coercion *)
Inductive ac_res (A : Type) := AcOk (a : A) | AcErr (c : exclass) | AcFuel.
Arguments AcOk {A}. Arguments AcErr {A}. Arguments AcFuel {A}.

Definition ac_bind {A B} (x : ac_res A) (f : A -> ac_res B) : ac_res B :=
  match x with AcOk a => f a | AcErr c => AcErr c | AcFuel => AcFuel end.

Fixpoint ac_map_m {A B} (f : A -> ac_res B) (l : list A) : ac_res (list B) :=
  match l with
  | [] => AcOk []
  | x :: r => ac_bind (f x) (fun y => ac_bind (ac_map_m f r) (fun ys => AcOk (y :: ys)))
  end.

(* graphql_value_to_json(...).map_err(|err| push err.into_field_error) *)
Definition ex_lit (v : value) : ac_res json :=
  match cv_lit_to_json v with
  | CvOk j => AcOk j
  | CvErr CvValueError => AcErr EcArg
  | CvErr CvValidationBug => AcErr EcBug
  | CvOutOfFuel => AcFuel
  end.

Definition ex_value_is_null (v : value) : bool := match v with VNull => true | _ => false end.

(* argument_value_to_json: graphql_value_to_json for a value written in a field argument; variables, at any depth
   of a list or object literal, are replaced by their coerced value (null when there is none) *)
Fixpoint ex_arglit_json (vars : jmap) (v : value) : cv_res json :=
  match v with
  | VVar name => CvOk (match jmap_get name vars with Some x => x | None => JNull end)
  | VList l =>
      cv_bind ((fix go (l : list value) : cv_res (list json) :=
                  match l with
                  | [] => CvOk []
                  | x :: r => cv_bind (ex_arglit_json vars x) (fun y => cv_bind (go r) (fun ys => CvOk (y :: ys)))
                  end) l)
              (fun js => CvOk (JArr js))
  | VObject fs =>
      cv_bind ((fix go (l : list (str * value)) : cv_res (list (str * json)) :=
                  match l with
                  | [] => CvOk []
                  | (k, x) :: r =>
                      cv_bind (ex_arglit_json vars x) (fun y => cv_bind (go r) (fun ys => CvOk ((k, y) :: ys)))
                  end) fs)
              (fun kvs => CvOk (JObj (jmap_of_list kvs)))
  | _ => cv_lit_to_json v
  end.

(* argument_value_to_json(...).map_err(|err| push err.into_field_error) *)
Definition ex_arglit (vars : jmap) (v : value) : ac_res json :=
  match ex_arglit_json vars v with
  | CvOk j => AcOk j
  | CvErr CvValueError => AcErr EcArg
  | CvErr CvValidationBug => AcErr EcBug
  | CvOutOfFuel => AcFuel
  end.

(* `object.iter().collect::<HashMap<_,_>>().get(name)`: the last occurrence wins *)
Fixpoint ex_obj_get (n : str) (fs : list (str * value)) : option value :=
  match fs with
  | [] => None
  | (k, v) :: r =>
      match ex_obj_get n r with
      | Some v' => Some v'
      | None => if streq k n then Some v else None
      end
  end.

(* coerce_argument_value *)
Fixpoint ex_arg_value (fuel : nat) (s : schema) (vars : jmap) (t : ty) (v : value) : ac_res json :=
  match fuel with
  | O => AcFuel
  | S fuel =>
      if ex_value_is_null v then (if is_non_null t then AcErr EcArg else AcOk JNull)
      else
        match v with
        | VVar name =>
            match jmap_get name vars with
            | Some x => if json_is_null x && is_non_null t then AcErr EcArg else AcOk x
            | None => if is_non_null t then AcErr EcArg else AcOk JNull
            end
        | _ =>
            match t with
            | TList inner | TNonNullList inner =>
                let items := match v with VList l => l | _ => [v] end in
                ac_bind (ac_map_m (ex_arg_value fuel s vars inner) items) (fun l => AcOk (JArr l))
            | TNamed n | TNonNullNamed n =>
                match sch_get_type s n with
                | None => AcErr EcBug
                | Some (EInput _ _ _ fs _) =>
                    match v with
                    | VObject obj =>
                        let fs := cv_fields_of fs in
                        if existsb (fun kv => match cv_find_field (fst kv) fs with
                                              | Some _ => false | None => true end) obj
                        then AcErr EcArg
                        else
                          ac_bind
                            ((fix go (l : list inputvaldef) (acc : jmap) : ac_res jmap :=
                                match l with
                                | [] => AcOk acc
                                | f :: r =>
                                    match ex_obj_get (iv_name f) obj with
                                    | Some fv =>
                                        ac_bind (ex_arg_value fuel s vars (iv_ty f) fv)
                                                (fun x => go r (jmap_insert (iv_name f) x acc))
                                    | None =>
                                        match iv_default f with
                                        | Some d => ac_bind (ex_lit d) (fun x => go r (jmap_insert (iv_name f) x acc))
                                        | None => if is_non_null (iv_ty f) then AcErr EcArg else go r acc
                                        end
                                    end
                                end) fs [])
                            (fun o => AcOk (JObj o))
                    | _ => AcErr EcArg
                    end
                | Some _ => ex_arglit vars v
                end
            end
        end
  end.

(* coerce_argument_values: the loop over the argument definitions *)
Fixpoint ex_coerce_args_loop (cx : ectx) (defs : list inputvaldef) (args : list argument) (acc : jmap)
  : ac_res jmap :=
  match defs with
  | [] => AcOk acc
  | d :: r =>
      let use_default :=
        match iv_default d with
        | Some dv => ac_bind (ex_lit dv) (fun x => ex_coerce_args_loop cx r args (jmap_insert (iv_name d) x acc))
        | None => if is_non_null (iv_ty d) then AcErr EcArg else ex_coerce_args_loop cx r args acc
        end in
      match ex_find_arg (iv_name d) args with
      | Some (VVar vn) =>
          match jmap_get vn (ex_vars cx) with
          | Some x =>
              if json_is_null x && is_non_null (iv_ty d) then AcErr EcArg
              else ex_coerce_args_loop cx r args (jmap_insert (iv_name d) x acc)
          | None => use_default
          end
      | Some v =>
          if ex_value_is_null v && is_non_null (iv_ty d) then AcErr EcArg
          else ac_bind (ex_arg_value (ex_afuel cx) (ex_schema cx) (ex_vars cx) (iv_ty d) v)
                       (fun x => ex_coerce_args_loop cx r args (jmap_insert (iv_name d) x acc))
      | None => use_default
      end
  end.

Definition ex_coerce_args (cx : ectx) (fdef : fielddef) (f : rsel) : ac_res jmap :=
  ex_coerce_args_loop cx (fd_args fdef) (rs_args f) [].

(* ---------------------------------------------------------------- completion *)
(* try_nullify *)
Definition ex_try_nullify (t : ty) (r : xres (option json)) : xres (option json) :=
  match r with
  | XrNull => if is_non_null t then XrNull else XrOk (Some JNull)
  | _ => r
  end.

Definition ex_enum_has (vals : list (comp enumvaldef)) (x : str) : bool :=
  existsb (fun c => streq (ev_value (c_val c)) x) vals.

(* complete_leaf_value: None = accepted *)
Definition ex_leaf (n : str) (tdef : ext_type) (j : json) : option exclass :=
  match tdef with
  | EInput _ _ _ _ _ => Some EcBug       (* unreachable in the code: early return *)
  | EObject _ _ _ _ _ _ | EInterface _ _ _ _ _ _ | EUnion _ _ _ _ _ => Some EcKind
  | EEnum _ _ _ vals _ =>
      match j with JStr x => if ex_enum_has vals x then None else Some EcLeaf | _ => Some EcLeaf end
  | EScalar _ _ _ _ =>
      if streq n rn_Int then
        match json_as_i64 j with Some z => if j_fits_i32 z then None else Some EcLeaf | None => Some EcLeaf end
      else if streq n rn_Float then (if json_is_f64 j then None else Some EcLeaf)
      else if streq n rn_String then (if json_is_string j then None else Some EcLeaf)
      else if streq n rn_Boolean then (if json_is_boolean j then None else Some EcLeaf)
      else if streq n rn_ID then (if json_is_string j || json_is_i64 j then None else Some EcLeaf)
      else None
  end.

(* schema.get_object(name): (implements_interfaces) of an object type *)
Definition ex_get_object (s : schema) (n : str) : option (list str) :=
  match sch_get_type s n with
  | Some (EObject _ _ impls _ _ _) => Some (map c_val impls)
  | _ => None
  end.

(* which concrete object type the selection set of a resolved object runs on; inr = field error *)
Definition ex_object_type (s : schema) (n : str) (tdef : ext_type) (tname : str)
  : sum (str * list str) exclass :=
  match tdef with
  | EInput _ _ _ _ _ => inr EcBug
  | EEnum _ _ _ _ _ | EScalar _ _ _ _ => inr EcKind
  | EInterface _ _ _ _ _ _ =>
      match ex_get_object s tname with
      | None => inr EcType
      | Some impls => if existsb (streq n) impls then inl (tname, impls) else inr EcType
      end
  | EUnion _ _ _ members _ =>
      match ex_get_object s tname with
      | None => inr EcType
      | Some impls =>
          if existsb (fun m => streq (c_val m) tname) members then inl (tname, impls) else inr EcType
      end
  | EObject _ _ impls _ _ _ =>
      if streq tname n then inl (n, map c_val impls) else inr EcType
  end.

Definition ex_fail {A} (c : exclass) (rpath : list pseg) : em (xres A) :=
  ebind (epush (ex_err c rpath)) (fun _ => eret XrNull).

Definition ex_typename_s : str := td_typename.

(* the field loop of execute_selection_set: `for (&response_key, fields) in &grouped_field_set`, with the
   executor of one field as a parameter *)
Fixpoint ex_fields_loop (run_field : str -> fielddef -> rsel -> list rsel -> em (xres (option json)))
                        (s : schema) (otn : str) (gs : egroups) (acc : jmap) : em (xres jmap) :=
  match gs with
  | [] => eret (XrOk acc)
  | (key, (f0, rest)) :: gs' =>
      match td_type_field s otn (rs_name f0) with
      | None => ex_fields_loop run_field s otn gs' acc
      | Some fdef =>
          ebind (run_field key fdef f0 rest)
            (fun r =>
               match r with
               | XrOk (Some v) => ex_fields_loop run_field s otn gs' (jmap_insert key v acc)
               | XrOk None => ex_fields_loop run_field s otn gs' acc
               | XrNull => eret XrNull
               | XrFuel => eret XrFuel
               end)
      end
  end.

(* the item loop of complete_list_value: `while let Some((index, inner_result)) = stream.next().await`, with the
   completion of one item as a parameter *)
Fixpoint ex_items_loop (complete_item : N -> resolved -> em (xres (option json)))
                       (t inner : ty) (rpath : list pseg) (items : list resolved) (idx : N) (acc : list json)
  : em (xres (option json)) :=
  ebind enext (fun _ =>
    match items with
    | [] => eret (XrOk (Some (JArr (rev acc))))
    | it :: items' =>
        match it with
        | RvErr => ex_fail EcResolver (PsIdx idx :: rpath)
        | _ =>
            ebind (complete_item idx it)
              (fun res =>
                 match ex_try_nullify inner res with
                 | XrOk None => ex_items_loop complete_item t inner rpath items' (idx + 1) acc
                 | XrOk (Some v) => ex_items_loop complete_item t inner rpath items' (idx + 1) (v :: acc)
                 | XrNull => eret (ex_try_nullify t XrNull)
                 | XrFuel => eret XrFuel
                 end)
        end
    end).

(* ---------------------------------------------------------------- the executor *)
Fixpoint ex_selset (fuel : nat) (cx : ectx) (rpath : list pseg) (otn : str) (oimpls : list str) (oid : N)
                   (sels : list rsel) {struct fuel} : em (xres jmap) :=
  match fuel with
  | O => eret XrFuel
  | S fuel =>
      match ex_collect (ex_cfuel cx) cx otn oimpls sels [] [] with
      | None => eret XrFuel
      | Some (_, groups) =>
          ex_fields_loop (fun key fdef f0 rest => ex_field fuel cx (PsKey key :: rpath) otn oimpls oid fdef f0 rest)
                         (ex_schema cx) otn groups []
      end
  end

with ex_field (fuel : nat) (cx : ectx) (rpath : list pseg) (otn : str) (oimpls : list str) (oid : N)
              (fdef : fielddef) (f0 : rsel) (rest : list rsel) {struct fuel} : em (xres (option json)) :=
  match fuel with
  | O => eret XrFuel
  | S fuel =>
      match ex_coerce_args cx fdef f0 with
      | AcFuel => eret XrFuel
      | AcErr c =>
          ebind (epush (ex_err c rpath))
                (fun _ => eret (if is_non_null (fd_ty fdef) then XrNull else XrOk (Some JNull)))
      | AcOk args =>
          let name := rs_name f0 in
          (* complete_value(ctx, path, mode, &field_def.ty, resolved, fields): the type of the field on the concrete
             object type (before the repair: field.ty() = rs_dty f0, the type on the selection set's parent type) *)
          let complete (r : resolved) := ex_complete fuel cx rpath (fd_ty fdef) r f0 rest in
          ebind
            (if streq name td_typename then complete (RvLeaf (JStr otn))
             else if (streq name td_schema || streq name td_type) && td_is_query_root (ex_schema cx) otn
             then ex_fail EcIntro rpath
             else ebind (ecall_m {| ec_obj := oid; ec_field := name; ec_args := args |})
                        (fun r => match r with
                                  | RvErr => ex_fail EcResolver rpath
                                  | _ => complete r
                                  end))
            (fun completed => eret (ex_try_nullify (fd_ty fdef) completed))
      end
  end

with ex_complete (fuel : nat) (cx : ectx) (rpath : list pseg) (t : ty) (r : resolved)
                 (f0 : rsel) (rest : list rsel) {struct fuel} : em (xres (option json)) :=
  match fuel with
  | O => eret XrFuel
  | S fuel =>
      match r with
      | RvSkip => eret (XrOk None)
      | RvErr => ex_fail EcResolver rpath       (* not reached: Err is handled by the callers *)
      | RvLeaf JNull => if is_non_null t then ex_fail EcNull rpath else eret (XrOk (Some JNull))
      | RvList items => ex_list fuel cx rpath t f0 rest items
      | RvLeaf _ | RvObject _ _ =>
          match t with
          | TList _ | TNonNullList _ => ex_fail EcKind rpath
          | TNamed n | TNonNullNamed n =>
              match sch_get_type (ex_schema cx) n with
              | None => ex_fail EcBug rpath
              | Some (EInput _ _ _ _ _) => ex_fail EcBug rpath
              | Some tdef =>
                  match r with
                  | RvLeaf j =>
                      match ex_leaf n tdef j with
                      | Some c => ex_fail c rpath
                      | None => eret (XrOk (Some j))
                      end
                  | RvObject id tname =>
                      match ex_object_type (ex_schema cx) n tdef tname with
                      | inr c => ex_fail c rpath
                      | inl (otn, oimpls) =>
                          ebind (ex_selset fuel cx rpath otn oimpls id (flat_map rs_sels (f0 :: rest)))
                                (fun m => eret (match m with
                                                | XrOk o => XrOk (Some (JObj o))
                                                | XrNull => XrNull
                                                | XrFuel => XrFuel
                                                end))
                      end
                  | _ => eret XrFuel             (* not reached *)
                  end
              end
          end
      end
  end

with ex_list (fuel : nat) (cx : ectx) (rpath : list pseg) (t : ty) (f0 : rsel) (rest : list rsel)
             (items : list resolved) {struct fuel} : em (xres (option json)) :=
  match fuel with
  | O => eret XrFuel
  | S fuel =>
      match t with
      | TNamed _ | TNonNullNamed _ => ex_fail EcKind rpath
      | TList inner | TNonNullList inner =>
          ex_items_loop (fun idx it => ex_complete fuel cx (PsIdx idx :: rpath) inner it f0 rest)
                        t inner rpath items 0 []
      end
  end.
