(* C26: every field error carries the path of its position: following the error's path in the response data leads to
   a null — at the error's own position, or at an enclosing position (the nearest nullable ancestor) to which the
   null propagated.  For resolver worlds without SkipForPartialExecution (a skipped list item shifts the indices
   of the response list against the indices of the resolved list). *)
From Coq Require Import ZArith Lia.
From ApolloVerif Require Import Base.Chars Ast.Ast Schema.Model Run.Json Run.JsonLemmas Run.Coerce Run.TypedDoc
  Run.Prog Run.Execute Run.ExecProofs.
Local Open Scope list_scope.

(* following the path from v: some value on the way is null *)
Fixpoint null_along (v : json) (suf : list pseg) : Prop :=
  v = JNull \/
  match suf with
  | [] => False
  | PsKey k :: r => exists m x, v = JObj m /\ jmap_get k m = Some x /\ null_along x r
  | PsIdx i :: r => exists items x, v = JArr items /\ nth_error items (N.to_nat i) = Some x /\ null_along x r
  end.

Lemma null_along_null suf : null_along JNull suf.
Proof. destruct suf; now left. Qed.

Fixpoint resolved_skipfree (r : resolved) : bool :=
  match r with
  | RvSkip => false
  | RvList items => (fix all (l : list resolved) : bool :=
                       match l with [] => true | x :: r => resolved_skipfree x && all r end) items
  | _ => true
  end.

Fixpoint behav_skipfree (b : behav) : bool :=
  match b with
  | BhSkip => false
  | BhList items => (fix all (l : list behav) : bool :=
                       match l with [] => true | x :: r => behav_skipfree x && all r end) items
  | _ => true
  end.

Definition world_skipfree (w : world) : bool := forallb (fun e => behav_skipfree (snd e)) w.

Lemma resolved_skipfree_list items :
  resolved_skipfree (RvList items) = forallb resolved_skipfree items.
Proof. cbn [resolved_skipfree]. induction items as [|x r IH]; [reflexivity|]. cbn [forallb]. now rewrite IH. Qed.

Lemma behav_resolved_skipfree args b : behav_skipfree b = true -> resolved_skipfree (behav_resolved args b) = true.
Proof.
  revert b. fix IH 1. intros b H. destruct b as [j|id t|items| | |]; cbn [behav_resolved]; try reflexivity; try discriminate.
  rewrite resolved_skipfree_list. cbn [behav_skipfree] in H.
  induction items as [|x r IHr]; [reflexivity|]. apply andb_true_iff in H. destruct H as [H1 H2].
  cbn [forallb]. rewrite (IH x H1). cbn [andb]. apply IHr. exact H2.
Qed.

Lemma world_resolve_skipfree w c : world_skipfree w = true -> resolved_skipfree (world_resolve w c) = true.
Proof.
  intros H. unfold world_resolve. apply behav_resolved_skipfree.
  induction w as [|[[o f] b] r IH]; cbn [world_lookup]; [reflexivity|].
  cbn [world_skipfree forallb snd] in H. apply andb_true_iff in H. destruct H as [H1 H2].
  destruct ((o =? ec_obj c)%N && streq f (ec_field c)); [assumption|now apply IH].
Qed.

(* the new errors, each with a path that extends the position and a suffix satisfying C *)
Definition epaths (rpath : list pseg) (st st' : list gerr) (C : list pseg -> Prop) : Prop :=
  exists new, st' = new ++ st /\ Forall (fun e => exists suf, ge_path e = rev rpath ++ suf /\ C suf) new.

Lemma epaths_refl rpath st C : epaths rpath st st C.
Proof. exists []. split; [reflexivity|constructor]. Qed.

Lemma epaths_mono rpath st st' (C C' : list pseg -> Prop) :
  (forall suf, C suf -> C' suf) -> epaths rpath st st' C -> epaths rpath st st' C'.
Proof.
  intros H (new & -> & F). exists new. split; [reflexivity|].
  eapply Forall_impl; [|exact F]. intros e (suf & E & Hc). exists suf. auto.
Qed.

Lemma epaths_trans rpath st st1 st2 C :
  epaths rpath st st1 C -> epaths rpath st1 st2 C -> epaths rpath st st2 C.
Proof.
  intros (n1 & -> & F1) (n2 & -> & F2). exists (n2 ++ n1). split; [now rewrite app_assoc|].
  apply Forall_app. now split.
Qed.

Lemma epaths_one rpath st c (C : list pseg -> Prop) : C [] -> epaths rpath st (ex_err c rpath :: st) C.
Proof.
  intros H. exists [ex_err c rpath]. split; [reflexivity|]. constructor; [|constructor].
  exists []. cbn. now rewrite app_nil_r.
Qed.

Lemma epaths_deeper seg rpath st st' C :
  epaths (seg :: rpath) st st' C ->
  epaths rpath st st' (fun suf => exists suf', suf = seg :: suf' /\ C suf').
Proof.
  intros (new & -> & F). exists new. split; [reflexivity|].
  eapply Forall_impl; [|exact F]. intros e (suf & E & Hc). exists (seg :: suf). split.
  - rewrite E. cbn [rev]. now rewrite <- app_assoc.
  - now exists suf.
Qed.

Section Paths.
Variable w : world.
Variable cx : ectx.
Hypothesis Hw : world_skipfree w = true.
Let s := ex_schema cx.

(* C for a result that is a value, if it is one *)
Definition cval (res : xres (option json)) : list pseg -> Prop :=
  fun suf => forall v, res = XrOk (Some v) -> null_along v suf.
Definition cobj (res : xres jmap) : list pseg -> Prop :=
  fun suf => forall m, res = XrOk m -> null_along (JObj m) suf.

Definition Q_complete (fuel : nat) : Prop :=
  forall rpath t r f0 rest st log res st' log',
    resolved_skipfree r = true ->
    run_sync w (ex_complete fuel cx rpath t r f0 rest st) log = (res, st', log') ->
    res <> XrOk None /\ epaths rpath st st' (cval res).

Definition Q_list (fuel : nat) : Prop :=
  forall rpath t f0 rest items st log res st' log',
    forallb resolved_skipfree items = true ->
    run_sync w (ex_list fuel cx rpath t f0 rest items st) log = (res, st', log') ->
    res <> XrOk None /\ epaths rpath st st' (cval res).

Definition Q_field (fuel : nat) : Prop :=
  forall rpath otn oimpls oid fdef f0 rest st log res st' log',
    run_sync w (ex_field fuel cx rpath otn oimpls oid fdef f0 rest st) log = (res, st', log') ->
    res <> XrOk None /\ epaths rpath st st' (cval res).

Definition Q_selset (fuel : nat) : Prop :=
  forall rpath otn oimpls oid sels st log res st' log',
    run_sync w (ex_selset fuel cx rpath otn oimpls oid sels st) log = (res, st', log') ->
    epaths rpath st st' (cobj res).

Lemma jmap_get_app_l k (a b : jmap) x : jmap_get k a = Some x -> jmap_get k (a ++ b) = Some x.
Proof.
  induction a as [|[k' v'] r IH]; cbn [jmap_get app]; [discriminate|].
  destruct (streq k k'); [auto|]. apply IH.
Qed.

Lemma jmap_get_app_r k (a b : jmap) : ~ In k (jmap_keys a) -> jmap_get k (a ++ b) = jmap_get k b.
Proof.
  induction a as [|[k' v'] r IH]; cbn [jmap_get app jmap_keys map fst]; [reflexivity|]. intros H.
  destruct (streq k k') eqn:E.
  - apply streq_eq in E. exfalso. apply H. now left.
  - apply IH. intros Hin. apply H. now right.
Qed.

Lemma fields_loop_paths run_field rpath otn :
  (forall key fdef f0 rest st log res st' log',
     run_sync w (run_field key fdef f0 rest st) log = (res, st', log') ->
     res <> XrOk None /\ epaths (PsKey key :: rpath) st st' (cval res)) ->
  forall gs acc st log res st' log',
    NoDup (map fst gs) -> (forall k, In k (map fst gs) -> ~ In k (jmap_keys acc)) ->
    run_sync w (ex_fields_loop run_field s otn gs acc st) log = (res, st', log') ->
    (forall m, res = XrOk m -> exists m', m = acc ++ m') /\
    epaths rpath st st' (fun suf => forall m m', res = XrOk m -> m = acc ++ m' -> null_along (JObj m) suf).
Proof.
  intros Hf. induction gs as [|[key [f0 rest]] gs IH]; intros acc st log res st' log' Hnd Hdis H;
    cbn [ex_fields_loop] in H.
  - rewrite rs_ret in H. injection H as <- <- <-. split; [|apply epaths_refl].
    intros m [= <-]. exists []. now rewrite app_nil_r.
  - cbn [map fst] in Hnd, Hdis. inversion Hnd as [|? ? Hk Hnd']; subst.
    destruct (td_type_field s otn (rs_name f0)) as [fdef|] eqn:Etf.
    + rewrite rs_bind in H.
      destruct (run_sync w (run_field key fdef f0 rest st) log) as [[r st1] log1] eqn:E1.
      destruct (Hf _ _ _ _ _ _ _ _ _ E1) as [Hns He1]. apply epaths_deeper in He1.
      destruct r as [[v|]| |]; [| contradiction | |].
      * assert (Hins : jmap_insert key v acc = acc ++ [(key, v)]).
        { assert (Hn : ~ In key (jmap_keys acc)) by (apply Hdis; now left). clear - Hn.
          induction acc as [|[k' v'] r IH]; cbn [jmap_insert app]; [reflexivity|].
          cbn [jmap_keys map fst] in Hn. destruct (streq key k') eqn:E.
          - apply streq_eq in E. exfalso. apply Hn. now left.
          - rewrite IH; [reflexivity|]. intros H. apply Hn. now right. }
        rewrite Hins in H.
        destruct (IH (acc ++ [(key, v)]) st1 log1 res st' log' Hnd') as [Hm2 He2]; [|exact H|].
        { intros k Hk' Hin. unfold jmap_keys in Hin. rewrite map_app, in_app_iff in Hin. cbn in Hin.
          destruct Hin as [Hin|[<-|[]]]; [apply (Hdis k); [now right|assumption]|contradiction]. }
        split.
        { intros m Hm. destruct (Hm2 m Hm) as [m' ->]. exists ((key, v) :: m'). now rewrite <- app_assoc. }
        eapply epaths_trans.
        -- eapply epaths_mono; [|exact He1]. intros suf (suf' & -> & Hc) m m' Hm Em.
           right. destruct (Hm2 m Hm) as [m2 Em2]. exists m, v. split; [reflexivity|]. split.
           ++ rewrite Em2, <- app_assoc. rewrite jmap_get_app_r by (apply Hdis; now left).
              cbn [app jmap_get]. now rewrite streq_refl.
           ++ apply Hc. reflexivity.
        -- eapply epaths_mono; [|exact He2]. intros suf Hc m m' Hm Em.
           destruct (Hm2 m Hm) as [m2 Em2]. apply (Hc m m2 Hm Em2).
      * rewrite rs_ret in H. injection H as <- <- <-. split; [discriminate|].
        eapply epaths_mono; [|exact He1]. intros suf _ m m' Hm. discriminate.
      * rewrite rs_ret in H. injection H as <- <- <-. split; [discriminate|].
        eapply epaths_mono; [|exact He1]. intros suf _ m m' Hm. discriminate.
    + destruct (IH acc st log res st' log' Hnd') as [Hm2 He2]; [|exact H|].
      { intros k Hk'. apply Hdis. now right. }
      split; assumption.
Qed.

Lemma nth_error_rev_last {A} (acc : list A) (v : A) (more : list A) :
  nth_error (rev acc ++ v :: more) (length acc) = Some v.
Proof.
  rewrite nth_error_app2 by (rewrite rev_length; lia). rewrite rev_length, Nat.sub_diag. reflexivity.
Qed.

Lemma items_loop_paths complete_item t inner rpath :
  (forall idx it st log res st' log',
     resolved_skipfree it = true ->
     run_sync w (complete_item idx it st) log = (res, st', log') ->
     res <> XrOk None /\ epaths (PsIdx idx :: rpath) st st' (cval res)) ->
  forall items idx acc st log res st' log',
    forallb resolved_skipfree items = true -> idx = N.of_nat (length acc) ->
    run_sync w (ex_items_loop complete_item t inner rpath items idx acc st) log = (res, st', log') ->
    res <> XrOk None /\
    (forall v, res = XrOk (Some v) -> v = JNull \/ exists more, v = JArr (rev acc ++ more)) /\
    epaths rpath st st'
      (fun suf => forall v more, res = XrOk (Some v) -> v = JArr (rev acc ++ more) -> null_along v suf).
Proof.
  intros Hc. induction items as [|it items IH]; intros idx acc st log res st' log' Hsk Hidx H;
    cbn [ex_items_loop] in H; rewrite rs_bind, rs_next in H.
  - rewrite rs_ret in H. injection H as <- <- <-. split; [discriminate|]. split; [|apply epaths_refl].
    intros v [= <-]. right. exists []. now rewrite app_nil_r.
  - cbn [forallb] in Hsk. apply andb_true_iff in Hsk. destruct Hsk as [Hit Hsk].
    assert (Hgo : forall st0 log0,
              run_sync w (ebind (complete_item idx it)
                 (fun res0 => match ex_try_nullify inner res0 with
                              | XrOk None => ex_items_loop complete_item t inner rpath items (idx + 1) acc
                              | XrOk (Some v) => ex_items_loop complete_item t inner rpath items (idx + 1) (v :: acc)
                              | XrNull => eret (ex_try_nullify t XrNull)
                              | XrFuel => eret XrFuel
                              end) st0) log0 = (res, st', log') ->
              res <> XrOk None /\
              (forall v, res = XrOk (Some v) -> v = JNull \/ exists more, v = JArr (rev acc ++ more)) /\
              epaths rpath st0 st'
                (fun suf => forall v more, res = XrOk (Some v) -> v = JArr (rev acc ++ more) -> null_along v suf)).
    { intros st0 log0 H0. rewrite rs_bind in H0.
      destruct (run_sync w (complete_item idx it st0) log0) as [[r st1] log1] eqn:E1.
      destruct (Hc _ _ _ _ _ _ _ Hit E1) as [Hns He1]. apply epaths_deeper in He1.
      assert (Hpush : forall x, r = XrOk (Some x) \/ (r = XrNull /\ x = JNull) ->
                run_sync w (ex_items_loop complete_item t inner rpath items (idx + 1) (x :: acc) st1) log1 = (res, st', log') ->
                res <> XrOk None /\
                (forall v, res = XrOk (Some v) -> v = JNull \/ exists more, v = JArr (rev acc ++ more)) /\
                epaths rpath st0 st'
                  (fun suf => forall v more, res = XrOk (Some v) -> v = JArr (rev acc ++ more) -> null_along v suf)).
      { intros x Hx H1.
        destruct (IH (idx + 1)%N (x :: acc) st1 log1 res st' log' Hsk) as (Hn2 & Hv2 & He2); [|exact H1|].
        { cbn [length]. lia. }
        split; [assumption|]. split.
        - intros v Hv. destruct (Hv2 v Hv) as [->|[more ->]]; [now left|]. right. exists (x :: more).
          cbn [rev]. now rewrite <- app_assoc.
        - eapply epaths_trans.
          + eapply epaths_mono; [|exact He1]. intros suf (suf' & -> & Hcv) v more Hv Ev. right.
            destruct (Hv2 v Hv) as [->|[more2 Ev2]]; [discriminate|].
            exists (rev (x :: acc) ++ more2), x. split; [assumption|]. split.
            * cbn [rev]. rewrite <- app_assoc. cbn [app]. subst idx. rewrite Nat2N.id. apply nth_error_rev_last.
            * destruct Hx as [->|[-> ->]]; [now apply Hcv|apply null_along_null].
          + eapply epaths_mono; [|exact He2]. intros suf Hcv v more Hv Ev.
            destruct (Hv2 v Hv) as [->|[more2 Ev2]]; [apply null_along_null|]. now apply (Hcv v more2). }
      destruct r as [[v|]| |]; cbn [ex_try_nullify] in H0; [| contradiction | |].
      - apply (Hpush v); [now left|exact H0].
      - destruct (is_non_null inner) eqn:Ei.
        + rewrite rs_ret in H0. injection H0 as <- <- <-. unfold ex_try_nullify.
          destruct (is_non_null t) eqn:Et.
          * split; [discriminate|]. split; [discriminate|].
            eapply epaths_mono; [|exact He1]. intros suf _ v more Hv. discriminate.
          * split; [discriminate|]. split; [intros v [= <-]; now left|].
            eapply epaths_mono; [|exact He1]. intros suf _ v more [= <-]. discriminate.
        + apply (Hpush JNull); [right; now split|exact H0].
      - rewrite rs_ret in H0. injection H0 as <- <- <-. split; [discriminate|]. split; [discriminate|].
        eapply epaths_mono; [|exact He1]. intros suf _ v more Hv. discriminate. }
    destruct it; try (apply (Hgo st log H)).
    rewrite rs_fail in H. injection H as <- <- <-. split; [discriminate|]. split; [discriminate|].
    exists [ex_err EcResolver (PsIdx idx :: rpath)]. split; [reflexivity|]. constructor; [|constructor].
    exists [PsIdx idx]. split; [reflexivity|]. intros v more Hv. discriminate.
Qed.

Lemma q_step fuel :
  Q_selset fuel /\ Q_field fuel /\ Q_complete fuel /\ Q_list fuel ->
  Q_selset (S fuel) /\ Q_field (S fuel) /\ Q_complete (S fuel) /\ Q_list (S fuel).
Proof.
  intros (IHs & IHf & IHc & IHl). split; [|split; [|split]].
  - (* execute_selection_set *)
    intros rpath otn oimpls oid sels st log res st' log' H. cbn [ex_selset] in H.
    destruct (ex_collect (ex_cfuel cx) cx otn oimpls sels [] []) as [[visited groups]|] eqn:Ec.
    + destruct (fields_loop_paths _ rpath otn
                  (fun key fdef f0 rest st log res st' log' => IHf (PsKey key :: rpath) otn oimpls oid fdef f0 rest st log res st' log')
                  groups [] st log res st' log') as [Hm He]; [| |exact H|].
      * eapply collect_nodup; [exact Ec|constructor].
      * intros k _ [].
      * eapply epaths_mono; [|exact He]. intros suf Hc m Hm'. apply (Hc m m Hm' eq_refl).
    + rewrite rs_ret in H. injection H as <- <- <-. apply epaths_refl.
  - (* execute_field *)
    intros rpath otn oimpls oid fdef f0 rest st log res st' log' H. cbn [ex_field] in H.
    destruct (ex_coerce_args cx fdef f0) as [args|c|].
    + match type of H with
      | run_sync w (ebind ?m ?f st) log = _ =>
          assert (Hm : forall r st1 log1, run_sync w (m st) log = (r, st1, log1) ->
                    r <> XrOk None /\ epaths rpath st st1 (cval r))
      end.
      { intros r st1 log1 E. destruct (streq (rs_name f0) td_typename).
        - apply (IHc _ _ (RvLeaf (JStr otn)) _ _ _ _ _ _ _ eq_refl E).
        - destruct ((streq (rs_name f0) td_schema || streq (rs_name f0) td_type) && td_is_query_root (ex_schema cx) otn).
          + rewrite rs_fail in E. injection E as <- <- <-. split; [discriminate|].
            apply epaths_one. intros v Hv. discriminate.
          + rewrite rs_bind, rs_call in E.
            pose proof (world_resolve_skipfree w {| ec_obj := oid; ec_field := rs_name f0; ec_args := args |} Hw) as Hsk.
            destruct (world_resolve w {| ec_obj := oid; ec_field := rs_name f0; ec_args := args |}) eqn:Er;
              try (apply (IHc _ _ _ _ _ _ _ _ _ _ Hsk E)).
            rewrite rs_fail in E. injection E as <- <- <-. split; [discriminate|].
            apply epaths_one. intros v Hv. discriminate. }
      rewrite rs_bind in H.
      match type of H with
      | context [run_sync w (?x st) log] =>
          destruct (run_sync w (x st) log) as [[r st1] log1] eqn:E1; destruct (Hm _ _ _ eq_refl) as [Hn1 He1]
      end.
      rewrite rs_ret in H. injection H as <- <- <-. unfold ex_try_nullify.
      destruct r as [[v|]| |]; [| contradiction | |].
      * split; [discriminate|assumption].
      * destruct (is_non_null (fd_ty fdef)).
        -- split; [discriminate|assumption].
        -- split; [discriminate|]. eapply epaths_mono; [|exact He1]. intros suf _ v [= <-]. apply null_along_null.
      * split; [discriminate|assumption].
    + rewrite rs_bind, rs_push, rs_ret in H. injection H as <- <- <-.
      destruct (is_non_null (fd_ty fdef)); (split; [discriminate|]); apply epaths_one.
      * intros v Hv. discriminate.
      * intros v [= <-]. now left.
    + rewrite rs_ret in H. injection H as <- <- <-. split; [discriminate|apply epaths_refl].
  - (* complete_value *)
    intros rpath t r f0 rest st log res st' log' Hsk H. cbn [ex_complete] in H.
    assert (Hfail : forall c, run_sync w (@ex_fail (option json) c rpath st) log = (res, st', log') ->
              res <> XrOk None /\ epaths rpath st st' (cval res)).
    { intros c E. rewrite rs_fail in E. injection E as <- <- <-. split; [discriminate|].
      apply epaths_one. intros v Hv. discriminate. }
    assert (Hcase : forall n (r0 : resolved), r0 = r -> (forall l, r0 <> RvList l) -> r0 <> RvErr -> r0 <> RvSkip ->
                run_sync w
                  (match sch_get_type (ex_schema cx) n with
                   | None => ex_fail EcBug rpath
                   | Some (EInput _ _ _ _ _) => ex_fail EcBug rpath
                   | Some tdef =>
                       match r0 with
                       | RvLeaf j => match ex_leaf n tdef j with
                                     | Some c => ex_fail c rpath
                                     | None => eret (XrOk (Some j))
                                     end
                       | RvObject id tname =>
                           match ex_object_type (ex_schema cx) n tdef tname with
                           | inr c => ex_fail c rpath
                           | inl (otn, oimpls) =>
                               ebind (ex_selset fuel cx rpath otn oimpls id (flat_map rs_sels (f0 :: rest)))
                                     (fun m => eret (match m with
                                                     | XrOk o => XrOk (Some (JObj o))
                                                     | XrNull => XrNull
                                                     | XrFuel => XrFuel
                                                     end))
                           end
                       | _ => eret XrFuel
                       end
                   end st) log = (res, st', log') ->
                res <> XrOk None /\ epaths rpath st st' (cval res)).
    { intros n r0 _ Hnl Hne Hns E'.
      destruct (sch_get_type (ex_schema cx) n) as [tdef|] eqn:Eg; [|apply (Hfail _ E')].
      assert (Hgen : run_sync w
                (match r0 with
                 | RvLeaf j => match ex_leaf n tdef j with
                               | Some c => ex_fail c rpath
                               | None => eret (XrOk (Some j))
                               end
                 | RvObject id tname =>
                     match ex_object_type (ex_schema cx) n tdef tname with
                     | inr c => ex_fail c rpath
                     | inl (otn, oimpls) =>
                         ebind (ex_selset fuel cx rpath otn oimpls id (flat_map rs_sels (f0 :: rest)))
                               (fun m => eret (match m with
                                               | XrOk o => XrOk (Some (JObj o))
                                               | XrNull => XrNull
                                               | XrFuel => XrFuel
                                               end))
                     end
                 | _ => eret XrFuel
                 end st) log = (res, st', log') ->
              res <> XrOk None /\ epaths rpath st st' (cval res)).
      { intros E2. destruct r0 as [j|id tname|l| |].
        - destruct (ex_leaf n tdef j) as [c|] eqn:El; [apply (Hfail _ E2)|].
          rewrite rs_ret in E2. injection E2 as <- <- <-. split; [discriminate|apply epaths_refl].
        - destruct (ex_object_type (ex_schema cx) n tdef tname) as [[otn oimpls]|c] eqn:Eo; [|apply (Hfail _ E2)].
          rewrite rs_bind in E2.
          destruct (run_sync w (ex_selset fuel cx rpath otn oimpls id (flat_map rs_sels (f0 :: rest)) st) log)
            as [[m st1] log1] eqn:E3.
          pose proof (IHs _ _ _ _ _ _ _ _ _ _ E3) as He. rewrite rs_ret in E2. injection E2 as <- <- <-.
          split; [destruct m; discriminate|].
          eapply epaths_mono; [|exact He]. intros suf Hc v Hv. destruct m as [o| |]; try discriminate.
          injection Hv as <-. now apply Hc.
        - exfalso. now apply (Hnl l).
        - contradiction.
        - contradiction. }
      destruct tdef; try (apply (Hgen E')). apply (Hfail _ E'). }
    destruct r as [j|id tname|items| |].
    + destruct j;
        try (destruct t as [n|n|i|i];
             [apply (Hcase n _ eq_refl); [discriminate|discriminate|discriminate|exact H]
             |apply (Hcase n _ eq_refl); [discriminate|discriminate|discriminate|exact H]
             |apply (Hfail _ H)|apply (Hfail _ H)]).
      destruct (is_non_null t) eqn:En; [apply (Hfail _ H)|].
      rewrite rs_ret in H. injection H as <- <- <-. split; [discriminate|apply epaths_refl].
    + destruct t as [n|n|i|i];
        [apply (Hcase n _ eq_refl); [discriminate|discriminate|discriminate|exact H]
        |apply (Hcase n _ eq_refl); [discriminate|discriminate|discriminate|exact H]
        |apply (Hfail _ H)|apply (Hfail _ H)].
    + rewrite resolved_skipfree_list in Hsk. apply (IHl _ _ _ _ _ _ _ _ _ _ Hsk H).
    + apply (Hfail _ H).
    + discriminate.
  - (* complete_list_value *)
    intros rpath t f0 rest items st log res st' log' Hsk H. cbn [ex_list] in H.
    assert (Hfail : forall c, run_sync w (@ex_fail (option json) c rpath st) log = (res, st', log') ->
              res <> XrOk None /\ epaths rpath st st' (cval res)).
    { intros c E. rewrite rs_fail in E. injection E as <- <- <-. split; [discriminate|].
      apply epaths_one. intros v Hv. discriminate. }
    assert (Hloop : forall inner,
              run_sync w (ex_items_loop (fun idx it => ex_complete fuel cx (PsIdx idx :: rpath) inner it f0 rest)
                            t inner rpath items 0 [] st) log = (res, st', log') ->
              res <> XrOk None /\ epaths rpath st st' (cval res)).
    { intros inner E.
      destruct (items_loop_paths (fun idx it => ex_complete fuel cx (PsIdx idx :: rpath) inner it f0 rest) t inner rpath
                  (fun idx it st0 log0 res0 st0' log0' Hit E0 => IHc _ _ _ _ _ _ _ _ _ _ Hit E0)
                  items 0%N [] st log res st' log' Hsk eq_refl E) as (Hn & Hv & He).
      split; [assumption|]. eapply epaths_mono; [|exact He]. intros suf Hc v Hres.
      destruct (Hv v Hres) as [->|[more Ev]]; [apply null_along_null|]. now apply (Hc v more). }
    destruct t as [n|n|inner|inner]; [apply (Hfail _ H)|apply (Hfail _ H)|apply (Hloop _ H)|apply (Hloop _ H)].
Qed.

Lemma q_zero : Q_selset 0 /\ Q_field 0 /\ Q_complete 0 /\ Q_list 0.
Proof.
  split; [|split; [|split]].
  - intros rpath otn oimpls oid sels st log res st' log' H. cbn in H. injection H as <- <- <-. apply epaths_refl.
  - intros rpath otn oimpls oid fdef f0 rest st log res st' log' H. cbn in H. injection H as <- <- <-.
    split; [discriminate|apply epaths_refl].
  - intros rpath t r f0 rest st log res st' log' _ H. cbn in H. injection H as <- <- <-.
    split; [discriminate|apply epaths_refl].
  - intros rpath t f0 rest items st log res st' log' _ H. cbn in H. injection H as <- <- <-.
    split; [discriminate|apply epaths_refl].
Qed.

Lemma q_all fuel : Q_selset fuel /\ Q_field fuel /\ Q_complete fuel /\ Q_list fuel.
Proof. induction fuel as [|fuel IH]; [apply q_zero|now apply q_step]. Qed.

End Paths.
