(* C26, second part: the simulation.  For any fuels, if neither side runs out of fuel, the executor model (one pass,
   early exit, error list threaded through) and the reference executor (result tree, then null propagation) agree at
   every level: execute_selection_set / rfp_fields o rf_selset, execute_field / rf_prop o rf_field,
   complete_value / rf_prop o rf_complete, complete_list_value likewise.  The new errors of the model (newest first)
   are the reference's errors (document order) reversed. *)
From Coq Require Import ZArith Lia List.
From ApolloVerif Require Import Base.Chars Ast.Ast Schema.Model Run.Json Run.JsonLemmas Run.Coerce Run.CoerceProofs
  Run.TypedDoc Run.Prog Run.Execute Run.ExecTop Run.RefExecute Run.ExecProofs Run.ExecRefDefs
  Run.ExecRefInv Run.ExecRefFuel Run.ExecRefCollect Run.ExecRefTyping Run.ExecRefProp.
Import ListNotations.
Local Open Scope nat_scope.
Local Open Scope list_scope.

Ltac revnorm :=
  cbn [fst snd]; repeat rewrite rev_app_distr; cbn [rev app]; repeat rewrite <- app_assoc; cbn [app]; try reflexivity.

Definition xr_opt {A} (r : xres A) : option A := match r with XrOk a => Some a | _ => None end.

Lemma xr_opt_nullify t (r : xres (option json)) : r = XrNull -> xr_opt (ex_try_nullify t r) = rf_null_at t.
Proof. intros ->. unfold ex_try_nullify, rf_null_at. destruct (is_non_null t); reflexivity. Qed.

Lemma nullify_idem t r : ex_try_nullify t (ex_try_nullify t r) = ex_try_nullify t r.
Proof. destruct r as [o| |]; cbn [ex_try_nullify]; try reflexivity. destruct (is_non_null t) eqn:E; cbn [ex_try_nullify]; now rewrite ?E. Qed.

Definition sch_has_string (s : schema) : Prop :=
  exists desc nm dirs b, sch_get_type s td_String = Some (EScalar desc nm dirs b).

Section Sim.
Variables (s : schema) (d : rdoc) (vars : jmap) (w : world).
Let cx := ex_cx_for s d vars.
Let e := {| rf_s := s; rf_frags := rd_frags d; rf_vars := vars; rf_w := w; rf_cx := cx |}.
Hypothesis Hu : sch_names_unique s.
Hypothesis Hm : sch_no_meta_fields s.
Hypothesis Hstr : sch_has_string s.
Hypothesis Hcv : sch_impl_covariant s = true.
Hypothesis Hfr : frags_typed s (rd_frags d).

Notation tsel := (tsel_ok s d).
Notation tfield := (tfield_ok s d).
Notation mergeable := (ex_mergeable s (rd_frags d)).

(* the new errors of the model are the reference's, reversed *)
Definition agree {A} (st st' : list gerr) (res : option A) (ref : option A * list gerr) : Prop :=
  fst ref = res /\ st' = rev (snd ref) ++ st.

(* ---------------------------------------------------------------- the field loop *)
Section Fields.
Variable run_field : str -> fielddef -> rsel -> list rsel -> em (xres (option json)).
Variable tree_of : fielddef -> list rsel -> rtree.
Variables (rpath : list pseg) (otn : str).

Definition ref_fields (gs : egroups) : list (str * ty * rtree) :=
  flat_map (fun g : str * list rsel =>
    match snd g with
    | [] => []
    | f0 :: _ =>
        match td_type_field s otn (rs_name f0) with
        | None => []
        | Some fdef => [(fst g, fd_ty fdef, tree_of fdef (snd g))]
        end
    end) (to_ref gs).

Lemma fields_sim : forall gs acc st log res st' log',
  (forall key f0 rest fdef st log res st' log',
     In (key, (f0, rest)) gs -> td_type_field s otn (rs_name f0) = Some fdef ->
     run_sync w (run_field key fdef f0 rest st) log = (res, st', log') -> res <> XrFuel ->
     rt_out_of_fuel (tree_of fdef (f0 :: rest)) = false ->
     agree st st' (xr_opt res) (rf_prop (fd_ty fdef) (PsKey key :: rpath) (tree_of fdef (f0 :: rest)))) ->
  run_sync w (ex_fields_loop run_field s otn gs acc st) log = (res, st', log') -> res <> XrFuel ->
  existsb (fun f => rt_out_of_fuel (snd f)) (ref_fields gs) = false ->
  agree st st' (xr_opt res) (rfp_fields rpath (ref_fields gs) acc).
Proof.
  induction gs as [|[key [f0 rest]] gs IH]; intros acc st log res st' log' Hf H Hres Hoof; cbn [ex_fields_loop] in H.
  - rewrite rs_ret in H. injection H as <- <- <-. split; reflexivity.
  - assert (Hf' : forall key f0 rest fdef st log res st' log',
              In (key, (f0, rest)) gs -> td_type_field s otn (rs_name f0) = Some fdef ->
              run_sync w (run_field key fdef f0 rest st) log = (res, st', log') -> res <> XrFuel ->
              rt_out_of_fuel (tree_of fdef (f0 :: rest)) = false ->
              agree st st' (xr_opt res) (rf_prop (fd_ty fdef) (PsKey key :: rpath) (tree_of fdef (f0 :: rest)))).
    { intros k g0 r0 fd st0 log0 res0 st0' log0' Hin. apply Hf. now right. }
    unfold ref_fields in *. cbn [to_ref map flat_map fst snd] in *.
    destruct (td_type_field s otn (rs_name f0)) as [fdef|] eqn:Et.
    + cbn [app existsb snd] in Hoof. apply orb_false_iff in Hoof. destruct Hoof as [Ho1 Ho2].
      rewrite rs_bind in H. destruct (run_sync w (run_field key fdef f0 rest st) log) as [[r st1] log1] eqn:E1.
      assert (Hr : r <> XrFuel).
      { intros ->. rewrite rs_ret in H. injection H as <- _ _. now apply Hres. }
      destruct (Hf key f0 rest fdef _ _ _ _ _ (or_introl eq_refl) Et E1 Hr Ho1) as [A1 A2].
      cbn [app rfp_fields]. destruct (rf_prop (fd_ty fdef) (PsKey key :: rpath) (tree_of fdef (f0 :: rest))) as [r1 es1].
      cbn [fst snd] in A1, A2. subst r1 st1.
      destruct r as [[v|]| |]; cbn [xr_opt].
      * destruct (IH _ _ _ _ _ _ Hf' H Hres Ho2) as [B1 B2].
        destruct (rfp_fields rpath _ (jmap_insert key v acc)) as [r2 es2]. cbn [fst snd] in *. split; [assumption|].
        cbn [fst snd]. subst st'. now rewrite rev_app_distr, <- app_assoc.
      * destruct (IH _ _ _ _ _ _ Hf' H Hres Ho2) as [B1 B2].
        destruct (rfp_fields rpath _ acc) as [r2 es2]. cbn [fst snd] in *. split; [assumption|].
        cbn [fst snd]. subst st'. now rewrite rev_app_distr, <- app_assoc.
      * rewrite rs_ret in H. injection H as <- <- <-. split; reflexivity.
      * contradiction.
    + cbn [app]. now apply (IH _ _ _ _ _ _ Hf' H Hres).
Qed.
End Fields.

(* ---------------------------------------------------------------- the item loop *)
Section Items.
Variable complete_item : N -> resolved -> em (xres (option json)).
Variable tree_of : resolved -> rtree.
Variables (t inner : ty) (rpath : list pseg).

(* what the reference makes of the items, after its own loop *)
Definition ref_list_result (haserr : bool) (r : option (N * list json) * list gerr) : option (option json) * list gerr :=
  match fst r with
  | None => (rf_null_at t, snd r)
  | Some (idx, acc) =>
      if haserr then (rf_null_at t, snd r ++ [ex_err EcResolver (PsIdx idx :: rpath)])
      else (Some (Some (JArr (rev acc))), snd r)
  end.

Lemma items_sim : forall items idx acc st log res st' log',
  (forall idx it st log res st' log', it <> RvErr ->
     run_sync w (complete_item idx it st) log = (res, st', log') -> res <> XrFuel ->
     rt_out_of_fuel (tree_of it) = false ->
     agree st st' (xr_opt (ex_try_nullify inner res)) (rf_prop inner (PsIdx idx :: rpath) (tree_of it))) ->
  run_sync w (ex_items_loop complete_item t inner rpath items idx acc st) log = (res, st', log') -> res <> XrFuel ->
  existsb rt_out_of_fuel (map tree_of (rv_ok_prefix items)) = false ->
  agree st st' (xr_opt (ex_try_nullify t res))
        (ref_list_result (rv_has_err items) (rfp_items inner rpath (map tree_of (rv_ok_prefix items)) idx acc)).
Proof.
  induction items as [|it items IH]; intros idx acc st log res st' log' Hc H Hres Hoof;
    cbn [ex_items_loop] in H; rewrite rs_bind, rs_next in H.
  - rewrite rs_ret in H. injection H as <- <- <-. split; reflexivity.
  - assert (Hgo : it <> RvErr ->
              run_sync w (ebind (complete_item idx it)
                 (fun res0 => match ex_try_nullify inner res0 with
                              | XrOk None => ex_items_loop complete_item t inner rpath items (idx + 1) acc
                              | XrOk (Some v) => ex_items_loop complete_item t inner rpath items (idx + 1) (v :: acc)
                              | XrNull => eret (ex_try_nullify t XrNull)
                              | XrFuel => eret XrFuel
                              end) st) log = (res, st', log') ->
              existsb rt_out_of_fuel (tree_of it :: map tree_of (rv_ok_prefix items)) = false ->
              agree st st' (xr_opt (ex_try_nullify t res))
                (ref_list_result (rv_has_err items)
                   (rfp_items inner rpath (tree_of it :: map tree_of (rv_ok_prefix items)) idx acc))).
    { intros Hne H0 Hoof0. cbn [existsb] in Hoof0. apply orb_false_iff in Hoof0. destruct Hoof0 as [Ho1 Ho2].
      rewrite rs_bind in H0. destruct (run_sync w (complete_item idx it st) log) as [[r st1] log1] eqn:E1.
      assert (Hr : r <> XrFuel).
      { intros ->. cbn [ex_try_nullify] in H0. rewrite rs_ret in H0. injection H0 as <- _ _. now apply Hres. }
      destruct (Hc _ _ _ _ _ _ _ Hne E1 Hr Ho1) as [A1 A2].
      cbn [rfp_items]. destruct (rf_prop inner (PsIdx idx :: rpath) (tree_of it)) as [r1 es1]. cbn [fst snd] in A1, A2. subst r1 st1.
      destruct (ex_try_nullify inner r) as [[v|]| |] eqn:En; cbn [xr_opt].
      - destruct (IH _ _ _ _ _ _ _ Hc H0 Hres Ho2) as [B1 B2]. unfold ref_list_result in *.
        destruct (rfp_items inner rpath _ (idx + 1)%N (v :: acc)) as [r2 es2]. cbn [fst snd] in *.
        destruct r2 as [[i a]|]; [destruct (rv_has_err items)|]; cbn [fst snd] in *; (split; [assumption|]); subst st'; revnorm.
      - destruct (IH _ _ _ _ _ _ _ Hc H0 Hres Ho2) as [B1 B2]. unfold ref_list_result in *.
        destruct (rfp_items inner rpath _ (idx + 1)%N acc) as [r2 es2]. cbn [fst snd] in *.
        destruct r2 as [[i a]|]; [destruct (rv_has_err items)|]; cbn [fst snd] in *; (split; [assumption|]); subst st'; revnorm.
      - rewrite rs_ret in H0. injection H0 as <- <- <-. unfold ref_list_result. cbn [fst snd].
        unfold rf_null_at. destruct (is_non_null t) eqn:Et; cbn [ex_try_nullify]; rewrite ?Et; split; reflexivity.
      - destruct r as [o| |]; cbn [ex_try_nullify] in En; try discriminate; [destruct (is_non_null inner); discriminate|contradiction]. }
    destruct it; cbn [rv_ok_prefix rv_has_err map] in *; try (apply Hgo; [discriminate|exact H|exact Hoof]).
    (* an Err item *)
    rewrite rs_fail in H. injection H as <- <- <-. unfold ref_list_result. cbn [rfp_items fst snd app rev].
    split; [cbn [fst]; symmetry; now apply xr_opt_nullify|reflexivity].
Qed.
End Items.

(* ---------------------------------------------------------------- the four functions *)
Definition S_selset (f1 : nat) : Prop :=
  forall f2 rpath otn oimpls oid sels st log res st' log',
    ex_get_object s otn = Some oimpls -> Forall (tsel otn oimpls) sels -> mergeable sels ->
    run_sync w (ex_selset f1 cx rpath otn oimpls oid sels st) log = (res, st', log') -> res <> XrFuel ->
    existsb (fun f => rt_out_of_fuel (snd f)) (rf_selset f2 e otn oid sels) = false ->
    agree st st' (xr_opt res) (rfp_fields rpath (rf_selset f2 e otn oid sels) []).

Definition S_field (f1 : nat) : Prop :=
  forall f2 rpath otn oimpls oid fdef f0 rest st log res st' log',
    ex_get_object s otn = Some oimpls -> td_type_field s otn (rs_name f0) = Some fdef ->
    Forall (tfield otn oimpls) (f0 :: rest) -> Forall (narrowed_by s (fd_ty fdef)) (f0 :: rest) ->
    mergeable (flat_map rs_sels (f0 :: rest)) ->
    run_sync w (ex_field f1 cx rpath otn oimpls oid fdef f0 rest st) log = (res, st', log') -> res <> XrFuel ->
    rt_out_of_fuel (rf_field f2 e otn oid fdef (f0 :: rest)) = false ->
    agree st st' (xr_opt res) (rf_prop (fd_ty fdef) rpath (rf_field f2 e otn oid fdef (f0 :: rest))).

Definition fields_at (otn : str) (oimpls : list str) (t : ty) (fields : list rsel) : Prop :=
  Forall (fun g => tfield otn oimpls g /\ narrowed_by s t g) fields.

Definition S_complete (f1 : nat) : Prop :=
  forall f2 rpath t r otn oimpls f0 rest st log res st' log',
    fields_at otn oimpls t (f0 :: rest) -> mergeable (flat_map rs_sels (f0 :: rest)) ->
    run_sync w (ex_complete f1 cx rpath t r f0 rest st) log = (res, st', log') -> res <> XrFuel ->
    rt_out_of_fuel (rf_complete f2 e t r (f0 :: rest)) = false ->
    agree st st' (xr_opt (ex_try_nullify t res)) (rf_prop t rpath (rf_complete f2 e t r (f0 :: rest))).

Definition S_list (f1 : nat) : Prop :=
  forall f2 rpath t items otn oimpls f0 rest st log res st' log',
    fields_at otn oimpls t (f0 :: rest) -> mergeable (flat_map rs_sels (f0 :: rest)) ->
    run_sync w (ex_list f1 cx rpath t f0 rest items st) log = (res, st', log') -> res <> XrFuel ->
    rt_out_of_fuel (rf_complete f2 e t (RvList items) (f0 :: rest)) = false ->
    agree st st' (xr_opt (ex_try_nullify t res)) (rf_prop t rpath (rf_complete f2 e t (RvList items) (f0 :: rest))).

(* the non-null wrapper of the reference *)
Definition nn_wrap (x : rtree) : rtree :=
  match x with
  | RtNullV => RtFail EcNull
  | RtVal j => RtVal j
  | RtFail c => RtFail c
  | RtSkipped => RtSkipped
  | RtObj fs => RtObj fs
  | RtList i l => RtList i l
  | RtItemFail i l c => RtItemFail i l c
  | RtFuel => RtFuel
  end.
Definition nnw (t : ty) (x : rtree) : rtree := if is_non_null t then nn_wrap x else x.

Lemma rf_nullable_id t : is_non_null t = false -> rf_nullable t = t.
Proof. destruct t; cbn; congruence. Qed.

Lemma rf_complete_shape f2 t r fields :
  rt_out_of_fuel (rf_complete f2 e t r fields) = false -> r <> RvSkip ->
  exists f2', rf_complete f2 e t r fields = nnw t (rf_complete (S f2') e (rf_nullable t) r fields).
Proof.
  intros Hoof Hr. destruct f2 as [|f2]; [discriminate|]. unfold nnw. destruct (is_non_null t) eqn:En.
  - rewrite (rf_complete_nonnull f2 e t r fields En Hr) in *. destruct f2 as [|f2]; [cbn in Hoof; discriminate|]. now exists f2.
  - rewrite (rf_nullable_id t En). now exists f2.
Qed.

Lemma rf_prop_fail t rpath c : rf_prop t rpath (RtFail c) = (rf_null_at t, [ex_err c rpath]).
Proof. reflexivity. Qed.

(* a failure of the model at this position against a failure node of the reference *)
Lemma agree_fail t rpath c st :
  agree st (ex_err c rpath :: st) (xr_opt (ex_try_nullify t (@XrNull (option json)))) (rf_prop t rpath (RtFail c)).
Proof. split; [cbn [rf_prop fst]; symmetry; now apply xr_opt_nullify|reflexivity]. Qed.

Lemma ex_named_cases t n : ex_named t = Some n -> (t = TNamed n \/ t = TNonNullNamed n).
Proof. destruct t; cbn; intros [= <-]; auto. Qed.

(* leaves *)
Lemma named_leaf_sim tp n j rpath st log res st' log' :
  ex_named tp = Some n -> j <> JNull ->
  run_sync w
    (match sch_get_type (ex_schema cx) n with
     | None => ex_fail EcBug rpath
     | Some (EInput _ _ _ _ _) => ex_fail EcBug rpath
     | Some tdef =>
         match ex_leaf n tdef j with
         | Some c => ex_fail c rpath
         | None => eret (XrOk (Some j))
         end
     end st) log = (res, st', log') ->
  agree st st' (xr_opt (ex_try_nullify tp res))
    (rf_prop tp rpath
       (nnw tp (if rf_is_leaf_type (rf_s e) n then (if rf_leaf_ok (rf_s e) n j then RtVal j else RtFail EcLeaf)
                else if rf_is_composite (rf_s e) n then RtFail EcKind else RtFail EcBug))).
Proof.
  intros Hn Hj H. cbn [e rf_s cx ex_cx_for ex_schema] in *. unfold rf_is_leaf_type, rf_is_composite.
  assert (Hnn : forall c, nnw tp (RtFail c) = RtFail c) by (intros c; unfold nnw; destruct (is_non_null tp); reflexivity).
  destruct (sch_get_type s n) as [tdef|] eqn:Eg.
  - destruct tdef as [d1 nm dirs b|d1 nm impls dirs fs b|d1 nm impls dirs fs b|d1 nm dirs ms b|d1 nm dirs vs b|d1 nm dirs fs b];
      try (cbn [ex_leaf] in H; rewrite rs_fail in H; injection H as <- <- <-; rewrite Hnn; apply agree_fail).
    + rewrite (leaf_eq s n _ j Eg Hj I) in H. destruct (rf_leaf_ok s n j).
      * rewrite rs_ret in H. injection H as <- <- <-. unfold nnw. destruct (is_non_null tp); split; reflexivity.
      * rewrite rs_fail in H. injection H as <- <- <-. rewrite Hnn. apply agree_fail.
    + rewrite (leaf_eq s n _ j Eg Hj I) in H. destruct (rf_leaf_ok s n j).
      * rewrite rs_ret in H. injection H as <- <- <-. unfold nnw. destruct (is_non_null tp); split; reflexivity.
      * rewrite rs_fail in H. injection H as <- <- <-. rewrite Hnn. apply agree_fail.
  - rewrite rs_fail in H. injection H as <- <- <-. rewrite Hnn. apply agree_fail.
Qed.

Lemma fields_at_doc otn oimpls t fields : fields_at otn oimpls t fields ->
  Forall (fun g => tfield otn oimpls g /\ narrowed_by s t g) fields.
Proof. trivial. Qed.

(* objects *)
Lemma named_obj_sim f1 f2 tp n id tname rpath otn oimpls f0 rest st log res st' log' :
  S_selset f1 ->
  ex_named tp = Some n -> fields_at otn oimpls tp (f0 :: rest) -> mergeable (flat_map rs_sels (f0 :: rest)) ->
  run_sync w
    (match sch_get_type (ex_schema cx) n with
     | None => ex_fail EcBug rpath
     | Some (EInput _ _ _ _ _) => ex_fail EcBug rpath
     | Some tdef =>
         match ex_object_type (ex_schema cx) n tdef tname with
         | inr c => ex_fail c rpath
         | inl (otn, oimpls) =>
             ebind (ex_selset f1 cx rpath otn oimpls id (flat_map rs_sels (f0 :: rest)))
                   (fun m => eret (match m with
                                   | XrOk o => XrOk (Some (JObj o))
                                   | XrNull => XrNull
                                   | XrFuel => XrFuel
                                   end))
         end
     end st) log = (res, st', log') -> res <> XrFuel ->
  let tree :=
    (if rf_is_leaf_type (rf_s e) n then RtFail EcKind
     else if rf_is_composite (rf_s e) n then
       if rf_is_object (rf_s e) tname && existsb (streq tname) (rf_possible_types (rf_s e) n)
       then RtObj (rf_selset f2 e tname id (flat_map rs_sels (f0 :: rest)))
       else RtFail EcType
     else RtFail EcBug) in
  rt_out_of_fuel tree = false ->
  agree st st' (xr_opt (ex_try_nullify tp res)) (rf_prop tp rpath (nnw tp tree)).
Proof.
  intros IHs Hn Hfs Hmg H Hres tree Hoof. subst tree. cbn [e rf_s cx ex_cx_for ex_schema] in *.
  unfold rf_is_leaf_type, rf_is_composite in *.
  assert (Hnn : forall c, nnw tp (RtFail c) = RtFail c) by (intros c; unfold nnw; destruct (is_non_null tp); reflexivity).
  assert (Hin : inner_named_type tp = n) by (destruct (ex_named_cases _ _ Hn) as [-> | ->]; reflexivity).
  destruct (sch_get_type s n) as [tdef|] eqn:Eg; [|rewrite rs_fail in H; injection H as <- <- <-; rewrite Hnn; apply agree_fail].
  assert (Hcomp : match tdef with EObject _ _ _ _ _ _ | EInterface _ _ _ _ _ _ | EUnion _ _ _ _ _ => True | _ => False end ->
            agree st st' (xr_opt (ex_try_nullify tp res))
              (rf_prop tp rpath
                 (nnw tp (if rf_is_object s tname && existsb (streq tname) (rf_possible_types s n)
                          then RtObj (rf_selset f2 e tname id (flat_map rs_sels (f0 :: rest)))
                          else RtFail EcType))) /\ True).
  { intros Hk. split; [|exact I].
    assert (H' : run_sync w
              (match ex_object_type s n tdef tname with
               | inr c => ex_fail c rpath
               | inl (otn, oimpls) =>
                   ebind (ex_selset f1 cx rpath otn oimpls id (flat_map rs_sels (f0 :: rest)))
                         (fun m => eret (match m with
                                         | XrOk o => XrOk (Some (JObj o))
                                         | XrNull => XrNull
                                         | XrFuel => XrFuel
                                         end))
               end st) log = (res, st', log')) by (destruct tdef; try contradiction; exact H).
    assert (Hoof' : rt_out_of_fuel (if rf_is_object s tname && existsb (streq tname) (rf_possible_types s n)
                                    then RtObj (rf_selset f2 e tname id (flat_map rs_sels (f0 :: rest)))
                                    else RtFail EcType) = false) by (destruct tdef; try contradiction; exact Hoof).
    clear H Hoof. pose proof (object_type_eq s n tdef tname Hu Eg Hk) as Ho.
    destruct (ex_object_type s n tdef tname) as [[otn' oimpls']|c].
    - destruct Ho as (Ho & -> & Hgo & Happ). rewrite Ho in *.
      rewrite rs_bind in H'.
      destruct (run_sync w (ex_selset f1 cx rpath tname oimpls' id (flat_map rs_sels (f0 :: rest)) st) log) as [[m st1] log1] eqn:E1.
      rewrite rs_ret in H'. injection H' as <- <- <-.
      assert (Hmf : m <> XrFuel) by (intros ->; now apply Hres).
      rewrite rt_oof_obj in Hoof'.
      assert (Hsel : Forall (tsel tname oimpls') (flat_map rs_sels (f0 :: rest))).
      { eapply sub_typed; [|exact Hgo|exact Happ]. rewrite <- Hin. exact Hfs. }
      destruct (IHs f2 _ _ _ _ _ _ _ _ _ _ Hgo Hsel Hmg E1 Hmf Hoof') as [A1 A2].
      assert (Hw : nnw tp (RtObj (rf_selset f2 e tname id (flat_map rs_sels (f0 :: rest)))) =
                   RtObj (rf_selset f2 e tname id (flat_map rs_sels (f0 :: rest)))) by (unfold nnw; destruct (is_non_null tp); reflexivity).
      rewrite Hw, rf_prop_obj. destruct (rfp_fields rpath _ []) as [r es]. cbn [fst snd] in *. subst r st1.
      split; [|reflexivity]. cbn [fst]. destruct m as [o| |]; cbn [xr_opt ex_try_nullify]; try reflexivity; [|contradiction].
      unfold rf_null_at. destruct (is_non_null tp); reflexivity.
    - destruct Ho as [Ho ->]. rewrite Ho. rewrite rs_fail in H'. injection H' as <- <- <-. rewrite Hnn. apply agree_fail. }
  destruct tdef as [d1 nm dirs b|d1 nm impls dirs fs b|d1 nm impls dirs fs b|d1 nm dirs ms b|d1 nm dirs vs b|d1 nm dirs fs b];
    try (now apply Hcomp);
    cbn [ex_object_type] in H; rewrite rs_fail in H; injection H as <- <- <-; rewrite Hnn; apply agree_fail.
Qed.

Lemma meta_typename_field otn oimpls fdef :
  ex_get_object s otn = Some oimpls -> td_type_field s otn td_typename = Some fdef -> fdef = td_meta_typename.
Proof.
  intros Hg Ht. destruct (get_object_inv _ _ _ Hg) as (desc & impls & dirs & ofs & b & Hty & _).
  unfold td_type_field in Ht. rewrite Hty in Ht.
  destruct (td_find_fd td_typename ofs) as [od|] eqn:Eo.
  - exfalso. pose proof (find_fd_meta s _ ofs _ od Hm (sch_find_type_in _ _ _ Hty) eq_refl Eo) as Hn. discriminate.
  - rewrite streq_refl in Ht. cbn [andb] in Ht. now injection Ht.
Qed.

Lemma sim_step f1 :
  S_selset f1 /\ S_field f1 /\ S_complete f1 /\ S_list f1 ->
  S_selset (S f1) /\ S_field (S f1) /\ S_complete (S f1) /\ S_list (S f1).
Proof.
  intros (IHs & IHf & IHc & IHl). split; [|split; [|split]].
  - (* execute_selection_set *)
    intros f2 rpath otn oimpls oid sels st log res st' log' Hg Hs Hmg H Hres Hoof. cbn [ex_selset] in H.
    destruct (ex_collect (ex_cfuel cx) cx otn oimpls sels [] []) as [[v groups]|] eqn:Ec;
      [|rewrite rs_ret in H; injection H as <- _ _; contradiction].
    destruct f2 as [|f2]; [discriminate|]. cbn [rf_selset] in Hoof |- *.
    cbn [e rf_s rf_frags rf_vars rf_cx] in Hoof |- *.
    destruct (rf_flatten (ex_cfuel cx * S (length sels + ex_cfuel cx)) s (rd_frags d) vars otn sels []) as [[fields v2]|] eqn:Er;
      [|discriminate].
    assert (Happ : forall c, ex_type_applies (ex_schema cx) otn oimpls c = rf_applies (ex_schema cx) otn (Some c))
      by (intros c; now apply applies_eq).
    destruct (collect_eq_reference cx otn oimpls _ _ _ _ _ _ _ Happ Ec Er) as [_ Hgr].
    rewrite <- Hgr in Hoof |- *.
    destruct (collect_typed s d vars Hfr otn oimpls _ _ _ _ Hs Ec) as [Hall Hkeyed].
    pose proof (collect_creach cx otn oimpls _ _ _ _ Ec) as Hcr. cbn [cx ex_cx_for ex_schema ex_frags] in Hcr.
    apply (fields_sim (fun key fdef f0 rest => ex_field f1 cx (PsKey key :: rpath) otn oimpls oid fdef f0 rest)
             (fun fdef fl => rf_field f2 e otn oid fdef fl) rpath otn groups [] st log res st' log'); [|exact H|exact Hres|exact Hoof].
    intros key f0 rest fdef st0 log0 res0 st0' log0' Hin Ht E0 Hres0 Hoof0.
    unfold groups_all in Hall. rewrite Forall_forall in Hall. specialize (Hall _ Hin). cbn [fst snd] in Hall. destruct Hall as [H0 Hr].
    unfold groups_keyed in Hkeyed. rewrite Forall_forall in Hkeyed. specialize (Hkeyed _ Hin). cbn [fst snd] in Hkeyed.
    destruct Hkeyed as [K0 Kr].
    assert (Hok : Forall (tfield otn oimpls) (f0 :: rest)) by (constructor; assumption).
    assert (Hkey : Forall (fun g => rs_key g = key) (f0 :: rest)) by (constructor; assumption).
    unfold groups_all in Hcr. rewrite Forall_forall in Hcr. specialize (Hcr _ Hin). cbn [fst snd] in Hcr. destruct Hcr as [C0 Cr].
    assert (Hreach : Forall (ex_creach s (rd_frags d) otn oimpls sels) (f0 :: rest)) by (constructor; assumption).
    assert (Hkeys : forall g1 g2, In g1 (f0 :: rest) -> In g2 (f0 :: rest) -> rs_key g1 = rs_key g2).
    { intros g1 g2 I1 I2. rewrite Forall_forall in Hkey. rewrite (Hkey g1 I1), (Hkey g2 I2). reflexivity. }
    assert (Hnames : Forall (fun g => rs_name g = rs_name f0) (f0 :: rest)).
    { apply Forall_forall. intros g Ig. rewrite Forall_forall in Hreach.
      apply (mergeable_names s (rd_frags d) sels otn oimpls g f0 Hmg Hg); [now apply Hreach|exact C0|]. apply Hkeys; [exact Ig|now left]. }
    pose proof (group_types s d Hu Hm Hcv otn oimpls f0 rest fdef Hg Hok Hnames Ht) as Hty.
    assert (Hmg' : mergeable (flat_map rs_sels (f0 :: rest))).
    { apply (mergeable_sub s (rd_frags d) sels otn oimpls (f0 :: rest) Hmg Hg); [discriminate|exact Hreach|exact Hkeys]. }
    eapply IHf; eassumption.
  - (* execute_field *)
    intros f2 rpath otn oimpls oid fdef f0 rest st log res st' log' Hg Ht Hok Hty Hmg H Hres Hoof. cbn [ex_field] in H.
    destruct f2 as [|f2]; [discriminate|]. cbn [rf_field] in Hoof |- *. cbn [e rf_cx rf_s rf_w] in Hoof |- *.
    destruct (ex_coerce_args cx fdef f0) as [args|c|].
    + assert (Hfa : fields_at otn oimpls (fd_ty fdef) (f0 :: rest)).
      { unfold fields_at. rewrite Forall_forall in Hok, Hty |- *. intros g Hin. split; [now apply Hok|]. now apply Hty. }
      rewrite rs_bind in H.
      match type of H with
      | context [run_sync w (?x st) log] => destruct (run_sync w (x st) log) as [[r st1] log1] eqn:E1
      end.
      rewrite rs_ret in H. injection H as <- <- <-.
      assert (Hr : r <> XrFuel) by (intros ->; now apply Hres).
      destruct (streq (rs_name f0) td_typename) eqn:Etn.
      * (* __typename *)
        apply streq_eq in Etn. rewrite Etn in Ht. pose proof (meta_typename_field _ _ _ Hg Ht) as ->.
        cbn [td_meta_typename td_mk_fd fd_ty] in *.
        destruct f1 as [|f1]; [cbn in E1; injection E1 as <- _ _; contradiction|].
        destruct Hstr as (d1 & nm & dirs & b & Hs). cbn [ex_complete] in E1.
        cbn [cx ex_cx_for ex_schema] in E1. rewrite Hs in E1.
        change (ex_leaf td_String (EScalar d1 nm dirs b) (JStr otn)) with (@None exclass) in E1.
        cbv iota in E1. rewrite rs_ret in E1. injection E1 as <- <- <-. split; reflexivity.
      * destruct ((streq (rs_name f0) td_schema || streq (rs_name f0) td_type) && td_is_query_root s otn) eqn:Eint.
        -- cbn [cx ex_cx_for ex_schema] in E1. rewrite Eint in E1. rewrite rs_fail in E1. injection E1 as <- <- <-. apply agree_fail.
        -- cbn [cx ex_cx_for ex_schema] in E1. rewrite Eint in E1. rewrite rs_bind, rs_call in E1.
           destruct (world_resolve w {| ec_obj := oid; ec_field := rs_name f0; ec_args := args |}) as [j|id tn|items| |] eqn:Ew;
             idtac.
           ++ destruct (IHc f2 _ _ _ _ _ _ _ _ _ _ _ _ Hfa Hmg E1 Hr Hoof) as [A1 A2]. split; assumption.
           ++ destruct (IHc f2 _ _ _ _ _ _ _ _ _ _ _ _ Hfa Hmg E1 Hr Hoof) as [A1 A2]. split; assumption.
           ++ destruct (IHc f2 _ _ _ _ _ _ _ _ _ _ _ _ Hfa Hmg E1 Hr Hoof) as [A1 A2]. split; assumption.
           ++ rewrite rs_fail in E1. injection E1 as <- <- <-. apply agree_fail.
           ++ destruct (IHc f2 _ _ _ _ _ _ _ _ _ _ _ _ Hfa Hmg E1 Hr Hoof) as [A1 A2]. split; assumption.
    + rewrite rs_bind, rs_push, rs_ret in H. injection H as <- <- <-. cbn [rf_prop]. unfold rf_null_at.
      destruct (is_non_null (fd_ty fdef)); split; reflexivity.
    + rewrite rs_ret in H. injection H as <- _ _. contradiction.
  - (* complete_value *)
    intros f2 rpath t r otn oimpls f0 rest st log res st' log' Hfa Hmg H Hres Hoof. cbn [ex_complete] in H.
    destruct r as [j|id tname|items| |].
    + (* a leaf *)
      destruct (rf_complete_shape f2 t (RvLeaf j) (f0 :: rest) Hoof) as [f2' Hshape]; [discriminate|]. rewrite Hshape in *.
      assert (Hj : j = JNull \/ j <> JNull) by (destruct j; auto; right; discriminate).
      destruct Hj as [->|Hj].
      * (* null *)
        unfold nnw. destruct (is_non_null t) eqn:En.
        -- rewrite rs_fail in H. injection H as <- <- <-.
           assert (Hb : rf_complete (S f2') e (rf_nullable t) (RvLeaf JNull) (f0 :: rest) = RtNullV)
             by (destruct t; try discriminate; reflexivity).
           rewrite Hb. split; [cbn [rf_prop fst]; symmetry; now apply xr_opt_nullify|reflexivity].
        -- rewrite rs_ret in H. injection H as <- <- <-.
           assert (Hb : rf_complete (S f2') e (rf_nullable t) (RvLeaf JNull) (f0 :: rest) = RtNullV)
             by (destruct t; try discriminate; reflexivity).
           rewrite Hb. split; reflexivity.
      * assert (H' : run_sync w
                  (match t with
                   | TList _ | TNonNullList _ => ex_fail EcKind rpath
                   | TNamed n | TNonNullNamed n =>
                       match sch_get_type (ex_schema cx) n with
                       | None => ex_fail EcBug rpath
                       | Some (EInput _ _ _ _ _) => ex_fail EcBug rpath
                       | Some tdef =>
                           match ex_leaf n tdef j with
                           | Some c => ex_fail c rpath
                           | None => eret (XrOk (Some j))
                           end
                       end
                   end st) log = (res, st', log')).
        { destruct j; try contradiction; (destruct t as [n|n|i|i]; [| |exact H|exact H];
            (destruct (sch_get_type (ex_schema cx) n) as [[]|]; exact H)). }
        clear H.
        destruct t as [n|n|i|i].
        -- assert (Hb : rf_complete (S f2') e (rf_nullable (TNamed n)) (RvLeaf j) (f0 :: rest) =
                        (if rf_is_leaf_type (rf_s e) n then (if rf_leaf_ok (rf_s e) n j then RtVal j else RtFail EcLeaf)
                         else if rf_is_composite (rf_s e) n then RtFail EcKind else RtFail EcBug))
             by (destruct j; try contradiction; reflexivity).
           rewrite Hb. eapply named_leaf_sim; [reflexivity|exact Hj|exact H'].
        -- assert (Hb : rf_complete (S f2') e (rf_nullable (TNonNullNamed n)) (RvLeaf j) (f0 :: rest) =
                        (if rf_is_leaf_type (rf_s e) n then (if rf_leaf_ok (rf_s e) n j then RtVal j else RtFail EcLeaf)
                         else if rf_is_composite (rf_s e) n then RtFail EcKind else RtFail EcBug))
             by (destruct j; try contradiction; reflexivity).
           rewrite Hb. eapply named_leaf_sim; [reflexivity|exact Hj|exact H'].
        -- assert (Hb : rf_complete (S f2') e (rf_nullable (TList i)) (RvLeaf j) (f0 :: rest) = RtFail EcKind)
             by (destruct j; try contradiction; reflexivity).
           rewrite Hb. rewrite rs_fail in H'. injection H' as <- <- <-. apply agree_fail.
        -- assert (Hb : rf_complete (S f2') e (rf_nullable (TNonNullList i)) (RvLeaf j) (f0 :: rest) = RtFail EcKind)
             by (destruct j; try contradiction; reflexivity).
           rewrite Hb. rewrite rs_fail in H'. injection H' as <- <- <-. apply agree_fail.
    + (* an object *)
      destruct (rf_complete_shape f2 t (RvObject id tname) (f0 :: rest) Hoof) as [f2' Hshape]; [discriminate|]. rewrite Hshape in *.
      assert (H' : run_sync w
                  (match t with
                   | TList _ | TNonNullList _ => ex_fail EcKind rpath
                   | TNamed n | TNonNullNamed n =>
                       match sch_get_type (ex_schema cx) n with
                       | None => ex_fail EcBug rpath
                       | Some (EInput _ _ _ _ _) => ex_fail EcBug rpath
                       | Some tdef =>
                           match ex_object_type (ex_schema cx) n tdef tname with
                           | inr c => ex_fail c rpath
                           | inl (otn, oimpls) =>
                               ebind (ex_selset f1 cx rpath otn oimpls id (flat_map rs_sels (f0 :: rest)))
                                     (fun m => eret (match m with
                                                     | XrOk o => XrOk (Some (JObj o))
                                                     | XrNull => XrNull
                                                     | XrFuel => XrFuel
                                                     end))
                           end
                       end
                   end st) log = (res, st', log')).
      { destruct t as [n|n|i|i]; [| |exact H|exact H]; (destruct (sch_get_type (ex_schema cx) n) as [[]|]; exact H). }
      clear H.
      destruct t as [n|n|i|i].
      * eapply (named_obj_sim f1 f2' (TNamed n) n id tname rpath otn oimpls f0 rest); try eassumption; try reflexivity.
      * assert (Hoof' : rt_out_of_fuel (rf_complete (S f2') e (rf_nullable (TNonNullNamed n)) (RvObject id tname) (f0 :: rest)) = false).
        { unfold nnw in Hoof. cbn [is_non_null] in Hoof.
          destruct (rf_complete (S f2') e (rf_nullable (TNonNullNamed n)) (RvObject id tname) (f0 :: rest)); try exact Hoof; reflexivity. }
        eapply (named_obj_sim f1 f2' (TNonNullNamed n) n id tname rpath otn oimpls f0 rest); try eassumption; try reflexivity.
      * rewrite rs_fail in H'. injection H' as <- <- <-. apply agree_fail.
      * rewrite rs_fail in H'. injection H' as <- <- <-. apply agree_fail.
    + (* a list *)
      eapply IHl; eassumption.
    + (* Err *)
      destruct (rf_complete_shape f2 t RvErr (f0 :: rest) Hoof) as [f2' Hshape]; [discriminate|]. rewrite Hshape.
      rewrite rs_fail in H. injection H as <- <- <-.
      assert (Hb : nnw t (rf_complete (S f2') e (rf_nullable t) RvErr (f0 :: rest)) = RtFail EcResolver)
        by (destruct t; reflexivity).
      rewrite Hb. apply agree_fail.
    + (* SkipForPartialExecution *)
      rewrite rs_ret in H. injection H as <- <- <-. destruct f2 as [|f2]; [discriminate|]. split; reflexivity.
  - (* complete_list_value *)
    intros f2 rpath t items otn oimpls f0 rest st log res st' log' Hfa Hmg H Hres Hoof. cbn [ex_list] in H.
    destruct (rf_complete_shape f2 t (RvList items) (f0 :: rest) Hoof) as [f2' Hshape]; [discriminate|]. rewrite Hshape in *.
    assert (Hlist : forall inner, (t = TList inner \/ t = TNonNullList inner) ->
              run_sync w (ex_items_loop (fun idx it => ex_complete f1 cx (PsIdx idx :: rpath) inner it f0 rest)
                            t inner rpath items 0 [] st) log = (res, st', log') ->
              rt_out_of_fuel (rf_list_tree f2' e inner (f0 :: rest) items) = false ->
              agree st st' (xr_opt (ex_try_nullify t res)) (rf_prop t rpath (rf_list_tree f2' e inner (f0 :: rest) items))).
    { intros inner Ht H' Hoof'.
      assert (Hfi : fields_at otn oimpls inner (f0 :: rest)).
      { unfold fields_at in *. eapply Forall_impl; [|exact Hfa]. intros g [G1 G2]. split; [exact G1|].
        destruct Ht as [-> | ->]; exact G2. }
      unfold rf_list_tree in *.
      assert (Hoofi : existsb rt_out_of_fuel (map (fun it => rf_complete f2' e inner it (f0 :: rest)) (rv_ok_prefix items)) = false)
        by (destruct (rv_has_err items); exact Hoof').
      pose proof (items_sim (fun idx it => ex_complete f1 cx (PsIdx idx :: rpath) inner it f0 rest)
                    (fun it => rf_complete f2' e inner it (f0 :: rest)) t inner rpath items 0%N [] st log res st' log') as Hsim.
      assert (Hsim' := Hsim (fun idx it st0 log0 res0 st0' log0' _ E0 Hr0 Ho0 =>
                               IHc f2' (PsIdx idx :: rpath) inner it otn oimpls f0 rest st0 log0 res0 st0' log0' Hfi Hmg E0 Hr0 Ho0) H' Hres Hoofi).
      clear Hsim. unfold ref_list_result in Hsim'.
      destruct (rv_has_err items).
      - rewrite rf_prop_itemfail. destruct (rfp_items inner rpath _ 0%N []) as [[[i a]|] es]; exact Hsim'.
      - rewrite rf_prop_list. destruct (rfp_items inner rpath _ 0%N []) as [[[i a]|] es]; exact Hsim'. }
    destruct t as [n|n|inner|inner].
    + rewrite rs_fail in H. injection H as <- <- <-. apply agree_fail.
    + rewrite rs_fail in H. injection H as <- <- <-. apply agree_fail.
    + cbn [rf_nullable] in *. rewrite rf_complete_list in *. apply Hlist; auto.
    + cbn [rf_nullable] in *. rewrite rf_complete_list in *.
      assert (Hw : nnw (TNonNullList inner) (rf_list_tree f2' e inner (f0 :: rest) items) = rf_list_tree f2' e inner (f0 :: rest) items)
        by (unfold nnw, rf_list_tree; cbn [is_non_null]; destruct (rv_has_err items); reflexivity).
      rewrite Hw in *. apply Hlist; auto.
Qed.

Lemma sim_zero : S_selset 0 /\ S_field 0 /\ S_complete 0 /\ S_list 0.
Proof.
  split; [|split; [|split]].
  - intros f2 rpath otn oimpls oid sels st log res st' log' _ _ _ H Hres. cbn in H. injection H as <- _ _. contradiction.
  - intros f2 rpath otn oimpls oid fdef f0 rest st log res st' log' _ _ _ _ _ H Hres. cbn in H. injection H as <- _ _. contradiction.
  - intros f2 rpath t r otn oimpls f0 rest st log res st' log' _ _ H Hres. cbn in H. injection H as <- _ _. contradiction.
  - intros f2 rpath t items otn oimpls f0 rest st log res st' log' _ _ H Hres. cbn in H. injection H as <- _ _. contradiction.
Qed.

Lemma sim_all f1 : S_selset f1 /\ S_field f1 /\ S_complete f1 /\ S_list f1.
Proof. induction f1 as [|f1 IH]; [apply sim_zero|now apply sim_step]. Qed.

End Sim.
