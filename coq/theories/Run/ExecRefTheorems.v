(* C26, second part: property-level statements about the request (Props/C26.v restates them). *)
From Coq Require Import ZArith Lia List.
From ApolloVerif Require Import Base.Chars Ast.Ast Schema.Model Run.Json Run.JsonLemmas Run.Coerce Run.CoerceProofs
  Run.TypedDoc Run.Prog Run.Execute Run.ExecTop Run.RefExecute Run.ExecProofs Run.ExecRefDefs
  Run.ExecRefInv Run.ExecRefFuel Run.ExecRefCollect Run.ExecRefTyping Run.ExecRefProp Run.ExecRefSim Run.ExecRefFuelRef
  Run.ExecRefNull Run.ExecTheorems.
Import ListNotations.
Local Open Scope nat_scope.
Local Open Scope list_scope.

Lemma prepare_inv s doc values d vars root impls :
  execute_prepare s doc values = EpReady d vars root impls ->
  td_build s doc = Some d /\ td_root_type s (rd_optype d) = Some root /\ ex_get_object s root = Some impls.
Proof.
  unfold execute_prepare. destruct (td_build s doc) as [d0|]; [|discriminate].
  destruct (td_root_type s (rd_optype d0)) as [root0|] eqn:Er; [|discriminate].
  destruct (ex_get_object s root0) as [impls0|] eqn:Eg; [|discriminate].
  destruct (coerce_variable_values s (rd_vars d0) values); try discriminate.
  intros [= <- <- <- <-]. auto.
Qed.

Lemma sch_exec_wf_string s : sch_exec_wf s = true -> sch_has_string s.
Proof.
  unfold sch_exec_wf, sch_has_string. intros H. apply andb_true_iff in H. destruct H as [H _].
  apply andb_true_iff in H. destruct H as [_ H].
  destruct (sch_get_type s td_String) as [t|]; [|discriminate]. destruct t; try discriminate. repeat eexists.
Qed.

(* the selections of the operation, on the root type *)
Lemma root_typed s doc values d vars root impls :
  execute_prepare s doc values = EpReady d vars root impls ->
  Forall (tsel_ok s d root impls) (rd_sels d) /\ frags_typed s (rd_frags d).
Proof.
  intros Hp. destruct (prepare_inv _ _ _ _ _ _ _ Hp) as (Hb & Hr & Hg).
  destruct (td_build_typed s doc d root Hb Hr) as [Ht Hf]. split; [|exact Hf].
  apply Forall_forall. intros x Hx. split; [now apply doc_node_root|]. exists root. split.
  - rewrite Forall_forall in Ht. now apply Ht.
  - destruct (get_object_inv _ _ _ Hg) as (desc & i & dirs & fs & b & Hty & _).
    unfold ex_type_applies. rewrite Hty. apply streq_refl.
Qed.

Lemma fuel_bound s d :
  (rd_max rsl_depth d + length (rd_frags d) * rd_max rsl_depth d) * (2 * ex_ty_max s d + 8) + 1 <= ex_fuel_for s d.
Proof.
  unfold ex_fuel_for. set (D := rd_max rsl_depth d). set (K := length (rd_frags d)). set (M := ex_ty_max s d). nia.
Qed.

(* C26_eq_reference: the response of the executor model is the response of the reference executor *)
Lemma c26_eq_reference : forall s doc values w d vars root impls,
  execute_prepare s doc values = EpReady d vars root impls ->
  sch_exec_wf s = true -> rd_mergeable s d -> rd_acyclic d = true ->
  fst (execute_request s doc values w) = ref_execute s doc values w.
Proof.
  intros s doc values w d vars root impls Hp Hwf Hmg Hacyc.
  destruct (sch_exec_wf_spec s Hwf) as [Hu Hm]. pose proof (sch_exec_wf_string s Hwf) as Hstr.
  pose proof (sch_exec_wf_cov s Hwf) as Hcv.
  destruct (root_typed _ _ _ _ _ _ _ Hp) as [Hroot Hfr]. destruct (prepare_inv _ _ _ _ _ _ _ Hp) as (_ & _ & Hg).
  unfold execute_request, ref_execute. rewrite Hp.
  pose proof (execute_prog_nofuel s d vars w root impls Hacyc []) as Hnf.
  destruct (run_sync w (execute_prog s d vars root impls) []) as [[res st] log] eqn:E. cbn [fst] in Hnf |- *.
  unfold execute_prog in E. unfold ref_execute_prepared.
  change {| ex_schema := s; ex_frags := rd_frags d; ex_vars := vars; ex_cfuel := ex_cfuel_for d; ex_afuel := ex_afuel_for s d |}
    with (ex_cx_for s d vars).
  set (e := {| rf_s := s; rf_frags := rd_frags d; rf_vars := vars; rf_w := w; rf_cx := ex_cx_for s d vars |}).
  unfold rf_fuel_for.
  (* the reference does not run out of fuel *)
  destruct (ref_fuel_all s d vars w Hu Hm Hcv Hfr (ex_fuel_for s d)) as (Hrs & _).
  pose proof (Hrs root impls 0%N (rd_sels d) _ Hg (root_sels_ok s d Hacyc) Hroot Hmg (fuel_bound s d)) as Hoof.
  fold e in Hoof. rewrite rt_oof_obj, Hoof.
  (* both agree *)
  destruct (sim_all s d vars w Hu Hm Hstr Hcv Hfr (ex_fuel_for s d)) as (Hss & _).
  destruct (Hss (ex_fuel_for s d) [] root impls 0%N (rd_sels d) [] [] res st log Hg Hroot Hmg E Hnf Hoof) as [A1 A2].
  fold e in A1, A2. rewrite rf_prop_obj. destruct (rfp_fields [] (rf_selset (ex_fuel_for s d) e root 0 (rd_sels d)) []) as [r es].
  cbn [fst snd] in A1, A2. subst r st. rewrite app_nil_r.
  destruct res as [m| |]; cbn [xr_opt ex_outcome]; [| |contradiction]; now rewrite rev_involutive.
Qed.

(* the decidable sufficient condition for rd_mergeable *)
Lemma alias_consistent_mergeable s d : rd_alias_consistent d = true -> rd_acyclic d = true -> rd_mergeable s d.
Proof.
  intros Ha Hacyc. destruct (root_sels_ok s d Hacyc) as [_ H]. exact (alias_mergeable s d Ha _ _ H).
Qed.

Lemma c26_eq_reference_alias : forall s doc values w d vars root impls,
  execute_prepare s doc values = EpReady d vars root impls ->
  sch_exec_wf s = true -> rd_alias_consistent d = true -> rd_acyclic d = true ->
  fst (execute_request s doc values w) = ref_execute s doc values w.
Proof.
  intros s doc values w d vars root impls Hp Hwf Halias Hacyc.
  eapply c26_eq_reference; eauto using alias_consistent_mergeable.
Qed.

(* a request with a response: data and errors are the reference's *)
Lemma c26_eq_reference_response : forall s doc values w d vars root impls r log,
  execute_prepare s doc values = EpReady d vars root impls ->
  sch_exec_wf s = true -> rd_mergeable s d -> rd_acyclic d = true ->
  execute_request s doc values w = (EoResponse r, log) ->
  ref_execute s doc values w = EoResponse r.
Proof.
  intros s doc values w d vars root impls r log Hp Hwf Hmg Hacyc H.
  pose proof (c26_eq_reference s doc values w d vars root impls Hp Hwf Hmg Hacyc) as He. rewrite H in He. now cbn [fst] in He.
Qed.

(* data = null exactly when, in the reference's result tree, a field error sits below non-null positions only *)
Lemma c26_data_null_iff : forall s doc values w d vars root impls r log,
  execute_prepare s doc values = EpReady d vars root impls ->
  sch_exec_wf s = true -> rd_mergeable s d -> rd_acyclic d = true ->
  execute_request s doc values w = (EoResponse r, log) ->
  (er_data r = None <-> rt_fields_propagate (ref_root_fields s d vars root w) = true).
Proof.
  intros s doc values w d vars root impls r log Hp Hwf Hmg Hacyc H.
  pose proof (c26_eq_reference_response _ _ _ _ _ _ _ _ _ _ Hp Hwf Hmg Hacyc H) as Hr.
  unfold ref_execute in Hr. rewrite Hp in Hr.
  destruct (ref_execute_prepared s d vars root w) as [r'|] eqn:E; [|discriminate]. injection Hr as ->.
  now apply ref_data_null_iff.
Qed.

(* collect_fields, for an object type whose interfaces are those the schema records *)
Lemma c26_collect_fields_eq : forall cx otn oimpls fuel1 fuel2 sels v1 groups fields v2,
  sch_names_unique (ex_schema cx) -> ex_get_object (ex_schema cx) otn = Some oimpls ->
  ex_collect fuel1 cx otn oimpls sels [] [] = Some (v1, groups) ->
  rf_flatten fuel2 (ex_schema cx) (ex_frags cx) (ex_vars cx) otn sels [] = Some (fields, v2) ->
  v2 = v1 /\ to_ref groups = rf_group fields.
Proof.
  intros cx otn oimpls fuel1 fuel2 sels v1 groups fields v2 Hu Hg. apply collect_eq_reference.
  intros c. now apply applies_eq.
Qed.

Lemma c26_collect_fuel : forall s d vars otn oimpls fields,
  Forall (fun g => doc_node d g /\ rs_is_field g = true) fields ->
  (exists v g, ex_collect (ex_cfuel_for d) (ex_cx_for s d vars) otn oimpls (rd_sels d) [] [] = Some (v, g)) /\
  (exists v g, ex_collect (ex_cfuel_for d) (ex_cx_for s d vars) otn oimpls (flat_map rs_sels fields) [] [] = Some (v, g)).
Proof.
  intros s d vars otn oimpls fields Hf. split.
  - destruct (collect_fuel (ex_cx_for s d vars) otn oimpls (ex_cfuel_for d) (rd_sels d) [] []) as (v & g & E & _); [apply cneed_root|].
    now exists v, g.
  - destruct (collect_fuel (ex_cx_for s d vars) otn oimpls (ex_cfuel_for d) (flat_map rs_sels fields) [] []) as (v & g & E & _);
      [now apply cneed_fields|]. now exists v, g.
Qed.

(* non-vacuity: the hypotheses hold of the example request of Run/ExecTheorems.v *)
Lemma c26_hyps_nonvacuous :
  exists d vars root impls,
    execute_prepare x_nv_schema x_nv_doc [] = EpReady d vars root impls /\
    sch_exec_wf x_nv_schema = true /\ rd_alias_consistent d = true /\
    rd_acyclic d = true /\ rd_mergeable x_nv_schema d /\
    rt_fields_propagate (ref_root_fields x_nv_schema d vars root x_nv_world) = false.
Proof.
  destruct (execute_prepare x_nv_schema x_nv_doc []) as [d vars root impls|o] eqn:E; [|vm_compute in E; discriminate].
  exists d, vars, root, impls. vm_compute in E. injection E as <- <- <- <-.
  split; [reflexivity|]. split; [vm_compute; reflexivity|].
  split; [vm_compute; reflexivity|]. split; [vm_compute; reflexivity|]. split.
  - apply alias_consistent_mergeable; vm_compute; reflexivity.
  - vm_compute. reflexivity.
Qed.

From Coq Require Import String.
Local Open Scope string_scope.
Local Open Scope list_scope.

(* rd_mergeable is a hypothesis of the proof (the typing invariant of merged sub-selections), but no longer known to be
   necessary: type Query { a: A  b: B }  type A { j: Int  k: Int }  type B { k: String },
   `{ x: a { j }  x: b { k } }` (not a valid document: the two fields of response key x do not merge) and an A whose k
   resolves to "s".  Before the repair of execute_field the executor completed k with the type of B.k (the type the
   selection `k` was written under) and differed from the reference; now both complete k with the type of A.k *)
Definition x_mg_schema : schema :=
  {| sch_def := x_sdef; sch_dirdefs := [];
     sch_types := [x_scalar "Int"; x_scalar "String";
                   EObject None (xs "A") [] [] [x_fd "j" (TNamed (xs "Int")); x_fd "k" (TNamed (xs "Int"))] false;
                   EObject None (xs "B") [] [] [x_fd "k" (TNamed (xs "String"))] false;
                   EObject None (xs "Query") [] [] [x_fd "a" (TNamed (xs "A")); x_fd "b" (TNamed (xs "B"))] false] |}.
Definition x_mg_doc : document :=
  [DOperation OpQuery None [] []
     [SField (Some (xs "x")) (xs "a") [] [] [SField None (xs "j") [] [] []];
      SField (Some (xs "x")) (xs "b") [] [] [SField None (xs "k") [] [] []]]].
Definition x_mg_world : world :=
  [((0%N, xs "a"), BhObject 1%N (xs "A")); ((1%N, xs "j"), BhLeaf (JInt 1)); ((1%N, xs "k"), BhLeaf (JStr (xs "s")))].

Lemma c26_unmergeable_example :
  (exists d, td_build x_mg_schema x_mg_doc = Some d /\ sch_exec_wf x_mg_schema = true /\
             rd_acyclic d = true /\ rd_alias_consistent d = false) /\
  fst (execute_request x_mg_schema x_mg_doc [] x_mg_world) =
    EoResponse {| er_data := Some [(xs "x", JObj [(xs "j", JInt 1); (xs "k", JNull)])];
                  er_errors := [{| ge_class := EcLeaf; ge_path := [PsKey (xs "x"); PsKey (xs "k")] |}] |} /\
  ref_execute x_mg_schema x_mg_doc [] x_mg_world = fst (execute_request x_mg_schema x_mg_doc [] x_mg_world).
Proof.
  split; [|split].
  - eexists. repeat split; vm_compute; reflexivity.
  - vm_compute. reflexivity.
  - vm_compute. reflexivity.
Qed.
