(* Model of crates/apollo-compiler/src/resolvers/input_coercion.rs:
   coerce_variable_values, coerce_variable_value, graphql_value_to_json (request::coerce_variable_values
   is a wrapper converting the error type).  Same order of tests as the code.
   The recursion of coerce_variable_value (on the JSON value, and on the type for a non-array value at a
   list type) is fuel-bounded; CvOutOfFuel is excluded by CoerceProofs.cv_value_fuel_enough. *)
From Coq Require Import ZArith String.
Local Open Scope string_scope.
Local Open Scope N_scope.
Local Open Scope list_scope.
From ApolloVerif Require Import Base.Chars Ast.Ast Schema.Model Run.Json.

(* InputCoercionError::{ValueError, SuspectedValidationBug}; messages and locations are not modelled *)
Inductive cv_err := CvValueError | CvValidationBug.

Inductive cv_res (A : Type) :=
| CvOk (a : A)
| CvErr (e : cv_err)
| CvOutOfFuel.
Arguments CvOk {A}. Arguments CvErr {A}. Arguments CvOutOfFuel {A}.

Definition cv_bind {A B} (x : cv_res A) (f : A -> cv_res B) : cv_res B :=
  match x with
  | CvOk a => f a
  | CvErr e => CvErr e
  | CvOutOfFuel => CvOutOfFuel
  end.

(* iter().map(f).collect::<Result<Vec<_>, _>>() : stops at the first error *)
Fixpoint cv_map_m {A B} (f : A -> cv_res B) (l : list A) : cv_res (list B) :=
  match l with
  | [] => CvOk []
  | x :: r => cv_bind (f x) (fun y => cv_bind (cv_map_m f r) (fun ys => CvOk (y :: ys)))
  end.

Definition rn_Int : str := Eval vm_compute in str_of_string "Int".
Definition rn_Float : str := Eval vm_compute in str_of_string "Float".
Definition rn_String : str := Eval vm_compute in str_of_string "String".
Definition rn_Boolean : str := Eval vm_compute in str_of_string "Boolean".
Definition rn_ID : str := Eval vm_compute in str_of_string "ID".

(* ---- graphql_value_to_json ---- *)
Fixpoint cv_lit_to_json (v : value) : cv_res json :=
  match v with
  | VNull => CvOk JNull
  | VVar _ => CvErr CvValidationBug
  | VEnum n => CvOk (JStr n)
  | VString s => CvOk (JStr s)
  | VBool b => CvOk (JBool b)
  | VInt t => match json_number_of_int_text t with Some n => CvOk n | None => CvErr CvValueError end
  | VFloat t => match json_number_of_float_text t with Some n => CvOk n | None => CvErr CvValueError end
  | VList l =>
      cv_bind ((fix go (l : list value) : cv_res (list json) :=
                  match l with
                  | [] => CvOk []
                  | x :: r => cv_bind (cv_lit_to_json x) (fun y => cv_bind (go r) (fun ys => CvOk (y :: ys)))
                  end) l)
              (fun js => CvOk (JArr js))
  | VObject fs =>
      cv_bind ((fix go (l : list (str * value)) : cv_res (list (str * json)) :=
                  match l with
                  | [] => CvOk []
                  | (k, x) :: r =>
                      cv_bind (cv_lit_to_json x) (fun y => cv_bind (go r) (fun ys => CvOk ((k, y) :: ys)))
                  end) fs)
              (fun kvs => CvOk (JObj (jmap_of_list kvs)))
  end.

(* ---- coerce_variable_value ---- *)
Definition cv_fields_of (fs : list (comp inputvaldef)) : list inputvaldef := List.map c_val fs.

Fixpoint cv_find_field (k : str) (fs : list inputvaldef) : option inputvaldef :=
  match fs with
  | [] => None
  | f :: r => if streq k (iv_name f) then Some f else cv_find_field k r
  end.

(* object.keys().find(|key| !ty_def.fields.contains_key(key)) *)
Definition cv_unknown_key (fs : list inputvaldef) (obj : jmap) : bool :=
  existsb (fun kv => match cv_find_field (fst kv) fs with Some _ => false | None => true end) obj.

(* the built-in scalar tests; None = "fall through to the final error" *)
Definition cv_scalar_ok (n : str) (v : json) : bool :=
  if streq n rn_Int then
    match json_as_i64 v with Some z => j_fits_i32 z | None => false end
  else if streq n rn_Float then
    json_is_f64 v ||
    match v with JInt z => json_int_as_f64_abs_le_max_safe z | _ => false end
  else if streq n rn_String then json_is_string v
  else if streq n rn_Boolean then json_is_boolean v
  else if streq n rn_ID then json_is_string v || json_is_i64 v || json_is_u64 v
  else true.

(* the scalar tests before the repair of the two boundary comparisons (Float: `f.abs() < MAX_SAFE_INT as f64`,
   ID: `value.is_string() || value.is_i64()`); kept only for CoerceTheorems.c28_edge_old_refuted *)
Definition cv_scalar_ok_old (n : str) (v : json) : bool :=
  if streq n rn_Int then
    match json_as_i64 v with Some z => j_fits_i32 z | None => false end
  else if streq n rn_Float then
    json_is_f64 v ||
    match v with JInt z => json_int_as_f64_abs_lt_max_safe z | _ => false end
  else if streq n rn_String then json_is_string v
  else if streq n rn_Boolean then json_is_boolean v
  else if streq n rn_ID then json_is_string v || json_is_i64 v
  else true.

Definition cv_enum_has (vals : list (comp enumvaldef)) (s : str) : bool :=
  existsb (fun c => streq (ev_value (c_val c)) s) vals.

(* the `for (field_name, field_def) in &ty_def.fields` loop over the cloned object *)
Fixpoint cv_input_fields (rec : ty -> json -> cv_res json) (fs : list inputvaldef) (obj : jmap)
  : cv_res jmap :=
  match fs with
  | [] => CvOk obj
  | f :: r =>
      match jmap_get (iv_name f) obj with
      | Some fv =>
          cv_bind (rec (iv_ty f) fv) (fun fv' => cv_input_fields rec r (jmap_insert (iv_name f) fv' obj))
      | None =>
          match iv_default f with
          | Some d =>
              cv_bind (cv_lit_to_json d) (fun dv => cv_input_fields rec r (jmap_insert (iv_name f) dv obj))
          | None =>
              if is_non_null (iv_ty f) then CvErr CvValueError
              else cv_input_fields rec r obj
          end
      end
  end.

(* the list branch: `value.as_array().unwrap_or(from_ref(value)).iter().map(coerce inner).collect()` *)
Definition cv_list (rec_inner : json -> cv_res json) (v : json) : cv_res json :=
  let items := match v with JArr l => l | _ => [v] end in
  cv_bind (cv_map_m rec_inner items) (fun l => CvOk (JArr l)).

(* the named-type branch (the value is not null) *)
Definition cv_named (rec : ty -> json -> cv_res json) (s : schema) (n : str) (v : json) : cv_res json :=
  match sch_get_type s n with
  | None => CvErr CvValidationBug
  | Some (EObject _ _ _ _ _ _) | Some (EInterface _ _ _ _ _ _) | Some (EUnion _ _ _ _ _) =>
      CvErr CvValidationBug
  | Some (EScalar _ _ _ _) =>
      if cv_scalar_ok n v then CvOk v else CvErr CvValueError
  | Some (EEnum _ _ _ vals _) =>
      match v with
      | JStr x => if cv_enum_has vals x then CvOk v else CvErr CvValueError
      | _ => CvErr CvValueError
      end
  | Some (EInput _ _ _ fs _) =>
      match v with
      | JObj obj =>
          let fs := cv_fields_of fs in
          if cv_unknown_key fs obj then CvErr CvValueError
          else cv_bind (cv_input_fields rec fs obj) (fun o => CvOk (JObj o))
      | _ => CvErr CvValueError
      end
  end.

Fixpoint cv_value (fuel : nat) (s : schema) (t : ty) (v : json) : cv_res json :=
  match fuel with
  | O => CvOutOfFuel
  | S fuel =>
      if json_is_null v then
        (if is_non_null t then CvErr CvValueError else CvOk JNull)
      else
        match t with
        | TList inner | TNonNullList inner => cv_list (cv_value fuel s inner) v
        | TNamed n | TNonNullNamed n => cv_named (cv_value fuel s) s n v
        end
  end.

Fixpoint cv_ty_size (t : ty) : nat :=
  match t with
  | TNamed _ | TNonNullNamed _ => 1
  | TList i | TNonNullList i => S (cv_ty_size i)
  end.

(* ---- coerce_variable_values ---- *)
Fixpoint cv_vars (fuel : nat) (s : schema) (vars : list vardef) (values : jmap) (acc : jmap)
  : cv_res jmap :=
  match vars with
  | [] => CvOk acc
  | vd :: r =>
      match jmap_get_key (v_name vd) values with
      | Some (key, value) =>
          cv_bind (cv_value fuel s (v_ty vd) value) (fun x => cv_vars fuel s r values (jmap_insert key x acc))
      | None =>
          match v_default vd with
          | Some d =>
              cv_bind (cv_lit_to_json d) (fun x => cv_vars fuel s r values (jmap_insert (v_name vd) x acc))
          | None =>
              if is_non_null (v_ty vd) then CvErr CvValueError
              else cv_vars fuel s r values acc
          end
      end
  end.

Fixpoint cv_max_ty_size (vars : list vardef) : nat :=
  match vars with [] => O | vd :: r => Nat.max (cv_ty_size (v_ty vd)) (cv_max_ty_size r) end.

Definition cv_schema_max_ty_size (s : schema) : nat :=
  fold_right (fun t acc =>
    match t with
    | EInput _ _ _ fs _ => fold_right (fun f a => Nat.max (cv_ty_size (iv_ty (c_val f))) a) acc fs
    | _ => acc
    end) O (sch_types s).

(* enough fuel for every call: each level of the JSON value can be preceded by a descent through the
   list wrappers of one declared type *)
Definition cv_fuel (s : schema) (vars : list vardef) (values : jmap) : nat :=
  S (json_size (JObj values)) * S (S (Nat.max (cv_max_ty_size vars) (cv_schema_max_ty_size s))).

Definition coerce_variable_values (s : schema) (vars : list vardef) (values : jmap) : cv_res jmap :=
  cv_vars (cv_fuel s vars values) s vars values [].

(* the operation whose variables are coerced: the harness uses the document's only operation *)
Fixpoint cv_first_operation (d : document) : option (list vardef) :=
  match d with
  | [] => None
  | DOperation _ _ vars _ _ :: _ => Some vars
  | _ :: r => cv_first_operation r
  end.
