(* C26, second part: the reference executor (Run/RefExecute.v) never runs out of fuel either: its flattening of a
   selection set (rf_flatten: one unit of fuel per selection and per level of fragment nesting) and its evaluation
   (rf_selset / rf_field / rf_complete: one call per level, per list wrapper and per non-null wrapper), with the
   same fuel ex_fuel_for as the executor model.  The list depth of the type the reference completes a field with
   (the type on the object type) is bounded by the schema's largest field type (ex_schema_field_ty_max). *)
From Coq Require Import ZArith Lia List.
From ApolloVerif Require Import Base.Chars Ast.Ast Schema.Model Run.Json Run.JsonLemmas Run.Coerce Run.CoerceProofs
  Run.TypedDoc Run.Prog Run.Execute Run.ExecTop Run.RefExecute Run.ExecProofs Run.ExecRefDefs
  Run.ExecRefInv Run.ExecRefFuel Run.ExecRefCollect Run.ExecRefTyping Run.ExecRefProp Run.ExecRefSim.
Import ListNotations.
Local Open Scope nat_scope.
Local Open Scope list_scope.

(* ---------------------------------------------------------------- rf_flatten *)
Lemma length_le_nodes l : length l <= rsl_nodes l.
Proof.
  induction l as [|x r IH]; cbn [length rsl_nodes fold_right]; [lia|]. fold (rsl_nodes r).
  pose proof (rs_nodes_eq x). lia.
Qed.

Lemma nodes_in x l : In x l -> rs_nodes x <= rsl_nodes l.
Proof. intros H. unfold rsl_nodes. now apply (fold_sum_in rs_nodes). Qed.

Section FlattenFuel.
Variables (s : schema) (frags : list rfrag) (vars : jmap) (otn : str) (B : nat).
Hypothesis HB : forall fr, In fr frags -> rsl_nodes (rfr_sels fr) <= B.

Lemma flatten_fuel : forall fuel l v,
  Forall (fun x => rs_nodes x <= B) l ->
  length l + 1 + (rsl_ih l + ex_frag_sum frags v) * S B <= fuel ->
  exists fields v', rf_flatten fuel s frags vars otn l v = Some (fields, v') /\ incl v v'.
Proof.
  induction fuel as [|fuel IH]; intros l v Hl Hf; [lia|]. cbn [rf_flatten].
  destruct l as [|x r]; [exists [], v; split; [reflexivity|apply incl_refl]|].
  inversion Hl as [|? ? Hx Hr]; subst. cbn [length rsl_ih fold_right] in Hf. fold (rsl_ih r) in Hf.
  (* the rest of the list *)
  assert (Hcont : forall here v1, incl v v1 ->
            exists fields v', match rf_flatten fuel s frags vars otn r v1 with
                              | Some (more, visited) => Some (here ++ more, visited)
                              | None => None
                              end = Some (fields, v') /\ incl v v').
  { intros here v1 Hi. destruct (IH r v1 Hr) as (more & v' & E & Hi').
    - pose proof (frag_sum_mono frags v v1 Hi).
      assert ((rsl_ih r + ex_frag_sum frags v1) * S B <= (Nat.max (rs_ih x) (rsl_ih r) + ex_frag_sum frags v) * S B)
        by (apply Nat.mul_le_mono_r; lia). lia.
    - rewrite E. exists (here ++ more), v'. split; [reflexivity|]. eapply incl_tran; eassumption. }
  (* a nested list *)
  assert (Hnest : forall sub v1, rsl_nodes sub <= B -> S (rsl_ih sub + ex_frag_sum frags v1) <= Nat.max (rs_ih x) (rsl_ih r) + ex_frag_sum frags v ->
            exists fields v', rf_flatten fuel s frags vars otn sub v1 = Some (fields, v') /\ incl v1 v').
  { intros sub v1 Hn Hlev. apply IH.
    - apply Forall_forall. intros y Hy. pose proof (nodes_in y sub Hy). lia.
    - pose proof (length_le_nodes sub).
      assert (S (rsl_ih sub + ex_frag_sum frags v1) * S B <= (Nat.max (rs_ih x) (rsl_ih r) + ex_frag_sum frags v) * S B)
        by (apply Nat.mul_le_mono_r; lia). lia. }
  destruct (rf_excluded x vars); [apply Hcont, incl_refl|].
  destruct x as [a n args dirs t sub|name dirs|cond dirs sub].
  - apply Hcont, incl_refl.
  - destruct (existsb (streq name) v) eqn:Ev; [apply Hcont, incl_refl|].
    assert (Hi1 : incl v (name :: v)) by (intros z Hz; now right).
    pose proof (find_frag_filter name frags) as Ef.
    destruct (filter (fun f => streq (rfr_name f) name) frags) as [|fr frs]; [apply Hcont, Hi1|].
    destruct (rf_applies s otn (Some (rfr_cond fr))); [|apply Hcont, Hi1].
    pose proof (frag_sum_find _ _ _ _ Ef Ev) as Hs. apply find_frag_in in Ef. destruct Ef as [Hin _].
    destruct (Hnest (rfr_sels fr) (name :: v) (HB fr Hin)) as (here & v1 & E & Hi2); [lia|].
    rewrite E. apply Hcont. eapply incl_tran; eassumption.
  - destruct (rf_applies s otn cond); [|apply Hcont, incl_refl].
    rewrite rs_ih_inline in *. rewrite rs_nodes_eq in Hx. cbn [rs_sels] in Hx.
    destruct (Hnest sub v) as (here & v1 & E & Hi2); [lia|lia|].
    rewrite E. apply Hcont. exact Hi2.
Qed.
End FlattenFuel.

(* ---------------------------------------------------------------- the reference executor *)
Lemma rt_oof_wrap x : rt_out_of_fuel (nn_wrap x) = rt_out_of_fuel x.
Proof. destruct x; reflexivity. Qed.

Definition ty_fuel (t : ty) : nat := 2 * cv_ty_size t + (if is_non_null t then 1 else 0).

Section RefFuel.
Variables (s : schema) (d : rdoc) (vars : jmap) (w : world).
Let cx := ex_cx_for s d vars.
Let e := {| rf_s := s; rf_frags := rd_frags d; rf_vars := vars; rf_w := w; rf_cx := cx |}.
Hypothesis Hu : sch_names_unique s.
Hypothesis Hm : sch_no_meta_fields s.
Hypothesis Hcv : sch_impl_covariant s = true.
Hypothesis Hfr : frags_typed s (rd_frags d).
Let maxty := ex_ty_max s d.
Let c := 2 * maxty + 8.

Notation tsel := (tsel_ok s d).
Notation tfield := (tfield_ok s d).
Notation mergeable := (ex_mergeable s (rd_frags d)).

Lemma flatten_enough otn sels :
  ex_cneed (rd_frags d) sels [] <= ex_cfuel_for d -> Forall (doc_node d) sels ->
  exists fields v', rf_flatten (ex_cfuel_for d * S (length sels + ex_cfuel_for d)) s (rd_frags d) vars otn sels [] = Some (fields, v').
Proof.
  intros Hc Hs.
  destruct (flatten_fuel s (rd_frags d) vars otn (ex_cfuel_for d)) with
    (fuel := ex_cfuel_for d * S (length sels + ex_cfuel_for d)) (l := sels) (v := @nil str) as (fields & v' & E & _).
  - intros fr Hin. pose proof (rd_sum_in rsl_nodes d (rfr_sels fr)) as H. unfold ex_cfuel_for.
    assert (In (rfr_sels fr) (rd_all_sels d)) by (right; now apply in_map). specialize (H H0). lia.
  - eapply Forall_impl; [|exact Hs]. intros x (l & Hl & Ho). apply rs_occ_nodes in Ho.
    pose proof (rd_sum_in rsl_nodes d l Hl). unfold ex_cfuel_for. lia.
  - unfold ex_cneed in Hc. set (F := ex_cfuel_for d) in *. set (L := length sels).
    set (V := rsl_ih sels + ex_frag_sum (rd_frags d) []) in *.
    assert (V * S F <= (F - 1) * S F) by (apply Nat.mul_le_mono_r; lia).
    assert (1 <= F) by (unfold F, ex_cfuel_for; lia). nia.
  - now exists fields, v'.
Qed.

Definition PB_selset (fuel : nat) : Prop :=
  forall otn oimpls oid sels m, ex_get_object s otn = Some oimpls ->
    sels_ok d m sels -> Forall (tsel otn oimpls) sels -> mergeable sels -> m * c + 1 <= fuel ->
    existsb (fun f => rt_out_of_fuel (snd f)) (rf_selset fuel e otn oid sels) = false.
Definition PB_field (fuel : nat) : Prop :=
  forall otn oimpls oid fdef f0 rest m, ex_get_object s otn = Some oimpls ->
    Forall (field_ok d (S m)) (f0 :: rest) -> Forall (tfield otn oimpls) (f0 :: rest) ->
    td_type_field s otn (rs_name f0) = Some fdef -> Forall (narrowed_by s (fd_ty fdef)) (f0 :: rest) ->
    mergeable (flat_map rs_sels (f0 :: rest)) ->
    m * c + 3 + 2 * maxty <= fuel ->
    rt_out_of_fuel (rf_field fuel e otn oid fdef (f0 :: rest)) = false.
Definition PB_complete (fuel : nat) : Prop :=
  forall t r otn oimpls f0 rest m,
    Forall (field_ok d (S m)) (f0 :: rest) -> fields_at s d otn oimpls t (f0 :: rest) ->
    mergeable (flat_map rs_sels (f0 :: rest)) ->
    m * c + 1 + ty_fuel t <= fuel ->
    rt_out_of_fuel (rf_complete fuel e t r (f0 :: rest)) = false.

Lemma ty_fuel_nullable t : is_non_null t = true -> S (ty_fuel (rf_nullable t)) = ty_fuel t.
Proof. destruct t; cbn; try discriminate; intros _; lia. Qed.

Lemma fields_at_nullable otn oimpls t fields : fields_at s d otn oimpls t fields -> fields_at s d otn oimpls (rf_nullable t) fields.
Proof. unfold fields_at. intros H. eapply Forall_impl; [|exact H]. intros g [G1 G2]. split; [exact G1|]. destruct t; exact G2. Qed.

Lemma ref_fuel_step fuel :
  PB_selset fuel /\ PB_field fuel /\ PB_complete fuel ->
  PB_selset (S fuel) /\ PB_field (S fuel) /\ PB_complete (S fuel).
Proof.
  intros (IHs & IHf & IHc). split; [|split].
  - (* rf_selset *)
    intros otn oimpls oid sels m Hg [Hcf Hs] Hts Hmg Hm'. cbn [rf_selset]. cbn [e rf_s rf_frags rf_vars rf_cx].
    change (ex_cfuel cx) with (ex_cfuel_for d).
    assert (Hdoc : Forall (doc_node d) sels) by (eapply Forall_impl; [|exact Hs]; now intros x [H _]).
    destruct (flatten_enough otn sels Hcf Hdoc) as (fields & v2 & Er). rewrite Er.
    destruct (collect_fuel cx otn oimpls (ex_cfuel cx) sels [] []) as (v & groups & Ec & _); [exact Hcf|].
    assert (Happ : forall c0, ex_type_applies (ex_schema cx) otn oimpls c0 = rf_applies (ex_schema cx) otn (Some c0))
      by (intros c0; now apply applies_eq).
    destruct (collect_eq_reference cx otn oimpls _ _ _ _ _ _ _ Happ Ec Er) as [_ Hgr]. rewrite <- Hgr.
    pose proof (collect_ok s d vars otn oimpls sels m v groups Hs Ec) as Hg1.
    destruct (collect_typed s d vars Hfr otn oimpls _ _ _ _ Hts Ec) as [Hg2 Hg3].
    pose proof (collect_creach cx otn oimpls _ _ _ _ Ec) as Hg4. cbn [cx ex_cx_for ex_schema ex_frags] in Hg4.
    clear Ec Er Hgr. induction groups as [|[key [f0 rest]] groups IHg]; [reflexivity|].
    inversion Hg1 as [|? ? [A0 Ar] Hg1']; subst. inversion Hg2 as [|? ? [B0 Br] Hg2']; subst.
    inversion Hg3 as [|? ? [K0 Kr] Hg3']; subst. inversion Hg4 as [|? ? [C0 Cr] Hg4']; subst. cbn [fst snd] in *.
    cbn [to_ref map flat_map fst snd].
    destruct (td_type_field s otn (rs_name f0)) as [fdef|] eqn:Et; [|cbn [app]; now apply IHg].
    cbn [app existsb snd]. apply orb_false_iff. split; [|now apply IHg].
    destruct m as [|m].
    { destruct A0 as (Hf & _ & Hdep). destruct f0; try discriminate. inversion Hdep. }
    assert (Hok : Forall (tfield otn oimpls) (f0 :: rest)) by (constructor; assumption).
    assert (Hkey : Forall (fun g => rs_key g = key) (f0 :: rest)) by (constructor; assumption).
    assert (Hreach : Forall (ex_creach s (rd_frags d) otn oimpls sels) (f0 :: rest)) by (constructor; assumption).
    assert (Hkeys : forall g1 g2, In g1 (f0 :: rest) -> In g2 (f0 :: rest) -> rs_key g1 = rs_key g2).
    { intros g1 g2 I1 I2. rewrite Forall_forall in Hkey. rewrite (Hkey g1 I1), (Hkey g2 I2). reflexivity. }
    assert (Hnames : Forall (fun g => rs_name g = rs_name f0) (f0 :: rest)).
    { apply Forall_forall. intros g Ig. rewrite Forall_forall in Hreach.
      apply (mergeable_names s (rd_frags d) sels otn oimpls g f0 Hmg Hg); [now apply Hreach|exact C0|]. apply Hkeys; [exact Ig|now left]. }
    pose proof (group_types s d Hu Hm Hcv otn oimpls f0 rest fdef Hg Hok Hnames Et) as Hty.
    assert (Hmg' : mergeable (flat_map rs_sels (f0 :: rest))).
    { apply (mergeable_sub s (rd_frags d) sels otn oimpls (f0 :: rest) Hmg Hg); [discriminate|exact Hreach|exact Hkeys]. }
    apply (IHf otn oimpls oid fdef f0 rest m Hg); auto. unfold c in *. lia.
  - (* rf_field *)
    intros otn oimpls oid fdef f0 rest m Hg Hfo Hok Ht Hty Hmg Hm'. cbn [rf_field]. cbn [e rf_cx rf_s rf_w].
    inversion Hfo as [|? ? H0 _]; subst. destruct H0 as (Hfld & Hd & _).
    pose proof (coerce_args_fuel s d vars otn fdef f0 Ht Hd) as Hca. fold cx in Hca.
    destruct (ex_coerce_args cx fdef f0) as [args|cl|]; [|reflexivity|contradiction].
    destruct (streq (rs_name f0) td_typename); [reflexivity|].
    destruct ((streq (rs_name f0) td_schema || streq (rs_name f0) td_type) && td_is_query_root s otn); [reflexivity|].
    assert (Hcomp : forall r, rt_out_of_fuel (rf_complete fuel e (fd_ty fdef) r (f0 :: rest)) = false).
    { intros r. apply (IHc _ _ otn oimpls _ _ m Hfo); [|exact Hmg|].
      - unfold fields_at. rewrite Forall_forall in Hok, Hty |- *. intros g Hin. split; [now apply Hok|]. now apply Hty.
      - pose proof (type_field_ty_size s otn _ fdef Ht) as Hsz. unfold ty_fuel, maxty, ex_ty_max in *.
        destruct (is_non_null (fd_ty fdef)); lia. }
    destruct (world_resolve w {| ec_obj := oid; ec_field := rs_name f0; ec_args := args |}); try apply Hcomp. reflexivity.
  - (* rf_complete *)
    intros t r otn oimpls f0 rest m Hfo Hfa Hmg Hm'.
    assert (Hskip : r = RvSkip \/ r <> RvSkip) by (destruct r; auto; right; discriminate).
    destruct Hskip as [->|Hr]; [reflexivity|].
    destruct (is_non_null t) eqn:En.
    { rewrite (rf_complete_nonnull fuel e t r (f0 :: rest) En Hr).
      change (rt_out_of_fuel (nn_wrap (rf_complete fuel e (rf_nullable t) r (f0 :: rest))) = false). rewrite rt_oof_wrap.
      apply (IHc _ _ otn oimpls _ _ m Hfo); [now apply fields_at_nullable|exact Hmg|]. pose proof (ty_fuel_nullable t En). lia. }
    destruct t as [n|n|inner|inner]; try discriminate.
    + (* named *)
      cbn [rf_complete is_non_null].
      destruct r as [j|id tn|items| |]; try reflexivity.
      * destruct j; try reflexivity;
          (destruct (rf_is_leaf_type (rf_s e) n); [destruct (rf_leaf_ok (rf_s e) n _); reflexivity|];
           destruct (rf_is_composite (rf_s e) n); reflexivity).
      * destruct (rf_is_leaf_type (rf_s e) n); [reflexivity|].
        destruct (rf_is_composite (rf_s e) n) eqn:Ecomp; [|reflexivity].
        destruct (rf_is_object (rf_s e) tn && existsb (streq tn) (rf_possible_types (rf_s e) n)) eqn:Eobj; [|reflexivity].
        rewrite rt_oof_obj. cbn [e rf_s] in Ecomp, Eobj.
        unfold rf_is_composite in Ecomp. destruct (sch_get_type s n) as [tdef|] eqn:Eg; [|discriminate].
        assert (Hk : match tdef with EObject _ _ _ _ _ _ | EInterface _ _ _ _ _ _ | EUnion _ _ _ _ _ => True | _ => False end)
          by (destruct tdef; try discriminate; exact I).
        pose proof (object_type_eq s n tdef tn Hu Eg Hk) as Ho.
        destruct (ex_object_type s n tdef tn) as [[otn' oimpls']|cl]; [|destruct Ho as [Ho _]; congruence].
        destruct Ho as (_ & -> & Hgo & Happ).
        apply (IHs tn oimpls' id _ m Hgo).
        -- now apply sub_sels_ok.
        -- eapply sub_typed; [|exact Hgo|exact Happ]. exact Hfa.
        -- exact Hmg.
        -- unfold ty_fuel in Hm'. cbn [cv_ty_size is_non_null] in Hm'. lia.
    + (* list *)
      destruct r as [j|id tn|items| |]; try reflexivity.
      * destruct j; reflexivity.
      * rewrite rf_complete_list. unfold rf_list_tree.
        assert (Hitems : existsb rt_out_of_fuel (map (fun it => rf_complete fuel e inner it (f0 :: rest)) (rv_ok_prefix items)) = false).
        { induction (rv_ok_prefix items) as [|it l IHl]; [reflexivity|]. cbn [map existsb]. apply orb_false_iff. split; [|exact IHl].
          apply (IHc _ _ otn oimpls _ _ m Hfo); [|exact Hmg|].
          - unfold fields_at in *. eapply Forall_impl; [|exact Hfa]. intros g [G1 G2]. split; [exact G1|]. exact G2.
          - unfold ty_fuel in *. cbn [cv_ty_size is_non_null] in Hm'. destruct (is_non_null inner); lia. }
        destruct (rv_has_err items); exact Hitems.
Qed.

Lemma ref_fuel_zero : PB_selset 0 /\ PB_field 0 /\ PB_complete 0.
Proof.
  split; [|split].
  - intros otn oimpls oid sels m _ _ _ _ Hm'. lia.
  - intros otn oimpls oid fdef f0 rest m _ _ _ _ _ _ Hm'. lia.
  - intros t r otn oimpls f0 rest m _ _ _ Hm'. lia.
Qed.

Lemma ref_fuel_all fuel : PB_selset fuel /\ PB_field fuel /\ PB_complete fuel.
Proof. induction fuel as [|fuel IH]; [apply ref_fuel_zero|now apply ref_fuel_step]. Qed.

End RefFuel.
