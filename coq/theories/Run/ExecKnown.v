(* The known class of C26 (decidable): the executor completes a field's value against the type of the field's
   definition on the selection set's PARENT type (`field.ty()`), and decides null propagation with the type on the
   concrete OBJECT type (`field_def.ty`).  The two differ exactly when an object type refines ("covariantly") the
   type of an interface field, and then the response can have null at a non-null position, or an object of a
   type the field does not allow.
   known_covariant s d: some object type declares, for a field of an interface it implements, a type different
   from the interface's, and the document selects a field of that name. *)
From ApolloVerif Require Import Base.Chars Ast.Ast Schema.Model Run.Json Run.TypedDoc Run.Execute Run.ExecTop.

Fixpoint ek_ty_eqb (a b : ty) : bool :=
  match a, b with
  | TNamed x, TNamed y | TNonNullNamed x, TNonNullNamed y => streq x y
  | TList x, TList y | TNonNullList x, TNonNullList y => ek_ty_eqb x y
  | _, _ => false
  end.

(* names of interface fields that some implementing object type declares with a different type *)
Definition ek_refined_fields (s : schema) : list str :=
  flat_map (fun t =>
    match t with
    | EObject _ _ impls _ ofields _ =>
        flat_map (fun i =>
          match sch_get_type s (c_val i) with
          | Some (EInterface _ _ _ _ ifields _) =>
              flat_map (fun f =>
                match td_find_fd (fd_name (c_val f)) ofields with
                | Some od => if ek_ty_eqb (fd_ty od) (fd_ty (c_val f)) then [] else [fd_name (c_val f)]
                | None => []
                end) ifields
          | _ => []
          end) impls
    | _ => []
    end) (sch_types s).

Fixpoint rs_mentions (names : list str) (x : rsel) : bool :=
  match x with
  | RsField _ n _ _ _ l =>
      existsb (streq n) names ||
      (fix any (l : list rsel) : bool := match l with [] => false | y :: r => rs_mentions names y || any r end) l
  | RsInline _ _ l =>
      (fix any (l : list rsel) : bool := match l with [] => false | y :: r => rs_mentions names y || any r end) l
  | RsSpread _ _ => false
  end.

Definition known_covariant (s : schema) (d : rdoc) : bool :=
  let names := ek_refined_fields s in
  existsb (existsb (rs_mentions names)) (rd_all_sels d).

(* Second known class: a variable nested inside a list or object literal that is passed where a (custom) scalar
   is expected reaches graphql_value_to_json, which has no variable values: the field fails with a
   SuspectedValidationBug error although the document is valid.
   known_nested_var d (an over-approximation used only to label such errors): some argument value of the document
   is a list or object literal that contains a variable. *)
Fixpoint ek_value_has_var (v : value) : bool :=
  match v with
  | VVar _ => true
  | VList l => (fix any (l : list value) : bool := match l with [] => false | x :: r => ek_value_has_var x || any r end) l
  | VObject fs => (fix any (l : list (str * value)) : bool :=
                     match l with [] => false | (_, x) :: r => ek_value_has_var x || any r end) fs
  | _ => false
  end.

Definition ek_arg_nested_var (v : value) : bool :=
  match v with
  | VList l => existsb ek_value_has_var l
  | VObject fs => existsb (fun kv => ek_value_has_var (snd kv)) fs
  | _ => false
  end.

Fixpoint rs_nested_var (x : rsel) : bool :=
  match x with
  | RsField _ _ args _ _ l =>
      existsb (fun a => ek_arg_nested_var (snd a)) args ||
      (fix any (l : list rsel) : bool := match l with [] => false | y :: r => rs_nested_var y || any r end) l
  | RsInline _ _ l =>
      (fix any (l : list rsel) : bool := match l with [] => false | y :: r => rs_nested_var y || any r end) l
  | RsSpread _ _ => false
  end.

Definition known_nested_var (d : rdoc) : bool := existsb (existsb rs_nested_var) (rd_all_sels d).
