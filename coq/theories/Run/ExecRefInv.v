(* C26, second part: the nodes of a typed document and what is bounded by the document:
   occurrence (rs_occ / doc_node), the size measures of Run/ExecTop.v on nodes, the inline-nesting measures and the
   fuel of collect_fields (ex_collect never runs out of fuel with ex_cfuel_for), the depth relation fdle derived from
   rd_acyclic, and a generic invariant of collect_fields. *)
From Coq Require Import ZArith Lia List.
From ApolloVerif Require Import Base.Chars Ast.Ast Schema.Model Run.Json Run.JsonLemmas Run.Coerce Run.CoerceProofs
  Run.TypedDoc Run.Prog Run.Execute Run.ExecTop Run.ExecProofs Run.ExecRefDefs.
Import ListNotations.
Local Open Scope nat_scope.
Local Open Scope list_scope.

(* ---------------------------------------------------------------- induction on selections *)
Lemma rsel_ind' (P : rsel -> Prop) :
  (forall a n args dirs t l, Forall P l -> P (RsField a n args dirs t l)) ->
  (forall n dirs, P (RsSpread n dirs)) ->
  (forall c dirs l, Forall P l -> P (RsInline c dirs l)) ->
  forall x, P x.
Proof.
  intros Hf Hs Hi. fix IH 1. intros [a n args dirs t l|n dirs|c dirs l].
  - apply Hf. induction l as [|y r IHl]; constructor; [apply IH|exact IHl].
  - apply Hs.
  - apply Hi. induction l as [|y r IHl]; constructor; [apply IH|exact IHl].
Qed.

(* ---------------------------------------------------------------- the measures, on lists *)
Lemma rs_nodes_eq x : rs_nodes x = S (rsl_nodes (rs_sels x)).
Proof.
  destruct x as [a n args dirs t l|n dirs|c dirs l]; cbn [rs_nodes rs_sels]; f_equal; try reflexivity;
    induction l as [|y r IH]; cbn [rsl_nodes fold_right]; try reflexivity; now rewrite IH.
Qed.

Lemma rs_depth_field a n args dirs t l : rs_depth (RsField a n args dirs t l) = S (rsl_depth l).
Proof. reflexivity. Qed.
Lemma rs_depth_inline c dirs l : rs_depth (RsInline c dirs l) = rsl_depth l.
Proof. reflexivity. Qed.

Lemma rs_max_ty_field a n args dirs t l :
  rs_max_ty (RsField a n args dirs t l) = Nat.max (cv_ty_size t) (rsl_max_ty l).
Proof. reflexivity. Qed.
Lemma rs_max_ty_inline c dirs l : rs_max_ty (RsInline c dirs l) = rsl_max_ty l.
Proof. reflexivity. Qed.

Lemma rs_arg_nodes_field a n args dirs t l :
  rs_arg_nodes (RsField a n args dirs t l) =
  (fold_right (fun a acc => (ex_value_nodes (snd a) + acc)%nat) O args + rsl_arg_nodes l)%nat.
Proof. reflexivity. Qed.
Lemma rs_arg_nodes_inline c dirs l : rs_arg_nodes (RsInline c dirs l) = rsl_arg_nodes l.
Proof. reflexivity. Qed.

Lemma rs_ih_inline c dirs l : rs_ih (RsInline c dirs l) = S (rsl_ih l).
Proof. reflexivity. Qed.
Lemma rs_mh_field a n args dirs t l : rs_mh (RsField a n args dirs t l) = Nat.max (rsl_ih l) (rsl_mh l).
Proof. reflexivity. Qed.
Lemma rs_mh_inline c dirs l : rs_mh (RsInline c dirs l) = rsl_mh l.
Proof. reflexivity. Qed.

Lemma fold_max_in {A} (f : A -> nat) l x :
  In x l -> (f x <= fold_right (fun y a => Nat.max (f y) a) O l)%nat.
Proof. induction l as [|y r IH]; intros H; [contradiction|]. cbn [fold_right]. destruct H as [->|H]; [lia|]. specialize (IH H). lia. Qed.

Lemma fold_max_le {A} (f : A -> nat) l b :
  (forall x, In x l -> (f x <= b)%nat) -> (fold_right (fun y a => Nat.max (f y) a) O l <= b)%nat.
Proof.
  induction l as [|y r IH]; intros H; cbn [fold_right]; [lia|].
  assert (f y <= b)%nat by (apply H; now left). assert (fold_right (fun y a => Nat.max (f y) a) O r <= b)%nat by (apply IH; intros; apply H; now right). lia.
Qed.

Lemma fold_max_app {A} (f : A -> nat) l1 l2 :
  fold_right (fun y a => Nat.max (f y) a) O (l1 ++ l2) =
  Nat.max (fold_right (fun y a => Nat.max (f y) a) O l1) (fold_right (fun y a => Nat.max (f y) a) O l2).
Proof. induction l1 as [|y r IH]; cbn [app fold_right]; [reflexivity|]. rewrite IH. lia. Qed.

Lemma fold_sum_in {A} (f : A -> nat) l x :
  In x l -> (f x <= fold_right (fun y a => (f y + a)%nat) O l)%nat.
Proof. induction l as [|y r IH]; intros H; [contradiction|]. cbn [fold_right]. destruct H as [->|H]; [lia|]. specialize (IH H). lia. Qed.

(* ---------------------------------------------------------------- occurrence *)
Inductive rs_occ (x : rsel) : list rsel -> Prop :=
| rs_occ_here l : In x l -> rs_occ x l
| rs_occ_deep y l : In y l -> rs_occ x (rs_sels y) -> rs_occ x l.

Definition doc_node (d : rdoc) (x : rsel) : Prop := exists l, In l (rd_all_sels d) /\ rs_occ x l.

Lemma rs_occ_sub x l y : rs_occ x l -> In y (rs_sels x) -> rs_occ y l.
Proof.
  intros H Hy. induction H as [l Hin|z l Hz _ IH].
  - eapply rs_occ_deep; [exact Hin|]. now apply rs_occ_here.
  - eapply rs_occ_deep; [exact Hz|exact IH].
Qed.

Lemma doc_node_sub d x y : doc_node d x -> In y (rs_sels x) -> doc_node d y.
Proof. intros (l & Hl & Ho) Hy. exists l. split; [assumption|]. eapply rs_occ_sub; eassumption. Qed.

Lemma doc_node_root d x : In x (rd_sels d) -> doc_node d x.
Proof. intros H. exists (rd_sels d). split; [now left|now apply rs_occ_here]. Qed.

Lemma doc_node_frag d fr x : In fr (rd_frags d) -> In x (rfr_sels fr) -> doc_node d x.
Proof.
  intros Hf H. exists (rfr_sels fr). split; [|now apply rs_occ_here]. right. now apply in_map.
Qed.

Lemma find_frag_in n fs fr : ex_find_frag n fs = Some fr -> In fr fs /\ rfr_name fr = n.
Proof.
  induction fs as [|f r IH]; cbn [ex_find_frag]; [discriminate|].
  destruct (streq (rfr_name f) n) eqn:E.
  - intros [= <-]. split; [now left|now apply streq_eq].
  - intros H. destruct (IH H). split; [now right|assumption].
Qed.

(* a sum measure on the nodes *)
Lemma rs_occ_nodes x l : rs_occ x l -> (rs_nodes x <= rsl_nodes l)%nat.
Proof.
  intros H. induction H as [l Hin|y l Hy _ IH].
  - unfold rsl_nodes. now apply (fold_sum_in rs_nodes).
  - assert (rs_nodes y <= rsl_nodes l)%nat by (unfold rsl_nodes; now apply (fold_sum_in rs_nodes)).
    rewrite (rs_nodes_eq y) in H. lia.
Qed.

Lemma rd_sum_in (f : list rsel -> nat) d l : In l (rd_all_sels d) -> (f l <= rd_sum f d)%nat.
Proof. intros H. unfold rd_sum. now apply (fold_sum_in f). Qed.
Lemma rd_max_in (f : list rsel -> nat) d l : In l (rd_all_sels d) -> (f l <= rd_max f d)%nat.
Proof. intros H. unfold rd_max. now apply (fold_max_in f). Qed.

Lemma rs_occ_max_ty x l : rs_occ x l -> (rs_max_ty x <= rsl_max_ty l)%nat.
Proof.
  intros H. induction H as [l Hin|y l Hy _ IH].
  - unfold rsl_max_ty. now apply (fold_max_in rs_max_ty).
  - assert (Hle : (rs_max_ty y <= rsl_max_ty l)%nat) by (unfold rsl_max_ty; now apply (fold_max_in rs_max_ty)).
    destruct y as [a n args dirs t sub|n dirs|c dirs sub]; cbn [rs_sels] in IH.
    + rewrite rs_max_ty_field in Hle. lia.
    + unfold rsl_max_ty in IH at 1. cbn in IH. lia.
    + rewrite rs_max_ty_inline in Hle. lia.
Qed.

Lemma doc_node_ty_size d x : doc_node d x -> rs_is_field x = true ->
  (cv_ty_size (rs_dty x) <= rd_max rsl_max_ty d)%nat.
Proof.
  intros (l & Hl & Ho) Hf. apply rs_occ_max_ty in Ho. pose proof (rd_max_in rsl_max_ty d l Hl).
  destruct x as [a n args dirs t sub|n dirs|c dirs sub]; try discriminate.
  rewrite rs_max_ty_field in Ho. cbn [rs_dty]. lia.
Qed.

Lemma rs_occ_arg_nodes x l : rs_occ x l -> (rs_arg_nodes x <= rsl_arg_nodes l)%nat.
Proof.
  intros H. induction H as [l Hin|y l Hy _ IH].
  - unfold rsl_arg_nodes. now apply (fold_sum_in rs_arg_nodes).
  - assert (Hle : (rs_arg_nodes y <= rsl_arg_nodes l)%nat) by (unfold rsl_arg_nodes; now apply (fold_sum_in rs_arg_nodes)).
    destruct y as [a n args dirs t sub|n dirs|c dirs sub]; cbn [rs_sels] in IH.
    + rewrite rs_arg_nodes_field in Hle. lia.
    + unfold rsl_arg_nodes in IH at 1. cbn in IH. lia.
    + rewrite rs_arg_nodes_inline in Hle. lia.
Qed.

Lemma doc_node_arg_nodes d x a : doc_node d x -> In a (rs_args x) ->
  (ex_value_nodes (snd a) <= rd_sum rsl_arg_nodes d)%nat.
Proof.
  intros (l & Hl & Ho) Ha. apply rs_occ_arg_nodes in Ho. pose proof (rd_sum_in rsl_arg_nodes d l Hl).
  destruct x as [al n args dirs t sub|n dirs|c dirs sub]; cbn [rs_args] in Ha; try contradiction.
  rewrite rs_arg_nodes_field in Ho.
  pose proof (fold_sum_in (fun a : str * value => ex_value_nodes (snd a)) args a Ha) as Hs. cbv beta in Hs. lia.
Qed.

(* the nodes as a list *)
Lemma rs_subs_eq x : rs_subs x = x :: rsl_subs (rs_sels x).
Proof.
  destruct x as [a n args dirs t l|n dirs|c dirs l]; cbn [rs_subs rs_sels]; f_equal;
    try reflexivity; induction l as [|y r IH]; cbn [rsl_subs flat_map]; try reflexivity; now rewrite <- IH.
Qed.

Lemma rs_occ_subs x l : rs_occ x l -> In x (rsl_subs l).
Proof.
  intros H. induction H as [l Hin|y l Hy _ IH]; unfold rsl_subs; apply in_flat_map.
  - exists x. split; [assumption|]. rewrite rs_subs_eq. now left.
  - exists y. split; [assumption|]. rewrite rs_subs_eq. now right.
Qed.

Lemma doc_node_nodes d x : doc_node d x -> In x (rd_nodes d).
Proof. intros (l & Hl & Ho). unfold rd_nodes. apply in_flat_map. exists l. split; [assumption|now apply rs_occ_subs]. Qed.

(* ---------------------------------------------------------------- inline nesting *)
Lemma mh_ih_nodes_x : forall x, (rs_mh x + rs_ih x <= rs_nodes x)%nat.
Proof.
  apply rsel_ind'.
  - intros a n args dirs t l IH. rewrite rs_mh_field, rs_nodes_eq. cbn [rs_ih rs_sels].
    assert (rsl_mh l + rsl_ih l <= rsl_nodes l)%nat.
    { induction IH as [|y r Hy _ IHr]; cbn [rsl_mh rsl_ih rsl_nodes fold_right]; [lia|].
      unfold rsl_mh, rsl_ih, rsl_nodes in IHr. lia. }
    lia.
  - intros n dirs. cbn. lia.
  - intros c dirs l IH. rewrite rs_mh_inline, rs_ih_inline, rs_nodes_eq. cbn [rs_sels].
    assert (rsl_mh l + rsl_ih l <= rsl_nodes l)%nat.
    { induction IH as [|y r Hy _ IHr]; cbn [rsl_mh rsl_ih rsl_nodes fold_right]; [lia|].
      unfold rsl_mh, rsl_ih, rsl_nodes in IHr. lia. }
    lia.
Qed.

Lemma mh_ih_nodes l : (rsl_mh l + rsl_ih l <= rsl_nodes l)%nat.
Proof.
  induction l as [|y r IH]; cbn [rsl_mh rsl_ih rsl_nodes fold_right]; [lia|].
  pose proof (mh_ih_nodes_x y). unfold rsl_mh, rsl_ih, rsl_nodes in IH. lia.
Qed.

Lemma ih_nodes l : (rsl_ih l <= rsl_nodes l)%nat.
Proof. pose proof (mh_ih_nodes l). lia. Qed.

(* the sub-selections of a field that occurs in l *)
Lemma rs_occ_mh x l : rs_occ x l -> rs_is_field x = true -> (rsl_ih (rs_sels x) <= rsl_mh l)%nat.
Proof.
  intros H Hf. induction H as [l Hin|y l Hy _ IH].
  - assert (rs_mh x <= rsl_mh l)%nat by (unfold rsl_mh; now apply (fold_max_in rs_mh)).
    destruct x as [a n args dirs t sub|n dirs|c dirs sub]; try discriminate.
    rewrite rs_mh_field in H. cbn [rs_sels]. lia.
  - assert (Hle : (rs_mh y <= rsl_mh l)%nat) by (unfold rsl_mh; now apply (fold_max_in rs_mh)).
    destruct y as [a n args dirs t sub|n dirs|c dirs sub]; cbn [rs_sels] in IH.
    + rewrite rs_mh_field in Hle. lia.
    + unfold rsl_mh in IH at 1. cbn in IH. lia.
    + rewrite rs_mh_inline in Hle. lia.
Qed.

Lemma rsl_ih_flat_map (fields : list rsel) b :
  (forall g, In g fields -> (rsl_ih (rs_sels g) <= b)%nat) -> (rsl_ih (flat_map rs_sels fields) <= b)%nat.
Proof.
  induction fields as [|g r IH]; intros H; cbn [flat_map]; [cbn; lia|].
  unfold rsl_ih. rewrite fold_max_app. fold (rsl_ih (rs_sels g)). fold (rsl_ih (flat_map rs_sels r)).
  assert (rsl_ih (rs_sels g) <= b)%nat by (apply H; now left).
  assert (rsl_ih (flat_map rs_sels r) <= b)%nat by (apply IH; intros; apply H; now right). lia.
Qed.

(* ---------------------------------------------------------------- the fuel of collect_fields *)
Lemma frag_sum_mono frags v v' : incl v v' -> (ex_frag_sum frags v' <= ex_frag_sum frags v)%nat.
Proof.
  intros Hi. induction frags as [|f r IH]; cbn [ex_frag_sum fold_right]; [lia|].
  fold (ex_frag_sum r v). fold (ex_frag_sum r v').
  destruct (existsb (streq (rfr_name f)) v) eqn:E.
  - apply existsb_streq in E. apply Hi in E. apply existsb_streq in E. rewrite E. exact IH.
  - destruct (existsb (streq (rfr_name f)) v'); lia.
Qed.

Lemma frag_sum_find frags name v fr :
  ex_find_frag name frags = Some fr -> existsb (streq name) v = false ->
  (ex_frag_sum frags (name :: v) + S (rsl_ih (rfr_sels fr)) <= ex_frag_sum frags v)%nat.
Proof.
  intros Hf Hv. induction frags as [|f r IH]; cbn [ex_find_frag] in Hf; [discriminate|].
  cbn [ex_frag_sum fold_right]. fold (ex_frag_sum r v). fold (ex_frag_sum r (name :: v)).
  destruct (streq (rfr_name f) name) eqn:E.
  - injection Hf as <-. apply streq_eq in E. rewrite E. cbn [existsb]. rewrite streq_refl. cbn [orb]. rewrite Hv.
    pose proof (frag_sum_mono r v (name :: v)). assert (incl v (name :: v)) by (intros z Hz; now right). specialize (H H0). lia.
  - specialize (IH Hf). cbn [existsb]. rewrite E. cbn [orb].
    destruct (existsb (streq (rfr_name f)) v); lia.
Qed.

Section Collect.
Variable cx : ectx.
Variables (otn : str) (oimpls : list str).

Lemma collect_fuel : forall fuel l v g,
  (ex_cneed (ex_frags cx) l v <= fuel)%nat ->
  exists v' g', ex_collect fuel cx otn oimpls l v g = Some (v', g') /\ incl v v'.
Proof.
  induction fuel as [|fuel IHf]; intros l v g H; [unfold ex_cneed in H; lia|].
  cbn [ex_collect]. unfold ex_cneed in H. assert (H' : (rsl_ih l + ex_frag_sum (ex_frags cx) v <= fuel)%nat) by lia.
  clear H. revert v g H'. induction l as [|x r IHl]; intros v g H; cbn [ex_collect_sels].
  - exists v, g. split; [reflexivity|apply incl_refl].
  - cbn [rsl_ih fold_right] in H. fold (rsl_ih r) in H.
    assert (Hr : forall v1 g1, incl v v1 -> exists v' g', ex_collect_sels (ex_collect fuel cx otn oimpls) cx otn oimpls r v1 g1 = Some (v', g') /\ incl v v').
    { intros v1 g1 Hi. destruct (IHl v1 g1) as (v' & g' & E & Hi').
      - pose proof (frag_sum_mono (ex_frags cx) v v1 Hi). lia.
      - exists v', g'. split; [exact E|]. eapply incl_tran; eassumption. }
    destruct (ex_skipped x (ex_vars cx)); [apply Hr, incl_refl|].
    destruct x as [a n args dirs t sub|name dirs|cond dirs sub].
    + apply Hr, incl_refl.
    + destruct (existsb (streq name) v) eqn:Ev; [apply Hr, incl_refl|].
      assert (Hi1 : incl v (name :: v)) by (intros z Hz; now right).
      destruct (ex_find_frag name (ex_frags cx)) as [fr|] eqn:Ef; [|apply Hr, Hi1].
      destruct (ex_type_applies (ex_schema cx) otn oimpls (rfr_cond fr)); [|apply Hr, Hi1].
      pose proof (frag_sum_find _ _ _ _ Ef Ev) as Hs.
      destruct (IHf (rfr_sels fr) (name :: v) g) as (v1 & g1 & E1 & Hi2); [unfold ex_cneed; lia|].
      rewrite E1. apply Hr. eapply incl_tran; eassumption.
    + destruct (match cond with Some c => ex_type_applies (ex_schema cx) otn oimpls c | None => true end); [|apply Hr, incl_refl].
      rewrite rs_ih_inline in H.
      destruct (IHf sub v g) as (v1 & g1 & E1 & Hi2); [unfold ex_cneed; lia|].
      rewrite E1. apply Hr. exact Hi2.
Qed.

(* a generic invariant of collect_fields: P holds of the selections that are traversed, Q of the collected fields *)
Definition groups_all (Q : rsel -> Prop) (g : egroups) : Prop :=
  Forall (fun e => Q (fst (snd e)) /\ Forall Q (snd (snd e))) g.

Lemma group_push_all (Q : rsel -> Prop) k f g : Q f -> groups_all Q g -> groups_all Q (ex_group_push k f g).
Proof.
  intros Hf Hg. induction Hg as [|[k' [f0 rest]] r [H0 Hr] Hg' IH]; cbn [ex_group_push].
  - constructor; [|constructor]. cbn. split; [assumption|constructor].
  - destruct (streq k k'); constructor; cbn [fst snd] in *.
    + split; [assumption|]. apply Forall_app. split; [assumption|constructor; [assumption|constructor]].
    + exact Hg'.
    + now split.
    + exact IH.
Qed.

Section Inv.
Variables P Q : rsel -> Prop.
Hypothesis HPQ : forall x, P x -> rs_is_field x = true -> Q x.
Hypothesis HPi : forall cond dirs sub, P (RsInline cond dirs sub) ->
  match cond with Some c => ex_type_applies (ex_schema cx) otn oimpls c | None => true end = true -> Forall P sub.
Hypothesis HPs : forall name dirs fr, P (RsSpread name dirs) -> ex_find_frag name (ex_frags cx) = Some fr ->
  ex_type_applies (ex_schema cx) otn oimpls (rfr_cond fr) = true -> Forall P (rfr_sels fr).

Lemma collect_inv : forall fuel l v g v' g',
  ex_collect fuel cx otn oimpls l v g = Some (v', g') -> Forall P l -> groups_all Q g -> groups_all Q g'.
Proof.
  induction fuel as [|fuel IHf]; intros l v g v' g' H; [discriminate|]. cbn [ex_collect] in H.
  revert v g H. induction l as [|x r IHl]; intros v g H Hl Hg; cbn [ex_collect_sels] in H.
  - now injection H as <- <-.
  - inversion Hl as [|? ? Hx Hr]; subst.
    destruct (ex_skipped x (ex_vars cx)); [eauto|].
    destruct x as [a n args dirs t sub|name dirs|cond dirs sub].
    + eapply IHl; [exact H|exact Hr|]. apply group_push_all; [|exact Hg]. now apply HPQ.
    + destruct (existsb (streq name) v); [eauto|].
      destruct (ex_find_frag name (ex_frags cx)) as [fr|] eqn:Ef; [|eauto].
      destruct (ex_type_applies (ex_schema cx) otn oimpls (rfr_cond fr)) eqn:Ea; [|eauto].
      destruct (ex_collect fuel cx otn oimpls (rfr_sels fr) (name :: v) g) as [[v1 g1]|] eqn:E1; [|discriminate].
      eapply IHl; [exact H|exact Hr|]. eapply IHf; [exact E1| |exact Hg]. eapply HPs; eassumption.
    + destruct (match cond with Some c => ex_type_applies (ex_schema cx) otn oimpls c | None => true end) eqn:Ea; [|eauto].
      destruct (ex_collect fuel cx otn oimpls sub v g) as [[v1 g1]|] eqn:E1; [|discriminate].
      eapply IHl; [exact H|exact Hr|]. eapply IHf; [exact E1| |exact Hg]. eapply HPi; eassumption.
Qed.
End Inv.

(* every group's fields have the group's response key *)
Definition groups_keyed (g : egroups) : Prop :=
  Forall (fun e => rs_key (fst (snd e)) = fst e /\ Forall (fun f => rs_key f = fst e) (snd (snd e))) g.

Lemma group_push_keyed f g : groups_keyed g -> groups_keyed (ex_group_push (rs_key f) f g).
Proof.
  intros Hg. induction Hg as [|[k' [f0 rest]] r [H0 Hr] Hg' IH]; cbn [ex_group_push].
  - constructor; [|constructor]. cbn. split; [reflexivity|constructor].
  - destruct (streq (rs_key f) k') eqn:E; constructor; cbn [fst snd] in *.
    + split; [assumption|]. apply Forall_app. split; [assumption|]. constructor; [now apply streq_eq|constructor].
    + exact Hg'.
    + now split.
    + exact IH.
Qed.

Lemma collect_keyed : forall fuel l v g v' g',
  ex_collect fuel cx otn oimpls l v g = Some (v', g') -> groups_keyed g -> groups_keyed g'.
Proof.
  induction fuel as [|fuel IHf]; intros l v g v' g' H; [discriminate|]. cbn [ex_collect] in H.
  revert v g H. induction l as [|x r IHl]; intros v g H Hg; cbn [ex_collect_sels] in H.
  - now injection H as <- <-.
  - destruct (ex_skipped x (ex_vars cx)); [eauto|].
    destruct x as [a n args dirs t sub|name dirs|cond dirs sub].
    + eapply IHl; [exact H|]. now apply group_push_keyed.
    + destruct (existsb (streq name) v); [eauto|].
      destruct (ex_find_frag name (ex_frags cx)) as [fr|]; [|eauto].
      destruct (ex_type_applies (ex_schema cx) otn oimpls (rfr_cond fr)); [|eauto].
      destruct (ex_collect fuel cx otn oimpls (rfr_sels fr) (name :: v) g) as [[v1 g1]|] eqn:E1; [|discriminate].
      eapply IHl; [exact H|]. eapply IHf; eassumption.
    + destruct (match cond with Some c => ex_type_applies (ex_schema cx) otn oimpls c | None => true end); [|eauto].
      destruct (ex_collect fuel cx otn oimpls sub v g) as [[v1 g1]|] eqn:E1; [|discriminate].
      eapply IHl; [exact H|]. eapply IHf; eassumption.
Qed.

End Collect.

(* ---------------------------------------------------------------- ex_cfuel_for suffices *)
Section CFuel.
Variable d : rdoc.

Definition frag_ih_sum (frags : list rfrag) : nat := fold_right (fun f a => (rsl_ih (rfr_sels f) + a)%nat) O frags.
Definition frag_nodes_sum (frags : list rfrag) : nat := fold_right (fun f a => (rsl_nodes (rfr_sels f) + a)%nat) O frags.

Lemma frag_sum_nil frags : ex_frag_sum frags [] = (length frags + frag_ih_sum frags)%nat.
Proof. induction frags as [|f r IH]; [reflexivity|].
  unfold ex_frag_sum, frag_ih_sum in *. cbn [fold_right existsb length] in *. lia. Qed.

Lemma frag_ih_nodes frags : (frag_ih_sum frags <= frag_nodes_sum frags)%nat.
Proof. induction frags as [|f r IH]; cbn [frag_ih_sum frag_nodes_sum fold_right]; [lia|].
  pose proof (ih_nodes (rfr_sels f)). unfold frag_ih_sum, frag_nodes_sum in IH. lia. Qed.

(* one fragment distinguished: its own inline nesting and that of a field inside it share its nodes *)
Lemma frag_ih_nodes_in frags fr : In fr frags ->
  (frag_ih_sum frags + rsl_mh (rfr_sels fr) <= frag_nodes_sum frags)%nat.
Proof.
  induction frags as [|f r IH]; intros H; [contradiction|]. cbn [frag_ih_sum frag_nodes_sum fold_right].
  fold (frag_ih_sum r). fold (frag_nodes_sum r). destruct H as [->|H].
  - pose proof (mh_ih_nodes (rfr_sels fr)). pose proof (frag_ih_nodes r). lia.
  - specialize (IH H). pose proof (ih_nodes (rfr_sels f)). lia.
Qed.

Lemma rd_sum_nodes_eq : rd_sum rsl_nodes d = (rsl_nodes (rd_sels d) + frag_nodes_sum (rd_frags d))%nat.
Proof.
  unfold rd_sum, rd_all_sels. cbn [fold_right]. f_equal.
  induction (rd_frags d) as [|f r IH]; cbn [map fold_right frag_nodes_sum]; [reflexivity|].
  fold (frag_nodes_sum r). now rewrite IH.
Qed.

Lemma cneed_root : (ex_cneed (rd_frags d) (rd_sels d) [] <= ex_cfuel_for d)%nat.
Proof.
  unfold ex_cneed, ex_cfuel_for. rewrite frag_sum_nil, rd_sum_nodes_eq.
  pose proof (ih_nodes (rd_sels d)). pose proof (frag_ih_nodes (rd_frags d)). lia.
Qed.

Lemma field_sub_ih g : doc_node d g -> rs_is_field g = true ->
  (rsl_ih (rs_sels g) + frag_ih_sum (rd_frags d) <= rd_sum rsl_nodes d)%nat.
Proof.
  intros (l & Hl & Ho) Hf. pose proof (rs_occ_mh _ _ Ho Hf) as Hm. rewrite rd_sum_nodes_eq.
  destruct Hl as [<-|Hl].
  - pose proof (mh_ih_nodes (rd_sels d)). pose proof (frag_ih_nodes (rd_frags d)). lia.
  - apply in_map_iff in Hl. destruct Hl as (fr & <- & Hfr).
    pose proof (frag_ih_nodes_in _ _ Hfr). lia.
Qed.

Lemma cneed_fields fields : Forall (fun g => doc_node d g /\ rs_is_field g = true) fields ->
  (ex_cneed (rd_frags d) (flat_map rs_sels fields) [] <= ex_cfuel_for d)%nat.
Proof.
  intros H. unfold ex_cneed, ex_cfuel_for. rewrite frag_sum_nil.
  assert (rsl_ih (flat_map rs_sels fields) <= rd_sum rsl_nodes d - frag_ih_sum (rd_frags d))%nat.
  { apply rsl_ih_flat_map. intros g Hg. rewrite Forall_forall in H. destruct (H g Hg) as [Hd Hf].
    pose proof (field_sub_ih g Hd Hf). lia. }
  pose proof (frag_ih_nodes (rd_frags d)). rewrite rd_sum_nodes_eq in *. lia.
Qed.

End CFuel.

(* ---------------------------------------------------------------- the depth of field nesting, through fragments *)
Section Depth.
Variable frags : list rfrag.

(* fdle_x x m: every chain of nested fields below x (entering fragments) has at most m fields *)
Inductive fdle_x : rsel -> nat -> Prop :=
| fdx_field a n args dirs t sub m :
    Forall (fun y => fdle_x y m) sub -> fdle_x (RsField a n args dirs t sub) (S m)
| fdx_inline c dirs sub m : Forall (fun y => fdle_x y m) sub -> fdle_x (RsInline c dirs sub) m
| fdx_spread_none name dirs m : ex_find_frag name frags = None -> fdle_x (RsSpread name dirs) m
| fdx_spread name dirs fr m :
    ex_find_frag name frags = Some fr -> Forall (fun y => fdle_x y m) (rfr_sels fr) -> fdle_x (RsSpread name dirs) m.

Variable D : nat.
Hypothesis HD : forall f, In f frags -> (rsl_depth (rfr_sels f) <= D)%nat.

Lemma fr_ok_x_fdle (k : nat) :
  (forall l, fr_ok k frags l = true -> forall m, (rsl_depth l + (k - 1) * D <= m)%nat -> Forall (fun y => fdle_x y m) l) ->
  forall x, fr_ok_x (fr_ok k frags) frags x = true -> forall m, (rs_depth x + k * D <= m)%nat -> fdle_x x m.
Proof.
  intros IHk. apply (rsel_ind' (fun x => fr_ok_x (fr_ok k frags) frags x = true -> forall m, (rs_depth x + k * D <= m)%nat -> fdle_x x m)).
  - intros a n args dirs t l IH H m Hm. rewrite rs_depth_field in Hm. destruct m as [|m]; [lia|].
    constructor. cbn [fr_ok_x] in H. induction IH as [|y r Hy _ IHr]; constructor.
    + apply andb_true_iff in H. destruct H as [H1 H2]. apply Hy; [exact H1|]. cbn [rsl_depth fold_right] in Hm. lia.
    + apply andb_true_iff in H. destruct H as [H1 H2]. apply IHr; [exact H2|]. cbn [rsl_depth fold_right] in Hm.
      fold (rsl_depth r) in Hm. lia.
  - intros n dirs H m Hm. cbn [fr_ok_x] in H. destruct (ex_find_frag n frags) as [fr|] eqn:Ef.
    + eapply fdx_spread; [exact Ef|]. apply IHk; [exact H|]. apply find_frag_in in Ef. destruct Ef as [Hin _].
      pose proof (HD _ Hin). destruct k as [|k]; [cbn in H; discriminate|]. cbn [Nat.sub]. rewrite Nat.sub_0_r. cbn [Nat.mul] in Hm. lia.
    + now apply fdx_spread_none.
  - intros c dirs l IH H m Hm. rewrite rs_depth_inline in Hm.
    constructor. cbn [fr_ok_x] in H. induction IH as [|y r Hy _ IHr]; constructor.
    + apply andb_true_iff in H. destruct H as [H1 H2]. apply Hy; [exact H1|]. cbn [rsl_depth fold_right] in Hm. lia.
    + apply andb_true_iff in H. destruct H as [H1 H2]. apply IHr; [exact H2|]. cbn [rsl_depth fold_right] in Hm.
      fold (rsl_depth r) in Hm. lia.
Qed.

Lemma fr_ok_fdle : forall k l, fr_ok k frags l = true ->
  forall m, (rsl_depth l + (k - 1) * D <= m)%nat -> Forall (fun y => fdle_x y m) l.
Proof.
  induction k as [|k IHk]; intros l H m Hm; [discriminate|]. cbn [fr_ok] in H.
  cbn [Nat.sub] in Hm. rewrite Nat.sub_0_r in Hm.
  rewrite forallb_forall in H. apply Forall_forall. intros x Hx.
  apply (fr_ok_x_fdle k IHk x (H x Hx)).
  assert (rs_depth x <= rsl_depth l)%nat by (unfold rsl_depth; now apply (fold_max_in rs_depth)). lia.
Qed.

End Depth.
