(* C27: the asynchronous semantics of programs (Run/Prog.v).
   A future is a resumption: Done, or Pending (poll again), or — during a poll — the call of a resolver
   (ACall: the moment `resolve_field` is invoked; this is what the call log records).
   Sequential await is pbind (Run/Prog.v).  A resolver future / stream item is Pending `sigma i` times before it
   is ready, where i is the index of the await point in the order they are reached (the schedule).
   The executor polls the root future until it is ready, counting the polls. *)
From ApolloVerif Require Import Base.Chars Ast.Ast Run.Json Run.Prog.
From Coq Require Import Arith Lia.
Local Open Scope nat_scope.
Local Open Scope list_scope.

Inductive async (A : Type) :=
| ADone (a : A)
| APending (k : unit -> async A)
| ACall (c : ecall) (k : async A).
Arguments ADone {A}. Arguments APending {A}. Arguments ACall {A}.

(* a future that answers Pending n times, then behaves as a *)
Fixpoint adelay {A} (n : nat) (a : async A) : async A :=
  match n with O => a | S n => APending (fun _ => adelay n a) end.

(* execute_async: every await point i is pending (sigma i) times; the value is the program's result together
   with the number of await points passed *)
Fixpoint to_async {A} (sigma : nat -> nat) (w : world) (p : prog A) (i : nat) : async (A * nat) :=
  match p with
  | PRet a => ADone (a, i)
  | PCall c k => ACall c (adelay (sigma i) (to_async sigma w (k (world_resolve w c)) (S i)))
  | PNext k => adelay (sigma i) (to_async sigma w k (S i))
  end.

(* the poll loop: result, resolver calls in call order, number of polls of the root future *)
Fixpoint run_async {A} (a : async A) : A * list ecall * nat :=
  match a with
  | ADone x => (x, [], 1)
  | APending k => let '(x, ev, n) := run_async (k tt) in (x, ev, S n)
  | ACall c k => let '(x, ev, n) := run_async k in (x, c :: ev, n)
  end.

(* number of await points a synchronous run passes *)
Fixpoint sync_points {A} (w : world) (p : prog A) : nat :=
  match p with
  | PRet _ => O
  | PCall c k => S (sync_points w (k (world_resolve w c)))
  | PNext k => S (sync_points w k)
  end.

Fixpoint sum_sigma (sigma : nat -> nat) (i n : nat) : nat :=
  match n with O => O | S n => sigma i + sum_sigma sigma (S i) n end.

Lemma run_async_delay {A} n (a : async A) :
  run_async (adelay n a) = let '(x, ev, m) := run_async a in (x, ev, n + m).
Proof.
  induction n as [|n IH]; cbn [adelay run_async].
  - destruct (run_async a) as [[x ev] m]. reflexivity.
  - rewrite IH. destruct (run_async a) as [[x ev] m]. reflexivity.
Qed.

Lemma run_sync_log {A} w (p : prog A) log :
  run_sync w p log = (fst (run_sync w p []), snd (run_sync w p []) ++ log).
Proof.
  revert log. induction p as [a|c k IH|k IH]; intros log; cbn [run_sync].
  - reflexivity.
  - rewrite (IH _ (c :: log)), (IH _ [c]). cbn [fst snd]. now rewrite <- app_assoc.
  - apply IH.
Qed.

(* the asynchronous run, under ANY schedule, returns the result of the synchronous run, makes the same
   resolver calls in the same order, and polls exactly 1 + the sum of the pending counts of the await points
   it passes *)
Lemma async_schedule_independent {A} sigma w (p : prog A) i :
  run_async (to_async sigma w p i) =
  (fst (run_sync w p []), i + sync_points w p, rev (snd (run_sync w p [])),
   1 + sum_sigma sigma i (sync_points w p)).
Proof.
  revert i. induction p as [a|c k IH|k IH]; intros i; cbn [to_async run_async run_sync sync_points sum_sigma].
  - cbn. now rewrite Nat.add_0_r.
  - rewrite run_async_delay, IH. rewrite (run_sync_log w _ [c]). cbn [fst snd].
    rewrite rev_app_distr. cbn [rev app].
    replace (S i + sync_points w (k (world_resolve w c))) with (i + S (sync_points w (k (world_resolve w c)))) by lia.
    f_equal. lia.
  - rewrite run_async_delay, IH.
    replace (S i + sync_points w k) with (i + S (sync_points w k)) by lia.
    f_equal. lia.
Qed.

(* ---------------------------------------------------------------- concurrent composition (not what the code does) *)
(* one poll: runs until the future is ready or pending; the resolver calls made during this poll *)
Fixpoint apoll {A} (a : async A) : list ecall * (A + async A) :=
  match a with
  | ADone x => ([], inl x)
  | APending k => ([], inr (k tt))
  | ACall c k => let (ev, r) := apoll k in (c :: ev, r)
  end.

(* join(a, b): each round polls a, then b, until both are ready (fuel-bounded; None = out of fuel) *)
Fixpoint run_join {A B} (fuel : nat) (a : A + async A) (b : B + async B) : option (A * B * list ecall) :=
  match fuel with
  | O => None
  | S fuel =>
      match a, b with
      | inl x, inl y => Some (x, y, [])
      | _, _ =>
          let (ev1, a') := match a with inl x => ([], inl x) | inr fa => apoll fa end in
          let (ev2, b') := match b with inl y => ([], inl y) | inr fb => apoll fb end in
          match run_join fuel a' b' with
          | Some (x, y, ev) => Some (x, y, ev1 ++ ev2 ++ ev)
          | None => None
          end
      end
  end.
