(* The interaction structure of execution: a program is a tree of await points.
     PCall c k : `object.resolve_field(&info).await`  — the resolver is called with `c`, execution continues with
                 the resolved value;
     PNext k   : `stream.next().await` on the stream of a resolved list (the item itself is part of the resolved
                 list value; only the await point matters).
   Sequential composition is pbind.  The synchronous semantics (execute_sync: every await is immediately ready)
   is run_sync; the asynchronous semantics is in Run/Async.v.  The executor of Run/Execute.v is written once,
   as a program. *)
From ApolloVerif Require Import Base.Chars Ast.Ast Run.Json.

(* what a resolver returns: Result<ResolvedValue, FieldError>, list items likewise *)
Inductive resolved :=
| RvLeaf (j : json)
| RvObject (id : N) (tyname : str)
| RvList (items : list resolved)
| RvErr
| RvSkip.

(* one resolver call: the object (identity and claimed type), the field name, the coerced arguments *)
Record ecall := { ec_obj : N; ec_field : str; ec_args : jmap }.

Inductive prog (A : Type) :=
| PRet (a : A)
| PCall (c : ecall) (k : resolved -> prog A)
| PNext (k : prog A).
Arguments PRet {A}. Arguments PCall {A}. Arguments PNext {A}.

Fixpoint pbind {A B} (p : prog A) (f : A -> prog B) : prog B :=
  match p with
  | PRet a => f a
  | PCall c k => PCall c (fun r => pbind (k r) f)
  | PNext k => PNext (pbind k f)
  end.

(* the resolver world as data: (object id, field name) -> behaviour *)
Inductive behav :=
| BhLeaf (j : json)
| BhObject (id : N) (tyname : str)
| BhList (items : list behav)
| BhErr
| BhSkip
| BhEcho.          (* leaf: the coerced arguments as a JSON object *)

Definition world := list (N * str * behav).

Fixpoint behav_resolved (args : jmap) (b : behav) : resolved :=
  match b with
  | BhLeaf j => RvLeaf j
  | BhObject id t => RvObject id t
  | BhList items => RvList ((fix go (l : list behav) : list resolved :=
                               match l with [] => [] | x :: r => behav_resolved args x :: go r end) items)
  | BhErr => RvErr
  | BhSkip => RvSkip
  | BhEcho => RvLeaf (JObj args)
  end.

Fixpoint world_lookup (w : world) (obj : N) (field : str) : behav :=
  match w with
  | [] => BhErr
  | (o, f, b) :: r => if (o =? obj)%N && streq f field then b else world_lookup r obj field
  end.

Definition world_resolve (w : world) (c : ecall) : resolved :=
  behav_resolved (ec_args c) (world_lookup w (ec_obj c) (ec_field c)).

(* execute_sync: run to completion, recording the resolver calls in order (newest first) *)
Fixpoint run_sync {A} (w : world) (p : prog A) (log : list ecall) : A * list ecall :=
  match p with
  | PRet a => (a, log)
  | PCall c k => run_sync w (k (world_resolve w c)) (c :: log)
  | PNext k => run_sync w k log
  end.

Lemma run_sync_bind {A B} w (p : prog A) (f : A -> prog B) log :
  run_sync w (pbind p f) log = let (a, log') := run_sync w p log in run_sync w (f a) log'.
Proof.
  revert log. induction p as [a|c k IH|k IH]; intros log; cbn [pbind run_sync].
  - reflexivity.
  - apply IH.
  - apply IH.
Qed.
