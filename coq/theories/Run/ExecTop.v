(* Execution::execute_common: root type, variable coercion (Run/Coerce.v), the root selection set; the response.
   The fuel handed to the executor is computed from the document and the schema (ex_fuel_for). *)
From Coq Require Import ZArith.
From ApolloVerif Require Import Base.Chars Ast.Ast Schema.Model Run.Json Run.Coerce Run.TypedDoc Run.Prog Run.Execute.
Local Open Scope list_scope.

(* ---- sizes ---- *)
Fixpoint rs_nodes (x : rsel) : nat :=
  S (match x with
     | RsField _ _ _ _ _ l | RsInline _ _ l =>
         (fix go (l : list rsel) : nat := match l with [] => O | y :: r => (rs_nodes y + go r)%nat end) l
     | RsSpread _ _ => O
     end).

Definition rsl_nodes (l : list rsel) : nat := fold_right (fun x a => (rs_nodes x + a)%nat) O l.

(* nesting depth of fields *)
Fixpoint rs_depth (x : rsel) : nat :=
  match x with
  | RsField _ _ _ _ _ l =>
      S ((fix go (l : list rsel) : nat := match l with [] => O | y :: r => Nat.max (rs_depth y) (go r) end) l)
  | RsInline _ _ l =>
      (fix go (l : list rsel) : nat := match l with [] => O | y :: r => Nat.max (rs_depth y) (go r) end) l
  | RsSpread _ _ => O
  end.

Definition rsl_depth (l : list rsel) : nat := fold_right (fun x a => Nat.max (rs_depth x) a) O l.

(* largest declared type of a selected field *)
Fixpoint rs_max_ty (x : rsel) : nat :=
  match x with
  | RsField _ _ _ _ t l =>
      Nat.max (cv_ty_size t)
        ((fix go (l : list rsel) : nat := match l with [] => O | y :: r => Nat.max (rs_max_ty y) (go r) end) l)
  | RsInline _ _ l =>
      (fix go (l : list rsel) : nat := match l with [] => O | y :: r => Nat.max (rs_max_ty y) (go r) end) l
  | RsSpread _ _ => O
  end.

Definition rsl_max_ty (l : list rsel) : nat := fold_right (fun x a => Nat.max (rs_max_ty x) a) O l.

Fixpoint ex_value_nodes (v : value) : nat :=
  S (match v with
     | VList l => (fix go (l : list value) : nat := match l with [] => O | x :: r => (ex_value_nodes x + go r)%nat end) l
     | VObject fs => (fix go (l : list (str * value)) : nat :=
                        match l with [] => O | (_, x) :: r => (ex_value_nodes x + go r)%nat end) fs
     | _ => O
     end).

Fixpoint rs_arg_nodes (x : rsel) : nat :=
  match x with
  | RsField _ _ args _ _ l =>
      (fold_right (fun a acc => (ex_value_nodes (snd a) + acc)%nat) O args +
       (fix go (l : list rsel) : nat := match l with [] => O | y :: r => (rs_arg_nodes y + go r)%nat end) l)%nat
  | RsInline _ _ l =>
      (fix go (l : list rsel) : nat := match l with [] => O | y :: r => (rs_arg_nodes y + go r)%nat end) l
  | RsSpread _ _ => O
  end.

Definition rsl_arg_nodes (l : list rsel) : nat := fold_right (fun x a => (rs_arg_nodes x + a)%nat) O l.

Definition rd_all_sels (d : rdoc) : list (list rsel) := rd_sels d :: map rfr_sels (rd_frags d).

Definition rd_sum (f : list rsel -> nat) (d : rdoc) : nat := fold_right (fun l a => (f l + a)%nat) O (rd_all_sels d).
Definition rd_max (f : list rsel -> nat) (d : rdoc) : nat := fold_right (fun l a => Nat.max (f l) a) O (rd_all_sels d).

(* every type an argument or an input field can have *)
Definition ex_schema_arg_ty_max (s : schema) : nat :=
  fold_right (fun t acc =>
    match t with
    | EInput _ _ _ fs _ => fold_right (fun f a => Nat.max (cv_ty_size (iv_ty (c_val f))) a) acc fs
    | EObject _ _ _ _ fs _ | EInterface _ _ _ _ fs _ =>
        fold_right (fun f a => fold_right (fun iv a' => Nat.max (cv_ty_size (iv_ty iv)) a') a (fd_args (c_val f))) acc fs
    | _ => acc
    end) 1%nat (sch_types s).

(* every type a field can have: the declared types of the fields of the object and interface types (the meta-fields
   have types of size 1) *)
Definition ex_schema_field_tys (s : schema) : list ty :=
  flat_map (fun t =>
    match t with
    | EObject _ _ _ _ fs _ | EInterface _ _ _ _ fs _ => map (fun f => fd_ty (c_val f)) fs
    | _ => []
    end) (sch_types s).

Definition ex_schema_field_ty_max (s : schema) : nat :=
  fold_right (fun t a => Nat.max (cv_ty_size t) a) 1%nat (ex_schema_field_tys s).

(* largest type a value is completed against: a field's type on the concrete object type (schema); the types written
   in the typed document are types of the schema too, they are kept in the bound for the proofs about documents *)
Definition ex_ty_max (s : schema) (d : rdoc) : nat := Nat.max (rd_max rsl_max_ty d) (ex_schema_field_ty_max s).

Definition ex_cfuel_for (d : rdoc) : nat := S (S (rd_sum rsl_nodes d + length (rd_frags d))).
Definition ex_afuel_for (s : schema) (d : rdoc) : nat :=
  S (S (rd_sum rsl_arg_nodes d) * S (S (ex_schema_arg_ty_max s))).
(* levels of nested selection sets: a path of fields passes through each fragment at most once *)
Definition ex_fuel_for (s : schema) (d : rdoc) : nat :=
  S (S (rd_max rsl_depth d) * S (length (rd_frags d)) * (2 * ex_ty_max s d + 8)).

Record eresponse := { er_data : option jmap; er_errors : list gerr }.

Inductive eoutcome :=
| EoResponse (r : eresponse)
| EoRequestError
| EoInvalid          (* the typed document cannot be built: not a valid document *)
| EoFuel.

(* the program of a request, once the typed document and the coerced variables are there *)
Definition ex_cx_for (s : schema) (d : rdoc) (vars : jmap) : ectx :=
  {| ex_schema := s; ex_frags := rd_frags d; ex_vars := vars;
     ex_cfuel := ex_cfuel_for d; ex_afuel := ex_afuel_for s d |}.

Definition execute_prog (s : schema) (d : rdoc) (vars : jmap) (root : str) (impls : list str)
  : prog (xres jmap * list gerr) :=
  ex_selset (ex_fuel_for s d) (ex_cx_for s d vars) [] root impls 0 (rd_sels d) [].

Definition ex_outcome (r : xres jmap * list gerr) : eoutcome :=
  match r with
  | (XrOk m, st) => EoResponse {| er_data := Some m; er_errors := rev st |}
  | (XrNull, st) => EoResponse {| er_data := None; er_errors := rev st |}
  | (XrFuel, _) => EoFuel
  end.

Inductive eprep :=
| EpReady (d : rdoc) (vars : jmap) (root : str) (impls : list str)
| EpStop (o : eoutcome).

(* everything before the first await *)
Definition execute_prepare (s : schema) (doc : document) (values : jmap) : eprep :=
  match td_build s doc with
  | None => EpStop EoInvalid
  | Some d =>
      match td_root_type s (rd_optype d) with
      | None => EpStop EoInvalid
      | Some root =>
          match ex_get_object s root with
          | None => EpStop EoRequestError
          | Some impls =>
              match coerce_variable_values s (rd_vars d) values with
              | CvOk vars => EpReady d vars root impls
              | CvErr _ => EpStop EoRequestError
              | CvOutOfFuel => EpStop EoFuel
              end
          end
      end
  end.

(* execute_sync: response and resolver call log (in call order) *)
Definition execute_request (s : schema) (doc : document) (values : jmap) (w : world)
  : eoutcome * list ecall :=
  match execute_prepare s doc values with
  | EpStop o => (o, [])
  | EpReady d vars root impls =>
      let (r, log) := run_sync w (execute_prog s d vars root impls) [] in
      (ex_outcome r, rev log)
  end.
