(* C27 at the level of a request: Execution::execute_async is the asynchronous run of the SAME program that
   execute_sync runs synchronously (mod.rs: execute_common), so the generic lemma of Run/Async.v applies to the
   whole executor model of Run/Execute.v. *)
From Coq Require Import Arith Lia.
From ApolloVerif Require Import Base.Chars Ast.Ast Schema.Model Run.Json Run.Coerce Run.TypedDoc Run.Prog
  Run.Execute Run.ExecTop Run.Async.
Local Open Scope nat_scope.
Local Open Scope list_scope.

Definition sigma_of (l : list nat) : nat -> nat := fun i => nth i l 0.

(* response, resolver calls in call order, number of polls of the root future *)
Definition execute_request_async (sigma : nat -> nat) (s : schema) (doc : document) (values : jmap) (w : world)
  : eoutcome * list ecall * nat :=
  match execute_prepare s doc values with
  | EpStop o => (o, [], 1)
  | EpReady d vars root impls =>
      let '(r, _, ev, polls) := run_async (to_async sigma w (execute_prog s d vars root impls) 0) in
      (ex_outcome r, ev, polls)
  end.

(* number of await points of the synchronous run of a request *)
Definition request_points (s : schema) (doc : document) (values : jmap) (w : world) : nat :=
  match execute_prepare s doc values with
  | EpStop _ => 0
  | EpReady d vars root impls => sync_points w (execute_prog s d vars root impls)
  end.

Lemma request_schedule_independent sigma s doc values w :
  execute_request_async sigma s doc values w =
  (fst (execute_request s doc values w), snd (execute_request s doc values w),
   1 + sum_sigma sigma 0 (request_points s doc values w)).
Proof.
  unfold execute_request_async, execute_request, request_points.
  destruct (execute_prepare s doc values) as [d vars root impls|o]; [|reflexivity].
  rewrite async_schedule_independent.
  destruct (run_sync w (execute_prog s d vars root impls) []) as [r log]. reflexivity.
Qed.

(* ---------------------------------------------------------------- serial execution of the fields of a selection set *)
(* the calls of each executed field of the loop, field by field *)
Fixpoint loop_blocks (w : world)
    (run_field : str -> fielddef -> rsel -> list rsel -> em (xres (option json)))
    (s : schema) (otn : str) (gs : egroups) (st : list gerr) : list (str * list ecall) :=
  match gs with
  | [] => []
  | (key, (f0, rest)) :: gs' =>
      match td_type_field s otn (rs_name f0) with
      | None => loop_blocks w run_field s otn gs' st
      | Some fdef =>
          let '(r, st', lg) := run_sync w (run_field key fdef f0 rest st) [] in
          (key, rev lg) ::
          match r with
          | XrOk _ => loop_blocks w run_field s otn gs' st'
          | _ => []
          end
      end
  end.

Fixpoint is_subseq (a b : list str) : Prop :=
  match a, b with
  | [], _ => True
  | _ :: _, [] => False
  | x :: a', y :: b' => (x = y /\ is_subseq a' b') \/ is_subseq a b'
  end.

Lemma is_subseq_nil b : is_subseq [] b.
Proof. destruct b; exact I. Qed.

Lemma is_subseq_nil_cons a y b : is_subseq a b -> is_subseq a (y :: b).
Proof. destruct a; cbn; auto. Qed.

Lemma loop_blocks_keys w run_field s otn gs st :
  is_subseq (map fst (loop_blocks w run_field s otn gs st)) (map fst gs).
Proof.
  revert st. induction gs as [|[key [f0 rest]] gs IH]; intros st; cbn [loop_blocks map fst]; [apply is_subseq_nil|].
  destruct (td_type_field s otn (rs_name f0)) as [fdef|].
  - destruct (run_sync w (run_field key fdef f0 rest st) []) as [[r st'] lg]. cbn [map fst].
    left. split; [reflexivity|]. destruct r; [apply IH|apply is_subseq_nil|apply is_subseq_nil].
  - apply is_subseq_nil_cons, IH.
Qed.

(* the call log of the loop is the concatenation of the blocks: the calls of one field are contiguous, and the
   blocks follow the order of the grouped field set (document order of first appearance) *)
Lemma loop_serial w run_field s otn gs : forall acc st,
  rev (snd (run_sync w (ex_fields_loop run_field s otn gs acc st) [])) =
  concat (map snd (loop_blocks w run_field s otn gs st)).
Proof.
  induction gs as [|[key [f0 rest]] gs IH]; intros acc st; cbn [ex_fields_loop loop_blocks].
  - reflexivity.
  - destruct (td_type_field s otn (rs_name f0)) as [fdef|]; [|apply IH].
    unfold ebind. rewrite run_sync_bind.
    destruct (run_sync w (run_field key fdef f0 rest st) []) as [[r st'] lg] eqn:E. cbn [fst snd map concat].
    destruct r as [[v|]| |].
    + rewrite run_sync_log. cbn [snd]. rewrite rev_app_distr. now rewrite IH.
    + rewrite run_sync_log. cbn [snd]. rewrite rev_app_distr. now rewrite IH.
    + cbn. now rewrite app_nil_r.
    + cbn. now rewrite app_nil_r.
Qed.
