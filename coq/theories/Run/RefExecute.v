(* The reference executor of C26, written from section 6 of the GraphQL specification (October 2021) in a different
   style than the code: no early exit and no error state threaded through the evaluation.
     pass 1 (rf_selset / rf_field / rf_complete): evaluate EVERYTHING into a result tree whose nodes carry the
            type of their position and error markers (ExecuteSelectionSet, CollectFields as "flatten then group",
            ExecuteField, CompleteValue with the field type of the concrete OBJECT type, as the spec says);
     pass 2 (rf_prop): "if a field error is raised at a non-null position, the error propagates to the nearest
            nullable ancestor" (6.4.4 Handling Field Errors), collecting data and errors in document order.
   apollo-compiler's documented choices, adopted here:
     - when a null propagates out of a selection set or list, the remaining siblings are cancelled: their errors are
       not reported (the spec allows it);
     - an `Err` item of a resolved list makes the whole list position fail, with the item's index in the path
       (test_error_path in result_coercion.rs);
     - result coercion is strict: Int must be a 32-bit integer, Float a float, String a string, Boolean a boolean,
       ID a string or integer, an enum one of its values; custom scalars accept any JSON value;
     - `__typename` is the object type's name; `__schema` / `__type` are field errors (introspection is disabled);
     - SkipForPartialExecution omits the position.
   Shared with the model of the code (not re-specified): the data types, schema lookups of Run/TypedDoc.v
   (td_type_field), the resolver world (world_resolve) and argument coercion (ex_coerce_args). *)
From Coq Require Import ZArith.
From ApolloVerif Require Import Base.Chars Ast.Ast Schema.Model Run.Json Run.Coerce Run.TypedDoc Run.Prog
  Run.Execute Run.ExecTop.
Local Open Scope N_scope.
Local Open Scope list_scope.

Inductive rtree :=
| RtVal (j : json)                                   (* a completed, non-null leaf value *)
| RtNullV                                            (* null, without error *)
| RtFail (c : exclass)                                (* a field error raised at this position *)
| RtSkipped                                          (* omitted (partial execution) *)
| RtObj (fs : list (str * ty * rtree))               (* response key, type of the field, subtree *)
| RtList (inner : ty) (items : list rtree)
| RtItemFail (inner : ty) (items : list rtree) (c : exclass)    (* the iteration failed after `items` *)
| RtFuel.                                            (* the evaluation ran out of fuel: not a result *)

(* ---------------------------------------------------------------- CollectFields: flatten, then group *)
(* object types a value of (object, interface or union) type n can have *)
Definition rf_possible_types (s : schema) (n : str) : list str :=
  match sch_get_type s n with
  | Some (EObject _ _ _ _ _ _) => [n]
  | Some (EInterface _ _ _ _ _ _) =>
      flat_map (fun t => match t with
                         | EObject _ on impls _ _ _ =>
                             if existsb (fun i => streq (c_val i) n) impls then [on] else []
                         | _ => []
                         end) (sch_types s)
  | Some (EUnion _ _ _ members _) => map c_val members
  | _ => []
  end.

Definition rf_applies (s : schema) (otn : str) (cond : option str) : bool :=
  match cond with
  | None => true
  | Some c => existsb (streq otn) (rf_possible_types s c)
  end.

Definition rf_directive_if (x : rsel) (dname : str) (vars : jmap) : option bool :=
  match filter (fun d => streq (d_name d) dname) (rs_dirs x) with
  | d :: _ =>
      match filter (fun a => streq (fst a) ex_if) (d_args d) with
      | (_, VBool b) :: _ => Some b
      | (_, VVar v) :: _ => match jmap_get v vars with Some (JBool b) => Some b | _ => None end
      | _ => None
      end
  | [] => None
  end.

(* @skip(if: true) or @include(if: false) *)
Definition rf_excluded (x : rsel) (vars : jmap) : bool :=
  match rf_directive_if x ex_skip vars, rf_directive_if x ex_include vars with
  | Some true, _ => true
  | _, Some false => true
  | _, _ => false
  end.

(* the field selections that apply to an object of type otn, in order; fragments are entered at most once *)
Fixpoint rf_flatten (fuel : nat) (s : schema) (frags : list rfrag) (vars : jmap) (otn : str)
                    (sels : list rsel) (visited : list str) : option (list rsel * list str) :=
  match fuel with
  | O => None
  | S fuel =>
      match sels with
      | [] => Some ([], visited)
      | x :: rest =>
          let continue_with (here : list rsel) (visited : list str) :=
            match rf_flatten fuel s frags vars otn rest visited with
            | Some (more, visited) => Some (here ++ more, visited)
            | None => None
            end in
          if rf_excluded x vars then continue_with [] visited
          else
            match x with
            | RsField _ _ _ _ _ _ => continue_with [x] visited
            | RsInline cond _ sub =>
                if rf_applies s otn cond then
                  match rf_flatten fuel s frags vars otn sub visited with
                  | Some (here, visited) => continue_with here visited
                  | None => None
                  end
                else continue_with [] visited
            | RsSpread name _ =>
                if existsb (streq name) visited then continue_with [] visited
                else
                  match filter (fun f => streq (rfr_name f) name) frags with
                  | fr :: _ =>
                      if rf_applies s otn (Some (rfr_cond fr)) then
                        match rf_flatten fuel s frags vars otn (rfr_sels fr) (name :: visited) with
                        | Some (here, visited) => continue_with here visited
                        | None => None
                        end
                      else continue_with [] (name :: visited)
                  | [] => continue_with [] (name :: visited)
                  end
            end
      end
  end.

Fixpoint rf_dedup (seen : list str) (l : list str) : list str :=
  match l with
  | [] => []
  | k :: r => if existsb (streq k) seen then rf_dedup seen r else k :: rf_dedup (k :: seen) r
  end.

(* grouped field set: response keys in order of first appearance, each with all its fields in order *)
Definition rf_group (fields : list rsel) : list (str * list rsel) :=
  map (fun k => (k, filter (fun f => streq (rs_key f) k) fields)) (rf_dedup [] (map rs_key fields)).

(* ---------------------------------------------------------------- result coercion of leaves *)
Definition rf_leaf_ok (s : schema) (n : str) (j : json) : bool :=
  match sch_get_type s n with
  | Some (EEnum _ _ _ vals _) =>
      match j with JStr x => existsb (fun v => streq (ev_value (c_val v)) x) vals | _ => false end
  | Some (EScalar _ _ _ _) =>
      if streq n rn_Int then match j with JInt z => ((- j_two31 <=? z) && (z <? j_two31))%Z | _ => false end
      else if streq n rn_Float then match j with JFloat _ => true | _ => false end
      else if streq n rn_String then match j with JStr _ => true | _ => false end
      else if streq n rn_Boolean then match j with JBool _ => true | _ => false end
      else if streq n rn_ID then match j with JStr _ => true | JInt z => (z <? j_two63)%Z | _ => false end
      else true
  | _ => false
  end.

Definition rf_is_leaf_type (s : schema) (n : str) : bool :=
  match sch_get_type s n with Some (EEnum _ _ _ _ _) | Some (EScalar _ _ _ _) => true | _ => false end.
Definition rf_is_composite (s : schema) (n : str) : bool :=
  match sch_get_type s n with
  | Some (EObject _ _ _ _ _ _) | Some (EInterface _ _ _ _ _ _) | Some (EUnion _ _ _ _ _) => true
  | _ => false
  end.
Definition rf_is_object (s : schema) (n : str) : bool :=
  match sch_get_type s n with Some (EObject _ _ _ _ _ _) => true | _ => false end.

Definition rf_nullable (t : ty) : ty :=
  match t with TNonNullNamed n => TNamed n | TNonNullList i => TList i | _ => t end.

Record rf_env := { rf_s : schema; rf_frags : list rfrag; rf_vars : jmap; rf_w : world; rf_cx : ectx }.

(* ---------------------------------------------------------------- pass 1 *)
Fixpoint rf_selset (fuel : nat) (e : rf_env) (otn : str) (oid : N) (sels : list rsel)
  : list (str * ty * rtree) :=
  match fuel with
  | O => [([], TNamed [], RtFuel)]
  | S fuel =>
      match rf_flatten (ex_cfuel (rf_cx e) * S (length sels + ex_cfuel (rf_cx e))) (rf_s e) (rf_frags e) (rf_vars e) otn sels [] with
      | None => [([], TNamed [], RtFuel)]
      | Some (fields, _) =>
          flat_map (fun g =>
            match snd g with
            | [] => []
            | f0 :: _ =>
                match td_type_field (rf_s e) otn (rs_name f0) with
                | None => []                                   (* "if fieldType is defined" *)
                | Some fdef => [(fst g, fd_ty fdef, rf_field fuel e otn oid fdef (snd g))]
                end
            end) (rf_group fields)
      end
  end

with rf_field (fuel : nat) (e : rf_env) (otn : str) (oid : N) (fdef : fielddef) (fields : list rsel) : rtree :=
  match fuel with
  | O => RtFuel
  | S fuel =>
      match fields with
      | [] => RtFail EcBug
      | f0 :: _ =>
          match ex_coerce_args (rf_cx e) fdef f0 with
          | AcErr c => RtFail c
          | AcFuel => RtFuel
          | AcOk args =>
              if streq (rs_name f0) td_typename then RtVal (JStr otn)
              else if (streq (rs_name f0) td_schema || streq (rs_name f0) td_type) && td_is_query_root (rf_s e) otn
              then RtFail EcIntro
              else
                match world_resolve (rf_w e) {| ec_obj := oid; ec_field := rs_name f0; ec_args := args |} with
                | RvErr => RtFail EcResolver
                | r => rf_complete fuel e (fd_ty fdef) r fields
                end
          end
      end
  end

(* CompleteValue(fieldType, fields, result, variableValues) *)
with rf_complete (fuel : nat) (e : rf_env) (t : ty) (r : resolved) (fields : list rsel) : rtree :=
  match fuel with
  | O => RtFuel
  | S fuel =>
      match r with
      | RvSkip => RtSkipped
      | _ =>
          if is_non_null t then
            (* 1. If the fieldType is a Non-Null type: complete the inner type; null is a field error *)
            match rf_complete fuel e (rf_nullable t) r fields with
            | RtNullV => RtFail EcNull
            | x => x
            end
          else
            match r with
            | RvLeaf JNull => RtNullV                          (* 2. If result is null, return null *)
            | RvErr => RtFail EcResolver
            | _ =>
                match t with
                | TList inner | TNonNullList inner =>           (* 3. List *)
                    match r with
                    | RvList items =>
                        (fix go (items : list resolved) (done : list rtree) : rtree :=
                           match items with
                           | [] => RtList inner (rev done)
                           | RvErr :: _ => RtItemFail inner (rev done) EcResolver
                           | it :: more => go more (rf_complete fuel e inner it fields :: done)
                           end) items []
                    | _ => RtFail EcKind
                    end
                | TNamed n | TNonNullNamed n =>
                    match r with
                    | RvList _ => RtFail EcKind
                    | RvLeaf j =>                               (* 4. Scalar or Enum: result coercion *)
                        if rf_is_leaf_type (rf_s e) n then (if rf_leaf_ok (rf_s e) n j then RtVal j else RtFail EcLeaf)
                        else if rf_is_composite (rf_s e) n then RtFail EcKind
                        else RtFail EcBug
                    | RvObject id tn =>                         (* 5. Object, Interface or Union *)
                        if rf_is_leaf_type (rf_s e) n then RtFail EcKind
                        else if rf_is_composite (rf_s e) n then
                          if rf_is_object (rf_s e) tn && existsb (streq tn) (rf_possible_types (rf_s e) n)
                          then RtObj (rf_selset fuel e tn id (flat_map rs_sels fields))
                          else RtFail EcType
                        else RtFail EcBug
                    | _ => RtFail EcBug
                    end
                end
            end
      end
  end.

(* ---------------------------------------------------------------- pass 2: null propagation *)
(* the value of a failed position: null if the type allows, otherwise the failure moves up *)
Definition rf_null_at (t : ty) : option (option json) := if is_non_null t then None else Some (Some JNull).

Fixpoint rf_prop (t : ty) (rpath : list pseg) (x : rtree) : option (option json) * list gerr :=
  match x with
  | RtVal j => (Some (Some j), [])
  | RtNullV => (Some (Some JNull), [])
  | RtSkipped => (Some None, [])
  | RtFail c => (rf_null_at t, [ex_err c rpath])
  | RtFuel => (None, [])
  | RtObj fs =>
      (fix go (fs : list (str * ty * rtree)) (acc : jmap) (errs : list gerr) : option (option json) * list gerr :=
         match fs with
         | [] => (Some (Some (JObj acc)), errs)
         | (k, ft, sub) :: more =>
             let (r, es) := rf_prop ft (PsKey k :: rpath) sub in
             match r with
             | None => (rf_null_at t, errs ++ es)              (* the rest is cancelled *)
             | Some None => go more acc (errs ++ es)
             | Some (Some v) => go more (jmap_insert k v acc) (errs ++ es)
             end
         end) fs [] []
  | RtList inner items | RtItemFail inner items _ =>
      (fix go (items : list rtree) (idx : N) (acc : list json) (errs : list gerr) : option (option json) * list gerr :=
         match items with
         | [] =>
             match x with
             | RtItemFail _ _ c => (rf_null_at t, errs ++ [ex_err c (PsIdx idx :: rpath)])
             | _ => (Some (Some (JArr (rev acc))), errs)
             end
         | it :: more =>
             let (r, es) := rf_prop inner (PsIdx idx :: rpath) it in
             match r with
             | None => (rf_null_at t, errs ++ es)
             | Some None => go more (idx + 1) acc (errs ++ es)
             | Some (Some v) => go more (idx + 1) (v :: acc) (errs ++ es)
             end
         end) items 0 [] []
  end.

Fixpoint rt_out_of_fuel (x : rtree) : bool :=
  match x with
  | RtFuel => true
  | RtObj fs => (fix any (l : list (str * ty * rtree)) : bool :=
                   match l with [] => false | (_, _, y) :: r => rt_out_of_fuel y || any r end) fs
  | RtList _ items | RtItemFail _ items _ =>
      (fix any (l : list rtree) : bool := match l with [] => false | y :: r => rt_out_of_fuel y || any r end) items
  | _ => false
  end.

(* ---------------------------------------------------------------- the request *)
Definition rf_fuel_for (s : schema) (d : rdoc) : nat := ex_fuel_for s d.

Definition ref_execute_prepared (s : schema) (d : rdoc) (vars : jmap) (root : str) (w : world) : option eresponse :=
  let cx := {| ex_schema := s; ex_frags := rd_frags d; ex_vars := vars;
               ex_cfuel := ex_cfuel_for d; ex_afuel := ex_afuel_for s d |} in
  let e := {| rf_s := s; rf_frags := rd_frags d; rf_vars := vars; rf_w := w; rf_cx := cx |} in
  let tree := RtObj (rf_selset (rf_fuel_for s d) e root 0 (rd_sels d)) in
  if rt_out_of_fuel tree then None else
  match rf_prop (TNonNullNamed root) [] tree with
  | (Some (Some (JObj m)), errs) => Some {| er_data := Some m; er_errors := errs |}
  | (_, errs) => Some {| er_data := None; er_errors := errs |}
  end.

Definition ref_execute (s : schema) (doc : document) (values : jmap) (w : world) : eoutcome :=
  match execute_prepare s doc values with
  | EpStop o => o
  | EpReady d vars root _ =>
      match ref_execute_prepared s d vars root w with Some r => EoResponse r | None => EoFuel end
  end.
