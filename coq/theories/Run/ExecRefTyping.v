(* C26, second part: what the typed document (Run/TypedDoc.v: td_build) guarantees, and how the type the executor
   completes a field with (the type of the field on the concrete OBJECT type) relates to the type the sub-selections
   were typed under (`field.ty()`, the type of the field's definition on the selection set's PARENT type):
     rs_typed s C x      : the selection x was typed in a selection set whose parent type is C
     td_build_typed      : td_build produces typed selections (operation on the root type, fragments on their
                           type conditions)
     field_type_narrows  : if the object type otn satisfies the type condition C, every object type possible for
                           the named type of otn.f is possible for the named type of C.f (sch_impl_covariant)
     exec invariant      : every selection the executor collects for an object of type otn is a node of the
                           document typed at a parent C that otn satisfies *)
From Coq Require Import ZArith Lia List.
From ApolloVerif Require Import Base.Chars Ast.Ast Schema.Model Run.Json Run.JsonLemmas Run.Coerce Run.CoerceProofs
  Run.TypedDoc Run.Prog Run.Execute Run.ExecTop Run.RefExecute Run.ExecProofs Run.ExecRefDefs
  Run.ExecRefInv Run.ExecRefFuel Run.ExecRefCollect.
Import ListNotations.
Local Open Scope nat_scope.
Local Open Scope list_scope.

(* ---------------------------------------------------------------- typed selections *)
Fixpoint rs_typed (s : schema) (C : str) (x : rsel) : Prop :=
  match x with
  | RsField _ n _ _ dty sub =>
      (exists dC, td_type_field s C n = Some dC /\ dty = fd_ty dC) /\
      (fix all (l : list rsel) : Prop :=
         match l with [] => True | y :: r => rs_typed s (inner_named_type dty) y /\ all r end) sub
  | RsSpread _ _ => True
  | RsInline cond _ sub =>
      (fix all (l : list rsel) : Prop :=
         match l with
         | [] => True
         | y :: r => rs_typed s (match cond with Some c => c | None => C end) y /\ all r
         end) sub
  end.

Lemma fix_all_Forall (P : rsel -> Prop) l :
  (fix all (l : list rsel) : Prop := match l with [] => True | y :: r => P y /\ all r end) l <-> Forall P l.
Proof.
  induction l as [|y r IH]; [split; [constructor|trivial]|]. split.
  - intros [H1 H2]. constructor; [assumption|now apply IH].
  - intros H. inversion H; subst. split; [assumption|now apply IH].
Qed.

Lemma rs_typed_field s C a n args dirs dty sub :
  rs_typed s C (RsField a n args dirs dty sub) <->
  (exists dC, td_type_field s C n = Some dC /\ dty = fd_ty dC) /\ Forall (rs_typed s (inner_named_type dty)) sub.
Proof. cbn [rs_typed]. now rewrite (fix_all_Forall (rs_typed s (inner_named_type dty))). Qed.

Lemma rs_typed_inline s C cond dirs sub :
  rs_typed s C (RsInline cond dirs sub) <-> Forall (rs_typed s (match cond with Some c => c | None => C end)) sub.
Proof. cbn [rs_typed]. now rewrite (fix_all_Forall (rs_typed s (match cond with Some c => c | None => C end))). Qed.

(* induction on AST selections *)
Lemma selection_ind' (P : selection -> Prop) :
  (forall a n args dirs l, Forall P l -> P (SField a n args dirs l)) ->
  (forall n dirs, P (SSpread n dirs)) ->
  (forall c dirs l, Forall P l -> P (SInline c dirs l)) ->
  forall x, P x.
Proof.
  intros Hf Hs Hi. fix IH 1. intros [a n args dirs l|n dirs|c dirs l].
  - apply Hf. induction l as [|y r IHl]; constructor; [apply IH|exact IHl].
  - apply Hs.
  - apply Hi. induction l as [|y r IHl]; constructor; [apply IH|exact IHl].
Qed.

Lemma td_sel_typed s : forall x C y, td_sel s C x = Some y -> rs_typed s C y.
Proof.
  apply (selection_ind' (fun x => forall C y, td_sel s C x = Some y -> rs_typed s C y)).
  - intros a n args dirs l IH C y H. cbn [td_sel] in H.
    destruct (td_type_field s C n) as [dC|] eqn:Et; [|discriminate].
    destruct (streq n td_schema || streq n td_type).
    + injection H as <-. apply rs_typed_field. split; [now exists dC|constructor].
    + match type of H with
      | match ?g l with _ => _ end = _ => destruct (g l) as [ys|] eqn:Eg; [|discriminate]
      end.
      injection H as <-. apply rs_typed_field. split; [now exists dC|].
      clear Et. revert ys Eg. induction IH as [|x0 r Hx _ IHr]; intros ys Eg.
      * injection Eg as <-. constructor.
      * destruct (td_sel s (inner_named_type (fd_ty dC)) x0) as [y'|] eqn:E1; [|discriminate].
        match type of Eg with
        | match ?g r with _ => _ end = _ => destruct (g r) as [r'|] eqn:E2; [|discriminate]
        end.
        injection Eg as <-. constructor; [now apply Hx|now apply IHr].
  - intros n dirs C y H. cbn [td_sel] in H. injection H as <-. exact I.
  - intros c dirs l IH C y H. cbn [td_sel] in H.
    match type of H with
    | match ?g l with _ => _ end = _ => destruct (g l) as [ys|] eqn:Eg; [|discriminate]
    end.
    injection H as <-. apply rs_typed_inline.
    revert ys Eg. induction IH as [|x0 r Hx _ IHr]; intros ys Eg.
    + injection Eg as <-. constructor.
    + destruct (td_sel s (match c with Some c0 => c0 | None => C end) x0) as [y'|] eqn:E1; [|discriminate].
      match type of Eg with
      | match ?g r with _ => _ end = _ => destruct (g r) as [r'|] eqn:E2; [|discriminate]
      end.
      injection Eg as <-. constructor; [now apply Hx|now apply IHr].
Qed.

Lemma td_sels_typed s C : forall l ys, td_sels s C l = Some ys -> Forall (rs_typed s C) ys.
Proof.
  induction l as [|x r IH]; intros ys H; cbn [td_sels] in H.
  - injection H as <-. constructor.
  - destruct (td_sel s C x) as [y|] eqn:E1; [|discriminate]. destruct (td_sels s C r) as [r'|] eqn:E2; [|discriminate].
    injection H as <-. constructor; [eapply td_sel_typed; eassumption|now apply IH].
Qed.

Definition frags_typed (s : schema) (fs : list rfrag) : Prop :=
  forall fr, In fr fs -> Forall (rs_typed s (rfr_cond fr)) (rfr_sels fr).

Lemma td_frags_typed s : forall doc fs, td_frags s doc = Some fs -> frags_typed s fs.
Proof.
  induction doc as [|df r IH]; intros fs H; cbn [td_frags] in H.
  - injection H as <-. intros fr [].
  - destruct df; try (now apply IH).
    destruct (td_sels s cond sels) as [ys|] eqn:E1; [|discriminate]. destruct (td_frags s r) as [fs'|] eqn:E2; [|discriminate].
    injection H as <-. intros fr [<-|Hin]; [cbn; eapply td_sels_typed; eassumption|now apply (IH fs')].
Qed.

Lemma td_build_typed s doc d root :
  td_build s doc = Some d -> td_root_type s (rd_optype d) = Some root ->
  Forall (rs_typed s root) (rd_sels d) /\ frags_typed s (rd_frags d).
Proof.
  unfold td_build. destruct (td_first_op doc) as [[[op vars] sels]|]; [|discriminate].
  destruct (td_root_type s op) as [root'|] eqn:Er; [|discriminate].
  destruct (td_sels s root' sels) as [ys|] eqn:E1; [|discriminate]. destruct (td_frags s doc) as [fs|] eqn:E2; [|discriminate].
  intros [= <-]. cbn [rd_optype rd_sels rd_frags]. rewrite Er. intros [= <-].
  split; [eapply td_sels_typed; eassumption|eapply td_frags_typed; eassumption].
Qed.

(* ---------------------------------------------------------------- the schema hypotheses, as propositions *)
Definition sch_no_meta_fields (s : schema) : Prop :=
  forall t, In t (sch_types s) ->
    match t with
    | EObject _ _ _ _ fs _ | EInterface _ _ _ _ fs _ =>
        forall f, In f fs -> td_is_meta_name (fd_name (c_val f)) = false
    | _ => True
    end.

Lemma sch_exec_wf_spec s : sch_exec_wf s = true -> sch_names_unique s /\ sch_no_meta_fields s.
Proof.
  unfold sch_exec_wf. intros H. apply andb_true_iff in H. destruct H as [H _]. apply andb_true_iff in H. destruct H as [H _].
  apply andb_true_iff in H. destruct H as [H1 H2]. split.
  - now apply j_str_nodup_spec.
  - intros t Ht. rewrite forallb_forall in H2. specialize (H2 t Ht).
    destruct t; try exact I; intros f Hf; rewrite forallb_forall in H2; specialize (H2 f Hf); now apply negb_true_iff in H2.
Qed.

Lemma sch_exec_wf_cov s : sch_exec_wf s = true -> sch_impl_covariant s = true.
Proof. unfold sch_exec_wf. intros H. apply andb_true_iff in H. now destruct H as [_ H]. Qed.

(* every object type that satisfies the type condition K satisfies the type condition J *)
Definition ty_narrows (s : schema) (K J : str) : Prop :=
  forall otn oimpls, ex_get_object s otn = Some oimpls ->
    ex_type_applies s otn oimpls K = true -> ex_type_applies s otn oimpls J = true.

Lemma ty_narrows_refl s K : ty_narrows s K K.
Proof. intros otn oimpls _ H. exact H. Qed.

Lemma sch_possible_incl_spec s K J : sch_possible_incl s K J = true -> ty_narrows s K J.
Proof.
  unfold sch_possible_incl. intros H otn oimpls Hg Ha. rewrite forallb_forall in H.
  destruct (get_object_inv _ _ _ Hg) as (desc & impls & dirs & ofs & b & Ht & ->).
  specialize (H _ (sch_find_type_in _ _ _ Ht)). cbv beta iota in H. rewrite Ha in H. exact H.
Qed.

(* ---------------------------------------------------------------- the type of a field on the object type *)
Lemma not_in_flat_map {A B} (f : A -> list B) l x b : ~ In b (flat_map f l) -> In x l -> ~ In b (f x).
Proof. intros H Hx Hb. apply H. apply in_flat_map. now exists x. Qed.

Lemma find_fd_meta s t fs n fd :
  sch_no_meta_fields s -> In t (sch_types s) ->
  match t with EObject _ _ _ _ fs' _ | EInterface _ _ _ _ fs' _ => fs' = fs | _ => False end ->
  td_find_fd n fs = Some fd -> td_is_meta_name n = false.
Proof.
  intros Hm Ht Hfs Hf. destruct (td_find_fd_in _ _ _ Hf) as (c & Hc & -> & Hn). specialize (Hm t Ht).
  destruct t; try contradiction; rewrite <- Hfs in Hc; rewrite <- Hn; now apply Hm.
Qed.

Lemma meta_name_cases n : td_is_meta_name n = false ->
  streq n td_typename = false /\ streq n td_schema = false /\ streq n td_type = false.
Proof. unfold td_is_meta_name. intros H. apply orb_false_iff in H. destruct H as [H H3]. apply orb_false_iff in H. tauto. Qed.

Lemma field_type_narrows s C otn oimpls n dC dO :
  sch_names_unique s -> sch_no_meta_fields s -> sch_impl_covariant s = true ->
  ex_get_object s otn = Some oimpls ->
  ex_type_applies s otn oimpls C = true ->
  td_type_field s C n = Some dC -> td_type_field s otn n = Some dO ->
  ty_narrows s (inner_named_type (fd_ty dO)) (inner_named_type (fd_ty dC)).
Proof.
  intros Hu Hm Hcv Hg Happ HC HO.
  assert (Heq : fd_ty dC = fd_ty dO -> ty_narrows s (inner_named_type (fd_ty dO)) (inner_named_type (fd_ty dC)))
    by (intros ->; apply ty_narrows_refl).
  destruct (get_object_inv _ _ _ Hg) as (desc & impls & dirs & ofs & b & Ht & ->).
  pose proof (sch_find_type_in _ _ _ Ht) as Hin.
  unfold ex_type_applies in Happ. destruct (sch_get_type s C) as [tC|] eqn:EC; [|discriminate].
  pose proof (sch_find_type_in _ _ _ EC) as HinC.
  (* the field is not declared on the selection set's parent type: a meta-field *)
  assert (Hmeta : (match tC with EObject _ _ _ _ fs _ | EInterface _ _ _ _ fs _ => td_find_fd n fs | _ => None end = None) ->
            (match tC with EObject _ _ _ _ _ _ => False | _ => True end) ->
            fd_ty dC = fd_ty dO).
  { intros Hnone Hkind. unfold td_type_field in HC, HO. rewrite EC in HC. rewrite Ht in HO.
    destruct (td_find_fd n ofs) as [od|] eqn:Eod.
    - (* declared on the object type: then it has the name of a meta-field *)
      exfalso. pose proof (find_fd_meta s _ ofs n od Hm Hin eq_refl Eod) as Hnm.
      destruct (meta_name_cases _ Hnm) as (N1 & N2 & N3).
      rewrite Hnone in HC. rewrite N1, N2, N3 in HC. cbn [andb] in HC. destruct (td_is_query_root s C); discriminate.
    - cbn [andb] in HO. rewrite andb_true_r in HO.
      rewrite Hnone in HC. destruct (streq n td_typename) eqn:E1.
      + injection HO as <-. cbn [andb] in HC.
        destruct tC; try contradiction; try (injection HC as <-; reflexivity); cbn [andb] in HC;
          destruct (td_is_query_root s C); repeat (match type of HC with (if ?c then _ else _) = _ => destruct c end);
          try discriminate.
      + cbn [andb] in HC.
        destruct (td_is_query_root s C) eqn:RC; [|discriminate]. destruct (td_is_query_root s otn) eqn:RO; [|discriminate].
        exfalso. unfold td_is_query_root in RC, RO. destruct (sd_query (sch_def s)) as [q|]; [|discriminate].
        apply streq_eq in RC. apply streq_eq in RO. subst C. rewrite RO in EC. rewrite Ht in EC. injection EC as <-. contradiction. }
  destruct tC as [| d1 nm1 impls1 dirs1 fs1 b1 | d1 nm1 impls1 dirs1 fs1 b1 | d1 nm1 dirs1 members1 b1 | |]; try discriminate.
  - (* object: the same type *)
    apply Heq. apply streq_eq in Happ. subst C. congruence.
  - (* interface *)
    destruct (td_find_fd n fs1) as [d|] eqn:Ed; [|apply Heq, Hmeta; [reflexivity|exact I]].
    assert (HdC : dC = d). { unfold td_type_field in HC. rewrite EC, Ed in HC. now injection HC. } subst dC.
    destruct (td_find_fd_in _ _ _ Ed) as (f & Hf & -> & Hn).
    (* the test of sch_impl_covariant for (otn, C, f) *)
    apply existsb_streq in Happ. apply in_map_iff in Happ. destruct Happ as (i & Hi & Hiin).
    unfold sch_impl_covariant in Hcv. rewrite forallb_forall in Hcv. specialize (Hcv _ Hin). cbv beta iota in Hcv.
    rewrite forallb_forall in Hcv. specialize (Hcv _ Hiin). cbv beta in Hcv. rewrite Hi, EC in Hcv.
    rewrite forallb_forall in Hcv. specialize (Hcv _ Hf). cbv beta in Hcv. rewrite Hn in Hcv.
    unfold td_type_field in HO. rewrite Ht in HO.
    destruct (td_find_fd n ofs) as [od|] eqn:Eod.
    + injection HO as <-. now apply sch_possible_incl_spec.
    + (* not declared on the object type: only a meta-field could be found there, but f has an ordinary name *)
      exfalso. pose proof (find_fd_meta s _ fs1 n (c_val f) Hm HinC eq_refl Ed) as Hnm.
      destruct (meta_name_cases _ Hnm) as (N1 & N2 & N3). rewrite N1, N2, N3 in HO. cbn [andb] in HO.
      destruct (td_is_query_root s otn); discriminate.
  - (* union *)
    apply Heq, Hmeta; [reflexivity|exact I].
Qed.

(* a response key names one field *)
Lemma alias_consistent_nodes d g1 g2 :
  rd_alias_consistent d = true -> doc_node d g1 -> doc_node d g2 -> rs_is_field g1 = true -> rs_is_field g2 = true ->
  rs_key g1 = rs_key g2 -> rs_name g1 = rs_name g2.
Proof.
  unfold rd_alias_consistent. intros H H1 H2 F1 F2 Hk. rewrite forallb_forall in H.
  assert (I1 : In g1 (filter rs_is_field (rd_nodes d))) by (apply filter_In; split; [now apply doc_node_nodes|assumption]).
  assert (I2 : In g2 (filter rs_is_field (rd_nodes d))) by (apply filter_In; split; [now apply doc_node_nodes|assumption]).
  specialize (H g1 I1). rewrite forallb_forall in H. specialize (H g2 I2).
  rewrite Hk, streq_refl in H. cbn [negb orb] in H. now apply streq_eq.
Qed.

(* ---------------------------------------------------------------- fields that can merge *)
Lemma creach_incl s frags otn oimpls l l' g :
  incl l l' -> ex_creach s frags otn oimpls l g -> ex_creach s frags otn oimpls l' g.
Proof.
  intros Hi H. destruct H as [l g Hin Hf|l cond dirs sub g Hin Hc Hs|l name dirs fr g Hin Hfind Ha Hs].
  - apply cr_field; auto.
  - eapply cr_inline; eauto.
  - eapply cr_spread; eauto.
Qed.

Lemma collect_creach cx otn oimpls fuel sels v groups :
  ex_collect fuel cx otn oimpls sels [] [] = Some (v, groups) ->
  groups_all (ex_creach (ex_schema cx) (ex_frags cx) otn oimpls sels) groups.
Proof.
  intros Hc.
  eapply (collect_inv cx otn oimpls
            (fun x => forall g, ex_creach (ex_schema cx) (ex_frags cx) otn oimpls [x] g ->
                                ex_creach (ex_schema cx) (ex_frags cx) otn oimpls sels g)
            (ex_creach (ex_schema cx) (ex_frags cx) otn oimpls sels)); [| | |exact Hc| |constructor].
  - intros x Hx Hf. apply Hx. apply cr_field; [now left|exact Hf].
  - intros cond dirs sub Hx Hcond. apply Forall_forall. intros y Hy g Hg. apply Hx.
    eapply cr_inline; [now left|exact Hcond|]. eapply creach_incl; [|exact Hg]. intros z [<-|[]]. exact Hy.
  - intros name dirs fr Hx Hfind Ha. apply Forall_forall. intros y Hy g Hg. apply Hx.
    eapply cr_spread; [now left|exact Hfind|exact Ha|]. eapply creach_incl; [|exact Hg]. intros z [<-|[]]. exact Hy.
  - apply Forall_forall. intros x Hx g Hg. eapply creach_incl; [|exact Hg]. intros z [<-|[]]. exact Hx.
Qed.

Lemma mergeable_names s frags l otn oimpls g1 g2 :
  ex_mergeable s frags l -> ex_get_object s otn = Some oimpls ->
  ex_creach s frags otn oimpls l g1 -> ex_creach s frags otn oimpls l g2 -> rs_key g1 = rs_key g2 -> rs_name g1 = rs_name g2.
Proof. intros H. inversion H as [? Hn _]; subst. apply Hn. Qed.

Lemma mergeable_sub s frags l otn oimpls G :
  ex_mergeable s frags l -> ex_get_object s otn = Some oimpls -> G <> [] ->
  Forall (ex_creach s frags otn oimpls l) G -> (forall g1 g2, In g1 G -> In g2 G -> rs_key g1 = rs_key g2) ->
  ex_mergeable s frags (flat_map rs_sels G).
Proof. intros H. inversion H as [? _ Hs]; subst. apply Hs. Qed.

(* the decidable sufficient condition *)
Lemma creach_field_ok s d otn oimpls m l g :
  Forall (sel_ok d m) l -> ex_creach s (rd_frags d) otn oimpls l g -> field_ok d m g.
Proof.
  intros Hl H. induction H as [l g Hin Hf|l cond dirs sub g Hin Hc Hs IH|l name dirs fr g Hin Hfind Ha Hs IH].
  - rewrite Forall_forall in Hl. destruct (Hl g Hin) as [Hd Hdep]. now repeat split.
  - apply IH. rewrite Forall_forall in Hl. destruct (Hl _ Hin) as [Hd Hdep]. apply Forall_forall. intros y Hy. split.
    + eapply doc_node_sub; [exact Hd|exact Hy].
    + inversion Hdep as [|? ? ? ? Hsub| |]; subst. rewrite Forall_forall in Hsub. now apply Hsub.
  - apply IH. rewrite Forall_forall in Hl. destruct (Hl _ Hin) as [Hd Hdep]. apply Forall_forall. intros y Hy. split.
    + apply find_frag_in in Hfind. destruct Hfind as [Hfin _]. eapply doc_node_frag; eassumption.
    + inversion Hdep as [| |? ? ? Hnone|? ? ? ? Hsome Hsub]; subst; [congruence|].
      rewrite Hfind in Hsome. injection Hsome as <-. rewrite Forall_forall in Hsub. now apply Hsub.
Qed.

Lemma alias_mergeable s d : rd_alias_consistent d = true ->
  forall m l, Forall (sel_ok d m) l -> ex_mergeable s (rd_frags d) l.
Proof.
  intros Ha. induction m as [|m IH]; intros l Hl; constructor.
  - intros otn oimpls g1 g2 _ H1 H2 Hk.
    destruct (creach_field_ok s d _ _ _ _ _ Hl H1) as (F1 & D1 & _). destruct (creach_field_ok s d _ _ _ _ _ Hl H2) as (F2 & D2 & _).
    now apply (alias_consistent_nodes d).
  - intros otn oimpls G _ Hne HG _. exfalso. destruct G as [|g G]; [now apply Hne|].
    inversion HG as [|? ? Hg _]; subst. destruct (creach_field_ok s d _ _ _ _ _ Hl Hg) as (Fg & _ & Hdep).
    destruct g; try discriminate. inversion Hdep.
  - intros otn oimpls g1 g2 _ H1 H2 Hk.
    destruct (creach_field_ok s d _ _ _ _ _ Hl H1) as (F1 & D1 & _). destruct (creach_field_ok s d _ _ _ _ _ Hl H2) as (F2 & D2 & _).
    now apply (alias_consistent_nodes d).
  - intros otn oimpls G _ _ HG _. apply IH.
    assert (Hok : Forall (field_ok d (S m)) G).
    { eapply Forall_impl; [|exact HG]. intros g Hg. eapply creach_field_ok; eassumption. }
    destruct (sub_sels_ok d G m Hok) as [_ H]. exact H.
Qed.

(* ---------------------------------------------------------------- the invariant of execution *)
Section Exec.
Variables (s : schema) (d : rdoc) (vars : jmap).
Let cx := ex_cx_for s d vars.
Hypothesis Hu : sch_names_unique s.
Hypothesis Hm : sch_no_meta_fields s.
Hypothesis Hcv : sch_impl_covariant s = true.
Hypothesis Hfr : frags_typed s (rd_frags d).

Definition tsel_ok (otn : str) (oimpls : list str) (x : rsel) : Prop :=
  doc_node d x /\ exists C, rs_typed s C x /\ ex_type_applies s otn oimpls C = true.
Definition tfield_ok (otn : str) (oimpls : list str) (g : rsel) : Prop :=
  rs_is_field g = true /\ tsel_ok otn oimpls g.

Lemma collect_typed otn oimpls fuel sels v groups :
  Forall (tsel_ok otn oimpls) sels -> ex_collect fuel cx otn oimpls sels [] [] = Some (v, groups) ->
  groups_all (tfield_ok otn oimpls) groups /\ groups_keyed groups.
Proof.
  intros Hs Hc. split; [|eapply collect_keyed; [exact Hc|constructor]].
  eapply (collect_inv cx otn oimpls (tsel_ok otn oimpls) (tfield_ok otn oimpls)); [| | |exact Hc|exact Hs|constructor].
  - intros x Hx Hf. now split.
  - intros cond dirs sub (Hd & C & Ht & Ha) Hcond. apply rs_typed_inline in Ht. apply Forall_forall. intros y Hy. split.
    + eapply doc_node_sub; [exact Hd|exact Hy].
    + rewrite Forall_forall in Ht. destruct cond as [c|]; [exists c|exists C]; split; auto.
  - intros name dirs fr (Hd & _) Hfind Ha. apply find_frag_in in Hfind. destruct Hfind as [Hin _].
    apply Forall_forall. intros y Hy. split; [eapply doc_node_frag; eassumption|].
    exists (rfr_cond fr). split; [|exact Ha]. specialize (Hfr fr Hin). rewrite Forall_forall in Hfr. now apply Hfr.
Qed.

(* the fields of one group, on an object type that has the field: one name; the type on the object type narrows
   the type each of them was typed with *)
Definition narrowed_by (t : ty) (g : rsel) : Prop :=
  ty_narrows s (inner_named_type t) (inner_named_type (rs_dty g)).

Lemma group_types otn oimpls f0 rest fdef :
  ex_get_object s otn = Some oimpls ->
  Forall (tfield_ok otn oimpls) (f0 :: rest) -> Forall (fun g => rs_name g = rs_name f0) (f0 :: rest) ->
  td_type_field s otn (rs_name f0) = Some fdef ->
  Forall (narrowed_by (fd_ty fdef)) (f0 :: rest).
Proof.
  intros Hg Hok Hnames Ht.
  apply Forall_forall. intros g Hin. rewrite Forall_forall in Hok, Hnames.
  destruct (Hok g Hin) as (Fg & Dg & C & Tg & Ag). pose proof (Hnames g Hin) as Hn.
  destruct g as [a n args dirs t sub|n dirs|c dirs sub]; try discriminate. unfold narrowed_by. cbn [rs_dty rs_name] in *.
  apply rs_typed_field in Tg. destruct Tg as [(dC & HdC & ->) _].
  eapply field_type_narrows; try eassumption. now rewrite Hn.
Qed.

(* the merged sub-selections, on the object type chosen by complete_value *)
Lemma sub_typed otn oimpls otn' oimpls' fields n :
  Forall (fun g => tfield_ok otn oimpls g /\ ty_narrows s n (inner_named_type (rs_dty g))) fields ->
  ex_get_object s otn' = Some oimpls' ->
  ex_type_applies s otn' oimpls' n = true ->
  Forall (tsel_ok otn' oimpls') (flat_map rs_sels fields).
Proof.
  intros H Hgo Ha. apply Forall_forall. intros y Hy. apply in_flat_map in Hy. destruct Hy as (g & Hg & Hy).
  rewrite Forall_forall in H. destruct (H g Hg) as [(Fg & Dg & C & Tg & _) Hn]. split; [eapply doc_node_sub; eassumption|].
  destruct g as [a nm args dirs t sub|nm dirs|c dirs sub]; try discriminate. cbn [rs_sels rs_dty] in *.
  apply rs_typed_field in Tg. destruct Tg as [_ Hsub]. rewrite Forall_forall in Hsub. exists (inner_named_type t).
  split; [now apply Hsub|]. now apply (Hn otn' oimpls').
Qed.

End Exec.
