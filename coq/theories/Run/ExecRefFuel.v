(* C26_fuel_enough: with the fuels computed by Run/ExecTop.v (ex_fuel_for, ex_cfuel_for, ex_afuel_for) the executor
   model never reports out-of-fuel, for any resolver world, provided chains of fragment spreads end (rd_acyclic).
   Three fuels: argument coercion (value nodes x type sizes), collect_fields (Run/ExecRefInv.v), and the executor
   itself: levels of nested fields (fdle, from rd_acyclic) x (2 x list wrappers + 3) calls per level. *)
From Coq Require Import ZArith Lia List.
From ApolloVerif Require Import Base.Chars Ast.Ast Schema.Model Run.Json Run.JsonLemmas Run.Coerce Run.CoerceProofs
  Run.TypedDoc Run.Prog Run.Execute Run.ExecTop Run.ExecProofs Run.ExecRefDefs Run.ExecRefInv.
Import ListNotations.
Local Open Scope nat_scope.
Local Open Scope list_scope.

(* ---------------------------------------------------------------- argument coercion *)
Lemma value_nodes_list l x : In x l -> (ex_value_nodes x < ex_value_nodes (VList l))%nat.
Proof.
  intros H. cbn [ex_value_nodes]. apply le_n_S. induction l as [|y r IH]; [contradiction|].
  destruct H as [->|H]; [lia|]. specialize (IH H). lia.
Qed.

Lemma value_nodes_object fs k x : In (k, x) fs -> (ex_value_nodes x < ex_value_nodes (VObject fs))%nat.
Proof.
  intros H. cbn [ex_value_nodes]. apply le_n_S. induction fs as [|[k' y] r IH]; [contradiction|].
  destruct H as [[= -> ->]|H]; [lia|]. specialize (IH H). lia.
Qed.

Lemma value_nodes_pos v : (1 <= ex_value_nodes v)%nat.
Proof. destruct v; cbn [ex_value_nodes]; lia. Qed.

Lemma ex_obj_get_in n fs v : ex_obj_get n fs = Some v -> exists k, In (k, v) fs.
Proof.
  induction fs as [|[k x] r IH]; cbn [ex_obj_get]; [discriminate|].
  destruct (ex_obj_get n r) as [v'|].
  - intros [= <-]. destruct (IH eq_refl) as [k' Hk]. exists k'. now right.
  - destruct (streq k n); [|discriminate]. intros [= <-]. exists k. now left.
Qed.

Lemma ex_find_arg_in n args v : ex_find_arg n args = Some v -> exists k, In (k, v) args.
Proof.
  induction args as [|[k x] r IH]; cbn [ex_find_arg]; [discriminate|].
  destruct (streq k n).
  - intros [= <-]. exists k. now left.
  - intros H. destruct (IH H) as [k' Hk]. exists k'. now right.
Qed.

Lemma ex_lit_nofuel v : ex_lit v <> AcFuel.
Proof.
  unfold ex_lit. pose proof (cv_lit_no_oof v). destruct (cv_lit_to_json v) as [j|[]|]; try discriminate. contradiction.
Qed.

Lemma ex_arglit_json_no_oof vars : forall v, ex_arglit_json vars v <> CvOutOfFuel.
Proof.
  fix IH 1. intros v. destruct v as [| | | | | | |l|fs]; cbn [ex_arglit_json cv_lit_to_json]; try discriminate.
  - destruct (json_number_of_float_text text); discriminate.
  - destruct (json_number_of_int_text text); discriminate.
  - assert (H : (fix go (l : list value) : cv_res (list json) :=
                 match l with
                 | [] => CvOk []
                 | x :: r => cv_bind (ex_arglit_json vars x) (fun y => cv_bind (go r) (fun ys => CvOk (y :: ys)))
                 end) l <> CvOutOfFuel).
    { induction l as [|x r IHl]; [discriminate|].
      pose proof (IH x) as Hx. destruct (ex_arglit_json vars x); cbn [cv_bind]; [|discriminate|congruence].
      match goal with |- cv_bind ?e _ <> _ => destruct e end; cbn [cv_bind]; [discriminate|discriminate|congruence]. }
    match goal with |- cv_bind ?e _ <> _ => destruct e end; cbn [cv_bind]; [discriminate|discriminate|congruence].
  - assert (H : (fix go (l : list (str * value)) : cv_res (list (str * json)) :=
                 match l with
                 | [] => CvOk []
                 | (k, x) :: r =>
                     cv_bind (ex_arglit_json vars x) (fun y => cv_bind (go r) (fun ys => CvOk ((k, y) :: ys)))
                 end) fs <> CvOutOfFuel).
    { induction fs as [|[k x] r IHl]; [discriminate|].
      pose proof (IH x) as Hx. destruct (ex_arglit_json vars x); cbn [cv_bind]; [|discriminate|congruence].
      match goal with |- cv_bind ?e _ <> _ => destruct e end; cbn [cv_bind]; [discriminate|discriminate|congruence]. }
    match goal with |- cv_bind ?e _ <> _ => destruct e end; cbn [cv_bind]; [discriminate|discriminate|congruence].
Qed.

Lemma ex_arglit_nofuel vars v : ex_arglit vars v <> AcFuel.
Proof.
  unfold ex_arglit. pose proof (ex_arglit_json_no_oof vars v).
  destruct (ex_arglit_json vars v) as [j|[]|]; try discriminate. contradiction.
Qed.

Lemma ac_bind_nofuel {A B} (x : ac_res A) (f : A -> ac_res B) :
  x <> AcFuel -> (forall a, x = AcOk a -> f a <> AcFuel) -> ac_bind x f <> AcFuel.
Proof. intros Hx Hf. destruct x as [a|c|]; cbn [ac_bind]; [now apply Hf|discriminate|contradiction]. Qed.

Lemma ac_map_m_nofuel {A B} (f : A -> ac_res B) l : (forall x, In x l -> f x <> AcFuel) -> ac_map_m f l <> AcFuel.
Proof.
  induction l as [|x r IH]; intros H; cbn [ac_map_m]; [discriminate|].
  apply ac_bind_nofuel; [apply H; now left|]. intros y _.
  apply ac_bind_nofuel; [apply IH; intros z Hz; apply H; now right|]. discriminate.
Qed.

Section ArgFuel.
Variables (s : schema) (vars : jmap) (T : nat).
Hypothesis HT : forall n desc nm dirs fs b f,
  sch_get_type s n = Some (EInput desc nm dirs fs b) -> In f fs -> (cv_ty_size (iv_ty (c_val f)) <= T)%nat.

Lemma arg_value_fuel : forall fuel t v,
  (ex_value_nodes v * S T + cv_ty_size t <= fuel)%nat -> ex_arg_value fuel s vars t v <> AcFuel.
Proof.
  induction fuel as [|fuel IH]; intros t v H.
  - pose proof (value_nodes_pos v). destruct (ex_value_nodes v); cbn in H; lia.
  - cbn [ex_arg_value]. destruct (ex_value_is_null v); [destruct (is_non_null t); discriminate|].
    (* the list branch *)
    assert (Hlist : forall inner items, (cv_ty_size t = S (cv_ty_size inner)) ->
              (forall x, In x items -> (ex_value_nodes x <= ex_value_nodes v)%nat) ->
              ac_bind (ac_map_m (ex_arg_value fuel s vars inner) items) (fun l => AcOk (JArr l)) <> AcFuel).
    { intros inner items Ht Hi. apply ac_bind_nofuel; [|discriminate]. apply ac_map_m_nofuel. intros x Hx. apply IH.
      specialize (Hi x Hx). assert (ex_value_nodes x * S T <= ex_value_nodes v * S T)%nat by (apply Nat.mul_le_mono_r; lia). lia. }
    (* the named branch *)
    assert (Hnamed : forall n,
              match sch_get_type s n with
              | None => AcErr EcBug
              | Some (EInput _ _ _ fs _) =>
                  match v with
                  | VObject obj =>
                      let fs := cv_fields_of fs in
                      if existsb (fun kv => match cv_find_field (fst kv) fs with Some _ => false | None => true end) obj
                      then AcErr EcArg
                      else
                        ac_bind
                          ((fix go (l : list inputvaldef) (acc : jmap) : ac_res jmap :=
                              match l with
                              | [] => AcOk acc
                              | f :: r =>
                                  match ex_obj_get (iv_name f) obj with
                                  | Some fv =>
                                      ac_bind (ex_arg_value fuel s vars (iv_ty f) fv)
                                              (fun x => go r (jmap_insert (iv_name f) x acc))
                                  | None =>
                                      match iv_default f with
                                      | Some d => ac_bind (ex_lit d) (fun x => go r (jmap_insert (iv_name f) x acc))
                                      | None => if is_non_null (iv_ty f) then AcErr EcArg else go r acc
                                      end
                                  end
                              end) fs [])
                          (fun o => AcOk (JObj o))
                  | _ => AcErr EcArg
                  end
              | Some _ => ex_arglit vars v
              end <> AcFuel).
    { intros n. destruct (sch_get_type s n) as [tdef|] eqn:Eg; [|discriminate].
      destruct tdef; try apply ex_arglit_nofuel.
      destruct v; try discriminate. cbv zeta.
      destruct (existsb _ fields0); [discriminate|].
      apply ac_bind_nofuel; [|discriminate].
      assert (Hfs : forall f, In f (cv_fields_of fields) -> (cv_ty_size (iv_ty f) <= T)%nat).
      { intros f Hf. unfold cv_fields_of in Hf. apply in_map_iff in Hf. destruct Hf as (c & <- & Hc).
        eapply HT; eassumption. }
      revert Hfs. generalize (@nil (str * json)). generalize (cv_fields_of fields).
      induction l as [|f r IHl]; intros acc Hfs; [discriminate|].
      assert (Hr : forall acc', (fix go (l : list inputvaldef) (acc : jmap) : ac_res jmap :=
                              match l with
                              | [] => AcOk acc
                              | f :: r =>
                                  match ex_obj_get (iv_name f) fields0 with
                                  | Some fv =>
                                      ac_bind (ex_arg_value fuel s vars (iv_ty f) fv)
                                              (fun x => go r (jmap_insert (iv_name f) x acc))
                                  | None =>
                                      match iv_default f with
                                      | Some d => ac_bind (ex_lit d) (fun x => go r (jmap_insert (iv_name f) x acc))
                                      | None => if is_non_null (iv_ty f) then AcErr EcArg else go r acc
                                      end
                                  end
                              end) r acc' <> AcFuel).
      { intros acc'. apply IHl. intros f' Hf'. apply Hfs. now right. }
      destruct (ex_obj_get (iv_name f) fields0) as [fv|] eqn:Eo.
      - apply ac_bind_nofuel; [|intros; apply Hr].
        apply IH. destruct (ex_obj_get_in _ _ _ Eo) as [k Hk]. pose proof (value_nodes_object _ _ _ Hk) as Hlt.
        assert (cv_ty_size (iv_ty f) <= T)%nat by (apply Hfs; now left).
        assert (S (ex_value_nodes fv) * S T <= ex_value_nodes (VObject fields0) * S T)%nat by (apply Nat.mul_le_mono_r; lia).
        assert (1 <= cv_ty_size t)%nat by (destruct t; cbn; lia). lia.
      - destruct (iv_default f) as [dv|].
        + apply ac_bind_nofuel; [apply ex_lit_nofuel|intros; apply Hr].
        + destruct (is_non_null (iv_ty f)); [discriminate|apply Hr]. }
    destruct v; try (destruct (jmap_get n vars) as [x|]; [destruct (json_is_null x && is_non_null t)|destruct (is_non_null t)]; discriminate);
      (destruct t as [n0|n0|inner|inner];
       [apply Hnamed|apply Hnamed|
        apply Hlist; [reflexivity|intros x Hx; try (destruct Hx as [<-|[]]; lia); pose proof (value_nodes_list _ _ Hx); lia]|
        apply Hlist; [reflexivity|intros x Hx; try (destruct Hx as [<-|[]]; lia); pose proof (value_nodes_list _ _ Hx); lia]]).
Qed.

End ArgFuel.

(* the bound on the types of arguments and input fields *)
Definition arg_ty_body (t : ext_type) (acc : nat) : nat :=
  match t with
  | EInput _ _ _ fs _ => fold_right (fun f a => Nat.max (cv_ty_size (iv_ty (c_val f))) a) acc fs
  | EObject _ _ _ _ fs _ | EInterface _ _ _ _ fs _ =>
      fold_right (fun f a => fold_right (fun iv a' => Nat.max (cv_ty_size (iv_ty iv)) a') a (fd_args (c_val f))) acc fs
  | _ => acc
  end.

Lemma arg_ty_max_eq s : ex_schema_arg_ty_max s = fold_right arg_ty_body 1%nat (sch_types s).
Proof. reflexivity. Qed.

Lemma fold_max_acc_ge {A} (f : A -> nat) l acc : (acc <= fold_right (fun y a => Nat.max (f y) a) acc l)%nat.
Proof. induction l as [|y r IH]; cbn [fold_right]; lia. Qed.
Lemma fold_max_acc_in {A} (f : A -> nat) l acc x : In x l -> (f x <= fold_right (fun y a => Nat.max (f y) a) acc l)%nat.
Proof. induction l as [|y r IH]; intros H; [contradiction|]. cbn [fold_right]. destruct H as [->|H]; [lia|]. specialize (IH H). lia. Qed.

Lemma fold_args_acc_ge (fs : list (comp fielddef)) acc :
  (acc <= fold_right (fun f a => fold_right (fun iv a' => Nat.max (cv_ty_size (iv_ty iv)) a') a (fd_args (c_val f))) acc fs)%nat.
Proof.
  induction fs as [|f r IH]; cbn [fold_right]; [lia|].
  pose proof (fold_max_acc_ge (fun iv => cv_ty_size (iv_ty iv)) (fd_args (c_val f))
                (fold_right (fun f a => fold_right (fun iv a' => Nat.max (cv_ty_size (iv_ty iv)) a') a (fd_args (c_val f))) acc r)). lia.
Qed.
Lemma fold_args_acc_in (fs : list (comp fielddef)) acc f iv : In f fs -> In iv (fd_args (c_val f)) ->
  (cv_ty_size (iv_ty iv) <= fold_right (fun f a => fold_right (fun iv a' => Nat.max (cv_ty_size (iv_ty iv)) a') a (fd_args (c_val f))) acc fs)%nat.
Proof.
  intros Hf Hiv. induction fs as [|f0 r IH]; [contradiction|]. cbn [fold_right]. destruct Hf as [->|Hf].
  - now apply (fold_max_acc_in (fun iv => cv_ty_size (iv_ty iv))).
  - specialize (IH Hf).
    pose proof (fold_max_acc_ge (fun iv => cv_ty_size (iv_ty iv)) (fd_args (c_val f0))
                  (fold_right (fun f a => fold_right (fun iv a' => Nat.max (cv_ty_size (iv_ty iv)) a') a (fd_args (c_val f))) acc r)). lia.
Qed.

Lemma arg_ty_body_ge t acc : (acc <= arg_ty_body t acc)%nat.
Proof.
  destruct t; cbn [arg_ty_body]; try lia; try apply fold_args_acc_ge.
  apply (fold_max_acc_ge (fun f : comp inputvaldef => cv_ty_size (iv_ty (c_val f)))).
Qed.

Lemma arg_ty_fold_ge ts acc : (acc <= fold_right arg_ty_body acc ts)%nat.
Proof. induction ts as [|t r IH]; cbn [fold_right]; [lia|]. pose proof (arg_ty_body_ge t (fold_right arg_ty_body acc r)). lia. Qed.

Lemma arg_ty_fold_in ts t acc0 : In t ts -> exists acc, (arg_ty_body t acc <= fold_right arg_ty_body acc0 ts)%nat.
Proof.
  induction ts as [|t0 r IH]; intros H; [contradiction|]. cbn [fold_right]. destruct H as [->|H].
  - eexists. apply le_n.
  - destruct (IH H) as [acc Ha]. exists acc. pose proof (arg_ty_body_ge t0 (fold_right arg_ty_body acc0 r)). lia.
Qed.

Lemma schema_input_ty s n desc nm dirs fs b f :
  sch_get_type s n = Some (EInput desc nm dirs fs b) -> In f fs ->
  (cv_ty_size (iv_ty (c_val f)) <= ex_schema_arg_ty_max s)%nat.
Proof.
  intros Hg Hf. apply sch_find_type_in in Hg. rewrite arg_ty_max_eq.
  destruct (arg_ty_fold_in _ _ 1%nat Hg) as [acc Ha]. cbn [arg_ty_body] in Ha.
  pose proof (fold_max_acc_in (fun f : comp inputvaldef => cv_ty_size (iv_ty (c_val f))) fs acc f Hf). lia.
Qed.

Lemma td_find_fd_in n fs fd : td_find_fd n fs = Some fd -> exists c, In c fs /\ fd = c_val c /\ fd_name fd = n.
Proof.
  induction fs as [|c r IH]; cbn [td_find_fd]; [discriminate|].
  destruct (streq n (fd_name (c_val c))) eqn:E.
  - intros [= <-]. exists c. split; [now left|]. split; [reflexivity|]. symmetry. now apply streq_eq.
  - intros H. destruct (IH H) as (c' & Hc & He). exists c'. split; [now right|assumption].
Qed.

Lemma type_field_arg_ty s tn fname fdef iv :
  td_type_field s tn fname = Some fdef -> In iv (fd_args fdef) ->
  (cv_ty_size (iv_ty iv) <= ex_schema_arg_ty_max s)%nat.
Proof.
  unfold td_type_field. destruct (sch_get_type s tn) as [t|] eqn:Eg; [|discriminate].
  apply sch_find_type_in in Eg. rewrite arg_ty_max_eq.
  assert (Hone : (1 <= fold_right arg_ty_body 1%nat (sch_types s))%nat) by apply arg_ty_fold_ge.
  assert (Hmeta : forall fd, (fd = td_meta_typename \/ fd = td_meta_schema \/ fd = td_meta_type) -> In iv (fd_args fd) ->
            (cv_ty_size (iv_ty iv) <= fold_right arg_ty_body 1%nat (sch_types s))%nat).
  { intros fd [->|[->| ->]] Hin; cbn in Hin; try contradiction. destruct Hin as [<-|[]]. cbn. exact Hone. }
  assert (Hexp : forall fs, (exists acc, (fold_right (fun f a => fold_right (fun iv a' => Nat.max (cv_ty_size (iv_ty iv)) a') a (fd_args (c_val f))) acc fs
                                         <= fold_right arg_ty_body 1%nat (sch_types s))%nat) ->
            td_find_fd fname fs = Some fdef -> In iv (fd_args fdef) ->
            (cv_ty_size (iv_ty iv) <= fold_right arg_ty_body 1%nat (sch_types s))%nat).
  { intros fs [acc Ha] Hf Hin. destruct (td_find_fd_in _ _ _ Hf) as (c & Hc & -> & _).
    pose proof (fold_args_acc_in fs acc c iv Hc Hin). lia. }
  destruct (arg_ty_fold_in _ _ 1%nat Eg) as [acc Ha].
  intros H Hin.
  destruct t as [desc nm dirs b|desc nm impls dirs fs b|desc nm impls dirs fs b|desc nm dirs ms b|desc nm dirs vs b|desc nm dirs fs b];
    cbn [arg_ty_body] in Ha;
    try (destruct (td_find_fd fname fs) as [fd|] eqn:Ef;
         [injection H as <-; eapply Hexp; [exists acc; exact Ha|exact Ef|exact Hin]|]);
    repeat match type of H with
           | (if ?c then _ else _) = _ => destruct c
           | Some _ = Some _ => injection H as <-
           | None = Some _ => discriminate
           end; try (eapply Hmeta; [|exact Hin]; tauto).
Qed.

(* the bound on the types of fields *)
Lemma schema_field_ty_max_ge_one s : (1 <= ex_schema_field_ty_max s)%nat.
Proof. unfold ex_schema_field_ty_max. apply (fold_max_acc_ge cv_ty_size). Qed.

Lemma type_field_ty_size s tn fname fdef :
  td_type_field s tn fname = Some fdef -> (cv_ty_size (fd_ty fdef) <= ex_schema_field_ty_max s)%nat.
Proof.
  unfold td_type_field. destruct (sch_get_type s tn) as [t|] eqn:Eg; [|discriminate].
  apply sch_find_type_in in Eg. pose proof (schema_field_ty_max_ge_one s) as Hone.
  assert (Hexp : forall fs, (forall f, In f fs -> In (fd_ty (c_val f)) (ex_schema_field_tys s)) ->
            td_find_fd fname fs = Some fdef -> (cv_ty_size (fd_ty fdef) <= ex_schema_field_ty_max s)%nat).
  { intros fs Hfs Hf. destruct (td_find_fd_in _ _ _ Hf) as (c & Hc & -> & _).
    unfold ex_schema_field_ty_max. apply (fold_max_acc_in cv_ty_size). now apply Hfs. }
  assert (Hin : forall fs, match t with EObject _ _ _ _ fs' _ | EInterface _ _ _ _ fs' _ => fs' = fs | _ => False end ->
            forall f, In f fs -> In (fd_ty (c_val f)) (ex_schema_field_tys s)).
  { intros fs Hk f Hf. unfold ex_schema_field_tys. apply in_flat_map. exists t. split; [exact Eg|].
    destruct t; try contradiction; subst; cbv beta iota; now apply (in_map (fun f0 : comp fielddef => fd_ty (c_val f0))). }
  intros H.
  destruct t as [desc nm dirs b|desc nm impls dirs fs b|desc nm impls dirs fs b|desc nm dirs ms b|desc nm dirs vs b|desc nm dirs fs b];
    try (destruct (td_find_fd fname fs) as [fd|] eqn:Ef;
         [injection H as <-; eapply Hexp; [apply Hin; reflexivity|exact Ef]|]);
    repeat match type of H with
           | (if ?c then _ else _) = _ => destruct c
           | Some _ = Some _ => injection H as <-
           | None = Some _ => discriminate
           end; try (cbn; exact Hone).
Qed.

Section CoerceArgs.
Variables (s : schema) (d : rdoc) (vars : jmap).
Let cx := ex_cx_for s d vars.

Lemma coerce_args_loop_fuel defs args : forall acc,
  (forall iv, In iv defs -> (cv_ty_size (iv_ty iv) <= ex_schema_arg_ty_max s)%nat) ->
  (forall a, In a args -> (ex_value_nodes (snd a) <= rd_sum rsl_arg_nodes d)%nat) ->
  ex_coerce_args_loop cx defs args acc <> AcFuel.
Proof.
  induction defs as [|dv r IH]; intros acc Hd Ha; cbn [ex_coerce_args_loop]; [discriminate|].
  assert (Hr : forall acc', ex_coerce_args_loop cx r args acc' <> AcFuel).
  { intros acc'. apply IH; [intros iv Hiv; apply Hd; now right|exact Ha]. }
  assert (Hdef : match iv_default dv with
                 | Some dv0 => ac_bind (ex_lit dv0) (fun x => ex_coerce_args_loop cx r args (jmap_insert (iv_name dv) x acc))
                 | None => if is_non_null (iv_ty dv) then AcErr EcArg else ex_coerce_args_loop cx r args acc
                 end <> AcFuel).
  { destruct (iv_default dv); [apply ac_bind_nofuel; [apply ex_lit_nofuel|intros; apply Hr]|].
    destruct (is_non_null (iv_ty dv)); [discriminate|apply Hr]. }
  destruct (ex_find_arg (iv_name dv) args) as [v|] eqn:Ef; [|exact Hdef].
  assert (Hval : (if ex_value_is_null v && is_non_null (iv_ty dv) then AcErr EcArg
                  else ac_bind (ex_arg_value (ex_afuel cx) (ex_schema cx) (ex_vars cx) (iv_ty dv) v)
                         (fun x => ex_coerce_args_loop cx r args (jmap_insert (iv_name dv) x acc))) <> AcFuel).
  { destruct (ex_value_is_null v && is_non_null (iv_ty dv)); [discriminate|].
    apply ac_bind_nofuel; [|intros; apply Hr].
    apply (arg_value_fuel s (ex_vars cx) (ex_schema_arg_ty_max s)).
    - intros n desc nm dirs fs b f Hg Hf. eapply schema_input_ty; eassumption.
    - destruct (ex_find_arg_in _ _ _ Ef) as [k Hk]. specialize (Ha _ Hk). cbn [snd] in Ha.
      assert (cv_ty_size (iv_ty dv) <= ex_schema_arg_ty_max s)%nat by (apply Hd; now left).
      cbn [cx ex_cx_for ex_afuel]. unfold ex_afuel_for.
      assert (ex_value_nodes v * S (ex_schema_arg_ty_max s) <= rd_sum rsl_arg_nodes d * S (ex_schema_arg_ty_max s))%nat
        by (apply Nat.mul_le_mono_r; exact Ha). lia. }
  destruct v; try exact Hval.
  destruct (jmap_get n (ex_vars cx)) as [x|]; [|exact Hdef].
  destruct (json_is_null x && is_non_null (iv_ty dv)); [discriminate|apply Hr].
Qed.

Lemma coerce_args_fuel otn fdef f0 :
  td_type_field s otn (rs_name f0) = Some fdef -> doc_node d f0 ->
  ex_coerce_args cx fdef f0 <> AcFuel.
Proof.
  intros Ht Hd. unfold ex_coerce_args. apply coerce_args_loop_fuel.
  - intros iv Hiv. eapply type_field_arg_ty; eassumption.
  - intros a Ha. eapply doc_node_arg_nodes; eassumption.
Qed.
End CoerceArgs.

(* ---------------------------------------------------------------- the executor *)
Section Exec.
Variables (s : schema) (d : rdoc) (vars : jmap) (w : world).
Let cx := ex_cx_for s d vars.
Let frags := rd_frags d.
Let maxty := ex_ty_max s d.
Let c := (2 * maxty + 8)%nat.

Definition nofuel {A} (p : em (xres A)) : Prop := forall st log, fst (fst (run_sync w (p st) log)) <> XrFuel.

Definition field_ok (m : nat) (g : rsel) : Prop := rs_is_field g = true /\ doc_node d g /\ fdle_x frags g m.
Definition sel_ok (m : nat) (x : rsel) : Prop := doc_node d x /\ fdle_x frags x m.
Definition sels_ok (m : nat) (sels : list rsel) : Prop :=
  (ex_cneed frags sels [] <= ex_cfuel_for d)%nat /\ Forall (sel_ok m) sels.

Lemma fields_loop_nofuel run_field otn : forall gs acc,
  (forall key f0 rest fdef, In (key, (f0, rest)) gs -> td_type_field s otn (rs_name f0) = Some fdef ->
     nofuel (run_field key fdef f0 rest)) ->
  nofuel (ex_fields_loop run_field s otn gs acc).
Proof.
  induction gs as [|[key [f0 rest]] gs IH]; intros acc H st log; cbn [ex_fields_loop].
  - rewrite rs_ret. cbn. discriminate.
  - assert (Hr : forall acc', nofuel (ex_fields_loop run_field s otn gs acc')).
    { intros acc'. apply IH. intros k g0 r0 fd Hin. apply H. now right. }
    destruct (td_type_field s otn (rs_name f0)) as [fdef|] eqn:Et; [|apply Hr].
    rewrite rs_bind. pose proof (H key f0 rest fdef (or_introl eq_refl) Et st log) as Hf.
    destruct (run_sync w (run_field key fdef f0 rest st) log) as [[r st1] log1]. cbn [fst] in Hf.
    destruct r as [[v|]| |]; try apply Hr; [rewrite rs_ret; cbn; discriminate|contradiction].
Qed.

Lemma items_loop_nofuel complete_item t inner rpath : forall items idx acc,
  (forall idx it, nofuel (complete_item idx it)) ->
  nofuel (ex_items_loop complete_item t inner rpath items idx acc).
Proof.
  induction items as [|it items IH]; intros idx acc H st log; cbn [ex_items_loop]; rewrite rs_bind, rs_next.
  - rewrite rs_ret. cbn. discriminate.
  - assert (Hgo : fst (fst (run_sync w (ebind (complete_item idx it)
                 (fun res0 => match ex_try_nullify inner res0 with
                              | XrOk None => ex_items_loop complete_item t inner rpath items (idx + 1) acc
                              | XrOk (Some v) => ex_items_loop complete_item t inner rpath items (idx + 1) (v :: acc)
                              | XrNull => eret (ex_try_nullify t XrNull)
                              | XrFuel => eret XrFuel
                              end) st) log)) <> XrFuel).
    { rewrite rs_bind. pose proof (H idx it st log) as Hc.
      destruct (run_sync w (complete_item idx it st) log) as [[r st1] log1]. cbn [fst] in Hc.
      destruct r as [[v|]| |]; cbn [ex_try_nullify]; try (apply IH; exact H); [|contradiction].
      destruct (is_non_null inner); [|apply IH; exact H].
      rewrite rs_ret. cbn [fst]. destruct (is_non_null t); discriminate. }
    destruct it; try exact Hgo. rewrite rs_fail. cbn. discriminate.
Qed.

Definition PA_selset (fuel : nat) : Prop :=
  forall rpath otn oimpls oid sels m, sels_ok m sels -> (m * c + 1 <= fuel)%nat ->
    nofuel (ex_selset fuel cx rpath otn oimpls oid sels).
Definition PA_field (fuel : nat) : Prop :=
  forall rpath otn oimpls oid fdef f0 rest m, Forall (field_ok (S m)) (f0 :: rest) ->
    td_type_field s otn (rs_name f0) = Some fdef -> (m * c + 3 + 2 * maxty <= fuel)%nat ->
    nofuel (ex_field fuel cx rpath otn oimpls oid fdef f0 rest).
Definition PA_complete (fuel : nat) : Prop :=
  forall rpath t r f0 rest m, Forall (field_ok (S m)) (f0 :: rest) -> (m * c + 1 + 2 * cv_ty_size t <= fuel)%nat ->
    nofuel (ex_complete fuel cx rpath t r f0 rest).
Definition PA_list (fuel : nat) : Prop :=
  forall rpath t f0 rest items m, Forall (field_ok (S m)) (f0 :: rest) -> (m * c + 2 * cv_ty_size t <= fuel)%nat ->
    nofuel (ex_list fuel cx rpath t f0 rest items).

(* the merged sub-selections of a group *)
Lemma sub_sels_ok fields m : Forall (field_ok (S m)) fields -> sels_ok m (flat_map rs_sels fields).
Proof.
  intros H. split.
  - apply cneed_fields. eapply Forall_impl; [|exact H]. intros g (Hf & Hd & _). now split.
  - apply Forall_forall. intros x Hx. apply in_flat_map in Hx. destruct Hx as (g & Hg & Hx).
    rewrite Forall_forall in H. destruct (H g Hg) as (Hf & Hd & Hdep). split; [eapply doc_node_sub; eassumption|].
    destruct g as [a n args dirs t sub|n dirs|cnd dirs sub]; try discriminate. cbn [rs_sels] in Hx.
    inversion Hdep as [? ? ? ? ? ? ? Hsub| | |]; subst. rewrite Forall_forall in Hsub. now apply Hsub.
Qed.

(* the collected fields of a selection set *)
Lemma collect_ok otn oimpls sels m v groups :
  Forall (sel_ok m) sels -> ex_collect (ex_cfuel cx) cx otn oimpls sels [] [] = Some (v, groups) ->
  groups_all (field_ok m) groups.
Proof.
  intros Hs Hc.
  eapply (collect_inv cx otn oimpls (sel_ok m) (field_ok m)); [| | |exact Hc|exact Hs|constructor].
  - intros x [Hd Hf] Hfld. now repeat split.
  - intros cond dirs sub [Hd Hf] _. apply Forall_forall. intros y Hy. split.
    + eapply doc_node_sub; [exact Hd|exact Hy].
    + inversion Hf as [|? ? ? ? Hsub| |]; subst. rewrite Forall_forall in Hsub. now apply Hsub.
  - intros name dirs fr [Hd Hf] Hfind _. apply Forall_forall. intros y Hy. split.
    + apply find_frag_in in Hfind. destruct Hfind as [Hin _]. eapply doc_node_frag; eassumption.
    + inversion Hf as [| |? ? ? Hnone|? ? ? ? Hsome Hsub]; subst.
      * cbn [cx ex_cx_for ex_frags] in Hfind. unfold frags in Hnone. congruence.
      * cbn [cx ex_cx_for ex_frags] in Hfind. unfold frags in Hsome. rewrite Hfind in Hsome. injection Hsome as <-.
        rewrite Forall_forall in Hsub. now apply Hsub.
Qed.

Lemma fuel_step fuel :
  PA_selset fuel /\ PA_field fuel /\ PA_complete fuel /\ PA_list fuel ->
  PA_selset (S fuel) /\ PA_field (S fuel) /\ PA_complete (S fuel) /\ PA_list (S fuel).
Proof.
  intros (IHs & IHf & IHc & IHl). split; [|split; [|split]].
  - (* execute_selection_set *)
    intros rpath otn oimpls oid sels m [Hcf Hs] Hm st log. cbn [ex_selset].
    destruct (collect_fuel cx otn oimpls (ex_cfuel cx) sels [] []) as (v & groups & Ec & _); [exact Hcf|].
    rewrite Ec. pose proof (collect_ok _ _ _ _ _ _ Hs Ec) as Hg.
    apply fields_loop_nofuel. intros key f0 rest fdef Hin Ht.
    unfold groups_all in Hg. rewrite Forall_forall in Hg. specialize (Hg _ Hin). cbn [fst snd] in Hg. destruct Hg as [H0 Hr].
    destruct m as [|m].
    { destruct H0 as (Hf & _ & Hdep). destruct f0; try discriminate. inversion Hdep. }
    apply (IHf _ _ _ _ _ _ _ m); [constructor; assumption|exact Ht|]. unfold c in *. lia.
  - (* execute_field *)
    intros rpath otn oimpls oid fdef f0 rest m Hfs Ht Hm st log. cbn [ex_field].
    inversion Hfs as [|? ? H0 Hr]; subst. destruct H0 as (Hfld & Hd & Hdep).
    pose proof (coerce_args_fuel s d vars otn fdef f0 Ht Hd) as Hca. fold cx in Hca.
    destruct (ex_coerce_args cx fdef f0) as [args|cl|]; [| |contradiction].
    + assert (Hcomp : forall r, nofuel (ex_complete fuel cx rpath (fd_ty fdef) r f0 rest)).
      { intros r. apply (IHc _ _ _ _ _ m); [exact Hfs|]. pose proof (type_field_ty_size s otn _ fdef Ht).
        unfold maxty, ex_ty_max in *. lia. }
      rewrite rs_bind.
      match goal with
      | |- context [run_sync w (?x st) log] =>
          assert (Hx : fst (fst (run_sync w (x st) log)) <> XrFuel)
      end.
      { destruct (streq (rs_name f0) td_typename); [apply Hcomp|].
        destruct ((streq (rs_name f0) td_schema || streq (rs_name f0) td_type) && td_is_query_root (ex_schema cx) otn).
        - rewrite rs_fail. cbn. discriminate.
        - rewrite rs_bind, rs_call.
          destruct (world_resolve w {| ec_obj := oid; ec_field := rs_name f0; ec_args := args |}); try apply Hcomp.
          rewrite rs_fail. cbn. discriminate. }
      match goal with
      | |- context [run_sync w (?x st) log] => destruct (run_sync w (x st) log) as [[r st1] log1]
      end.
      cbn [fst] in Hx. rewrite rs_ret. cbn [fst]. destruct r as [o| |]; cbn [ex_try_nullify]; try discriminate; [|contradiction].
      destruct (is_non_null (fd_ty fdef)); discriminate.
    + rewrite rs_bind, rs_push, rs_ret. cbn [fst]. destruct (is_non_null (fd_ty fdef)); discriminate.
  - (* complete_value *)
    intros rpath t r f0 rest m Hfs Hm st log. cbn [ex_complete].
    assert (Hfail : forall cl, fst (fst (run_sync w (@ex_fail (option json) cl rpath st) log)) <> XrFuel).
    { intros cl. rewrite rs_fail. cbn. discriminate. }
    assert (Hsel : forall otn oimpls id,
              fst (fst (run_sync w (ebind (ex_selset fuel cx rpath otn oimpls id (flat_map rs_sels (f0 :: rest)))
                                      (fun m0 => eret (match m0 with
                                                       | XrOk o => XrOk (Some (JObj o))
                                                       | XrNull => XrNull
                                                       | XrFuel => XrFuel
                                                       end)) st) log)) <> XrFuel).
    { intros otn oimpls id. rewrite rs_bind.
      pose proof (IHs rpath otn oimpls id (flat_map rs_sels (f0 :: rest)) m (sub_sels_ok _ _ Hfs)) as Hs.
      assert (Hfu : (m * c + 1 <= fuel)%nat) by (assert (1 <= cv_ty_size t)%nat by (destruct t; cbn; lia); lia).
      specialize (Hs Hfu st log).
      destruct (run_sync w (ex_selset fuel cx rpath otn oimpls id (flat_map rs_sels (f0 :: rest)) st) log) as [[m0 st1] log1].
      cbn [fst] in Hs. rewrite rs_ret. cbn [fst]. destruct m0; [discriminate|discriminate|contradiction]. }
    assert (Hnamed : forall r0, (forall l, r0 <> RvList l) -> r0 <> RvErr -> r0 <> RvSkip ->
              fst (fst (run_sync w
                (match t with
                 | TList _ | TNonNullList _ => ex_fail EcKind rpath
                 | TNamed n | TNonNullNamed n =>
                     match sch_get_type (ex_schema cx) n with
                     | None => ex_fail EcBug rpath
                     | Some (EInput _ _ _ _ _) => ex_fail EcBug rpath
                     | Some tdef =>
                         match r0 with
                         | RvLeaf j => match ex_leaf n tdef j with
                                       | Some c => ex_fail c rpath
                                       | None => eret (XrOk (Some j))
                                       end
                         | RvObject id tname =>
                             match ex_object_type (ex_schema cx) n tdef tname with
                             | inr c => ex_fail c rpath
                             | inl (otn, oimpls) =>
                                 ebind (ex_selset fuel cx rpath otn oimpls id (flat_map rs_sels (f0 :: rest)))
                                       (fun m => eret (match m with
                                                       | XrOk o => XrOk (Some (JObj o))
                                                       | XrNull => XrNull
                                                       | XrFuel => XrFuel
                                                       end))
                             end
                         | _ => eret XrFuel
                         end
                     end
                 end st) log)) <> XrFuel).
    { intros r0 Hnl Hne Hns.
      assert (Hcase : forall n,
                fst (fst (run_sync w
                  (match sch_get_type (ex_schema cx) n with
                   | None => ex_fail EcBug rpath
                   | Some (EInput _ _ _ _ _) => ex_fail EcBug rpath
                   | Some tdef =>
                       match r0 with
                       | RvLeaf j => match ex_leaf n tdef j with
                                     | Some c => ex_fail c rpath
                                     | None => eret (XrOk (Some j))
                                     end
                       | RvObject id tname =>
                           match ex_object_type (ex_schema cx) n tdef tname with
                           | inr c => ex_fail c rpath
                           | inl (otn, oimpls) =>
                               ebind (ex_selset fuel cx rpath otn oimpls id (flat_map rs_sels (f0 :: rest)))
                                     (fun m => eret (match m with
                                                     | XrOk o => XrOk (Some (JObj o))
                                                     | XrNull => XrNull
                                                     | XrFuel => XrFuel
                                                     end))
                           end
                       | _ => eret XrFuel
                       end
                   end st) log)) <> XrFuel).
      { intros n. destruct (sch_get_type (ex_schema cx) n) as [tdef|]; [|apply Hfail].
        assert (Hgen : fst (fst (run_sync w
                  (match r0 with
                   | RvLeaf j => match ex_leaf n tdef j with
                                 | Some c => ex_fail c rpath
                                 | None => eret (XrOk (Some j))
                                 end
                   | RvObject id tname =>
                       match ex_object_type (ex_schema cx) n tdef tname with
                       | inr c => ex_fail c rpath
                       | inl (otn, oimpls) =>
                           ebind (ex_selset fuel cx rpath otn oimpls id (flat_map rs_sels (f0 :: rest)))
                                 (fun m => eret (match m with
                                                 | XrOk o => XrOk (Some (JObj o))
                                                 | XrNull => XrNull
                                                 | XrFuel => XrFuel
                                                 end))
                       end
                   | _ => eret XrFuel
                   end st) log)) <> XrFuel).
        { destruct r0 as [j|id tname|l| |].
          - destruct (ex_leaf n tdef j); [apply Hfail|]. rewrite rs_ret. cbn. discriminate.
          - destruct (ex_object_type (ex_schema cx) n tdef tname) as [[otn oimpls]|cl]; [apply Hsel|apply Hfail].
          - exfalso. now apply (Hnl l).
          - contradiction.
          - contradiction. }
        destruct tdef; try exact Hgen. apply Hfail. }
      destruct t as [n|n|i|i]; [apply Hcase|apply Hcase|apply Hfail|apply Hfail]. }
    destruct r as [j|id tname|items| |].
    + destruct j;
        try (match goal with |- context [ex_leaf _ _ ?j] => apply (Hnamed (RvLeaf j)); discriminate end).
      destruct (is_non_null t); [apply Hfail|]. rewrite rs_ret. cbn. discriminate.
    + apply (Hnamed (RvObject id tname)); discriminate.
    + apply (IHl _ _ _ _ _ m); [exact Hfs|lia].
    + apply Hfail.
    + rewrite rs_ret. cbn. discriminate.
  - (* complete_list_value *)
    intros rpath t f0 rest items m Hfs Hm st log. cbn [ex_list].
    destruct t as [n|n|inner|inner]; try (rewrite rs_fail; cbn; discriminate);
      (apply items_loop_nofuel; intros idx it; apply (IHc _ _ _ _ _ m); [exact Hfs|cbn [cv_ty_size] in Hm; lia]).
Qed.

Lemma fuel_zero : PA_selset 0 /\ PA_field 0 /\ PA_complete 0 /\ PA_list 0.
Proof.
  split; [|split; [|split]].
  - intros rpath otn oimpls oid sels m _ Hm. lia.
  - intros rpath otn oimpls oid fdef f0 rest m _ _ Hm. lia.
  - intros rpath t r f0 rest m _ Hm. lia.
  - intros rpath t f0 rest items m _ Hm. assert (1 <= cv_ty_size t)%nat by (destruct t; cbn; lia). lia.
Qed.

Lemma fuel_all fuel : PA_selset fuel /\ PA_field fuel /\ PA_complete fuel /\ PA_list fuel.
Proof. induction fuel as [|fuel IH]; [apply fuel_zero|now apply fuel_step]. Qed.

(* the request *)
Lemma root_sels_ok : rd_acyclic d = true ->
  sels_ok (rd_max rsl_depth d + length frags * rd_max rsl_depth d) (rd_sels d).
Proof.
  intros Ha. unfold rd_acyclic in Ha. rewrite forallb_forall in Ha. split; [apply cneed_root|].
  assert (Hdep : Forall (fun y => fdle_x frags y (rd_max rsl_depth d + length frags * rd_max rsl_depth d)) (rd_sels d)).
  { apply (fr_ok_fdle frags (rd_max rsl_depth d)) with (k := S (length frags)).
    - intros f Hf. apply (rd_max_in rsl_depth). right. now apply in_map.
    - apply Ha. now left.
    - cbn [Nat.sub]. rewrite Nat.sub_0_r. pose proof (rd_max_in rsl_depth d (rd_sels d) (or_introl eq_refl)). lia. }
  apply Forall_forall. intros x Hx. split; [now apply doc_node_root|]. rewrite Forall_forall in Hdep. now apply Hdep.
Qed.

Lemma execute_prog_nofuel root impls : rd_acyclic d = true ->
  forall log, fst (fst (run_sync w (execute_prog s d vars root impls) log)) <> XrFuel.
Proof.
  intros Ha log. unfold execute_prog. destruct (fuel_all (ex_fuel_for s d)) as (Hs & _).
  apply (Hs [] root impls 0%N (rd_sels d) _ (root_sels_ok Ha)).
  unfold ex_fuel_for, c, maxty, frags. set (D := rd_max rsl_depth d). set (K := length (rd_frags d)).
  set (M := ex_ty_max s d). nia.
Qed.

End Exec.

Lemma c26_fuel_enough : forall s doc values w d vars root impls,
  execute_prepare s doc values = EpReady d vars root impls ->
  rd_acyclic d = true ->
  fst (execute_request s doc values w) <> EoFuel.
Proof.
  intros s doc values w d vars root impls Hp Ha. unfold execute_request. rewrite Hp.
  pose proof (execute_prog_nofuel s d vars w root impls Ha []) as H.
  destruct (run_sync w (execute_prog s d vars root impls) []) as [[r st] log]. cbn [fst] in *.
  destruct r; cbn [ex_outcome]; [discriminate|discriminate|contradiction].
Qed.
