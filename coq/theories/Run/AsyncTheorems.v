(* C27: property-level statements and the non-vacuity witness; Props/C27.v only restates them. *)
From Coq Require Import ZArith Arith Lia String.
From ApolloVerif Require Import Base.Chars Ast.Ast Schema.Model Run.Json Run.Coerce Run.TypedDoc Run.Prog
  Run.Execute Run.ExecTop Run.Async Run.AsyncExec Run.ExecTheorems.
Local Open Scope string_scope.
Local Open Scope nat_scope.
Local Open Scope list_scope.

(* execute_async under any schedule: the response and the resolver call log of execute_sync, and exactly
   1 + (sum of the pending counts of the await points passed) polls of the root future *)
Lemma c27_schedule_independent : forall sigma s doc values w,
  execute_request_async sigma s doc values w =
  (fst (execute_request s doc values w), snd (execute_request s doc values w),
   1 + sum_sigma sigma 0 (request_points s doc values w)).
Proof. exact request_schedule_independent. Qed.

(* the same, for any program at all: sequential await is schedule-independent *)
Lemma c27_program_schedule_independent : forall (A : Type) sigma w (p : prog A) i,
  run_async (to_async sigma w p i) =
  (fst (run_sync w p []), i + sync_points w p, rev (snd (run_sync w p [])),
   1 + sum_sigma sigma i (sync_points w p)).
Proof. intros. apply async_schedule_independent. Qed.

(* the fields of a selection set (in particular the root fields of a mutation) are executed one after the other,
   in the order of the grouped field set: the call log is the concatenation of the per-field call logs *)
Lemma c27_mutation_serial : forall w fuel cx rpath otn oimpls oid sels st visited groups,
  ex_collect (ex_cfuel cx) cx otn oimpls sels [] [] = Some (visited, groups) ->
  let run_field := fun key fdef f0 rest => ex_field fuel cx (PsKey key :: rpath) otn oimpls oid fdef f0 rest in
  let blocks := loop_blocks w run_field (ex_schema cx) otn groups st in
  rev (snd (run_sync w (ex_selset (S fuel) cx rpath otn oimpls oid sels st) [])) = concat (map snd blocks) /\
  is_subseq (map fst blocks) (map fst groups).
Proof.
  intros w fuel cx rpath otn oimpls oid sels st visited groups H run_field blocks. split.
  - cbn [ex_selset]. rewrite H. apply loop_serial.
  - apply loop_blocks_keys.
Qed.

(* ---------------------------------------------------------------- non-vacuity: concurrent composition differs *)
(* type A { n: Int }  type Query { a: A  b: A } ; { a { n } b { n } } *)
Definition x_ab_schema : schema :=
  {| sch_def := x_sdef; sch_dirdefs := [];
     sch_types := [x_scalar "Int"; x_scalar "String";
                   EObject None (xs "A") [] [] [x_fd "n" (TNamed (xs "Int"))] false;
                   EObject None (xs "Query") [] [] [x_fd "a" (TNamed (xs "A")); x_fd "b" (TNamed (xs "A"))] false] |}.
Definition x_ab_cx : ectx :=
  {| ex_schema := x_ab_schema; ex_frags := []; ex_vars := []; ex_cfuel := 5; ex_afuel := 5 |}.
Definition x_ab_world : world :=
  [((0%N, xs "a"), BhObject 1%N (xs "A")); ((0%N, xs "b"), BhObject 2%N (xs "A"));
   ((1%N, xs "n"), BhLeaf (JInt 1%Z)); ((2%N, xs "n"), BhLeaf (JInt 2%Z))].
Definition x_sub : list rsel := [RsField None (xs "n") [] [] (TNamed (xs "Int")) []].
Definition x_field_prog (name : string) : prog (xres (option json) * list gerr) :=
  ex_field 10 x_ab_cx [PsKey (xs name)] (xs "Query") [] 0%N
    {| fd_desc := None; fd_name := xs name; fd_args := []; fd_ty := TNamed (xs "A"); fd_dirs := [] |}
    (RsField None (xs name) [] [] (TNamed (xs "A")) x_sub) [] [].

(* the two root fields joined (polled alternately) instead of awaited one after the other *)
Definition x_joined (sa sb : list nat) : option (list (N * str)) :=
  match run_join 20 (inr (to_async (sigma_of sa) x_ab_world (x_field_prog "a") 0))
                    (inr (to_async (sigma_of sb) x_ab_world (x_field_prog "b") 0)) with
  | Some (_, _, ev) => Some (map (fun c => (ec_obj c, ec_field c)) ev)
  | None => None
  end.

(* awaited one after the other *)
Definition x_sequential (s : list nat) : list (N * str) :=
  let '(_, _, ev, _) :=
    run_async (to_async (sigma_of s) x_ab_world
                 (pbind (x_field_prog "a") (fun _ => x_field_prog "b")) 0) in
  map (fun c => (ec_obj c, ec_field c)) ev.

(* with join at the field loop there are two schedules with different call logs; with sequential await the log
   is [Query.a; A#1.n; Query.b; A#2.n] whatever the schedule *)
Lemma c27_concurrent_refuted :
  x_joined [0; 0] [0; 0] = Some [(0%N, xs "a"); (1%N, xs "n"); (0%N, xs "b"); (2%N, xs "n")] /\
  x_joined [1; 0] [0; 0] = Some [(0%N, xs "a"); (0%N, xs "b"); (2%N, xs "n"); (1%N, xs "n")] /\
  (forall s, x_sequential s = [(0%N, xs "a"); (1%N, xs "n"); (0%N, xs "b"); (2%N, xs "n")]).
Proof.
  split; [vm_compute; reflexivity|]. split; [vm_compute; reflexivity|].
  intros s. unfold x_sequential. rewrite async_schedule_independent.
  vm_compute. reflexivity.
Qed.

(* non-vacuity of c27_mutation_serial: the two root fields of `{ a { n } b { n } }` form two contiguous blocks *)
Definition x_ab_sels : list rsel :=
  [RsField None (xs "a") [] [] (TNamed (xs "A")) x_sub; RsField None (xs "b") [] [] (TNamed (xs "A")) x_sub].

Lemma c27_nonvacuous :
  exists visited groups,
    ex_collect (ex_cfuel x_ab_cx) x_ab_cx (xs "Query") [] x_ab_sels [] [] = Some (visited, groups) /\
    map fst groups = [xs "a"; xs "b"] /\
    map (fun b => (fst b, map (fun c => (ec_obj c, ec_field c)) (snd b)))
        (loop_blocks x_ab_world
           (fun key fdef f0 rest => ex_field 10 x_ab_cx [PsKey key] (xs "Query") [] 0%N fdef f0 rest)
           (ex_schema x_ab_cx) (xs "Query") groups []) =
    [(xs "a", [(0%N, xs "a"); (1%N, xs "n")]); (xs "b", [(0%N, xs "b"); (2%N, xs "n")])].
Proof. eexists. eexists. split; [vm_compute; reflexivity|]. split; vm_compute; reflexivity. Qed.
