(* Proofs about the executor model (Run/Execute.v) under its synchronous semantics (Run/Prog.v: run_sync):
   the shape of the response data (C26_nonnull) and the discipline of the error list. *)
From Coq Require Import ZArith Lia.
From ApolloVerif Require Import Base.Chars Ast.Ast Schema.Model Run.Json Run.JsonLemmas Run.Coerce Run.TypedDoc
  Run.Prog Run.Execute.
Local Open Scope list_scope.

(* ---------------------------------------------------------------- run_sync of the monad operations *)
Lemma rs_bind {A B} w (m : em A) (f : A -> em B) st log :
  run_sync w (ebind m f st) log =
  let '(a, st', log') := run_sync w (m st) log in run_sync w (f a st') log'.
Proof.
  unfold ebind. rewrite run_sync_bind. destruct (run_sync w (m st) log) as [[a st'] log']. reflexivity.
Qed.

Lemma rs_ret {A} w (a : A) st log : run_sync w (eret a st) log = (a, st, log).
Proof. reflexivity. Qed.
Lemma rs_push w e st log : run_sync w (epush e st) log = (tt, e :: st, log).
Proof. reflexivity. Qed.
Lemma rs_call w c st log : run_sync w (ecall_m c st) log = (world_resolve w c, st, c :: log).
Proof. reflexivity. Qed.
Lemma rs_next w st log : run_sync w (enext st) log = (tt, st, log).
Proof. reflexivity. Qed.
Lemma rs_fail {A} w c rpath st log :
  run_sync w (@ex_fail A c rpath st) log = (XrNull, ex_err c rpath :: st, log).
Proof. reflexivity. Qed.

(* ---------------------------------------------------------------- the error discipline *)
(* the errors recorded while executing at position rpath: the old errors are kept, every new error's path extends
   the position, and a propagated null always comes with an error *)
Definition errs_ok {A} (rpath : list pseg) (st st' : list gerr) (res : xres A) : Prop :=
  exists new, st' = new ++ st /\
              Forall (fun e => exists suf, ge_path e = rev rpath ++ suf) new /\
              (res = XrNull -> new <> []).

Lemma errs_ok_refl {A} rpath st (res : xres A) : res <> XrNull -> errs_ok rpath st st res.
Proof. intros H. exists []. repeat split; [constructor|]. intros E. contradiction. Qed.

Lemma errs_ok_fail {A} rpath st c : @errs_ok A rpath st (ex_err c rpath :: st) XrNull.
Proof.
  exists [ex_err c rpath]. repeat split.
  - constructor; [|constructor]. exists []. cbn. now rewrite app_nil_r.
  - discriminate.
Qed.

Lemma errs_ok_push {A} rpath st c (res : xres A) : errs_ok rpath st (ex_err c rpath :: st) res.
Proof.
  exists [ex_err c rpath]. repeat split.
  - constructor; [|constructor]. exists []. cbn. now rewrite app_nil_r.
  - discriminate.
Qed.

(* composition: first st -> st1 (any result), then st1 -> st2 with result res *)
Lemma errs_ok_trans {A B} rpath st st1 st2 (r1 : xres A) (res : xres B) :
  errs_ok rpath st st1 r1 -> errs_ok rpath st1 st2 res -> errs_ok rpath st st2 res.
Proof.
  intros (n1 & -> & F1 & _) (n2 & -> & F2 & N2). exists (n2 ++ n1). repeat split.
  - now rewrite app_assoc.
  - apply Forall_app. now split.
  - intros E. specialize (N2 E). destruct n2; [contradiction|discriminate].
Qed.

(* a null that propagated in the first part keeps its error *)
Lemma errs_ok_trans_null {A B} rpath st st1 st2 (r1 : xres A) (res : xres B) :
  r1 = XrNull -> errs_ok rpath st st1 r1 -> errs_ok rpath st1 st2 (@XrOk unit tt) -> errs_ok rpath st st2 res.
Proof.
  intros E (n1 & -> & F1 & N1) (n2 & -> & F2 & _). exists (n2 ++ n1). repeat split.
  - now rewrite app_assoc.
  - apply Forall_app. now split.
  - intros _. specialize (N1 E). destruct n2; cbn; [assumption|discriminate].
Qed.

(* errors of a deeper position are errors of this position *)
Lemma errs_ok_deeper {A} seg rpath st st' (res : xres A) :
  errs_ok (seg :: rpath) st st' res -> errs_ok rpath st st' res.
Proof.
  intros (n & -> & F & N). exists n. repeat split; [|assumption].
  eapply Forall_impl; [|exact F]. intros e [suf E]. cbn [rev] in E. exists ([seg] ++ suf).
  now rewrite E, <- app_assoc.
Qed.

Lemma errs_ok_retag {A B} rpath st st' (r : xres A) (r' : xres B) :
  (r' = XrNull -> r = XrNull) -> errs_ok rpath st st' r -> errs_ok rpath st st' r'.
Proof. intros H (n & -> & F & N). exists n. repeat split; auto. Qed.

(* ---------------------------------------------------------------- the shape of response data *)
Definition ex_named (t : ty) : option str := match t with TNamed n | TNonNullNamed n => Some n | _ => None end.
Definition ex_list_inner (t : ty) : option ty := match t with TList i | TNonNullList i => Some i | _ => None end.

Section Shape.
Variable cx : ectx.
Let s := ex_schema cx.

(* shape t fields v: the JSON value v is a response value for (merged) field selections `fields` whose type is t:
   null only where the type allows, a list per list wrapper, a leaf value accepted by result coercion, or an
   object shaped by the fields' merged sub-selections on some concrete object type *)
Inductive shape : ty -> list rsel -> json -> Prop :=
| ShNull t fs : is_non_null t = false -> shape t fs JNull
| ShList t inner fs items :
    ex_list_inner t = Some inner -> Forall (shape inner fs) items -> shape t fs (JArr items)
| ShLeaf t n fs tdef v :
    ex_named t = Some n -> sch_get_type s n = Some tdef -> ex_leaf n tdef v = None -> v <> JNull ->
    shape t fs v
| ShObj t n fs tdef tname otn oimpls m :
    ex_named t = Some n -> sch_get_type s n = Some tdef ->
    ex_object_type s n tdef tname = inl (otn, oimpls) ->
    shape_obj otn oimpls (flat_map rs_sels fs) m ->
    shape t fs (JObj m)
(* the object has exactly the collected response keys, in order, except the keys whose field is undefined on the
   object type or was skipped by the resolver (SkipForPartialExecution) *)
with shape_obj : str -> list str -> list rsel -> jmap -> Prop :=
| ShObjI otn oimpls sels visited groups m :
    ex_collect (ex_cfuel cx) cx otn oimpls sels [] [] = Some (visited, groups) ->
    shape_fields otn groups m ->
    shape_obj otn oimpls sels m
with shape_fields : str -> egroups -> jmap -> Prop :=
| SfNil otn : shape_fields otn [] []
| SfSkip otn g gs m : shape_fields otn gs m -> shape_fields otn (g :: gs) m
| SfCons otn key f0 rest gs v m fdef :
    td_type_field s otn (rs_name f0) = Some fdef ->
    (* the value conforms to the type of the field on the object type (`field_def.ty`) *)
    shape (fd_ty fdef) (f0 :: rest) v ->
    shape_fields otn gs m ->
    shape_fields otn ((key, (f0, rest)) :: gs) ((key, v) :: m).

End Shape.

(* ---------------------------------------------------------------- collect_fields: keys are unique *)
Lemma group_push_keys k f g :
  map fst (ex_group_push k f g) = if existsb (streq k) (map fst g) then map fst g else map fst g ++ [k].
Proof.
  induction g as [|[k' [f0 rest]] r IH]; cbn [ex_group_push map fst existsb app]; [reflexivity|].
  destruct (streq k k') eqn:E; cbn [map fst orb]; [reflexivity|].
  rewrite IH. destruct (existsb (streq k) (map fst r)); reflexivity.
Qed.

Lemma group_push_nodup k f g : NoDup (map fst g) -> NoDup (map fst (ex_group_push k f g)).
Proof.
  intros H. rewrite group_push_keys. destruct (existsb (streq k) (map fst g)) eqn:E; [assumption|].
  apply NoDup_snoc; [assumption|]. intros Hin. apply existsb_streq in Hin. congruence.
Qed.

Lemma collect_sels_nodup rec cx otn oimpls :
  (forall l v g v' g', rec l v g = Some (v', g') -> NoDup (map fst g) -> NoDup (map fst g')) ->
  forall l v g v' g', ex_collect_sels rec cx otn oimpls l v g = Some (v', g') ->
  NoDup (map fst g) -> NoDup (map fst g').
Proof.
  intros Hrec. induction l as [|x r IH]; intros v g v' g' H Hnd; cbn [ex_collect_sels] in H.
  - now injection H as <- <-.
  - destruct (ex_skipped x (ex_vars cx)); [eauto|].
    destruct x as [alias name args dirs dty sels|name dirs|cond dirs sub].
    + eapply IH; [eassumption|]. now apply group_push_nodup.
    + destruct (existsb (streq name) v); [eauto|].
      destruct (ex_find_frag name (ex_frags cx)) as [fr|]; [|eauto].
      destruct (ex_type_applies (ex_schema cx) otn oimpls (rfr_cond fr)); [|eauto].
      destruct (rec (rfr_sels fr) (name :: v) g) as [[v1 g1]|] eqn:E; [|discriminate].
      eapply IH; [eassumption|]. eapply Hrec; eauto.
    + destruct (match cond with Some c => ex_type_applies (ex_schema cx) otn oimpls c | None => true end); [|eauto].
      destruct (rec sub v g) as [[v1 g1]|] eqn:E; [|discriminate].
      eapply IH; [eassumption|]. eapply Hrec; eauto.
Qed.

Lemma collect_nodup cx otn oimpls : forall fuel l v g v' g',
  ex_collect fuel cx otn oimpls l v g = Some (v', g') -> NoDup (map fst g) -> NoDup (map fst g').
Proof.
  induction fuel as [|fuel IH]; intros l v g v' g' H Hnd; [discriminate|].
  cbn [ex_collect] in H. eapply collect_sels_nodup; eauto.
Qed.

(* ---------------------------------------------------------------- the invariants, by induction on the fuel *)
Section Inv.
Variable w : world.
Variable cx : ectx.
Let s := ex_schema cx.

Definition P_complete (fuel : nat) : Prop :=
  forall rpath t r f0 rest st log res st' log',
    run_sync w (ex_complete fuel cx rpath t r f0 rest st) log = (res, st', log') ->
    errs_ok rpath st st' res /\ (forall v, res = XrOk (Some v) -> shape cx t (f0 :: rest) v).

Definition P_list (fuel : nat) : Prop :=
  forall rpath t f0 rest items st log res st' log',
    run_sync w (ex_list fuel cx rpath t f0 rest items st) log = (res, st', log') ->
    errs_ok rpath st st' res /\ (forall v, res = XrOk (Some v) -> shape cx t (f0 :: rest) v).

Definition field_value_ok (fdef : fielddef) (f0 : rsel) (rest : list rsel) (v : json) : Prop :=
  shape cx (fd_ty fdef) (f0 :: rest) v.

Definition P_field (fuel : nat) : Prop :=
  forall rpath otn oimpls oid fdef f0 rest st log res st' log',
    run_sync w (ex_field fuel cx rpath otn oimpls oid fdef f0 rest st) log = (res, st', log') ->
    errs_ok rpath st st' res /\ (forall v, res = XrOk (Some v) -> field_value_ok fdef f0 rest v).

Definition P_selset (fuel : nat) : Prop :=
  forall rpath otn oimpls oid sels st log res st' log',
    run_sync w (ex_selset fuel cx rpath otn oimpls oid sels st) log = (res, st', log') ->
    errs_ok rpath st st' res /\ (forall m, res = XrOk m -> shape_obj cx otn oimpls sels m).

(* the field loop, given the invariant of the field executor *)
Lemma fields_loop_inv run_field rpath otn :
  (forall key fdef f0 rest st log res st' log',
     run_sync w (run_field key fdef f0 rest st) log = (res, st', log') ->
     errs_ok (PsKey key :: rpath) st st' res /\ (forall v, res = XrOk (Some v) -> field_value_ok fdef f0 rest v)) ->
  forall gs acc st log res st' log',
    NoDup (map fst gs) -> (forall k, In k (map fst gs) -> ~ In k (jmap_keys acc)) ->
    run_sync w (ex_fields_loop run_field s otn gs acc st) log = (res, st', log') ->
    errs_ok rpath st st' res /\
    (forall m, res = XrOk m -> exists m', m = acc ++ m' /\ shape_fields cx otn gs m').
Proof.
  intros Hf. induction gs as [|[key [f0 rest]] gs IH]; intros acc st log res st' log' Hnd Hdis H;
    cbn [ex_fields_loop] in H.
  - rewrite rs_ret in H. injection H as <- <- <-. split; [apply errs_ok_refl; discriminate|].
    intros m [= <-]. exists []. split; [now rewrite app_nil_r|constructor].
  - cbn [map fst] in Hnd, Hdis. inversion Hnd as [|? ? Hk Hnd']; subst.
    destruct (td_type_field s otn (rs_name f0)) as [fdef|] eqn:Etf.
    + rewrite rs_bind in H.
      destruct (run_sync w (run_field key fdef f0 rest st) log) as [[r st1] log1] eqn:E1.
      destruct (Hf _ _ _ _ _ _ _ _ _ E1) as [He1 Hv1]. apply errs_ok_deeper in He1.
      destruct r as [[v|]| |].
      * (* a value: inserted under its key *)
        assert (Hins : jmap_insert key v acc = acc ++ [(key, v)]).
        { assert (Hn : ~ In key (jmap_keys acc)) by (apply Hdis; now left). clear - Hn.
          induction acc as [|[k' v'] r IH]; cbn [jmap_insert app]; [reflexivity|].
          cbn [jmap_keys map fst] in Hn. destruct (streq key k') eqn:E.
          - apply streq_eq in E. exfalso. apply Hn. now left.
          - rewrite IH; [reflexivity|]. intros H. apply Hn. now right. }
        rewrite Hins in H.
        destruct (IH (acc ++ [(key, v)]) st1 log1 res st' log' Hnd') as [He2 Hm2]; [|exact H|].
        { intros k Hk' Hin. unfold jmap_keys in Hin. rewrite map_app, in_app_iff in Hin. cbn in Hin.
          destruct Hin as [Hin|[<-|[]]]; [apply (Hdis k); [now right|assumption]|contradiction]. }
        split; [eapply errs_ok_trans; eassumption|].
        intros m Hm. destruct (Hm2 m Hm) as [m' [-> Hs]]. exists ((key, v) :: m').
        split; [now rewrite <- app_assoc|]. eapply SfCons; [exact Etf|apply Hv1; reflexivity|exact Hs].
      * (* omitted *)
        destruct (IH acc st1 log1 res st' log' Hnd') as [He2 Hm2]; [|exact H|].
        { intros k Hk'. apply Hdis. now right. }
        split; [eapply errs_ok_trans; eassumption|].
        intros m Hm. destruct (Hm2 m Hm) as [m' [-> Hs]]. exists m'. split; [reflexivity|apply SfSkip; exact Hs].
      * rewrite rs_ret in H. injection H as <- <- <-.
        split; [eapply errs_ok_retag; [|exact He1]; reflexivity|]. discriminate.
      * rewrite rs_ret in H. injection H as <- <- <-.
        split; [eapply errs_ok_retag; [|exact He1]; discriminate|]. discriminate.
    + destruct (IH acc st log res st' log' Hnd') as [He2 Hm2]; [|exact H|].
      { intros k Hk'. apply Hdis. now right. }
      split; [assumption|].
      intros m Hm. destruct (Hm2 m Hm) as [m' [-> Hs]]. exists m'. split; [reflexivity|apply SfSkip; exact Hs].
Qed.

(* the item loop, given the invariant of the completion of one item *)
Lemma items_loop_inv complete_item t inner rpath fs :
  ex_list_inner t = Some inner ->
  (forall idx it st log res st' log',
     run_sync w (complete_item idx it st) log = (res, st', log') ->
     errs_ok (PsIdx idx :: rpath) st st' res /\ (forall v, res = XrOk (Some v) -> shape cx inner fs v)) ->
  forall items idx acc st log res st' log',
    Forall (shape cx inner fs) acc ->
    run_sync w (ex_items_loop complete_item t inner rpath items idx acc st) log = (res, st', log') ->
    errs_ok rpath st st' res /\ (forall v, res = XrOk (Some v) -> shape cx t fs v).
Proof.
  intros Ht Hc. induction items as [|it items IH]; intros idx acc st log res st' log' Hacc H;
    cbn [ex_items_loop] in H; rewrite rs_bind, rs_next in H.
  - rewrite rs_ret in H. injection H as <- <- <-. split; [apply errs_ok_refl; discriminate|].
    intros v [= <-]. eapply ShList; [eassumption|]. apply Forall_rev. assumption.
  - assert (Hgo : forall st0 log0,
              run_sync w (ebind (complete_item idx it)
                 (fun res0 => match ex_try_nullify inner res0 with
                              | XrOk None => ex_items_loop complete_item t inner rpath items (idx + 1) acc
                              | XrOk (Some v) => ex_items_loop complete_item t inner rpath items (idx + 1) (v :: acc)
                              | XrNull => eret (ex_try_nullify t XrNull)
                              | XrFuel => eret XrFuel
                              end) st0) log0 = (res, st', log') ->
              errs_ok rpath st0 st' res /\ (forall v, res = XrOk (Some v) -> shape cx t fs v)).
    { intros st0 log0 H0. rewrite rs_bind in H0.
      destruct (run_sync w (complete_item idx it st0) log0) as [[r st1] log1] eqn:E1.
      destruct (Hc _ _ _ _ _ _ _ E1) as [He1 Hv1]. apply errs_ok_deeper in He1.
      destruct r as [[v|]| |]; cbn [ex_try_nullify] in H0.
      - destruct (IH (idx + 1)%N (v :: acc) st1 log1 res st' log') as [He2 Hv2];
          [constructor; auto|exact H0|]. split; [eapply errs_ok_trans; eassumption|assumption].
      - destruct (IH (idx + 1)%N acc st1 log1 res st' log' Hacc H0) as [He2 Hv2].
        split; [eapply errs_ok_trans; eassumption|assumption].
      - destruct (is_non_null inner) eqn:Ei.
        + (* the item's null propagates to the list *)
          rewrite rs_ret in H0. injection H0 as <- <- <-. unfold ex_try_nullify.
          destruct (is_non_null t) eqn:Et.
          * split; [assumption|discriminate].
          * split; [eapply errs_ok_retag; [|exact He1]; discriminate|].
            intros v [= <-]. now apply ShNull.
        + (* the item becomes null *)
          destruct (IH (idx + 1)%N (JNull :: acc) st1 log1 res st' log') as [He2 Hv2];
            [constructor; [now apply ShNull|assumption]|exact H0|].
          split; [|assumption].
          destruct He1 as (n1 & -> & F1 & _). destruct He2 as (n2 & -> & F2 & N2).
          exists (n2 ++ n1). repeat split; [now rewrite app_assoc|apply Forall_app; now split|].
          intros E. specialize (N2 E). destruct n2; [contradiction|discriminate].
      - rewrite rs_ret in H0. injection H0 as <- <- <-.
        split; [eapply errs_ok_retag; [|exact He1]; discriminate|discriminate]. }
    destruct it; try (apply (Hgo st log H)).
    (* an Err item: the whole list fails, with the item's index in the path *)
    rewrite rs_fail in H. injection H as <- <- <-. split; [|discriminate].
    apply (errs_ok_deeper (PsIdx idx)). apply errs_ok_fail.
Qed.

Lemma inv_step fuel :
  P_selset fuel /\ P_field fuel /\ P_complete fuel /\ P_list fuel ->
  P_selset (S fuel) /\ P_field (S fuel) /\ P_complete (S fuel) /\ P_list (S fuel).
Proof.
  intros (IHs & IHf & IHc & IHl). split; [|split; [|split]].
  - (* execute_selection_set *)
    intros rpath otn oimpls oid sels st log res st' log' H. cbn [ex_selset] in H.
    destruct (ex_collect (ex_cfuel cx) cx otn oimpls sels [] []) as [[visited groups]|] eqn:Ec.
    + destruct (fields_loop_inv _ rpath otn
                  (fun key fdef f0 rest st log res st' log' => IHf (PsKey key :: rpath) otn oimpls oid fdef f0 rest st log res st' log')
                  groups [] st log res st' log') as [He Hm]; [| |exact H|].
      * eapply collect_nodup; [exact Ec|constructor].
      * intros k _ [].
      * split; [assumption|]. intros m Hm'. destruct (Hm m Hm') as [m' [-> Hs]]. cbn [app].
        econstructor; eauto.
    + rewrite rs_ret in H. injection H as <- <- <-. split; [apply errs_ok_refl; discriminate|discriminate].
  - (* execute_field *)
    intros rpath otn oimpls oid fdef f0 rest st log res st' log' H. cbn [ex_field] in H.
    destruct (ex_coerce_args cx fdef f0) as [args|c|].
    + (* the resolved-and-completed value *)
      match type of H with
      | run_sync w (ebind ?m ?f st) log = _ =>
          assert (Hm : forall r st1 log1, run_sync w (m st) log = (r, st1, log1) ->
                    errs_ok rpath st st1 r /\ (forall v, r = XrOk (Some v) -> shape cx (fd_ty fdef) (f0 :: rest) v))
      end.
      { intros r st1 log1 E. destruct (streq (rs_name f0) td_typename).
        - apply (IHc _ _ _ _ _ _ _ _ _ _ E).
        - destruct ((streq (rs_name f0) td_schema || streq (rs_name f0) td_type) && td_is_query_root (ex_schema cx) otn).
          + rewrite rs_fail in E. injection E as <- <- <-. split; [apply errs_ok_fail|discriminate].
          + rewrite rs_bind, rs_call in E.
            destruct (world_resolve w {| ec_obj := oid; ec_field := rs_name f0; ec_args := args |}) eqn:Er;
              try (apply (IHc _ _ _ _ _ _ _ _ _ _ E)).
            rewrite rs_fail in E. injection E as <- <- <-. split; [apply errs_ok_fail|discriminate]. }
      rewrite rs_bind in H.
      match type of H with
      | context [run_sync w (?x st) log] =>
          destruct (run_sync w (x st) log) as [[r st1] log1] eqn:E1; destruct (Hm _ _ _ eq_refl) as [He1 Hv1]
      end.
      rewrite rs_ret in H. injection H as <- <- <-. unfold ex_try_nullify.
      destruct r as [[v|]| |].
      * split; [assumption|]. intros v' [= <-]. unfold field_value_ok. now apply Hv1.
      * split; [assumption|discriminate].
      * destruct (is_non_null (fd_ty fdef)) eqn:En.
        -- split; [assumption|discriminate].
        -- split; [eapply errs_ok_retag; [|exact He1]; discriminate|]. intros v [= <-]. unfold field_value_ok. now apply ShNull.
      * split; [assumption|discriminate].
    + rewrite rs_bind, rs_push, rs_ret in H. injection H as <- <- <-. split; [apply errs_ok_push|].
      destruct (is_non_null (fd_ty fdef)) eqn:En; [discriminate|]. intros v [= <-]. unfold field_value_ok. now apply ShNull.
    + rewrite rs_ret in H. injection H as <- <- <-. split; [apply errs_ok_refl; discriminate|discriminate].
  - (* complete_value *)
    intros rpath t r f0 rest st log res st' log' H. cbn [ex_complete] in H.
    assert (Hfail : forall c, run_sync w (@ex_fail (option json) c rpath st) log = (res, st', log') ->
              errs_ok rpath st st' res /\ (forall v, res = XrOk (Some v) -> shape cx t (f0 :: rest) v)).
    { intros c E. rewrite rs_fail in E. injection E as <- <- <-. split; [apply errs_ok_fail|discriminate]. }
    assert (Hnamed : forall (r0 : resolved),
              (r0 = r) -> (forall j, r0 = RvLeaf j -> j <> JNull) -> (forall l, r0 <> RvList l) -> r0 <> RvErr -> r0 <> RvSkip ->
              run_sync w
                (match t with
                 | TList _ | TNonNullList _ => ex_fail EcKind rpath
                 | TNamed n | TNonNullNamed n =>
                     match sch_get_type (ex_schema cx) n with
                     | None => ex_fail EcBug rpath
                     | Some (EInput _ _ _ _ _) => ex_fail EcBug rpath
                     | Some tdef =>
                         match r0 with
                         | RvLeaf j => match ex_leaf n tdef j with
                                       | Some c => ex_fail c rpath
                                       | None => eret (XrOk (Some j))
                                       end
                         | RvObject id tname =>
                             match ex_object_type (ex_schema cx) n tdef tname with
                             | inr c => ex_fail c rpath
                             | inl (otn, oimpls) =>
                                 ebind (ex_selset fuel cx rpath otn oimpls id (flat_map rs_sels (f0 :: rest)))
                                       (fun m => eret (match m with
                                                       | XrOk o => XrOk (Some (JObj o))
                                                       | XrNull => XrNull
                                                       | XrFuel => XrFuel
                                                       end))
                             end
                         | _ => eret XrFuel
                         end
                     end
                 end st) log = (res, st', log') ->
              errs_ok rpath st st' res /\ (forall v, res = XrOk (Some v) -> shape cx t (f0 :: rest) v)).
    { intros r0 _ Hleaf Hnl Hne Hns E.
      assert (Hcase : forall n, ex_named t = Some n ->
                run_sync w
                  (match sch_get_type (ex_schema cx) n with
                   | None => ex_fail EcBug rpath
                   | Some (EInput _ _ _ _ _) => ex_fail EcBug rpath
                   | Some tdef =>
                       match r0 with
                       | RvLeaf j => match ex_leaf n tdef j with
                                     | Some c => ex_fail c rpath
                                     | None => eret (XrOk (Some j))
                                     end
                       | RvObject id tname =>
                           match ex_object_type (ex_schema cx) n tdef tname with
                           | inr c => ex_fail c rpath
                           | inl (otn, oimpls) =>
                               ebind (ex_selset fuel cx rpath otn oimpls id (flat_map rs_sels (f0 :: rest)))
                                     (fun m => eret (match m with
                                                     | XrOk o => XrOk (Some (JObj o))
                                                     | XrNull => XrNull
                                                     | XrFuel => XrFuel
                                                     end))
                           end
                       | _ => eret XrFuel
                       end
                   end st) log = (res, st', log') ->
                errs_ok rpath st st' res /\ (forall v, res = XrOk (Some v) -> shape cx t (f0 :: rest) v)).
      { intros n Hn E'.
        destruct (sch_get_type (ex_schema cx) n) as [tdef|] eqn:Eg; [|apply (Hfail _ E')].
        assert (Hgen : run_sync w
                  (match r0 with
                   | RvLeaf j => match ex_leaf n tdef j with
                                 | Some c => ex_fail c rpath
                                 | None => eret (XrOk (Some j))
                                 end
                   | RvObject id tname =>
                       match ex_object_type (ex_schema cx) n tdef tname with
                       | inr c => ex_fail c rpath
                       | inl (otn, oimpls) =>
                           ebind (ex_selset fuel cx rpath otn oimpls id (flat_map rs_sels (f0 :: rest)))
                                 (fun m => eret (match m with
                                                 | XrOk o => XrOk (Some (JObj o))
                                                 | XrNull => XrNull
                                                 | XrFuel => XrFuel
                                                 end))
                       end
                   | _ => eret XrFuel
                   end st) log = (res, st', log') ->
                errs_ok rpath st st' res /\ (forall v, res = XrOk (Some v) -> shape cx t (f0 :: rest) v)).
        { intros E2. destruct r0 as [j|id tname|l| |].
          - destruct (ex_leaf n tdef j) as [c|] eqn:El; [apply (Hfail _ E2)|].
            rewrite rs_ret in E2. injection E2 as <- <- <-. split; [apply errs_ok_refl; discriminate|].
            intros v [= <-]. eapply ShLeaf; eauto.
          - destruct (ex_object_type (ex_schema cx) n tdef tname) as [[otn oimpls]|c] eqn:Eo; [|apply (Hfail _ E2)].
            rewrite rs_bind in E2.
            destruct (run_sync w (ex_selset fuel cx rpath otn oimpls id (flat_map rs_sels (f0 :: rest)) st) log)
              as [[m st1] log1] eqn:E3.
            destruct (IHs _ _ _ _ _ _ _ _ _ _ E3) as [He Hm]. rewrite rs_ret in E2. injection E2 as <- <- <-.
            split.
            + eapply errs_ok_retag; [|exact He]. destruct m; [discriminate|reflexivity|discriminate].
            + intros v Hv. destruct m as [o| |]; try discriminate. injection Hv as <-.
              eapply ShObj; eauto.
          - exfalso. now apply (Hnl l).
          - contradiction.
          - contradiction. }
        destruct tdef; try (apply (Hgen E')). apply (Hfail _ E'). }
      destruct t as [n|n|i|i]; [apply (Hcase n eq_refl E)|apply (Hcase n eq_refl E)|apply (Hfail _ E)|apply (Hfail _ E)]. }
    destruct r as [j|id tname|items| |].
    + destruct j; try (apply (Hnamed _ eq_refl); [intros j' [= <-]; discriminate|discriminate|discriminate|discriminate|exact H]).
      destruct (is_non_null t) eqn:En; [apply (Hfail _ H)|].
      rewrite rs_ret in H. injection H as <- <- <-. split; [apply errs_ok_refl; discriminate|].
      intros v [= <-]. now apply ShNull.
    + apply (Hnamed _ eq_refl); [discriminate|discriminate|discriminate|discriminate|exact H].
    + apply (IHl _ _ _ _ _ _ _ _ _ _ H).
    + apply (Hfail _ H).
    + rewrite rs_ret in H. injection H as <- <- <-. split; [apply errs_ok_refl; discriminate|discriminate].
  - (* complete_list_value *)
    intros rpath t f0 rest items st log res st' log' H. cbn [ex_list] in H.
    assert (Hfail : forall c, run_sync w (@ex_fail (option json) c rpath st) log = (res, st', log') ->
              errs_ok rpath st st' res /\ (forall v, res = XrOk (Some v) -> shape cx t (f0 :: rest) v)).
    { intros c E. rewrite rs_fail in E. injection E as <- <- <-. split; [apply errs_ok_fail|discriminate]. }
    destruct t as [n|n|inner|inner]; [apply (Hfail _ H)|apply (Hfail _ H)| |].
    + eapply (items_loop_inv _ (TList inner) inner rpath (f0 :: rest) eq_refl); [|constructor|exact H].
      intros idx it st0 log0 res0 st0' log0' E. apply (IHc _ _ _ _ _ _ _ _ _ _ E).
    + eapply (items_loop_inv _ (TNonNullList inner) inner rpath (f0 :: rest) eq_refl); [|constructor|exact H].
      intros idx it st0 log0 res0 st0' log0' E. apply (IHc _ _ _ _ _ _ _ _ _ _ E).
Qed.

Lemma inv_zero : P_selset 0 /\ P_field 0 /\ P_complete 0 /\ P_list 0.
Proof.
  split; [|split; [|split]].
  - intros rpath otn oimpls oid sels st log res st' log' H. cbn in H. injection H as <- <- <-.
    split; [apply errs_ok_refl; discriminate|discriminate].
  - intros rpath otn oimpls oid fdef f0 rest st log res st' log' H. cbn in H. injection H as <- <- <-.
    split; [apply errs_ok_refl; discriminate|discriminate].
  - intros rpath t r f0 rest st log res st' log' H. cbn in H. injection H as <- <- <-.
    split; [apply errs_ok_refl; discriminate|discriminate].
  - intros rpath t f0 rest items st log res st' log' H. cbn in H. injection H as <- <- <-.
    split; [apply errs_ok_refl; discriminate|discriminate].
Qed.

Lemma inv_all fuel : P_selset fuel /\ P_field fuel /\ P_complete fuel /\ P_list fuel.
Proof. induction fuel as [|fuel IH]; [apply inv_zero|now apply inv_step]. Qed.

End Inv.
