(* C26, second part: the reference executor (Run/RefExecute.v) in equational form.
   The local loops of rf_prop (over the fields of an object, over the items of a list) and of rf_complete (over the
   resolved items) as top-level functions, without the accumulated error list. *)
From Coq Require Import ZArith Lia List.
From ApolloVerif Require Import Base.Chars Ast.Ast Schema.Model Run.Json Run.JsonLemmas Run.Coerce
  Run.TypedDoc Run.Prog Run.Execute Run.ExecTop Run.RefExecute.
Import ListNotations.
Local Open Scope list_scope.

(* ---------------------------------------------------------------- pass 2 *)
(* the fields of an object: None = a null propagated out of a field *)
Fixpoint rfp_fields (rpath : list pseg) (fs : list (str * ty * rtree)) (acc : jmap) : option jmap * list gerr :=
  match fs with
  | [] => (Some acc, [])
  | (k, ft, sub) :: more =>
      let (r, es) := rf_prop ft (PsKey k :: rpath) sub in
      match r with
      | None => (None, es)
      | Some None => let (r', es') := rfp_fields rpath more acc in (r', es ++ es')
      | Some (Some v) => let (r', es') := rfp_fields rpath more (jmap_insert k v acc) in (r', es ++ es')
      end
  end.

Lemma rf_prop_obj t rpath fs :
  rf_prop t rpath (RtObj fs) =
  let (r, es) := rfp_fields rpath fs [] in
  (match r with Some m => Some (Some (JObj m)) | None => rf_null_at t end, es).
Proof.
  cbn [rf_prop].
  enough (H : forall acc errs,
    (fix go (fs : list (str * ty * rtree)) (acc : jmap) (errs : list gerr) {struct fs} : option (option json) * list gerr :=
       match fs with
       | [] => (Some (Some (JObj acc)), errs)
       | (k, ft, sub) :: more =>
           let (r, es) := rf_prop ft (PsKey k :: rpath) sub in
           match r with
           | None => (rf_null_at t, errs ++ es)
           | Some None => go more acc (errs ++ es)
           | Some (Some v) => go more (jmap_insert k v acc) (errs ++ es)
           end
       end) fs acc errs =
    let (r, es) := rfp_fields rpath fs acc in
    (match r with Some m => Some (Some (JObj m)) | None => rf_null_at t end, errs ++ es)).
  { rewrite H. destruct (rfp_fields rpath fs []); reflexivity. }
  induction fs as [|[[k ft] sub] more IH]; intros acc errs; cbn [rfp_fields].
  - now rewrite app_nil_r.
  - destruct (rf_prop ft (PsKey k :: rpath) sub) as [[[v|]|] es].
    + rewrite IH. destruct (rfp_fields rpath more (jmap_insert k v acc)) as [r' es']. now rewrite app_assoc.
    + rewrite IH. destruct (rfp_fields rpath more acc) as [r' es']. now rewrite app_assoc.
    + reflexivity.
Qed.

(* the items of a list: None = a null propagated out of an item; otherwise the next index and the values *)
Fixpoint rfp_items (inner : ty) (rpath : list pseg) (items : list rtree) (idx : N) (acc : list json)
  : option (N * list json) * list gerr :=
  match items with
  | [] => (Some (idx, acc), [])
  | it :: more =>
      let (r, es) := rf_prop inner (PsIdx idx :: rpath) it in
      match r with
      | None => (None, es)
      | Some None => let (r', es') := rfp_items inner rpath more (idx + 1) acc in (r', es ++ es')
      | Some (Some v) => let (r', es') := rfp_items inner rpath more (idx + 1) (v :: acc) in (r', es ++ es')
      end
  end.

Lemma rf_prop_list t rpath inner items :
  rf_prop t rpath (RtList inner items) =
  let (r, es) := rfp_items inner rpath items 0 [] in
  (match r with Some (_, acc) => Some (Some (JArr (rev acc))) | None => rf_null_at t end, es).
Proof.
  cbn [rf_prop].
  enough (H : forall idx acc errs,
    (fix go (items : list rtree) (idx : N) (acc : list json) (errs : list gerr) {struct items}
       : option (option json) * list gerr :=
       match items with
       | [] => (Some (Some (JArr (rev acc))), errs)
       | it :: more =>
           let (r, es) := rf_prop inner (PsIdx idx :: rpath) it in
           match r with
           | None => (rf_null_at t, errs ++ es)
           | Some None => go more (idx + 1)%N acc (errs ++ es)
           | Some (Some v) => go more (idx + 1)%N (v :: acc) (errs ++ es)
           end
       end) items idx acc errs =
    let (r, es) := rfp_items inner rpath items idx acc in
    (match r with Some (_, acc) => Some (Some (JArr (rev acc))) | None => rf_null_at t end, errs ++ es)).
  { rewrite H. destruct (rfp_items inner rpath items 0 []); reflexivity. }
  induction items as [|it more IH]; intros idx acc errs; cbn [rfp_items].
  - now rewrite app_nil_r.
  - destruct (rf_prop inner (PsIdx idx :: rpath) it) as [[[v|]|] es].
    + rewrite IH. destruct (rfp_items inner rpath more (idx + 1)%N (v :: acc)) as [r' es']. now rewrite app_assoc.
    + rewrite IH. destruct (rfp_items inner rpath more (idx + 1)%N acc) as [r' es']. now rewrite app_assoc.
    + reflexivity.
Qed.

Lemma rf_prop_itemfail t rpath inner items c :
  rf_prop t rpath (RtItemFail inner items c) =
  let (r, es) := rfp_items inner rpath items 0 [] in
  (rf_null_at t, match r with Some (idx, _) => es ++ [ex_err c (PsIdx idx :: rpath)] | None => es end).
Proof.
  cbn [rf_prop].
  enough (H : forall idx acc errs,
    (fix go (items : list rtree) (idx : N) (acc : list json) (errs : list gerr) {struct items}
       : option (option json) * list gerr :=
       match items with
       | [] => (rf_null_at t, errs ++ [ex_err c (PsIdx idx :: rpath)])
       | it :: more =>
           let (r, es) := rf_prop inner (PsIdx idx :: rpath) it in
           match r with
           | None => (rf_null_at t, errs ++ es)
           | Some None => go more (idx + 1)%N acc (errs ++ es)
           | Some (Some v) => go more (idx + 1)%N (v :: acc) (errs ++ es)
           end
       end) items idx acc errs =
    let (r, es) := rfp_items inner rpath items idx acc in
    (rf_null_at t, errs ++ match r with Some (idx, _) => es ++ [ex_err c (PsIdx idx :: rpath)] | None => es end)).
  { rewrite H. destruct (rfp_items inner rpath items 0 []) as [[[i a]|] es]; reflexivity. }
  induction items as [|it more IH]; intros idx acc errs; cbn [rfp_items].
  - reflexivity.
  - destruct (rf_prop inner (PsIdx idx :: rpath) it) as [[[v|]|] es].
    + rewrite IH. destruct (rfp_items inner rpath more (idx + 1)%N (v :: acc)) as [[[i a]|] es']; now rewrite !app_assoc.
    + rewrite IH. destruct (rfp_items inner rpath more (idx + 1)%N acc) as [[[i a]|] es']; now rewrite !app_assoc.
    + reflexivity.
Qed.

Lemma rfp_items_app inner rpath a : forall b idx acc,
  rfp_items inner rpath (a ++ b) idx acc =
  let (r, es) := rfp_items inner rpath a idx acc in
  match r with
  | None => (None, es)
  | Some (idx', acc') => let (r', es') := rfp_items inner rpath b idx' acc' in (r', es ++ es')
  end.
Proof.
  induction a as [|it more IH]; intros b idx acc; cbn [app rfp_items].
  - destruct (rfp_items inner rpath b idx acc); reflexivity.
  - destruct (rf_prop inner (PsIdx idx :: rpath) it) as [[[v|]|] es]; [| |reflexivity].
    + rewrite IH. destruct (rfp_items inner rpath more (idx + 1)%N (v :: acc)) as [[[i a']|] es']; [|reflexivity].
      destruct (rfp_items inner rpath b i a') as [r' es'']. now rewrite app_assoc.
    + rewrite IH. destruct (rfp_items inner rpath more (idx + 1)%N acc) as [[[i a']|] es']; [|reflexivity].
      destruct (rfp_items inner rpath b i a') as [r' es'']. now rewrite app_assoc.
Qed.

(* ---------------------------------------------------------------- out-of-fuel marks *)
Lemma rt_oof_obj fs : rt_out_of_fuel (RtObj fs) = existsb (fun f => rt_out_of_fuel (snd f)) fs.
Proof. cbn [rt_out_of_fuel]. induction fs as [|[[k ft] y] r IH]; [reflexivity|]. cbn [existsb snd]. now rewrite IH. Qed.
Lemma rt_oof_list inner items : rt_out_of_fuel (RtList inner items) = existsb rt_out_of_fuel items.
Proof. reflexivity. Qed.
Lemma rt_oof_itemfail inner items c : rt_out_of_fuel (RtItemFail inner items c) = existsb rt_out_of_fuel items.
Proof. reflexivity. Qed.

(* ---------------------------------------------------------------- pass 1: the loop over the resolved items *)
Fixpoint rv_ok_prefix (items : list resolved) : list resolved :=
  match items with
  | [] => []
  | RvErr :: _ => []
  | it :: more => it :: rv_ok_prefix more
  end.
Fixpoint rv_has_err (items : list resolved) : bool :=
  match items with
  | [] => false
  | RvErr :: _ => true
  | _ :: more => rv_has_err more
  end.

Definition rf_list_tree (fuel : nat) (e : rf_env) (inner : ty) (fields : list rsel) (items : list resolved) : rtree :=
  let trees := map (fun it => rf_complete fuel e inner it fields) (rv_ok_prefix items) in
  if rv_has_err items then RtItemFail inner trees EcResolver else RtList inner trees.

Lemma rf_complete_list fuel e inner items fields :
  rf_complete (S fuel) e (TList inner) (RvList items) fields = rf_list_tree fuel e inner fields items.
Proof.
  cbn [rf_complete is_non_null]. unfold rf_list_tree.
  enough (H : forall done,
    (fix go (items : list resolved) (done : list rtree) {struct items} : rtree :=
       match items with
       | [] => RtList inner (rev done)
       | RvErr :: _ => RtItemFail inner (rev done) EcResolver
       | it :: more => go more (rf_complete fuel e inner it fields :: done)
       end) items done =
    (if rv_has_err items
     then RtItemFail inner (rev done ++ map (fun it => rf_complete fuel e inner it fields) (rv_ok_prefix items)) EcResolver
     else RtList inner (rev done ++ map (fun it => rf_complete fuel e inner it fields) (rv_ok_prefix items)))).
  { now rewrite H. }
  induction items as [|it more IH]; intros done.
  - cbn [rv_has_err rv_ok_prefix map]. now rewrite app_nil_r.
  - destruct it; cbn [rv_has_err rv_ok_prefix map]; try (rewrite IH; cbn [rev]; now rewrite <- !app_assoc).
    now rewrite app_nil_r.
Qed.

Lemma rf_complete_nonnull fuel e t r fields : is_non_null t = true -> r <> RvSkip ->
  rf_complete (S fuel) e t r fields =
  match rf_complete fuel e (rf_nullable t) r fields with RtNullV => RtFail EcNull | x => x end.
Proof. intros H Hr. cbn [rf_complete]. rewrite H. destruct r; try reflexivity. contradiction. Qed.
