(* C26, second part: data = null exactly when a null propagates to the root.
   rt_propagates t x: in the reference's result tree x at a position of type t, a field error sits at a position all
   of whose enclosing positions up to (and including) this one are non-null — so that the null leaves the position.
   The reference's second pass returns "propagate" (None) exactly then. *)
From Coq Require Import ZArith Lia List.
From ApolloVerif Require Import Base.Chars Ast.Ast Schema.Model Run.Json Run.JsonLemmas Run.Coerce
  Run.TypedDoc Run.Prog Run.Execute Run.ExecTop Run.RefExecute Run.ExecRefProp.
Import ListNotations.
Local Open Scope list_scope.

Fixpoint rt_propagates (t : ty) (x : rtree) : bool :=
  match x with
  | RtFail _ => is_non_null t
  | RtFuel => true
  | RtObj fs =>
      is_non_null t &&
      (fix any (l : list (str * ty * rtree)) : bool :=
         match l with [] => false | (_, ft, y) :: r => rt_propagates ft y || any r end) fs
  | RtList inner items =>
      is_non_null t &&
      (fix any (l : list rtree) : bool := match l with [] => false | y :: r => rt_propagates inner y || any r end) items
  | RtItemFail _ _ _ => is_non_null t
  | _ => false
  end.

Definition rt_fields_propagate (fs : list (str * ty * rtree)) : bool :=
  existsb (fun f => rt_propagates (snd (fst f)) (snd f)) fs.

Lemma rt_propagates_obj t fs : rt_propagates t (RtObj fs) = is_non_null t && rt_fields_propagate fs.
Proof.
  cbn [rt_propagates]. f_equal. unfold rt_fields_propagate.
  induction fs as [|[[k ft] y] r IH]; [reflexivity|]. cbn [existsb fst snd]. now rewrite IH.
Qed.
Lemma rt_propagates_list t inner items :
  rt_propagates t (RtList inner items) = is_non_null t && existsb (rt_propagates inner) items.
Proof. reflexivity. Qed.

Lemma rtree_ind' (P : rtree -> Prop) :
  (forall j, P (RtVal j)) -> P RtNullV -> (forall c, P (RtFail c)) -> P RtSkipped ->
  (forall fs, Forall (fun f => P (snd f)) fs -> P (RtObj fs)) ->
  (forall inner items, Forall P items -> P (RtList inner items)) ->
  (forall inner items c, Forall P items -> P (RtItemFail inner items c)) ->
  P RtFuel -> forall x, P x.
Proof.
  intros Hv Hn Hf Hs Ho Hl Hi Hu. fix IH 1. intros [j| |c| |fs|inner items|inner items c|].
  - apply Hv.
  - apply Hn.
  - apply Hf.
  - apply Hs.
  - apply Ho. induction fs as [|[[k ft] y] r IHr]; constructor; [apply IH|exact IHr].
  - apply Hl. induction items as [|y r IHr]; constructor; [apply IH|exact IHr].
  - apply Hi. induction items as [|y r IHr]; constructor; [apply IH|exact IHr].
  - apply Hu.
Qed.

Lemma null_at_none t : rf_null_at t = None <-> is_non_null t = true.
Proof. unfold rf_null_at. destruct (is_non_null t); split; congruence. Qed.

Lemma rfp_fields_none rpath : forall fs acc,
  Forall (fun f => forall t rp, fst (rf_prop t rp (snd f)) = None <-> rt_propagates t (snd f) = true) fs ->
  (fst (rfp_fields rpath fs acc) = None <-> rt_fields_propagate fs = true).
Proof.
  induction fs as [|[[k ft] y] r IH]; intros acc H; cbn [rfp_fields rt_fields_propagate existsb fst snd].
  - split; discriminate.
  - inversion H as [|? ? Hy Hr]; subst. cbn [snd] in Hy. specialize (Hy ft (PsKey k :: rpath)).
    fold (rt_fields_propagate r). destruct (rf_prop ft (PsKey k :: rpath) y) as [[[v|]|] es]; cbn [fst] in *.
    + assert (E : rt_propagates ft y = false) by (destruct (rt_propagates ft y); [destruct Hy as [_ Hy]; now specialize (Hy eq_refl)|reflexivity]).
      rewrite E. cbn [orb]. rewrite <- (IH (jmap_insert k v acc) Hr). destruct (rfp_fields rpath r (jmap_insert k v acc)); reflexivity.
    + assert (E : rt_propagates ft y = false) by (destruct (rt_propagates ft y); [destruct Hy as [_ Hy]; now specialize (Hy eq_refl)|reflexivity]).
      rewrite E. cbn [orb]. rewrite <- (IH acc Hr). destruct (rfp_fields rpath r acc); reflexivity.
    + destruct Hy as [Hy _]. rewrite (Hy eq_refl). split; reflexivity.
Qed.

Lemma rfp_items_none inner rpath : forall items idx acc,
  Forall (fun y => forall t rp, fst (rf_prop t rp y) = None <-> rt_propagates t y = true) items ->
  (fst (rfp_items inner rpath items idx acc) = None <-> existsb (rt_propagates inner) items = true).
Proof.
  induction items as [|y r IH]; intros idx acc H; cbn [rfp_items existsb].
  - split; discriminate.
  - inversion H as [|? ? Hy Hr]; subst. specialize (Hy inner (PsIdx idx :: rpath)).
    destruct (rf_prop inner (PsIdx idx :: rpath) y) as [[[v|]|] es]; cbn [fst] in *.
    + assert (E : rt_propagates inner y = false) by (destruct (rt_propagates inner y); [destruct Hy as [_ Hy]; now specialize (Hy eq_refl)|reflexivity]).
      rewrite E. cbn [orb]. rewrite <- (IH (idx + 1)%N (v :: acc) Hr). destruct (rfp_items inner rpath r (idx + 1)%N (v :: acc)); reflexivity.
    + assert (E : rt_propagates inner y = false) by (destruct (rt_propagates inner y); [destruct Hy as [_ Hy]; now specialize (Hy eq_refl)|reflexivity]).
      rewrite E. cbn [orb]. rewrite <- (IH (idx + 1)%N acc Hr). destruct (rfp_items inner rpath r (idx + 1)%N acc); reflexivity.
    + destruct Hy as [Hy _]. rewrite (Hy eq_refl). split; reflexivity.
Qed.

Lemma rf_prop_none : forall x t rpath, fst (rf_prop t rpath x) = None <-> rt_propagates t x = true.
Proof.
  apply (rtree_ind' (fun x => forall t rpath, fst (rf_prop t rpath x) = None <-> rt_propagates t x = true)).
  - intros j t rpath. cbn. split; discriminate.
  - intros t rpath. cbn. split; discriminate.
  - intros c t rpath. cbn [rf_prop fst rt_propagates]. apply null_at_none.
  - intros t rpath. cbn. split; discriminate.
  - intros fs IH t rpath. rewrite rf_prop_obj, rt_propagates_obj.
    pose proof (rfp_fields_none rpath fs [] IH) as Hf. destruct (rfp_fields rpath fs []) as [[m|] es]; cbn [fst] in *.
    + assert (E : rt_fields_propagate fs = false) by (destruct (rt_fields_propagate fs); [destruct Hf as [_ Hf]; now specialize (Hf eq_refl)|reflexivity]).
      rewrite E, andb_false_r. split; discriminate.
    + destruct Hf as [Hf _]. rewrite (Hf eq_refl), andb_true_r. apply null_at_none.
  - intros inner items IH t rpath. rewrite rf_prop_list, rt_propagates_list.
    pose proof (rfp_items_none inner rpath items 0%N [] IH) as Hf. destruct (rfp_items inner rpath items 0%N []) as [[[i a]|] es]; cbn [fst] in *.
    + assert (E : existsb (rt_propagates inner) items = false) by (destruct (existsb (rt_propagates inner) items); [destruct Hf as [_ Hf]; now specialize (Hf eq_refl)|reflexivity]).
      rewrite E, andb_false_r. split; discriminate.
    + destruct Hf as [Hf _]. rewrite (Hf eq_refl), andb_true_r. apply null_at_none.
  - intros inner items c IH t rpath. rewrite rf_prop_itemfail. cbn [rt_propagates].
    destruct (rfp_items inner rpath items 0%N []) as [r es]. cbn [fst]. apply null_at_none.
  - intros t rpath. cbn. split; reflexivity.
Qed.

Lemma rfp_fields_none_iff rpath fs acc : fst (rfp_fields rpath fs acc) = None <-> rt_fields_propagate fs = true.
Proof. apply rfp_fields_none. apply Forall_forall. intros f _ t rp. apply rf_prop_none. Qed.

(* the result tree of a request: the root fields *)
Definition ref_root_fields (s : schema) (d : rdoc) (vars : jmap) (root : str) (w : world) : list (str * ty * rtree) :=
  rf_selset (rf_fuel_for s d)
    {| rf_s := s; rf_frags := rd_frags d; rf_vars := vars; rf_w := w; rf_cx := ex_cx_for s d vars |} root 0 (rd_sels d).

Lemma ref_data_null_iff s d vars root w r :
  ref_execute_prepared s d vars root w = Some r ->
  (er_data r = None <-> rt_fields_propagate (ref_root_fields s d vars root w) = true).
Proof.
  unfold ref_execute_prepared.
  change {| ex_schema := s; ex_frags := rd_frags d; ex_vars := vars; ex_cfuel := ex_cfuel_for d; ex_afuel := ex_afuel_for s d |}
    with (ex_cx_for s d vars).
  fold (ref_root_fields s d vars root w).
  destruct (rt_out_of_fuel (RtObj (ref_root_fields s d vars root w))); [discriminate|].
  rewrite rf_prop_obj. pose proof (rfp_fields_none_iff [] (ref_root_fields s d vars root w) []) as Hf.
  destruct (rfp_fields [] (ref_root_fields s d vars root w) []) as [[m|] es]; cbn [fst] in Hf; intros [= <-]; cbn [er_data].
  - split; [discriminate|]. intros H. apply Hf in H. discriminate.
  - split; [intros _; now apply Hf|reflexivity].
Qed.
