(* C26, second part: the decidable hypotheses of the fuel-sufficiency and reference-equality theorems, and the
   measures their proofs use.  Definitions only (nothing here is extracted; all names are new).
     rd_acyclic d          : every chain of fragment spreads, from any selection set of the document, ends within
                             (number of fragments + 1) steps — by the pigeonhole principle this is "the fragments
                             reachable in the document do not form a cycle" (valid documents: NoFragmentCycles)
     rd_mergeable s d      : (a proposition) in every grouped field set that execution can form — for any object
                             type of the schema, at any depth — the fields of one response key have one field name:
                             the "same field name" half of validation's FieldsInSetCanMerge
     rd_alias_consistent d : a decidable sufficient condition for rd_mergeable: a response key names the same field
                             everywhere in the document
     sch_exec_wf s         : type names are unique in the schema's type map (it is an IndexMap), and no object or
                             interface type declares a field with the name of a meta-field
                             (__typename / __schema / __type; names starting with "__" are reserved), and the
                             built-in scalar String (the type of __typename) is in the type map, and
                             (sch_impl_covariant, the part of the schema rule IsValidImplementation that execution
                             relies on) where an object type declares a field of an interface it implements, every
                             object type that is possible for the named type of the object's field is possible for
                             the named type of the interface's field (`j: J` may be narrowed to `j: K` only if K is J,
                             implements J, or is a member of J) *)
From Coq Require Import ZArith.
From ApolloVerif Require Import Base.Chars Ast.Ast Schema.Model Run.Json Run.Coerce Run.TypedDoc Run.Prog Run.Execute
  Run.ExecTop.
Local Open Scope nat_scope.
Local Open Scope list_scope.

(* ---------------------------------------------------------------- fragment spreads end *)
Fixpoint fr_ok_x (rec : list rsel -> bool) (frags : list rfrag) (x : rsel) : bool :=
  match x with
  | RsField _ _ _ _ _ sub | RsInline _ _ sub =>
      (fix all (l : list rsel) : bool := match l with [] => true | y :: r => fr_ok_x rec frags y && all r end) sub
  | RsSpread name _ =>
      match ex_find_frag name frags with
      | None => true
      | Some fr => rec (rfr_sels fr)
      end
  end.

Fixpoint fr_ok (k : nat) (frags : list rfrag) (l : list rsel) : bool :=
  match k with
  | O => false
  | S k => forallb (fr_ok_x (fr_ok k frags) frags) l
  end.

Definition rd_acyclic (d : rdoc) : bool :=
  forallb (fr_ok (S (length (rd_frags d))) (rd_frags d)) (rd_all_sels d).

(* ---------------------------------------------------------------- the nodes of a document *)
Fixpoint rs_subs (x : rsel) : list rsel :=
  x :: match x with
       | RsField _ _ _ _ _ l | RsInline _ _ l =>
           (fix go (l : list rsel) : list rsel := match l with [] => [] | y :: r => rs_subs y ++ go r end) l
       | RsSpread _ _ => []
       end.

Definition rsl_subs (l : list rsel) : list rsel := flat_map rs_subs l.
Definition rd_nodes (d : rdoc) : list rsel := flat_map rsl_subs (rd_all_sels d).

Definition rs_is_field (x : rsel) : bool := match x with RsField _ _ _ _ _ _ => true | _ => false end.

Definition rd_alias_consistent (d : rdoc) : bool :=
  let fields := filter rs_is_field (rd_nodes d) in
  forallb (fun g1 => forallb (fun g2 => negb (streq (rs_key g1) (rs_key g2)) || streq (rs_name g1) (rs_name g2)) fields)
          fields.

(* ---------------------------------------------------------------- fields that can merge *)
(* the fields collect_fields can collect from a selection list for an object of type otn (directives ignored) *)
Inductive ex_creach (s : schema) (frags : list rfrag) (otn : str) (oimpls : list str) : list rsel -> rsel -> Prop :=
| cr_field l g : In g l -> rs_is_field g = true -> ex_creach s frags otn oimpls l g
| cr_inline l cond dirs sub g :
    In (RsInline cond dirs sub) l ->
    match cond with Some c => ex_type_applies s otn oimpls c | None => true end = true ->
    ex_creach s frags otn oimpls sub g -> ex_creach s frags otn oimpls l g
| cr_spread l name dirs fr g :
    In (RsSpread name dirs) l -> ex_find_frag name frags = Some fr ->
    ex_type_applies s otn oimpls (rfr_cond fr) = true ->
    ex_creach s frags otn oimpls (rfr_sels fr) g -> ex_creach s frags otn oimpls l g.

(* one field name per response key, in the selection list and in every merged sub-selection list below it *)
Inductive ex_mergeable (s : schema) (frags : list rfrag) : list rsel -> Prop :=
| mg_intro l :
    (forall otn oimpls g1 g2, ex_get_object s otn = Some oimpls ->
       ex_creach s frags otn oimpls l g1 -> ex_creach s frags otn oimpls l g2 ->
       rs_key g1 = rs_key g2 -> rs_name g1 = rs_name g2) ->
    (forall otn oimpls G, ex_get_object s otn = Some oimpls -> G <> [] ->
       Forall (ex_creach s frags otn oimpls l) G ->
       (forall g1 g2, In g1 G -> In g2 G -> rs_key g1 = rs_key g2) ->
       ex_mergeable s frags (flat_map rs_sels G)) ->
    ex_mergeable s frags l.

Definition rd_mergeable (s : schema) (d : rdoc) : Prop := ex_mergeable s (rd_frags d) (rd_sels d).

(* ---------------------------------------------------------------- the schema *)
Definition td_is_meta_name (n : str) : bool := streq n td_typename || streq n td_schema || streq n td_type.

(* every object type of the schema that satisfies the type condition K satisfies the type condition J *)
Definition sch_possible_incl (s : schema) (K J : str) : bool :=
  forallb (fun t =>
    match t with
    | EObject _ otn impls _ _ _ =>
        negb (ex_type_applies s otn (map c_val impls) K) || ex_type_applies s otn (map c_val impls) J
    | _ => true
    end) (sch_types s).

Definition sch_impl_covariant (s : schema) : bool :=
  forallb (fun t =>
    match t with
    | EObject _ _ impls _ ofields _ =>
        forallb (fun i =>
          match sch_get_type s (c_val i) with
          | Some (EInterface _ _ _ _ ifields _) =>
              forallb (fun f =>
                match td_find_fd (fd_name (c_val f)) ofields with
                | Some od => sch_possible_incl s (inner_named_type (fd_ty od)) (inner_named_type (fd_ty (c_val f)))
                | None => true
                end) ifields
          | _ => true
          end) impls
    | _ => true
    end) (sch_types s).

Definition sch_exec_wf (s : schema) : bool :=
  j_str_nodup (map et_name (sch_types s)) &&
  forallb (fun t =>
    match t with
    | EObject _ _ _ _ fs _ | EInterface _ _ _ _ fs _ =>
        forallb (fun f => negb (td_is_meta_name (fd_name (c_val f)))) fs
    | _ => true
    end) (sch_types s) &&
  match sch_get_type s td_String with Some (EScalar _ _ _ _) => true | _ => false end &&
  sch_impl_covariant s.

(* ---------------------------------------------------------------- measures *)
(* nesting of inline fragments in a selection list, not looking into fields: what collect_fields recurses on *)
Fixpoint rs_ih (x : rsel) : nat :=
  match x with
  | RsInline _ _ l =>
      S ((fix go (l : list rsel) : nat := match l with [] => O | y :: r => Nat.max (rs_ih y) (go r) end) l)
  | _ => O
  end.
Definition rsl_ih (l : list rsel) : nat := fold_right (fun x a => Nat.max (rs_ih x) a) O l.

(* the largest rsl_ih of the sub-selections of a field below *)
Fixpoint rs_mh (x : rsel) : nat :=
  match x with
  | RsField _ _ _ _ _ l =>
      Nat.max (rsl_ih l)
        ((fix go (l : list rsel) : nat := match l with [] => O | y :: r => Nat.max (rs_mh y) (go r) end) l)
  | RsInline _ _ l =>
      (fix go (l : list rsel) : nat := match l with [] => O | y :: r => Nat.max (rs_mh y) (go r) end) l
  | RsSpread _ _ => O
  end.
Definition rsl_mh (l : list rsel) : nat := fold_right (fun x a => Nat.max (rs_mh x) a) O l.

(* the fuel collect_fields needs on a list, given the fragments already visited *)
Definition ex_frag_sum (frags : list rfrag) (visited : list str) : nat :=
  fold_right (fun f a => if existsb (streq (rfr_name f)) visited then a else (S (rsl_ih (rfr_sels f)) + a)%nat)
             O frags.
Definition ex_cneed (frags : list rfrag) (l : list rsel) (visited : list str) : nat :=
  S (rsl_ih l + ex_frag_sum frags visited).
