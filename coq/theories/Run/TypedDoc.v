(* The part of ExecutableDocument that execution reads: selection sets whose fields carry the type of their
   definition on the selection set's parent type (`Field::ty()` = `field.definition.ty`), built from the AST and
   the schema for VALID documents (the real construction is executable/from_ast.rs, property C18).
   All names are prefixed td_ / Rs. *)
From ApolloVerif Require Import Base.Chars Ast.Ast Schema.Model Run.Json.
From Coq Require Import String.
Local Open Scope string_scope.
Local Open Scope N_scope.
Local Open Scope list_scope.

Inductive rsel :=
| RsField (alias : option str) (name : str) (args : list argument) (dirs : list directive)
          (dty : ty) (sels : list rsel)
| RsSpread (name : str) (dirs : list directive)
| RsInline (cond : option str) (dirs : list directive) (sels : list rsel).

Record rfrag := { rfr_name : str; rfr_cond : str; rfr_sels : list rsel }.

Record rdoc := { rd_frags : list rfrag; rd_optype : optype; rd_vars : list vardef; rd_sels : list rsel }.

Definition td_typename : str := Eval vm_compute in str_of_string "__typename".
Definition td_schema : str := Eval vm_compute in str_of_string "__schema".
Definition td_type : str := Eval vm_compute in str_of_string "__type".
Definition td_String : str := Eval vm_compute in str_of_string "String".
Definition td_Schema_ty : str := Eval vm_compute in str_of_string "__Schema".
Definition td_Type_ty : str := Eval vm_compute in str_of_string "__Type".
Definition td_name : str := Eval vm_compute in str_of_string "name".

Definition td_mk_fd (n : str) (args : list inputvaldef) (t : ty) : fielddef :=
  {| fd_desc := None; fd_name := n; fd_args := args; fd_ty := t; fd_dirs := [] |}.

(* MetaFieldDefinitions *)
Definition td_meta_typename : fielddef := td_mk_fd td_typename [] (TNonNullNamed td_String).
Definition td_meta_schema : fielddef := td_mk_fd td_schema [] (TNonNullNamed td_Schema_ty).
Definition td_meta_type : fielddef :=
  td_mk_fd td_type
    [{| iv_desc := None; iv_name := td_name; iv_ty := TNonNullNamed td_String; iv_default := None; iv_dirs := [] |}]
    (TNamed td_Type_ty).

Fixpoint td_find_fd (n : str) (fs : list (comp fielddef)) : option fielddef :=
  match fs with
  | [] => None
  | c :: r => if streq n (fd_name (c_val c)) then Some (c_val c) else td_find_fd n r
  end.

Definition td_is_query_root (s : schema) (tn : str) : bool :=
  match sd_query (sch_def s) with Some q => streq (c_val q) tn | None => false end.

(* Schema::type_field *)
Definition td_type_field (s : schema) (tn fname : str) : option fielddef :=
  match sch_get_type s tn with
  | None => None
  | Some t =>
      let explicit := match t with
                      | EObject _ _ _ _ fs _ | EInterface _ _ _ _ fs _ => td_find_fd fname fs
                      | _ => None
                      end in
      match explicit with
      | Some d => Some d
      | None =>
          if streq fname td_typename &&
             match t with EObject _ _ _ _ _ _ | EInterface _ _ _ _ _ _ | EUnion _ _ _ _ _ => true | _ => false end
          then Some td_meta_typename
          else if td_is_query_root s tn then
            if streq fname td_schema then Some td_meta_schema
            else if streq fname td_type then Some td_meta_type
            else None
          else None
      end
  end.

(* typed selection in a selection set whose parent type is `parent`; None if a field is not defined *)
Fixpoint td_sel (s : schema) (parent : str) (x : selection) {struct x} : option rsel :=
  match x with
  | SField alias name args dirs sels =>
      match td_type_field s parent name with
      | None => None
      | Some d =>
          (* the sub-selections of the introspection meta-fields live in the introspection schema, which
             execution without introspection never enters: they are dropped *)
          if streq name td_schema || streq name td_type then Some (RsField alias name args dirs (fd_ty d) []) else
          match (fix go (l : list selection) : option (list rsel) :=
                   match l with
                   | [] => Some []
                   | y :: r =>
                       match td_sel s (inner_named_type (fd_ty d)) y, go r with
                       | Some y', Some r' => Some (y' :: r')
                       | _, _ => None
                       end
                   end) sels with
          | Some ys => Some (RsField alias name args dirs (fd_ty d) ys)
          | None => None
          end
      end
  | SSpread name dirs => Some (RsSpread name dirs)
  | SInline cond dirs sels =>
      match (fix go (l : list selection) : option (list rsel) :=
               match l with
               | [] => Some []
               | y :: r =>
                   match td_sel s (match cond with Some c => c | None => parent end) y, go r with
                   | Some y', Some r' => Some (y' :: r')
                   | _, _ => None
                   end
               end) sels with
      | Some ys => Some (RsInline cond dirs ys)
      | None => None
      end
  end.

Fixpoint td_sels (s : schema) (parent : str) (l : list selection) : option (list rsel) :=
  match l with
  | [] => Some []
  | x :: r =>
      match td_sel s parent x, td_sels s parent r with
      | Some y, Some ys => Some (y :: ys)
      | _, _ => None
      end
  end.

Definition td_root_type (s : schema) (op : optype) : option str :=
  match op with
  | OpQuery => option_map c_val (sd_query (sch_def s))
  | OpMutation => option_map c_val (sd_mutation (sch_def s))
  | OpSubscription => option_map c_val (sd_subscription (sch_def s))
  end.

Fixpoint td_frags (s : schema) (d : document) : option (list rfrag) :=
  match d with
  | [] => Some []
  | DFragment name cond _ sels :: r =>
      match td_sels s cond sels, td_frags s r with
      | Some ys, Some fs => Some ({| rfr_name := name; rfr_cond := cond; rfr_sels := ys |} :: fs)
      | _, _ => None
      end
  | _ :: r => td_frags s r
  end.

Fixpoint td_first_op (d : document) : option (optype * list vardef * list selection) :=
  match d with
  | [] => None
  | DOperation op _ vars _ sels :: _ => Some (op, vars, sels)
  | _ :: r => td_first_op r
  end.

(* the typed document of the document's (only) operation *)
Definition td_build (s : schema) (d : document) : option rdoc :=
  match td_first_op d with
  | None => None
  | Some (op, vars, sels) =>
      match td_root_type s op with
      | None => None
      | Some root =>
          match td_sels s root sels, td_frags s d with
          | Some ys, Some fs => Some {| rd_frags := fs; rd_optype := op; rd_vars := vars; rd_sels := ys |}
          | _, _ => None
          end
      end
  end.
