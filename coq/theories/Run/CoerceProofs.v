(* Proofs for C28: the model of input_coercion.rs (Run/Coerce.v) against the specification (Run/CoerceSpec.v). *)
From Coq Require Import ZArith Lia.
From ApolloVerif Require Import Base.Chars Ast.Ast Schema.Model Run.Json Run.JsonLemmas Run.Coerce Run.CoerceSpec.

(* ------------------------------------------------------------------ unfolding the nested fixpoints *)
Lemma fix_all_forallb {A} (P : A -> bool) l :
  (fix all (l : list A) : bool := match l with [] => true | x :: r => P x && all r end) l = forallb P l.
Proof. induction l as [|x r IH]; [reflexivity|]. cbn [forallb]. now rewrite IH. Qed.

Lemma fix_all_forallb2 {A B} (Q : A -> B -> bool) l :
  (fix all (l : list (A * B)) : bool :=
     match l with [] => true | (k, x) :: r => Q k x && all r end) l
  = forallb (fun kx => Q (fst kx) (snd kx)) l.
Proof. induction l as [|[k x] r IH]; [reflexivity|]. cbn [forallb fst snd]. now rewrite IH. Qed.

Lemma fix_any_existsb {A} (P : A -> bool) l :
  (fix any (l : list A) : bool := match l with [] => false | x :: r => P x || any r end) l = existsb P l.
Proof. induction l as [|x r IH]; [reflexivity|]. cbn [existsb]. now rewrite IH. Qed.

Lemma fix_any_existsb2 {A B} (Q : B -> bool) l :
  (fix any (l : list (A * B)) : bool :=
     match l with [] => false | (_, x) :: r => Q x || any r end) l
  = existsb (fun kx => Q (snd kx)) l.
Proof. induction l as [|[k x] r IH]; [reflexivity|]. cbn [existsb snd]. now rewrite IH. Qed.

Lemma json_wf_arr l : json_wf (JArr l) = forallb json_wf l.
Proof. cbn [json_wf]. apply fix_all_forallb. Qed.

Lemma json_wf_obj m :
  json_wf (JObj m) = j_str_nodup (map fst m) && forallb (fun kx => json_wf (snd kx)) m.
Proof. cbn [json_wf]. f_equal. apply (fix_all_forallb2 (fun _ x => json_wf x)). Qed.



Fixpoint sum_sizes (l : list json) : nat :=
  match l with [] => O | x :: r => (json_size x + sum_sizes r)%nat end.

Lemma json_size_arr l : json_size (JArr l) = S (sum_sizes l).
Proof. reflexivity. Qed.

Lemma json_size_obj m : json_size (JObj m) = S (sum_sizes (map snd m)).
Proof.
  cbn [json_size]. f_equal. induction m as [|[k x] r IH]; [reflexivity|]. cbn [sum_sizes map snd]. now rewrite IH.
Qed.

Lemma json_size_pos v : (1 <= json_size v)%nat.
Proof. destruct v; cbn [json_size]; lia. Qed.

Lemma sum_sizes_in x l : In x l -> (json_size x <= sum_sizes l)%nat.
Proof.
  induction l as [|y r IH]; [intros []|]. cbn [sum_sizes]. intros [->|H]; [lia|]. apply IH in H. lia.
Qed.

Definition conforms_obj_body (s : schema) (fs : list (comp inputvaldef)) (kvs : list (str * json)) : bool :=
  j_str_nodup (map fst kvs) &&
  forallb (fun kx => match cv_find_field (fst kx) (sp_input_fields fs) with
                     | Some f => conforms_input s (snd kx) (iv_ty f)
                     | None => false
                     end) kvs &&
  forallb (fun f => jmap_has (iv_name f) kvs ||
                    (match iv_default f with None => true | Some _ => false end &&
                     negb (is_non_null (iv_ty f))))
          (sp_input_fields fs).

Definition conforms_named (s : schema) (n : str) (v : json) : bool :=
  match sch_get_type s n with
  | Some (EScalar _ _ _ _) => sp_scalar_okb n v
  | Some (EEnum _ _ _ vals _) =>
      match v with JStr x => existsb (streq x) (sp_enum_values vals) | _ => false end
  | Some (EInput _ _ _ fs _) =>
      match v with JObj kvs => conforms_obj_body s fs kvs | _ => false end
  | _ => false
  end.

Lemma conforms_input_unfold s v t :
  conforms_input s v t =
  match v with
  | JNull => negb (is_non_null t)
  | _ =>
      match t with
      | TList inner | TNonNullList inner =>
          match v with JArr l => forallb (fun x => conforms_input s x inner) l | _ => false end
      | TNamed n | TNonNullNamed n => conforms_named s n v
      end
  end.
Proof.
  unfold conforms_named, conforms_obj_body.
  destruct v; destruct t; cbn [conforms_input]; try reflexivity;
    try (apply fix_all_forallb);
    (destruct (sch_get_type s n) as [[]|]; try reflexivity);
    f_equal; f_equal;
    apply (fix_all_forallb2 (fun k x => match cv_find_field k (sp_input_fields fields0) with
                                        | Some f => conforms_input s x (iv_ty f) | None => false end)).
Qed.

(* ------------------------------------------------------------------ cv_map_m *)
Lemma cv_map_m_ok {A B} (f : A -> cv_res B) l rs :
  cv_map_m f l = CvOk rs <-> Forall2 (fun x r => f x = CvOk r) l rs.
Proof.
  revert rs. induction l as [|x l IH]; intros rs; cbn [cv_map_m].
  - split; [intros [= <-]; constructor|intros H; inversion H; reflexivity].
  - split.
    + destruct (f x) as [y| |] eqn:E; cbn [cv_bind]; try discriminate.
      destruct (cv_map_m f l) as [ys| |] eqn:E2; cbn [cv_bind]; try discriminate.
      intros [= <-]. constructor; [assumption|]. now apply IH.
    + intros H. inversion H as [|? y ? ys Hx Hl]; subst. rewrite Hx. cbn [cv_bind].
      apply IH in Hl. rewrite Hl. reflexivity.
Qed.

Lemma cv_map_m_total {A B} (f : A -> cv_res B) l :
  (forall x, In x l -> exists r, f x = CvOk r) -> exists rs, cv_map_m f l = CvOk rs.
Proof.
  induction l as [|x l IH]; intros H; cbn [cv_map_m].
  - now exists [].
  - destruct (H x (or_introl eq_refl)) as [y Hy]. rewrite Hy. cbn [cv_bind].
    destruct IH as [ys Hys]; [intros z Hz; apply H; now right|]. rewrite Hys. cbn [cv_bind]. now exists (y :: ys).
Qed.

Lemma cv_map_m_no_oof {A B} (f : A -> cv_res B) l :
  (forall x, In x l -> f x <> CvOutOfFuel) -> cv_map_m f l <> CvOutOfFuel.
Proof.
  induction l as [|x l IH]; intros H; cbn [cv_map_m]; [discriminate|].
  pose proof (H x (or_introl eq_refl)) as Hx.
  destruct (f x) as [y|e|]; cbn [cv_bind]; [|discriminate|congruence].
  assert (Hl : cv_map_m f l <> CvOutOfFuel) by (apply IH; intros z Hz; apply H; now right).
  destruct (cv_map_m f l); cbn [cv_bind]; [discriminate|discriminate|congruence].
Qed.

Lemma Forall2_in_l {A B} (R : A -> B -> Prop) l l' x :
  Forall2 R l l' -> In x l -> exists y, In (x, y) (combine l l') /\ R x y.
Proof.
  induction 1 as [|a b l l' Hab Hl IH]; [intros []|]. intros [->|Hin].
  - exists b. split; [now left|assumption].
  - destruct (IH Hin) as [y [H1 H2]]. exists y. split; [now right|assumption].
Qed.

Lemma Forall2_in_combine {A B} (R : A -> B -> Prop) l l' x y :
  Forall2 R l l' -> In (x, y) (combine l l') -> R x y.
Proof.
  induction 1 as [|a b l l' Hab Hl IH]; [intros []|]. intros [[= -> ->]|Hin]; auto.
Qed.

(* ------------------------------------------------------------------ the input-object loop *)
(* what the loop does for one field, as a function of the ORIGINAL object *)
Definition cif_step (rec : ty -> json -> cv_res json) (obj0 : jmap) (f : inputvaldef)
  : cv_res (option json) :=
  match jmap_get (iv_name f) obj0 with
  | Some fv => cv_bind (rec (iv_ty f) fv) (fun x => CvOk (Some x))
  | None =>
      match iv_default f with
      | Some d => cv_bind (cv_lit_to_json d) (fun x => CvOk (Some x))
      | None => if is_non_null (iv_ty f) then CvErr CvValueError else CvOk None
      end
  end.

(* apply the per-key outcomes to the map: insert in key order *)
Fixpoint kapply (ks : list str) (outs : list (option json)) (acc : jmap) : jmap :=
  match ks, outs with
  | k :: ks, Some x :: outs => kapply ks outs (jmap_insert k x acc)
  | _ :: ks, None :: outs => kapply ks outs acc
  | _, _ => acc
  end.

Lemma cif_eq rec obj0 fs : NoDup (map iv_name fs) -> forall acc,
  (forall f, In f fs -> jmap_get (iv_name f) acc = jmap_get (iv_name f) obj0) ->
  cv_input_fields rec fs acc =
  cv_bind (cv_map_m (cif_step rec obj0) fs) (fun outs => CvOk (kapply (map iv_name fs) outs acc)).
Proof.
  induction fs as [|f fs IH]; intros Hnd acc Hinv; cbn [cv_input_fields cv_map_m cv_bind kapply map].
  - reflexivity.
  - cbn [map] in Hnd. inversion Hnd as [|? ? Hn Hnd']; subst.
    assert (Hstep : forall x, (forall g, In g fs ->
              jmap_get (iv_name g) (jmap_insert (iv_name f) x acc) = jmap_get (iv_name g) obj0)).
    { intros x g Hg. rewrite jmap_get_insert.
      destruct (streq (iv_name g) (iv_name f)) eqn:E.
      - apply streq_eq in E. exfalso. apply Hn. rewrite <- E. now apply in_map.
      - apply Hinv. now right. }
    unfold cif_step at 1. rewrite <- (Hinv f (or_introl eq_refl)).
    destruct (jmap_get (iv_name f) acc) as [fv|].
    + destruct (rec (iv_ty f) fv) as [x|e|]; cbn [cv_bind]; try reflexivity.
      rewrite (IH Hnd' _ (Hstep x)).
      destruct (cv_map_m (cif_step rec obj0) fs); reflexivity.
    + destruct (iv_default f) as [d|].
      * destruct (cv_lit_to_json d) as [x|e|]; cbn [cv_bind]; try reflexivity.
        rewrite (IH Hnd' _ (Hstep x)).
        destruct (cv_map_m (cif_step rec obj0) fs); reflexivity.
      * destruct (is_non_null (iv_ty f)); cbn [cv_bind]; [reflexivity|].
        rewrite (IH Hnd' acc); [|intros g Hg; apply Hinv; now right].
        destruct (cv_map_m (cif_step rec obj0) fs); reflexivity.
Qed.

Lemma kapply_get_other ks : forall outs acc k,
  ~ In k ks -> jmap_get k (kapply ks outs acc) = jmap_get k acc.
Proof.
  induction ks as [|g ks IH]; intros outs acc k Hk; [destruct outs; reflexivity|].
  destruct outs as [|[x|] outs]; cbn [kapply]; [reflexivity| |].
  - rewrite IH by (intros H; apply Hk; now right). rewrite jmap_get_insert.
    destruct (streq k g) eqn:E; [|reflexivity].
    apply streq_eq in E. exfalso. apply Hk. now left.
  - apply IH. intros H; apply Hk; now right.
Qed.

Lemma kapply_get_in ks : NoDup ks -> forall outs acc k o,
  In (k, o) (combine ks outs) ->
  jmap_get k (kapply ks outs acc) = match o with Some x => Some x | None => jmap_get k acc end.
Proof.
  induction ks as [|g ks IH]; intros Hnd outs acc k o Hin; [destruct outs; destruct Hin|].
  inversion Hnd as [|? ? Hn Hnd']; subst.
  destruct outs as [|o' outs]; [destruct Hin|]. cbn [combine] in Hin. destruct Hin as [[= -> ->]|Hin].
  - destruct o as [x|]; cbn [kapply].
    + rewrite kapply_get_other by assumption. now rewrite jmap_get_insert, streq_refl.
    + now apply kapply_get_other.
  - assert (Hne : k <> g).
    { intros E. apply Hn. rewrite <- E. now apply in_combine_l in Hin. }
    destruct o' as [x|]; cbn [kapply].
    + rewrite (IH Hnd' _ _ _ _ Hin). destruct o; [reflexivity|].
      rewrite jmap_get_insert. apply streq_neq in Hne. now rewrite Hne.
    + apply (IH Hnd' _ _ _ _ Hin).
Qed.

Lemma kapply_keys ks : forall outs acc k,
  In k (jmap_keys (kapply ks outs acc)) ->
  In k (jmap_keys acc) \/ exists x, In (k, Some x) (combine ks outs).
Proof.
  induction ks as [|g ks IH]; intros outs acc k Hk; [destruct outs; now left|].
  destruct outs as [|[x|] outs]; cbn [kapply] in Hk; [now left| |].
  - apply IH in Hk. destruct Hk as [Hk|[y H1]].
    + rewrite jmap_keys_insert in Hk. destruct (jmap_has g acc); [now left|].
      apply in_app_iff in Hk. destruct Hk as [Hk|[<-|[]]]; [now left|].
      right. exists x. now left.
    + right. exists y. now right.
  - apply IH in Hk. destruct Hk as [Hk|[y H1]]; [now left|].
    right. exists y. now right.
Qed.

Lemma kapply_nodup ks : forall outs acc,
  NoDup (jmap_keys acc) -> NoDup (jmap_keys (kapply ks outs acc)).
Proof.
  induction ks as [|g ks IH]; intros outs acc H; [destruct outs; assumption|].
  destruct outs as [|[x|] outs]; cbn [kapply]; [assumption| |].
  - apply IH. now apply jmap_insert_nodup.
  - now apply IH.
Qed.

(* the keys selected by the outcomes, in order *)
Fixpoint kselected (ks : list str) (outs : list (option json)) : list str :=
  match ks, outs with
  | k :: ks, Some _ :: outs => k :: kselected ks outs
  | _ :: ks, None :: outs => kselected ks outs
  | _, _ => []
  end.

Lemma kapply_keys_exact ks : NoDup ks -> forall outs acc,
  (forall k, In k ks -> ~ In k (jmap_keys acc)) ->
  jmap_keys (kapply ks outs acc) = jmap_keys acc ++ kselected ks outs.
Proof.
  induction ks as [|g ks IH]; intros Hnd outs acc Hdis.
  - destruct outs; cbn [kapply kselected]; now rewrite app_nil_r.
  - inversion Hnd as [|? ? Hn Hnd']; subst.
    destruct outs as [|[x|] outs]; cbn [kapply kselected]; [now rewrite app_nil_r| |].
    + rewrite IH; [|assumption|].
      * rewrite jmap_keys_insert.
        assert (jmap_has g acc = false) as ->.
        { destruct (jmap_has g acc) eqn:E; [|reflexivity]. apply jmap_has_keys in E.
          exfalso. apply (Hdis g); [now left|assumption]. }
        now rewrite <- app_assoc.
      * intros k Hk. rewrite jmap_keys_insert.
        destruct (jmap_has g acc); [apply Hdis; now right|].
        rewrite in_app_iff. intros [H|[H|[]]]; [apply (Hdis k); [now right|assumption]|].
        subst. contradiction.
    + apply IH; [assumption|]. intros k Hk. apply Hdis. now right.
Qed.

Lemma combine_map_in {A B C} (f : A -> C) (l : list A) (l' : list B) x y :
  In (x, y) (combine l l') -> In (f x, y) (combine (map f l) l').
Proof.
  revert l'. induction l as [|a l IH]; intros l' H; [destruct H|].
  destruct l' as [|b l']; [destruct H|]. cbn [map combine] in *. destruct H as [[= -> ->]|H]; [now left|].
  right. now apply IH.
Qed.

(* ------------------------------------------------------------------ schema facts *)
Lemma sch_find_type_in n ts t : sch_find_type n ts = Some t -> In t ts.
Proof.
  induction ts as [|x r IH]; cbn [sch_find_type]; [discriminate|].
  destruct (streq n (et_name x)); [intros [= <-]; now left|]. intros H. right. auto.
Qed.

Lemma cv_find_field_some k fs f : cv_find_field k fs = Some f -> In f fs /\ iv_name f = k.
Proof.
  induction fs as [|g fs IH]; cbn [cv_find_field]; [discriminate|].
  destruct (streq k (iv_name g)) eqn:E.
  - intros [= <-]. apply streq_eq in E. split; [now left|now symmetry].
  - intros H. apply IH in H. split; [now right|tauto].
Qed.

Lemma cv_find_field_nodup fs f :
  NoDup (map iv_name fs) -> In f fs -> cv_find_field (iv_name f) fs = Some f.
Proof.
  induction fs as [|g fs IH]; [intros _ []|]. cbn [map cv_find_field]. intros Hnd [->|Hin].
  - now rewrite streq_refl.
  - inversion Hnd as [|? ? Hn Hnd']; subst. destruct (streq (iv_name f) (iv_name g)) eqn:E.
    + apply streq_eq in E. exfalso. apply Hn. rewrite <- E. now apply in_map.
    + now apply IH.
Qed.

Lemma cv_find_field_none k fs : cv_find_field k fs = None -> ~ In k (map iv_name fs).
Proof.
  induction fs as [|g fs IH]; cbn [cv_find_field map]; [intros _ []|].
  destruct (streq k (iv_name g)) eqn:E; [discriminate|]. intros H [H1|H1].
  - apply streq_neq in E. congruence.
  - now apply IH.
Qed.

Section WithSchema.
Variable s : schema.
Hypothesis Hwf : cv_schema_wf s = true.

Lemma input_fields_nodup n d n' dirs fs b :
  sch_get_type s n = Some (EInput d n' dirs fs b) -> NoDup (map iv_name (sp_input_fields fs)).
Proof.
  intros H. apply sch_find_type_in in H. unfold cv_schema_wf in Hwf.
  rewrite forallb_forall in Hwf. specialize (Hwf _ H). cbn in Hwf. now apply j_str_nodup_spec.
Qed.

End WithSchema.

(* ------------------------------------------------------------------ scalars *)
Lemma rn_distinct :
  streq rn_Float rn_Int = false /\ streq rn_String rn_Int = false /\ streq rn_String rn_Float = false /\
  streq rn_Boolean rn_Int = false /\ streq rn_Boolean rn_Float = false /\ streq rn_Boolean rn_String = false /\
  streq rn_ID rn_Int = false /\ streq rn_ID rn_Float = false /\ streq rn_ID rn_String = false /\
  streq rn_ID rn_Boolean = false.
Proof. vm_compute. repeat split. Qed.

Ltac name_cases n :=
  destruct (streq n rn_Int) eqn:EInt;
  [|destruct (streq n rn_Float) eqn:EFloat;
    [|destruct (streq n rn_String) eqn:EString;
      [|destruct (streq n rn_Boolean) eqn:EBoolean;
        [|destruct (streq n rn_ID) eqn:EID]]]].

Lemma sp_scalar_okb_spec n v : v <> JNull -> sp_scalar_okb n v = true -> SpecScalar n v.
Proof.
  intros Hv. unfold sp_scalar_okb, SpecScalar. name_cases n.
  - apply streq_eq in EInt. destruct v; try discriminate. intros H. left. split; [assumption|].
    exists z. split; [reflexivity|lia].
  - apply streq_eq in EFloat. destruct v; try discriminate; intros H; right; left; (split; [assumption|]).
    + right. exists z. split; [reflexivity|lia].
    + left. now exists text.
  - apply streq_eq in EString. destruct v as [| | | |sv| |]; try discriminate. intros _. right; right; left. split; [assumption|].
    now exists sv.
  - apply streq_eq in EBoolean. destruct v; try discriminate. intros _. right; right; right; left.
    split; [assumption|]. now exists b.
  - apply streq_eq in EID. destruct v as [| |z| |sv| |]; try discriminate; intros _; right; right; right; right; left;
      (split; [assumption|]).
    + right. now exists z.
    + left. now exists sv.
  - intros _. right; right; right; right; right. unfold sp_builtin_scalar.
    apply streq_neq in EInt, EFloat, EString, EBoolean, EID. tauto.
Qed.

Lemma cv_scalar_ok_sp n v : cv_scalar_ok n v = true -> sp_scalar_okb n v = true.
Proof.
  unfold cv_scalar_ok, sp_scalar_okb. name_cases n; try tauto.
  - unfold json_as_i64. destruct v; try discriminate. destruct (z <? j_two63)%Z; [|discriminate].
    unfold j_fits_i32. tauto.
  - destruct v; cbn [json_is_f64 orb]; try discriminate; [|reflexivity].
    unfold json_int_as_f64_abs_le_max_safe. lia.
  - unfold json_is_i64, json_as_i64, json_is_u64. destruct v; cbn [json_is_string orb]; try discriminate; reflexivity.
Qed.

(* the converse *)
Lemma sp_scalar_cv n v :
  json_wf v = true -> SpecScalar n v -> cv_scalar_ok n v = true.
Proof.
  destruct rn_distinct as (D1 & D2 & D3 & D4 & D5 & D6 & D7 & D8 & D9 & D10).
  intros Hw. unfold SpecScalar, cv_scalar_ok.
  intros [[-> [z [-> Hz]]]|[[-> H]|[[-> [x ->]]|[[-> [b ->]]|[[-> H]|H]]]]].
  - rewrite streq_refl. cbn [json_as_i64]. cbn in Hw. unfold j_fits_i32.
    assert (z <? j_two63 = true)%Z by (unfold j_two31, j_two63 in *; lia). rewrite H. unfold j_two31 in *. lia.
  - rewrite D1, streq_refl. destruct H as [[t ->]|[z [-> Hz]]]; [reflexivity|].
    cbn [json_is_f64 orb]. unfold json_int_as_f64_abs_le_max_safe. lia.
  - rewrite D2, D3, streq_refl. reflexivity.
  - rewrite D4, D5, D6, streq_refl. reflexivity.
  - rewrite D7, D8, D9, D10, streq_refl. destruct H as [[x ->]|[z ->]]; [reflexivity|].
    cbn [json_is_string orb]. unfold json_is_i64, json_as_i64, json_is_u64.
    destruct (z <? j_two63)%Z eqn:E; [reflexivity|]. cbn [orb]. unfold j_two63 in E. lia.
  - unfold sp_builtin_scalar in H. name_cases n; try reflexivity; exfalso; apply H;
      repeat match goal with E : streq _ _ = true |- _ => apply streq_eq in E end; tauto.
Qed.


(* ------------------------------------------------------------------ general unfoldings *)
Lemma conforms_nonnull s v t : json_is_null v = false ->
  conforms_input s v t =
  match t with
  | TList inner | TNonNullList inner =>
      match v with JArr l => forallb (fun x => conforms_input s x inner) l | _ => false end
  | TNamed n | TNonNullNamed n => conforms_named s n v
  end.
Proof. intros H. rewrite conforms_input_unfold. destruct v; [discriminate| | | | | |]; reflexivity. Qed.

Lemma json_is_null_true v : json_is_null v = true -> v = JNull.
Proof. destruct v; [reflexivity| | | | | |]; discriminate. Qed.

Lemma json_is_null_false v : json_is_null v = false -> v <> JNull.
Proof. intros H ->. discriminate. Qed.

Lemma Forall2_diag {A} (R : A -> A -> Prop) l : (forall x, In x l -> R x x) -> Forall2 R l l.
Proof.
  induction l as [|x l IH]; intros H; constructor; [apply H; now left|]. apply IH. intros y Hy. apply H. now right.
Qed.

Lemma json_wf_obj_in m k x : json_wf (JObj m) = true -> In (k, x) m -> json_wf x = true.
Proof.
  rewrite json_wf_obj, andb_true_iff, forallb_forall. intros [_ H] Hin. apply (H (k, x) Hin).
Qed.

Lemma json_wf_obj_nodup m : json_wf (JObj m) = true -> NoDup (jmap_keys m).
Proof. rewrite json_wf_obj, andb_true_iff. intros [H _]. now apply j_str_nodup_spec. Qed.

Lemma json_size_obj_in m k x : In (k, x) m -> (json_size x < json_size (JObj m))%nat.
Proof.
  intros H. rewrite json_size_obj. assert (In x (map snd m)) by (change x with (snd (k, x)); now apply in_map).
  apply sum_sizes_in in H0. lia.
Qed.

Lemma json_size_arr_in l x : In x l -> (json_size x < json_size (JArr l))%nat.
Proof. intros H. rewrite json_size_arr. apply sum_sizes_in in H. lia. Qed.

Lemma cv_enum_has_in vals x : cv_enum_has vals x = true <-> In x (sp_enum_values vals).
Proof.
  unfold cv_enum_has, sp_enum_values. rewrite existsb_exists, in_map_iff. split.
  - intros [c [Hc E]]. apply streq_eq in E. now exists c.
  - intros [c [E Hc]]. exists c. split; [assumption|]. rewrite E. apply streq_refl.
Qed.

Section Main.
Variable s : schema.
Hypothesis Hwf : cv_schema_wf s = true.
Hypothesis Hd : cv_schema_defaults_coerced s = true.

Lemma field_default_coerced n d n' dirs fs b f dv :
  sch_get_type s n = Some (EInput d n' dirs fs b) -> In f (sp_input_fields fs) -> iv_default f = Some dv ->
  exists j, cv_lit_to_json dv = CvOk j /\ conforms_input s j (iv_ty f) = true.
Proof.
  intros H Hf Hdv. apply sch_find_type_in in H. unfold cv_schema_defaults_coerced in Hd.
  rewrite forallb_forall in Hd. specialize (Hd _ H). cbn in Hd. rewrite forallb_forall in Hd.
  specialize (Hd _ Hf). unfold cv_default_coerced in Hd. rewrite Hdv in Hd.
  destruct (cv_lit_to_json dv) as [j| |]; try discriminate. now exists j.
Qed.

(* a value in coerced form is a fixed point of the specification's coercion *)
Lemma conforms_spec_fix : forall v t, conforms_input s v t = true -> SpecVal s t v v.
Proof.
  intros v. remember (json_size v) as n eqn:En. revert v En.
  induction n as [n IH] using lt_wf_ind. intros v En t H.
  destruct (json_is_null v) eqn:Enull.
  - apply json_is_null_true in Enull. subst v. rewrite conforms_input_unfold in H.
    apply SVNull. now apply negb_true_iff in H.
  - pose proof (json_is_null_false _ Enull) as Hnn.
    rewrite (conforms_nonnull _ _ _ Enull) in H.
    assert (Hlist : forall inner, sp_list_inner t = Some inner ->
              match v with JArr l => forallb (fun x => conforms_input s x inner) l | _ => false end = true ->
              SpecVal s t v v).
    { intros inner Ht Hl. destruct v; try discriminate. apply SVList with (inner := inner); [assumption|].
      apply Forall2_diag. intros x Hx. rewrite forallb_forall in Hl.
      apply (IH (json_size x)); [subst n; now apply json_size_arr_in|reflexivity|now apply Hl]. }
    assert (Hnamed : forall nm, sp_named t = Some nm -> conforms_named s nm v = true -> SpecVal s t v v).
    { intros nm Ht Hc. unfold conforms_named in Hc.
      destruct (sch_get_type s nm) as [[d n' dirs b|? ? ? ? ? ?|? ? ? ? ? ?|? ? ? ? ?|d n' dirs vals b|d n' dirs fs b]|] eqn:Eg;
        try discriminate.
      - eapply SVScalar; eauto. now apply sp_scalar_okb_spec.
      - destruct v; try discriminate. eapply SVEnum; eauto. now apply existsb_streq.
      - destruct v as [| | | | | |kvs]; try discriminate. unfold conforms_obj_body in Hc.
        apply andb_true_iff in Hc. destruct Hc as [Hc HR]. apply andb_true_iff in Hc. destruct Hc as [HN HA].
        rewrite forallb_forall in HA, HR. apply j_str_nodup_spec in HN.
        pose proof (input_fields_nodup s Hwf _ _ _ _ _ _ Eg) as Hfn.
        assert (Hkeys : forall k, In k (jmap_keys kvs) -> exists f, In f (sp_input_fields fs) /\ iv_name f = k).
        { intros k Hk. unfold jmap_keys in Hk. apply in_map_iff in Hk. destruct Hk as [[k' x] [<- Hin]].
          specialize (HA _ Hin). cbn [fst snd] in HA |- *.
          destruct (cv_find_field k' (sp_input_fields fs)) as [f|] eqn:Ef; [|discriminate].
          exists f. now apply cv_find_field_some. }
        eapply SVInput; eauto.
        + intros f fv Hf Hget. exists fv. split; [assumption|].
          pose proof (jmap_get_in _ _ _ Hget) as Hin. specialize (HA _ Hin). cbn [fst snd] in HA.
          rewrite (cv_find_field_nodup _ _ Hfn Hf) in HA.
          apply (IH (json_size fv)); [subst n; eapply json_size_obj_in; eauto|reflexivity|assumption].
        + intros f dv Hf Hget Hdv. specialize (HR _ Hf). unfold jmap_has in HR. rewrite Hget, Hdv in HR. discriminate.
        + intros f Hf Hget Hdv. specialize (HR _ Hf). unfold jmap_has in HR. rewrite Hget, Hdv in HR.
          cbn in HR. split; [now apply negb_true_iff in HR|assumption]. }
    destruct t; [apply (Hnamed n0)|apply (Hnamed n0)|apply (Hlist t)|apply (Hlist t)]; auto.
Qed.

(* ------------------------------------------------------------------ soundness: code => specification *)
Definition sound_rec (rec : ty -> json -> cv_res json) : Prop :=
  forall t v r, json_wf v = true -> rec t v = CvOk r -> SpecVal s t v r /\ conforms_input s r t = true.

Lemma cv_list_sound rec inner v r t :
  (forall x r, json_wf x = true -> rec x = CvOk r -> SpecVal s inner x r /\ conforms_input s r inner = true) ->
  json_is_null v = false -> json_wf v = true -> sp_list_inner t = Some inner ->
  cv_list rec v = CvOk r -> SpecVal s t v r /\ conforms_input s r t = true.
Proof.
  intros Hrec Hnull Hw Ht H. unfold cv_list in H.
  destruct (cv_map_m rec (match v with JArr l => l | _ => [v] end)) as [l'| |] eqn:Em; try discriminate.
  cbn [cv_bind] in H. injection H as <-. apply cv_map_m_ok in Em.
  assert (Hgen : forall items, (forall x, In x items -> json_wf x = true) ->
            Forall2 (fun x r => rec x = CvOk r) items l' ->
            Forall2 (SpecVal s inner) items l' /\ forallb (fun x => conforms_input s x inner) l' = true).
  { clear Em. intros items Hi HF. induction HF as [|x y items l' Hxy HF IH].
    - split; [constructor|reflexivity].
    - destruct (Hrec x y (Hi x (or_introl eq_refl)) Hxy) as [H1 H2].
      destruct IH as [H3 H4]; [intros z Hz; apply Hi; now right|].
      split; [now constructor|]. cbn [forallb]. now rewrite H2, H4. }
  assert (Hc : forall l', forallb (fun x => conforms_input s x inner) l' = true ->
               conforms_input s (JArr l') t = true).
  { intros l2 Hl2. rewrite conforms_nonnull by reflexivity. destruct t; try discriminate; injection Ht as ->; assumption. }
  destruct v as [| | | | |l|m].
  - discriminate.
  - destruct (Hgen [JBool b]) as [H1 H2]; [intros x [<-|[]]; assumption|assumption|].
    inversion H1 as [|? y ? ? Hy Hr]; subst. inversion Hr; subst.
    split; [|now apply Hc]. eapply SVSingle; eauto; discriminate.
  - destruct (Hgen [JInt z]) as [H1 H2]; [intros x [<-|[]]; assumption|assumption|].
    inversion H1 as [|? y ? ? Hy Hr]; subst. inversion Hr; subst.
    split; [|now apply Hc]. eapply SVSingle; eauto; discriminate.
  - destruct (Hgen [JFloat text]) as [H1 H2]; [intros x [<-|[]]; assumption|assumption|].
    inversion H1 as [|? y ? ? Hy Hr]; subst. inversion Hr; subst.
    split; [|now apply Hc]. eapply SVSingle; eauto; discriminate.
  - destruct (Hgen [JStr s0]) as [H1 H2]; [intros x [<-|[]]; assumption|assumption|].
    inversion H1 as [|? y ? ? Hy Hr]; subst. inversion Hr; subst.
    split; [|now apply Hc]. eapply SVSingle; eauto; discriminate.
  - destruct (Hgen l) as [H1 H2]; [|assumption|].
    + intros x Hx. rewrite json_wf_arr, forallb_forall in Hw. now apply Hw.
    + split; [|now apply Hc]. eapply SVList; eauto.
  - destruct (Hgen [JObj m]) as [H1 H2]; [intros x [<-|[]]; assumption|assumption|].
    inversion H1 as [|? y ? ? Hy Hr]; subst. inversion Hr; subst.
    split; [|now apply Hc]. eapply SVSingle; eauto; discriminate.
Qed.

Lemma cv_unknown_key_false fs obj : cv_unknown_key fs obj = false ->
  forall k, In k (jmap_keys obj) -> exists f, In f fs /\ iv_name f = k.
Proof.
  unfold cv_unknown_key. intros H k Hk. unfold jmap_keys in Hk. apply in_map_iff in Hk.
  destruct Hk as [[k' x] [<- Hin]]. cbn [fst].
  destruct (cv_find_field k' fs) as [f|] eqn:Ef.
  - exists f. now apply cv_find_field_some.
  - exfalso. assert (existsb (fun kv => match cv_find_field (fst kv) fs with Some _ => false | None => true end) obj = true).
    { apply existsb_exists. exists (k', x). split; [assumption|]. cbn [fst]. now rewrite Ef. }
    congruence.
Qed.

Lemma cv_named_sound rec nm v r t :
  sound_rec rec -> json_is_null v = false -> json_wf v = true -> sp_named t = Some nm ->
  cv_named rec s nm v = CvOk r -> SpecVal s t v r /\ conforms_input s r t = true.
Proof.
  intros Hrec Hnull Hw Ht H. pose proof (json_is_null_false _ Hnull) as Hnn.
  assert (Hc : forall r, json_is_null r = false -> conforms_named s nm r = true -> conforms_input s r t = true).
  { intros r0 Hr0 Hc. rewrite conforms_nonnull by assumption. destruct t; try discriminate; injection Ht as ->; assumption. }
  unfold cv_named in H. unfold conforms_named in Hc.
  destruct (sch_get_type s nm) as [[d n' dirs b|? ? ? ? ? ?|? ? ? ? ? ?|? ? ? ? ?|d n' dirs vals b|d n' dirs fs b]|] eqn:Eg;
    try discriminate.
  - destruct (cv_scalar_ok nm v) eqn:Es; [|discriminate]. injection H as <-.
    apply cv_scalar_ok_sp in Es. split; [|now apply Hc].
    eapply SVScalar; eauto. now apply sp_scalar_okb_spec.
  - destruct v as [| | | |x| |]; try discriminate. destruct (cv_enum_has vals x) eqn:Ee; [|discriminate].
    injection H as <-. apply cv_enum_has_in in Ee. split.
    + eapply SVEnum; eauto.
    + apply Hc; [reflexivity|]. now apply existsb_streq.
  - destruct v as [| | | | | |obj]; try discriminate. fold (sp_input_fields fs) in H.
    change (cv_fields_of fs) with (sp_input_fields fs) in H.
    destruct (cv_unknown_key (sp_input_fields fs) obj) eqn:Eu; [discriminate|].
    pose proof (input_fields_nodup s Hwf _ _ _ _ _ _ Eg) as Hfn.
    rewrite (cif_eq rec obj _ Hfn obj (fun f _ => eq_refl)) in H.
    destruct (cv_map_m (cif_step rec obj) (sp_input_fields fs)) as [outs| |] eqn:Em; try discriminate.
    cbn [cv_bind] in H. injection H as <-. apply cv_map_m_ok in Em.
    set (o := kapply (map iv_name (sp_input_fields fs)) outs obj).
    pose proof (cv_unknown_key_false _ _ Eu) as Hkeys.
    pose proof (json_wf_obj_nodup _ Hw) as Hnd.
    assert (Hnd' : NoDup (jmap_keys o)) by now apply kapply_nodup.
    (* per-field facts *)
    assert (Hfield : forall f, In f (sp_input_fields fs) ->
      match jmap_get (iv_name f) obj with
      | Some fv => exists rv, jmap_get (iv_name f) o = Some rv /\ SpecVal s (iv_ty f) fv rv /\
                              conforms_input s rv (iv_ty f) = true
      | None => match iv_default f with
                | Some dv => exists j, cv_lit_to_json dv = CvOk j /\ jmap_get (iv_name f) o = Some j /\
                                       SpecVal s (iv_ty f) j j /\ conforms_input s j (iv_ty f) = true
                | None => is_non_null (iv_ty f) = false /\ jmap_get (iv_name f) o = None
                end
      end).
    { intros f Hf. destruct (Forall2_in_l _ _ _ _ Em Hf) as [out [Hin Hstep]].
      pose proof (kapply_get_in _ Hfn outs obj _ _ (combine_map_in iv_name _ _ _ _ Hin)) as Hget. fold o in Hget.
      unfold cif_step in Hstep. destruct (jmap_get (iv_name f) obj) as [fv|] eqn:Eget.
      - destruct (rec (iv_ty f) fv) as [rv| |] eqn:Er; try discriminate. cbn [cv_bind] in Hstep.
        injection Hstep as <-. exists rv. split; [assumption|].
        apply Hrec; [|assumption]. apply (json_wf_obj_in obj (iv_name f) fv Hw). now apply jmap_get_in.
      - destruct (iv_default f) as [dv|] eqn:Edv.
        + destruct (field_default_coerced _ _ _ _ _ _ _ _ Eg Hf Edv) as [j [Hj Hcj]].
          rewrite Hj in Hstep. cbn [cv_bind] in Hstep. injection Hstep as <-.
          exists j. repeat split; try assumption. now apply conforms_spec_fix.
        + destruct (is_non_null (iv_ty f)); [discriminate|]. injection Hstep as <-. split; [reflexivity|assumption]. }
    assert (Hreskeys : forall k, In k (jmap_keys o) -> exists f, In f (sp_input_fields fs) /\ iv_name f = k).
    { intros k Hk. apply kapply_keys in Hk. destruct Hk as [Hk|[x Hin]]; [now apply Hkeys|].
      apply in_combine_l in Hin. apply in_map_iff in Hin. destruct Hin as [f [E Hf]]. now exists f. }
    split.
    + eapply SVInput; eauto.
      * intros f fv Hf Hget. specialize (Hfield f Hf). rewrite Hget in Hfield.
        destruct Hfield as [rv [H1 [H2 _]]]. now exists rv.
      * intros f dv Hf Hget Hdv. specialize (Hfield f Hf). rewrite Hget, Hdv in Hfield.
        destruct Hfield as [j [H1 [H2 [H3 _]]]]. now exists j, j.
      * intros f Hf Hget Hdv. specialize (Hfield f Hf). now rewrite Hget, Hdv in Hfield.
    + apply Hc; [reflexivity|]. unfold conforms_obj_body. rewrite !andb_true_iff. repeat split.
      * now apply j_str_nodup_spec.
      * apply forallb_forall. intros [k x] Hin. cbn [fst snd].
        assert (Hk : In k (jmap_keys o)) by (change k with (fst (k, x)); now apply in_map).
        destruct (Hreskeys k Hk) as [f [Hf <-]].
        rewrite (cv_find_field_nodup _ _ Hfn Hf).
        pose proof (jmap_get_nodup _ _ _ Hnd' Hin) as Hgo.
        specialize (Hfield f Hf). destruct (jmap_get (iv_name f) obj) as [fv|].
        -- destruct Hfield as [rv [H1 [_ H3]]]. congruence.
        -- destruct (iv_default f) as [dv|].
           ++ destruct Hfield as [j [_ [H2 [_ H4]]]]. congruence.
           ++ destruct Hfield as [_ H2]. congruence.
      * apply forallb_forall. intros f Hf. specialize (Hfield f Hf).
        unfold jmap_has. destruct (jmap_get (iv_name f) obj) as [fv|].
        -- destruct Hfield as [rv [H1 _]]. now rewrite H1.
        -- destruct (iv_default f) as [dv|].
           ++ destruct Hfield as [j [_ [H2 _]]]. now rewrite H2.
           ++ destruct Hfield as [H1 H2]. rewrite H2, H1. reflexivity.
Qed.

Lemma cv_value_sound : forall fuel, sound_rec (cv_value fuel s).
Proof.
  induction fuel as [|fuel IH]; intros t v r Hw H; [discriminate|].
  cbn [cv_value] in H. destruct (json_is_null v) eqn:Enull.
  - apply json_is_null_true in Enull. subst v. destruct (is_non_null t) eqn:Et; [discriminate|].
    injection H as <-. split; [now apply SVNull|]. rewrite conforms_input_unfold. now rewrite Et.
  - destruct t as [nm|nm|inner|inner].
    + eapply cv_named_sound; eauto. reflexivity.
    + eapply cv_named_sound; eauto. reflexivity.
    + eapply cv_list_sound; eauto. reflexivity.
    + eapply cv_list_sound; eauto. reflexivity.
Qed.

(* ------------------------------------------------------------------ fuel: never exhausted *)
Lemma cv_unknown_key_true_iff fs obj :
  (forall k, In k (jmap_keys obj) -> exists f, In f fs /\ iv_name f = k) -> cv_unknown_key fs obj = false.
Proof using.
  intros H. unfold cv_unknown_key. destruct (existsb _ obj) eqn:E; [|reflexivity].
  apply existsb_exists in E. destruct E as [[k x] [Hin E]]. cbn [fst] in E.
  destruct (cv_find_field k fs) eqn:Ef; [discriminate|]. apply cv_find_field_none in Ef.
  exfalso. apply Ef. destruct (H k) as [f [Hf <-]]; [change k with (fst (k, x)); now apply in_map|].
  now apply in_map.
Qed.

Lemma schema_field_ty_size n d n' dirs fs b f :
  sch_get_type s n = Some (EInput d n' dirs fs b) -> In f (sp_input_fields fs) ->
  (cv_ty_size (iv_ty f) <= cv_schema_max_ty_size s)%nat.
Proof using.
  clear Hwf Hd. intros H Hf. apply sch_find_type_in in H. unfold cv_schema_max_ty_size.
  induction (sch_types s) as [|t ts IH]; [destruct H|]. cbn [fold_right].
  destruct H as [->|H].
  - clear IH. unfold sp_input_fields in Hf. apply in_map_iff in Hf. destruct Hf as [c [<- Hc]].
    induction fs as [|c' fs IH]; [destruct Hc|]. cbn [fold_right]. destruct Hc as [->|Hc]; [lia|].
    specialize (IH Hc). lia.
  - specialize (IH H). destruct t; try assumption.
    induction fields as [|c' fs' IH']; [assumption|]. cbn [fold_right]. lia.
Qed.

Lemma cv_lit_no_oof : forall v, cv_lit_to_json v <> CvOutOfFuel.
Proof using.
  fix IH 1. intros v. destruct v as [| | | | | | |l|fs]; cbn [cv_lit_to_json]; try discriminate.
  - destruct (json_number_of_float_text text); discriminate.
  - destruct (json_number_of_int_text text); discriminate.
  - assert (H : (fix go (l : list value) : cv_res (list json) :=
                 match l with
                 | [] => CvOk []
                 | x :: r => cv_bind (cv_lit_to_json x) (fun y => cv_bind (go r) (fun ys => CvOk (y :: ys)))
                 end) l <> CvOutOfFuel).
    { induction l as [|x r IHl]; [discriminate|].
      pose proof (IH x) as Hx. destruct (cv_lit_to_json x); cbn [cv_bind]; [|discriminate|congruence].
      match goal with |- cv_bind ?e _ <> _ => destruct e end; cbn [cv_bind]; [discriminate|discriminate|congruence]. }
    match goal with |- cv_bind ?e _ <> _ => destruct e end; cbn [cv_bind]; [discriminate|discriminate|congruence].
  - assert (H : (fix go (l : list (str * value)) : cv_res (list (str * json)) :=
                 match l with
                 | [] => CvOk []
                 | (k, x) :: r =>
                     cv_bind (cv_lit_to_json x) (fun y => cv_bind (go r) (fun ys => CvOk ((k, y) :: ys)))
                 end) fs <> CvOutOfFuel).
    { induction fs as [|[k x] r IHl]; [discriminate|].
      pose proof (IH x) as Hx. destruct (cv_lit_to_json x); cbn [cv_bind]; [|discriminate|congruence].
      match goal with |- cv_bind ?e _ <> _ => destruct e end; cbn [cv_bind]; [discriminate|discriminate|congruence]. }
    match goal with |- cv_bind ?e _ <> _ => destruct e end; cbn [cv_bind]; [discriminate|discriminate|congruence].
Qed.

Section Fuel.
Variable Mx : nat.
Hypothesis HMx : (cv_schema_max_ty_size s <= Mx)%nat.

Definition cv_enough (fuel : nat) (t : ty) (v : json) : Prop :=
  (cv_ty_size t <= Mx /\ json_size v * S (S Mx) + cv_ty_size t < fuel)%nat.

Lemma cv_bind_no_oof {A B} (x : cv_res A) (f : A -> cv_res B) :
  x <> CvOutOfFuel -> (forall a, f a <> CvOutOfFuel) -> cv_bind x f <> CvOutOfFuel.
Proof using. destruct x; cbn [cv_bind]; auto; discriminate. Qed.

Lemma cv_value_no_oof : forall fuel t v, json_wf v = true -> cv_enough fuel t v ->
  cv_value fuel s t v <> CvOutOfFuel.
Proof using Hwf HMx.
  clear Hd. induction fuel as [|fuel IH]; intros t v Hw [Ht Hf]; [lia|].
  cbn [cv_value]. destruct (json_is_null v) eqn:Enull; [destruct (is_non_null t); discriminate|].
  assert (Hlist : forall inner, S (cv_ty_size inner) = cv_ty_size t -> cv_list (cv_value fuel s inner) v <> CvOutOfFuel).
  { intros inner Hi. unfold cv_list. apply cv_bind_no_oof; [|discriminate]. apply cv_map_m_no_oof.
    intros x Hx. destruct v as [| | | | |l|m];
      try (destruct Hx as [<-|[]]; apply IH; [assumption|unfold cv_enough; lia]).
    apply IH.
    - rewrite json_wf_arr, forallb_forall in Hw. now apply Hw.
    - pose proof (json_size_arr_in _ _ Hx). unfold cv_enough.
      assert (json_size x * S (S Mx) + S (S Mx) <= json_size (JArr l) * S (S Mx))%nat by nia. lia. }
  assert (Hnamed : forall nm, cv_named (cv_value fuel s) s nm v <> CvOutOfFuel).
  { intros nm. unfold cv_named.
    destruct (sch_get_type s nm) as [[d n' dirs b|? ? ? ? ? ?|? ? ? ? ? ?|? ? ? ? ?|d n' dirs vals b|d n' dirs fs b]|] eqn:Eg;
      try discriminate.
    - destruct (cv_scalar_ok nm v); discriminate.
    - destruct v; try discriminate. destruct (cv_enum_has vals s0); discriminate.
    - destruct v as [| | | | | |obj]; try discriminate. change (cv_fields_of fs) with (sp_input_fields fs).
      destruct (cv_unknown_key (sp_input_fields fs) obj); [discriminate|].
      pose proof (input_fields_nodup s Hwf _ _ _ _ _ _ Eg) as Hfn.
      rewrite (cif_eq _ obj _ Hfn obj (fun f _ => eq_refl)).
      apply cv_bind_no_oof; [|discriminate]. apply cv_bind_no_oof; [|discriminate].
      apply cv_map_m_no_oof. intros f Hfin. unfold cif_step.
      destruct (jmap_get (iv_name f) obj) as [fv|] eqn:Eget.
      + apply cv_bind_no_oof; [|discriminate]. apply jmap_get_in in Eget. apply IH.
        * eapply json_wf_obj_in; eauto.
        * pose proof (json_size_obj_in _ _ _ Eget). pose proof (schema_field_ty_size _ _ _ _ _ _ _ Eg Hfin).
          unfold cv_enough.
          assert (json_size fv * S (S Mx) + S (S Mx) <= json_size (JObj obj) * S (S Mx))%nat by nia. lia.
      + destruct (iv_default f) as [dv|].
        * apply cv_bind_no_oof; [apply cv_lit_no_oof|discriminate].
        * destruct (is_non_null (iv_ty f)); discriminate. }
  destruct t as [nm|nm|inner|inner]; auto.
Qed.

(* ------------------------------------------------------------------ completeness: specification => code *)
Lemma cv_value_complete : forall fuel t v r, json_wf v = true ->
  cv_enough fuel t v -> SpecVal s t v r -> exists r', cv_value fuel s t v = CvOk r'.
Proof.
  induction fuel as [|fuel IH]; intros t v r Hw [Ht Hf] Hs; [lia|].
  cbn [cv_value]. destruct (json_is_null v) eqn:Enull.
  - apply json_is_null_true in Enull. subst v.
    inversion Hs; subst; try congruence; try discriminate.
    match goal with H : is_non_null t = false |- _ => rewrite H end. now exists JNull.
  - pose proof (json_is_null_false _ Enull) as Hnn.
    assert (Hitem : forall inner x r0, S (cv_ty_size inner) = cv_ty_size t ->
              (x = v \/ exists l, v = JArr l /\ In x l) -> SpecVal s inner x r0 ->
              exists r', cv_value fuel s inner x = CvOk r').
    { intros inner x r0 Hi Hx Hsx. destruct Hx as [->|[l [-> Hx]]].
      - eapply IH; eauto. unfold cv_enough. lia.
      - eapply IH; eauto.
        + rewrite json_wf_arr, forallb_forall in Hw. now apply Hw.
        + pose proof (json_size_arr_in _ _ Hx). unfold cv_enough.
          assert (json_size x * S (S Mx) + S (S Mx) <= json_size (JArr l) * S (S Mx))%nat by nia. lia. }
    assert (Hlist : forall inner, S (cv_ty_size inner) = cv_ty_size t -> sp_list_inner t = Some inner ->
              exists r', cv_list (cv_value fuel s inner) v = CvOk r').
    { intros inner Hi Hti. unfold cv_list.
      assert (Hm : exists l', cv_map_m (cv_value fuel s inner) (match v with JArr l => l | _ => [v] end) = CvOk l').
      { apply cv_map_m_total. intros x Hx.
        inversion Hs; subst; try congruence; try discriminate.
        - (* SVList *) match goal with H : sp_list_inner t = Some ?i |- _ => rewrite Hti in H; injection H as <- end.
          match goal with H : Forall2 _ _ _ |- _ => destruct (Forall2_in_l _ _ _ _ H Hx) as [y [_ Hy]] end.
          eapply Hitem; eauto.
        - (* SVSingle *) match goal with H : sp_list_inner t = Some ?i |- _ => rewrite Hti in H; injection H as <- end.
          assert (x = v) as ->.
          { destruct v; try (destruct Hx as [<-|[]]; reflexivity). exfalso.
            match goal with H : forall l, _ <> JArr l |- _ => now apply (H items) end. }
          eapply Hitem; eauto.
        - (* SVScalar *) destruct t; discriminate.
        - destruct t; discriminate.
        - destruct t; discriminate. }
      destruct Hm as [l' ->]. cbn [cv_bind]. now exists (JArr l'). }
    assert (Hnamed : forall nm, sp_named t = Some nm -> exists r', cv_named (cv_value fuel s) s nm v = CvOk r').
    { intros nm Hnm. unfold cv_named.
      inversion Hs; subst; try congruence; try (destruct t; discriminate).
      - (* SVScalar *)
        match goal with H : sp_named t = Some ?n |- _ => rewrite Hnm in H; injection H as <- end.
        match goal with H : sch_get_type s nm = _ |- _ => rewrite H end.
        rewrite (sp_scalar_cv nm r) by assumption. now exists r.
      - match goal with H : sp_named t = Some ?n |- _ => rewrite Hnm in H; injection H as <- end.
        match goal with H : sch_get_type s nm = _ |- _ => rewrite H end.
        match goal with H : In x _ |- _ => apply cv_enum_has_in in H; rewrite H end. now exists (JStr x).
      - match goal with H : sp_named t = Some ?n |- _ => rewrite Hnm in H; injection H as <- end.
        match goal with H : sch_get_type s nm = _ |- _ => rename H into Eg; rewrite Eg end.
        change (cv_fields_of fs) with (sp_input_fields fs).
        rewrite cv_unknown_key_true_iff by assumption.
        pose proof (input_fields_nodup s Hwf _ _ _ _ _ _ Eg) as Hfn.
        rewrite (cif_eq _ obj _ Hfn obj (fun f _ => eq_refl)).
        assert (Hm : exists outs, cv_map_m (cif_step (cv_value fuel s) obj) (sp_input_fields fs) = CvOk outs).
        { apply cv_map_m_total. intros f Hfin. unfold cif_step.
          destruct (jmap_get (iv_name f) obj) as [fv|] eqn:Eget.
          - match goal with H : forall f fv, In f _ -> jmap_get _ obj = Some fv -> _ |- _ =>
              destruct (H f fv Hfin Eget) as [rv [_ Hrv]] end.
            apply jmap_get_in in Eget.
            assert (Hx : exists r', cv_value fuel s (iv_ty f) fv = CvOk r').
            { eapply IH; eauto.
              - eapply json_wf_obj_in; eauto.
              - pose proof (json_size_obj_in _ _ _ Eget).
                pose proof (schema_field_ty_size _ _ _ _ _ _ _ Eg Hfin). unfold cv_enough.
                assert (json_size fv * S (S Mx) + S (S Mx) <= json_size (JObj obj) * S (S Mx))%nat by nia. lia. }
            destruct Hx as [r' ->]. cbn [cv_bind]. now exists (Some r').
          - destruct (iv_default f) as [dv|] eqn:Edv.
            + destruct (field_default_coerced _ _ _ _ _ _ _ _ Eg Hfin Edv) as [j [-> _]]. cbn [cv_bind].
              now exists (Some j).
            + match goal with H : forall f, In f _ -> jmap_get _ obj = None -> iv_default f = None -> _ |- _ =>
                destruct (H f Hfin Eget Edv) as [-> _] end. now exists None. }
        destruct Hm as [outs ->]. cbn [cv_bind]. eexists. reflexivity. }
    destruct t as [nm|nm|inner|inner]; [apply (Hnamed nm)|apply (Hnamed nm)|apply (Hlist inner)|apply (Hlist inner)];
      reflexivity.
Qed.

End Fuel.

(* ------------------------------------------------------------------ coerce_variable_values *)
Definition cvv_step (fuel : nat) (values : jmap) (vd : vardef) : cv_res (option json) :=
  match jmap_get (v_name vd) values with
  | Some value => cv_bind (cv_value fuel s (v_ty vd) value) (fun x => CvOk (Some x))
  | None =>
      match v_default vd with
      | Some d => cv_bind (cv_lit_to_json d) (fun x => CvOk (Some x))
      | None => if is_non_null (v_ty vd) then CvErr CvValueError else CvOk None
      end
  end.

Lemma cvv_eq fuel values vars : forall acc,
  cv_vars fuel s vars values acc =
  cv_bind (cv_map_m (cvv_step fuel values) vars) (fun outs => CvOk (kapply (map v_name vars) outs acc)).
Proof using.
  induction vars as [|vd vars IH]; intros acc; cbn [cv_vars cv_map_m cv_bind kapply map]; [reflexivity|].
  unfold cvv_step at 1. rewrite jmap_get_key_get. destruct (jmap_get (v_name vd) values) as [value|].
  - destruct (cv_value fuel s (v_ty vd) value); cbn [cv_bind]; try reflexivity.
    rewrite IH. destruct (cv_map_m (cvv_step fuel values) vars); reflexivity.
  - destruct (v_default vd) as [d|].
    + destruct (cv_lit_to_json d); cbn [cv_bind]; try reflexivity.
      rewrite IH. destruct (cv_map_m (cvv_step fuel values) vars); reflexivity.
    + destruct (is_non_null (v_ty vd)); cbn [cv_bind]; [reflexivity|].
      rewrite IH. destruct (cv_map_m (cvv_step fuel values) vars); reflexivity.
Qed.

Definition cv_var_present (values : jmap) (vd : vardef) : bool :=
  jmap_has (v_name vd) values || match v_default vd with Some _ => true | None => false end.

Lemma kselected_present fuel values : forall vars outs,
  Forall2 (fun vd out => cvv_step fuel values vd = CvOk out) vars outs ->
  kselected (map v_name vars) outs = map v_name (filter (cv_var_present values) vars).
Proof using.
  induction 1 as [|vd out vars' outs' Hstep Em IH]; [reflexivity|].
  cbn [map kselected filter]. unfold cvv_step in Hstep. unfold cv_var_present at 1, jmap_has.
  destruct (jmap_get (v_name vd) values) as [value|].
  - destruct (cv_value fuel s (v_ty vd) value); cbn [cv_bind] in Hstep; try discriminate. injection Hstep as <-.
    cbn [orb map]. now rewrite IH.
  - destruct (v_default vd) as [dv|].
    + destruct (cv_lit_to_json dv); cbn [cv_bind] in Hstep; try discriminate. injection Hstep as <-.
      cbn [orb map]. now rewrite IH.
    + destruct (is_non_null (v_ty vd)); try discriminate. injection Hstep as <-. cbn [orb]. apply IH.
Qed.

Section Vars.
Variable vars : list vardef.
Variable values : jmap.
Hypothesis Hvars : cv_vars_wf vars = true.
Hypothesis Hvalues : json_wf (JObj values) = true.
Hypothesis Hvd : forallb (fun vd => cv_default_coerced s (v_ty vd) (v_default vd)) vars = true.

Lemma var_default_coerced vd dv : In vd vars -> v_default vd = Some dv ->
  exists j, cv_lit_to_json dv = CvOk j /\ conforms_input s j (v_ty vd) = true.
Proof.
  intros Hin Hdv. rewrite forallb_forall in Hvd. specialize (Hvd _ Hin). unfold cv_default_coerced in Hvd.
  rewrite Hdv in Hvd. destruct (cv_lit_to_json dv) as [j| |]; try discriminate. now exists j.
Qed.

Lemma vars_names_nodup : NoDup (map v_name vars).
Proof using Hvars. now apply j_str_nodup_spec. Qed.

(* everything one needs to know about a successful run, per variable *)
Lemma cv_vars_ok_facts r : coerce_variable_values s vars values = CvOk r ->
  (forall k, In k (jmap_keys r) -> exists vd, In vd vars /\ v_name vd = k) /\
  jmap_keys r = map v_name (filter (cv_var_present values) vars) /\
  forall vd, In vd vars ->
    match jmap_get (v_name vd) values with
    | Some value => exists rv, jmap_get (v_name vd) r = Some rv /\ SpecVal s (v_ty vd) value rv /\
                               conforms_input s rv (v_ty vd) = true
    | None => match v_default vd with
              | Some dv => exists j, cv_lit_to_json dv = CvOk j /\ jmap_get (v_name vd) r = Some j /\
                                     SpecVal s (v_ty vd) j j /\ conforms_input s j (v_ty vd) = true
              | None => is_non_null (v_ty vd) = false /\ jmap_get (v_name vd) r = None
              end
    end.
Proof.
  unfold coerce_variable_values. rewrite cvv_eq. set (fuel := cv_fuel s vars values).
  destruct (cv_map_m (cvv_step fuel values) vars) as [outs| |] eqn:Em; try discriminate.
  cbn [cv_bind]. intros [= <-]. apply cv_map_m_ok in Em. pose proof vars_names_nodup as Hnd.
  split; [|split].
  - intros k Hk. apply kapply_keys in Hk. destruct Hk as [[]|[x Hin]].
    apply in_combine_l in Hin. apply in_map_iff in Hin. destruct Hin as [vd [E Hv]]. now exists vd.
  - rewrite kapply_keys_exact; [|assumption|intros k _ []]. cbn [jmap_keys map app].
    apply (kselected_present _ _ _ _ Em).
  - intros vd Hin. destruct (Forall2_in_l _ _ _ _ Em Hin) as [out [Hc Hstep]].
    pose proof (kapply_get_in _ Hnd outs [] _ _ (combine_map_in v_name _ _ _ _ Hc)) as Hget.
    unfold cvv_step in Hstep. destruct (jmap_get (v_name vd) values) as [value|] eqn:Eget.
    + destruct (cv_value fuel s (v_ty vd) value) as [rv| |] eqn:Er; cbn [cv_bind] in Hstep; try discriminate. injection Hstep as <-.
      exists rv. split; [assumption|]. apply (cv_value_sound fuel); [|assumption].
      apply (json_wf_obj_in values (v_name vd) value Hvalues). now apply jmap_get_in.
    + destruct (v_default vd) as [dv|] eqn:Edv.
      * destruct (var_default_coerced _ _ Hin Edv) as [j [Hj Hcj]]. rewrite Hj in Hstep. cbn [cv_bind] in Hstep. injection Hstep as <-.
        exists j. repeat split; try assumption. now apply conforms_spec_fix.
      * destruct (is_non_null (v_ty vd)); try discriminate. injection Hstep as <-. split; [reflexivity|assumption].
Qed.

Lemma cv_vars_domain r : coerce_variable_values s vars values = CvOk r ->
  jmap_keys r = map v_name (filter (cv_var_present values) vars).
Proof using Hvars.
  unfold coerce_variable_values. rewrite cvv_eq.
  destruct (cv_map_m (cvv_step (cv_fuel s vars values) values) vars) as [outs| |] eqn:Em; try discriminate.
  cbn [cv_bind]. intros [= <-]. apply cv_map_m_ok in Em.
  rewrite kapply_keys_exact; [|apply vars_names_nodup|intros k _ []]. cbn [jmap_keys map app].
  apply (kselected_present _ _ _ _ Em).
Qed.

Lemma cv_vars_sound r : coerce_variable_values s vars values = CvOk r -> SpecVars s vars values r.
Proof.
  intros H. destruct (cv_vars_ok_facts r H) as [H1 [_ H3]]. split; [assumption|].
  intros vd Hin. specialize (H3 vd Hin). repeat split.
  - intros value Hv. rewrite Hv in H3. destruct H3 as [rv [Ha [Hb _]]]. now exists rv.
  - intros dv Hv Hdv. rewrite Hv, Hdv in H3. destruct H3 as [j [Ha [Hb [Hc _]]]]. now exists j, j.
  - rewrite H0, H2 in H3. tauto.
  - rewrite H0, H2 in H3. tauto.
Qed.

Lemma var_ty_size vd : In vd vars -> (cv_ty_size (v_ty vd) <= cv_max_ty_size vars)%nat.
Proof using.
  clear. induction vars as [|x l IH]; [intros []|]. cbn [cv_max_ty_size]. intros [->|H]; [lia|].
  specialize (IH H). lia.
Qed.

Lemma cv_fuel_enough vd value : In vd vars -> jmap_get (v_name vd) values = Some value ->
  cv_enough (Nat.max (cv_max_ty_size vars) (cv_schema_max_ty_size s)) (cv_fuel s vars values) (v_ty vd) value.
Proof using.
  clear Hd Hvd Hvars Hvalues Hwf. intros Hin Hget. pose proof (var_ty_size _ Hin). apply jmap_get_in in Hget.
  pose proof (json_size_obj_in _ _ _ Hget). unfold cv_enough, cv_fuel.
  set (M := Nat.max (cv_max_ty_size vars) (cv_schema_max_ty_size s)) in *.
  split; [lia|]. assert (json_size value * S (S M) + S (S M) <= json_size (JObj values) * S (S M))%nat by nia.
  cbn [Nat.mul]. lia.
Qed.

Lemma cv_vars_no_oof : coerce_variable_values s vars values <> CvOutOfFuel.
Proof using Hwf Hvalues.
  clear Hd Hvd Hvars. unfold coerce_variable_values. rewrite cvv_eq. apply cv_bind_no_oof; [|discriminate].
  apply cv_map_m_no_oof. intros vd Hin. unfold cvv_step.
  destruct (jmap_get (v_name vd) values) as [value|] eqn:Eget.
  - apply cv_bind_no_oof; [|discriminate].
    eapply cv_value_no_oof; [| |now apply cv_fuel_enough]; [lia|].
    apply (json_wf_obj_in values (v_name vd) value Hvalues). now apply jmap_get_in.
  - destruct (v_default vd); [apply cv_bind_no_oof; [apply cv_lit_no_oof|discriminate]|].
    destruct (is_non_null (v_ty vd)); discriminate.
Qed.

Lemma cv_vars_complete r : SpecVars s vars values r ->
  exists r', coerce_variable_values s vars values = CvOk r'.
Proof.
  intros [_ Hs]. unfold coerce_variable_values. rewrite cvv_eq.
  assert (Hm : exists outs, cv_map_m (cvv_step (cv_fuel s vars values) values) vars = CvOk outs).
  { apply cv_map_m_total. intros vd Hin. destruct (Hs vd Hin) as [Ha [Hb Hc]]. unfold cvv_step.
    destruct (jmap_get (v_name vd) values) as [value|] eqn:Eget.
    - destruct (Ha value eq_refl) as [rv [_ Hrv]].
      assert (Hx : exists r', cv_value (cv_fuel s vars values) s (v_ty vd) value = CvOk r').
      { eapply cv_value_complete; [| |now apply cv_fuel_enough|eassumption]; [lia|].
        apply (json_wf_obj_in values (v_name vd) value Hvalues). now apply jmap_get_in. }
      destruct Hx as [r' ->]. cbn [cv_bind]. now exists (Some r').
    - destruct (v_default vd) as [dv|] eqn:Edv.
      + destruct (var_default_coerced _ _ Hin Edv) as [j [-> _]]. cbn [cv_bind]. now exists (Some j).
      + destruct (Hc eq_refl eq_refl) as [-> _]. now exists None. }
  destruct Hm as [outs ->]. cbn [cv_bind]. eexists. reflexivity.
Qed.

End Vars.
End Main.
