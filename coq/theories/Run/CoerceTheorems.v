(* C28: the property-level statements assembled from Run/CoerceProofs.v, the refutation witnesses and the
   non-vacuity examples.  Props/C28.v only restates them. *)
From Coq Require Import ZArith String Lia.
From ApolloVerif Require Import Base.Chars Ast.Ast Schema.Model Run.Json Run.JsonLemmas Run.Coerce
  Run.CoerceSpec Run.CoerceProofs.

(* what validation of the schema and of the operation, and serde_json_bytes, guarantee *)
Definition C28_wf (s : schema) (vars : list vardef) (values : jmap) : Prop :=
  cv_schema_wf s = true /\ cv_vars_wf vars = true /\ json_wf (JObj values) = true.

Lemma known_split_default s vars : known_default_not_coerced s vars = false ->
  cv_schema_defaults_coerced s = true /\
  forallb (fun vd => cv_default_coerced s (v_ty vd) (v_default vd)) vars = true.
Proof. unfold known_default_not_coerced. intros H. apply negb_false_iff, andb_true_iff in H. tauto. Qed.


Lemma c28_iff : forall s vars values, C28_wf s vars values -> known_default_not_coerced s vars = false ->
  ((exists r, coerce_variable_values s vars values = CvOk r) <-> (exists r, SpecVars s vars values r)) /\
  (forall r, coerce_variable_values s vars values = CvOk r -> SpecVars s vars values r).
Proof.
  intros s vars values (Hs & Hv & Hj) Hk. destruct (known_split_default _ _ Hk) as (Hd & Hvd).
  split; [split|].
  - intros [r H]. exists r. now apply cv_vars_sound.
  - intros [r H]. now apply (cv_vars_complete s Hs Hd vars values Hv Hj Hvd r).
  - intros r H. now apply cv_vars_sound.
Qed.

Lemma c28_total : forall s vars values, C28_wf s vars values ->
  coerce_variable_values s vars values <> CvOutOfFuel.
Proof. intros s vars values (Hs & Hv & Hj). now apply cv_vars_no_oof. Qed.

Lemma c28_domain : forall s vars values r, cv_vars_wf vars = true ->
  coerce_variable_values s vars values = CvOk r ->
  jmap_keys r = map v_name (filter (cv_var_present values) vars).
Proof. intros s vars values r Hv. now apply cv_vars_domain. Qed.

Lemma c28_conforms : forall s vars values r, C28_wf s vars values ->
  known_default_not_coerced s vars = false ->
  coerce_variable_values s vars values = CvOk r ->
  forall vd rv, In vd vars -> jmap_get (v_name vd) r = Some rv -> conforms_input s rv (v_ty vd) = true.
Proof.
  intros s vars values r (Hs & Hv & Hj) Hk H vd rv Hin Hget.
  destruct (known_split_default _ _ Hk) as (Hd & Hvd).
  destruct (cv_vars_ok_facts s Hs Hd vars values Hv Hj Hvd r H) as (_ & _ & H3). specialize (H3 vd Hin).
  destruct (jmap_get (v_name vd) values).
  - destruct H3 as (rv' & Ha & _ & Hc). congruence.
  - destruct (v_default vd).
    + destruct H3 as (j & _ & Ha & _ & Hc). congruence.
    + destruct H3 as (_ & Ha). congruence.
Qed.

(* ---------------------------------------------------------------------------------------------------
   witnesses *)
Local Open Scope string_scope.
Definition ex_s (x : string) : str := str_of_string x.
Definition ex_scalar (n : string) : ext_type := EScalar None (ex_s n) [] true.
Definition ex_iv (n : string) (t : ty) (d : option value) : comp inputvaldef :=
  mkcomp ODef {| iv_desc := None; iv_name := ex_s n; iv_ty := t; iv_default := d; iv_dirs := [] |}.
Definition ex_sdef : schema_def :=
  {| sd_desc := None; sd_dirs := []; sd_query := None; sd_mutation := None; sd_subscription := None |}.
(* input I {x: Int = 3, y: [Int]} *)
Definition ex_schema : schema :=
  {| sch_def := ex_sdef; sch_dirdefs := [];
     sch_types := [ex_scalar "Int"; ex_scalar "Float"; ex_scalar "ID";
                   EInput None (ex_s "I") []
                     [ex_iv "x" (TNamed (ex_s "Int")) (Some (VInt (ex_s "3")));
                      ex_iv "y" (TList (TNamed (ex_s "Int"))) None] false] |}.
Definition ex_var (n : string) (t : ty) (d : option value) : vardef :=
  {| v_name := ex_s n; v_ty := t; v_default := d; v_dirs := [] |}.
(* query($a: [Int] = 1, $i: I = {y: 2}) *)
Definition ex_vars : list vardef :=
  [ex_var "a" (TList (TNamed (ex_s "Int"))) (Some (VInt (ex_s "1")));
   ex_var "i" (TNamed (ex_s "I")) (Some (VObject [(ex_s "y", VInt (ex_s "2"))]))].
(* {"a":1,"i":{"y":2}} *)
Definition ex_result : jmap := [(ex_s "a", JInt 1); (ex_s "i", JObj [(ex_s "y", JInt 2)])].


Lemma c28_default_refuted : exists s vars values r,
  C28_wf s vars values /\
  coerce_variable_values s vars values = CvOk r /\
  ~ SpecVars s vars values r /\
  (exists vd rv, In vd vars /\ jmap_get (v_name vd) r = Some rv /\ conforms_input s rv (v_ty vd) = false).
Proof.
  exists ex_schema, ex_vars, [], ex_result. split; [|split; [|split]].
  - repeat split; vm_compute; reflexivity.
  - vm_compute. reflexivity.
  - intros [_ H]. specialize (H (ex_var "a" (TList (TNamed (ex_s "Int"))) (Some (VInt (ex_s "1")))) (or_introl eq_refl)).
    destruct H as (_ & H & _). specialize (H (VInt (ex_s "1")) eq_refl eq_refl).
    destruct H as (j & rv & Hj & Hs & Hg). vm_compute in Hj. injection Hj as <-.
    vm_compute in Hg. injection Hg as <-.
    inversion Hs; subst; discriminate.
  - exists (ex_var "a" (TList (TNamed (ex_s "Int"))) (Some (VInt (ex_s "1")))), (JInt 1).
    split; [now left|]. split; vm_compute; reflexivity.
Qed.

(* the boundary integers of Float and ID (formerly the known class edge_int): the specification accepts them,
   and so does the code since the repair of the two comparisons *)
Definition ex_accepts (t : string) (z : Z) : Prop :=
  let vars := [ex_var "v" (TNamed (ex_s t)) None] in
  let values := [(ex_s "v", JInt z)] in
  C28_wf ex_schema vars values /\ known_default_not_coerced ex_schema vars = false /\
  SpecVars ex_schema vars values values /\
  coerce_variable_values ex_schema vars values = CvOk values.

Lemma ex_spec_vars t z d n' dirs b :
  sch_get_type ex_schema (ex_s t) = Some (EScalar d n' dirs b) -> SpecScalar (ex_s t) (JInt z) ->
  SpecVars ex_schema [ex_var "v" (TNamed (ex_s t)) None] [(ex_s "v", JInt z)] [(ex_s "v", JInt z)].
Proof.
  intros Hg Hsc. split.
  - intros k [<-|[]]. eexists. split; [now left|reflexivity].
  - intros vd [<-|[]]. split; [|split].
    + intros value Hv. vm_compute in Hv. injection Hv as <-. exists (JInt z).
      split; [vm_compute; reflexivity|]. eapply SVScalar; eauto; [reflexivity|discriminate].
    + intros dv Hv. vm_compute in Hv. discriminate.
    + intros Hv. vm_compute in Hv. discriminate.
Qed.

Lemma c28_edge_accepted :
  ex_accepts "Float" j_max_safe_int /\ ex_accepts "Float" (- j_max_safe_int) /\
  ex_accepts "ID" j_two63 /\ ex_accepts "ID" (j_two64 - 1).
Proof.
  unfold ex_accepts, C28_wf. split; [|split; [|split]].
  - split; [repeat split; vm_compute; reflexivity|]. split; [vm_compute; reflexivity|]. split; [|vm_compute; reflexivity].
    eapply ex_spec_vars; [vm_compute; reflexivity|]. right; left. split; [reflexivity|]. right.
    exists j_max_safe_int. split; [reflexivity|]. vm_compute. discriminate.
  - split; [repeat split; vm_compute; reflexivity|]. split; [vm_compute; reflexivity|]. split; [|vm_compute; reflexivity].
    eapply ex_spec_vars; [vm_compute; reflexivity|]. right; left. split; [reflexivity|]. right.
    exists (- j_max_safe_int)%Z. split; [reflexivity|]. vm_compute. discriminate.
  - split; [repeat split; vm_compute; reflexivity|]. split; [vm_compute; reflexivity|]. split; [|vm_compute; reflexivity].
    eapply ex_spec_vars; [vm_compute; reflexivity|]. right; right; right; right; left. split; [reflexivity|].
    right. now exists j_two63.
  - split; [repeat split; vm_compute; reflexivity|]. split; [vm_compute; reflexivity|]. split; [|vm_compute; reflexivity].
    eapply ex_spec_vars; [vm_compute; reflexivity|]. right; right; right; right; left. split; [reflexivity|].
    right. now exists (j_two64 - 1)%Z.
Qed.

(* the scalar tests as they were before the repair (Coerce.cv_scalar_ok_old) rejected exactly these values of the
   specification: the old behaviour with its refuting witnesses; the other integers of the two ranges were accepted *)
Lemma c28_edge_old_refuted :
  (SpecScalar rn_Float (JInt j_max_safe_int) /\ cv_scalar_ok_old rn_Float (JInt j_max_safe_int) = false) /\
  (SpecScalar rn_Float (JInt (- j_max_safe_int)) /\ cv_scalar_ok_old rn_Float (JInt (- j_max_safe_int)) = false) /\
  (SpecScalar rn_ID (JInt j_two63) /\ cv_scalar_ok_old rn_ID (JInt j_two63) = false) /\
  (forall n v, cv_scalar_ok_old n v = true -> cv_scalar_ok n v = true).
Proof.
  split; [|split; [|split]].
  - split; [|vm_compute; reflexivity]. right; left. split; [reflexivity|]. right.
    exists j_max_safe_int. split; [reflexivity|]. vm_compute. discriminate.
  - split; [|vm_compute; reflexivity]. right; left. split; [reflexivity|]. right.
    exists (- j_max_safe_int)%Z. split; [reflexivity|]. vm_compute. discriminate.
  - split; [|vm_compute; reflexivity]. right; right; right; right; left. split; [reflexivity|].
    right. now exists j_two63.
  - intros n v. unfold cv_scalar_ok_old, cv_scalar_ok.
    destruct (streq n rn_Int); [tauto|]. destruct (streq n rn_Float).
    { destruct v; cbn [json_is_f64 orb]; try tauto.
      unfold json_int_as_f64_abs_lt_max_safe, json_int_as_f64_abs_le_max_safe. lia. }
    destruct (streq n rn_String); [tauto|]. destruct (streq n rn_Boolean); [tauto|].
    destruct (streq n rn_ID); [|tauto]. intros H. now rewrite H.
Qed.

(* query($a: [Int] = [1], $i: I, $f: Float!) with {"i": {"y": 5}, "f": 7} *)
Definition nv_vars : list vardef :=
  [ex_var "a" (TList (TNamed (ex_s "Int"))) (Some (VList [VInt (ex_s "1")]));
   ex_var "i" (TNamed (ex_s "I")) None;
   ex_var "f" (TNonNullNamed (ex_s "Float")) None;
   ex_var "u" (TNamed (ex_s "ID")) None].
Definition nv_values : jmap := [(ex_s "i", JObj [(ex_s "y", JInt 5)]); (ex_s "f", JInt 7)].
