(* Lemmas about the JSON map operations of Run/Json.v (IndexMap get / insert / keys). *)
From Coq Require Import ZArith.
From ApolloVerif Require Import Base.Chars Ast.Ast Run.Json.

Lemma streq_sym a b : streq a b = streq b a.
Proof.
  destruct (streq a b) eqn:E.
  - apply streq_eq in E. subst. now rewrite streq_refl.
  - destruct (streq b a) eqn:E'; [|reflexivity]. apply streq_eq in E'. subst. now rewrite streq_refl in E.
Qed.

Lemma streq_neq a b : streq a b = false <-> a <> b.
Proof.
  split.
  - intros E H. subst. now rewrite streq_refl in E.
  - intros H. destruct (streq a b) eqn:E; [|reflexivity]. apply streq_eq in E. contradiction.
Qed.

Lemma existsb_streq k l : existsb (streq k) l = true <-> In k l.
Proof.
  rewrite existsb_exists. split.
  - intros [x [Hx E]]. apply streq_eq in E. now subst.
  - intros H. exists k. split; [assumption|apply streq_refl].
Qed.

Lemma j_str_nodup_spec l : j_str_nodup l = true <-> NoDup l.
Proof.
  induction l as [|k r IH]; cbn [j_str_nodup].
  - split; [constructor|reflexivity].
  - rewrite andb_true_iff, negb_true_iff, IH. split.
    + intros [H1 H2]. constructor; [|assumption]. intros Hin. apply existsb_streq in Hin. congruence.
    + intros H. inversion H as [|? ? Hn Hr]; subst. split; [|assumption].
      destruct (existsb (streq k) r) eqn:E; [|reflexivity]. apply existsb_streq in E. contradiction.
Qed.

Lemma jmap_get_in k m v : jmap_get k m = Some v -> In (k, v) m.
Proof.
  induction m as [|[k' v'] r IH]; cbn [jmap_get]; [discriminate|].
  destruct (streq k k') eqn:E.
  - intros [= <-]. apply streq_eq in E. subst. now left.
  - intros H. right. auto.
Qed.

Lemma jmap_get_keys k m : (exists v, jmap_get k m = Some v) <-> In k (jmap_keys m).
Proof.
  induction m as [|[k' v'] r IH]; cbn [jmap_get jmap_keys map fst].
  - split; [intros [v H]; discriminate|intros []].
  - destruct (streq k k') eqn:E.
    + apply streq_eq in E. subst. split; [now left|]. intros _. now exists v'.
    + apply streq_neq in E. rewrite IH. unfold jmap_keys. split; [now right|].
      intros [H|H]; [congruence|assumption].
Qed.

Lemma jmap_get_none k m : jmap_get k m = None <-> ~ In k (jmap_keys m).
Proof.
  rewrite <- jmap_get_keys. destruct (jmap_get k m) as [v|].
  - split; [discriminate|]. intros H. exfalso. apply H. now exists v.
  - split; [|reflexivity]. intros _ [v H]. discriminate.
Qed.

Lemma jmap_has_keys k m : jmap_has k m = true <-> In k (jmap_keys m).
Proof.
  unfold jmap_has. rewrite <- jmap_get_keys. destruct (jmap_get k m) as [v|].
  - split; [now exists v|reflexivity].
  - split; [discriminate|intros [v H]; discriminate].
Qed.

Lemma jmap_get_nodup k v m : NoDup (jmap_keys m) -> In (k, v) m -> jmap_get k m = Some v.
Proof.
  induction m as [|[k' v'] r IH]; cbn [jmap_get jmap_keys map fst]; [intros _ []|].
  intros Hnd [H|H].
  - injection H as -> ->. now rewrite streq_refl.
  - inversion Hnd as [|? ? Hn Hr]; subst.
    destruct (streq k k') eqn:E.
    + apply streq_eq in E. subst. exfalso. apply Hn. change (In (fst (k', v)) (map fst r)).
      now apply in_map.
    + now apply IH.
Qed.

Lemma jmap_get_key_get k m :
  jmap_get_key k m = match jmap_get k m with Some v => Some (k, v) | None => None end.
Proof.
  induction m as [|[k' v'] r IH]; cbn [jmap_get jmap_get_key]; [reflexivity|].
  destruct (streq k k') eqn:E; [|assumption]. apply streq_eq in E. now subst.
Qed.

Lemma jmap_get_insert k k' v m :
  jmap_get k (jmap_insert k' v m) = if streq k k' then Some v else jmap_get k m.
Proof.
  induction m as [|[k2 v2] r IH]; cbn [jmap_insert jmap_get].
  - reflexivity.
  - destruct (streq k' k2) eqn:E2; cbn [jmap_get].
    + apply streq_eq in E2. subst k2. destruct (streq k k'); reflexivity.
    + destruct (streq k k2) eqn:E3.
      * apply streq_eq in E3. subst k2. rewrite streq_sym, E2. reflexivity.
      * apply IH.
Qed.

Lemma jmap_keys_insert k v m :
  jmap_keys (jmap_insert k v m) = if jmap_has k m then jmap_keys m else jmap_keys m ++ [k].
Proof.
  unfold jmap_has. induction m as [|[k2 v2] r IH]; cbn [jmap_insert jmap_get jmap_keys map fst app].
  - reflexivity.
  - destruct (streq k k2) eqn:E; cbn [map fst].
    + reflexivity.
    + unfold jmap_keys in IH. rewrite IH. destruct (jmap_get k r); reflexivity.
Qed.

Lemma NoDup_snoc {A} (l : list A) (x : A) : NoDup l -> ~ In x l -> NoDup (l ++ [x]).
Proof.
  induction l as [|y l IH]; cbn [app]; intros Hnd Hn.
  - constructor; [intros []|constructor].
  - inversion Hnd as [|? ? Hy Hl]; subst. constructor.
    + rewrite in_app_iff. intros [H|[H|[]]]; [contradiction|]. subst. apply Hn. now left.
    + apply IH; [assumption|]. intros H. apply Hn. now right.
Qed.

Lemma jmap_insert_nodup k v m : NoDup (jmap_keys m) -> NoDup (jmap_keys (jmap_insert k v m)).
Proof.
  intros H. rewrite jmap_keys_insert. destruct (jmap_has k m) eqn:E; [assumption|].
  apply NoDup_snoc; [assumption|].
  intros Hin. apply jmap_has_keys in Hin. congruence.
Qed.

Lemma jmap_insert_length_has k v m : jmap_has k m = true -> length (jmap_insert k v m) = length m.
Proof.
  intros H. assert (L : length (jmap_keys (jmap_insert k v m)) = length (jmap_keys m)).
  { rewrite jmap_keys_insert, H. reflexivity. }
  unfold jmap_keys in L. now rewrite !map_length in L.
Qed.
