(* JSON values as used by crates/apollo-compiler/src/response.rs (JsonValue = serde_json_bytes::Value,
   JsonMap = serde_json_bytes::Map with preserve_order = an IndexMap), and the part of
   serde_json::Number (three-way representation PosInt(u64) | NegInt(i64) | Float(f64)) that the
   coercion code tests with is_i64 / as_i64 / is_f64 / as_f64.

   JInt z stands for PosInt z when 0 <= z < 2^64 and for NegInt z when -2^63 <= z < 0 (json_wf).
   JFloat carries the literal text of a finite f64 (never compared as a binary value).  *)
From Coq Require Import ZArith String Ascii.
From ApolloVerif Require Import Base.Chars Ast.Ast.
Local Open Scope Z_scope.

Inductive json :=
| JNull
| JBool (b : bool)
| JInt (z : Z)
| JFloat (text : str)
| JStr (s : str)
| JArr (items : list json)
| JObj (fields : list (str * json)).

Definition jmap := list (str * json).

(* string constants: computed once, so that no Coq string reaches the extraction *)
Definition str_of_string (s : string) : str :=
  List.map (fun a => N_of_ascii a) (list_ascii_of_string s).

(* ---- IndexMap operations used by the code ---- *)
Fixpoint jmap_get (k : str) (m : jmap) : option json :=
  match m with
  | [] => None
  | (k', v) :: r => if streq k k' then Some v else jmap_get k r
  end.

Definition jmap_has (k : str) (m : jmap) : bool :=
  match jmap_get k m with Some _ => true | None => false end.

(* the stored key (get_key_value) *)
Fixpoint jmap_get_key (k : str) (m : jmap) : option (str * json) :=
  match m with
  | [] => None
  | (k', v) :: r => if streq k k' then Some (k', v) else jmap_get_key k r
  end.

(* IndexMap::insert: replace the value in place if the key exists, else append *)
Fixpoint jmap_insert (k : str) (v : json) (m : jmap) : jmap :=
  match m with
  | [] => [(k, v)]
  | (k', v') :: r => if streq k k' then (k', v) :: r else (k', v') :: jmap_insert k v r
  end.

Definition jmap_keys (m : jmap) : list str := List.map fst m.

(* FromIterator for Map: insert one by one *)
Definition jmap_of_list (l : list (str * json)) : jmap :=
  fold_left (fun m kv => jmap_insert (fst kv) (snd kv) m) l [].

(* ---- serde_json::Number / Value predicates ---- *)
Definition j_two63 : Z := 9223372036854775808.
Definition j_two64 : Z := 18446744073709551616.
Definition j_two31 : Z := 2147483648.
(* const MAX_SAFE_INT: i64 = (1_i64 << 53) - 1 *)
Definition j_max_safe_int : Z := 9007199254740991.

Definition json_is_null (v : json) : bool := match v with JNull => true | _ => false end.
Definition json_is_string (v : json) : bool := match v with JStr _ => true | _ => false end.
Definition json_is_boolean (v : json) : bool := match v with JBool _ => true | _ => false end.
Definition json_is_f64 (v : json) : bool := match v with JFloat _ => true | _ => false end.
(* Number::as_i64: PosInt n if n <= i64::MAX, NegInt n *)
Definition json_as_i64 (v : json) : option Z :=
  match v with
  | JInt z => if z <? j_two63 then Some z else None
  | _ => None
  end.
Definition json_is_i64 (v : json) : bool :=
  match json_as_i64 v with Some _ => true | None => false end.
(* i32::try_from(i64).is_ok() *)
Definition j_fits_i32 (z : Z) : bool := (- j_two31 <=? z) && (z <? j_two31).

(* Number::is_u64: PosInt n (JInt z stands for PosInt z exactly when 0 <= z, see json_wf) *)
Definition json_is_u64 (v : json) : bool :=
  match v with JInt z => 0 <=? z | _ => false end.

(* `as_f64().is_some_and(|f| f.abs() <= MAX_SAFE_INT as f64)` on an integer number.
   u64/i64 -> f64 conversion rounds to nearest and is monotone; it is exact up to 2^53 and
   MAX_SAFE_INT = 2^53 - 1 is itself an f64, so  |f64(z)| <= 2^53 - 1  <->  |z| <= 2^53 - 1
   (2^53 converts to itself, which is greater). *)
Definition json_int_as_f64_abs_le_max_safe (z : Z) : bool := Z.abs z <=? j_max_safe_int.
(* the comparison before the repair (`f.abs() < MAX_SAFE_INT as f64`): |f64(z)| < 2^53 - 1  <->  |z| < 2^53 - 1;
   only used by Coerce.cv_scalar_ok_old *)
Definition json_int_as_f64_abs_lt_max_safe (z : Z) : bool := Z.abs z <? j_max_safe_int.

(* ---- well-formedness: what a serde_json_bytes value can be ---- *)
Fixpoint j_str_nodup (l : list str) : bool :=
  match l with
  | [] => true
  | k :: r => negb (existsb (streq k) r) && j_str_nodup r
  end.

Fixpoint json_wf (v : json) : bool :=
  match v with
  | JInt z => (- j_two63 <=? z) && (z <? j_two64)
  | JArr l => (fix go (l : list json) : bool :=
                 match l with [] => true | x :: r => json_wf x && go r end) l
  | JObj m => j_str_nodup (List.map fst m) &&
              (fix go (l : list (str * json)) : bool :=
                 match l with [] => true | (_, x) :: r => json_wf x && go r end) m
  | _ => true
  end.

Fixpoint json_size (v : json) : nat :=
  match v with
  | JArr l => S ((fix go (l : list json) : nat :=
                    match l with [] => O | x :: r => (json_size x + go r)%nat end) l)
  | JObj m => S ((fix go (l : list (str * json)) : nat :=
                    match l with [] => O | (_, x) :: r => (json_size x + go r)%nat end) m)
  | _ => 1%nat
  end.

(* ---- Number::from_str as used by graphql_value_to_json on IntValue / FloatValue text ----
   The text is a GraphQL Int or Float literal: -? digits ( . digits )? ( [eE] [+-]? digits )?  *)
Definition j_digit_val (c : N) : Z := Z.of_N c - 48.

Fixpoint j_digits_val (acc : Z) (s : str) : Z :=
  match s with
  | [] => acc
  | c :: r => j_digits_val (10 * acc + j_digit_val c) r
  end.

Fixpoint j_take_digits (s : str) : str * str :=
  match s with
  | c :: r => if is_digit c then let (d, rest) := j_take_digits r in (c :: d, rest) else ([], s)
  | [] => ([], [])
  end.

(* an Int literal: an integer in [-2^63, 2^64) stays an integer; `-0` and integers outside that range
   become f64 (serde_json: parse_integer falls back to a float).  The text of such a float is not
   modelled (JFloat of the literal text; the tie avoids these). *)
Definition json_number_of_int_text (t : str) : option json :=
  match t with
  | c :: r =>
      if (c =? c_minus)%N then
        let z := j_digits_val 0 r in
        if z =? 0 then Some (JFloat [45; 48; 46; 48]%N)
        else if z <=? j_two63 then Some (JInt (- z)) else Some (JFloat t)
      else
        let z := j_digits_val 0 t in
        if z <? j_two64 then Some (JInt z) else Some (JFloat t)
  | [] => None
  end.

(* a Float literal m.f e x denotes (digits m f) * 10^(x - |f|); serde_json reports
   "number out of range" when it does not fit a finite f64.  Round-to-nearest-even sends exactly the
   values >= 2^1024 - 2^970 to infinity.  (serde_json's default float parser is not correctly
   rounded near that boundary; only values far from it are used by the tie.) *)
Definition j_f64_overflow_threshold : Z := 2 ^ 1024 - 2 ^ 970.

Definition j_float_text_overflows (t : str) : bool :=
  let t := match t with c :: r => if (c =? c_minus)%N then r else t | [] => t end in
  let (ip, rest) := j_take_digits t in
  let (fp, rest) := match rest with
                    | c :: r => if (c =? c_dot)%N then j_take_digits r else ([], rest)
                    | [] => ([], [])
                    end in
  let ex : Z := match rest with
                | c :: r => (* e or E *)
                    match r with
                    | s :: r' =>
                        if (s =? c_minus)%N then - j_digits_val 0 r'
                        else if (s =? c_plus)%N then j_digits_val 0 r'
                        else j_digits_val 0 r
                    | [] => 0
                    end
                | [] => 0
                end in
  let m := j_digits_val 0 (ip ++ fp) in
  let e := ex - Z.of_nat (length fp) in
  if m =? 0 then false
  else if 0 <=? e then j_f64_overflow_threshold <=? m * 10 ^ e
  else j_f64_overflow_threshold * 10 ^ (- e) <=? m.

Definition json_number_of_float_text (t : str) : option json :=
  if j_float_text_overflows t then None else Some (JFloat t).
