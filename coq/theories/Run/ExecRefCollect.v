(* C26, second part: CollectFields.  The model's collect_fields (ex_collect: one pass, pushing every field into an
   ordered map of groups) computes the same grouped field set as the reference's "flatten, then group by response
   key" (rf_flatten, rf_group): same @skip/@include evaluation, same fragment lookup, same type-condition test
   (given that the object type's interfaces are the ones the schema records and type names are unique), same set
   of visited fragments.  Also: leaf completion and the choice of the concrete object type agree. *)
From Coq Require Import ZArith Lia List.
From ApolloVerif Require Import Base.Chars Ast.Ast Schema.Model Run.Json Run.JsonLemmas Run.Coerce Run.CoerceProofs
  Run.TypedDoc Run.Prog Run.Execute Run.ExecTop Run.RefExecute Run.ExecProofs Run.ExecRefDefs Run.ExecRefInv.
Import ListNotations.
Local Open Scope nat_scope.
Local Open Scope list_scope.

(* ---------------------------------------------------------------- @skip / @include *)
Lemma find_dir_filter n ds :
  ex_find_dir n ds = match filter (fun d => streq (d_name d) n) ds with d :: _ => Some d | [] => None end.
Proof. induction ds as [|d r IH]; cbn [ex_find_dir filter]; [reflexivity|]. destruct (streq (d_name d) n); [reflexivity|exact IH]. Qed.

Lemma find_arg_filter n (args : list argument) :
  ex_find_arg n args = match filter (fun a => streq (fst a) n) args with (_, v) :: _ => Some v | [] => None end.
Proof.
  induction args as [|[k v] r IH]; cbn [ex_find_arg filter fst]; [reflexivity|]. destruct (streq k n); [reflexivity|exact IH].
Qed.

Lemma eval_if_eq x dname vars : ex_eval_if x dname vars = rf_directive_if x dname vars.
Proof.
  unfold ex_eval_if, rf_directive_if. rewrite find_dir_filter.
  destruct (filter (fun d => streq (d_name d) dname) (rs_dirs x)) as [|d r]; [reflexivity|].
  rewrite find_arg_filter. destruct (filter (fun a => streq (fst a) ex_if) (d_args d)) as [|[k v] r']; [reflexivity|].
  destruct v; reflexivity.
Qed.

Lemma skipped_eq x vars : ex_skipped x vars = rf_excluded x vars.
Proof.
  unfold ex_skipped, rf_excluded. rewrite !eval_if_eq.
  destruct (rf_directive_if x ex_skip vars) as [[|]|], (rf_directive_if x ex_include vars) as [[|]|]; reflexivity.
Qed.

Lemma find_frag_filter n fs :
  ex_find_frag n fs = match filter (fun f => streq (rfr_name f) n) fs with fr :: _ => Some fr | [] => None end.
Proof. induction fs as [|f r IH]; cbn [ex_find_frag filter]; [reflexivity|]. destruct (streq (rfr_name f) n); [reflexivity|exact IH]. Qed.

(* ---------------------------------------------------------------- does_fragment_type_apply *)
Lemma find_type_name n ts t : sch_find_type n ts = Some t -> et_name t = n.
Proof.
  induction ts as [|t0 r IH]; cbn [sch_find_type]; [discriminate|]. destruct (streq n (et_name t0)) eqn:E.
  - intros [= <-]. symmetry. now apply streq_eq.
  - exact IH.
Qed.

Lemma names_unique (ts : list ext_type) t t' :
  NoDup (map et_name ts) -> In t ts -> In t' ts -> et_name t = et_name t' -> t = t'.
Proof.
  induction ts as [|t0 r IH]; intros Hnd Ht Ht' He; [contradiction|]. cbn [map] in Hnd. inversion Hnd as [|? ? Hn Hnd']; subst.
  destruct Ht as [->|Ht], Ht' as [->|Ht'].
  - reflexivity.
  - exfalso. apply Hn. rewrite He. now apply in_map.
  - exfalso. apply Hn. rewrite <- He. now apply in_map.
  - now apply IH.
Qed.

Definition sch_names_unique (s : schema) : Prop := NoDup (map et_name (sch_types s)).

Lemma get_object_inv s otn oimpls : ex_get_object s otn = Some oimpls ->
  exists desc impls dirs fs b, sch_get_type s otn = Some (EObject desc otn impls dirs fs b) /\ oimpls = map c_val impls.
Proof.
  unfold ex_get_object. destruct (sch_get_type s otn) as [t|] eqn:E; [|discriminate].
  destruct t as [| desc nm impls dirs fs b| | | |]; try discriminate. intros [= <-].
  pose proof (find_type_name _ _ _ E) as Hn. cbn [et_name] in Hn. subst nm. now exists desc, impls, dirs, fs, b.
Qed.

Lemma existsb_map_cval (P : str -> bool) (l : list (comp str)) :
  existsb (fun m => P (c_val m)) l = existsb P (map c_val l).
Proof. induction l as [|m r IH]; cbn [existsb map]; [reflexivity|now rewrite IH]. Qed.

Lemma existsb_members tname (members : list (comp str)) :
  existsb (streq tname) (map c_val members) = existsb (fun m => streq (c_val m) tname) members.
Proof.
  induction members as [|m r IH]; cbn [existsb map]; [reflexivity|]. rewrite IH. f_equal. apply streq_sym.
Qed.

Lemma possible_interface s otn oimpls c :
  sch_names_unique s -> ex_get_object s otn = Some oimpls ->
  existsb (streq otn)
    (flat_map (fun t => match t with
                        | EObject _ on impls _ _ _ => if existsb (fun i => streq (c_val i) c) impls then [on] else []
                        | _ => []
                        end) (sch_types s)) = existsb (streq c) oimpls.
Proof.
  intros Hu Hg. destruct (get_object_inv _ _ _ Hg) as (desc & impls & dirs & fs & b & Ht & ->).
  pose proof (sch_find_type_in _ _ _ Ht) as Hin.
  apply eq_true_iff_eq. rewrite !existsb_streq. split.
  - intros H. apply in_flat_map in H. destruct H as (t & Htin & H).
    destruct t as [| desc' on impls' dirs' fs' b'| | | |]; try contradiction.
    destruct (existsb (fun i => streq (c_val i) c) impls') eqn:E; [|contradiction]. destruct H as [->|[]].
    assert (Heq : EObject desc' otn impls' dirs' fs' b' = EObject desc otn impls dirs fs b) by (apply (names_unique (sch_types s)); auto).
    injection Heq as -> -> -> -> ->. rewrite (existsb_map_cval (fun x => streq x c)) in E.
    apply existsb_exists in E. destruct E as (x & Hx & E). apply streq_eq in E. now subst x.
  - intros H. apply in_flat_map. eexists. split; [exact Hin|]. cbv beta iota.
    assert (E : existsb (fun i => streq (c_val i) c) impls = true).
    { rewrite (existsb_map_cval (fun x => streq x c)). apply existsb_exists. exists c. split; [assumption|apply streq_refl]. }
    rewrite E. now left.
Qed.

Lemma applies_eq s otn oimpls c :
  sch_names_unique s -> ex_get_object s otn = Some oimpls ->
  ex_type_applies s otn oimpls c = rf_applies s otn (Some c).
Proof.
  intros Hu Hg. unfold ex_type_applies, rf_applies, rf_possible_types.
  destruct (sch_get_type s c) as [t|]; [|reflexivity].
  destruct t as [| | | desc nm dirs members b | |]; try reflexivity.
  - cbn [existsb]. rewrite orb_false_r. apply streq_sym.
  - symmetry. now apply possible_interface.
  - rewrite <- existsb_map_cval. induction members as [|m r IH]; cbn [existsb]; [reflexivity|].
    rewrite IH. f_equal. apply streq_sym.
Qed.

(* ---------------------------------------------------------------- flatten = collect *)
Definition push_all (fields : list rsel) (g : egroups) : egroups :=
  fold_left (fun g f => ex_group_push (rs_key f) f g) fields g.

Lemma push_all_app a b g : push_all (a ++ b) g = push_all b (push_all a g).
Proof. unfold push_all. apply fold_left_app. Qed.

Section Flatten.
Variable cx : ectx.
Variables (otn : str) (oimpls : list str).
Hypothesis Happ : forall c, ex_type_applies (ex_schema cx) otn oimpls c = rf_applies (ex_schema cx) otn (Some c).

Lemma collect_flatten : forall fuel2 fuel1 l v g v1 g1 fields v2,
  ex_collect fuel1 cx otn oimpls l v g = Some (v1, g1) ->
  rf_flatten fuel2 (ex_schema cx) (ex_frags cx) (ex_vars cx) otn l v = Some (fields, v2) ->
  v2 = v1 /\ g1 = push_all fields g.
Proof.
  induction fuel2 as [|fuel2 IH]; intros fuel1 l v g v1 g1 fields v2 Hm Hr; [discriminate|].
  destruct fuel1 as [|fuel1]; [discriminate|]. cbn [ex_collect] in Hm. cbn [rf_flatten] in Hr.
  destruct l as [|x r]; cbn [ex_collect_sels] in Hm.
  - injection Hm as <- <-. injection Hr as <- <-. now split.
  - (* what both sides do with the rest of the list *)
    assert (Hcont : forall here va ga,
              ex_collect_sels (ex_collect fuel1 cx otn oimpls) cx otn oimpls r va ga = Some (v1, g1) ->
              match rf_flatten fuel2 (ex_schema cx) (ex_frags cx) (ex_vars cx) otn r va with
              | Some (more, visited) => Some (here ++ more, visited)
              | None => None
              end = Some (fields, v2) ->
              v2 = v1 /\ exists more, fields = here ++ more /\ g1 = push_all more ga).
    { intros here va ga Hm' Hr'.
      destruct (rf_flatten fuel2 (ex_schema cx) (ex_frags cx) (ex_vars cx) otn r va) as [[more v']|] eqn:Er; [|discriminate].
      injection Hr' as <- <-.
      destruct (IH (S fuel1) r va ga v1 g1 more v' Hm' Er) as [-> ->]. split; [reflexivity|]. now exists more. }
    rewrite <- skipped_eq in Hr.
    destruct (ex_skipped x (ex_vars cx)).
    { destruct (Hcont [] v g Hm Hr) as [-> (more & -> & ->)]. now split. }
    destruct x as [a n args dirs t sub|name dirs|cond dirs sub].
    + destruct (Hcont _ _ _ Hm Hr) as [-> (more & -> & ->)]. split; [reflexivity|]. reflexivity.
    + destruct (existsb (streq name) v).
      { destruct (Hcont [] v g Hm Hr) as [-> (more & -> & ->)]. now split. }
      rewrite find_frag_filter in Hm.
      destruct (filter (fun f => streq (rfr_name f) name) (ex_frags cx)) as [|fr frs].
      { destruct (Hcont [] _ g Hm Hr) as [-> (more & -> & ->)]. now split. }
      rewrite Happ in Hm. destruct (rf_applies (ex_schema cx) otn (Some (rfr_cond fr))).
      * destruct (ex_collect fuel1 cx otn oimpls (rfr_sels fr) (name :: v) g) as [[va ga]|] eqn:Em; [|discriminate].
        destruct (rf_flatten fuel2 (ex_schema cx) (ex_frags cx) (ex_vars cx) otn (rfr_sels fr) (name :: v)) as [[here vb]|] eqn:Er;
          [|discriminate].
        destruct (IH fuel1 _ _ _ _ _ _ _ Em Er) as [-> ->].
        destruct (Hcont _ _ _ Hm Hr) as [-> (more & -> & ->)]. split; [reflexivity|]. now rewrite push_all_app.
      * destruct (Hcont [] _ g Hm Hr) as [-> (more & -> & ->)]. now split.
    + assert (Ha : match cond with Some c => ex_type_applies (ex_schema cx) otn oimpls c | None => true end
                   = rf_applies (ex_schema cx) otn cond) by (destruct cond; [apply Happ|reflexivity]).
      rewrite Ha in Hm. destruct (rf_applies (ex_schema cx) otn cond).
      * destruct (ex_collect fuel1 cx otn oimpls sub v g) as [[va ga]|] eqn:Em; [|discriminate].
        destruct (rf_flatten fuel2 (ex_schema cx) (ex_frags cx) (ex_vars cx) otn sub v) as [[here vb]|] eqn:Er; [|discriminate].
        destruct (IH fuel1 _ _ _ _ _ _ _ Em Er) as [-> ->].
        destruct (Hcont _ _ _ Hm Hr) as [-> (more & -> & ->)]. split; [reflexivity|]. now rewrite push_all_app.
      * destruct (Hcont [] _ g Hm Hr) as [-> (more & -> & ->)]. now split.
Qed.

End Flatten.

(* ---------------------------------------------------------------- group by response key *)
Definition rgroups := list (str * list rsel).

Definition to_ref (g : egroups) : rgroups := map (fun e => (fst e, fst (snd e) :: snd (snd e))) g.

Fixpoint rpush (k : str) (f : rsel) (g : rgroups) : rgroups :=
  match g with
  | [] => [(k, [f])]
  | (k', fs) :: r => if streq k k' then (k', fs ++ [f]) :: r else (k', fs) :: rpush k f r
  end.

Lemma to_ref_push k f g : to_ref (ex_group_push k f g) = rpush k f (to_ref g).
Proof.
  induction g as [|[k' [f0 rest]] r IH]; cbn [ex_group_push to_ref map rpush fst snd]; [reflexivity|].
  destruct (streq k k'); cbn [map fst snd]; [reflexivity|]. f_equal. exact IH.
Qed.

Lemma dedup_snoc k : forall l seen,
  rf_dedup seen (l ++ [k]) =
  rf_dedup seen l ++ (if existsb (streq k) seen || existsb (streq k) l then [] else [k]).
Proof.
  induction l as [|a l IH]; intros seen; cbn [app rf_dedup existsb].
  - rewrite orb_false_r. destruct (existsb (streq k) seen); reflexivity.
  - destruct (existsb (streq a) seen) eqn:Ea.
    + rewrite IH. f_equal. destruct (streq k a) eqn:Eka; [|reflexivity].
      apply streq_eq in Eka. subst a. rewrite Ea. reflexivity.
    + cbn [app]. f_equal. rewrite IH. cbn [existsb]. f_equal.
      destruct (streq k a), (existsb (streq k) seen), (existsb (streq k) l); reflexivity.
Qed.

Lemma dedup_spec : forall l seen,
  NoDup (rf_dedup seen l) /\ (forall k, In k (rf_dedup seen l) <-> In k l /\ ~ In k seen).
Proof.
  induction l as [|a l IH]; intros seen; cbn [rf_dedup].
  - split; [constructor|]. intros k. split; [contradiction|intros [[] _]].
  - destruct (existsb (streq a) seen) eqn:Ea.
    + destruct (IH seen) as [Hn Hi]. split; [exact Hn|]. intros k. rewrite Hi. split.
      * intros [H1 H2]. split; [now right|assumption].
      * intros [[<-|H1] H2]; [exfalso; apply H2; now apply existsb_streq|now split].
    + destruct (IH (a :: seen)) as [Hn Hi]. split.
      * constructor; [|exact Hn]. rewrite Hi. intros [_ H]. apply H. now left.
      * intros k. cbn [In]. rewrite Hi. cbn [In]. split.
        -- intros [<-|[H1 H2]].
           ++ split; [now left|]. intros H. apply existsb_streq in H. congruence.
           ++ split; [now right|]. intros H. apply H2. now right.
        -- intros [[<-|H1] H2]; [now left|].
           destruct (streq a k) eqn:E; [apply streq_eq in E; now left|]. right. split; [assumption|].
           intros [->|H]; [rewrite streq_refl in E; discriminate|contradiction].
Qed.

Lemma rpush_map (F : str -> list rsel) k f : forall ks, NoDup ks ->
  rpush k f (map (fun k' => (k', F k')) ks) =
  map (fun k' => (k', F k' ++ (if streq k k' then [f] else []))) ks ++ (if existsb (streq k) ks then [] else [(k, [f])]).
Proof.
  induction ks as [|k' ks IH]; intros Hn; cbn [map rpush existsb app]; [reflexivity|].
  inversion Hn as [|? ? Hk Hn']; subst. destruct (streq k k') eqn:E; cbn [orb app].
  - apply streq_eq in E. subst k'. rewrite app_nil_r. f_equal.
    apply map_ext_in. intros k2 Hk2. f_equal.
    destruct (streq k k2) eqn:E2; [apply streq_eq in E2; subst; contradiction|now rewrite app_nil_r].
  - rewrite app_nil_r. f_equal. now apply IH.
Qed.

Lemma group_snoc fields f :
  rf_group (fields ++ [f]) = rpush (rs_key f) f (rf_group fields).
Proof.
  unfold rf_group. rewrite map_app. cbn [map]. rewrite dedup_snoc. cbn [existsb orb].
  destruct (dedup_spec (map rs_key fields) []) as [Hn Hi].
  rewrite rpush_map by exact Hn. rewrite map_app.
  assert (Hex : existsb (streq (rs_key f)) (rf_dedup [] (map rs_key fields)) = existsb (streq (rs_key f)) (map rs_key fields)).
  { apply eq_true_iff_eq. rewrite !existsb_streq, Hi. split; [now intros [H _]|intros H; split; [assumption|intros []]]. }
  rewrite Hex. f_equal.
  - apply map_ext. intros k. f_equal. rewrite filter_app. cbn [filter]. rewrite (streq_sym (rs_key f) k).
    destruct (streq k (rs_key f)); reflexivity.
  - destruct (existsb (streq (rs_key f)) (map rs_key fields)) eqn:E; [reflexivity|]. cbn [map]. f_equal. f_equal.
    rewrite filter_app. cbn [filter]. rewrite streq_refl.
    assert (Hnil : filter (fun f0 => streq (rs_key f0) (rs_key f)) fields = []).
    { clear - E. induction fields as [|g r IH]; [reflexivity|]. cbn [map existsb] in E. apply orb_false_iff in E. destruct E as [E1 E2].
      cbn [filter]. rewrite streq_sym, E1. now apply IH. }
    now rewrite Hnil.
Qed.

Lemma group_eq fields : to_ref (push_all fields []) = rf_group fields.
Proof.
  induction fields as [|f r IH] using rev_ind; [reflexivity|].
  rewrite push_all_app. cbn [push_all fold_left]. rewrite to_ref_push. fold (push_all r []). rewrite IH.
  symmetry. apply group_snoc.
Qed.

(* collect_fields of the model = flatten-then-group of the reference *)
Lemma collect_eq_reference cx otn oimpls fuel1 fuel2 sels v1 groups fields v2 :
  (forall c, ex_type_applies (ex_schema cx) otn oimpls c = rf_applies (ex_schema cx) otn (Some c)) ->
  ex_collect fuel1 cx otn oimpls sels [] [] = Some (v1, groups) ->
  rf_flatten fuel2 (ex_schema cx) (ex_frags cx) (ex_vars cx) otn sels [] = Some (fields, v2) ->
  v2 = v1 /\ to_ref groups = rf_group fields.
Proof.
  intros Happ Hm Hr. destruct (collect_flatten cx otn oimpls Happ _ _ _ _ _ _ _ _ _ Hm Hr) as [-> ->].
  split; [reflexivity|apply group_eq].
Qed.

(* ---------------------------------------------------------------- leaf completion *)
Lemma leaf_eq s n tdef j : sch_get_type s n = Some tdef -> j <> JNull ->
  match tdef with EScalar _ _ _ _ | EEnum _ _ _ _ _ => True | _ => False end ->
  ex_leaf n tdef j = if rf_leaf_ok s n j then None else Some EcLeaf.
Proof.
  intros Hg Hj Hk. unfold rf_leaf_ok. rewrite Hg. destruct tdef; try contradiction; cbn [ex_leaf].
  - destruct (streq n rn_Int).
    { unfold json_as_i64, j_fits_i32. destruct j; try reflexivity.
      destruct (z <? j_two63)%Z eqn:E1.
      - reflexivity.
      - destruct ((- j_two31 <=? z) && (z <? j_two31))%Z eqn:E2; [|reflexivity]. exfalso. unfold j_two63, j_two31 in *. lia. }
    destruct (streq n rn_Float); [destruct j; reflexivity|].
    destruct (streq n rn_String); [destruct j; reflexivity|].
    destruct (streq n rn_Boolean); [destruct j; reflexivity|].
    destruct (streq n rn_ID); [|reflexivity].
    unfold json_is_i64, json_as_i64. destruct j; try reflexivity. cbn [json_is_string orb]. destruct (z <? j_two63)%Z; reflexivity.
  - destruct j; reflexivity.
Qed.

(* the concrete object type of a resolved object *)
Lemma object_type_eq s n tdef tname : sch_names_unique s -> sch_get_type s n = Some tdef ->
  match tdef with EObject _ _ _ _ _ _ | EInterface _ _ _ _ _ _ | EUnion _ _ _ _ _ => True | _ => False end ->
  match ex_object_type s n tdef tname with
  | inl (otn, oimpls) =>
      rf_is_object s tname && existsb (streq tname) (rf_possible_types s n) = true /\
      otn = tname /\ ex_get_object s tname = Some oimpls /\ ex_type_applies s otn oimpls n = true
  | inr c => rf_is_object s tname && existsb (streq tname) (rf_possible_types s n) = false /\ c = EcType
  end.
Proof.
  intros Hu Hg Hk. pose proof (find_type_name _ _ _ Hg) as Hname.
  unfold rf_is_object, rf_possible_types, ex_type_applies. rewrite Hg.
  destruct tdef as [| desc nm impls dirs fs b | desc nm impls dirs fs b | desc nm dirs members b | |]; try contradiction;
    cbn [ex_object_type et_name] in *.
  - (* object *)
    destruct (streq tname n) eqn:E.
    + apply streq_eq in E. subst tname. rewrite Hg. cbn [existsb]. rewrite streq_refl.
      repeat split; try reflexivity. unfold ex_get_object. now rewrite Hg.
    + cbn [existsb]. rewrite E. cbn [orb]. rewrite andb_false_r. now split.
  - (* interface *)
    destruct (ex_get_object s tname) as [oimpls|] eqn:Eo.
    + destruct (get_object_inv _ _ _ Eo) as (d2 & i2 & dr2 & fs2 & b2 & Ht & ->). rewrite Ht.
      rewrite (possible_interface s tname (map c_val i2) n Hu Eo). cbn [andb].
      destruct (existsb (streq n) (map c_val i2)) eqn:E; [|now split]. repeat split; reflexivity || assumption.
    + split; [|reflexivity]. unfold ex_get_object in Eo. destruct (sch_get_type s tname) as [t|]; [|reflexivity].
      destruct t; try reflexivity. discriminate.
  - (* union *)
    destruct (ex_get_object s tname) as [oimpls|] eqn:Eo.
    + destruct (get_object_inv _ _ _ Eo) as (d2 & i2 & dr2 & fs2 & b2 & Ht & ->). rewrite Ht. cbn [andb].
      rewrite existsb_members. destruct (existsb (fun m => streq (c_val m) tname) members) eqn:E; [|now split].
      repeat split; reflexivity || assumption.
    + split; [|reflexivity]. unfold ex_get_object in Eo. destruct (sch_get_type s tname) as [t|]; [|reflexivity].
      destruct t; try reflexivity. discriminate.
Qed.
