(* C26: witnesses and property-level statements; Props/C26.v only restates them. *)
From Coq Require Import ZArith String.
From ApolloVerif Require Import Base.Chars Ast.Ast Schema.Model Run.Json Run.Coerce Run.TypedDoc Run.Prog
  Run.Execute Run.ExecTop Run.RefExecute Run.ExecKnown.
Local Open Scope string_scope.
Local Open Scope list_scope.

Definition xs (x : string) : str := str_of_string x.
Definition x_scalar (n : string) : ext_type := EScalar None (xs n) [] true.
Definition x_fd (n : string) (t : ty) : comp fielddef :=
  mkcomp ODef {| fd_desc := None; fd_name := xs n; fd_args := []; fd_ty := t; fd_dirs := [] |}.
Definition x_sdef : schema_def :=
  {| sd_desc := None; sd_dirs := []; sd_query := Some (mkcomp ODef (xs "Query")); sd_mutation := None;
     sd_subscription := None |}.

(* interface I { f: Int }  type T implements I { f: Int! }  type Query { i: I } *)
Definition x_cov_schema : schema :=
  {| sch_def := x_sdef; sch_dirdefs := [];
     sch_types := [x_scalar "Int"; x_scalar "String";
                   EInterface None (xs "I") [] [] [x_fd "f" (TNamed (xs "Int"))] false;
                   EObject None (xs "T") [mkcomp ODef (xs "I")] [] [x_fd "f" (TNonNullNamed (xs "Int"))] false;
                   EObject None (xs "Query") [] [] [x_fd "i" (TNamed (xs "I"))] false] |}.
(* { i { f } } *)
Definition x_cov_doc : document :=
  [DOperation OpQuery None [] [] [SField None (xs "i") [] [] [SField None (xs "f") [] [] []]]].
(* the root's `i` is an object of type T whose `f` resolves to null *)
Definition x_cov_world : world :=
  [((0%N, xs "i"), BhObject 1%N (xs "T")); ((1%N, xs "f"), BhLeaf JNull)].

(* the code answers {"i": {"f": null}} without error although T.f is Int!; the specification's answer is
   {"i": null} with a field error at ["i", "f"] *)
Lemma c26_covariant_refuted :
  (exists d, td_build x_cov_schema x_cov_doc = Some d /\ known_covariant x_cov_schema d = true) /\
  fst (execute_request x_cov_schema x_cov_doc [] x_cov_world) =
    EoResponse {| er_data := Some [(xs "i", JObj [(xs "f", JNull)])]; er_errors := [] |} /\
  ref_execute x_cov_schema x_cov_doc [] x_cov_world =
    EoResponse {| er_data := Some [(xs "i", JNull)];
                  er_errors := [{| ge_class := EcNull; ge_path := [PsKey (xs "i"); PsKey (xs "f")] |}] |}.
Proof.
  split; [|split].
  - eexists. split; vm_compute; reflexivity.
  - vm_compute. reflexivity.
  - vm_compute. reflexivity.
Qed.
