(* C26: witnesses and property-level statements; Props/C26.v only restates them. *)
From Coq Require Import ZArith String.
From ApolloVerif Require Import Base.Chars Ast.Ast Schema.Model Run.Json Run.Coerce Run.TypedDoc Run.Prog
  Run.Execute Run.ExecTop Run.RefExecute Run.ExecProofs Run.ExecPaths Run.ExecRefDefs.
Local Open Scope string_scope.
Local Open Scope list_scope.

Definition xs (x : string) : str := str_of_string x.
Definition x_scalar (n : string) : ext_type := EScalar None (xs n) [] true.
Definition x_fd (n : string) (t : ty) : comp fielddef :=
  mkcomp ODef {| fd_desc := None; fd_name := xs n; fd_args := []; fd_ty := t; fd_dirs := [] |}.
Definition x_sdef : schema_def :=
  {| sd_desc := None; sd_dirs := []; sd_query := Some (mkcomp ODef (xs "Query")); sd_mutation := None;
     sd_subscription := None |}.

(* interface I { f: Int }  type T implements I { f: Int! }  type Query { i: I } *)
Definition x_cov_schema : schema :=
  {| sch_def := x_sdef; sch_dirdefs := [];
     sch_types := [x_scalar "Int"; x_scalar "String";
                   EInterface None (xs "I") [] [] [x_fd "f" (TNamed (xs "Int"))] false;
                   EObject None (xs "T") [mkcomp ODef (xs "I")] [] [x_fd "f" (TNonNullNamed (xs "Int"))] false;
                   EObject None (xs "Query") [] [] [x_fd "i" (TNamed (xs "I"))] false] |}.
(* { i { f } } *)
Definition x_cov_doc : document :=
  [DOperation OpQuery None [] [] [SField None (xs "i") [] [] [SField None (xs "f") [] [] []]]].
(* the root's `i` is an object of type T whose `f` resolves to null *)
Definition x_cov_world : world :=
  [((0%N, xs "i"), BhObject 1%N (xs "T")); ((1%N, xs "f"), BhLeaf JNull)].

(* before the repair of execute_field (the value was completed against `field.ty()`, the interface's `Int`) the code
   answered {"i": {"f": null}} without error although T.f is Int!; now the value is completed against T.f's type and
   the answer is the specification's: {"i": null} with a field error at ["i", "f"] *)
Lemma c26_covariant_repaired :
  (exists d, td_build x_cov_schema x_cov_doc = Some d) /\ sch_exec_wf x_cov_schema = true /\
  fst (execute_request x_cov_schema x_cov_doc [] x_cov_world) =
    EoResponse {| er_data := Some [(xs "i", JNull)];
                  er_errors := [{| ge_class := EcNull; ge_path := [PsKey (xs "i"); PsKey (xs "f")] |}] |} /\
  ref_execute x_cov_schema x_cov_doc [] x_cov_world = fst (execute_request x_cov_schema x_cov_doc [] x_cov_world).
Proof.
  split; [|split; [|split]].
  - eexists. vm_compute. reflexivity.
  - vm_compute. reflexivity.
  - vm_compute. reflexivity.
  - vm_compute. reflexivity.
Qed.

(* ---------------------------------------------------------------- the shape of the response *)
(* for every request that gets a response (valid document, variables coerce, fuel not exhausted), under ANY
   resolver world:
   - the data, when present, is shaped by the operation's selection set on the root type: exactly the collected
     response keys in order (minus undefined / resolver-skipped fields), lists nested as the selections' field
     types on the concrete object types say, leaves accepted by result coercion, and null only where the field's
     type on the object type is nullable;
   - if the data is null, at least one field error is reported. *)
Lemma c26_nonnull : forall s doc values w d vars root impls r log,
  execute_prepare s doc values = EpReady d vars root impls ->
  execute_request s doc values w = (EoResponse r, log) ->
  (forall m, er_data r = Some m -> shape_obj (ex_cx_for s d vars) root impls (rd_sels d) m) /\
  (er_data r = None -> er_errors r <> []).
Proof.
  intros s doc values w d vars root impls r log Hp H. unfold execute_request in H. rewrite Hp in H.
  destruct (run_sync w (execute_prog s d vars root impls) []) as [[res st] lg] eqn:E.
  injection H as H _. unfold execute_prog in E.
  destruct (inv_all w (ex_cx_for s d vars) (ex_fuel_for s d)) as (Hs & _).
  destruct (Hs _ _ _ _ _ _ _ _ _ _ E) as [(new & -> & _ & Hn) Hm]. rewrite app_nil_r in H.
  destruct res as [m| |]; cbn [ex_outcome] in H; try discriminate; injection H as <-; cbn [er_data er_errors].
  - split; [|discriminate]. intros m' [= <-]. now apply Hm.
  - split; [discriminate|]. intros _ Hr. apply (Hn eq_refl).
    destruct new; [reflexivity|]. cbn [rev] in Hr. now apply app_eq_nil in Hr as [_ Hr].
Qed.

(* every field error carries the path of its position: following an error's path in the data reaches a null, at
   the error's position or at an enclosing position to which the null propagated (if the data is null, the
   root).  For worlds without SkipForPartialExecution. *)
Lemma prepare_stop_not_response s doc values o r :
  execute_prepare s doc values = EpStop o -> o <> EoResponse r.
Proof.
  unfold execute_prepare. destruct (td_build s doc); [|intros [= <-]; discriminate].
  destruct (td_root_type s (rd_optype r0)); [|intros [= <-]; discriminate].
  destruct (ex_get_object s s0); [|intros [= <-]; discriminate].
  destruct (coerce_variable_values s (rd_vars r0) values); intros [= <-]; discriminate.
Qed.

Lemma c26_error_paths : forall s doc values w r log,
  world_skipfree w = true ->
  execute_request s doc values w = (EoResponse r, log) ->
  forall e, In e (er_errors r) ->
    match er_data r with
    | Some m => null_along (JObj m) (ge_path e)
    | None => True
    end.
Proof.
  intros s doc values w r log Hw H e He. unfold execute_request in H.
  destruct (execute_prepare s doc values) as [d vars root impls|o] eqn:Ep0;
    [|injection H as -> _; exfalso; now apply (prepare_stop_not_response _ _ _ _ r Ep0)].
  destruct (run_sync w (execute_prog s d vars root impls) []) as [[res st] lg] eqn:E.
  injection H as H _. unfold execute_prog in E.
  destruct (q_all w (ex_cx_for s d vars) Hw (ex_fuel_for s d)) as (Hs & _).
  destruct (Hs _ _ _ _ _ _ _ _ _ _ E) as (new & -> & F). rewrite app_nil_r in H.
  destruct res as [m| |]; cbn [ex_outcome] in H; try discriminate; injection H as <-;
    cbn [er_data er_errors] in He |- *; [|exact I].
  apply in_rev in He. rewrite Forall_forall in F. destruct (F e He) as (suf & Epth & Hc).
  cbn [rev app] in Epth. rewrite Epth. now apply Hc.
Qed.

(* non-vacuity: a request with nested selections, an error and a nullified field *)
Definition x_nv_schema : schema :=
  {| sch_def := x_sdef; sch_dirdefs := [];
     sch_types := [x_scalar "Int"; x_scalar "String";
                   EObject None (xs "A") [] [] [x_fd "n" (TNonNullNamed (xs "Int")); x_fd "l" (TList (TNonNullNamed (xs "Int")))] false;
                   EObject None (xs "Query") [] [] [x_fd "a" (TNamed (xs "A")); x_fd "b" (TNamed (xs "A"))] false] |}.
(* { a { n l } b { n } __typename } *)
Definition x_nv_doc : document :=
  [DOperation OpQuery None [] []
     [SField None (xs "a") [] [] [SField None (xs "n") [] [] []; SField None (xs "l") [] [] []];
      SField None (xs "b") [] [] [SField None (xs "n") [] [] []];
      SField None (xs "__typename") [] [] []]].
Definition x_nv_world : world :=
  [((0%N, xs "a"), BhObject 1%N (xs "A")); ((0%N, xs "b"), BhObject 2%N (xs "A"));
   ((1%N, xs "n"), BhLeaf (JInt 1)); ((1%N, xs "l"), BhList [BhLeaf (JInt 2); BhLeaf JNull]);
   ((2%N, xs "n"), BhLeaf (JStr (xs "x")))].

Lemma c26_nonvacuous :
  (exists d vars root impls, execute_prepare x_nv_schema x_nv_doc [] = EpReady d vars root impls) /\
  fst (execute_request x_nv_schema x_nv_doc [] x_nv_world) =
    EoResponse {| er_data := Some [(xs "a", JObj [(xs "n", JInt 1); (xs "l", JNull)]); (xs "b", JNull);
                                   (xs "__typename", JStr (xs "Query"))];
                  er_errors := [{| ge_class := EcNull; ge_path := [PsKey (xs "a"); PsKey (xs "l"); PsIdx 1%N] |};
                                {| ge_class := EcLeaf; ge_path := [PsKey (xs "b"); PsKey (xs "n")] |}] |} /\
  ref_execute x_nv_schema x_nv_doc [] x_nv_world = fst (execute_request x_nv_schema x_nv_doc [] x_nv_world) /\
  world_skipfree x_nv_world = true.
Proof.
  split; [|split; [|split]].
  - vm_compute. repeat eexists.
  - vm_compute. reflexivity.
  - vm_compute. reflexivity.
  - reflexivity.
Qed.

(* ---------------------------------------------------------------- variables inside custom scalar literals *)
(* scalar Any  type Query { any(j: Any): Any } ; query($v: Int) { any(j: {a: $v}) } with {"v": 3}:
   before the repair of coerce_argument_value the (valid) document's field failed with a SuspectedValidationBug error
   and the resolver was never called; now the variable is substituted and the resolver receives {"j": {"a": 3}} *)
Definition x_nv2_schema : schema :=
  {| sch_def := x_sdef; sch_dirdefs := [];
     sch_types := [x_scalar "Int"; x_scalar "String"; EScalar None (xs "Any") [] false;
                   EObject None (xs "Query") [] []
                     [mkcomp ODef {| fd_desc := None; fd_name := xs "any";
                                     fd_args := [{| iv_desc := None; iv_name := xs "j"; iv_ty := TNamed (xs "Any");
                                                    iv_default := None; iv_dirs := [] |}];
                                     fd_ty := TNamed (xs "Any"); fd_dirs := [] |}] false] |}.
Definition x_nv2_doc : document :=
  [DOperation OpQuery None
     [{| v_name := xs "v"; v_ty := TNamed (xs "Int"); v_default := None; v_dirs := [] |}] []
     [SField None (xs "any") [(xs "j", VObject [(xs "a", VVar (xs "v"))])] [] []]].

Lemma c26_nested_variable_repaired :
  (exists d, td_build x_nv2_schema x_nv2_doc = Some d) /\
  execute_request x_nv2_schema x_nv2_doc [(xs "v", JInt 3)] [((0%N, xs "any"), BhEcho)] =
    (EoResponse {| er_data := Some [(xs "any", JObj [(xs "j", JObj [(xs "a", JInt 3)])])]; er_errors := [] |},
     [{| ec_obj := 0%N; ec_field := xs "any"; ec_args := [(xs "j", JObj [(xs "a", JInt 3)])] |}]) /\
  ref_execute x_nv2_schema x_nv2_doc [(xs "v", JInt 3)] [((0%N, xs "any"), BhEcho)] =
    fst (execute_request x_nv2_schema x_nv2_doc [(xs "v", JInt 3)] [((0%N, xs "any"), BhEcho)]).
Proof. split; [eexists; vm_compute; reflexivity|split; vm_compute; reflexivity]. Qed.
