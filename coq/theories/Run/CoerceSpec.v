(* The specification side of C28, written from the GraphQL specification (October 2021) and not from the
   code: CoerceVariableValues (6.1.2) and the "Input Coercion" paragraphs of section 3 (scalars 3.5.x, enums
   3.9, input objects 3.10, lists 3.11, non-null 3.12), with the scalar rules the property documents:
     Int     : an integer within 32 bits;
     Float   : any finite float, or an integer that a double represents safely (|z| <= 2^53 - 1);
     String  : a string (no coercion of numbers);  Boolean : a boolean;
     ID      : a string or an integer;             custom scalars : any non-null value, unchanged;
   no coercion of strings to numbers.
   The relations are declarative and order-free (a coerced input object is described pointwise by key, not
   built by a loop).  The only definitions shared with the model of the code are the JSON data type, map
   lookup (jmap_get) and the conversion of a default-value literal to JSON data (cv_lit_to_json): a default value
   is "used" by coercing that JSON value according to the declared type. *)
From Coq Require Import ZArith.
From ApolloVerif Require Import Base.Chars Ast.Ast Schema.Model Run.Json Run.Coerce.

Definition sp_named (t : ty) : option str :=
  match t with TNamed n | TNonNullNamed n => Some n | _ => None end.
Definition sp_list_inner (t : ty) : option ty :=
  match t with TList i | TNonNullList i => Some i | _ => None end.

Definition sp_builtin_scalar (n : str) : Prop :=
  n = rn_Int \/ n = rn_Float \/ n = rn_String \/ n = rn_Boolean \/ n = rn_ID.

(* scalar input coercion: the value is accepted (and left unchanged) *)
Definition SpecScalar (n : str) (v : json) : Prop :=
  (n = rn_Int /\ exists z, v = JInt z /\ (- j_two31 <= z < j_two31)%Z) \/
  (n = rn_Float /\ ((exists t, v = JFloat t) \/ (exists z, v = JInt z /\ (Z.abs z <= j_max_safe_int)%Z))) \/
  (n = rn_String /\ exists x, v = JStr x) \/
  (n = rn_Boolean /\ exists b, v = JBool b) \/
  (n = rn_ID /\ ((exists x, v = JStr x) \/ (exists z, v = JInt z))) \/
  (~ sp_builtin_scalar n).

Definition sp_input_fields (fs : list (comp inputvaldef)) : list inputvaldef := List.map c_val fs.
Definition sp_enum_values (vs : list (comp enumvaldef)) : list str :=
  List.map (fun c => ev_value (c_val c)) vs.

(* SpecVal s t v r : input coercion of the JSON value v at declared type t succeeds with result r *)
Inductive SpecVal (s : schema) : ty -> json -> json -> Prop :=
| SVNull t :
    is_non_null t = false -> SpecVal s t JNull JNull
| SVList t inner vs rs :
    sp_list_inner t = Some inner ->
    Forall2 (SpecVal s inner) vs rs ->
    SpecVal s t (JArr vs) (JArr rs)
| SVSingle t inner v r :
    (* a value that is neither null nor a list, at a list type: a list of size one *)
    sp_list_inner t = Some inner ->
    v <> JNull -> (forall l, v <> JArr l) ->
    SpecVal s inner v r ->
    SpecVal s t v (JArr [r])
| SVScalar t n d n' dirs b v :
    sp_named t = Some n -> sch_get_type s n = Some (EScalar d n' dirs b) ->
    v <> JNull -> SpecScalar n v ->
    SpecVal s t v v
| SVEnum t n d n' dirs vals b x :
    sp_named t = Some n -> sch_get_type s n = Some (EEnum d n' dirs vals b) ->
    In x (sp_enum_values vals) ->
    SpecVal s t (JStr x) (JStr x)
| SVInput t n d n' dirs fs b obj res :
    sp_named t = Some n -> sch_get_type s n = Some (EInput d n' dirs fs b) ->
    (* unknown fields are rejected; the result has no other keys than fields *)
    (forall k, In k (jmap_keys obj) -> exists f, In f (sp_input_fields fs) /\ iv_name f = k) ->
    (forall k, In k (jmap_keys res) -> exists f, In f (sp_input_fields fs) /\ iv_name f = k) ->
    (* a provided field is coerced at the field's type (an explicit null stays null if the type allows) *)
    (forall f fv, In f (sp_input_fields fs) -> jmap_get (iv_name f) obj = Some fv ->
        exists rv, jmap_get (iv_name f) res = Some rv /\ SpecVal s (iv_ty f) fv rv) ->
    (* an absent field with a default value gets the (coerced) default *)
    (forall f dv, In f (sp_input_fields fs) -> jmap_get (iv_name f) obj = None -> iv_default f = Some dv ->
        exists j rv, cv_lit_to_json dv = CvOk j /\ SpecVal s (iv_ty f) j rv /\
                     jmap_get (iv_name f) res = Some rv) ->
    (* an absent field without default: an error if required, else no entry *)
    (forall f, In f (sp_input_fields fs) -> jmap_get (iv_name f) obj = None -> iv_default f = None ->
        is_non_null (iv_ty f) = false /\ jmap_get (iv_name f) res = None) ->
    SpecVal s t (JObj obj) (JObj res).

(* CoerceVariableValues(schema, operation, variableValues) = coercedValues *)
Definition SpecVars (s : schema) (vars : list vardef) (values : jmap) (r : jmap) : Prop :=
  (forall k, In k (jmap_keys r) -> exists vd, In vd vars /\ v_name vd = k) /\
  (forall vd, In vd vars ->
     (* hasValue: coerce it (null only for a nullable type) *)
     (forall value, jmap_get (v_name vd) values = Some value ->
        exists rv, jmap_get (v_name vd) r = Some rv /\ SpecVal s (v_ty vd) value rv) /\
     (* no value, default value: the (coerced) default *)
     (forall dv, jmap_get (v_name vd) values = None -> v_default vd = Some dv ->
        exists j rv, cv_lit_to_json dv = CvOk j /\ SpecVal s (v_ty vd) j rv /\
                     jmap_get (v_name vd) r = Some rv) /\
     (* no value, no default: an error if non-null, else no entry *)
     (jmap_get (v_name vd) values = None -> v_default vd = None ->
        is_non_null (v_ty vd) = false /\ jmap_get (v_name vd) r = None)).

(* ---- "conforms to its declared type", as a checker (structural on the JSON value) ---- *)
Definition sp_scalar_okb (n : str) (v : json) : bool :=
  if streq n rn_Int then match v with JInt z => ((- j_two31 <=? z) && (z <? j_two31))%Z | _ => false end
  else if streq n rn_Float then
    match v with JFloat _ => true | JInt z => (Z.abs z <=? j_max_safe_int)%Z | _ => false end
  else if streq n rn_String then json_is_string v
  else if streq n rn_Boolean then json_is_boolean v
  else if streq n rn_ID then match v with JStr _ | JInt _ => true | _ => false end
  else true.

Fixpoint conforms_input (s : schema) (v : json) (t : ty) {struct v} : bool :=
  match v with
  | JNull => negb (is_non_null t)
  | _ =>
      match t with
      | TList inner | TNonNullList inner =>
          match v with
          | JArr l => (fix all (l : list json) : bool :=
                         match l with [] => true | x :: r => conforms_input s x inner && all r end) l
          | _ => false        (* a single value must have been wrapped *)
          end
      | TNamed n | TNonNullNamed n =>
          match sch_get_type s n with
          | Some (EScalar _ _ _ _) => sp_scalar_okb n v
          | Some (EEnum _ _ _ vals _) =>
              match v with JStr x => existsb (streq x) (sp_enum_values vals) | _ => false end
          | Some (EInput _ _ _ fs _) =>
              match v with
              | JObj kvs =>
                  j_str_nodup (List.map fst kvs) &&
                  (* no unknown keys, every value conforms to its field's type *)
                  (fix all (l : list (str * json)) : bool :=
                     match l with
                     | [] => true
                     | (k, x) :: r =>
                         match cv_find_field k (sp_input_fields fs) with
                         | Some f => conforms_input s x (iv_ty f)
                         | None => false
                         end && all r
                     end) kvs &&
                  (* defaults filled in, required fields present *)
                  forallb (fun f => jmap_has (iv_name f) kvs ||
                                    (match iv_default f with None => true | Some _ => false end &&
                                     negb (is_non_null (iv_ty f))))
                          (sp_input_fields fs)
              | _ => false
              end
          | _ => false
          end
      end
  end.

(* ---- the known class (decidable) ---- *)
(* D17: a default value is used as converted to JSON, without being coerced: the code differs from the
   specification exactly when some default is not already in coerced form *)
Definition cv_default_coerced (s : schema) (t : ty) (d : option value) : bool :=
  match d with
  | None => true
  | Some dv => match cv_lit_to_json dv with CvOk j => conforms_input s j t | _ => false end
  end.

Definition cv_schema_defaults_coerced (s : schema) : bool :=
  forallb (fun et =>
    match et with
    | EInput _ _ _ fs _ => forallb (fun f => cv_default_coerced s (iv_ty f) (iv_default f)) (sp_input_fields fs)
    | _ => true
    end) (sch_types s).

Definition known_default_not_coerced (s : schema) (vars : list vardef) : bool :=
  negb (forallb (fun vd => cv_default_coerced s (v_ty vd) (v_default vd)) vars &&
        cv_schema_defaults_coerced s).

(* ---- well-formedness the theorems assume (what Schema validation and ExecutableDocument validation give) ---- *)
Definition cv_schema_wf (s : schema) : bool :=
  forallb (fun et =>
    match et with
    | EInput _ _ _ fs _ => j_str_nodup (List.map iv_name (sp_input_fields fs))
    | _ => true
    end) (sch_types s).

Definition cv_vars_wf (vars : list vardef) : bool := j_str_nodup (List.map v_name vars).
