(* C23 — Schema coordinates parse, print and resolve correctly.
   Property theorems only: each closed by `exact <lemma>`, pinned by Check, followed by Print Assumptions. *)
From ApolloVerif Require Import Base.Chars Ast.Coord Ast.CoordProofs.

Theorem C23_parse_iff : forall s, (exists c, parse_coord s = Some c) <-> CoordShape s.
Proof. exact parse_iff. Qed.
Check C23_parse_iff : forall s, (exists c, parse_coord s = Some c) <-> CoordShape s.
Print Assumptions C23_parse_iff.

Theorem C23_print_parse : forall c, wf_coord c = true -> parse_coord (print_coord c) = Some c.
Proof. exact print_parse. Qed.
Check C23_print_parse : forall c, wf_coord c = true -> parse_coord (print_coord c) = Some c.
Print Assumptions C23_print_parse.

Theorem C23_parse_print : forall s c, parse_coord s = Some c -> print_coord c = s /\ wf_coord c = true.
Proof. exact parse_print. Qed.
Check C23_parse_print : forall s c, parse_coord s = Some c -> print_coord c = s /\ wf_coord c = true.
Print Assumptions C23_parse_print.

Theorem C23_lookup_sound : forall s c x, wf_schema s -> coord_lookup c s = CoordOk x -> HasCoord s c x.
Proof. exact lookup_sound. Qed.
Check C23_lookup_sound : forall s c x, wf_schema s -> coord_lookup c s = CoordOk x -> HasCoord s c x.
Print Assumptions C23_lookup_sound.

Theorem C23_lookup_complete : forall s c x,
  wf_schema s -> nodup_schema s -> HasCoord s c x -> coord_lookup c s = CoordOk x.
Proof. exact lookup_complete. Qed.
Check C23_lookup_complete : forall s c x,
  wf_schema s -> nodup_schema s -> HasCoord s c x -> coord_lookup c s = CoordOk x.
Print Assumptions C23_lookup_complete.

Theorem C23_lookup_err_iff : forall s c, wf_schema s -> nodup_schema s ->
  ((exists e, coord_lookup c s = CoordErr e) <-> (forall x, ~ HasCoord s c x)).
Proof. exact lookup_err_iff. Qed.
Check C23_lookup_err_iff : forall s c, wf_schema s -> nodup_schema s ->
  ((exists e, coord_lookup c s = CoordErr e) <-> (forall x, ~ HasCoord s c x)).
Print Assumptions C23_lookup_err_iff.

(* non-vacuity: a concrete coordinate and a concrete coord_schema meeting the hypotheses *)
Definition ex_T : str := [84]. Definition ex_f : str := [102]. Definition ex_a : str := [97].
Definition ex_schema : coord_schema :=
  {| cs_types := [(ex_T, {| ct_name := ex_T; ct_kind := CKObject;
                           ct_attrs := [(ex_f, {| cf_name := ex_f; cf_args := [ex_a] |})] |})];
     cs_dirs := [] |}.
Example C23_nonvacuous :
  parse_coord (print_coord (CFieldArg ex_T ex_f ex_a)) = Some (CFieldArg ex_T ex_f ex_a) /\
  coord_lookup (CFieldArg ex_T ex_f ex_a) ex_schema = CoordOk (CFArgument ex_a) /\
  wf_schema ex_schema /\ nodup_schema ex_schema.
Proof.
  split; [vm_compute; reflexivity|]. split; [vm_compute; reflexivity|].
  split; unfold wf_schema, nodup_schema, keys_agree; cbn;
    repeat (constructor; cbn; auto); intuition congruence.
Qed.
