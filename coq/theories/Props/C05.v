(* C05 — Syntax acceptance matches the GraphQL grammar.  (theorems follow) *)
From ApolloVerif Require Import Base.Chars Lex.Item Parse.RefGrammar.

Lemma C05_placeholder_partial : rg_document [] = None.
Proof. reflexivity. Qed.
Check C05_placeholder_partial : rg_document [] = None.
Print Assumptions C05_placeholder_partial.
