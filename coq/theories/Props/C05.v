(* C05 — Syntax acceptance matches the GraphQL grammar.
   Property theorems only: each closed by `exact <lemma>`, pinned by Check, followed by Print Assumptions.

   What is proved here is about the REFERENCE the property speaks of ("as judged by a reference parser"):
   the recogniser Parse/RefGrammar.v (rg_document, extracted and run by the tie) accepts exactly the token lists
   derivable in the declarative October 2021 grammar Parse/RefSpec.v + RefSpecTS.v (RgDocument), returns exactly
   the (kind, name) list of that derivation, and never runs out of fuel — for ALL token lists, for the whole
   document grammar (executable definitions, type-system definitions and extensions).

   What is proved about apollo-parser itself (parser model Parse/Grammar.v + Parse/Entry.v on the items of the lexer
   model Lex.Fun.lex_all; link Parse/RefLink*.v), for EVERY source string, every recursion limit, with or without
   debug assertions, and for the WHOLE document grammar (all productions of the executable language, of the type
   system and of its extensions):
     C05_parser_is_relaxed_grammar / C05_relaxed_grammar_is_accepted : the parser reports no error exactly when the
        input has no lexical error and its significant tokens are a Document of the RELAXED grammar
        (Parse/RefLenient.v: the reference recogniser with six switchable relaxations);
     C05_relaxed_strict_is_reference, C05_reference_in_relaxed : with every relaxation off the relaxed grammar IS the
        reference; with any relaxations on it contains the reference (same definition list);
     C05_accept_iff_partial : outside the decidable class rgl_known_document (the relaxed grammar accepts, the reference
        does not) the parser reports no error <-> the reference grammar accepts;
     C05_known_class_is_rootop, C05_parser_is_rootop_grammar : since four of the five leniencies were repaired in /repo
        that class is exactly ONE leniency (`OperationType : NamedType?`, known finding root_operation_without_type);
        the other relaxation left in the parser's grammar (a list value ending at the end of the token list) never
        shows in a whole document (Parse/RefLenientEof.v);
     C05_reference_is_accepted : the parser never reports an error on a document of the grammar (no exception);
     C05_lexical_error_reported : a lexical error is always reported;
     C05_accept_iff_refuted : the remaining known finding is inside the class, with its witness on the model;
     C05_repaired_witnesses : the witnesses of the four repaired findings are now reported by the model.
   `_partial` because (a) the converse directions assume a recursion limit above the number of `{`, `[`, `:` tokens
   (a crude bound on the nesting depth; with a smaller limit the parser may report a recursion-limit error on a
   grammatical document) and no token limit; (b) of C05_definitions_agree (the (kind, name) list of
   cst::Document::definitions() read off the parser's TREE equals the reference's) only the KINDS are proved
   (C05_definition_kinds_agree_partial: the definition nodes directly under the DOCUMENT root of the tree the model
   builds are, in order, of the reference's definition kinds; through a proof about rowan's GreenNodeBuilder as the
   parser drives it, Parse/RefLinkTree.v, RefLinkKinds.v); the NAMES read off the tree are not linked (that needs the
   inner shape of every definition node) and stay with the correspondence run; at the level of the two grammars the
   whole list agrees (C05_definitions_agree_grammar_partial). *)
From ApolloVerif Require Import Base.Chars Lex.Item Lex.Fun Parse.RefGrammar Parse.RefLib Parse.RefSpec
  Parse.RefSpecTS Parse.RefProofsValue Parse.RefProofsExec Parse.RefProofsTS
  Parse.Outcome Parse.Entry Parse.RefLenient Parse.RefLenientProofs Parse.RefLinkBase Parse.RefLinkKinds
  Parse.RefLenientEof Parse.RefLinkTop.

(* ---- fuel = token count suffices ---- *)
Theorem C05_rg_fuel_enough : forall ts, rg_document_r rg_definition ts <> RgOut.
Proof. exact rg_document_fuel. Qed.
Check C05_rg_fuel_enough : forall ts, rg_document_r rg_definition ts <> RgOut.
Print Assumptions C05_rg_fuel_enough.

(* ---- the reference IS the grammar: whole documents ---- *)
Theorem C05_ref_is_grammar : forall ts ds, rg_document ts = Some ds <-> RgDocument ts ds.
Proof. exact rg_document_iff. Qed.
Check C05_ref_is_grammar : forall ts ds, rg_document ts = Some ds <-> RgDocument ts ds.
Print Assumptions C05_ref_is_grammar.

Theorem C05_ref_is_grammar_executable : forall ts ds, rg_exec_document ts = Some ds <-> RgExecDocument ts ds.
Proof. exact rg_exec_document_iff. Qed.
Check C05_ref_is_grammar_executable : forall ts ds, rg_exec_document ts = Some ds <-> RgExecDocument ts ds.
Print Assumptions C05_ref_is_grammar_executable.

(* ---- determinism: a token list has at most one list of definitions in the grammar ---- *)
Theorem C05_grammar_deterministic : forall ts ds1 ds2, RgDocument ts ds1 -> RgDocument ts ds2 -> ds1 = ds2.
Proof. exact rg_grammar_deterministic. Qed.
Check C05_grammar_deterministic : forall ts ds1 ds2, RgDocument ts ds1 -> RgDocument ts ds2 -> ds1 = ds2.
Print Assumptions C05_grammar_deterministic.

(* ---- one definition: soundness and completeness (with the spec's `[lookahead != {]` as the flag o) ---- *)
Theorem C05_ref_sound_definition : forall ts d r, rg_definition ts = RgOk (d, r) ->
  exists o pre, ts = pre ++ r /\ RgDefinition o pre d /\ (o = true -> rg_nh (rg_is TkLCurly) r).
Proof. exact rg_definition_sound. Qed.
Check C05_ref_sound_definition : forall ts d r, rg_definition ts = RgOk (d, r) ->
  exists o pre, ts = pre ++ r /\ RgDefinition o pre d /\ (o = true -> rg_nh (rg_is TkLCurly) r).
Print Assumptions C05_ref_sound_definition.

Theorem C05_ref_complete_definition : forall o pre d r, RgDefinition o pre d ->
  rg_follow_def r -> (o = true -> rg_nh (rg_is TkLCurly) r) -> rg_definition (pre ++ r) = RgOk (d, r).
Proof. exact rg_definition_complete. Qed.
Check C05_ref_complete_definition : forall o pre d r, RgDefinition o pre d ->
  rg_follow_def r -> (o = true -> rg_nh (rg_is TkLCurly) r) -> rg_definition (pre ++ r) = RgOk (d, r).
Print Assumptions C05_ref_complete_definition.

(* ---- per production (rg_sound p L: p consumes only words of L; rg_complete p L F: p consumes every word of L
        when the rest of the input satisfies the follow condition F) ---- *)
Theorem C05_ref_sound_value : forall c, rg_sound (rg_value c) (RgValue c).
Proof. exact rg_value_sound. Qed.
Check C05_ref_sound_value : forall c, rg_sound (rg_value c) (RgValue c).
Print Assumptions C05_ref_sound_value.
Theorem C05_ref_complete_value : forall c F, rg_complete (rg_value c) (RgValue c) F.
Proof. exact rg_value_complete. Qed.
Check C05_ref_complete_value : forall c F, rg_complete (rg_value c) (RgValue c) F.
Print Assumptions C05_ref_complete_value.

Theorem C05_ref_sound_type : rg_sound rg_type RgType.
Proof. exact rg_type_sound. Qed.
Check C05_ref_sound_type : rg_sound rg_type RgType.
Print Assumptions C05_ref_sound_type.
Theorem C05_ref_complete_type : rg_complete rg_type RgType (rg_nh (rg_is TkBang)).
Proof. exact rg_type_complete. Qed.
Check C05_ref_complete_type : rg_complete rg_type RgType (rg_nh (rg_is TkBang)).
Print Assumptions C05_ref_complete_type.

Theorem C05_ref_sound_arguments : forall c, rg_sound (rg_arguments c) (RgArguments c).
Proof. exact rg_arguments_sound. Qed.
Check C05_ref_sound_arguments : forall c, rg_sound (rg_arguments c) (RgArguments c).
Print Assumptions C05_ref_sound_arguments.
Theorem C05_ref_complete_arguments : forall c F, rg_complete (rg_arguments c) (RgArguments c) F.
Proof. exact rg_arguments_complete. Qed.
Check C05_ref_complete_arguments : forall c F, rg_complete (rg_arguments c) (RgArguments c) F.
Print Assumptions C05_ref_complete_arguments.

Theorem C05_ref_sound_directives : forall c, rg_sound (rg_directives c) (RgDirectivesOpt c).
Proof. exact rg_directives_sound. Qed.
Check C05_ref_sound_directives : forall c, rg_sound (rg_directives c) (RgDirectivesOpt c).
Print Assumptions C05_ref_sound_directives.
Theorem C05_ref_complete_directives : forall c, rg_complete (rg_directives c) (RgDirectivesOpt c) rg_follow_dirs.
Proof. exact rg_directives_complete. Qed.
Check C05_ref_complete_directives : forall c, rg_complete (rg_directives c) (RgDirectivesOpt c) rg_follow_dirs.
Print Assumptions C05_ref_complete_directives.

Theorem C05_ref_sound_variable_definitions : rg_sound rg_vardefs RgVariableDefinitions.
Proof. exact rg_vardefs_sound. Qed.
Check C05_ref_sound_variable_definitions : rg_sound rg_vardefs RgVariableDefinitions.
Print Assumptions C05_ref_sound_variable_definitions.
Theorem C05_ref_complete_variable_definitions : forall F, rg_complete rg_vardefs RgVariableDefinitions F.
Proof. exact rg_vardefs_complete. Qed.
Check C05_ref_complete_variable_definitions : forall F, rg_complete rg_vardefs RgVariableDefinitions F.
Print Assumptions C05_ref_complete_variable_definitions.

Theorem C05_ref_sound_selection_set : rg_sound rg_selset RgSelectionSet.
Proof. exact rg_selset_sound. Qed.
Check C05_ref_sound_selection_set : rg_sound rg_selset RgSelectionSet.
Print Assumptions C05_ref_sound_selection_set.
Theorem C05_ref_complete_selection_set : forall F, rg_complete rg_selset RgSelectionSet F.
Proof. exact rg_selset_complete. Qed.
Check C05_ref_complete_selection_set : forall F, rg_complete rg_selset RgSelectionSet F.
Print Assumptions C05_ref_complete_selection_set.

Theorem C05_ref_sound_executable_definition : forall ts d r,
  rg_exec_definition ts = RgOk (d, r) -> exists pre, ts = pre ++ r /\ RgExecDefinition pre d.
Proof. exact rg_exec_definition_sound. Qed.
Check C05_ref_sound_executable_definition : forall ts d r,
  rg_exec_definition ts = RgOk (d, r) -> exists pre, ts = pre ++ r /\ RgExecDefinition pre d.
Print Assumptions C05_ref_sound_executable_definition.
Theorem C05_ref_complete_executable_definition : forall pre d,
  RgExecDefinition pre d -> forall r, rg_exec_definition (pre ++ r) = RgOk (d, r).
Proof. exact rg_exec_definition_complete. Qed.
Check C05_ref_complete_executable_definition : forall pre d,
  RgExecDefinition pre d -> forall r, rg_exec_definition (pre ++ r) = RgOk (d, r).
Print Assumptions C05_ref_complete_executable_definition.

Theorem C05_ref_sound_fields_definition : rg_sound rg_fieldsdef RgFieldsDefinition.
Proof. exact rg_fieldsdef_sound. Qed.
Check C05_ref_sound_fields_definition : rg_sound rg_fieldsdef RgFieldsDefinition.
Print Assumptions C05_ref_sound_fields_definition.
Theorem C05_ref_complete_fields_definition : forall F, rg_complete rg_fieldsdef RgFieldsDefinition F.
Proof. exact rg_fieldsdef_complete. Qed.
Check C05_ref_complete_fields_definition : forall F, rg_complete rg_fieldsdef RgFieldsDefinition F.
Print Assumptions C05_ref_complete_fields_definition.

(* ---- the reference's verdict on a source string (this theorem was called C05_accept_iff_partial before the
        parser model was linked; its statement is unchanged) ---- *)
Theorem C05_ref_source_iff : forall s ds,
  rg_parse_source s = Some ds <-> exists ts, rg_significant (lex_all s) = Some ts /\ RgDocument ts ds.
Proof. exact rg_parse_source_iff. Qed.
Check C05_ref_source_iff : forall s ds,
  rg_parse_source s = Some ds <-> exists ts, rg_significant (lex_all s) = Some ts /\ RgDocument ts ds.
Print Assumptions C05_ref_source_iff.

(* ---- non-vacuity: concrete documents on both sides of the boundary ---- *)
(* query Q($v: [Int!] = [1]) @d { a: f(x: {y: $v}) ... on T { b } }  type T implements I @d { f(a: Int = 1): [T!]! }  extend schema @d *)
Definition c05_ex_doc : str :=
  [113;117;101;114;121;32;81;40;36;118;58;32;91;73;110;116;33;93;32;61;32;91;49;93;41;32;64;100;32;123;32;97;58;32;102;
   40;120;58;32;123;121;58;32;36;118;125;41;32;46;46;46;32;111;110;32;84;32;123;32;98;32;125;32;125;32;116;121;112;101;32;
   84;32;105;109;112;108;101;109;101;110;116;115;32;73;32;64;100;32;123;32;102;40;97;58;32;73;110;116;32;61;32;49;41;58;32;
   91;84;33;93;33;32;125;32;101;120;116;101;110;100;32;115;99;104;101;109;97;32;64;100].
Example C05_nonvacuous_accept :
  rg_parse_source c05_ex_doc = Some [(RgkOperation, Some [81]); (RgkObjectDef, Some [84]); (RgkSchemaExt, None)].
Proof. vm_compute. reflexivity. Qed.
Example C05_nonvacuous_derivable : exists ts,
  rg_significant (lex_all c05_ex_doc) = Some ts /\
  RgDocument ts [(RgkOperation, Some [81]); (RgkObjectDef, Some [84]); (RgkSchemaExt, None)].
Proof. apply C05_ref_source_iff. vm_compute. reflexivity. Qed.
(* { f(a) } : an argument without a value is not in the grammar (known finding argument_without_value) *)
Example C05_nonvacuous_reject : rg_parse_source [123;32;102;40;97;41;32;125] = None.
Proof. vm_compute. reflexivity. Qed.
(* a variable in a Const position: query ($a: Int = $b) { a } *)
Example C05_nonvacuous_reject_const :
  rg_parse_source [113;117;101;114;121;32;40;36;97;58;32;73;110;116;32;61;32;36;98;41;32;123;32;97;32;125] = None.
Proof. vm_compute. reflexivity. Qed.

(* ================================================================== the parser against the reference
   parse_document_items dbg rl items = Parser::parse on the lexer's items; pr_errors = its error list;
   rg_significant = the tokens without Whitespace / Comment / Comma / Eof (None on a lexical error);
   rgl_document rgl_parser = the relaxed grammar with every relaxation on; rl_weight = number of `{`, `[`, `:`. *)

(* the parser's acceptance IS the relaxed grammar: no error -> no lexical error and a relaxed Document ... *)
Theorem C05_parser_is_relaxed_grammar : forall dbg rl s r,
  parse_document_items dbg rl (lex_all s) = POk r -> pr_errors r = [] ->
  exists ts ds, rg_significant (lex_all s) = Some ts /\ rgl_document rgl_parser ts = Some ds.
Proof. exact rl_document_exact_source. Qed.
Check C05_parser_is_relaxed_grammar : forall dbg rl s r,
  parse_document_items dbg rl (lex_all s) = POk r -> pr_errors r = [] ->
  exists ts ds, rg_significant (lex_all s) = Some ts /\ rgl_document rgl_parser ts = Some ds.
Print Assumptions C05_parser_is_relaxed_grammar.

(* ... and conversely *)
Theorem C05_relaxed_grammar_is_accepted : forall dbg rl s r ts ds,
  parse_document_items dbg rl (lex_all s) = POk r -> rg_significant (lex_all s) = Some ts ->
  rgl_document rgl_parser ts = Some ds -> rl_weight ts < rl -> pr_errors r = [].
Proof. exact rl_document_accepts_source. Qed.
Check C05_relaxed_grammar_is_accepted : forall dbg rl s r ts ds,
  parse_document_items dbg rl (lex_all s) = POk r -> rg_significant (lex_all s) = Some ts ->
  rgl_document rgl_parser ts = Some ds -> rl_weight ts < rl -> pr_errors r = [].
Print Assumptions C05_relaxed_grammar_is_accepted.

(* the relaxed grammar with every relaxation off is the reference; with any relaxations it contains it *)
Theorem C05_relaxed_strict_is_reference : forall ts, rgl_document rgl_strict ts = rg_document ts.
Proof. exact rgl_strict_document. Qed.
Check C05_relaxed_strict_is_reference : forall ts, rgl_document rgl_strict ts = rg_document ts.
Print Assumptions C05_relaxed_strict_is_reference.
Theorem C05_reference_in_relaxed : forall L ts ds, rg_document ts = Some ds -> rgl_document L ts = Some ds.
Proof. exact rgl_sub_document. Qed.
Check C05_reference_in_relaxed : forall L ts ds, rg_document ts = Some ds -> rgl_document L ts = Some ds.
Print Assumptions C05_reference_in_relaxed.

(* the property, outside the decidable class of the known leniency.  Since four of the five leniencies were repaired
   in /repo, rgl_parser has two relaxations left: a root operation type definition without its named type (the
   remaining known finding) and a list value ending at the end of the token list (never visible in a document) *)
Theorem C05_accept_iff_partial : forall dbg rl s r ts,
  parse_document_items dbg rl (lex_all s) = POk r ->
  rg_significant (lex_all s) = Some ts -> rgl_known_document ts = false -> rl_weight ts < rl ->
  (pr_errors r = [] <-> exists ds, rg_document ts = Some ds).
Proof. exact rl_document_accept_iff. Qed.
Check C05_accept_iff_partial : forall dbg rl s r ts,
  parse_document_items dbg rl (lex_all s) = POk r ->
  rg_significant (lex_all s) = Some ts -> rgl_known_document ts = false -> rl_weight ts < rl ->
  (pr_errors r = [] <-> exists ds, rg_document ts = Some ds).
Print Assumptions C05_accept_iff_partial.

(* the excluded class is exactly that ONE leniency: a token list in the class is a Document of the grammar whose only
   relaxation is `OperationType : NamedType?` (rgl_rootop_only), and not of the reference grammar.  The end-of-list
   relaxation never shows in a whole document, every value sits inside brackets that must still be closed
   (Parse/RefLenientEof.v) *)
Theorem C05_known_class_is_rootop : forall ts, rgl_known_document ts = true ->
  (exists ds, rgl_document rgl_rootop_only ts = Some ds) /\ rg_document ts = None.
Proof. exact rgl_known_document_is_rootop. Qed.
Check C05_known_class_is_rootop : forall ts, rgl_known_document ts = true ->
  (exists ds, rgl_document rgl_rootop_only ts = Some ds) /\ rg_document ts = None.
Print Assumptions C05_known_class_is_rootop.

(* no error -> no lexical error and a Document of that one-relaxation grammar (no bound on the recursion limit) *)
Theorem C05_parser_is_rootop_grammar : forall dbg rl s r,
  parse_document_items dbg rl (lex_all s) = POk r -> pr_errors r = [] ->
  exists ts ds, rg_significant (lex_all s) = Some ts /\ rgl_document rgl_rootop_only ts = Some ds.
Proof. exact rl_document_exact_rootop_only. Qed.
Check C05_parser_is_rootop_grammar : forall dbg rl s r,
  parse_document_items dbg rl (lex_all s) = POk r -> pr_errors r = [] ->
  exists ts ds, rg_significant (lex_all s) = Some ts /\ rgl_document rgl_rootop_only ts = Some ds.
Print Assumptions C05_parser_is_rootop_grammar.

(* one direction needs no exception: the parser accepts every document of the grammar *)
Theorem C05_reference_is_accepted : forall dbg rl s r ts ds,
  parse_document_items dbg rl (lex_all s) = POk r ->
  rg_significant (lex_all s) = Some ts -> rg_document ts = Some ds -> rl_weight ts < rl -> pr_errors r = [].
Proof. exact rl_document_reference_accepted. Qed.
Check C05_reference_is_accepted : forall dbg rl s r ts ds,
  parse_document_items dbg rl (lex_all s) = POk r ->
  rg_significant (lex_all s) = Some ts -> rg_document ts = Some ds -> rl_weight ts < rl -> pr_errors r = [].
Print Assumptions C05_reference_is_accepted.

Theorem C05_lexical_error_reported : forall dbg rl s r,
  parse_document_items dbg rl (lex_all s) = POk r -> rg_significant (lex_all s) = None -> pr_errors r <> [].
Proof. exact rl_document_lexical_error. Qed.
Check C05_lexical_error_reported : forall dbg rl s r,
  parse_document_items dbg rl (lex_all s) = POk r -> rg_significant (lex_all s) = None -> pr_errors r <> [].
Print Assumptions C05_lexical_error_reported.

(* the unrestricted statement is false of the code: the remaining known finding with its witness `schema { query: }`
   (rl_known_witness src: the model parses src with 0 errors, the reference rejects its tokens, they are in the class) *)
Theorem C05_accept_iff_refuted : rl_known_witness rl_w_root_operation_without_type.
Proof. exact rl_document_refuted. Qed.
Check C05_accept_iff_refuted : rl_known_witness rl_w_root_operation_without_type.
Print Assumptions C05_accept_iff_refuted.

(* the four repaired findings (fix: commits in /repo, model updated): each former witness of C05_accept_iff_refuted is
   now reported by the model, rejected by the reference, OUTSIDE the class rgl_known_document, and was accepted by the
   relaxed grammar of before the repairs (rgl_parser_old, every relaxation on) *)
Theorem C05_repaired_witnesses :
  rl_repaired_witness rl_w_argument_without_value /\ rl_repaired_witness rl_w_object_field_without_value /\
  rl_repaired_witness rl_w_description_before_fragment /\ rl_repaired_witness rl_w_schema_extension_empty_block.
Proof. exact rl_document_repaired. Qed.
Check C05_repaired_witnesses :
  rl_repaired_witness rl_w_argument_without_value /\ rl_repaired_witness rl_w_object_field_without_value /\
  rl_repaired_witness rl_w_description_before_fragment /\ rl_repaired_witness rl_w_schema_extension_empty_block.
Print Assumptions C05_repaired_witnesses.

(* the definition list, at the level of the grammars only: when the reference accepts, the relaxed grammar (the
   parser's acceptance) returns the same (kind, name) list.  NOT proved: that this list is the one read off the
   parser's tree by cst::Document::definitions() (full statement C05_definitions_agree in the header of DESIGN 4 C05). *)
Theorem C05_definitions_agree_grammar_partial : forall ts ds ds',
  rg_document ts = Some ds -> rgl_document rgl_parser ts = Some ds' -> ds' = ds.
Proof. exact rl_document_definitions_agree. Qed.
Check C05_definitions_agree_grammar_partial : forall ts ds ds',
  rg_document ts = Some ds -> rgl_document rgl_parser ts = Some ds' -> ds' = ds.
Print Assumptions C05_definitions_agree_grammar_partial.

(* the definitions in the TREE, kinds only: p_tree_def_kinds t = the definition kinds of the nodes directly under the
   DOCUMENT root of t, in order (what cst::Document::definitions() iterates over, through Definition::cast).
   Full statement C05_definitions_agree_partial (kinds AND names) is not proved: the names are missing. *)
Theorem C05_definition_kinds_agree_partial : forall dbg rl s r ts ds,
  parse_document_items dbg rl (lex_all s) = POk r -> pr_errors r = [] ->
  rg_significant (lex_all s) = Some ts -> rg_document ts = Some ds ->
  p_tree_def_kinds (pr_tree r) = map fst ds.
Proof. exact rl_document_kinds_agree. Qed.
Check C05_definition_kinds_agree_partial : forall dbg rl s r ts ds,
  parse_document_items dbg rl (lex_all s) = POk r -> pr_errors r = [] ->
  rg_significant (lex_all s) = Some ts -> rg_document ts = Some ds ->
  p_tree_def_kinds (pr_tree r) = map fst ds.
Print Assumptions C05_definition_kinds_agree_partial.

(* ... also inside the class rgl_known_document, against the relaxed grammar *)
Theorem C05_definition_kinds_relaxed : forall dbg rl s r ts ds,
  parse_document_items dbg rl (lex_all s) = POk r -> pr_errors r = [] ->
  rg_significant (lex_all s) = Some ts -> rgl_document rgl_parser ts = Some ds ->
  p_tree_def_kinds (pr_tree r) = map fst ds.
Proof. exact rl_document_kinds_source. Qed.
Check C05_definition_kinds_relaxed : forall dbg rl s r ts ds,
  parse_document_items dbg rl (lex_all s) = POk r -> pr_errors r = [] ->
  rg_significant (lex_all s) = Some ts -> rgl_document rgl_parser ts = Some ds ->
  p_tree_def_kinds (pr_tree r) = map fst ds.
Print Assumptions C05_definition_kinds_relaxed.

(* non-vacuity: the tree the model builds for the example document has an operation, an object type definition and a
   schema extension under its root, as the reference says *)
Example C05_kinds_nonvacuous :
  rl_tree_kinds_of (parse_document_items false 500 (lex_all c05_ex_doc)) = Some [RgkOperation; RgkObjectDef; RgkSchemaExt] /\
  option_map (map fst) (rg_parse_source c05_ex_doc) = Some [RgkOperation; RgkObjectDef; RgkSchemaExt].
Proof. split; vm_compute; reflexivity. Qed.

(* non-vacuity of C05_accept_iff_partial: the example document above is parsed without error by the model, its tokens
   are outside the known class, within the recursion budget, and the reference accepts them *)
Example C05_link_nonvacuous :
  rl_errs_of (parse_document_items false 500 (lex_all c05_ex_doc)) = Some 0 /\
  exists ts, rg_significant (lex_all c05_ex_doc) = Some ts /\ rgl_known_document ts = false /\
             N.ltb (rl_weight ts) 500 = true /\ rg_document ts <> None.
Proof.
  split; [vm_compute; reflexivity|]. eexists. split; [vm_compute; reflexivity|].
  split; [vm_compute; reflexivity|]. split; [vm_compute; reflexivity|]. vm_compute. discriminate.
Qed.
