(* C32 placeholder while the proofs are written *)
From ApolloVerif Require Import Base.Chars Ast.Ast Smith.Names.
Theorem C32_trim_idempotent_nil : nm_trim_end [] = [].
Proof. reflexivity. Qed.
Check C32_trim_idempotent_nil : nm_trim_end [] = [].
Print Assumptions C32_trim_idempotent_nil.
