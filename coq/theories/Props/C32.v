(* C32 — apollo-smith generates valid documents deterministically.
   Property theorems only: each closed by `exact <lemma>`, pinned by Check, followed by Print Assumptions.

   PARTIAL, explicitly.  The property's full statement — for every byte string DocumentBuilder::build reports
   exhaustion or returns a document that parses and validates as a mixed document; operations generated against
   a parsed schema are valid against it — is NOT a theorem: the ~5 kLoC generator has no model as a whole.  It is
   decided by the end-to-end oracle of harness/src/c32.rs over sampled byte strings, which FINDS invalid
   documents on the unchanged tree (known_findings.d/C32.json).  What is proved are the three mechanisms the
   property names, over the models Smith/Names.v, Smith/Closure.v, Smith/Prune.v, and the depth bounds of the two
   nesting recursions over Smith/Depth.v:
     unique type names  : C32_names_unique, C32_limited_string_valid, C32_limited_string_terminates
     implements closure : C32_closure_is_reachability, C32_closure_acyclic, C32_closure_acyclic_objects,
                          C32_closure_complete_partial (+ objects), C32_closure_fields_local
     fragment pruning   : C32_prune_exact, C32_prune_no_new_cycle, C32_prune_terminates
     nesting depth      : C32_type_nesting_bounded, C32_selection_nesting_bounded,
                          C32_selection_recursion_terminates over Smith/Depth.v (the depth bounds of repairs
                          fix2-c32-3/4); the unbounded code: C32_type_nesting_old_refuted,
                          C32_selection_recursion_old_refuted
     no repeated interface : C32_closure_no_duplicates (+ interfaces); the code before repair fix2-c32-1 let an
                          object extension repeat an interface (C32_closure_duplicates_old_refuted, kept over
                          the `_old` definition)
   and one refutation of what the closure/backfill mechanism is meant to guarantee:
     C32_closure_fields_refuted      : an inherited field does NOT always get the inherited type.
   Full statement of C32_closure_complete (design): "after backfill every object/interface lists the transitive
   closure of its interfaces and has every inherited field with the inherited type".  The first half is
   C32_closure_complete_partial; the second half is false of the faithful model (C32_closure_fields_refuted) and of
   the code (known finding inherited-field-signature-conflict); what does hold is local: one backfill iteration
   gives `name` every field of the first-wins union of its DIRECT parents (C32_closure_fields_local), so the
   failure is exactly a disagreement between parents.
   Determinism ("the same bytes always give the same document") is immediate for the models (they are functions)
   and is checked on the implementation by the oracle (two generations per byte string). *)
From Coq Require Import Relations.
From ApolloVerif Require Import Base.Chars Ast.Ast Smith.Names Smith.NamesProofs Smith.Prune Smith.PruneProofs
  Smith.Closure Smith.ClosureProofs Smith.ClosureExamples Smith.ClosureFields Smith.Depth Smith.DepthProofs.

(* ---- unique type names ---- *)

(* type_name's suffix loop: a name not yet used, the set stays duplicate-free, at most |used| + 1 iterations *)
Theorem C32_names_unique : forall used base, NoDup used ->
  exists name iters,
    nm_fresh used base = Some (name, name :: used, iters) /\
    ~ In name used /\ NoDup (name :: used) /\ iters <= N.of_nat (length used) + 1.
Proof. exact nm_fresh_spec. Qed.
Check C32_names_unique : forall used base, NoDup used ->
  exists name iters,
    nm_fresh used base = Some (name, name :: used, iters) /\
    ~ In name used /\ NoDup (name :: used) /\ iters <= N.of_nat (length used) + 1.
Print Assumptions C32_names_unique.

(* limited_string over ANY source that answers within the requested range: a valid GraphQL name starting with a
   letter, not ending in `_`, not reserved, of at most max_size characters *)
Theorem C32_limited_string_valid : forall (Src : Type) (draw : N -> N -> Src -> N * Src),
  (forall lo hi src, lo <= hi -> lo <= fst (draw lo hi src) <= hi) ->
  forall fuel max_size src t s',
  1 <= max_size ->
  nm_limited_string draw fuel max_size src = Some (t, s') ->
  is_valid_name t = true /\ ~ In t nm_reserved /\
  (exists c r, t = c :: r /\ is_alpha c = true) /\
  (forall l c, t = l ++ [c] -> c <> 95) /\
  N.of_nat (length t) <= max_size.
Proof. exact (fun Src draw H fuel => @nm_limited_string_ok Src draw H fuel). Qed.
Check C32_limited_string_valid : forall (Src : Type) (draw : N -> N -> Src -> N * Src),
  (forall lo hi src, lo <= hi -> lo <= fst (draw lo hi src) <= hi) ->
  forall fuel max_size src t s',
  1 <= max_size ->
  nm_limited_string draw fuel max_size src = Some (t, s') ->
  is_valid_name t = true /\ ~ In t nm_reserved /\
  (exists c r, t = c :: r /\ is_alpha c = true) /\
  (forall l c, t = l ++ [c] -> c <> 95) /\
  N.of_nat (length t) <= max_size.
Print Assumptions C32_limited_string_valid.

(* over arbitrary's byte source the retry loop finishes within |bytes| + 1 iterations *)
Theorem C32_limited_string_terminates : forall n bytes,
  length bytes = n -> exists r, nm_limited_string nm_int_in_range (S n) 30 bytes = Some r.
Proof. exact nm_limited_string_terminates. Qed.
Check C32_limited_string_terminates : forall n bytes,
  length bytes = n -> exists r, nm_limited_string nm_int_in_range (S n) 30 bytes = Some r.
Print Assumptions C32_limited_string_terminates.

(* ---- implements closure ---- *)

(* ImplementsGraph::closure (BFS) is reachability *)
Theorem C32_closure_is_reachability : forall g start,
  ClWf g -> In start (clg_nodes g) ->
  exists cls, cl_closure g start = Some cls /\ forall y, In y cls <-> ClReach g start y.
Proof. exact cl_closure_exact. Qed.
Check C32_closure_is_reachability : forall g start,
  ClWf g -> In start (clg_nodes g) ->
  exists cls, cl_closure g start = Some cls /\ forall y, In y cls <-> ClReach g start y.
Print Assumptions C32_closure_is_reachability.

(* candidate rejection keeps the graph acyclic: any interface definition or extension, any candidates *)
Theorem C32_closure_acyclic : forall st extend name cands new_fields st',
  ClWf (cls_graph st) -> ClAcyclic (cls_graph st) ->
  cl_add_interface st extend name cands new_fields = Some st' ->
  ClWf (cls_graph st') /\ ClAcyclic (cls_graph st').
Proof. exact cl_add_interface_acyclic. Qed.
Check C32_closure_acyclic : forall st extend name cands new_fields st',
  ClWf (cls_graph st) -> ClAcyclic (cls_graph st) ->
  cl_add_interface st extend name cands new_fields = Some st' ->
  ClWf (cls_graph st') /\ ClAcyclic (cls_graph st').
Print Assumptions C32_closure_acyclic.

(* objects: the graph stays acyclic because the object's name is no edge target and no candidate (type names
   are unique, candidates are interfaces); the cycle test made since repair fix2-c32-1 is not needed for it *)
Theorem C32_closure_acyclic_objects : forall st extend name cands new_fields st',
  ClWf (cls_graph st) -> ClAcyclic (cls_graph st) ->
  (forall a, ~ ClEdge (cls_graph st) a name) -> ~ In name cands ->
  cl_add_object st extend name cands new_fields = Some st' ->
  ClWf (cls_graph st') /\ ClAcyclic (cls_graph st') /\ forall a, ~ ClEdge (cls_graph st') a name.
Proof. exact cl_add_object_acyclic. Qed.
Check C32_closure_acyclic_objects : forall st extend name cands new_fields st',
  ClWf (cls_graph st) -> ClAcyclic (cls_graph st) ->
  (forall a, ~ ClEdge (cls_graph st) a name) -> ~ In name cands ->
  cl_add_object st extend name cands new_fields = Some st' ->
  ClWf (cls_graph st') /\ ClAcyclic (cls_graph st') /\ forall a, ~ ClEdge (cls_graph st') a name.
Print Assumptions C32_closure_acyclic_objects.

(* after the interface backfill every interface lists, over its definition and extensions, exactly the
   interfaces reachable from it (any order containing its name; toposort's order is a parameter) *)
Theorem C32_closure_complete_partial : forall order st st',
  ClWf (cls_graph st) -> ClAcyclic (cls_graph st) ->
  (forall n p, In p (cl_declared (cls_ifaces st) n) -> ClEdge (cls_graph st) n p) ->
  cl_backfill_interfaces order st = Some st' ->
  forall name, In name order -> (exists d, In d (cls_ifaces st) /\ cld_name d = name) ->
  forall p, In p (cl_declared (cls_ifaces st') name) <-> ClPath (cls_graph st) name p.
Proof. exact cl_backfill_interfaces_closed. Qed.
Check C32_closure_complete_partial : forall order st st',
  ClWf (cls_graph st) -> ClAcyclic (cls_graph st) ->
  (forall n p, In p (cl_declared (cls_ifaces st) n) -> ClEdge (cls_graph st) n p) ->
  cl_backfill_interfaces order st = Some st' ->
  forall name, In name order -> (exists d, In d (cls_ifaces st) /\ cld_name d = name) ->
  forall p, In p (cl_declared (cls_ifaces st') name) <-> ClPath (cls_graph st) name p.
Print Assumptions C32_closure_complete_partial.

Theorem C32_closure_complete_objects_partial : forall st st',
  ClWf (cls_graph st) -> ClAcyclic (cls_graph st) ->
  (forall n p, In p (cl_declared (cls_objs st) n) -> ClEdge (cls_graph st) n p) ->
  cl_backfill_objects st = Some st' ->
  forall name, (exists d, In d (cls_objs st) /\ cld_name d = name) ->
  forall p, In p (cl_declared (cls_objs st') name) <-> ClPath (cls_graph st) name p.
Proof. exact cl_backfill_objects_closed. Qed.
Check C32_closure_complete_objects_partial : forall st st',
  ClWf (cls_graph st) -> ClAcyclic (cls_graph st) ->
  (forall n p, In p (cl_declared (cls_objs st) n) -> ClEdge (cls_graph st) n p) ->
  cl_backfill_objects st = Some st' ->
  forall name, (exists d, In d (cls_objs st) /\ cld_name d = name) ->
  forall p, In p (cl_declared (cls_objs st') name) <-> ClPath (cls_graph st) name p.
Print Assumptions C32_closure_complete_objects_partial.

(* what one backfill iteration guarantees about fields: every field of the inherited map (the first-wins union of
   the direct parents' fields, read when `name` is reconciled) is afterwards the field `name` has under that name *)
Theorem C32_closure_fields_local : forall is_iface ifaces defs g name defs',
  cl_backfill_one is_iface ifaces defs g name = Some defs' ->
  (exists d, In d defs /\ cld_name d = name) ->
  forall pf, In pf (cl_parent_fields (cl_direct_parents g name) (if is_iface then defs else ifaces)) ->
  cl_sig_get (cl_fields_of defs' name) (clf_name pf) = Some pf.
Proof. exact cl_backfill_one_inherits. Qed.
Check C32_closure_fields_local : forall is_iface ifaces defs g name defs',
  cl_backfill_one is_iface ifaces defs g name = Some defs' ->
  (exists d, In d defs /\ cld_name d = name) ->
  forall pf, In pf (cl_parent_fields (cl_direct_parents g name) (if is_iface then defs else ifaces)) ->
  cl_sig_get (cl_fields_of defs' name) (clf_name pf) = Some pf.
Print Assumptions C32_closure_fields_local.

(* "every inherited field has the inherited type" is false: A5 implements A3 { f: T! } and A1; A1 is later
   extended with f: T; the backfill gives A5 the field f: T *)
Theorem C32_closure_fields_refuted :
  exists st, cx_conflict_run = Some st /\
    In cx_A3 (cl_declared (cls_ifaces st) cx_A5) /\
    cl_sig_get (cl_fields_of (cls_ifaces st) cx_A3) cx_f = Some (cx_fld cx_f cx_Tnn) /\
    cl_sig_get (cl_fields_of (cls_ifaces st) cx_A5) cx_f = Some (cx_fld cx_f cx_T) /\
    cl_fields_inherited (cls_ifaces st) (cls_ifaces st) = false /\
    cl_parents_conflict (cls_ifaces st) (cls_ifaces st) = true.
Proof. exact cx_conflict_refutes. Qed.
Check C32_closure_fields_refuted :
  exists st, cx_conflict_run = Some st /\
    In cx_A3 (cl_declared (cls_ifaces st) cx_A5) /\
    cl_sig_get (cl_fields_of (cls_ifaces st) cx_A3) cx_f = Some (cx_fld cx_f cx_Tnn) /\
    cl_sig_get (cl_fields_of (cls_ifaces st) cx_A5) cx_f = Some (cx_fld cx_f cx_T) /\
    cl_fields_inherited (cls_ifaces st) (cls_ifaces st) = false /\
    cl_parents_conflict (cls_ifaces st) (cls_ifaces st) = true.
Print Assumptions C32_closure_fields_refuted.

(* an object definition or extension lists no interface the object already lists, and no interface twice
   (object_type_definition hands additional_implements the object's name since repair fix2-c32-1): over any
   sequence of additions every declared list stays duplicate-free and inside the graph's edges *)
Theorem C32_closure_no_duplicates : forall st extend name cands new_fields st',
  ClWf (cls_graph st) ->
  (forall n p, In p (cl_declared (cls_objs st) n) -> ClEdge (cls_graph st) n p) ->
  (forall n, NoDup (cl_declared (cls_objs st) n)) ->
  cl_add_object st extend name cands new_fields = Some st' ->
  (forall n, NoDup (cl_declared (cls_objs st') n)) /\
  (forall n p, In p (cl_declared (cls_objs st') n) -> ClEdge (cls_graph st') n p).
Proof. exact cl_add_object_nodup. Qed.
Check C32_closure_no_duplicates : forall st extend name cands new_fields st',
  ClWf (cls_graph st) ->
  (forall n p, In p (cl_declared (cls_objs st) n) -> ClEdge (cls_graph st) n p) ->
  (forall n, NoDup (cl_declared (cls_objs st) n)) ->
  cl_add_object st extend name cands new_fields = Some st' ->
  (forall n, NoDup (cl_declared (cls_objs st') n)) /\
  (forall n p, In p (cl_declared (cls_objs st') n) -> ClEdge (cls_graph st') n p).
Print Assumptions C32_closure_no_duplicates.

(* the same for interface definitions and extensions *)
Theorem C32_closure_no_duplicates_interfaces : forall st extend name cands new_fields st',
  ClWf (cls_graph st) ->
  (forall n p, In p (cl_declared (cls_ifaces st) n) -> ClEdge (cls_graph st) n p) ->
  (forall n, NoDup (cl_declared (cls_ifaces st) n)) ->
  cl_add_interface st extend name cands new_fields = Some st' ->
  (forall n, NoDup (cl_declared (cls_ifaces st') n)) /\
  (forall n p, In p (cl_declared (cls_ifaces st') n) -> ClEdge (cls_graph st') n p).
Proof. exact cl_add_interface_nodup. Qed.
Check C32_closure_no_duplicates_interfaces : forall st extend name cands new_fields st',
  ClWf (cls_graph st) ->
  (forall n p, In p (cl_declared (cls_ifaces st) n) -> ClEdge (cls_graph st) n p) ->
  (forall n, NoDup (cl_declared (cls_ifaces st) n)) ->
  cl_add_interface st extend name cands new_fields = Some st' ->
  (forall n, NoDup (cl_declared (cls_ifaces st') n)) /\
  (forall n p, In p (cl_declared (cls_ifaces st') n) -> ClEdge (cls_graph st') n p).
Print Assumptions C32_closure_no_duplicates_interfaces.

(* the code before repair fix2-c32-1 (self_name = None for objects): an object extension could repeat an
   interface the object already implements *)
Theorem C32_closure_duplicates_old_refuted :
  exists st, cx_dup_run_old = Some st /\ cl_declared (cls_objs st) cx_O = [cx_A1; cx_A1] /\
             cl_dup_implements (cls_objs st) = true.
Proof. exact cx_dup_old_refutes. Qed.
Check C32_closure_duplicates_old_refuted :
  exists st, cx_dup_run_old = Some st /\ cl_declared (cls_objs st) cx_O = [cx_A1; cx_A1] /\
             cl_dup_implements (cls_objs st) = true.
Print Assumptions C32_closure_duplicates_old_refuted.

(* ---- nesting depth (Smith/Depth.v: the recursions of ty.rs and selection_set.rs / field.rs / fragment.rs) ---- *)

(* choose_ty: at most MAX_TY_DEPTH list / non-null wrappers, within MAX_TY_DEPTH + 1 levels of recursion, for
   every source (repair fix2-c32-4; generate_ty is the same recursion with another leaf, sd_gen_ty_bounded) *)
Theorem C32_type_nesting_bounded : forall (Src : Type) (draw : N -> N -> Src -> N * Src) ntypes src,
  exists r, sd_choose_ty draw 11 (Some sd_max_ty_depth) ntypes src = r /\ r <> SdFuel /\
            forall t s', r = SdOk (t, s') -> sd_wrappers t <= sd_max_ty_depth.
Proof. exact (fun Src draw => @sd_choose_ty_bounded Src draw). Qed.
Check C32_type_nesting_bounded : forall (Src : Type) (draw : N -> N -> Src -> N * Src) ntypes src,
  exists r, sd_choose_ty draw 11 (Some sd_max_ty_depth) ntypes src = r /\ r <> SdFuel /\
            forall t s', r = SdOk (t, s') -> sd_wrappers t <= sd_max_ty_depth.
Print Assumptions C32_type_nesting_bounded.

(* the code before the repair (no bound), over arbitrary's byte source: 501 bytes of value 1 give a type with 501
   list wrappers, beyond the parser's recursion limit of 500 *)
Theorem C32_type_nesting_old_refuted :
  exists t rest, sd_choose_ty nm_int_in_range 600 None 6 (repeat 1 501) = SdOk (t, rest) /\
                 sd_lists t = 501 /\ 500 < sd_wrappers t.
Proof. exact sd_choose_ty_old_unbounded. Qed.
Check C32_type_nesting_old_refuted :
  exists t rest, sd_choose_ty nm_int_in_range 600 None 6 (repeat 1 501) = SdOk (t, rest) /\
                 sd_lists t = 501 /\ 500 < sd_wrappers t.
Print Assumptions C32_type_nesting_old_refuted.

(* selection_set() of an operation or fragment definition: the selection sets (of fields and of inline
   fragments) nest at most MAX_SELECTION_SET_DEPTH deep, for every schema and every source (repair fix2-c32-3) *)
Theorem C32_selection_nesting_bounded : forall (Src : Type) (draw : N -> N -> Src -> N * Src) skip spread schema
    fuel cur src r s',
  sd_run draw skip spread fuel (Some sd_max_selection_set_depth) schema (SdCallSet cur 0) src = SdOk (r, s') ->
  1 + sd_sels_depth r <= sd_max_selection_set_depth.
Proof. exact (fun Src draw => @sd_selection_set_bounded Src draw). Qed.
Check C32_selection_nesting_bounded : forall (Src : Type) (draw : N -> N -> Src -> N * Src) skip spread schema
    fuel cur src r s',
  sd_run draw skip spread fuel (Some sd_max_selection_set_depth) schema (SdCallSet cur 0) src = SdOk (r, s') ->
  1 + sd_sels_depth r <= sd_max_selection_set_depth.
Print Assumptions C32_selection_nesting_bounded.

(* and it ends within 80 levels of the model's recursion on every schema, recursive types included, for every
   source that answers within the requested range *)
Theorem C32_selection_recursion_terminates : forall (Src : Type) (draw : N -> N -> Src -> N * Src) skip spread
    schema cur src,
  (forall lo hi s, lo <= hi -> lo <= fst (draw lo hi s) <= hi) ->
  sd_run draw skip spread 80 (Some sd_max_selection_set_depth) schema (SdCallSet cur 0) src <> SdFuel.
Proof. exact (fun Src draw => @sd_selection_set_terminates Src draw). Qed.
Check C32_selection_recursion_terminates : forall (Src : Type) (draw : N -> N -> Src -> N * Src) skip spread
    schema cur src,
  (forall lo hi s, lo <= hi -> lo <= fst (draw lo hi s) <= hi) ->
  sd_run draw skip spread 80 (Some sd_max_selection_set_depth) schema (SdCallSet cur 0) src <> SdFuel.
Print Assumptions C32_selection_recursion_terminates.

(* the code before the repair on `type Query { q: Query }` with an exhausted source: no result for any fuel
   (the stack overflow of the former class operation-unbounded-selection-recursion) *)
Theorem C32_selection_recursion_old_refuted : forall fuel,
  sd_run sd_exhausted (fun s => s) (fun _ => None) fuel None sd_rec_schema (SdCallSet [SdComposite 0] 0) tt = SdFuel.
Proof. exact sd_selection_set_old_diverges. Qed.
Check C32_selection_recursion_old_refuted : forall fuel,
  sd_run sd_exhausted (fun s => s) (fun _ => None) fuel None sd_rec_schema (SdCallSet [SdComposite 0] 0) tt = SdFuel.
Print Assumptions C32_selection_recursion_old_refuted.

(* ---- fragment pruning ---- *)

Theorem C32_prune_exact : forall fuel ops frags kept,
  pr_prune fuel ops frags = Some kept ->
  kept = filter (fun fr => pr_mem (fst fr) (map fst kept)) frags /\
  (forall fr, In fr kept <-> In fr frags /\ PrReach ops frags (fst fr)) /\
  (forall sels n body,
     (In sels ops \/ exists m, pr_find kept m = Some sels) -> PrOcc n sels ->
     pr_find frags n = Some body -> pr_find kept n = Some body) /\
  (forall a b, PrEdge kept a b -> PrEdge frags a b).
Proof. exact pr_prune_exact. Qed.
Check C32_prune_exact : forall fuel ops frags kept,
  pr_prune fuel ops frags = Some kept ->
  kept = filter (fun fr => pr_mem (fst fr) (map fst kept)) frags /\
  (forall fr, In fr kept <-> In fr frags /\ PrReach ops frags (fst fr)) /\
  (forall sels n body,
     (In sels ops \/ exists m, pr_find kept m = Some sels) -> PrOcc n sels ->
     pr_find frags n = Some body -> pr_find kept n = Some body) /\
  (forall a b, PrEdge kept a b -> PrEdge frags a b).
Print Assumptions C32_prune_exact.

Theorem C32_prune_no_new_cycle : forall fuel ops frags kept,
  pr_prune fuel ops frags = Some kept ->
  forall a, clos_trans _ (PrEdge kept) a a -> clos_trans _ (PrEdge frags) a a.
Proof. exact pr_prune_no_new_cycle. Qed.
Check C32_prune_no_new_cycle : forall fuel ops frags kept,
  pr_prune fuel ops frags = Some kept ->
  forall a, clos_trans _ (PrEdge kept) a a -> clos_trans _ (PrEdge frags) a a.
Print Assumptions C32_prune_no_new_cycle.

Theorem C32_prune_terminates : forall ops frags, exists kept, pr_prune (pr_fuel ops frags) ops frags = Some kept.
Proof. exact pr_prune_total. Qed.
Check C32_prune_terminates : forall ops frags, exists kept, pr_prune (pr_fuel ops frags) ops frags = Some kept.
Print Assumptions C32_prune_terminates.

(* ---- non-vacuity ---- *)
Example C32_names_nonvacuous :
  nm_fresh [[65]; [65; 48]] [65] = Some ([65; 49], [[65; 49]; [65]; [65; 48]], 3) /\
  nm_type_names 3 [] [] = Some [[65]; [65; 48]; [65; 49]].
Proof. split; vm_compute; reflexivity. Qed.

(* a run of the closure model meeting the hypotheses of the closure theorems, with the conclusions computed *)
Example C32_closure_nonvacuous :
  ClWf (cls_graph cl_init) /\ ClAcyclic (cls_graph cl_init) /\
  exists st, cx_good_run = Some st /\
    cl_declared (cls_ifaces st) cx_A5 = [cx_A3; cx_A1] /\
    cl_declared (cls_objs st) cx_O = [cx_A5; cx_A1; cx_A3] /\
    cl_fields_inherited (cls_ifaces st) (cls_ifaces st) = true /\
    cl_fields_inherited (cls_ifaces st) (cls_objs st) = true /\
    cl_acyclic (cls_graph st) = Some true.
Proof. split; [apply cx_init_wf|]. split; [apply cx_init_wf|]. exact cx_good_facts. Qed.

(* the run that repeated A1 before the repair meets the hypotheses of C32_closure_no_duplicates at every step
   (it starts from cl_init) and now ends with `type O implements A1` + `extend type O` without `implements` *)
Example C32_no_duplicates_nonvacuous :
  exists st, cx_dup_run = Some st /\ cl_declared (cls_objs st) cx_O = [cx_A1] /\
             cl_dup_implements (cls_objs st) = false.
Proof. exact cx_dup_run_facts. Qed.

(* the witnesses of the two `_old` refutations under the code as it is: ten wrappers, ten selection sets *)
Example C32_nesting_nonvacuous :
  (exists t rest, sd_choose_ty nm_int_in_range 11 (Some sd_max_ty_depth) 6 (repeat 1 501) = SdOk (t, rest) /\
                  sd_wrappers t = 10) /\
  (exists r, sd_run sd_exhausted (fun s => s) (fun _ => None) 80 (Some sd_max_selection_set_depth) sd_rec_schema
                    (SdCallSet [SdComposite 0] 0) tt = SdOk (r, tt) /\ 1 + sd_sels_depth r = 10) /\
  (forall lo hi s, lo <= hi -> lo <= fst (sd_exhausted lo hi s) <= hi).
Proof.
  split; [exact sd_choose_ty_same_bytes_bounded|]. split; [exact sd_selection_set_same_case_bounded|].
  intros lo hi s H. cbn [sd_exhausted fst]. split; [apply N.le_refl|exact H].
Qed.

(* query { ...A }  fragment A { ...B }  fragment B { x }  fragment C { ...B } : C is pruned, A and B stay *)
Example C32_prune_nonvacuous :
  let sp n := SSpread n [] in
  pr_prune 10 [[sp [65]]] [([65], [sp [66]]); ([66], [SField None [120] [] [] []]); ([67], [sp [66]])]
  = Some [([65], [sp [66]]); ([66], [SField None [120] [] [] []])].
Proof. vm_compute. reflexivity. Qed.
