(* C26 — Execution follows the GraphQL execution algorithm.
   Property theorems only (Run/ExecTheorems.v), pinned by Check, followed by Print Assumptions. *)
From Coq Require Import ZArith String.
From ApolloVerif Require Import Base.Chars Ast.Ast Schema.Model Run.Json Run.Coerce Run.TypedDoc Run.Prog
  Run.Execute Run.ExecTop Run.RefExecute Run.ExecKnown Run.ExecTheorems.
Local Open Scope string_scope.
Local Open Scope list_scope.

(* The full statement is false of the faithful model: with `interface I { f: Int }  type T implements I { f: Int! }
   type Query { i: I }`, the document `{ i { f } }` and a T whose f resolves to null, the code's response has null
   at the non-null position T.f and no error; the reference propagates the null to `i` and reports the error. *)
Theorem C26_covariant_refuted :
  (exists d, td_build x_cov_schema x_cov_doc = Some d /\ known_covariant x_cov_schema d = true) /\
  fst (execute_request x_cov_schema x_cov_doc [] x_cov_world) =
    EoResponse {| er_data := Some [(xs "i", JObj [(xs "f", JNull)])]; er_errors := [] |} /\
  ref_execute x_cov_schema x_cov_doc [] x_cov_world =
    EoResponse {| er_data := Some [(xs "i", JNull)];
                  er_errors := [{| ge_class := EcNull; ge_path := [PsKey (xs "i"); PsKey (xs "f")] |}] |}.
Proof. exact c26_covariant_refuted. Qed.
Check C26_covariant_refuted :
  (exists d, td_build x_cov_schema x_cov_doc = Some d /\ known_covariant x_cov_schema d = true) /\
  fst (execute_request x_cov_schema x_cov_doc [] x_cov_world) =
    EoResponse {| er_data := Some [(xs "i", JObj [(xs "f", JNull)])]; er_errors := [] |} /\
  ref_execute x_cov_schema x_cov_doc [] x_cov_world =
    EoResponse {| er_data := Some [(xs "i", JNull)];
                  er_errors := [{| ge_class := EcNull; ge_path := [PsKey (xs "i"); PsKey (xs "f")] |}] |}.
Print Assumptions C26_covariant_refuted.
